/-
  FinishBuf1 — where an observation's data is: each observation occurs at most
  once among the buffer's lists and the tier moves in flight, so it is handed
  to the scheduler at most once.
-/
import TopsimProofs.FinishFrame

namespace Topsim
namespace Sys

/-- the four lists of the buffer an observation may sit in -/
def bufList (b : Buffer) : List Oid := b.hot.stored ++ b.hot.scheduled ++ b.hot.finished ++ b.cold.stored

/-- the observation a live tier move carries -/
def tokK (k : PK) : List Oid :=
  match k with
  | .hot2cold (some (o, l)) => if 0 < l then [o] else []
  | .cold2hot (some (o, l)) => if 0 < l then [o] else []
  | _ => []

def tok (p : Proc) : List Oid := if p.alive then tokK p.k else []

def toks (s : Sys) : List Oid := s.procs.flatMap tok

/-- number of places observation `o` is at -/
def locCount (s : Sys) (o : Oid) : Nat := (bufList s.buf).count o + (toks s).count o

structure BufI (s : Sys) : Prop where
  cnt : ∀ o, locCount s o ≤ 1
  strFree : ∀ p ∈ s.procs, p.alive = true → ∀ o tl, p.k = .ingestStream o tl → locCount s o = 0
  strUniq : ∀ p ∈ s.procs, ∀ q ∈ s.procs, ∀ o tl tl',
    p.k = .ingestStream o tl → q.k = .ingestStream o tl' → p.pid = q.pid
  strObs : ∀ p ∈ s.procs, ∀ o tl, p.k = .ingestStream o tl → Begun s.obs o
  locObs : ∀ o, 0 < locCount s o → Begun s.obs o
  planLoc : ∀ pl ∈ s.plans, pl.obs ∈ s.buf.hot.scheduled ++ s.buf.hot.finished

theorem tok_of_tag {p : Proc} (h1 : p.k.tag ≠ "hot2cold") (h2 : p.k.tag ≠ "cold2hot") : tok p = [] := by
  unfold tok tokK
  split
  · split
    · rename_i hk; rw [hk] at h1; exact absurd rfl h1
    · rename_i hk; rw [hk] at h2; exact absurd rfl h2
    · rfl
  · rfl

theorem tok_dead {p : Proc} (h : p.alive = false) : tok p = [] := by
  unfold tok; simp [h]

/-- tokens after the bookkeeping on one entry -/
theorem count_flatMap_upd {l : List Proc} (hnd : (l.map (·.pid)).Nodup) {p : Proc} (hp : p ∈ l)
    (g : Proc → Proc) (o : Oid) :
    ((l.map (fun q => if q.pid = p.pid then g q else q)).flatMap tok).count o + (tok p).count o
      = (l.flatMap tok).count o + (tok (g p)).count o := by
  induction l with
  | nil => simp at hp
  | cons x r ih =>
    simp only [List.map_cons, List.nodup_cons] at hnd
    simp only [List.map_cons, List.flatMap_cons, List.count_append]
    rcases List.mem_cons.mp hp with rfl | hp'
    · -- the head is the entry; the tail has no entry with this pid
      have htail : r.map (fun q => if q.pid = p.pid then g q else q) = r := by
        rw [List.map_congr_left (g := id)]
        · simp
        · intro q hq
          have : q.pid ≠ p.pid := fun e => hnd.1 (e ▸ List.mem_map_of_mem hq)
          simp [this]
      rw [htail]
      simp only [if_true]
      omega
    · have hx : x.pid ≠ p.pid := fun e => hnd.1 (e ▸ List.mem_map_of_mem hp')
      simp only [hx, if_false]
      have := ih hnd.2 hp'
      omega

theorem toks_updProc {s X : Sys} (new : List Proc) (hprocs : X.procs = s.procs ++ new) (hpwX : PW X)
    {p : Proc} (hp : p ∈ s.procs) (g : Proc → Proc) (o : Oid) :
    (toks (X.updProc p.pid g)).count o + (tok p).count o
      = (toks s).count o + (tok (g p)).count o + (new.flatMap tok).count o := by
  have hpX : p ∈ X.procs := by rw [hprocs]; exact List.mem_append_left _ hp
  have := count_flatMap_upd hpwX.nodup hpX g o
  unfold toks
  simp only [Sys.updProc]
  rw [hprocs] at this ⊢
  simp only [List.flatMap_append, List.count_append] at this ⊢
  omega

/-- an ingest-stream process of the new table stands for one of the old table -/
def StrBack (s s' : Sys) : Prop :=
  ∀ q ∈ s'.procs, ∀ o tl, q.k = .ingestStream o tl →
    ∃ q0 ∈ s.procs, q0.pid = q.pid ∧ (q.alive = true → q0.alive = true) ∧ ∃ tl0, q0.k = .ingestStream o tl0

theorem BufI.step {s s' : Sys} (h : BufI s) (hobs : ObsMonoS s.obs s'.obs) (hstr : StrBack s s')
    (hC : ∀ o, locCount s' o ≤ locCount s o ∨
      (locCount s' o ≤ 1 ∧ Begun s'.obs o ∧
        ∀ q ∈ s'.procs, q.alive = true → ∀ tl, q.k ≠ .ingestStream o tl))
    (hplan : ∀ pl ∈ s'.plans, pl.obs ∈ s'.buf.hot.scheduled ++ s'.buf.hot.finished) : BufI s' := by
  constructor
  · intro o
    rcases hC o with h1 | ⟨h1, _⟩
    · exact Nat.le_trans h1 (h.cnt o)
    · exact h1
  · intro q hq hqa o tl hqk
    obtain ⟨q0, hq0, _, hal, tl0, hk0⟩ := hstr q hq o tl hqk
    rcases hC o with h1 | ⟨_, _, h3⟩
    · have := h.strFree q0 hq0 (hal hqa) o tl0 hk0
      omega
    · exact absurd hqk (h3 q hq hqa tl)
  · intro q1 hq1 q2 hq2 o tl tl' hk1 hk2
    obtain ⟨a, ha, hap, _, tla, hak⟩ := hstr q1 hq1 o tl hk1
    obtain ⟨b, hb, hbp, _, tlb, hbk⟩ := hstr q2 hq2 o tl' hk2
    rw [← hap, ← hbp]
    exact h.strUniq a ha b hb o tla tlb hak hbk
  · intro q hq o tl hqk
    obtain ⟨q0, hq0, _, _, tl0, hk0⟩ := hstr q hq o tl hqk
    exact hobs o (h.strObs q0 hq0 o tl0 hk0)
  · intro o hpos
    rcases hC o with h1 | ⟨_, h2, _⟩
    · exact hobs o (h.locObs o (by omega))
    · exact h2
  · exact hplan

/-- `StrBack` from the shape of the new process table -/
theorem strBack_of_procs {s X : Sys} (hpw : PW s) (new : List Proc) (hprocs : X.procs = s.procs ++ new)
    (hpwX : PW X) {p : Proc} (hp : p ∈ s.procs) (g : Proc → Proc) (hgp : (g p).pid = p.pid)
    (hga : (g p).alive = true → p.alive = true)
    (hgk : ∀ o tl, (g p).k = .ingestStream o tl → ∃ tl0, p.k = .ingestStream o tl0)
    (hnew : ∀ q ∈ new, q.k.tag ≠ "ingestStream") : StrBack s (X.updProc p.pid g) := by
  intro q hq o tl hqk
  rcases (memSpec_updProc hpw hp new hprocs hpwX g q).mp hq with rfl | ⟨hq0, _⟩ | hqn
  · obtain ⟨tl0, hk0⟩ := hgk o tl hqk
    exact ⟨p, hp, hgp.symm, hga, tl0, hk0⟩
  · exact ⟨q, hq0, rfl, fun h => h, tl, hqk⟩
  · have := hnew q hqn
    rw [hqk] at this; exact absurd rfl this

/-- a step that moves no data and no stream: same buffer lists, same tokens -/
theorem BufI.quiet {s X : Sys} (h : BufI s) (hpw : PW s) (new : List Proc)
    (hprocs : X.procs = s.procs ++ new) (hpwX : PW X) {p : Proc} (hp : p ∈ s.procs) (g : Proc → Proc)
    (hgp : (g p).pid = p.pid) (hga : (g p).alive = true → p.alive = true)
    (hpk : p.k.tag ≠ "hot2cold" ∧ p.k.tag ≠ "cold2hot")
    (hgk : (g p).k.tag ≠ "hot2cold" ∧ (g p).k.tag ≠ "cold2hot" ∧
      ∀ o tl, (g p).k = .ingestStream o tl → ∃ tl0, p.k = .ingestStream o tl0)
    (hnew : ∀ q ∈ new, q.k.tag ≠ "ingestStream" ∧ tok q = [])
    (hbuf : ∀ o, (bufList X.buf).count o = (bufList s.buf).count o)
    (hobs : ObsMonoS s.obs X.obs)
    (hplan : ∀ pl ∈ X.plans, pl.obs ∈ X.buf.hot.scheduled ++ X.buf.hot.finished) :
    BufI (X.updProc p.pid g) := by
  refine h.step hobs (strBack_of_procs hpw new hprocs hpwX hp g hgp hga hgk.2.2 (fun q hq => (hnew q hq).1))
    ?_ hplan
  intro o
  left
  have ht := toks_updProc new hprocs hpwX hp g o
  have h1 : tok p = [] := tok_of_tag hpk.1 hpk.2
  have h2 : tok (g p) = [] := tok_of_tag hgk.1 hgk.2.1
  have h3 : (new.flatMap tok) = [] := by
    rw [List.flatMap_eq_nil_iff]; exact fun q hq => (hnew q hq).2
  rw [h1, h2, h3] at ht
  unfold locCount
  show (bufList X.buf).count o + _ ≤ _
  rw [hbuf o]
  simp only [List.count_nil, Nat.add_zero] at ht
  omega

end Sys
end Topsim
