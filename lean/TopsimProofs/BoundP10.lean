/-
  BoundP10 — (plan-following algorithms; the counterpart of Bound10) the parts put together:
  `BoundPParts` from BoundP3 (whole-instant wakes), BoundP4 (the weight
  is within the serial bound), BoundP5 / BoundP6 (timed liveness of the workers), BoundP7 (idle states),
  BoundP8 (persistence of enabled pollers); and the bound on the clock of the first `is_finished()`
  state.
-/
import TopsimProofs.BoundP4
import TopsimProofs.BoundP5
import TopsimProofs.BoundP6f
import TopsimProofs.BoundP7b
import TopsimProofs.BoundP8
import TopsimProofs.BoundP9

namespace Topsim

open KState Sys

section
variable {env : SimEnv} {s0 : Sys}

/-- all the parts -/
theorem boundP_parts (C : LivePCfg env s0) (K : LiveKernel env s0)
    (hd1 : env.delayTable = []) (hd2 : env.delayScript = []) : BoundPParts env s0 where
  wake_nat := fun n => boundP_wake_nat C K n
  tl := by
    intro n hprev q hq ha hw
    rcases bound_worker_split hw with h | h
    · exact boundP_tl_ingest C K n hprev q hq ha h
    · exact boundP_tl_wf C K hd1 hd2 n hprev q hq ha h
  idle_enabled := fun n hq hnf => boundP_idle_enabled C K n hq hnf
  enabled_fires := fun n _ _ hpk hpp hen hq hdue => boundP_enabled_fires C K n hpk hpp hen hq hdue
  enabled_persists := fun n _ _ hpk hp hne hen hV => boundP_enabled_persists C K n hpk hp hne hen hV
  v_mono := fun n => boundP_v_mono C K (Nat.le_succ n)

/-- **The corrected serial bound, run level**: the first index at which the run is at `is_finished()`
has its clock (the time of the last event popped) within `boundP_serial env s0`. -/
theorem boundP_plan_clock (N : NcPCfg env s0) (hd1 : env.delayTable = []) (hd2 : env.delayScript = []) :
    ∃ n, (simAt env s0 n).st.isFinished = true ∧ (simAt env s0 n).st.crashed = none ∧
      SimRun env s0 (simAt env s0 n) ∧
      boundClock env s0 n ≤ ((boundP_serial env s0 : Nat) : Time) := by
  have C : LivePCfg env s0 := N.toLive (live_noRaise_P N)
  have K := liveKernel_P C N.hh0
  obtain ⟨n0, h0, _⟩ := live_terminates_noRaise_P C N.hh0
  obtain ⟨n, hfin, hclk⟩ := boundP_of_parts_gen C K (boundP_parts C K hd1 hd2) ⟨n0, h0⟩
    (boundP_serial env s0)
    (fun n => by
      have h1 := boundP_v_le_total env s0 (simAt env s0 n).st
      have h2 := boundP_total_le_serial env s0 C.topo
      omega)
  exact ⟨n, hfin, C.nr n, (K.run n).1, hclk⟩

/-- the same with the sharper number `latest + boundP_VTotal`: per observation its duration + 3, per
workflow node its occupancy (on the slowest machine, or as planned when it has no work) + its largest
transfer wait (rounded up) + 1 — no tier-transfer terms, latency 1 instead of 3 per task -/
theorem boundP_plan_clock_sharp (N : NcPCfg env s0) (hd1 : env.delayTable = []) (hd2 : env.delayScript = []) :
    ∃ n, (simAt env s0 n).st.isFinished = true ∧ (simAt env s0 n).st.crashed = none ∧
      SimRun env s0 (simAt env s0 n) ∧
      boundClock env s0 n ≤ ((boundLatest s0 + boundP_VTotal env s0 : Nat) : Time) := by
  have C : LivePCfg env s0 := N.toLive (live_noRaise_P N)
  have K := liveKernel_P C N.hh0
  obtain ⟨n0, h0, _⟩ := live_terminates_noRaise_P C N.hh0
  obtain ⟨n, hfin, hclk⟩ := boundP_of_parts_gen C K (boundP_parts C K hd1 hd2) ⟨n0, h0⟩
    (boundLatest s0 + boundP_VTotal env s0)
    (fun n => Nat.add_le_add_left (boundP_v_le_total env s0 (simAt env s0 n).st) _)
  exact ⟨n, hfin, C.nr n, (K.run n).1, hclk⟩

end

end Topsim
