/-
  BoundE5 — C05, the numeric clause under a delay model for the plan-following algorithms: timed
  liveness of the workflow-task workers with DELAYED durations.  The invariant `BoundEPTw` is BoundP6c's
  `BoundPTw` (= BoundD4's `BoundDTw`) with the occupancy bound `boundEP_tw_R env s0 t`; one block of the
  simulator keeps it (BoundD4's proofs over `BoundPTwCtx`: the only place where the duration of a body
  enters is the start of the body, `boundEP_tw_occ_le`).
-/
import TopsimProofs.BoundE4

namespace Topsim

open KState Sys

/-! ### the invariant -/

/-- every live worker of a workflow task meets the deadline `B`:
  * a body before its wait is due `bound_tw_W + boundEP_tw_R + 1` before `B`, a waiting body
    `boundEP_tw_R + 1` before `B`, a working body 2 before `B`;
  * an allocation process before its first block is due `bound_tw_W + boundEP_tw_R + 1` before `B`;
  * an allocation process that has begun is due at most one unit after its live body, and strictly
    before `f + 1 ≤ B` when the body has ended and recorded the finish `f`. -/
structure BoundEPTw (env : SimEnv) (s0 s : Sys) (B : Time) : Prop where
  dw : ∀ d ∈ s.procs, d.alive = true → ∀ t m preds ph tot, d.k = .doWork t m preds ph tot →
    t.isIngest = false →
    (ph = 0 → d.wake + ((bound_tw_W s0 t : Nat) : Time) + ((boundEP_tw_R env s0 t : Nat) : Time) + 1 ≤ B) ∧
    (ph = 1 → d.wake + ((boundEP_tw_R env s0 t : Nat) : Time) + 1 ≤ B) ∧
    (ph = 2 → d.wake + 2 ≤ B)
  at0 : ∀ a ∈ s.procs, a.alive = true → ∀ t m preds obs ing ret, a.k = .allocTask t m preds obs ing ret →
    t.isIngest = false → a.pc = 0 →
    a.wake + ((bound_tw_W s0 t : Nat) : Time) + ((boundEP_tw_R env s0 t : Nat) : Time) + 1 ≤ B
  at1 : ∀ a ∈ s.procs, a.alive = true → ∀ t m preds obs ing ret, a.k = .allocTask t m preds obs ing ret →
    t.isIngest = false → 1 ≤ a.pc → ∀ d ∈ s.procs, d.pid = ret →
    (d.alive = true → a.wake ≤ d.wake + 1) ∧
    (d.alive = false → ∃ r f, s.task? t = some r ∧ r.aft = some f ∧ a.wake < f + 1 ∧ f + 1 ≤ B)

theorem BoundEPTw.mono {env : SimEnv} {s0 s : Sys} {B B' : Time} (h : BoundEPTw env s0 s B) (hB : B ≤ B') : BoundEPTw env s0 s B' := by
  constructor
  · intro d hd hda t m preds ph tot hk hti
    obtain ⟨h0, h1, h2⟩ := h.dw d hd hda t m preds ph tot hk hti
    exact ⟨fun e => Rat.le_trans (h0 e) hB, fun e => Rat.le_trans (h1 e) hB, fun e => Rat.le_trans (h2 e) hB⟩
  · intro a ha haa t m preds obs ing ret hk hti hpc
    exact Rat.le_trans (h.at0 a ha haa t m preds obs ing ret hk hti hpc) hB
  · intro a ha haa t m preds obs ing ret hk hti hpc d hd hdp
    obtain ⟨h1, h2⟩ := h.at1 a ha haa t m preds obs ing ret hk hti hpc d hd hdp
    refine ⟨h1, fun e => ?_⟩
    obtain ⟨r, f, g1, g2, g3, g4⟩ := h2 e
    exact ⟨r, f, g1, g2, g3, Rat.le_trans g4 hB⟩

/-- a live body is due 2 before the deadline, whatever its phase -/
theorem BoundEPTw.dw_two {env : SimEnv} {s0 s : Sys} {B : Time} (h : BoundEPTw env s0 s B) (X : BoundPTwCtx env s0 s)
    {d : Proc} (hd : d ∈ s.procs) (hda : d.alive = true) {t m preds ph tot}
    (hk : d.k = .doWork t m preds ph tot) (hti : t.isIngest = false) : d.wake + 2 ≤ B := by
  obtain ⟨h0, h1, h2⟩ := h.dw d hd hda t m preds ph tot hk hti
  have hph := X.span.phase d hd hda t m preds ph tot hk
  have hR : ((1 : Nat) : Time) ≤ ((boundEP_tw_R env s0 t : Nat) : Time) := by exact_mod_cast boundEP_tw_R_pos env s0 t
  have hW : (0 : Time) ≤ ((bound_tw_W s0 t : Nat) : Time) := Rat.natCast_nonneg
  have hph' : ph = 0 ∨ ph = 1 ∨ ph = 2 := by omega
  rcases hph' with e | e | e
  · have := h0 e; push_cast at hR; grind
  · have := h1 e; push_cast at hR; grind
  · exact h2 e

/-- the setting of one step -/
structure BoundEPTwStep (env : SimEnv) (s0 s s' : Sys) (p : Proc) (new : List Proc) : Prop where
  X : BoundPTwCtx env s0 s
  X' : BoundPTwCtx env s0 s'
  hE : s.BoundETwDur env
  step : L7Step s s' p (env.oracle s)
  hnew : (s.block p (env.oracle s)).1.procs = s.procs ++ new
  hnp : ∀ q ∈ new, q.alive = true ∧ q.pc = 0 ∧
    q.wake = (if p.k = .telescope then ((natNow p.wake : Nat) : Time) else p.wake) ∧ Sys.NewKind p.k q.k
  /-- the recorded finish of a task whose body has ended is kept -/
  aft : ∀ d ∈ s.procs, d.alive = false → ∀ t m preds ph tot, d.k = .doWork t m preds ph tot →
    ∀ r, s.task? t = some r → ∃ r', s'.task? t = some r' ∧ r'.aft = r.aft

section
variable {env : SimEnv} {s0 s s' : Sys} {p : Proc} {new : List Proc}

theorem BoundEPTwStep.mem (S : BoundEPTwStep env s0 s s' p new) :
    Sys.MemSpec s s' p (fin (s.block p (env.oracle s)).2.1 (s.block p (env.oracle s)).2.2 p.wake p) new :=
  S.step.memSpec S.X.sinv S.hnew

theorem BoundEPTwStep.task?_eq (S : BoundEPTwStep env s0 s s' p new) (t : Tid) :
    s'.task? t = (s.block p (env.oracle s)).1.task? t := by
  unfold Sys.task?; rw [S.step.tasks]

/-! ### the bodies -/

theorem boundEP_tw_step_dw (S : BoundEPTwStep env s0 s s' p new) {B : Time} (h : BoundEPTw env s0 s B) :
    ∀ d ∈ s'.procs, d.alive = true → ∀ t m preds ph tot, d.k = .doWork t m preds ph tot →
    t.isIngest = false →
    (ph = 0 → d.wake + ((bound_tw_W s0 t : Nat) : Time) + ((boundEP_tw_R env s0 t : Nat) : Time) + 1 ≤ B) ∧
    (ph = 1 → d.wake + ((boundEP_tw_R env s0 t : Nat) : Time) + 1 ≤ B) ∧
    (ph = 2 → d.wake + 2 ≤ B) := by
  have hpm := S.step.mem
  have hpa := S.step.ha
  have hpw := S.X.sinv.pw
  intro d hd hda t m preds ph tot hk hti
  rcases (S.mem d).mp hd with hde | ⟨hold, _⟩ | hnw
  · -- the body that ran
    have hdk : (s.block p (env.oracle s)).2.1 = .doWork t m preds ph tot := by
      rw [← hk, hde, fin_k]
    have htag : p.k.tag = "doWork" := by
      rw [← block_tag s hpw p (env.oracle s), hdk]; rfl
    obtain ⟨t1, m1, preds1, ph1, tot1, hpk⟩ := bound_tw_tag_doWork htag
    have hb := block_doWork (s := s) (p := p) (env.oracle s) hpk
    have hsh := Sys.bound_tw_dwShape s p.wake (env.oracle s) t1 m1 preds1 ph1 tot1
    rw [hde] at hda ⊢
    rw [hb] at hdk hda ⊢
    generalize s.doWorkBlock p.wake (env.oracle s) t1 m1 preds1 ph1 tot1 = Y at hsh hdk hda ⊢
    cases hsh with
    | raised ph' e => exact absurd hda (by simp [fin])
    | wait w h0 hne hw =>
      cases hdk
      subst h0
      refine ⟨fun e => absurd e (by omega), fun _ => ?_, fun e => absurd e (by omega)⟩
      show p.wake + w + _ + 1 ≤ B
      have h1 := boundP_tw_wait_le S.X hpm hpa hpk hti hw
      have h2 := (h.dw p hpm hpa _ _ _ _ _ hpk hti).1 rfl
      grind
    | start r mm dur hph hr hmm hdur =>
      cases hdk
      refine ⟨fun e => absurd e (by omega), fun e => absurd e (by omega), fun _ => ?_⟩
      show p.wake + ((bodyWait ((env.oracle s).bodyTotal t (s.starts.filter (fun x => !x.isIngest)).length dur)
        : Nat) : Rat) + 2 ≤ B
      rw [env_oracle_bodyTotal]
      have h1 := boundEP_tw_occ_le S.X S.hE hr hmm hti hdur (s.starts.filter (fun x => !x.isIngest)).length
      generalize env.bodyTotal t (s.starts.filter (fun x => !x.isIngest)).length dur = tot1 at h1 ⊢
      have h3 : ((bodyWait tot1 + 1 : Nat) : Rat) ≤ ((boundEP_tw_R env s0 t : Nat) : Rat) := by exact_mod_cast h1
      push_cast at h3
      have hW : (0 : Time) ≤ ((bound_tw_W s0 t : Nat) : Time) := Rat.natCast_nonneg
      obtain ⟨g0, g1, _⟩ := h.dw p hpm hpa _ _ _ _ _ hpk hti
      rcases hph with e | ⟨e, _⟩
      · have := g1 e; grind
      · have := g0 e; grind
    | finish hph => exact absurd hda (by simp [fin])
  · exact h.dw d hold hda t m preds ph tot hk hti
  · -- a new body
    obtain ⟨_, _, hwk, hkind⟩ := S.hnp d hnw
    obtain ⟨hph, obs, ing, ret, hpk⟩ := bound_tw_new_dw hkind hk
    subst hph
    rw [hpk] at hwk
    simp only [reduceCtorEq, if_false] at hwk
    have hnew' : (s.allocTaskBlock p.wake t m preds obs ing ret).1.procs = s.procs ++ new := by
      rw [← block_allocTask (env.oracle s) hpk]; exact S.hnew
    obtain ⟨hnr, _, _, _⟩ := Sys.bound_tw_at_spawn s hpw p.wake t m preds obs ing ret hnew' hnw
    obtain ⟨U, hU⟩ := S.X.sinv.ci
    have hpc := hU.pc_zero hpm hpa hpk hnr
    refine ⟨fun _ => ?_, fun e => absurd e (by omega), fun e => absurd e (by omega)⟩
    rw [hwk]
    exact h.at0 p hpm hpa t m preds obs ing ret hpk hti hpc

/-! ### allocation processes before their first block -/

theorem boundEP_tw_step_at0 (S : BoundEPTwStep env s0 s s' p new) {B : Time} (h : BoundEPTw env s0 s B)
    (hats : ∀ o sc pa po fn, p.k = .allocTasks o sc pa po fn → ∀ q ∈ new, ∀ t m preds obs ing ret,
      q.k = .allocTask t m preds obs ing ret → t.isIngest = false →
      q.wake + ((bound_tw_W s0 t : Nat) : Time) + ((boundEP_tw_R env s0 t : Nat) : Time) + 1 ≤ B) :
    ∀ a ∈ s'.procs, a.alive = true → ∀ t m preds obs ing ret, a.k = .allocTask t m preds obs ing ret →
    t.isIngest = false → a.pc = 0 →
    a.wake + ((bound_tw_W s0 t : Nat) : Time) + ((boundEP_tw_R env s0 t : Nat) : Time) + 1 ≤ B := by
  intro a ha haa t m preds obs ing ret hk hti hpc
  rcases (S.mem a).mp ha with hae | ⟨hold, _⟩ | hnw
  · rw [hae, fin_pc] at hpc
    omega
  · exact h.at0 a hold haa t m preds obs ing ret hk hti hpc
  · obtain ⟨_, _, _, hkind⟩ := S.hnp a hnw
    rcases bound_tw_new_at hkind hk with ⟨hing, _⟩ | ⟨_, o, sc, pa, po, fn, hpk⟩
    · -- created by the provisioner: an ingest task
      exfalso
      subst hing
      obtain ⟨U, hU⟩ := S.X'.sinv.ci
      have := hU.inv.pendTask _ (hU.pend a ha haa t m preds obs ret hk hpc)
      rw [hti] at this
      exact absurd this (by simp)
    · exact hats o sc pa po fn hpk a hnw t m preds obs ing ret hk hti

end

section
variable {env : SimEnv} {s0 s s' : Sys} {p : Proc} {new : List Proc}

/-- the allocation process that ran -/
theorem boundEP_tw_step_at1_self (S : BoundEPTwStep env s0 s s' p new) {B : Time} (h : BoundEPTw env s0 s B)
    {a : Proc} (hae : a = fin (s.block p (env.oracle s)).2.1 (s.block p (env.oracle s)).2.2 p.wake p)
    (haa : a.alive = true) {t m preds obs ing ret} (hk : a.k = .allocTask t m preds obs ing ret)
    (hti : t.isIngest = false) {d : Proc} (hd : d ∈ s'.procs) (hdp : d.pid = ret) :
    (d.alive = true → a.wake ≤ d.wake + 1) ∧
    (d.alive = false → ∃ r f, s'.task? t = some r ∧ r.aft = some f ∧ a.wake < f + 1 ∧ f + 1 ≤ B) := by
  have hpm := S.step.mem
  have hpa := S.step.ha
  have hpw := S.X.sinv.pw
  have hpw' := S.X'.sinv.pw
  obtain ⟨U, hU⟩ := S.X.sinv.ci
  have hak : (s.block p (env.oracle s)).2.1 = .allocTask t m preds obs ing ret := by
    rw [← hk, hae, fin_k]
  have htag : p.k.tag = "allocTask" := by
    rw [← block_tag s hpw p (env.oracle s), hak]; rfl
  obtain ⟨t1, m1, preds1, obs1, ing1, ret1, hpk⟩ := bound_tw_tag_allocTask htag
  have hb := block_allocTask (s := s) (p := p) (env.oracle s) hpk
  rcases allocTaskBlock_cases' s hpw p.wake t1 m1 preds1 obs1 ing1 ret1 with
    ⟨_, e, _, heq⟩ | ⟨hnr, _, heq⟩ | ⟨hrun, hf, heq⟩ | ⟨_, _, e, _, heq⟩ | ⟨_, _, _, heq⟩
  · exact absurd (by rw [hb, heq]) (S.step.nr e)
  · -- the first block: the body is created
    have hbe := hb.trans heq
    rw [hbe] at hak
    cases hak
    have hnw : new = [{ pid := s.nextPid, k := .doWork t m preds 0 0, wake := p.wake }] :=
      List.append_cancel_left (S.hnew.symm.trans (by rw [hbe]; rfl))
    have hbm : ({ pid := s.nextPid, k := .doWork t m preds 0 0, wake := p.wake } : Proc) ∈ s'.procs :=
      (S.mem _).mpr (Or.inr (Or.inr (by rw [hnw]; simp)))
    have hdb : d = { pid := s.nextPid, k := .doWork t m preds 0 0, wake := p.wake } :=
      hpw'.eq_of_pid hd hbm hdp
    have haw : a.wake = p.wake + 1 := by rw [hae, hbe]; rfl
    subst hdb
    refine ⟨fun _ => ?_, fun e => absurd e (by simp)⟩
    rw [haw]
    exact Rat.le_refl
  · -- a poll that goes on
    have hbe := hb.trans heq
    rw [hbe] at hak
    cases hak
    have hpc1 := hU.pc_pos hpm hpa hpk hrun
    obtain ⟨d0, hd0, hd0p, m', preds', ph0, tot0, hd0k⟩ := (S.X.fi.ok p hpm).atRet _ _ _ _ _ _ hpk hpc1
    have hne : d0.pid ≠ p.pid := by
      intro e
      have := hpw.eq_of_pid hd0 hpm e
      subst this
      rw [hpk] at hd0k
      cases hd0k
    have hd0' : d0 ∈ s'.procs := (S.mem d0).mpr (Or.inr (Or.inl ⟨hd0, hne⟩))
    have hdd0 : d = d0 := hpw'.eq_of_pid hd hd0' (hdp.trans hd0p.symm)
    subst hdd0
    obtain ⟨g1, g2⟩ := h.at1 p hpm hpa _ _ _ _ _ _ hpk hti hpc1 d hd0 hd0p
    have haw : a.wake = p.wake + 1 := by rw [hae, hbe]; rfl
    rw [haw]
    refine ⟨fun hda => ?_, fun hdd => ?_⟩
    · have := S.step.hmin d hd0 hda
      grind
    · obtain ⟨r, f, hr, hf', hlt, hle⟩ := g2 hdd
      have htrig : s.procTriggered ret = true := by
        unfold Sys.procTriggered
        rw [← hd0p, hpw.proc?_of_mem hd0]
        simp [hdd]
      rw [htrig, Bool.true_and] at hf
      obtain ⟨rec, f2, hrec, hf2, hlt2⟩ := aftReached_eq_false hf
      rw [hr] at hrec
      cases hrec
      rw [hf'] at hf2
      cases hf2
      refine ⟨r, f, ?_, hf', by grind, hle⟩
      rw [S.task?_eq, hbe]
      exact hr
  · exact absurd (by rw [hb, heq]) (S.step.nr e)
  · rw [hae, hb, heq] at haa
    exact absurd haa (by simp [fin])

/-- another allocation process -/
theorem boundEP_tw_step_at1_old (S : BoundEPTwStep env s0 s s' p new) {B : Time} (h : BoundEPTw env s0 s B)
    {a : Proc} (hold : a ∈ s.procs) (haa : a.alive = true) {t m preds obs ing ret}
    (hk : a.k = .allocTask t m preds obs ing ret) (hti : t.isIngest = false) (hpc : 1 ≤ a.pc)
    {d : Proc} (hd : d ∈ s'.procs) (hdp : d.pid = ret) :
    (d.alive = true → a.wake ≤ d.wake + 1) ∧
    (d.alive = false → ∃ r f, s'.task? t = some r ∧ r.aft = some f ∧ a.wake < f + 1 ∧ f + 1 ≤ B) := by
  have hpm := S.step.mem
  have hpa := S.step.ha
  have hpw := S.X.sinv.pw
  have hpw' := S.X'.sinv.pw
  obtain ⟨U, hU⟩ := S.X.sinv.ci
  obtain ⟨d0, hd0, hd0p, m', preds', ph0, tot0, hd0k⟩ := (S.X.fi.ok a hold).atRet _ _ _ _ _ _ hk hpc
  obtain ⟨g1, g2⟩ := h.at1 a hold haa _ _ _ _ _ _ hk hti hpc d0 hd0 hd0p
  by_cases e : d0.pid = p.pid
  · -- the body of the task ran
    have := hpw.eq_of_pid hd0 hpm e
    subst this
    have hpm' : fin (s.block d0 (env.oracle s)).2.1 (s.block d0 (env.oracle s)).2.2 d0.wake d0 ∈ s'.procs :=
      (S.mem _).mpr (Or.inl rfl)
    have hde : d = fin (s.block d0 (env.oracle s)).2.1 (s.block d0 (env.oracle s)).2.2 d0.wake d0 :=
      hpw'.eq_of_pid hd hpm' (by rw [fin_pid]; exact hdp.trans hd0p.symm)
    have hb := block_doWork (s := s) (p := d0) (env.oracle s) hd0k
    have hsh := Sys.bound_tw_dwShape s d0.wake (env.oracle s) t m' preds' ph0 tot0
    have hnr := S.step.nr
    have htq := S.task?_eq t
    have ha1 := g1 hpa
    rw [hde]
    rw [hb] at hnr htq ⊢
    generalize s.doWorkBlock d0.wake (env.oracle s) t m' preds' ph0 tot0 = Y at hsh hnr htq ⊢
    cases hsh with
    | raised ph' err => exact absurd rfl (hnr err)
    | wait w _ _ hw =>
      refine ⟨fun _ => ?_, fun e => ?_⟩
      · show a.wake ≤ d0.wake + w + 1
        have := Sys.transferWait_nonneg _ _ _ _ _ _ hw
        grind
      · have : d0.alive = false := e
        rw [hpa] at this
        exact absurd this (by simp)
    | start r mm dur _ _ _ _ =>
      refine ⟨fun _ => ?_, fun e => ?_⟩
      · show a.wake ≤ d0.wake + ((bodyWait _ : Nat) : Rat) + 1
        have : (0 : Rat) ≤ ((bodyWait ((env.oracle s).bodyTotal t
          (s.starts.filter (fun x => !x.isIngest)).length dur) : Nat) : Rat) := Rat.natCast_nonneg
        grind
      · have : d0.alive = false := e
        rw [hpa] at this
        exact absurd this (by simp)
    | finish hph =>
      refine ⟨fun e => absurd e (by simp [fin]), fun _ => ?_⟩
      obtain ⟨r, hr, _⟩ := hU.hasRec a hold _ _ _ _ _ _ hk
      have hr' : s.task? t = some r := hr
      have hph2 : ph0 = 2 := by
        have := S.X.span.phase d0 hpm hpa t m' preds' ph0 tot0 hd0k
        omega
      have hB := (h.dw d0 hpm hpa _ _ _ _ _ hd0k hti).2.2 hph2
      refine ⟨dwEndF d0.wake tot0 r, d0.wake + 1, ?_, (dwEndF_spec d0.wake tot0 r).2.2.2.2.2, ?_, ?_⟩
      · rw [htq]
        exact task?_updTask_eq s (dwEndF d0.wake tot0) (fun r => (dwEndF_spec d0.wake tot0 r).1) hr'
      · grind
      · grind
  · -- the body did not run
    have hd0' : d0 ∈ s'.procs := (S.mem d0).mpr (Or.inr (Or.inl ⟨hd0, e⟩))
    have hdd0 : d = d0 := hpw'.eq_of_pid hd hd0' (hdp.trans hd0p.symm)
    subst hdd0
    refine ⟨g1, fun hdd => ?_⟩
    obtain ⟨r, f, hr, hf, hlt, hle⟩ := g2 hdd
    obtain ⟨r', hr', haft⟩ := S.aft d hd0 hdd _ _ _ _ _ hd0k r hr
    exact ⟨r', f, hr', by rw [haft]; exact hf, hlt, hle⟩

theorem boundEP_tw_step_at1 (S : BoundEPTwStep env s0 s s' p new) {B : Time} (h : BoundEPTw env s0 s B) :
    ∀ a ∈ s'.procs, a.alive = true → ∀ t m preds obs ing ret, a.k = .allocTask t m preds obs ing ret →
    t.isIngest = false → 1 ≤ a.pc → ∀ d ∈ s'.procs, d.pid = ret →
    (d.alive = true → a.wake ≤ d.wake + 1) ∧
    (d.alive = false → ∃ r f, s'.task? t = some r ∧ r.aft = some f ∧ a.wake < f + 1 ∧ f + 1 ≤ B) := by
  intro a ha haa t m preds obs ing ret hk hti hpc d hd hdp
  rcases (S.mem a).mp ha with hae | ⟨hold, _⟩ | hnw
  · exact boundEP_tw_step_at1_self S h hae haa hk hti hd hdp
  · exact boundEP_tw_step_at1_old S h hold haa hk hti hpc hd hdp
  · obtain ⟨_, hpc0, _⟩ := S.hnp a hnw
    omega

/-- **One block keeps the invariant**, at a deadline the new allocation processes meet. -/
theorem boundEP_tw_step (S : BoundEPTwStep env s0 s s' p new) {B : Time} (h : BoundEPTw env s0 s B)
    (hats : ∀ o sc pa po fn, p.k = .allocTasks o sc pa po fn → ∀ q ∈ new, ∀ t m preds obs ing ret,
      q.k = .allocTask t m preds obs ing ret → t.isIngest = false →
      q.wake + ((bound_tw_W s0 t : Nat) : Time) + ((boundEP_tw_R env s0 t : Nat) : Time) + 1 ≤ B) :
    BoundEPTw env s0 s' B :=
  ⟨boundEP_tw_step_dw S h, boundEP_tw_step_at0 S h hats, boundEP_tw_step_at1 S h⟩

end

end Topsim
