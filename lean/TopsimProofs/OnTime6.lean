/-
  OnTime6 — WAITING → RUNNING → FINISHED along the runs of the simulator: the
  status only moves forward (`SimPath.status_mono`), it changes in the block of
  the observation's supervisor at the recorded start and in the telescope's
  block exactly one duration later (`sim_status_step`), and where it stands
  against the clock (`sim_status_clock`, `simRun_running_le`).
-/
import TopsimProofs.OnTime5

namespace Topsim

open KState Sys

/-- the status of an observation only moves forward along a run -/
theorem SimPath.status_mono {env : SimEnv} {s0 : Sys} (hw : WFConfig s0) {k k' : SimState}
    (h : SimReach env s0 k) (hp : SimPath env k k') {o : Oid} {ob : Obs} (hob : k.st.obs? o = some ob) :
    ∃ ob', k'.st.obs? o = some ob' ∧ obsRank ob.status ≤ obsRank ob'.status ∧ ob'.stat = ob.stat := by
  induction hp with
  | refl => exact ⟨ob, hob, Nat.le_refl _, rfl⟩
  | step k1 k2 hp1 hs ih =>
    obtain ⟨ob1, hob1, hr1, hst1⟩ := ih
    have hreach1 := h.path hp1
    obtain ⟨e, _, hc⟩ := ot_step_cases hw hreach1 hs
    rcases hc with ⟨hc, _⟩ | ⟨p, hpp, ha, _, _, hc⟩
    · rw [hc]; exact ⟨ob1, hob1, hr1, hst1⟩
    · obtain ⟨ob2, hob2, hr2, _⟩ := status_monotone k1.st e.pid (env.oracle k1.st) o ob1 hob1
      obtain ⟨ob2', hob2', hst2⟩ := (ot_resume_keep k1.st e.pid (env.oracle k1.st) p hpp ha).fwd hob1
      rw [hob2] at hob2'; cases hob2'
      rw [hc]
      exact ⟨ob2, hob2, Nat.le_trans hr1 hr2, hst2.trans hst1⟩
  | collate k1 _ ih => exact ih

/-- the telescope's discipline (`TelDisc`) along an uninterrupted run -/
theorem simRun_telDisc (env : SimEnv) (s0 : Sys) (hw : WFConfig s0) (k : SimState) (h : SimRun env s0 k) :
    TelDisc k.st := by
  obtain ⟨s, hr, hk⟩ := l3_refines_reach env s0 hw k h
  have hd := reach_telDisc hw hr.toReach
  rcases hk with hk | ⟨hk, _⟩
  · rw [hk]; exact hd
  · rw [hk]; exact ⟨hd.int, hd.due, hd.aiAst, hd.dur⟩

/-- **A change of status is one of two transitions.**  In an uninterrupted run, a kernel step
that changes the status of observation `oid` is either the first block of the observation's ingest
supervisor, at the recorded start `a` (WAITING → RUNNING), or the telescope's block at exactly
`a + duration` (RUNNING → FINISHED). -/
theorem sim_status_step (env : SimEnv) (s0 : Sys) (hw : WFConfig s0) {k k1 : SimState}
    (h : SimRun env s0 k) (hs : k.step (simHandler env) = some k1) {oid : Oid} {ob ob1 : Obs}
    (hob : k.st.obs? oid = some ob) (hob1 : k1.st.obs? oid = some ob1) (hne : ob1.status ≠ ob.status) :
    ∃ e p a, k.peek = some e ∧ k.st.proc? e.pid = some p ∧ p.alive = true ∧ e.time = p.wake ∧
      ob.ast = some a ∧ ob1.ast = some a ∧
      ((ob.status = .waiting ∧ ob1.status = .running ∧ (∃ tl, p.k = .allocIngest oid tl) ∧ p.pc = 0 ∧
          p.wake = ((a : Nat) : Time)) ∨
       (ob.status = .running ∧ ob1.status = .finished ∧ p.k = .telescope ∧
          p.wake = (((a + ob.duration : Nat) : Nat) : Time))) := by
  have hr := h.toReach
  have hinv := hr.l3inv hw
  have hA := sim_otAst env s0 hw k hr
  obtain ⟨e, hpk, hc⟩ := ot_step_cases hw hr hs
  rcases hc with ⟨hc, _⟩ | ⟨p, hpp, ha, het, hen, hc⟩
  · rw [hc] at hob1
    have : k.st.obs? oid = some ob1 := hob1
    rw [hob] at this; cases this
    exact absurd rfl hne
  · obtain ⟨hpm, hpid⟩ := proc?_some hpp
    obtain ⟨p', hp', _, hmin⟩ := hen
    rw [hpp] at hp'; cases hp'
    rw [hc] at hob1
    by_cases hk : p.k = .telescope
    · obtain ⟨m, hwm⟩ := hinv.heap.telInt p hpm hk
      obtain ⟨ob0, hob0, hor⟩ := ot_tel_rec hinv.sinv hinv.ti hA hpp ha hmin hk hwm (env.oracle k.st) oid ob1 hob1
      rw [hob] at hob0; cases hob0
      rcases hor with ⟨e1, s1⟩ | ⟨hw1, _, _, _, hw2⟩
      · rcases s1 with e2 | ⟨hrun, hfin, a0, ha0, hle⟩
        · exact absurd e2 hne
        · have hdue := (simRun_telDisc env s0 hw k h).due p hpm hk ha ob (obs_mem_of_obs? hob).1 a0 ha0
            (by rw [hrun]; simp)
          rw [hwm, lcCast_le] at hdue
          have hm : m = a0 + ob.duration := by omega
          exact ⟨e, p, a0, hpk, hpp, ha, het, ha0, by rw [e1]; exact ha0,
            Or.inr ⟨hrun, hfin, hk, by rw [hwm, hm]⟩⟩
      · rw [hw1, hw2] at hne; exact absurd rfl hne
    · obtain ⟨ob0, hob0, _, _, s1⟩ := step_recs k.st e.pid (env.oracle k.st) p hpp ha oid ob1 hob1
      rw [hob] at hob0; cases hob0
      rcases s1 with e2 | ⟨e2, _⟩ | ⟨tl, hpk2, hw1, hrun⟩
      · exact absurd e2 hne
      · exact absurd e2 hk
      · -- the supervisor's first block
        have hil : ILC k.st.procs k.st.ilDemand k.st.cl.ilEntries k.st.provIngest k.st.maxIngest k.st.admitted :=
          hinv.il
        have hadm : oid ∈ k.st.admitted := hil.aiAdm p hpm oid (by rw [hpk2]; rfl)
        obtain ⟨ob2, hob2, hsup⟩ := hinv.sinv.eg.adm oid hadm
        rw [hob] at hob2; cases hob2
        obtain ⟨q, hq, _, hqc, ⟨tl', hqk⟩, _⟩ := hsup hw1
        have hpq : p = q := hinv.sinv.pw.eq_of_pid hpm hq
          (hil.aiUniq p hpm q hq oid (by rw [hpk2]; rfl) (by rw [hqk]; rfl))
        have hpc : p.pc = 0 := by rw [hpq]; exact hqc
        obtain ⟨n, ob3, hwn, hob3, hast3, _⟩ := hinv.ti.aiNew p hpm oid tl hpk2 hpc
        rw [hob] at hob3; cases hob3
        obtain ⟨ob4, hob4, hor⟩ := ot_step_ast hinv.ti hpp ha (env.oracle k.st) oid ob1 hob1
        rw [hob] at hob4; cases hob4
        have hast1 : ob1.ast = some n := by
          rcases hor with e3 | ⟨e3, _⟩
          · rw [e3]; exact hast3
          · exact absurd e3 hk
        exact ⟨e, p, n, hpk, hpp, ha, het, hast3, hast1, Or.inl ⟨hw1, hrun, ⟨tl, hpk2⟩, hpc, hwn⟩⟩

/-- **The status against the clock**, whenever the kernel is about to resume a live process (at
time `e.time`): a WAITING observation has no recorded start, or its recorded start is this very
instant (its supervisor has not run yet); a RUNNING one started at or before this instant; a
FINISHED one started a full duration or more ago. -/
theorem sim_status_clock (env : SimEnv) (s0 : Sys) (hw : WFConfig s0) (k : SimState)
    (h : SimReach env s0 k) {e : HEntry} {p : Proc} (hpk : k.peek = some e)
    (hpp : k.st.proc? e.pid = some p) (ha : p.alive = true) {oid : Oid} {ob : Obs}
    (hob : k.st.obs? oid = some ob) :
    (ob.status = .waiting → ob.ast = none ∨ ∃ a, ob.ast = some a ∧ e.time = ((a : Nat) : Time)) ∧
    (ob.status = .running → ∃ a, ob.ast = some a ∧ ((a : Nat) : Time) ≤ e.time) ∧
    (ob.status = .finished → ∃ a, ob.ast = some a ∧ (((a + ob.duration : Nat) : Nat) : Time) ≤ e.time) := by
  have hinv := h.l3inv hw
  have hA := sim_otAst env s0 hw k h
  have hC := sim_otClock env s0 hw k h
  obtain ⟨hpm, _⟩ := proc?_some hpp
  obtain ⟨⟨p', hp', _, hmin⟩, het⟩ := hinv.heap.enabled hinv.sinv.pw hpk hpp ha
  rw [hpp] at hp'; cases hp'
  have hsome : ob.status ≠ .waiting → ∃ a, ob.ast = some a := by
    intro hnw
    cases hast : ob.ast with
    | none => exact absurd (hA.wait oid ob hob hast) hnw
    | some a => exact ⟨a, rfl⟩
  refine ⟨fun hw1 => ?_, fun hrun => ?_, fun hfin => ?_⟩
  · cases hast : ob.ast with
    | none => exact Or.inl rfl
    | some a =>
      right
      refine ⟨a, rfl, ?_⟩
      have hadm := hA.adm oid ob hob (by rw [hast]; simp)
      obtain ⟨ob2, hob2, hsup⟩ := hinv.sinv.eg.adm oid hadm
      rw [hob] at hob2; cases hob2
      obtain ⟨q, hq, hqa, hqc, ⟨tl, hqk⟩, _⟩ := hsup hw1
      obtain ⟨n, ob3, hwn, hob3, hast3, _⟩ := hinv.ti.aiNew q hq oid tl hqk hqc
      rw [hob] at hob3; cases hob3
      rw [hast] at hast3; cases hast3
      have h1 : p.wake ≤ ((a : Nat) : Time) := by rw [← hwn]; exact hmin q hq hqa
      have h2 : ((a : Nat) : Time) ≤ p.wake := hC.ast oid ob a hob hast p hpm ha
      rw [het]
      exact Rat.le_antisymm h1 h2
  · obtain ⟨a, hast⟩ := hsome (by rw [hrun]; simp)
    exact ⟨a, hast, by rw [het]; exact hC.ast oid ob a hob hast p hpm ha⟩
  · obtain ⟨a, hast⟩ := hsome (by rw [hfin]; simp)
    exact ⟨a, hast, by rw [het]; exact hC.fin oid ob a hob hfin hast p hpm ha⟩

/-- … and, in an uninterrupted run with the telescope's loop alive, an observation that is not
FINISHED is at most a full duration past its recorded start: the telescope's block at
`a + duration` finishes it. -/
theorem simRun_running_le (env : SimEnv) (s0 : Sys) (hw : WFConfig s0) (k : SimState)
    (h : SimRun env s0 k) {e : HEntry} {p : Proc} (hpk : k.peek = some e)
    (hpp : k.st.proc? e.pid = some p) (ha : p.alive = true) {oid : Oid} {ob : Obs} {a : Nat}
    (hob : k.st.obs? oid = some ob) (hast : ob.ast = some a) (hnf : ob.status ≠ .finished)
    {t : Proc} (ht : t ∈ k.st.procs) (htk : t.k = .telescope) (hta : t.alive = true) :
    e.time ≤ (((a + ob.duration : Nat) : Nat) : Time) := by
  have hinv := h.toReach.l3inv hw
  obtain ⟨⟨p', hp', _, hmin⟩, het⟩ := hinv.heap.enabled hinv.sinv.pw hpk hpp ha
  rw [hpp] at hp'; cases hp'
  have hdue := (simRun_telDisc env s0 hw k h).due t ht htk hta ob (obs_mem_of_obs? hob).1 a hast hnf
  rw [het]
  exact Rat.le_trans (hmin t ht hta) hdue

end Topsim
