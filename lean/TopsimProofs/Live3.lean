/-
  Live3 — the process table is indexed by pid (`PidIdx`), no block touches the `halted` flag, the
  exception flag is only ever raised, and while it is down every heap entry belongs to a live
  process (`NoDead`): the run is an uninterrupted `SimRun`, never halted, never out of events
  (`live_simRun`).  New heap entries are never earlier than the popped one (`live_heap_min_mono`).
-/
import TopsimProofs.Live2
import TopsimProofs.LifeCycle6
import TopsimProofs.Preced2
import TopsimProofs.FinishInv2

namespace Topsim

open KState Sys

namespace Sys

/-! ### the block relation: `halted` is not written, the table stays indexed by pid -/

/-- the `i`-th entry of the process table is process `i` -/
def PidIdx (s : Sys) : Prop := s.procs.map (·.pid) = List.range s.nextPid

def LK (s s' : Sys) : Prop := s'.halted = s.halted ∧ (PidIdx s → PidIdx s')

theorem LK.refl (s : Sys) : LK s s := ⟨rfl, id⟩

theorem LK.trans {a b c : Sys} (h1 : LK a b) (h2 : LK b c) : LK a c :=
  ⟨h2.1.trans h1.1, fun h => h2.2 (h1.2 h)⟩

theorem LK.of_eq {s s' : Sys} (hh : s'.halted = s.halted) (hp : s'.procs = s.procs)
    (hn : s'.nextPid = s.nextPid) : LK s s' :=
  ⟨hh, by unfold PidIdx; rw [hp, hn]; exact id⟩

theorem LK.spawn (s : Sys) (k : PK) (now : Time) : LK s (s.spawn k now).1 := by
  refine ⟨rfl, ?_⟩
  unfold PidIdx Sys.spawn
  intro h
  simp [h, List.range_succ]

theorem LK.foldl {α : Type} (f : Sys → α → Sys) (hf : ∀ s a, LK s (f s a)) (l : List α) (s : Sys) :
    LK s (l.foldl f s) := by
  induction l generalizing s with
  | nil => exact LK.refl _
  | cons a rest ih => exact (hf s a).trans (ih _)

macro "lk_leaf" : tactic =>
  `(tactic| first
    | exact LK.refl _
    | exact LK.of_eq rfl rfl rfl
    | (simp [LK, PidIdx, spawn, updTask, updObs, updPlan, addTel, addSch, addBuf, collate, List.range_succ]; done)
    | (simp [LK, PidIdx, spawn, updTask, updObs, updPlan, addTel, addSch, addBuf, collate, List.range_succ]
       intro h; simp [h]; done))

macro "lk" : tactic => `(tactic| ((repeat' split) <;> lk_leaf))

theorem checkIngestCapacity_lk (s : Sys) (o : Obs) (s1 : Sys) (b : Bool)
    (h : s.checkIngestCapacity o = .ok (s1, b)) : LK s s1 := by
  unfold checkIngestCapacity at h
  split at h
  · simp at h
  · split at h
    · split at h
      · simp only [Except.ok.injEq, Prod.mk.injEq] at h
        obtain ⟨h1, h2⟩ := h
        subst h1
        split <;> lk_leaf
      · simp only [Except.ok.injEq, Prod.mk.injEq] at h
        rw [← h.1]; exact LK.refl _
    · simp only [Except.ok.injEq, Prod.mk.injEq] at h
      rw [← h.1]; exact LK.refl _

theorem telescopeVisit_lk (n : Nat) (acc : Sys × Option Err) (oid : Oid) :
    LK acc.1 (telescopeVisit n acc oid).1 := by
  unfold telescopeVisit
  split
  · exact LK.refl _
  · split
    · exact LK.refl _
    · simp only
      split
      · split
        · exact LK.refl _
        · rename_i s1 hc
          exact checkIngestCapacity_lk _ _ _ _ hc
        · rename_i s1 hc
          refine LK.trans (checkIngestCapacity_lk _ _ _ _ hc) ?_
          lk_leaf
      · split
        · lk_leaf
        · exact LK.refl _

theorem telescopeFold_lk (n : Nat) (l : List Oid) (acc : Sys × Option Err) :
    LK acc.1 (l.foldl (telescopeVisit n) acc).1 := by
  induction l generalizing acc with
  | nil => exact LK.refl _
  | cons a rest ih => exact (telescopeVisit_lk n acc a).trans (ih _)

theorem telescopeBlock_lk (s : Sys) (now : Time) : LK s (s.telescopeBlock now).1 := by
  unfold telescopeBlock
  split
  · lk_leaf
  · simp only
    split
    all_goals
      rename_i heq
      have h := congrArg Prod.fst heq
      simp only at h
      rw [← h]
      refine LK.trans ?_ (telescopeFold_lk _ _ _)
      lk_leaf

theorem schedLoopBlock_lk (s : Sys) (now : Time) (orc : Oracle) : LK s (s.schedLoopBlock now orc).1 := by
  unfold schedLoopBlock
  simp only
  lk

theorem bufferLoopBlock_lk (s : Sys) (now : Time) : LK s (s.bufferLoopBlock now).1 := by
  unfold bufferLoopBlock
  simp only
  lk

theorem hot2coldIter_lk (s : Sys) (now : Time) (o : Oid) (left : Int) : LK s (s.hot2coldIter now o left).1 := by
  unfold hot2coldIter
  lk

theorem hot2coldBlock_lk (s : Sys) (now : Time) (cur : Option (Oid × Int)) : LK s (s.hot2coldBlock now cur).1 := by
  unfold hot2coldBlock
  split
  · exact hot2coldIter_lk _ _ _ _
  · split
    · lk_leaf
    · lk_leaf
    · refine LK.trans ?_ (hot2coldIter_lk _ _ _ _)
      lk_leaf

theorem cold2hotIter_lk (s : Sys) (now : Time) (o : Oid) (left : Int) : LK s (s.cold2hotIter now o left).1 := by
  unfold cold2hotIter
  lk

theorem cold2hotBlock_lk (s : Sys) (now : Time) (cur : Option (Oid × Int)) : LK s (s.cold2hotBlock now cur).1 := by
  unfold cold2hotBlock
  split
  · exact cold2hotIter_lk _ _ _ _
  · split
    · lk_leaf
    · lk_leaf
    · refine LK.trans ?_ (cold2hotIter_lk _ _ _ _)
      lk_leaf

theorem allocIngestIter_lk (s : Sys) (now : Time) (oid : Oid) (tl : Int) :
    LK s (s.allocIngestIter now oid tl).1 := by
  unfold allocIngestIter
  simp only
  lk

theorem allocIngestBlock_lk (s : Sys) (now : Time) (pc : Nat) (oid : Oid) (tl : Int) :
    LK s (s.allocIngestBlock now pc oid tl).1 := by
  unfold allocIngestBlock
  split
  · simp only
    refine LK.trans ?_ (allocIngestIter_lk _ _ _ _)
    lk_leaf
  · exact allocIngestIter_lk _ _ _ _

theorem provIngestBlock_lk (s : Sys) (now : Time) (pc : Nat) (oid : Oid) (d : Nat) :
    LK s (s.provIngestBlock now pc oid d).1 := by
  unfold provIngestBlock
  split
  · simp only
    split
    · lk_leaf
    · refine LK.trans ?_ (LK.foldl _ ?_ _ _)
      · lk_leaf
      · intro s a; exact LK.spawn _ _ _
  · lk_leaf

theorem ingestStreamIter_lk (s : Sys) (now : Time) (oid : Oid) (tl : Int) :
    LK s (s.ingestStreamIter now oid tl).1 := by
  unfold ingestStreamIter
  lk

theorem ingestStreamBlock_lk (s : Sys) (now : Time) (pc : Nat) (oid : Oid) (tl : Int) :
    LK s (s.ingestStreamBlock now pc oid tl).1 := by
  unfold ingestStreamBlock
  split
  · split
    · lk_leaf
    · split
      · lk_leaf
      · simp only
        refine LK.trans ?_ (ingestStreamIter_lk _ _ _ _)
        lk_leaf
  · exact ingestStreamIter_lk _ _ _ _

theorem allocTaskBlock_lk (s : Sys) (now : Time) (t : Tid) (m : Mid) (preds : List Tid)
    (obs : Option Oid) (ing : Bool) (ret : Nat) :
    LK s (s.allocTaskBlock now t m preds obs ing ret).1 := by
  unfold allocTaskBlock
  simp only
  lk

theorem doWorkBlock_lk (s : Sys) (now : Time) (orc : Oracle) (t : Tid) (m : Mid) (preds : List Tid)
    (ph tot : Nat) : LK s (s.doWorkBlock now orc t m preds ph tot).1 := by
  unfold doWorkBlock
  simp only
  repeat' split
  all_goals exact LK.of_eq rfl rfl rfl

theorem processOne_lk (now : Time) (oid : Oid) (st : PcsSt) (t : Tid) :
    LK st.s (processOne now oid st t).s := by
  unfold processOne
  simp only
  lk

theorem processFold_lk (now : Time) (oid : Oid) (l : List Tid) (st : PcsSt) :
    LK st.s (l.foldl (processOne now oid) st).s := by
  induction l generalizing st with
  | nil => exact LK.refl _
  | cons a rest ih => exact (processOne_lk now oid st a).trans (ih _)

theorem processCurrentSchedule_lk (s : Sys) (now : Time) (oid : Oid)
    (schedule pairs : List (Tid × Mid)) :
    LK s (processCurrentSchedule s now oid schedule pairs).s := by
  unfold processCurrentSchedule
  exact processFold_lk now oid _ { s := s, schedule := schedule, pairs := pairs, curr := [] }

theorem updateCurrentPlan_lk (s : Sys) (oid : Oid) : LK s (s.updateCurrentPlan oid) := by
  unfold updateCurrentPlan
  split
  · exact LK.refl _
  · simp only
    refine LK.trans (LK.foldl _ ?_ _ _) (LK.of_eq rfl rfl rfl)
    intro s a
    repeat' split
    all_goals exact LK.of_eq rfl rfl rfl

theorem allocTasksIter_lk (s : Sys) (now : Time) (orc : Oracle) (oid : Oid)
    (schedule pairs : List (Tid × Mid)) (pool : List Tid) :
    LK s (s.allocTasksIter now orc oid schedule pairs pool).1 := by
  unfold allocTasksIter
  simp only
  refine LK.trans (updateCurrentPlan_lk s oid) ?_
  generalize s.updateCurrentPlan oid = s1
  repeat' split
  all_goals first
    | lk_leaf
    | (refine LK.trans ?_ (processCurrentSchedule_lk _ _ _ _ _)
       lk_leaf)

theorem allocTasksBlock_lk (s : Sys) (now : Time) (orc : Oracle) (pc : Nat) (oid : Oid)
    (schedule pairs : List (Tid × Mid)) (pool : List Tid) (fin : Bool) :
    LK s (s.allocTasksBlock now orc pc oid schedule pairs pool fin).1 := by
  unfold allocTasksBlock
  split
  · lk_leaf
  · split
    · simp only
      refine LK.trans ?_ (allocTasksIter_lk _ _ _ _ _ _ _)
      refine LK.trans (b := s.updPlan oid (fun p => { p with ast := some (natNow now) })) (LK.of_eq rfl rfl rfl) ?_
      refine LK.trans (LK.foldl _ ?_ _ _) (LK.of_eq rfl rfl rfl)
      intro s a; exact LK.of_eq rfl rfl rfl
    · exact allocTasksIter_lk _ _ _ _ _ _ _

theorem block_lk (s : Sys) (p : Proc) (orc : Oracle) : LK s (s.block p orc).1 := by
  unfold block
  cases hk : p.k with
  | monitor => exact LK.of_eq rfl rfl rfl
  | telescope => exact telescopeBlock_lk _ _
  | clusterLoop => exact LK.of_eq rfl rfl rfl
  | schedLoop => exact schedLoopBlock_lk _ _ _
  | bufferLoop => exact bufferLoopBlock_lk _ _
  | allocIngest o tl => exact allocIngestBlock_lk _ _ _ _ _
  | provIngest o d => exact provIngestBlock_lk _ _ _ _ _
  | ingestStream o tl => exact ingestStreamBlock_lk _ _ _ _ _
  | allocTask t m preds obs ing ret => exact allocTaskBlock_lk _ _ _ _ _ _ _ _
  | doWork t m preds ph tot => exact doWorkBlock_lk _ _ _ _ _ _ _ _
  | allocTasks o sc pa po fin => exact allocTasksBlock_lk _ _ _ _ _ _ _ _ _
  | hot2cold cur => exact hot2coldBlock_lk _ _ _
  | cold2hot cur => exact cold2hotBlock_lk _ _ _

theorem live_crash_halted (s : Sys) (e : Err) : (s.crash e).halted = s.halted := by
  unfold crash; split <;> rfl

theorem live_updProc_map_pid (s : Sys) (pid : Nat) (f : Proc → Proc) (hf : ∀ q, (f q).pid = q.pid) :
    (s.updProc pid f).procs.map (·.pid) = s.procs.map (·.pid) := by
  simp only [Sys.updProc, List.map_map]
  apply List.map_congr_left
  intro q _
  simp only [Function.comp]
  split
  · exact hf q
  · rfl

theorem resume_lk (s : Sys) (pid : Nat) (orc : Oracle) : LK s (s.resume pid orc).1 := by
  rcases resume_cases s pid orc with ⟨h, _⟩ | ⟨q, _, _, _, f, hf, hs⟩
  · rw [h]; exact LK.refl _
  · refine LK.trans (block_lk s q orc) ?_
    have h1 : LK (s.block q orc).1 ((s.block q orc).1.updProc pid f) := by
      refine ⟨rfl, ?_⟩
      unfold PidIdx
      rw [live_updProc_map_pid _ _ _ (fun x => (hf x).1)]
      exact id
    rcases hs with hs | ⟨e, hs⟩
    · rw [hs]; exact h1
    · rw [hs]
      refine h1.trans ⟨live_crash_halted _ _, ?_⟩
      unfold PidIdx
      rw [crash_procs, crash_nextPid]
      exact id

theorem start_lk (s0 : Sys) : LK s0 s0.start := by
  unfold start
  exact LK.foldl _ (fun s k => LK.spawn s k 0) _ _

theorem start_pidIdx (s0 : Sys) (hw : WFConfig s0) : PidIdx s0.start := by
  obtain ⟨hprocs, hnp, _⟩ := hw.fresh
  apply (start_lk s0).2
  unfold PidIdx
  rw [hprocs, hnp]
  rfl

/-- records persist by pid across one block: dead stays dead, the block counter only grows -/
theorem resume_persist (s : Sys) (pid : Nat) (orc : Oracle) :
    ∀ p ∈ s.procs, ∃ p' ∈ (s.resume pid orc).1.procs, p'.pid = p.pid ∧ (p'.alive = true → p.alive = true) ∧
      p.pc ≤ p'.pc := by
  intro p hp
  cases hq : s.proc? pid with
  | none => rw [resume_none s pid orc hq]; exact ⟨p, hp, rfl, id, Nat.le_refl _⟩
  | some q =>
    cases ha : q.alive with
    | false => rw [resume_dead s pid orc q hq ha]; exact ⟨p, hp, rfl, id, Nat.le_refl _⟩
    | true =>
      obtain ⟨e1, _, _⟩ := il_resume_procs_eq s pid orc q hq ha
      have hpre : s.procs <+: (s.block q orc).1.procs := block_pre s q orc
      rw [e1]
      refine ⟨_, mem_updProc.mpr ⟨p, hpre.subset hp, rfl⟩, ?_⟩
      split
      · refine ⟨fin_pid _ _ _ _, fun h => (fin_alive _ _ _ _ h).1, ?_⟩
        rw [fin_pc]; omega
      · exact ⟨rfl, id, Nat.le_refl _⟩

end Sys

namespace KState

variable {σ : Type}

theorem live_step_st (h : Handler σ) (k k' : KState σ) (hs : k.step h = some k') :
    ∃ e, k.peek = some e ∧ k'.st = (h k.st e.pid e.time).1 := by
  cases hp : k.peek with
  | none => simp [KState.step, hp] at hs
  | some e =>
    rw [step_eq h k e hp] at hs
    cases hy : (h k.st e.pid e.time).2.2 <;> simp only [hy] at hs <;> cases hs <;> exact ⟨e, rfl, rfl⟩

end KState

/-! ### along the runs -/

theorem SimReach.pidIdx {env : SimEnv} {s0 : Sys} (hw : WFConfig s0) {k : SimState}
    (h : SimReach env s0 k) : PidIdx k.st :=
  SimReach.sys_induct hw PidIdx (start_pidIdx s0 hw) (fun _ h => h) (fun _ h => h)
    (fun k _ ih pid _ _ _ _ => (resume_lk k.st pid _).2 ih) k h

/-- the exception flag is only ever raised -/
theorem live_step_crashed {env : SimEnv} {s0 : Sys} (hw : WFConfig s0) {k k1 : SimState}
    (h : SimReach env s0 k) (hs : k.step (simHandler env) = some k1) (hc : k1.st.crashed = none) :
    k.st.crashed = none := by
  obtain ⟨e, _, hcase⟩ := ot_step_cases hw h hs
  rcases hcase with ⟨h1, _⟩ | ⟨p, hpp, ha, _, _, h1⟩
  · rw [h1] at hc; exact hc
  · rw [h1] at hc
    exact (resume_nocrash k.st e.pid _ p hpp ha hc).1

/-- while the exception flag is down, every heap entry belongs to a live process -/
def NoDead (k : SimState) : Prop :=
  k.st.crashed = none → ∀ x ∈ k.heap, ∃ p, k.st.proc? x.pid = some p ∧ p.alive = true

theorem simHandler_live (env : SimEnv) (s : Sys) (pid : Nat) (now : Time) (p : Proc)
    (hp : s.proc? pid = some p) (ha : p.alive = true) :
    (simHandler env s pid now).1 = (s.resume pid (env.oracle s)).1 ∧
    (simHandler env s pid now).2.1 =
       (List.range ((s.resume pid (env.oracle s)).1.nextPid - s.nextPid)).map (· + s.nextPid) ∧
    (simHandler env s pid now).2.2 =
       match (s.block p (env.oracle s)).2.2 with
       | .timeout d => some d
       | .done => none
       | .raised _ => some 0 := by
  rcases simHandler_cases env s pid now with ⟨_, hd⟩ | ⟨h1, h2, h3⟩
  · rw [hd p hp] at ha; cases ha
  · refine ⟨h1, h2, ?_⟩
    rw [h3, (il_resume_procs_eq s pid (env.oracle s) p hp ha).2.2]
    cases (s.block p (env.oracle s)).2.2 <;> rfl

theorem SimReach.noDead {env : SimEnv} {s0 : Sys} (hw : WFConfig s0) {k : SimState}
    (h : SimReach env s0 k) : NoDead k := by
  induction h with
  | start =>
    intro _ x hx
    obtain ⟨hprocs, hnp, _⟩ := hw.fresh
    obtain ⟨hh, _⟩ := SimState.start_heap s0
    have hst : (SimState.start s0).st = s0.start := rfl
    have hp : s0.start.procs =
        [{ pid := 0, k := .monitor, wake := 0 }, { pid := 1, k := .telescope, wake := 0 },
         { pid := 2, k := .clusterLoop, wake := 0 }, { pid := 3, k := .schedLoop, wake := 0 },
         { pid := 4, k := .bufferLoop, wake := 0 }] := by
      simp [Sys.start, Sys.spawn, hprocs, hnp]
    rw [hh] at hx
    simp only [List.mem_cons, List.not_mem_nil, or_false] at hx
    rcases hx with rfl | rfl | rfl | rfl | rfl <;> simp [hst, Sys.proc?, hp]
  | collate k _ ih => exact fun hc x hx => ih hc x hx
  | step k k1 hr hs ih =>
    intro hc1 x hx
    have hinv := hr.l3inv hw
    obtain ⟨e, hpk, hcase⟩ := ot_step_cases hw hr hs
    obtain ⟨he, _⟩ := peek_spec k e hpk
    rcases hcase with ⟨hc, hdead⟩ | ⟨p, hpp, ha, het, hen, hc⟩
    · exfalso
      have hck : k.st.crashed = none := by rw [hc] at hc1; exact hc1
      obtain ⟨q, hq, hqa⟩ := ih hck e he
      rw [hdead q hq] at hqa; cases hqa
    · have hrc : (k.st.resume e.pid (env.oracle k.st)).1.crashed = none := by rw [← hc]; exact hc1
      obtain ⟨hck, hnr⟩ := resume_nocrash k.st e.pid _ p hpp ha hrc
      obtain ⟨hst, hkeep, _, eid2, _, hnew, hto⟩ :=
        step_spec (simHandler env) k k1 e hpk hs hinv.heap.fresh
      have hpw := hinv.sinv.pw
      obtain ⟨hpm, hpid⟩ := proc?_some hpp
      obtain ⟨m1, m2, m3⟩ := il_resume_procs_mem hpw hpp ha (env.oracle k.st)
      have hinv1 := (SimReach.step k k1 hr hs).l3inv hw
      have hpw1 : PW (k.st.resume e.pid (env.oracle k.st)).1 := by rw [← hc]; exact hinv1.sinv.pw
      obtain ⟨_, s2, s3⟩ := simHandler_live env k.st e.pid e.time p hpp ha
      rw [hc]
      rcases hnew x hx with h1 | ⟨_, _, h1⟩ | ⟨d, hd, hxd⟩
      · -- an old entry: its process did not run
        have hxk := List.mem_of_mem_erase h1
        obtain ⟨q, hq, hqa⟩ := ih hck x hxk
        have herase : (k.heap.erase e).map (·.pid) = (k.heap.map (·.pid)).erase e.pid :=
          map_erase_of_nodup (·.pid) k.heap e he hinv.heap.uniq
        have hnotin : e.pid ∉ (k.heap.erase e).map (·.pid) := by
          rw [herase]; exact fun hh => (List.Nodup.mem_erase_iff hinv.heap.uniq).mp hh |>.1 rfl
        have hne : x.pid ≠ e.pid := fun hh => hnotin (hh ▸ List.mem_map_of_mem h1)
        rcases resume_proc? k.st e.pid (env.oracle k.st) x.pid q hq with h2 | ⟨h2, _⟩
        · exact ⟨q, h2, hqa⟩
        · exact absurd h2 hne
      · -- the initialisation of a new process
        rw [s2] at h1
        simp only [List.mem_map, List.mem_range] at h1
        obtain ⟨i, hi, hix⟩ := h1
        have hidx : PidIdx (k.st.resume e.pid (env.oracle k.st)).1 := (resume_lk _ _ _).2 (hr.pidIdx hw)
        have hin : x.pid ∈ (k.st.resume e.pid (env.oracle k.st)).1.procs.map (·.pid) := by
          rw [hidx]; exact List.mem_range.mpr (by omega)
        obtain ⟨q', hq', hq'p⟩ := List.mem_map.mp hin
        have hq'p : q'.pid = x.pid := hq'p
        refine ⟨q', by rw [← hq'p]; exact hpw1.proc?_of_mem hq', ?_⟩
        rcases m1 q' hq' with rfl | ⟨hold, _⟩ | ⟨_, w2, _, _⟩
        · exfalso
          have := hinv.heap.lt e he
          simp only [fin_pid] at hq'p
          omega
        · exfalso
          have := hpw.lt q' hold
          omega
        · exact w2
      · -- the timeout of the process that ran
        rw [s3] at hd
        cases hy : (k.st.block p (env.oracle k.st)).2.2 with
        | timeout d' =>
          refine ⟨fin (k.st.block p (env.oracle k.st)).2.1 (k.st.block p (env.oracle k.st)).2.2 p.wake p, ?_, ?_⟩
          · have := hpw1.proc?_of_mem m2
            rw [fin_pid, hpid] at this
            rw [hxd]; exact this
          · rw [hy]; exact ha
        | done => rw [hy] at hd; cases hd
        | raised err => exact absurd hy (hnr err)

/-- while nothing has raised, a kernel step is one block of the live process of the popped event -/
theorem live_step_resume {env : SimEnv} {s0 : Sys} (hw : WFConfig s0) {k k1 : SimState}
    (h : SimReach env s0 k) (hck : k.st.crashed = none) (hs : k.step (simHandler env) = some k1) :
    ∃ e p, k.peek = some e ∧ k.st.proc? e.pid = some p ∧ p.alive = true ∧ e.time = p.wake ∧
      k.st.enabled e.pid ∧ k1.st = (k.st.resume e.pid (env.oracle k.st)).1 := by
  obtain ⟨e, hpk, hcase⟩ := ot_step_cases hw h hs
  rcases hcase with ⟨_, hdead⟩ | ⟨p, hpp, ha, het, hen, hc⟩
  · exfalso
    obtain ⟨q, hq, hqa⟩ := h.noDead hw hck e (peek_spec k e hpk).1
    rw [hdead q hq] at hqa; cases hqa
  · exact ⟨e, p, hpk, hpp, ha, het, hen, hc⟩

/-- the monitor loop is immortal: the heap is never empty -/
theorem live_step_exists {env : SimEnv} {s0 : Sys} (hw : WFConfig s0) {k : SimState}
    (h : SimReach env s0 k) : ∃ k1, k.step (simHandler env) = some k1 := by
  have hinv := h.l3inv hw
  obtain ⟨p, hp, _, ha⟩ := hinv.mon.mon
  obtain ⟨x, hx, _⟩ := hinv.heap.live p (proc?_some hp).1 ha
  cases hpk : k.peek with
  | none =>
    rw [(peek_none_iff k).mp hpk] at hx
    cases hx
  | some e => exact step_isSome _ k e hpk

theorem simAt_succ_of_none {env : SimEnv} {s0 : Sys} {n : Nat}
    (h : (simAt env s0 n).step (simHandler env) = none) : simAt env s0 (n + 1) = simAt env s0 n := by
  show (match (simAt env s0 n).step (simHandler env) with
    | some k1 => k1
    | none => simAt env s0 n) = _
  rw [h]

theorem live_crashed_mono (env : SimEnv) (s0 : Sys) (hw : WFConfig s0) {n m : Nat} (h : n ≤ m)
    (hc : (simAt env s0 m).st.crashed = none) : (simAt env s0 n).st.crashed = none := by
  induction m with
  | zero =>
    have : n = 0 := by omega
    subst this; exact hc
  | succ m ih =>
    by_cases e : n = m + 1
    · subst e; exact hc
    · apply ih (by omega)
      cases hs : (simAt env s0 m).step (simHandler env) with
      | none => rw [simAt_succ_of_none hs] at hc; exact hc
      | some k1 =>
        rw [simAt_succ_of_step hs] at hc
        exact live_step_crashed hw (simAt_reach env s0 m) hs hc

/-- **(B)** While nothing has raised, the run is an uninterrupted `SimRun`, the exception has not
left `env.run`, and the heap is not empty.  (`WFConfig` does not constrain the `halted` flag of the
configuration, hence the hypothesis `hh0`.) -/
theorem live_simRun (env : SimEnv) (s0 : Sys) (hw : Sys.WFConfig s0) (hh0 : s0.halted = false) (n : Nat)
    (hc : (simAt env s0 n).st.crashed = none) :
    SimRun env s0 (simAt env s0 n) ∧ (simAt env s0 n).st.halted = false ∧
      ∃ k1, (simAt env s0 n).step (simHandler env) = some k1 := by
  have key : SimRun env s0 (simAt env s0 n) ∧ (simAt env s0 n).st.halted = false := by
    induction n with
    | zero =>
      refine ⟨SimRun.start, ?_⟩
      show s0.start.halted = false
      rw [(start_lk s0).1]; exact hh0
    | succ n ih =>
      have hcn := live_crashed_mono env s0 hw (Nat.le_succ n) hc
      obtain ⟨hrun, hhalt⟩ := ih hcn
      obtain ⟨k1, hs⟩ := live_step_exists hw (simAt_reach env s0 n)
      obtain ⟨e, p, _, _, _, _, _, hst⟩ := live_step_resume hw (simAt_reach env s0 n) hcn hs
      rw [simAt_succ_of_step hs]
      refine ⟨SimRun.step _ _ hrun hhalt hs, ?_⟩
      rw [hst, (resume_lk _ _ _).1]; exact hhalt
  exact ⟨key.1, key.2, live_step_exists hw (simAt_reach env s0 n)⟩

/-- **(E)** the process table is indexed by pid, all along the run -/
theorem live_pidIdx (env : SimEnv) (s0 : Sys) (hw : Sys.WFConfig s0) (n : Nat) :
    (simAt env s0 n).st.procs.map (·.pid) = List.range (simAt env s0 n).st.nextPid :=
  (simAt_reach env s0 n).pidIdx hw

theorem simHandler_persist (env : SimEnv) (s : Sys) (pid : Nat) (now : Time) :
    ∀ p ∈ s.procs, ∃ p' ∈ (simHandler env s pid now).1.procs, p'.pid = p.pid ∧
      (p'.alive = true → p.alive = true) ∧ p.pc ≤ p'.pc := by
  rcases simHandler_cases env s pid now with ⟨h, _⟩ | ⟨h, _, _⟩
  · rw [h]; exact fun p hp => ⟨p, hp, rfl, id, Nat.le_refl _⟩
  · rw [h]; exact resume_persist s pid _

/-- **(F)** records persist by pid, dead stays dead, the block counter only grows -/
theorem live_procs_prefix (env : SimEnv) (s0 : Sys) (n m : Nat) (h : n ≤ m) :
    ∀ p ∈ (simAt env s0 n).st.procs, ∃ p' ∈ (simAt env s0 m).st.procs, p'.pid = p.pid ∧
      (p'.alive = true → p.alive = true) ∧ p.pc ≤ p'.pc := by
  induction m with
  | zero =>
    have : n = 0 := by omega
    subst this; exact fun p hp => ⟨p, hp, rfl, id, Nat.le_refl _⟩
  | succ m ih =>
    by_cases e : n = m + 1
    · subst e; exact fun p hp => ⟨p, hp, rfl, id, Nat.le_refl _⟩
    · intro p hp
      obtain ⟨p1, hp1, e1, a1, c1⟩ := ih (by omega) p hp
      cases hs : (simAt env s0 m).step (simHandler env) with
      | none => rw [simAt_succ_of_none hs]; exact ⟨p1, hp1, e1, a1, c1⟩
      | some k1 =>
        rw [simAt_succ_of_step hs]
        obtain ⟨ev, _, hst⟩ := live_step_st _ _ _ hs
        obtain ⟨p2, hp2, e2, a2, c2⟩ := simHandler_persist env (simAt env s0 m).st ev.pid ev.time p1 hp1
        exact ⟨p2, by rw [hst]; exact hp2, e2.trans e1, fun h => a1 (a2 h), Nat.le_trans c1 c2⟩

/-! ### the least time of the heap never goes back -/

theorem simHandler_delay_nonneg (env : SimEnv) (s : Sys) (pid : Nat) (now : Time) (d : Time)
    (h : (simHandler env s pid now).2.2 = some d) : 0 ≤ d := by
  rcases simHandler_cases env s pid now with ⟨hc, _⟩ | ⟨_, _, hc⟩
  · rw [hc] at h; cases h
  · rw [hc] at h
    rcases resume_cases s pid (env.oracle s) with ⟨h1, _⟩ | ⟨q, _, _, hy, _⟩
    · rw [h1] at h
      simp only [Option.some.injEq] at h
      rw [← h]; decide
    · rw [hy] at h
      cases hb : (s.block q (env.oracle s)).2.2 with
      | timeout d' =>
        rw [hb] at h
        simp only [Option.some.injEq] at h
        rw [← h]; exact block_delay_nonneg s q _ d' hb
      | done => rw [hb] at h; cases h
      | raised err =>
        rw [hb] at h
        simp only [Option.some.injEq] at h
        rw [← h]; decide

/-- **(D)** the least time of the heap never goes back (new entries are at the time of the popped
one or later) -/
theorem live_heap_min_mono (env : SimEnv) (s0 : Sys) (hw : Sys.WFConfig s0) (n m : Nat) (h : n ≤ m)
    (T : Time) (hT : ∀ x ∈ (simAt env s0 n).heap, T ≤ x.time) :
    ∀ x ∈ (simAt env s0 m).heap, T ≤ x.time := by
  induction m with
  | zero =>
    have : n = 0 := by omega
    subst this; exact hT
  | succ m ih =>
    by_cases e : n = m + 1
    · subst e; exact hT
    · have ih' := ih (by omega)
      cases hs : (simAt env s0 m).step (simHandler env) with
      | none => rw [simAt_succ_of_none hs]; exact ih'
      | some k1 =>
        rw [simAt_succ_of_step hs]
        have hinv := (simAt_reach env s0 m).l3inv hw
        cases hpk : (simAt env s0 m).peek with
        | none => simp [KState.step, hpk] at hs
        | some ev =>
          obtain ⟨_, _, _, eid2, _, hnew, _⟩ :=
            step_spec (simHandler env) _ k1 ev hpk hs hinv.heap.fresh
          have hev : T ≤ ev.time := ih' ev (peek_spec _ ev hpk).1
          intro x hx
          rcases hnew x hx with h1 | ⟨h1, _, _⟩ | ⟨d, hd, hxd⟩
          · exact ih' x (List.mem_of_mem_erase h1)
          · rw [h1]; exact hev
          · have hd0 := simHandler_delay_nonneg env _ _ _ d hd
            rw [hxd]
            show T ≤ ev.time + d
            grind

end Topsim
