/-
  LifeCycle6 — the process table across one step: which processes a block creates (kind, due
  time), and what `resume` does to the entry that ran.
-/
import TopsimProofs.LifeCycle5

namespace Topsim
namespace Sys

/-- `b`'s table is `a`'s plus fresh entries: alive, not yet run, due at `w`, of a kind in `P` -/
def NewP (w : Time) (P : PK → Prop) (a b : Sys) : Prop :=
  ∃ new, b.procs = a.procs ++ new ∧ ∀ q ∈ new, q.alive = true ∧ q.pc = 0 ∧ q.wake = w ∧ P q.k

theorem NewP.refl (w : Time) (P : PK → Prop) (a : Sys) : NewP w P a a := ⟨[], by simp, by simp⟩

theorem NewP.of_eq {w : Time} {P : PK → Prop} {a b : Sys} (h : b.procs = a.procs) : NewP w P a b :=
  ⟨[], by simp [h], by simp⟩

theorem NewP.trans {w : Time} {P : PK → Prop} {a b c : Sys} (h1 : NewP w P a b) (h2 : NewP w P b c) :
    NewP w P a c := by
  obtain ⟨n1, e1, f1⟩ := h1
  obtain ⟨n2, e2, f2⟩ := h2
  refine ⟨n1 ++ n2, by rw [e2, e1, List.append_assoc], ?_⟩
  intro q hq
  rcases List.mem_append.mp hq with hq | hq
  · exact f1 q hq
  · exact f2 q hq

theorem NewP.mono {w : Time} {P Q : PK → Prop} {a b : Sys} (h : NewP w P a b) (hpq : ∀ k, P k → Q k) :
    NewP w Q a b := by
  obtain ⟨n, e, f⟩ := h
  exact ⟨n, e, fun q hq => ⟨(f q hq).1, (f q hq).2.1, (f q hq).2.2.1, hpq _ (f q hq).2.2.2⟩⟩

theorem NewP.spawn {P : PK → Prop} (a : Sys) (k : PK) (w : Time) (hk : P k) : NewP w P a (a.spawn k w).1 :=
  ⟨[{ pid := a.nextPid, k := k, wake := w }], rfl, by simp [hk]⟩

theorem NewP.foldl {α} {w : Time} {P : PK → Prop} (f : Sys → α → Sys) (hf : ∀ s x, NewP w P s (f s x))
    (l : List α) (s : Sys) : NewP w P s (l.foldl f s) := by
  induction l generalizing s with
  | nil => exact NewP.refl w P s
  | cons x r ih => exact (hf s x).trans (ih _)

/-- the kinds a process of kind `k` may create -/
def NewKind : PK → PK → Prop
  | .telescope, k => ∃ o, k = .allocIngest o 0
  | .schedLoop, k => ∃ o, k = .allocTasks o [] [] [] false
  | .bufferLoop, k => k = .hot2cold none ∨ k = .cold2hot none
  | .allocIngest o _, k => (∃ d, k = .provIngest o d) ∨ k = .ingestStream o 0
  | .provIngest o _, k => ∃ t m, k = .allocTask t m [] (some o) true 0
  | .allocTask t m preds _ _ _, k => k = .doWork t m preds 0 0
  | .allocTasks o _ _ _ _, k => ∃ t m cross, k = .allocTask t m cross (some o) false 0
  | _, _ => False

theorem telStep_newp {n : Nat} {oid : Oid} {acc acc' : Sys × Option Err} {t : List Event}
    (h : TelStep n oid acc acc' t) : NewP (n : Time) (NewKind .telescope) acc.1 acc'.1 := by
  cases h with
  | quiet _ _ _ hp => exact NewP.of_eq hp
  | start ob _ _ _ _ _ _ _ _ hp => exact ⟨_, hp, by simp [NewKind]⟩
  | finish ob a _ _ _ _ _ _ _ _ _ _ hp => exact NewP.of_eq hp

theorem telRun_newp {n : Nat} {l : List Oid} {acc acc' : Sys × Option Err} {L : List Event}
    (h : TelRun n l acc acc' L) : NewP (n : Time) (NewKind .telescope) acc.1 acc'.1 := by
  induction h with
  | nil acc => exact NewP.refl _ _ _
  | cons oid l acc acc1 acc2 t L ht _ ih => exact (telStep_newp ht).trans ih

theorem allocIngestBlock_newp (s : Sys) (now : Time) (pc : Nat) (oid : Oid) (tl : Int) :
    NewP now (NewKind (.allocIngest oid tl)) s (s.allocIngestBlock now pc oid tl).1 := by
  rcases allocIngestBlock_procs s now pc oid tl with h | ⟨ob, d, _, _, h, _⟩
  · exact NewP.of_eq h
  · exact ⟨_, h, by simp [NewKind]⟩

theorem provIngestBlock_newp (s : Sys) (now : Time) (pc : Nat) (oid : Oid) (d : Nat) :
    NewP now (NewKind (.provIngest oid d)) s (s.provIngestBlock now pc oid d).1 := by
  unfold provIngestBlock
  split
  · simp only
    split
    · exact NewP.of_eq rfl
    · refine NewP.trans (NewP.of_eq rfl) (NewP.foldl _ ?_ _ _)
      intro s x
      exact NewP.spawn _ _ _ ⟨_, _, rfl⟩
  · exact NewP.refl _ _ _

theorem ingestStreamBlock_procs (s : Sys) (now : Time) (pc : Nat) (oid : Oid) (tl : Int) :
    (s.ingestStreamBlock now pc oid tl).1.procs = s.procs := by
  have hi : ∀ (s : Sys) tl, (s.ingestStreamIter now oid tl).1.procs = s.procs := by
    intro s tl; unfold ingestStreamIter; mach_split
  unfold ingestStreamBlock
  split
  · split
    · rfl
    · split
      · rfl
      · exact (hi _ _).trans rfl
  · exact hi _ _

theorem allocTaskBlock_newp (s : Sys) (now : Time) (t : Tid) (m : Mid) (preds : List Tid)
    (obs : Option Oid) (ing : Bool) (ret : Nat) :
    NewP now (NewKind (.allocTask t m preds obs ing ret)) s (s.allocTaskBlock now t m preds obs ing ret).1 := by
  unfold allocTaskBlock
  simp only
  (repeat' split) <;> first
    | exact NewP.refl _ _ _
    | exact NewP.of_eq rfl
    | exact ⟨[{ pid := _, k := .doWork t m preds 0 0, wake := now }], rfl, by simp [NewKind]⟩

theorem bufferLoopBlock_newp (s : Sys) (now : Time) :
    NewP now (NewKind .bufferLoop) s (s.bufferLoopBlock now).1 := by
  unfold bufferLoopBlock
  split
  · exact NewP.refl _ _ _
  · simp only
    (repeat' split) <;> first
      | exact NewP.refl _ _ _
      | exact NewP.spawn _ _ _ (Or.inl rfl)
      | exact NewP.spawn _ _ _ (Or.inr rfl)
      | exact (NewP.spawn _ _ _ (Or.inl rfl)).trans (NewP.spawn _ _ _ (Or.inr rfl))

theorem processCurrentSchedule_newp (s : Sys) (now : Time) (oid : Oid) (schedule pairs : List (Tid × Mid))
    (P : PK → Prop) (hP : ∀ t m cross, P (.allocTask t m cross (some oid) false 0)) :
    NewP now P s (processCurrentSchedule s now oid schedule pairs).s := by
  unfold processCurrentSchedule
  have h1 : ∀ (st : PcsSt) (t : Tid), NewP now P st.s (processOne now oid st t).s := by
    intro st t
    unfold processOne
    simp only
    (repeat' split) <;> first
      | exact NewP.refl _ _ _
      | exact NewP.of_eq rfl
      | exact ⟨[{ pid := _, k := _, wake := now }], rfl, by simp [hP]⟩
  have : ∀ (l : List Tid) (st : PcsSt), NewP now P st.s (l.foldl (processOne now oid) st).s := by
    intro l
    induction l with
    | nil => intro st; exact NewP.refl _ _ _
    | cons a r ih => intro st; exact (h1 st a).trans (ih _)
  simp only
  exact this _ { s := s, schedule := schedule, pairs := pairs, curr := [] }

theorem allocTasksBlock_newp (s : Sys) (now : Time) (orc : Oracle) (pc : Nat) (oid : Oid)
    (sc pa : List (Tid × Mid)) (po : List Tid) (fin : Bool) :
    NewP now (NewKind (.allocTasks oid sc pa po fin)) s (s.allocTasksBlock now orc pc oid sc pa po fin).1 := by
  cases fin with
  | true => rw [allocTasksBlock_fin]; exact NewP.refl _ _ _
  | false =>
    rw [allocTasksBlock_eq]
    have h0 : NewP now (NewKind (.allocTasks oid sc pa po false)) s (atStart s now pc oid) :=
      NewP.of_eq (atStart_procs s now pc oid)
    refine h0.trans ?_
    generalize atStart s now pc oid = a
    have h1 : NewP now (NewKind (.allocTasks oid sc pa po false)) a (a.updateCurrentPlan oid) :=
      NewP.of_eq (updateCurrentPlan_core a oid).procs
    have hout := allocTasksIter_out a now orc oid sc pa po
    generalize a.allocTasksIter now orc oid sc pa po = r at hout ⊢
    cases hout with
    | noPlan _ => exact h1
    | algErr _ _ _ _ => exact h1
    | finish plan out _ _ _ _ _ _ => exact h1.trans (NewP.of_eq (atS3_procs _ out oid))
    | finishBad plan out _ _ _ _ _ _ => exact h1.trans (NewP.of_eq (atS3_procs _ out oid))
    | finishWait plan out _ _ _ _ _ => exact h1.trans (NewP.of_eq (atS3_procs _ out oid))
    | idle plan out _ _ _ _ => exact h1.trans (NewP.of_eq (atS3_procs _ out oid))
    | alloc plan out y _ _ _ _ =>
      exact (h1.trans (NewP.of_eq (atS3_procs _ out oid))).trans
        (processCurrentSchedule_newp _ _ _ _ _ _ (fun t m cross => ⟨t, m, cross, rfl⟩))

theorem tierBlock_procs (s : Sys) (now : Time) (cur : Option (Oid × Int)) :
    (s.hot2coldBlock now cur).1.procs = s.procs ∧ (s.cold2hotBlock now cur).1.procs = s.procs := by
  have h1 : ∀ (s : Sys) o left, (s.hot2coldIter now o left).1.procs = s.procs := by
    intro s o left; unfold hot2coldIter; mach_split
  have h2 : ∀ (s : Sys) o left, (s.cold2hotIter now o left).1.procs = s.procs := by
    intro s o left; unfold cold2hotIter; mach_split
  constructor
  · unfold hot2coldBlock
    split
    · exact h1 _ _ _
    · split
      · rfl
      · rfl
      · exact (h1 _ _ _).trans rfl
  · unfold cold2hotBlock
    split
    · exact h2 _ _ _
    · split
      · rfl
      · rfl
      · exact (h2 _ _ _).trans rfl

/-- the processes a block creates: alive, not yet run, due at the time of the block, of the
kinds the creating process may create -/
theorem block_newp (s : Sys) (p : Proc) (orc : Oracle) :
    NewP (if p.k = .telescope then ((natNow p.wake : Nat) : Time) else p.wake) (NewKind p.k) s (s.block p orc).1 := by
  cases hk : p.k with
  | monitor => rw [block_monitor orc hk]; exact NewP.of_eq rfl
  | telescope =>
    simp only [if_true]
    rcases blockEvents_telescope (s := s) orc hk with ⟨_, h, _⟩ | ⟨s0, e0, _, _, g3, _, _, _, _, hrun, _⟩
    · rw [h]; exact NewP.of_eq rfl
    · obtain ⟨new, e, f⟩ := telRun_newp hrun
      exact ⟨new, by rw [e, g3], f⟩
  | clusterLoop => rw [block_clusterLoop orc hk]; exact NewP.of_eq rfl
  | schedLoop =>
    simp only [reduceCtorEq, if_false]
    rcases blockEvents_schedLoop (s := s) orc hk with ⟨_, h, _⟩ | ⟨oid, ob, _, _, _, _, _, h⟩
    · exact NewP.of_eq h
    · exact ⟨_, h, by simp [NewKind]⟩
  | bufferLoop =>
    simp only [reduceCtorEq, if_false]
    rw [block_bufferLoop orc hk]; exact bufferLoopBlock_newp _ _
  | allocIngest o tl =>
    simp only [reduceCtorEq, if_false]
    rw [block_allocIngest orc hk]; exact allocIngestBlock_newp _ _ _ _ _
  | provIngest o d =>
    simp only [reduceCtorEq, if_false]
    rw [block_provIngest orc hk]; exact provIngestBlock_newp _ _ _ _ _
  | ingestStream o tl =>
    rw [block_ingestStream orc hk]; exact NewP.of_eq (ingestStreamBlock_procs _ _ _ _ _)
  | allocTask t m preds obs ing ret =>
    simp only [reduceCtorEq, if_false]
    rw [block_allocTask orc hk]; exact allocTaskBlock_newp _ _ _ _ _ _ _ _
  | doWork t m preds ph tot =>
    rw [block_doWork orc hk]; exact NewP.of_eq (doWorkBlock_procs _ _ _ _ _ _ _ _)
  | allocTasks o sc pa po fin =>
    simp only [reduceCtorEq, if_false]
    rw [block_allocTasks orc hk]; exact allocTasksBlock_newp _ _ _ _ _ _ _ _ _
  | hot2cold cur => rw [block_hot2cold orc hk]; exact NewP.of_eq (tierBlock_procs _ _ _).1
  | cold2hot cur => rw [block_cold2hot orc hk]; exact NewP.of_eq (tierBlock_procs _ _ _).2

/-! ### the table after `resume` -/

/-- the table after an enabled step: the entry that ran (kind from the block, one more block
run), the other old entries, the new ones -/
theorem resume_memSpec {s : Sys} (hi : EInv s) {pid : Nat} {p : Proc} (hp : s.proc? pid = some p)
    (ha : p.alive = true) (hmin : ∀ q ∈ s.procs, q.alive = true → p.wake ≤ q.wake) (orc : Oracle)
    {new : List Proc} (hnew : (s.block p orc).1.procs = s.procs ++ new) :
    MemSpec s (s.resume pid orc).1 p (fin (s.block p orc).2.1 (s.block p orc).2.2 p.wake p) new := by
  obtain ⟨hpm, hpid⟩ := proc?_some hp
  subst hpid
  have hpwX := (block_pre_str hi.pw hi.eg hpm ha hmin orc).2
  have hm := memSpec_updProc hi.pw hpm new hnew hpwX (fin (s.block p orc).2.1 (s.block p orc).2.2 p.wake)
  have hc := (resume_core s p.pid orc p hp ha).procs
  intro q
  rw [hc]
  exact hm q

/-- the kind after the block is of the same class: same constructor, and the same observation for
an ingest stream and for `allocate_tasks` -/
theorem block_class (s : Sys) (hpw : PW s) (p : Proc) (orc : Oracle) :
    (∀ o, (∃ tl, (s.block p orc).2.1 = .ingestStream o tl) ↔ ∃ tl, p.k = .ingestStream o tl) ∧
    (∀ o, (∃ sc pa po fin, (s.block p orc).2.1 = .allocTasks o sc pa po fin) ↔
      ∃ sc pa po fin, p.k = .allocTasks o sc pa po fin) := by
  have htag := block_tag s hpw p orc
  constructor
  · intro o
    constructor
    · rintro ⟨tl, h⟩
      rw [h] at htag
      cases hk : p.k <;> rw [hk] at htag <;> simp [PK.tag] at htag
      rename_i o' tl'
      obtain ⟨tl'', h'⟩ := ingestStreamBlock_tag s p.wake p.pc o' tl'
      rw [block_ingestStream orc hk] at h
      rw [h] at h'
      injection h' with e _
      exact ⟨tl', by rw [e]⟩
    · rintro ⟨tl, hk⟩
      rw [block_ingestStream orc hk]
      exact ingestStreamBlock_tag s p.wake p.pc o tl
  · intro o
    have hats : ∀ o' sc pa po fin, ∃ sc' pa' po' fin',
        (s.allocTasksBlock p.wake orc p.pc o' sc pa po fin).2.1 = .allocTasks o' sc' pa' po' fin' := by
      intro o' sc pa po fin
      cases fin with
      | true => rw [allocTasksBlock_fin]; exact ⟨_, _, _, _, rfl⟩
      | false =>
        rw [allocTasksBlock_eq]
        have hout := allocTasksIter_out (atStart s p.wake p.pc o') p.wake orc o' sc pa po
        generalize (atStart s p.wake p.pc o').allocTasksIter p.wake orc o' sc pa po = r at hout ⊢
        cases hout <;> exact ⟨_, _, _, _, rfl⟩
    constructor
    · rintro ⟨sc, pa, po, fin, h⟩
      rw [h] at htag
      cases hk : p.k <;> rw [hk] at htag <;> simp [PK.tag] at htag
      rename_i o' sc' pa' po' fin'
      obtain ⟨sc2, pa2, po2, fin2, h'⟩ := hats o' sc' pa' po' fin'
      rw [block_allocTasks orc hk] at h
      rw [h] at h'
      injection h' with e _
      exact ⟨sc', pa', po', fin', by rw [e]⟩
    · rintro ⟨sc, pa, po, fin, hk⟩
      rw [block_allocTasks orc hk]
      exact hats o sc pa po fin

end Sys
end Topsim
