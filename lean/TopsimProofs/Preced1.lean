/-
  Preced1 — concrete runs for C03 on trajectories.

  Configuration `precW0`: one machine (cpu 1, bandwidth 1), one observation of
  one array, one ingest machine, one timestep, rate 0, whose workflow is the chain
  `0 → 1` (node 0: two units of work, node 1: one unit; no data on the edge);
  the queue algorithm; the empty oracle at every block (no delay).

  `precSchedAdv`: an order of the blocks, legal for `Reach` (any process of minimal
  wake time may run next), in which, inside an instant, the predecessor's body ends
  BEFORE its allocation process polls BEFORE `allocate_tasks` runs.
  -- F13: before the repair the successor started at t = 2 in this order, one step before its
  -- predecessor's recorded finish t = 3.  With the repair the allocation process re-arms at
  -- t = 2 (`now < aft`), reports the task finished at t = 3 and the successor starts at t = 3.

  `precSchedPid`: the same run with the blocks of every instant in creation order;
  there the successor starts at t = 3.
-/
import TopsimModel.Reach

namespace Topsim
namespace Sys

/-! ### checking a schedule by evaluation -/

/-- run the blocks of the listed processes, in order, with the empty oracle -/
def precRun : List Nat → Sys → Sys
  | [], s => s
  | pid :: r, s => precRun r (s.resume pid {}).1

def precEnabledB (s : Sys) (pid : Nat) : Bool :=
  match s.proc? pid with
  | some p => p.alive && s.procs.all (fun q => !q.alive || decide (p.wake ≤ q.wake))
  | none => false

theorem precEnabledB_sound {s : Sys} {pid : Nat} (h : precEnabledB s pid = true) : s.enabled pid := by
  unfold precEnabledB at h
  cases hp : s.proc? pid with
  | none => rw [hp] at h; exact absurd h (by simp)
  | some p =>
    rw [hp] at h
    simp only [Bool.and_eq_true, List.all_eq_true, Bool.or_eq_true, Bool.not_eq_true',
      decide_eq_true_eq] at h
    refine ⟨p, hp, h.1, ?_⟩
    intro q hq hqa
    rcases h.2 q hq with h' | h'
    · rw [hqa] at h'; exact absurd h' (by simp)
    · exact h'

/-- every listed block is enabled when its turn comes -/
def precEnabledAll : List Nat → Sys → Bool
  | [], _ => true
  | pid :: r, s => precEnabledB s pid && precEnabledAll r (s.resume pid {}).1

theorem prec_reach_run {s0 : Sys} (pids : List Nat) (s : Sys) (h : Reach s0 s)
    (hen : precEnabledAll pids s = true) : Reach s0 (precRun pids s) := by
  induction pids generalizing s with
  | nil => exact h
  | cons pid r ih =>
    simp only [precEnabledAll, Bool.and_eq_true] at hen
    exact ih _ (Reach.step s pid {} h (precEnabledB_sound hen.1)) hen.2

/-! ### the configuration -/

def precObs : Obs :=
  { id := 0, est := 0, duration := 1, demand := 1, rate := 0, ingestDemand := 1,
    wf := ⟨[(0, 2, 0), (1, 1, 0)], [(0, 1, 0)], [0, 1]⟩ }

def precW0 : Sys :=
  { machines := [⟨0, 1, 1⟩], totalArrays := 1, maxIngest := 1, alg := .queue,
    cl := Cluster.init [0], buf := Buffer.init 100 10 100 10, obs := [precObs] }

theorem precW0_wf : WFConfig precW0 := by
  refine ⟨by decide, rfl, by decide, ?_, ⟨rfl, rfl, rfl, rfl, rfl, rfl, rfl, rfl, rfl, rfl, rfl, rfl, rfl,
    rfl, rfl, rfl, rfl⟩⟩
  intro o ho
  simp only [precW0, List.mem_cons, List.not_mem_nil, or_false] at ho
  subst ho
  exact ⟨rfl, rfl, by decide, by decide⟩

theorem precW0_buf : precW0.buf.hot.stored = [] ∧ precW0.buf.hot.scheduled = [] ∧
    precW0.buf.hot.finished = [] ∧ precW0.buf.cold.stored = [] := ⟨rfl, rfl, rfl, rfl⟩

/-- the two workflow tasks: planned at clock 1 -/
def precA : Tid := .wf 0 1 0
def precB : Tid := .wf 0 1 1

/-! ### the adversarial order inside an instant: the successor starts AT the predecessor's recorded finish -/

/-- Instant 0 (pids): monitor 0, telescope 1 (lets the observation in; supervisor 5), cluster loop 2,
scheduler loop 3, buffer loop 4, supervisor 5 (provisioner 6, stream 7), provisioner 6 (allocation
process 8 of the ingest task), stream 7 (last step: the observation is stored), allocation process 8
(task body 9), body 9 twice (start, finish).
Instant 1: 0, 1, 2, scheduler loop 3 (plans the workflow: records `precA`, `precB`, plan with the
edge `precA → precB`; `allocate_tasks` 10), 4, 5, 6, 8 (ingest task FINISHED, machine back),
`allocate_tasks` 10 (proposes `precA` on machine 0: allocation process 11), 11 (body 12), body 12
(`precA` starts: `ast = 1`, work 2, waits 1).
Instant 2: 0, 1, 2, 3, 4, then body 12 (stamps `aft = 2 + 1 = 3` and ends) BEFORE its allocation
process 11 (F13: sees the body ended but `now = 2 < aft = 3`: re-arms, `precA` stays RUNNING on its
machine) BEFORE `allocate_tasks` 10 (`precA` not finished: nothing to propose).
Instant 3: 0, 2, 3, 4, then allocation process 11 (`now = 3 ≥ aft`: `precA` FINISHED in the cluster,
machine back) BEFORE `allocate_tasks` 10 (sees `precA` finished: proposes `precB`; allocation
process 13), 13 (body 14), body 14 (`precB` starts: `ast = 3`, the recorded finish of `precA`). -/
def precSchedAdv : List Nat :=
  [0, 1, 2, 3, 4, 5, 6, 7, 8, 9, 9,
   0, 1, 2, 3, 4, 5, 6, 8, 10, 11, 12,
   0, 1, 2, 3, 4, 12, 11, 10,
   0, 2, 3, 4, 11, 10, 13, 14]

theorem precSchedAdv_enabled : precEnabledAll precSchedAdv precW0.start = true := by decide +kernel

theorem precSchedAdv_reach : Reach precW0 (precRun precSchedAdv precW0.start) :=
  prec_reach_run precSchedAdv _ Reach.start precSchedAdv_enabled

-- F13: `precB` starts at t = 3 (before the repair: t = 2)
theorem precSchedAdv_final :
    let s := precRun precSchedAdv precW0.start
    s.crashed = none ∧
    (s.plans.map (·.edges)) = [[(precA, precB)]] ∧
    (s.task? precB).map (fun r => (r.status, r.ast, r.preds)) = some (.running, some 3, [precA]) ∧
    (s.task? precA).map (fun r => (r.status, r.ast, r.aft)) = some (.finished, some 1, some 3) ∧
    s.cl.isTaskFinished precA = true ∧ precB ∈ s.starts := by
  decide +kernel

/-! ### creation order inside every instant: the successor starts at the recorded finish -/

/-- as above, but at instant 2 the allocation process 11 polls BEFORE body 12 ends, so `precA`
is reported finished at t = 3 only, after `allocate_tasks` 10 has run; `precB` is proposed and
started at t = 4. -/
def precSchedPid : List Nat :=
  [0, 1, 2, 3, 4, 5, 6, 7, 8, 9, 9,
   0, 1, 2, 3, 4, 5, 6, 8, 10, 11, 12,
   0, 1, 2, 3, 4, 10, 11, 12,
   0, 2, 3, 4, 10, 11,
   0, 2, 3, 4, 10, 13, 14]

theorem precSchedPid_enabled : precEnabledAll precSchedPid precW0.start = true := by decide +kernel

theorem precSchedPid_reach : Reach precW0 (precRun precSchedPid precW0.start) :=
  prec_reach_run precSchedPid _ Reach.start precSchedPid_enabled

theorem precSchedPid_final :
    let s := precRun precSchedPid precW0.start
    s.crashed = none ∧
    (s.plans.map (·.edges)) = [[(precA, precB)]] ∧
    (s.task? precB).map (fun r => (r.status, r.ast, r.preds)) = some (.running, some 4, [precA]) ∧
    (s.task? precA).map (fun r => (r.status, r.ast, r.aft)) = some (.finished, some 1, some 3) ∧
    s.cl.isTaskFinished precA = true ∧ precB ∈ s.starts := by
  decide +kernel

/-! ### two machines: a transfer wait -/

/-- as `precObs`, with three units of data on the edge `0 → 1` -/
def precObsX : Obs :=
  { id := 0, est := 0, duration := 1, demand := 1, rate := 0, ingestDemand := 1,
    wf := ⟨[(0, 2, 0), (1, 1, 0)], [(0, 1, 3)], [0, 1]⟩ }

/-- two machines of bandwidth 2 -/
def precW1 : Sys :=
  { machines := [⟨0, 1, 2⟩, ⟨1, 1, 2⟩], totalArrays := 1, maxIngest := 1, alg := .queue,
    cl := Cluster.init [0, 1], buf := Buffer.init 100 10 100 10, obs := [precObsX] }

theorem precW1_wf : WFConfig precW1 := by
  refine ⟨by decide, rfl, by decide, ?_, ⟨rfl, rfl, rfl, rfl, rfl, rfl, rfl, rfl, rfl, rfl, rfl, rfl, rfl,
    rfl, rfl, rfl, rfl⟩⟩
  intro o ho
  simp only [precW1, List.mem_cons, List.not_mem_nil, or_false] at ho
  subst ho
  exact ⟨rfl, rfl, by decide, by decide⟩

theorem precW1_buf : precW1.buf.hot.stored = [] ∧ precW1.buf.hot.scheduled = [] ∧
    precW1.buf.hot.finished = [] ∧ precW1.buf.cold.stored = [] := ⟨rfl, rfl, rfl, rfl⟩

/-- the parameters of a task-body process -/
def precDoWork? : PK → Option (Tid × Mid × List Tid × Nat × Nat)
  | .doWork t m preds ph tot => some (t, m, preds, ph, tot)
  | _ => none

theorem precDoWork?_eq {k : PK} {t m preds ph tot} (h : precDoWork? k = some (t, m, preds, ph, tot)) :
    k = .doWork t m preds ph tot := by
  cases k <;> simp [precDoWork?] at h
  obtain ⟨rfl, rfl, rfl, rfl, rfl⟩ := h
  rfl

/-- creation order inside every instant.  `precA` runs on machine 1 from t = 1, recorded finish 3;
it is reported finished at t = 3; `allocate_tasks` 10 proposes `precB` at t = 4 on machine 0
(allocation process 13, body 14 with the cross-machine list `[precA]`); the body waits for
`3 + 3/2 - 4 = 1/2` and starts at t = 9/2. -/
def precSchedXfer : List Nat :=
  [0, 1, 2, 3, 4, 5, 6, 7, 8, 9, 9,
   0, 1, 2, 3, 4, 5, 6, 8, 10, 11, 12,
   0, 1, 2, 3, 4, 10, 11, 12,
   0, 2, 3, 4, 10, 11,
   0, 2, 3, 4, 10, 13, 14, 14]

theorem precSchedXfer_enabled : precEnabledAll precSchedXfer precW1.start = true := by decide +kernel

theorem precSchedXfer_reach : Reach precW1 (precRun precSchedXfer precW1.start) :=
  prec_reach_run precSchedXfer _ Reach.start precSchedXfer_enabled

theorem precSchedXfer_final :
    let s := precRun precSchedXfer precW1.start
    s.crashed = none ∧
    (s.proc? 14).bind (fun p => precDoWork? p.k) = some (precB, 0, [precA], 2, 1) ∧
    (s.task? precB).map (fun r => (r.ast, r.io)) = some (some (9 / 2), [(precA, 3)]) ∧
    (s.task? precA).map (fun r => (r.status, r.aft)) = some (.finished, some 3) ∧
    (s.machine? 0).map (·.bw) = some 2 := by
  decide +kernel

end Sys
end Topsim
