/-
  Preced4 — the vocabulary of the precedence invariant: what a block may do to the
  task records as `task?` sees them (`TaskStepS`, `TaskStep`), to the plans
  (`PlanStep`); readiness of a task in the cluster's view (`Rdy`); the structural
  invariant `ST` (plan edges ↔ predecessor lists of the records) and its generic
  preservation.
-/
import TopsimProofs.Preced3

namespace Topsim
namespace Sys

/-! ### association lists -/

theorem dictGet_dictSet_ne {κ α} [DecidableEq κ] (d : List (κ × α)) {k k' : κ} (v : α) (h : k ≠ k') :
    dictGet (dictSet d k v) k' = dictGet d k' := by
  rw [dictGet_dictSet, if_neg h]

/-! ### finished in the cluster's view -/

/-- `is_task_finished(q)` -/
def FinT (s : Sys) (q : Tid) : Prop := dictGet s.cl.finished q = some true

theorem finT_iff (s : Sys) (q : Tid) : FinT s q ↔ s.cl.isTaskFinished q = true := by
  unfold FinT Cluster.isTaskFinished
  cases h : dictGet s.cl.finished q with
  | none => simp
  | some b => cases b <;> simp

theorem finT_congr {s X : Sys} (h : X.cl.finished = s.cl.finished) (q : Tid) : FinT X q ↔ FinT s q := by
  unfold FinT; rw [h]

theorem isWf_not_ingest {t : Tid} (h : IsWf t) : t.isIngest = false := by
  obtain ⟨o, c, n, rfl⟩ := h; rfl

/-! ### what happens to a record -/

/-- identity and graph data of a record are never rewritten -/
structure TShape (r r' : TaskRec) : Prop where
  id : r'.id = r.id
  preds : r'.preds = r.preds
  io : r'.io = r.io

theorem TShape.refl (r : TaskRec) : TShape r r := ⟨rfl, rfl, rfl⟩
theorem TShape.trans {a b c : TaskRec} (h1 : TShape a b) (h2 : TShape b c) : TShape a c :=
  ⟨h2.id.trans h1.id, h2.preds.trans h1.preds, h2.io.trans h1.io⟩

/-- … and neither are the time stamps; a FINISHED workflow record stays FINISHED -/
structure TKeep (r r' : TaskRec) : Prop where
  shape : TShape r r'
  ast : r'.ast = r.ast
  aft : r'.aft = r.aft
  status : IsWf r.id → r.status = .finished → r'.status = .finished

theorem TKeep.refl (r : TaskRec) : TKeep r r := ⟨TShape.refl r, rfl, rfl, fun _ h => h⟩
theorem TKeep.trans {a b c : TaskRec} (h1 : TKeep a b) (h2 : TKeep b c) : TKeep a c :=
  ⟨h1.shape.trans h2.shape, h2.ast.trans h1.ast, h2.aft.trans h1.aft,
   fun hw hf => h2.status (by rw [h1.shape.id]; exact hw) (h1.status hw hf)⟩

/-! ### what a block does to the table of records, as `task?` sees it -/

/-- a new record: no stamps, workflow predecessors only -/
structure Fresh (r : TaskRec) : Prop where
  ast : r.ast = none
  aft : r.aft = none
  preds : ∀ q ∈ r.preds, IsWf q

/-- old records keep their shape under relation `R`; records of new ids are fresh -/
structure TaskStepR (R : TaskRec → TaskRec → Prop) (s X : Sys) : Prop where
  fwd : ∀ t r, s.task? t = some r → ∃ r', X.task? t = some r' ∧ R r r'
  fresh : ∀ t r', s.task? t = none → X.task? t = some r' → Fresh r'

abbrev TaskStepS := TaskStepR TShape
abbrev TaskStep := TaskStepR TKeep

theorem TaskStepR.bwd {R} {s X : Sys} (h : TaskStepR R s X) {t : Tid} {r' : TaskRec}
    (hr : X.task? t = some r') :
    (∃ r, s.task? t = some r ∧ R r r') ∨ (s.task? t = none ∧ Fresh r') := by
  cases h0 : s.task? t with
  | none => exact Or.inr ⟨rfl, h.fresh t r' h0 hr⟩
  | some r =>
    obtain ⟨r1, h1, h2⟩ := h.fwd t r h0
    rw [hr] at h1
    injection h1 with h1
    subst h1
    exact Or.inl ⟨r, rfl, h2⟩

theorem TaskStepR.mono {R R' : TaskRec → TaskRec → Prop} (hRR : ∀ a b, R a b → R' a b) {s X : Sys}
    (h : TaskStepR R s X) : TaskStepR R' s X :=
  ⟨fun t r hr => by obtain ⟨r', h1, h2⟩ := h.fwd t r hr; exact ⟨r', h1, hRR _ _ h2⟩, h.fresh⟩

theorem TaskStep.toS {s X : Sys} (h : TaskStep s X) : TaskStepS s X := h.mono (fun _ _ h => h.shape)

theorem TaskStepR.of_eq {R} (hrefl : ∀ r, R r r) {s X : Sys} (h : X.tasks = s.tasks) : TaskStepR R s X := by
  have : ∀ t, X.task? t = s.task? t := fun t => by unfold task?; rw [h]
  exact ⟨fun t r hr => ⟨r, by rw [this]; exact hr, hrefl r⟩,
    fun t r' h0 h1 => by rw [this, h0] at h1; exact absurd h1 (by simp)⟩

theorem TaskStepR.refl {R} (hrefl : ∀ r, R r r) (s : Sys) : TaskStepR R s s := TaskStepR.of_eq hrefl rfl

theorem TaskStepR.trans {R} (htrans : ∀ a b c, R a b → R b c → R a c)
    (hfr : ∀ a b, Fresh a → R a b → Fresh b) {a b c : Sys}
    (h1 : TaskStepR R a b) (h2 : TaskStepR R b c) : TaskStepR R a c := by
  constructor
  · intro t r hr
    obtain ⟨r1, g1, g2⟩ := h1.fwd t r hr
    obtain ⟨r2, g3, g4⟩ := h2.fwd t r1 g1
    exact ⟨r2, g3, htrans _ _ _ g2 g4⟩
  · intro t r' h0 hc
    cases hb : b.task? t with
    | none => exact h2.fresh t r' hb hc
    | some r1 =>
      obtain ⟨r2, g3, g4⟩ := h2.fwd t r1 hb
      rw [hc] at g3
      injection g3 with g3
      subst g3
      exact hfr _ _ (h1.fresh t r1 h0 hb) g4

theorem fresh_keep {a b : TaskRec} (h : Fresh a) (k : TKeep a b) : Fresh b :=
  ⟨k.ast.trans h.ast, k.aft.trans h.aft, by rw [k.shape.preds]; exact h.preds⟩

theorem TaskStep.trans {a b c : Sys} (h1 : TaskStep a b) (h2 : TaskStep b c) : TaskStep a c :=
  TaskStepR.trans (R := TKeep) (fun _ _ _ h1 h2 => TKeep.trans h1 h2) (fun _ _ h k => fresh_keep h k) h1 h2

theorem TaskStep.refl (s : Sys) : TaskStep s s := TaskStepR.refl TKeep.refl s
theorem TaskStep.of_eq {s X : Sys} (h : X.tasks = s.tasks) : TaskStep s X := TaskStepR.of_eq TKeep.refl h

/-- `updTask` with a function that keeps every record in relation `R` -/
theorem TaskStepR.updTask {R} (hrefl : ∀ r, R r r) (s : Sys) (t0 : Tid) (f : TaskRec → TaskRec)
    (hid : ∀ r, (f r).id = r.id) (hR : ∀ r, r.id = t0 → R r (f r)) : TaskStepR R s (s.updTask t0 f) := by
  constructor
  · intro t r hr
    rw [task?_updTask s t0 t f hid, hr]
    refine ⟨_, rfl, ?_⟩
    simp only
    split
    · rename_i e; exact hR r e
    · exact hrefl r
  · intro t r' h0 h1
    rw [task?_updTask s t0 t f hid, h0] at h1
    exact absurd h1 (by simp)

theorem task?_append (s X : Sys) (recs : List TaskRec) (h : X.tasks = s.tasks ++ recs) (t : Tid) :
    X.task? t = match s.task? t with
      | some r => some r
      | none => recs.find? (fun r => decide (r.id = t)) := by
  unfold task?
  rw [h, List.find?_append]
  cases s.tasks.find? (fun r => decide (r.id = t)) <;> rfl

/-- new records appended -/
theorem TaskStepR.append {R} (hrefl : ∀ r, R r r) (s X : Sys) (recs : List TaskRec)
    (h : X.tasks = s.tasks ++ recs) (hrecs : ∀ r ∈ recs, Fresh r) : TaskStepR R s X := by
  constructor
  · intro t r hr
    exact ⟨r, by rw [task?_append s X recs h, hr], hrefl r⟩
  · intro t r' h0 h1
    rw [task?_append s X recs h, h0] at h1
    exact hrecs r' (List.mem_of_find?_eq_some h1)

theorem TaskStep.foldl {α} (f : Sys → α → Sys) (hf : ∀ s a, TaskStep s (f s a)) (l : List α) (s : Sys) :
    TaskStep s (l.foldl f s) := by
  induction l generalizing s with
  | nil => exact TaskStep.refl s
  | cons a r ih => exact (hf s a).trans (ih _)

/-! ### what a block does to the plans -/

/-- every plan of the new table stands for an old plan: same observation, same edges, fewer tasks -/
def PlanStep (s X : Sys) : Prop :=
  ∀ pl' ∈ X.plans, ∃ pl ∈ s.plans, pl'.obs = pl.obs ∧ pl'.edges = pl.edges ∧ ∀ t ∈ pl'.tasks, t ∈ pl.tasks

theorem PlanStep.of_eq {s X : Sys} (h : X.plans = s.plans) : PlanStep s X := by
  intro pl' hpl; rw [h] at hpl; exact ⟨pl', hpl, rfl, rfl, fun _ h => h⟩

theorem PlanStep.refl (s : Sys) : PlanStep s s := PlanStep.of_eq rfl

theorem PlanStep.trans {a b c : Sys} (h1 : PlanStep a b) (h2 : PlanStep b c) : PlanStep a c := by
  intro pl'' hpl
  obtain ⟨pl', g1, g2, g3, g4⟩ := h2 pl'' hpl
  obtain ⟨pl, k1, k2, k3, k4⟩ := h1 pl' g1
  exact ⟨pl, k1, g2.trans k2, g3.trans k3, fun t ht => k4 t (g4 t ht)⟩

theorem PlanStep.updPlan (s : Sys) (oid : Oid) (F : Plan → Plan) (hobs : ∀ pl, (F pl).obs = pl.obs)
    (hed : ∀ pl, (F pl).edges = pl.edges) (hts : ∀ pl, ∀ t ∈ (F pl).tasks, t ∈ pl.tasks) :
    PlanStep s (s.updPlan oid F) := by
  intro pl' hpl
  simp only [Sys.updPlan, List.mem_map] at hpl
  obtain ⟨pl, hm, rfl⟩ := hpl
  refine ⟨pl, hm, ?_⟩
  split
  · exact ⟨hobs pl, hed pl, hts pl⟩
  · exact ⟨rfl, rfl, fun _ h => h⟩

/-! ### readiness -/

/-- the task has a record, and every task of its predecessor list is a workflow task that the
cluster reports finished -/
def Rdy (s : Sys) (t : Tid) : Prop :=
  ∃ r, s.task? t = some r ∧ ∀ q ∈ r.preds, IsWf q ∧ FinT s q

/-- the finished-task map grows, as far as workflow tasks are concerned -/
def FinMono (s X : Sys) : Prop := ∀ q, IsWf q → FinT s q → FinT X q

theorem FinMono.of_eq {s X : Sys} (h : X.cl.finished = s.cl.finished) : FinMono s X :=
  fun q _ hq => (finT_congr h q).mpr hq

theorem Rdy.mono {s X : Sys} {t : Tid} (h : Rdy s t) (hT : TaskStepS s X) (hF : FinMono s X) : Rdy X t := by
  obtain ⟨r, hr, hq⟩ := h
  obtain ⟨r', hr', hk⟩ := hT.fwd t r hr
  refine ⟨r', hr', fun q hq' => ?_⟩
  rw [hk.preds] at hq'
  exact ⟨(hq q hq').1, hF q (hq q hq').1 (hq q hq').2⟩

/-! ### the structural invariant -/

structure ST (s : Sys) : Prop where
  /-- the edges of a plan join workflow tasks of the plan's observation, planned at one clock -/
  edgeWf : ∀ pl ∈ s.plans, ∀ e ∈ pl.edges, ∃ c u v, e = (Tid.wf pl.obs c u, Tid.wf pl.obs c v)
  /-- the predecessor list of a record of the plan's task list follows the plan's edges -/
  recEdge : ∀ pl ∈ s.plans, ∀ t ∈ pl.tasks, ∀ r, s.task? t = some r → ∀ q ∈ r.preds, (q, t) ∈ pl.edges
  /-- … and every edge into a recorded task is in its predecessor list -/
  edgeRec : ∀ pl ∈ s.plans, ∀ q t, (q, t) ∈ pl.edges → ∀ r, s.task? t = some r → q ∈ r.preds
  planRecs : ∀ pl ∈ s.plans, ∀ t ∈ pl.tasks, ∃ r, s.task? t = some r
  planWf : ∀ pl ∈ s.plans, ∀ t ∈ pl.tasks, ∃ c n, t = Tid.wf pl.obs c n
  predsWf : ∀ t r, s.task? t = some r → ∀ q ∈ r.preds, IsWf q
  /-- only ingest tasks are ever entered in the finished-task map with `False` -/
  finFalse : ∀ q, dictGet s.cl.finished q = some false → q.isIngest = true

/-- a block that adds no plan, and new records for ingest tasks only -/
theorem ST.step {s X : Sys} (h : ST s) (hT : TaskStepS s X) (hP : PlanStep s X)
    (hnew : ∀ t r', s.task? t = none → X.task? t = some r' → t.isIngest = true)
    (hfin : ∀ q, dictGet X.cl.finished q = some false →
      dictGet s.cl.finished q = some false ∨ q.isIngest = true) : ST X := by
  constructor
  · intro pl' hpl e he
    obtain ⟨pl, g1, g2, g3, _⟩ := hP pl' hpl
    rw [g2]; rw [g3] at he; exact h.edgeWf pl g1 e he
  · intro pl' hpl t ht r' hr' q hq
    obtain ⟨pl, g1, g2, g3, g4⟩ := hP pl' hpl
    rw [g3]
    rcases hT.bwd hr' with ⟨r, hr, hk⟩ | ⟨h0, _⟩
    · rw [hk.preds] at hq; exact h.recEdge pl g1 t (g4 t ht) r hr q hq
    · obtain ⟨r, hr⟩ := h.planRecs pl g1 t (g4 t ht)
      rw [h0] at hr; exact absurd hr (by simp)
  · intro pl' hpl q t he r' hr'
    obtain ⟨pl, g1, g2, g3, g4⟩ := hP pl' hpl
    rw [g3] at he
    rcases hT.bwd hr' with ⟨r, hr, hk⟩ | ⟨h0, _⟩
    · rw [hk.preds]; exact h.edgeRec pl g1 q t he r hr
    · exfalso
      obtain ⟨c, u, v, e⟩ := h.edgeWf pl g1 _ he
      have := hnew t r' h0 hr'
      injection e with e1 e2
      rw [e2] at this
      simp [Tid.isIngest] at this
  · intro pl' hpl t ht
    obtain ⟨pl, g1, g2, g3, g4⟩ := hP pl' hpl
    obtain ⟨r, hr⟩ := h.planRecs pl g1 t (g4 t ht)
    obtain ⟨r', hr', _⟩ := hT.fwd t r hr
    exact ⟨r', hr'⟩
  · intro pl' hpl t ht
    obtain ⟨pl, g1, g2, g3, g4⟩ := hP pl' hpl
    rw [g2]; exact h.planWf pl g1 t (g4 t ht)
  · intro t r' hr' q hq
    rcases hT.bwd hr' with ⟨r, hr, hk⟩ | ⟨_, hf⟩
    · rw [hk.preds] at hq; exact h.predsWf t r hr q hq
    · exact hf.preds q hq
  · intro q hq
    rcases hfin q hq with h1 | h1
    · exact h.finFalse q h1
    · exact h1

/-- … in particular when the finished-task map is untouched -/
theorem ST.quiet {s X : Sys} (h : ST s) (hT : TaskStepS s X) (hP : PlanStep s X)
    (hnew : ∀ t r', s.task? t = none → X.task? t = some r' → t.isIngest = true)
    (hfin : X.cl.finished = s.cl.finished) : ST X :=
  h.step hT hP hnew (fun q hq => Or.inl (by rw [← hfin]; exact hq))

/-- the process table plays no role -/
theorem ST.congr {s X : Sys} (h : ST s) (ht : X.tasks = s.tasks) (hp : X.plans = s.plans)
    (hc : X.cl.finished = s.cl.finished) : ST X :=
  h.quiet (TaskStepR.of_eq TShape.refl ht) (PlanStep.of_eq hp)
    (fun t r' h0 h1 => by
      have : X.task? t = s.task? t := by unfold task?; rw [ht]
      rw [this, h0] at h1; exact absurd h1 (by simp)) hc

end Sys
end Topsim
