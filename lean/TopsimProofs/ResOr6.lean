/-
  ResOr6 — the reservation invariant for ADVERSARIAL proposals.

  `ResOrRI` is `RI` (FinishRes4) with a weaker clause about the local schedules of the
  `allocate_tasks` processes: a leftover proposal need not be an UNSCHEDULED task of the plan — it
  may be any task id at all — but IF the task is (still) UNSCHEDULED, i.e. if `_process_current_schedule`
  could start it, THEN it is a task of the plan of the process's observation.  Since a task never
  returns to UNSCHEDULED, the clause is kept by every block that does not put an UNSCHEDULED task of
  a plan in a foreign schedule.  (Port of FinishRes4 – FinishRes11 to this invariant: ResOr6 – ResOr13.)
-/
import TopsimProofs.ResOr5

namespace Topsim
namespace Sys

open Cluster

structure ResOrRI (s : Sys) : Prop where
  qNodup : s.queue.Nodup
  /-- a running `allocate_tasks` has its observation in the queue, and a plan -/
  atsQ : ∀ p ∈ s.procs, p.alive = true → ∀ o sc pa po, p.k = .allocTasks o sc pa po false →
    o ∈ s.queue ∧ (s.plan? o).isSome = true
  atsUniq : ∀ p ∈ s.procs, ∀ q ∈ s.procs, p.alive = true → q.alive = true → ∀ o sc pa po sc' pa' po',
    p.k = .allocTasks o sc pa po false → q.k = .allocTasks o sc' pa' po' false → p.pid = q.pid
  /-- what its leftover schedule could still start are tasks of the plan -/
  sl : ∀ p ∈ s.procs, p.alive = true → ∀ o sc pa po, p.k = .allocTasks o sc pa po false →
    (dictKeys sc).Nodup ∧ ∀ t ∈ dictKeys sc, tstat s t = .unscheduled → t ∈ planTasks s o
  pt : ∀ pl ∈ s.plans, ∀ t ∈ pl.tasks, ∃ c n, t = .wf pl.obs c n
  pf : ∀ pl ∈ s.plans, pl.status = .finished → pl.tasks = []
  pn : (s.plans.map (·.obs)).Nodup
  /-- a scheduler-side allocation process carries an unfinished task of its observation's plan -/
  st : ∀ p ∈ s.procs, p.alive = true → ∀ t m preds o ret, p.k = .allocTask t m preds (some o) false ret →
    tstat s t ≠ .finished ∧ t ∈ planTasks s o
  /-- every `runOn` entry belongs to a polling allocation process -/
  rc : ∀ e ∈ s.cl.runOn, ∃ p ∈ s.procs, p.alive = true ∧ 1 ≤ p.pc ∧
    ∃ preds ret, p.k = .allocTask e.task e.mach preds e.obs e.ing ret
  keyQ : ∀ o ∈ dictKeys s.cl.idle, o ∈ s.queue
  keyNE : KeyNE s.cl

/-- the stronger invariant of BatchProcessing implies it -/
theorem resOr_of_RI {s : Sys} (h : RI s) : ResOrRI s :=
  ⟨h.qNodup, h.atsQ, h.atsUniq,
    fun p hp ha o sc pa po hk => ⟨(h.sl p hp ha o sc pa po hk).1, fun t ht _ => ((h.sl p hp ha o sc pa po hk).2 t ht).1⟩,
    h.pt, h.pf, h.pn, h.st, h.rc, h.keyQ, h.keyNE⟩

/-- one step, for a block that leaves queue and plans alone; the process that ran may be an
`allocate_tasks` process with a new local schedule -/
theorem ResOrRI.step' {s s' : Sys} (h : ResOrRI s) (_hpw : PW s) {p : Proc} (hp : p ∈ s.procs) {p' : Proc}
    {new : List Proc} (hm : MemSpec s s' p p' new) (hpid : p'.pid = p.pid)
    (hqu : s'.queue = s.queue) (hpl : s'.plans = s.plans)
    (hB : ∀ t, tstat s' t = .unscheduled → tstat s t = .unscheduled)
    (hF : ∀ o c n, tstat s' (.wf o c n) = .finished → tstat s (.wf o c n) = .finished ∨
      (∀ q ∈ s'.procs, q.alive = true → ∀ m preds o' ret,
        q.k ≠ .allocTask (.wf o c n) m preds (some o') false ret))
    (hATs : ∀ q, (q = p' ∨ q ∈ new) → q.alive = true → ∀ o sc pa po, q.k = .allocTasks o sc pa po false →
      q = p' ∧ p.alive = true ∧ ∃ sc0 pa0 po0, p.k = .allocTasks o sc0 pa0 po0 false)
    (hsl : p'.alive = true → ∀ o sc pa po, p'.k = .allocTasks o sc pa po false →
      (dictKeys sc).Nodup ∧ ∀ t ∈ dictKeys sc, tstat s' t = .unscheduled → t ∈ planTasks s' o)
    (hAT : ∀ q, (q = p' ∨ q ∈ new) → q.alive = true → ∀ t m preds o ret,
      q.k = .allocTask t m preds (some o) false ret →
      (q = p' ∧ p.alive = true ∧ ∃ ret0, p.k = .allocTask t m preds (some o) false ret0) ∨
      (tstat s' t ≠ .finished ∧ t ∈ planTasks s' o))
    (hrc : ∀ e ∈ s'.cl.runOn, ∃ q ∈ s'.procs, q.alive = true ∧ 1 ≤ q.pc ∧
      ∃ preds ret, q.k = .allocTask e.task e.mach preds e.obs e.ing ret)
    (hkq : ∀ o ∈ dictKeys s'.cl.idle, o ∈ s.queue) (hkne : KeyNE s'.cl) : ResOrRI s' := by
  have hplT : ∀ o, planTasks s' o = planTasks s o := planTasks_of_plans hpl
  -- an `allocate_tasks` entry of the new table is the one that ran, or an old one
  have backS : ∀ q ∈ s'.procs, q.alive = true → ∀ o sc pa po, q.k = .allocTasks o sc pa po false →
      (q = p' ∧ p.alive = true ∧ ∃ sc0 pa0 po0, p.k = .allocTasks o sc0 pa0 po0 false) ∨
      (q ∈ s.procs ∧ q.pid ≠ p.pid) := by
    intro q hq hqa o sc pa po hqk
    rcases (hm q).mp hq with rfl | hq0 | hqn
    · exact Or.inl (hATs _ (Or.inl rfl) hqa o sc pa po hqk)
    · exact Or.inr hq0
    · exact Or.inl (hATs q (Or.inr hqn) hqa o sc pa po hqk)
  constructor
  · rw [hqu]; exact h.qNodup
  · intro q hq hqa o sc pa po hqk
    have : o ∈ s.queue ∧ (s.plan? o).isSome = true := by
      rcases backS q hq hqa o sc pa po hqk with ⟨_, h2, sc0, pa0, po0, h3⟩ | ⟨hq0, _⟩
      · exact h.atsQ p hp h2 o sc0 pa0 po0 h3
      · exact h.atsQ q hq0 hqa o sc pa po hqk
    rw [hqu]; unfold plan?; rw [hpl]; exact this
  · intro q1 hq1 q2 hq2 ha1 ha2 o sc pa po sc' pa' po' hk1 hk2
    rcases backS q1 hq1 ha1 o sc pa po hk1 with ⟨e1, a1, sc1, pa1, po1, k1⟩ | ⟨b1, n1⟩ <;>
    rcases backS q2 hq2 ha2 o sc' pa' po' hk2 with ⟨e2, a2, sc2, pa2, po2, k2⟩ | ⟨b2, n2⟩
    · rw [e1, e2]
    · rw [e1, hpid]; exact h.atsUniq p hp q2 b2 a1 ha2 o _ _ _ _ _ _ k1 hk2
    · rw [e2, hpid]; exact h.atsUniq q1 b1 p hp ha1 a2 o _ _ _ _ _ _ hk1 k2
    · exact h.atsUniq q1 b1 q2 b2 ha1 ha2 o _ _ _ _ _ _ hk1 hk2
  · intro q hq hqa o sc pa po hqk
    rcases backS q hq hqa o sc pa po hqk with ⟨e1, _⟩ | ⟨hq0, hne⟩
    · subst e1; exact hsl hqa o sc pa po hqk
    · obtain ⟨g1, g2⟩ := h.sl q hq0 hqa o sc pa po hqk
      exact ⟨g1, fun t ht hu => by rw [hplT]; exact g2 t ht (hB t hu)⟩
  · rw [hpl]; exact h.pt
  · rw [hpl]; exact h.pf
  · rw [hpl]; exact h.pn
  · intro q hq hqa t m preds o ret hqk
    have hold : ∀ q0 ∈ s.procs, q0.alive = true → ∀ ret0, q0.k = .allocTask t m preds (some o) false ret0 →
        tstat s' t ≠ .finished ∧ t ∈ planTasks s' o := by
      intro q0 hq0 ha0 r0 hk0
      obtain ⟨g1, g2⟩ := h.st q0 hq0 ha0 t m preds o r0 hk0
      obtain ⟨c, n, rfl⟩ := planTasks_wf h.pt g2
      refine ⟨fun hfin => ?_, by rw [hplT]; exact g2⟩
      rcases hF o c n hfin with h1 | h1
      · exact g1 h1
      · exact h1 q hq hqa m preds o ret hqk
    rcases (hm q).mp hq with rfl | ⟨hq0, _⟩ | hqn
    · rcases hAT _ (Or.inl rfl) hqa t m preds o ret hqk with ⟨_, h2, r0, h3⟩ | h2
      · exact hold p hp h2 r0 h3
      · exact h2
    · exact hold q hq0 hqa ret hqk
    · rcases hAT q (Or.inr hqn) hqa t m preds o ret hqk with ⟨_, h2, r0, h3⟩ | h2
      · exact hold p hp h2 r0 h3
      · exact h2
  · exact hrc
  · intro o ho; rw [hqu]; exact hkq o ho
  · exact hkne

/-- one step, for a block that leaves queue and plans alone -/
theorem ResOrRI.step {s s' : Sys} (h : ResOrRI s) (hpw : PW s) {p : Proc} (hp : p ∈ s.procs) {p' : Proc}
    {new : List Proc} (hm : MemSpec s s' p p' new) (hpid : p'.pid = p.pid)
    (hqu : s'.queue = s.queue) (hpl : s'.plans = s.plans)
    (hB : ∀ t, tstat s' t = .unscheduled → tstat s t = .unscheduled)
    (hF : ∀ o c n, tstat s' (.wf o c n) = .finished → tstat s (.wf o c n) = .finished ∨
      (∀ q ∈ s'.procs, q.alive = true → ∀ m preds o' ret,
        q.k ≠ .allocTask (.wf o c n) m preds (some o') false ret))
    (hATs : ∀ q, (q = p' ∨ q ∈ new) → q.alive = true → ∀ o sc pa po, q.k = .allocTasks o sc pa po false →
      q = p' ∧ p.alive = true ∧ p.k = .allocTasks o sc pa po false)
    (hAT : ∀ q, (q = p' ∨ q ∈ new) → q.alive = true → ∀ t m preds o ret,
      q.k = .allocTask t m preds (some o) false ret →
      q = p' ∧ p.alive = true ∧ ∃ ret0, p.k = .allocTask t m preds (some o) false ret0)
    (hrc : ∀ e ∈ s'.cl.runOn, ∃ q ∈ s'.procs, q.alive = true ∧ 1 ≤ q.pc ∧
      ∃ preds ret, q.k = .allocTask e.task e.mach preds e.obs e.ing ret)
    (hkq : ∀ o ∈ dictKeys s'.cl.idle, o ∈ dictKeys s.cl.idle) (hkne : KeyNE s'.cl) : ResOrRI s' := by
  refine h.step' hpw hp hm hpid hqu hpl hB hF ?_ ?_ ?_ hrc (fun o ho => h.keyQ o (hkq o ho)) hkne
  · intro q hq hqa o sc pa po hqk
    obtain ⟨h1, h2, h3⟩ := hATs q hq hqa o sc pa po hqk
    exact ⟨h1, h2, sc, pa, po, h3⟩
  · intro hqa o sc pa po hqk
    obtain ⟨_, h2, h3⟩ := hATs p' (Or.inl rfl) hqa o sc pa po hqk
    obtain ⟨g1, g2⟩ := h.sl p hp h2 o sc pa po h3
    exact ⟨g1, fun t ht hu => by rw [planTasks_of_plans hpl]; exact g2 t ht (hB t hu)⟩
  · intro q hq hqa t m preds o ret hqk
    exact Or.inl (hAT q hq hqa t m preds o ret hqk)

/-- `runOn` unchanged and the process that ran is not an allocation process -/
theorem resOr_rc_quiet {s s' : Sys} (h : ResOrRI s) (hpw : PW s) {p : Proc} (hp : p ∈ s.procs) {p' : Proc}
    {new : List Proc} (hm : MemSpec s s' p p' new) (hr : s'.cl.runOn = s.cl.runOn)
    (hk : p.k.tag ≠ "allocTask") :
    ∀ e ∈ s'.cl.runOn, ∃ q ∈ s'.procs, q.alive = true ∧ 1 ≤ q.pc ∧
      ∃ preds ret, q.k = .allocTask e.task e.mach preds e.obs e.ing ret := by
  intro e he
  rw [hr] at he
  obtain ⟨q, hq, hqa, hqc, preds, ret, hqk⟩ := h.rc e he
  refine ⟨q, ?_, hqa, hqc, preds, ret, hqk⟩
  rcases hm.old hpw hp hq with rfl | hq'
  · rw [hqk] at hk; exact absurd rfl hk
  · exact hq'

/-! ### a task never returns to UNSCHEDULED: the shapes in which blocks change the record table -/

theorem resOr_back_append (s X : Sys) (recs : List TaskRec) (hX : X.tasks = s.tasks ++ recs) (t : Tid)
    (hu : tstat X t = .unscheduled) : tstat s t = .unscheduled := by
  rw [tstat_eq] at hu ⊢
  unfold task? at hu ⊢
  rw [hX, List.find?_append] at hu
  cases h : s.tasks.find? (fun r => decide (r.id = t)) with
  | some r => rw [h] at hu; exact hu
  | none => rfl

end Sys
end Topsim
