/-
  LiveP5 — concrete runs of the two plan-following algorithms with static plans: the hypotheses of
  the termination theorems are satisfiable, and `PlanOk` is needed.

  Configuration `plW alg`: two machines (cpu 1, bandwidth 1), one array, ingest limit 1, hot / cold
  buffer 100 / 100, one observation (planned start 0, one timestep, one array, one ingest machine,
  rate 1) whose workflow is the chain `0 → 1`.

  * `plEnvOk`: the static plan puts both tasks on machine 1.  `PlanOk` holds; the run is at
    `is_finished()` before t = 12 with nothing raised, under either algorithm.
  * `plEnvBadMach`: the plan puts task 0 on machine 7, which the cluster does not have (`PlanOk.mach`
    fails): `get_machine_from_id` raises KeyError in the first block of `allocate_tasks`, under
    either algorithm.
  * `plEnvMissing`: the plan names task 1 only (`PlanOk.cover` fails: node 0, a predecessor of node 1,
    has no row): task 1 waits for a predecessor that has no record; at t = 40 the observation is
    still in the scheduler's queue, nothing has raised, nothing is running.
-/
import TopsimProofs.LiveP1

namespace Topsim
namespace Sys

def plObs : Obs :=
  { id := 0, est := 0, duration := 1, demand := 1, rate := 1, ingestDemand := 1,
    wf := ⟨[(0, 2, 0), (1, 1, 0)], [(0, 1, 0)], [0, 1]⟩ }

def plW (alg : AlgKind) : Sys :=
  { machines := [⟨0, 1, 1⟩, ⟨1, 1, 1⟩], totalArrays := 1, maxIngest := 1, alg := alg, staticPlan := true,
    cl := Cluster.init [0, 1], buf := Buffer.init 100 10 100 10, obs := [plObs] }

def plEnvOk : SimEnv := { staticPlans := [(0, [(0, 1, 0, 2), (1, 1, 2, 3)])] }
def plEnvBadMach : SimEnv := { staticPlans := [(0, [(0, 7, 0, 2), (1, 1, 2, 3)])] }
def plEnvMissing : SimEnv := { staticPlans := [(0, [(1, 1, 2, 3)])] }

theorem plW_wf (alg : AlgKind) : WFConfig (plW alg) := by
  refine ⟨?_, rfl, ?_, ?_, ⟨rfl, rfl, rfl, rfl, rfl, rfl, rfl, rfl, rfl, rfl, rfl, rfl, rfl,
    rfl, rfl, rfl, rfl⟩⟩
  · show ([0, 1] : List Mid).Nodup
    decide
  · show ([0] : List Oid).Nodup
    decide
  intro o ho
  simp only [plW, List.mem_cons, List.not_mem_nil, or_false] at ho
  subst ho
  exact ⟨rfl, rfl, by decide, by decide⟩

theorem plW_feasible_dynamic : Feasible (plW .dynamic) := by
  simp [Feasible, plW, plObs, Buffer.init]

theorem plW_feasible_greedy : Feasible (plW .greedy) := by
  simp [Feasible, plW, plObs, Buffer.init]

theorem plW_h1 (alg : AlgKind) : NoTierCfg (plW alg) := by
  unfold NoTierCfg
  show 5 * ((([plObs] : List Obs).map (fun o => o.rate * (o.duration : Int))).sum) ≤ 3 * (Buffer.init 100 10 100 10).hot.total
  decide

theorem plW_h2 (alg : AlgKind) : OneAdmission (plW alg) := by
  intro o1 h1 o2 h2 hne
  simp only [plW, List.mem_cons, List.not_mem_nil, or_false] at h1 h2
  subst h1; subst h2
  exact absurd rfl hne

theorem plW_topo (alg : AlgKind) : ∀ o ∈ (plW alg).obs, IsTopo o.wf := by
  intro o ho
  simp only [plW, List.mem_cons, List.not_mem_nil, or_false] at ho
  subst ho
  exact ⟨by decide, by intro n; simp [plObs], by decide⟩

theorem plW_planOk (alg : AlgKind) : PlanOk plEnvOk (plW alg) := by
  constructor
  · intro o ho n hn
    simp only [plW, List.mem_cons, List.not_mem_nil, or_false] at ho
    subst ho
    revert n hn
    decide
  · intro o ho x hx
    simp only [plW, List.mem_cons, List.not_mem_nil, or_false] at ho
    subst ho
    revert x hx
    decide
  · intro o ho x hx
    simp only [plW, List.mem_cons, List.not_mem_nil, or_false] at ho
    subst ho
    have : ∀ x ∈ plEnvOk.rowsOf plObs.id, ∃ mm ∈ ([⟨0, 1, 1⟩, ⟨1, 1, 1⟩] : List Machine), mm.id = x.2.1 := by decide
    exact this x hx

theorem plW_not_planOk_badMach (alg : AlgKind) : ¬ PlanOk plEnvBadMach (plW alg) := by
  intro h
  obtain ⟨mm, hmm, hid⟩ := h.mach plObs (by simp [plW]) (0, 7, 0, 2) (by decide)
  simp only [plW, List.mem_cons, List.not_mem_nil, or_false] at hmm
  rcases hmm with rfl | rfl <;> simp at hid

theorem plW_not_planOk_missing (alg : AlgKind) : ¬ PlanOk plEnvMissing (plW alg) := by
  intro h
  have := h.cover plObs (by simp [plW]) 0 (by decide)
  revert this
  decide

/-! ### the runs -/

def plKOkD : SimState := SimState.runUntil plEnvOk (12 : Nat) 600 (SimState.start (plW .dynamic))
def plKOkG : SimState := SimState.runUntil plEnvOk (12 : Nat) 600 (SimState.start (plW .greedy))
def plKBadD : SimState := SimState.runUntil plEnvBadMach (12 : Nat) 600 (SimState.start (plW .dynamic))
def plKBadG : SimState := SimState.runUntil plEnvBadMach (12 : Nat) 600 (SimState.start (plW .greedy))
def plKMissD : SimState := SimState.runUntil plEnvMissing (40 : Nat) 2000 (SimState.start (plW .dynamic))
def plKMissG : SimState := SimState.runUntil plEnvMissing (40 : Nat) 2000 (SimState.start (plW .greedy))

theorem plKOkD_run : SimRun plEnvOk (plW .dynamic) plKOkD := SimRun.runUntil _ _ SimRun.start
theorem plKOkG_run : SimRun plEnvOk (plW .greedy) plKOkG := SimRun.runUntil _ _ SimRun.start
theorem plKBadD_run : SimRun plEnvBadMach (plW .dynamic) plKBadD := SimRun.runUntil _ _ SimRun.start
theorem plKBadG_run : SimRun plEnvBadMach (plW .greedy) plKBadG := SimRun.runUntil _ _ SimRun.start
theorem plKMissD_run : SimRun plEnvMissing (plW .dynamic) plKMissD := SimRun.runUntil _ _ SimRun.start
theorem plKMissG_run : SimRun plEnvMissing (plW .greedy) plKMissG := SimRun.runUntil _ _ SimRun.start

/-- the status and planned machine of the workflow records -/
def plRecs (s : Sys) : List (Tid × Option Mid × TStatus) :=
  (s.tasks.filter (fun r => !r.id.isIngest)).map (fun r => (r.id, r.planned, r.status))

set_option maxRecDepth 100000 in
unseal Rat.add in
theorem plKOkD_spec : plKOkD.st.crashed = none ∧ plKOkD.st.isFinished = true ∧ plKOkD.st.queue = [] ∧
    plRecs plKOkD.st = [(.wf 0 1 0, some 1, .finished), (.wf 0 1 1, some 1, .finished)] ∧ plKOkD.st.active = [] := by
  decide +kernel

set_option maxRecDepth 100000 in
unseal Rat.add in
theorem plKOkG_spec : plKOkG.st.crashed = none ∧ plKOkG.st.isFinished = true ∧ plKOkG.st.queue = [] ∧
    plRecs plKOkG.st = [(.wf 0 1 0, some 1, .finished), (.wf 0 1 1, some 1, .finished)] ∧ plKOkG.st.active = [] := by
  decide +kernel

set_option maxRecDepth 100000 in
unseal Rat.add in
/-- planned machine 7 does not exist: KeyError, with both tasks still UNSCHEDULED -/
theorem plKBadD_spec : plKBadD.st.crashed = some .key ∧ plKBadD.st.isFinished = false ∧ plKBadD.st.queue = [0] ∧
    plRecs plKBadD.st = [(.wf 0 1 0, some 7, .unscheduled), (.wf 0 1 1, some 1, .unscheduled)] ∧ plKBadD.st.active = [] := by
  decide +kernel

set_option maxRecDepth 100000 in
unseal Rat.add in
theorem plKBadG_spec : plKBadG.st.crashed = some .key ∧ plKBadG.st.isFinished = false ∧ plKBadG.st.queue = [0] ∧
    plRecs plKBadG.st = [(.wf 0 1 0, some 7, .unscheduled), (.wf 0 1 1, some 1, .unscheduled)] ∧ plKBadG.st.active = [] := by
  decide +kernel

set_option maxRecDepth 100000 in
unseal Rat.add in
/-- node 0 has no row: at t = 40 task 1 is UNSCHEDULED, the observation is in the queue, nothing has
raised and no task body is alive -/
theorem plKMissD_spec : plKMissD.st.crashed = none ∧ plKMissD.st.isFinished = false ∧ plKMissD.st.queue = [0] ∧
    plRecs plKMissD.st = [(.wf 0 1 1, some 1, .unscheduled)] ∧ plKMissD.st.active = [] := by
  decide +kernel

set_option maxRecDepth 100000 in
unseal Rat.add in
theorem plKMissG_spec : plKMissG.st.crashed = none ∧ plKMissG.st.isFinished = false ∧ plKMissG.st.queue = [0] ∧
    plRecs plKMissG.st = [(.wf 0 1 1, some 1, .unscheduled)] ∧ plKMissG.st.active = [] := by
  decide +kernel

end Sys
end Topsim
