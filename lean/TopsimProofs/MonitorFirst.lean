/-
  The monitor is resumed first at every instant (among the processes that are
  not `do_work` bodies), for the concrete simulator `SimState = KState Sys` with
  handler `simHandler env`.

  Part 1 (namespace `Sys`): what one block does to the process table and what
  it yields.  Part 2: the kernel-level invariant `MonFirst` and its
  preservation by `KState.step (simHandler env)`.
-/
import TopsimProofs.KernelLemmas

namespace Topsim

def PK.isDoWork : PK → Bool
  | .doWork .. => true
  | _ => false

/-- the yield is `timeout 1`, `done` or `raised` -/
def Yield.unit : Yield → Prop
  | .timeout d => d = 1
  | _ => True

namespace Sys

/-- the process table only grows at the end -/
def Pre (s s' : Sys) : Prop := s.procs <+: s'.procs

theorem Pre.refl (s : Sys) : Pre s s := List.prefix_refl _

theorem Pre.trans {a b c : Sys} (h1 : Pre a b) (h2 : Pre b c) : Pre a c :=
  List.IsPrefix.trans h1 h2

theorem Pre.of_eq {s s' : Sys} (h : s'.procs = s.procs) : Pre s s' := by
  unfold Pre; rw [h]; exact List.prefix_refl _

theorem Pre.proc? {s s' : Sys} (h : Pre s s') (X : Nat) (p : Proc)
    (hp : s.proc? X = some p) : s'.proc? X = some p := by
  obtain ⟨t, ht⟩ := h
  unfold Sys.proc? at *
  rw [← ht, List.find?_append, hp]
  rfl

theorem Pre.foldl {α : Type} (f : Sys → α → Sys) (hf : ∀ s a, Pre s (f s a)) (l : List α)
    (s : Sys) : Pre s (l.foldl f s) := by
  induction l generalizing s with
  | nil => exact Pre.refl _
  | cons a rest ih => exact (hf s a).trans (ih _)

theorem foldl_procs_eq {α : Type} (f : Sys → α → Sys) (hf : ∀ s a, (f s a).procs = s.procs)
    (l : List α) (s : Sys) : (l.foldl f s).procs = s.procs := by
  induction l generalizing s with
  | nil => rfl
  | cons a rest ih => simp only [List.foldl_cons]; rw [ih, hf]

/-- close the leaves of a fully split block -/
macro "blk_leaf" : tactic =>
  `(tactic| simp [Pre, Yield.unit, spawn, updTask, updObs, updPlan, addTel, addSch, addBuf, collate])

macro "blk" : tactic => `(tactic| ((repeat' split) <;> blk_leaf))

/-! ### monitor, cluster loop -/

theorem monitorBlock_spec (s : Sys) (now : Time) :
    (s.monitorBlock now).1.procs = s.procs ∧ (s.monitorBlock now).1.nextPid = s.nextPid ∧
    (s.monitorBlock now).2 = .timeout 1 := ⟨rfl, rfl, rfl⟩

/-! ### telescope -/

theorem checkIngestCapacity_procs (s : Sys) (o : Obs) (s1 : Sys) (b : Bool)
    (h : s.checkIngestCapacity o = .ok (s1, b)) : s1.procs = s.procs := by
  unfold checkIngestCapacity at h
  split at h
  · simp at h
  · split at h
    · split at h
      · simp only [Except.ok.injEq, Prod.mk.injEq] at h
        obtain ⟨h1, h2⟩ := h
        subst h1
        split <;> rfl
      · simp only [Except.ok.injEq, Prod.mk.injEq] at h
        rw [← h.1]
    · simp only [Except.ok.injEq, Prod.mk.injEq] at h
      rw [← h.1]

theorem telescopeVisit_pre (n : Nat) (acc : Sys × Option Err) (oid : Oid) :
    Pre acc.1 (telescopeVisit n acc oid).1 := by
  unfold telescopeVisit
  split
  · exact Pre.refl _
  · split
    · exact Pre.refl _
    · simp only
      split
      · split
        · exact Pre.refl _
        · rename_i s1 hc
          exact Pre.of_eq (checkIngestCapacity_procs _ _ _ _ hc)
        · rename_i s1 hc
          have := checkIngestCapacity_procs _ _ _ _ hc
          simp [Pre, spawn, updObs, addTel, this]
      · split
        · blk_leaf
        · exact Pre.refl _

theorem telescopeFold_pre (n : Nat) (l : List Oid) (acc : Sys × Option Err) :
    Pre acc.1 (l.foldl (telescopeVisit n) acc).1 := by
  induction l generalizing acc with
  | nil => exact Pre.refl _
  | cons a rest ih => exact (telescopeVisit_pre n acc a).trans (ih _)

theorem telescopeBlock_spec (s : Sys) (now : Time) :
    Pre s (s.telescopeBlock now).1 ∧ (s.telescopeBlock now).2.unit := by
  unfold telescopeBlock
  split
  · blk_leaf
  · simp only
    split
    all_goals
      rename_i heq
      have h := congrArg Prod.fst heq
      simp only at h
      rw [← h]
      refine ⟨Pre.trans ?_ (telescopeFold_pre _ _ _), by simp [Yield.unit]⟩
      blk_leaf

/-! ### scheduler loop, buffer loop, tier moves -/

theorem schedLoopBlock_spec (s : Sys) (now : Time) (orc : Oracle) :
    Pre s (s.schedLoopBlock now orc).1 ∧ (s.schedLoopBlock now orc).2.unit := by
  unfold schedLoopBlock
  simp only
  blk

theorem bufferLoopBlock_spec (s : Sys) (now : Time) :
    Pre s (s.bufferLoopBlock now).1 ∧ (s.bufferLoopBlock now).2.unit := by
  unfold bufferLoopBlock
  simp only
  blk

theorem hot2coldIter_spec (s : Sys) (now : Time) (o : Oid) (left : Int) :
    Pre s (s.hot2coldIter now o left).1 ∧ (s.hot2coldIter now o left).2.2.unit := by
  unfold hot2coldIter
  blk

theorem hot2coldBlock_spec (s : Sys) (now : Time) (cur : Option (Oid × Int)) :
    Pre s (s.hot2coldBlock now cur).1 ∧ (s.hot2coldBlock now cur).2.2.unit := by
  unfold hot2coldBlock
  split
  · exact hot2coldIter_spec _ _ _ _
  · split
    · blk_leaf
    · blk_leaf
    · refine ⟨Pre.trans ?_ (hot2coldIter_spec _ _ _ _).1, (hot2coldIter_spec _ _ _ _).2⟩
      blk_leaf

theorem cold2hotIter_spec (s : Sys) (now : Time) (o : Oid) (left : Int) :
    Pre s (s.cold2hotIter now o left).1 ∧ (s.cold2hotIter now o left).2.2.unit := by
  unfold cold2hotIter
  blk

theorem cold2hotBlock_spec (s : Sys) (now : Time) (cur : Option (Oid × Int)) :
    Pre s (s.cold2hotBlock now cur).1 ∧ (s.cold2hotBlock now cur).2.2.unit := by
  unfold cold2hotBlock
  split
  · exact cold2hotIter_spec _ _ _ _
  · split
    · blk_leaf
    · blk_leaf
    · refine ⟨Pre.trans ?_ (cold2hotIter_spec _ _ _ _).1, (cold2hotIter_spec _ _ _ _).2⟩
      blk_leaf

/-! ### ingest chain -/

theorem allocIngestIter_spec (s : Sys) (now : Time) (oid : Oid) (tl : Int) :
    Pre s (s.allocIngestIter now oid tl).1 ∧ (s.allocIngestIter now oid tl).2.2.unit := by
  unfold allocIngestIter
  simp only
  blk

theorem allocIngestBlock_spec (s : Sys) (now : Time) (pc : Nat) (oid : Oid) (tl : Int) :
    Pre s (s.allocIngestBlock now pc oid tl).1 ∧ (s.allocIngestBlock now pc oid tl).2.2.unit := by
  unfold allocIngestBlock
  split
  · simp only
    refine ⟨Pre.trans ?_ (allocIngestIter_spec _ _ _ _).1, (allocIngestIter_spec _ _ _ _).2⟩
    blk_leaf
  · exact allocIngestIter_spec _ _ _ _

theorem provIngestBlock_spec (s : Sys) (now : Time) (pc : Nat) (oid : Oid) (d : Nat) :
    Pre s (s.provIngestBlock now pc oid d).1 ∧ (s.provIngestBlock now pc oid d).2.2.unit := by
  unfold provIngestBlock
  split
  · simp only
    split
    · blk_leaf
    · refine ⟨Pre.trans ?_ (Pre.foldl _ ?_ _ _), by simp [Yield.unit]⟩
      · blk_leaf
      · intro s a; blk_leaf
  · blk_leaf

theorem ingestStreamIter_spec (s : Sys) (now : Time) (oid : Oid) (tl : Int) :
    Pre s (s.ingestStreamIter now oid tl).1 ∧ (s.ingestStreamIter now oid tl).2.2.unit := by
  unfold ingestStreamIter
  blk

theorem ingestStreamBlock_spec (s : Sys) (now : Time) (pc : Nat) (oid : Oid) (tl : Int) :
    Pre s (s.ingestStreamBlock now pc oid tl).1 ∧
      (s.ingestStreamBlock now pc oid tl).2.2.unit := by
  unfold ingestStreamBlock
  split
  · split
    · blk_leaf
    · split
      · blk_leaf
      · simp only
        refine ⟨Pre.trans ?_ (ingestStreamIter_spec _ _ _ _).1, (ingestStreamIter_spec _ _ _ _).2⟩
        blk_leaf
  · exact ingestStreamIter_spec _ _ _ _

/-! ### allocate_task_to_cluster / do_work -/

theorem allocTaskBlock_spec (s : Sys) (now : Time) (t : Tid) (m : Mid) (preds : List Tid)
    (obs : Option Oid) (ing : Bool) (ret : Nat) :
    Pre s (s.allocTaskBlock now t m preds obs ing ret).1 ∧
      (s.allocTaskBlock now t m preds obs ing ret).2.2.unit := by
  unfold allocTaskBlock
  simp only
  blk

theorem doWorkBlock_spec (s : Sys) (now : Time) (orc : Oracle) (t : Tid) (m : Mid)
    (preds : List Tid) (phase total : Nat) :
    (s.doWorkBlock now orc t m preds phase total).1.procs = s.procs ∧
    (s.doWorkBlock now orc t m preds phase total).1.nextPid = s.nextPid ∧
    (s.doWorkBlock now orc t m preds phase total).2.1.isDoWork = true := by
  unfold doWorkBlock
  simp only
  repeat' split
  all_goals exact ⟨rfl, rfl, rfl⟩

/-! ### allocate_tasks -/

theorem updateCurrentPlan_procs (s : Sys) (oid : Oid) :
    (s.updateCurrentPlan oid).procs = s.procs := by
  unfold updateCurrentPlan
  split
  · rfl
  · simp only [updPlan]
    apply foldl_procs_eq
    intro s a
    repeat' split
    all_goals rfl

theorem processOne_pre (now : Time) (oid : Oid) (st : PcsSt) (t : Tid) :
    Pre st.s (processOne now oid st t).s := by
  unfold processOne
  simp only
  blk

theorem processFold_pre (now : Time) (oid : Oid) (l : List Tid) (st : PcsSt) :
    Pre st.s (l.foldl (processOne now oid) st).s := by
  induction l generalizing st with
  | nil => exact Pre.refl _
  | cons a rest ih => exact (processOne_pre now oid st a).trans (ih _)

theorem processCurrentSchedule_pre (s : Sys) (now : Time) (oid : Oid)
    (schedule pairs : List (Tid × Mid)) :
    Pre s (processCurrentSchedule s now oid schedule pairs).s := by
  unfold processCurrentSchedule
  exact processFold_pre now oid _ { s := s, schedule := schedule, pairs := pairs, curr := [] }

theorem allocTasksIter_spec (s : Sys) (now : Time) (orc : Oracle) (oid : Oid)
    (schedule pairs : List (Tid × Mid)) (pool : List Tid) :
    Pre s (s.allocTasksIter now orc oid schedule pairs pool).1 ∧
      (s.allocTasksIter now orc oid schedule pairs pool).2.2.unit := by
  unfold allocTasksIter
  have hu := updateCurrentPlan_procs s oid
  simp only
  repeat' split
  all_goals first
    | (simp [Pre, Yield.unit, updPlan, addSch, addBuf, hu]; done)
    | (refine ⟨Pre.trans ?_ (processCurrentSchedule_pre _ _ _ _ _), by simp [Yield.unit]⟩
       simp [Pre, Yield.unit, updPlan, addSch, addBuf, hu])

theorem allocTasksBlock_spec (s : Sys) (now : Time) (orc : Oracle) (pc : Nat) (oid : Oid)
    (schedule pairs : List (Tid × Mid)) (pool : List Tid) (fin : Bool) :
    Pre s (s.allocTasksBlock now orc pc oid schedule pairs pool fin).1 ∧
      (s.allocTasksBlock now orc pc oid schedule pairs pool fin).2.2.unit := by
  unfold allocTasksBlock
  split
  · blk_leaf
  · split
    · simp only
      refine ⟨Pre.trans ?_ (allocTasksIter_spec _ _ _ _ _ _ _).1, (allocTasksIter_spec _ _ _ _ _ _ _).2⟩
      apply Pre.of_eq
      simp only [addSch]
      refine Eq.trans (foldl_procs_eq _ ?_ _ _) rfl
      intro s a; rfl
    · exact allocTasksIter_spec _ _ _ _ _ _ _

/-! ### dispatch -/

theorem block_pre (s : Sys) (p : Proc) (orc : Oracle) : Pre s (s.block p orc).1 := by
  unfold block
  simp only
  split
  · exact Pre.of_eq rfl
  · exact (telescopeBlock_spec _ _).1
  · exact Pre.of_eq rfl
  · exact (schedLoopBlock_spec _ _ _).1
  · exact (bufferLoopBlock_spec _ _).1
  · exact (allocIngestBlock_spec _ _ _ _ _).1
  · exact (provIngestBlock_spec _ _ _ _ _).1
  · exact (ingestStreamBlock_spec _ _ _ _ _).1
  · exact (allocTaskBlock_spec _ _ _ _ _ _ _ _).1
  · exact Pre.of_eq (doWorkBlock_spec _ _ _ _ _ _ _ _).1
  · exact (allocTasksBlock_spec _ _ _ _ _ _ _ _ _).1
  · exact (hot2coldBlock_spec _ _ _).1
  · exact (cold2hotBlock_spec _ _ _).1

theorem block_unit (s : Sys) (p : Proc) (orc : Oracle) (h : p.k.isDoWork = false) :
    (s.block p orc).2.2.unit := by
  unfold block
  simp only
  split
  · simp [monitorBlock, Yield.unit]
  · exact (telescopeBlock_spec _ _).2
  · simp [Yield.unit]
  · exact (schedLoopBlock_spec _ _ _).2
  · exact (bufferLoopBlock_spec _ _).2
  · exact (allocIngestBlock_spec _ _ _ _ _).2
  · exact (provIngestBlock_spec _ _ _ _ _).2
  · exact (ingestStreamBlock_spec _ _ _ _ _).2
  · exact (allocTaskBlock_spec _ _ _ _ _ _ _ _).2
  · rename_i hk; rw [hk] at h; simp [PK.isDoWork] at h
  · exact (allocTasksBlock_spec _ _ _ _ _ _ _ _ _).2
  · exact (hot2coldBlock_spec _ _ _).2
  · exact (cold2hotBlock_spec _ _ _).2

theorem block_dw (s : Sys) (p : Proc) (orc : Oracle) (h : p.k.isDoWork = true) :
    (s.block p orc).1.nextPid = s.nextPid ∧ (s.block p orc).2.1.isDoWork = true := by
  unfold block
  simp only
  split
  all_goals (rename_i hk; rw [hk] at h)
  all_goals first
    | (simp [PK.isDoWork] at h; done)
    | exact ⟨(doWorkBlock_spec _ _ _ _ _ _ _ _).2.1, (doWorkBlock_spec _ _ _ _ _ _ _ _).2.2⟩

theorem block_mon (s : Sys) (p : Proc) (orc : Oracle) (h : p.k = .monitor) :
    (s.block p orc).1.nextPid = s.nextPid ∧ (s.block p orc).2.1 = .monitor ∧
    (s.block p orc).2.2 = .timeout 1 := by
  unfold block
  simp only [h]
  simp [monitorBlock, collate]

/-! ### one `resume` -/

theorem proc?_pid (s : Sys) (X : Nat) (p : Proc) (h : s.proc? X = some p) : p.pid = X := by
  unfold Sys.proc? at h
  have := List.find?_some h
  simpa using this

theorem proc?_updProc (s : Sys) (pid X : Nat) (f : Proc → Proc) (hf : ∀ q, (f q).pid = q.pid) :
    (s.updProc pid f).proc? X = (s.proc? X).map (fun p => if p.pid = pid then f p else p) := by
  unfold Sys.proc? updProc
  simp only [List.find?_map]
  congr 2
  funext q
  simp only [Function.comp]
  split <;> simp [hf]

theorem proc?_crash (s : Sys) (e : Err) (X : Nat) : (s.crash e).proc? X = s.proc? X := by
  unfold crash
  split <;> rfl

theorem nextPid_crash (s : Sys) (e : Err) : (s.crash e).nextPid = s.nextPid := by
  unfold crash
  split <;> rfl

/-- the shape of `resume`: nothing happens, or one block runs and the process
record is updated -/
theorem resume_cases (s : Sys) (pid : Nat) (orc : Oracle) :
    (s.resume pid orc = (s, .raised .other) ∧ ∀ q, s.proc? pid = some q → q.alive = false) ∨
    ∃ q, s.proc? pid = some q ∧ q.alive = true ∧ (s.resume pid orc).2 = (s.block q orc).2.2 ∧
      ∃ f : Proc → Proc, (∀ x, (f x).pid = x.pid ∧ (f x).k = (s.block q orc).2.1 ∧
          ((∃ d, (s.block q orc).2.2 = .timeout d) → (f x).alive = x.alive)) ∧
        ((s.resume pid orc).1 = (s.block q orc).1.updProc pid f ∨
         ∃ e, (s.resume pid orc).1 = ((s.block q orc).1.updProc pid f).crash e) := by
  unfold resume
  cases hq : s.proc? pid with
  | none => left; simp
  | some q =>
    cases ha : q.alive with
    | false => left; simp [ha]
    | true =>
      right
      refine ⟨q, rfl, rfl, ?_⟩
      simp only [Bool.not_true, Bool.false_eq_true, if_false]
      generalize s.block q orc = r
      obtain ⟨s1, k, y⟩ := r
      cases y with
      | timeout d =>
        exact ⟨rfl, fun q' => { q' with k := k, pc := q'.pc + 1, wake := q.wake + d },
          fun x => ⟨rfl, rfl, fun _ => rfl⟩, Or.inl rfl⟩
      | done =>
        exact ⟨rfl, fun q' => { q' with k := k, pc := q'.pc + 1, alive := false },
          fun x => ⟨rfl, rfl, fun h => by simp at h⟩, Or.inl rfl⟩
      | raised e =>
        exact ⟨rfl, fun q' => { q' with k := k, pc := q'.pc + 1, alive := false },
          fun x => ⟨rfl, rfl, fun h => by simp at h⟩, Or.inr ⟨e, rfl⟩⟩

/-- process `pid` is a `do_work` body -/
def isDW (s : Sys) (pid : Nat) : Prop := ∃ p, s.proc? pid = some p ∧ p.k.isDoWork = true

/-- process 0 is the (live) monitor -/
def isMon (s : Sys) : Prop := ∃ p, s.proc? 0 = some p ∧ p.k = .monitor ∧ p.alive = true

theorem resume_proc? (s : Sys) (pid : Nat) (orc : Oracle) (X : Nat) (p : Proc)
    (hp : s.proc? X = some p) :
    (s.resume pid orc).1.proc? X = some p ∨
    (X = pid ∧ p.alive = true ∧ ∃ p', (s.resume pid orc).1.proc? X = some p' ∧
      p'.k = (s.block p orc).2.1 ∧
      ((∃ d, (s.block p orc).2.2 = .timeout d) → p'.alive = p.alive)) := by
  rcases resume_cases s pid orc with ⟨h, _⟩ | ⟨q, hq, ha, _, f, hf, hs⟩
  · left; rw [h]; exact hp
  · have h1 : (s.block q orc).1.proc? X = some p := (block_pre s q orc).proc? X p hp
    have h2 : (s.resume pid orc).1.proc? X = some (if p.pid = pid then f p else p) := by
      rcases hs with hs | ⟨e, hs⟩
      · rw [hs, proc?_updProc _ _ _ _ (fun x => (hf x).1), h1]; rfl
      · rw [hs, proc?_crash, proc?_updProc _ _ _ _ (fun x => (hf x).1), h1]; rfl
    have hpid := proc?_pid s X p hp
    by_cases hX : X = pid
    · right
      subst hX
      rw [hp] at hq
      cases hq
      refine ⟨rfl, ha, f p, ?_, (hf p).2.1, (hf p).2.2⟩
      rw [h2, if_pos hpid]
    · left
      rw [h2, if_neg (by omega)]

theorem resume_isDW (s : Sys) (pid : Nat) (orc : Oracle) (X : Nat) (h : s.isDW X) :
    (s.resume pid orc).1.isDW X := by
  obtain ⟨p, hp, hk⟩ := h
  rcases resume_proc? s pid orc X p hp with h | ⟨_, _, p', hp', hk', _⟩
  · exact ⟨p, h, hk⟩
  · exact ⟨p', hp', by rw [hk']; exact (block_dw s p orc hk).2⟩

theorem resume_isMon (s : Sys) (pid : Nat) (orc : Oracle) (h : s.isMon) :
    (s.resume pid orc).1.isMon := by
  obtain ⟨p, hp, hk, ha⟩ := h
  rcases resume_proc? s pid orc 0 p hp with h | ⟨_, _, p', hp', hk', ha'⟩
  · exact ⟨p, h, hk, ha⟩
  · have hm := block_mon s p orc hk
    exact ⟨p', hp', by rw [hk']; exact hm.2.1, by rw [ha' ⟨1, hm.2.2⟩]; exact ha⟩

theorem resume_unit (s : Sys) (pid : Nat) (orc : Oracle) (h : ¬ s.isDW pid) :
    (s.resume pid orc).2.unit := by
  rcases resume_cases s pid orc with ⟨h1, _⟩ | ⟨q, hq, _, hy, _⟩
  · rw [h1]; simp [Yield.unit]
  · rw [hy]
    apply block_unit
    cases hk : q.k.isDoWork with
    | false => rfl
    | true => exact absurd ⟨q, hq, hk⟩ h

theorem nextPid_updProc (s : Sys) (pid : Nat) (f : Proc → Proc) :
    (s.updProc pid f).nextPid = s.nextPid := rfl

theorem resume_dw_nextPid (s : Sys) (pid : Nat) (orc : Oracle) (h : s.isDW pid) :
    (s.resume pid orc).1.nextPid = s.nextPid := by
  obtain ⟨p, hp, hk⟩ := h
  rcases resume_cases s pid orc with ⟨h1, _⟩ | ⟨q, hq, _, _, f, _, hs⟩
  · rw [h1]
  · rw [hp] at hq
    cases hq
    rcases hs with hs | ⟨e, hs⟩
    · rw [hs, nextPid_updProc]; exact (block_dw s p orc hk).1
    · rw [hs, nextPid_crash, nextPid_updProc]; exact (block_dw s p orc hk).1

theorem resume_mon (s : Sys) (orc : Oracle) (h : s.isMon) :
    (s.resume 0 orc).1.nextPid = s.nextPid ∧ (s.resume 0 orc).2 = .timeout 1 := by
  obtain ⟨p, hp, hk, ha⟩ := h
  have hm := block_mon s p orc hk
  rcases resume_cases s 0 orc with ⟨_, h2⟩ | ⟨q, hq, _, hy, f, _, hs⟩
  · rw [h2 p hp] at ha; cases ha
  · rw [hp] at hq
    cases hq
    refine ⟨?_, by rw [hy]; exact hm.2.2⟩
    rcases hs with hs | ⟨e, hs⟩
    · rw [hs, nextPid_updProc]; exact hm.1
    · rw [hs, nextPid_crash, nextPid_updProc]; exact hm.1

end Sys

/-! ### the handler -/

theorem failPid_ne_zero : failPid ≠ 0 := by decide

theorem simHandler_fail (env : SimEnv) (s : Sys) (now : Time) :
    simHandler env s failPid now = ({ s with halted := true }, [], none) := by
  simp [simHandler]

theorem simHandler_st (env : SimEnv) (s : Sys) (pid : Nat) (now : Time) (h : pid ≠ failPid) :
    (simHandler env s pid now).1 = (s.resume pid (env.oracle s)).1 := by
  simp only [simHandler, h, if_false]
  generalize s.resume pid (env.oracle s) = r
  obtain ⟨s1, y⟩ := r
  cases y <;> rfl

theorem simHandler_yield (env : SimEnv) (s : Sys) (pid : Nat) (now : Time) (h : pid ≠ failPid) :
    (simHandler env s pid now).2.2 =
      match (s.resume pid (env.oracle s)).2 with
      | .timeout d => some d
      | _ => none := by
  simp only [simHandler, h, if_false]
  generalize s.resume pid (env.oracle s) = r
  obtain ⟨s1, y⟩ := r
  cases y <;> rfl

theorem simHandler_spawned (env : SimEnv) (s : Sys) (pid : Nat) (now : Time) (h : pid ≠ failPid)
    (hn : (s.resume pid (env.oracle s)).1.nextPid = s.nextPid) :
    (∀ x ∈ (simHandler env s pid now).2.1, x = failPid) ∧
    ((∃ d, (s.resume pid (env.oracle s)).2 = .timeout d) → (simHandler env s pid now).2.1 = []) := by
  simp only [simHandler, h, if_false]
  revert hn
  generalize s.resume pid (env.oracle s) = r
  obtain ⟨s1, y⟩ := r
  intro hn
  simp only at hn
  cases y <;> simp [hn]

/-- the facts about the handler the invariant needs -/
theorem simHandler_isMon (env : SimEnv) (s : Sys) (pid : Nat) (now : Time) (h : s.isMon) :
    (simHandler env s pid now).1.isMon := by
  by_cases hp : pid = failPid
  · subst hp; rw [simHandler_fail]; exact h
  · rw [simHandler_st env s pid now hp]; exact Sys.resume_isMon s pid _ h

theorem simHandler_isDW (env : SimEnv) (s : Sys) (pid : Nat) (now : Time) (X : Nat)
    (h : s.isDW X) : (simHandler env s pid now).1.isDW X := by
  by_cases hp : pid = failPid
  · subst hp; rw [simHandler_fail]; exact h
  · rw [simHandler_st env s pid now hp]; exact Sys.resume_isDW s pid _ X h

theorem simHandler_unit (env : SimEnv) (s : Sys) (pid : Nat) (now : Time)
    (hdw : ¬ s.isDW pid) (d : Time) (hy : (simHandler env s pid now).2.2 = some d) : d = 1 := by
  by_cases hp : pid = failPid
  · subst hp; rw [simHandler_fail] at hy; cases hy
  · rw [simHandler_yield env s pid now hp] at hy
    have hu := Sys.resume_unit s pid (env.oracle s) hdw
    revert hy hu
    generalize (s.resume pid (env.oracle s)).2 = y
    cases y <;> simp [Yield.unit]
    intro h1 h2; rw [← h2, h1]

theorem simHandler_quiet (env : SimEnv) (s : Sys) (pid : Nat) (now : Time)
    (h : s.isDW pid ∨ pid = failPid) : ∀ x ∈ (simHandler env s pid now).2.1, x = failPid := by
  by_cases hp : pid = failPid
  · subst hp; rw [simHandler_fail]; simp
  · rcases h with h | h
    · exact (simHandler_spawned env s pid now hp (Sys.resume_dw_nextPid s pid _ h)).1
    · exact absurd h hp

theorem simHandler_mon (env : SimEnv) (s : Sys) (now : Time) (h : s.isMon) :
    (simHandler env s 0 now).2.1 = [] ∧ (simHandler env s 0 now).2.2 = some 1 := by
  have hm := Sys.resume_mon s (env.oracle s) h
  have h0 : (0 : Nat) ≠ failPid := fun h => failPid_ne_zero h.symm
  refine ⟨(simHandler_spawned env s 0 now h0 hm.1).2 ⟨1, hm.2⟩, ?_⟩
  rw [simHandler_yield env s 0 now h0, hm.2]

end Topsim
