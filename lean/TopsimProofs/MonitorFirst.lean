/-
  The monitor is resumed first at every instant (among the processes that are
  not `do_work` bodies), for the concrete simulator `SimState = KState Sys` with
  handler `simHandler env`.

  Part 1 (namespace `Sys`): what one block does to the process table and what
  it yields.  Part 2: the kernel-level invariant `MonFirst` and its
  preservation by `KState.step (simHandler env)`.
-/
import TopsimProofs.KernelLemmas

namespace Topsim

def PK.isDoWork : PK → Bool
  | .doWork .. => true
  | _ => false

/-- the yield is `timeout 1`, `done` or `raised` -/
def Yield.unit : Yield → Prop
  | .timeout d => d = 1
  | _ => True

namespace Sys

/-- the process table only grows at the end -/
def Pre (s s' : Sys) : Prop := s.procs <+: s'.procs

theorem Pre.refl (s : Sys) : Pre s s := List.prefix_refl _

theorem Pre.trans {a b c : Sys} (h1 : Pre a b) (h2 : Pre b c) : Pre a c :=
  List.IsPrefix.trans h1 h2

theorem Pre.of_eq {s s' : Sys} (h : s'.procs = s.procs) : Pre s s' := by
  unfold Pre; rw [h]; exact List.prefix_refl _

theorem Pre.proc? {s s' : Sys} (h : Pre s s') (X : Nat) (p : Proc)
    (hp : s.proc? X = some p) : s'.proc? X = some p := by
  obtain ⟨t, ht⟩ := h
  unfold Sys.proc? at *
  rw [← ht, List.find?_append, hp]
  rfl

theorem Pre.foldl {α : Type} (f : Sys → α → Sys) (hf : ∀ s a, Pre s (f s a)) (l : List α)
    (s : Sys) : Pre s (l.foldl f s) := by
  induction l generalizing s with
  | nil => exact Pre.refl _
  | cons a rest ih => exact (hf s a).trans (ih _)

theorem foldl_procs_eq {α : Type} (f : Sys → α → Sys) (hf : ∀ s a, (f s a).procs = s.procs)
    (l : List α) (s : Sys) : (l.foldl f s).procs = s.procs := by
  induction l generalizing s with
  | nil => rfl
  | cons a rest ih => simp only [List.foldl_cons]; rw [ih, hf]

/-- close the leaves of a fully split block -/
macro "blk_leaf" : tactic =>
  `(tactic| simp [Pre, Yield.unit, spawn, updTask, updObs, updPlan, addTel, addSch, addBuf, collate])

macro "blk" : tactic => `(tactic| ((repeat' split) <;> blk_leaf))

/-! ### monitor, cluster loop -/

theorem monitorBlock_spec (s : Sys) (now : Time) :
    (s.monitorBlock now).1.procs = s.procs ∧ (s.monitorBlock now).1.nextPid = s.nextPid ∧
    (s.monitorBlock now).2 = .timeout 1 := ⟨rfl, rfl, rfl⟩

/-! ### telescope -/

theorem checkIngestCapacity_procs (s : Sys) (o : Obs) (s1 : Sys) (b : Bool)
    (h : s.checkIngestCapacity o = .ok (s1, b)) : s1.procs = s.procs := by
  unfold checkIngestCapacity at h
  split at h
  · simp at h
  · split at h
    · split at h
      · simp only [Except.ok.injEq, Prod.mk.injEq] at h
        obtain ⟨h1, h2⟩ := h
        subst h1
        split <;> rfl
      · simp only [Except.ok.injEq, Prod.mk.injEq] at h
        rw [← h.1]
    · simp only [Except.ok.injEq, Prod.mk.injEq] at h
      rw [← h.1]

theorem telescopeVisit_pre (n : Nat) (acc : Sys × Option Err) (oid : Oid) :
    Pre acc.1 (telescopeVisit n acc oid).1 := by
  unfold telescopeVisit
  split
  · exact Pre.refl _
  · split
    · exact Pre.refl _
    · simp only
      split
      · split
        · exact Pre.refl _
        · rename_i s1 hc
          exact Pre.of_eq (checkIngestCapacity_procs _ _ _ _ hc)
        · rename_i s1 hc
          have := checkIngestCapacity_procs _ _ _ _ hc
          simp [Pre, spawn, updObs, addTel, this]
      · split
        · blk_leaf
        · exact Pre.refl _

theorem telescopeFold_pre (n : Nat) (l : List Oid) (acc : Sys × Option Err) :
    Pre acc.1 (l.foldl (telescopeVisit n) acc).1 := by
  induction l generalizing acc with
  | nil => exact Pre.refl _
  | cons a rest ih => exact (telescopeVisit_pre n acc a).trans (ih _)

theorem telescopeBlock_spec (s : Sys) (now : Time) :
    Pre s (s.telescopeBlock now).1 ∧ (s.telescopeBlock now).2.unit := by
  unfold telescopeBlock
  split
  · blk_leaf
  · simp only
    split
    all_goals
      rename_i heq
      have h := congrArg Prod.fst heq
      simp only at h
      rw [← h]
      refine ⟨Pre.trans ?_ (telescopeFold_pre _ _ _), by simp [Yield.unit]⟩
      blk_leaf

/-! ### scheduler loop, buffer loop, tier moves -/

theorem schedLoopBlock_spec (s : Sys) (now : Time) (orc : Oracle) :
    Pre s (s.schedLoopBlock now orc).1 ∧ (s.schedLoopBlock now orc).2.unit := by
  unfold schedLoopBlock
  simp only
  blk

theorem bufferLoopBlock_spec (s : Sys) (now : Time) :
    Pre s (s.bufferLoopBlock now).1 ∧ (s.bufferLoopBlock now).2.unit := by
  unfold bufferLoopBlock
  simp only
  blk

theorem hot2coldIter_spec (s : Sys) (now : Time) (o : Oid) (left : Int) :
    Pre s (s.hot2coldIter now o left).1 ∧ (s.hot2coldIter now o left).2.2.unit := by
  unfold hot2coldIter
  blk

theorem hot2coldBlock_spec (s : Sys) (now : Time) (cur : Option (Oid × Int)) :
    Pre s (s.hot2coldBlock now cur).1 ∧ (s.hot2coldBlock now cur).2.2.unit := by
  unfold hot2coldBlock
  split
  · exact hot2coldIter_spec _ _ _ _
  · split
    · blk_leaf
    · blk_leaf
    · refine ⟨Pre.trans ?_ (hot2coldIter_spec _ _ _ _).1, (hot2coldIter_spec _ _ _ _).2⟩
      blk_leaf

theorem cold2hotIter_spec (s : Sys) (now : Time) (o : Oid) (left : Int) :
    Pre s (s.cold2hotIter now o left).1 ∧ (s.cold2hotIter now o left).2.2.unit := by
  unfold cold2hotIter
  blk

theorem cold2hotBlock_spec (s : Sys) (now : Time) (cur : Option (Oid × Int)) :
    Pre s (s.cold2hotBlock now cur).1 ∧ (s.cold2hotBlock now cur).2.2.unit := by
  unfold cold2hotBlock
  split
  · exact cold2hotIter_spec _ _ _ _
  · split
    · blk_leaf
    · blk_leaf
    · refine ⟨Pre.trans ?_ (cold2hotIter_spec _ _ _ _).1, (cold2hotIter_spec _ _ _ _).2⟩
      blk_leaf

/-! ### ingest chain -/

theorem allocIngestIter_spec (s : Sys) (now : Time) (oid : Oid) (tl : Int) :
    Pre s (s.allocIngestIter now oid tl).1 ∧ (s.allocIngestIter now oid tl).2.2.unit := by
  unfold allocIngestIter
  simp only
  blk

theorem allocIngestBlock_spec (s : Sys) (now : Time) (pc : Nat) (oid : Oid) (tl : Int) :
    Pre s (s.allocIngestBlock now pc oid tl).1 ∧ (s.allocIngestBlock now pc oid tl).2.2.unit := by
  unfold allocIngestBlock
  split
  · simp only
    refine ⟨Pre.trans ?_ (allocIngestIter_spec _ _ _ _).1, (allocIngestIter_spec _ _ _ _).2⟩
    blk_leaf
  · exact allocIngestIter_spec _ _ _ _

theorem provIngestBlock_spec (s : Sys) (now : Time) (pc : Nat) (oid : Oid) (d : Nat) :
    Pre s (s.provIngestBlock now pc oid d).1 ∧ (s.provIngestBlock now pc oid d).2.2.unit := by
  unfold provIngestBlock
  split
  · simp only
    split
    · blk_leaf
    · refine ⟨Pre.trans ?_ (Pre.foldl _ ?_ _ _), by simp [Yield.unit]⟩
      · blk_leaf
      · intro s a; blk_leaf
  · blk_leaf

theorem ingestStreamIter_spec (s : Sys) (now : Time) (oid : Oid) (tl : Int) :
    Pre s (s.ingestStreamIter now oid tl).1 ∧ (s.ingestStreamIter now oid tl).2.2.unit := by
  unfold ingestStreamIter
  blk

theorem ingestStreamBlock_spec (s : Sys) (now : Time) (pc : Nat) (oid : Oid) (tl : Int) :
    Pre s (s.ingestStreamBlock now pc oid tl).1 ∧
      (s.ingestStreamBlock now pc oid tl).2.2.unit := by
  unfold ingestStreamBlock
  split
  · split
    · blk_leaf
    · split
      · blk_leaf
      · simp only
        refine ⟨Pre.trans ?_ (ingestStreamIter_spec _ _ _ _).1, (ingestStreamIter_spec _ _ _ _).2⟩
        blk_leaf
  · exact ingestStreamIter_spec _ _ _ _

/-! ### allocate_task_to_cluster / do_work -/

theorem allocTaskBlock_spec (s : Sys) (now : Time) (t : Tid) (m : Mid) (preds : List Tid)
    (obs : Option Oid) (ing : Bool) (ret : Nat) :
    Pre s (s.allocTaskBlock now t m preds obs ing ret).1 ∧
      (s.allocTaskBlock now t m preds obs ing ret).2.2.unit := by
  unfold allocTaskBlock
  simp only
  blk

theorem doWorkBlock_spec (s : Sys) (now : Time) (orc : Oracle) (t : Tid) (m : Mid)
    (preds : List Tid) (phase total : Nat) :
    (s.doWorkBlock now orc t m preds phase total).1.procs = s.procs ∧
    (s.doWorkBlock now orc t m preds phase total).1.nextPid = s.nextPid ∧
    (s.doWorkBlock now orc t m preds phase total).2.1.isDoWork = true := by
  unfold doWorkBlock
  simp only
  repeat' split
  all_goals exact ⟨rfl, rfl, rfl⟩

/-! ### allocate_tasks -/

theorem updateCurrentPlan_procs (s : Sys) (oid : Oid) :
    (s.updateCurrentPlan oid).procs = s.procs := by
  unfold updateCurrentPlan
  split
  · rfl
  · simp only [updPlan]
    apply foldl_procs_eq
    intro s a
    repeat' split
    all_goals rfl

theorem processOne_pre (now : Time) (oid : Oid) (st : PcsSt) (t : Tid) :
    Pre st.s (processOne now oid st t).s := by
  unfold processOne
  simp only
  blk

theorem processFold_pre (now : Time) (oid : Oid) (l : List Tid) (st : PcsSt) :
    Pre st.s (l.foldl (processOne now oid) st).s := by
  induction l generalizing st with
  | nil => exact Pre.refl _
  | cons a rest ih => exact (processOne_pre now oid st a).trans (ih _)

theorem processCurrentSchedule_pre (s : Sys) (now : Time) (oid : Oid)
    (schedule pairs : List (Tid × Mid)) :
    Pre s (processCurrentSchedule s now oid schedule pairs).s := by
  unfold processCurrentSchedule
  exact processFold_pre now oid _ { s := s, schedule := schedule, pairs := pairs, curr := [] }

theorem allocTasksIter_spec (s : Sys) (now : Time) (orc : Oracle) (oid : Oid)
    (schedule pairs : List (Tid × Mid)) (pool : List Tid) :
    Pre s (s.allocTasksIter now orc oid schedule pairs pool).1 ∧
      (s.allocTasksIter now orc oid schedule pairs pool).2.2.unit := by
  unfold allocTasksIter
  have hu := updateCurrentPlan_procs s oid
  simp only
  repeat' split
  all_goals first
    | (simp [Pre, Yield.unit, updPlan, addSch, addBuf, hu]; done)
    | (refine ⟨Pre.trans ?_ (processCurrentSchedule_pre _ _ _ _ _), by simp [Yield.unit]⟩
       simp [Pre, updPlan, hu])

theorem allocTasksBlock_spec (s : Sys) (now : Time) (orc : Oracle) (pc : Nat) (oid : Oid)
    (schedule pairs : List (Tid × Mid)) (pool : List Tid) (fin : Bool) :
    Pre s (s.allocTasksBlock now orc pc oid schedule pairs pool fin).1 ∧
      (s.allocTasksBlock now orc pc oid schedule pairs pool fin).2.2.unit := by
  unfold allocTasksBlock
  split
  · blk_leaf
  · split
    · simp only
      refine ⟨Pre.trans ?_ (allocTasksIter_spec _ _ _ _ _ _ _).1, (allocTasksIter_spec _ _ _ _ _ _ _).2⟩
      apply Pre.of_eq
      simp only [addSch]
      refine Eq.trans (foldl_procs_eq _ ?_ _ _) rfl
      intro s a; rfl
    · exact allocTasksIter_spec _ _ _ _ _ _ _

/-! ### dispatch -/

theorem block_pre (s : Sys) (p : Proc) (orc : Oracle) : Pre s (s.block p orc).1 := by
  unfold block
  simp only
  split
  · exact Pre.of_eq rfl
  · exact (telescopeBlock_spec _ _).1
  · exact Pre.of_eq rfl
  · exact (schedLoopBlock_spec _ _ _).1
  · exact (bufferLoopBlock_spec _ _).1
  · exact (allocIngestBlock_spec _ _ _ _ _).1
  · exact (provIngestBlock_spec _ _ _ _ _).1
  · exact (ingestStreamBlock_spec _ _ _ _ _).1
  · exact (allocTaskBlock_spec _ _ _ _ _ _ _ _).1
  · exact Pre.of_eq (doWorkBlock_spec _ _ _ _ _ _ _ _).1
  · exact (allocTasksBlock_spec _ _ _ _ _ _ _ _ _).1
  · exact (hot2coldBlock_spec _ _ _).1
  · exact (cold2hotBlock_spec _ _ _).1

theorem block_unit (s : Sys) (p : Proc) (orc : Oracle) (h : p.k.isDoWork = false) :
    (s.block p orc).2.2.unit := by
  unfold block
  simp only
  split
  · simp [monitorBlock, Yield.unit]
  · exact (telescopeBlock_spec _ _).2
  · simp [Yield.unit]
  · exact (schedLoopBlock_spec _ _ _).2
  · exact (bufferLoopBlock_spec _ _).2
  · exact (allocIngestBlock_spec _ _ _ _ _).2
  · exact (provIngestBlock_spec _ _ _ _ _).2
  · exact (ingestStreamBlock_spec _ _ _ _ _).2
  · exact (allocTaskBlock_spec _ _ _ _ _ _ _ _).2
  · rename_i hk; rw [hk] at h; simp [PK.isDoWork] at h
  · exact (allocTasksBlock_spec _ _ _ _ _ _ _ _ _).2
  · exact (hot2coldBlock_spec _ _ _).2
  · exact (cold2hotBlock_spec _ _ _).2

theorem block_dw (s : Sys) (p : Proc) (orc : Oracle) (h : p.k.isDoWork = true) :
    (s.block p orc).1.nextPid = s.nextPid ∧ (s.block p orc).2.1.isDoWork = true := by
  unfold block
  simp only
  split
  all_goals (rename_i hk; rw [hk] at h)
  all_goals first
    | (simp [PK.isDoWork] at h; done)
    | exact ⟨(doWorkBlock_spec _ _ _ _ _ _ _ _).2.1, (doWorkBlock_spec _ _ _ _ _ _ _ _).2.2⟩

theorem block_mon (s : Sys) (p : Proc) (orc : Oracle) (h : p.k = .monitor) :
    (s.block p orc).1.nextPid = s.nextPid ∧ (s.block p orc).2.1 = .monitor ∧
    (s.block p orc).2.2 = .timeout 1 := by
  unfold block
  simp only [h]
  simp [monitorBlock, collate]

/-! ### one `resume` -/

theorem proc?_pid (s : Sys) (X : Nat) (p : Proc) (h : s.proc? X = some p) : p.pid = X := by
  unfold Sys.proc? at h
  have := List.find?_some h
  simpa using this

theorem proc?_updProc (s : Sys) (pid X : Nat) (f : Proc → Proc) (hf : ∀ q, (f q).pid = q.pid) :
    (s.updProc pid f).proc? X = (s.proc? X).map (fun p => if p.pid = pid then f p else p) := by
  unfold Sys.proc? updProc
  simp only [List.find?_map]
  congr 2
  funext q
  simp only [Function.comp]
  split <;> simp [hf]

theorem proc?_crash (s : Sys) (e : Err) (X : Nat) : (s.crash e).proc? X = s.proc? X := by
  unfold crash
  split <;> rfl

theorem nextPid_crash (s : Sys) (e : Err) : (s.crash e).nextPid = s.nextPid := by
  unfold crash
  split <;> rfl

/-- the shape of `resume`: nothing happens, or one block runs and the process
record is updated -/
theorem resume_cases (s : Sys) (pid : Nat) (orc : Oracle) :
    (s.resume pid orc = (s, .raised .other) ∧ ∀ q, s.proc? pid = some q → q.alive = false) ∨
    ∃ q, s.proc? pid = some q ∧ q.alive = true ∧ (s.resume pid orc).2 = (s.block q orc).2.2 ∧
      ∃ f : Proc → Proc, (∀ x, (f x).pid = x.pid ∧ (f x).k = (s.block q orc).2.1 ∧
          ((∃ d, (s.block q orc).2.2 = .timeout d) → (f x).alive = x.alive)) ∧
        ((s.resume pid orc).1 = (s.block q orc).1.updProc pid f ∨
         ∃ e, (s.resume pid orc).1 = ((s.block q orc).1.updProc pid f).crash e) := by
  unfold resume
  cases hq : s.proc? pid with
  | none => left; simp
  | some q =>
    cases ha : q.alive with
    | false => left; simp [ha]
    | true =>
      right
      refine ⟨q, rfl, ha, ?_⟩
      simp only [ha, Bool.not_true, Bool.false_eq_true, if_false]
      generalize s.block q orc = r
      obtain ⟨s1, k, y⟩ := r
      cases y with
      | timeout d =>
        exact ⟨rfl, fun q' => { q' with k := k, pc := q'.pc + 1, wake := q.wake + d },
          fun x => ⟨rfl, rfl, fun _ => rfl⟩, Or.inl rfl⟩
      | done =>
        exact ⟨rfl, fun q' => { q' with k := k, pc := q'.pc + 1, alive := false },
          fun x => ⟨rfl, rfl, fun h => by simp at h⟩, Or.inl rfl⟩
      | raised e =>
        exact ⟨rfl, fun q' => { q' with k := k, pc := q'.pc + 1, alive := false },
          fun x => ⟨rfl, rfl, fun h => by simp at h⟩, Or.inr ⟨e, rfl⟩⟩

/-- process `pid` is a `do_work` body -/
def isDW (s : Sys) (pid : Nat) : Prop := ∃ p, s.proc? pid = some p ∧ p.k.isDoWork = true

/-- process 0 is the (live) monitor -/
def isMon (s : Sys) : Prop := ∃ p, s.proc? 0 = some p ∧ p.k = .monitor ∧ p.alive = true

theorem resume_proc? (s : Sys) (pid : Nat) (orc : Oracle) (X : Nat) (p : Proc)
    (hp : s.proc? X = some p) :
    (s.resume pid orc).1.proc? X = some p ∨
    (X = pid ∧ p.alive = true ∧ ∃ p', (s.resume pid orc).1.proc? X = some p' ∧
      p'.k = (s.block p orc).2.1 ∧
      ((∃ d, (s.block p orc).2.2 = .timeout d) → p'.alive = p.alive)) := by
  rcases resume_cases s pid orc with ⟨h, _⟩ | ⟨q, hq, ha, _, f, hf, hs⟩
  · left; rw [h]; exact hp
  · have h1 : (s.block q orc).1.proc? X = some p := (block_pre s q orc).proc? X p hp
    have h2 : (s.resume pid orc).1.proc? X = some (if p.pid = pid then f p else p) := by
      rcases hs with hs | ⟨e, hs⟩
      · rw [hs, proc?_updProc _ _ _ _ (fun x => (hf x).1), h1]; rfl
      · rw [hs, proc?_crash, proc?_updProc _ _ _ _ (fun x => (hf x).1), h1]; rfl
    have hpid := proc?_pid s X p hp
    by_cases hX : X = pid
    · right
      subst hX
      rw [hp] at hq
      cases hq
      refine ⟨rfl, ha, f p, ?_, (hf p).2.1, (hf p).2.2⟩
      rw [h2, if_pos hpid]
    · left
      rw [h2, if_neg (by omega)]

theorem resume_isDW (s : Sys) (pid : Nat) (orc : Oracle) (X : Nat) (h : s.isDW X) :
    (s.resume pid orc).1.isDW X := by
  obtain ⟨p, hp, hk⟩ := h
  rcases resume_proc? s pid orc X p hp with h | ⟨_, _, p', hp', hk', _⟩
  · exact ⟨p, h, hk⟩
  · exact ⟨p', hp', by rw [hk']; exact (block_dw s p orc hk).2⟩

theorem resume_isMon (s : Sys) (pid : Nat) (orc : Oracle) (h : s.isMon) :
    (s.resume pid orc).1.isMon := by
  obtain ⟨p, hp, hk, ha⟩ := h
  rcases resume_proc? s pid orc 0 p hp with h | ⟨_, _, p', hp', hk', ha'⟩
  · exact ⟨p, h, hk, ha⟩
  · have hm := block_mon s p orc hk
    exact ⟨p', hp', by rw [hk']; exact hm.2.1, by rw [ha' ⟨1, hm.2.2⟩]; exact ha⟩

theorem resume_unit (s : Sys) (pid : Nat) (orc : Oracle) (h : ¬ s.isDW pid) :
    (s.resume pid orc).2.unit := by
  rcases resume_cases s pid orc with ⟨h1, _⟩ | ⟨q, hq, _, hy, _⟩
  · rw [h1]; simp [Yield.unit]
  · rw [hy]
    apply block_unit
    cases hk : q.k.isDoWork with
    | false => rfl
    | true => exact absurd ⟨q, hq, hk⟩ h

theorem nextPid_updProc (s : Sys) (pid : Nat) (f : Proc → Proc) :
    (s.updProc pid f).nextPid = s.nextPid := rfl

theorem resume_dw_nextPid (s : Sys) (pid : Nat) (orc : Oracle) (h : s.isDW pid) :
    (s.resume pid orc).1.nextPid = s.nextPid := by
  obtain ⟨p, hp, hk⟩ := h
  rcases resume_cases s pid orc with ⟨h1, _⟩ | ⟨q, hq, _, _, f, _, hs⟩
  · rw [h1]
  · rw [hp] at hq
    cases hq
    rcases hs with hs | ⟨e, hs⟩
    · rw [hs, nextPid_updProc]; exact (block_dw s p orc hk).1
    · rw [hs, nextPid_crash, nextPid_updProc]; exact (block_dw s p orc hk).1

theorem resume_mon (s : Sys) (orc : Oracle) (h : s.isMon) :
    (s.resume 0 orc).1.nextPid = s.nextPid ∧ (s.resume 0 orc).2 = .timeout 1 := by
  obtain ⟨p, hp, hk, ha⟩ := h
  have hm := block_mon s p orc hk
  rcases resume_cases s 0 orc with ⟨_, h2⟩ | ⟨q, hq, _, hy, f, _, hs⟩
  · rw [h2 p hp] at ha; cases ha
  · rw [hp] at hq
    cases hq
    refine ⟨?_, by rw [hy]; exact hm.2.2⟩
    rcases hs with hs | ⟨e, hs⟩
    · rw [hs, nextPid_updProc]; exact hm.1
    · rw [hs, nextPid_crash, nextPid_updProc]; exact hm.1

end Sys

/-! ### the handler -/

/-- the shape of the handler: the popped event is a failure (the exception
leaves `env.run`), or one block of a live process runs -/
theorem simHandler_cases (env : SimEnv) (s : Sys) (pid : Nat) (now : Time) :
    (simHandler env s pid now = ({ s with halted := true }, [], none) ∧
      ∀ q, s.proc? pid = some q → q.alive = false) ∨
    ((simHandler env s pid now).1 = (s.resume pid (env.oracle s)).1 ∧
     (simHandler env s pid now).2.1 =
       (List.range ((s.resume pid (env.oracle s)).1.nextPid - s.nextPid)).map (· + s.nextPid) ∧
     (simHandler env s pid now).2.2 =
       match (s.resume pid (env.oracle s)).2 with
       | .timeout d => some d
       | .done => none
       | .raised _ => some 0) := by
  unfold simHandler
  split
  · rename_i heq
    left; exact ⟨rfl, fun q hq => by rw [heq] at hq; cases hq⟩
  · split
    · rename_i p heq ha
      left; exact ⟨rfl, fun q hq => by rw [heq] at hq; cases hq; simpa using ha⟩
    · right
      generalize s.resume pid (env.oracle s) = r
      obtain ⟨s1, y⟩ := r
      cases y <;> exact ⟨rfl, rfl, rfl⟩

theorem simHandler_isMon (env : SimEnv) (s : Sys) (pid : Nat) (now : Time) (h : s.isMon) :
    (simHandler env s pid now).1.isMon := by
  rcases simHandler_cases env s pid now with ⟨hc, _⟩ | ⟨hc, _, _⟩
  · rw [hc]; exact h
  · rw [hc]; exact Sys.resume_isMon s pid _ h

theorem simHandler_isDW (env : SimEnv) (s : Sys) (pid : Nat) (now : Time) (X : Nat)
    (h : s.isDW X) : (simHandler env s pid now).1.isDW X := by
  rcases simHandler_cases env s pid now with ⟨hc, _⟩ | ⟨hc, _, _⟩
  · rw [hc]; exact h
  · rw [hc]; exact Sys.resume_isDW s pid _ X h

/-- a process that is not a `do_work` body is rescheduled one step later, or
at the same instant as a failure event, or not at all -/
theorem simHandler_unit (env : SimEnv) (s : Sys) (pid : Nat) (now : Time)
    (hdw : ¬ s.isDW pid) (d : Time) (hy : (simHandler env s pid now).2.2 = some d) :
    d = 1 ∨ d = 0 := by
  rcases simHandler_cases env s pid now with ⟨hc, _⟩ | ⟨_, _, hc⟩
  · rw [hc] at hy; cases hy
  · rw [hc] at hy
    have hu := Sys.resume_unit s pid (env.oracle s) hdw
    revert hy hu
    generalize (s.resume pid (env.oracle s)).2 = y
    cases y with
    | timeout d' =>
      simp only [Yield.unit, Option.some.injEq]
      intro h1 h2; left; rw [← h1, h2]
    | done => intro h1; cases h1
    | raised e =>
      simp only [Option.some.injEq]
      intro h1 _; right; exact h1.symm

/-- a `do_work` body starts no process -/
theorem simHandler_quiet (env : SimEnv) (s : Sys) (pid : Nat) (now : Time)
    (h : s.isDW pid) : (simHandler env s pid now).2.1 = [] := by
  rcases simHandler_cases env s pid now with ⟨hc, _⟩ | ⟨_, hc, _⟩
  · rw [hc]
  · rw [hc, Sys.resume_dw_nextPid s pid _ h]; simp

/-- the monitor starts no process and always comes back one step later -/
theorem simHandler_mon (env : SimEnv) (s : Sys) (now : Time) (h : s.isMon) :
    (simHandler env s 0 now).2.1 = [] ∧ (simHandler env s 0 now).2.2 = some 1 := by
  have hm := Sys.resume_mon s (env.oracle s) h
  rcases simHandler_cases env s 0 now with ⟨_, hc⟩ | ⟨_, hc1, hc2⟩
  · exfalso
    obtain ⟨p, hp, _, ha⟩ := h
    rw [hc p hp] at ha
    cases ha
  · rw [hc1, hc2, hm.1, hm.2]; simp

/-! ### one kernel step, as a relation on heaps -/

namespace KState

variable {σ : Type}

theorem pushInits_sub (ps : List Nat) (heap : List HEntry) (eid : Nat) (now : Time) (x : HEntry)
    (hx : x ∈ heap) : x ∈ (pushInits heap eid now ps).1 := by
  induction ps generalizing heap eid with
  | nil => exact hx
  | cons p ps ih => simp only [pushInits]; exact ih _ _ (List.mem_append_left _ hx)

theorem pushInits_mem (ps : List Nat) (heap : List HEntry) (eid : Nat) (now : Time) (x : HEntry)
    (hx : x ∈ (pushInits heap eid now ps).1) :
    x ∈ heap ∨ (x.time = now ∧ x.prio = 0 ∧ x.pid ∈ ps) := by
  induction ps generalizing heap eid with
  | nil => exact Or.inl hx
  | cons p ps ih =>
    simp only [pushInits] at hx
    rcases ih _ _ hx with h | ⟨h1, h2, h3⟩
    · rcases List.mem_append.mp h with h | h
      · exact Or.inl h
      · simp only [List.mem_singleton] at h
        subst h
        exact Or.inr ⟨rfl, rfl, List.mem_cons_self⟩
    · exact Or.inr ⟨h1, h2, List.mem_cons_of_mem _ h3⟩

theorem pushInits_fresh (ps : List Nat) (heap : List HEntry) (eid : Nat) (now : Time)
    (hlt : ∀ e ∈ heap, e.eid < eid) :
    (∀ e ∈ (pushInits heap eid now ps).1, e.eid < (pushInits heap eid now ps).2) ∧
    eid ≤ (pushInits heap eid now ps).2 := by
  induction ps generalizing heap eid with
  | nil => exact ⟨hlt, Nat.le_refl _⟩
  | cons p ps ih =>
    simp only [pushInits]
    have hlt' : ∀ e ∈ heap ++ [(⟨now, 0, eid, p⟩ : HEntry)], HEntry.eid e < eid + 1 := by
      intro e he
      rcases List.mem_append.mp he with he | he
      · have := hlt e he; omega
      · simp only [List.mem_singleton] at he; subst he; simp
    obtain ⟨h2, h3⟩ := ih (heap ++ [⟨now, 0, eid, p⟩]) (eid + 1) hlt'
    exact ⟨h2, by omega⟩

theorem peek_spec (k : KState σ) (e : HEntry) (h : k.peek = some e) :
    e ∈ k.heap ∧ ∀ x ∈ k.heap, x.lt e = false := by
  rw [peek_eq] at h
  exact foldl_peekF_none k.heap e h

/-- what one step does to the heap: the popped entry goes, the spawned
processes enter URGENT at the current time, the yielded timeout enters NORMAL
with a fresh id -/
theorem step_spec (h : Handler σ) (k k' : KState σ) (e : HEntry) (hp : k.peek = some e)
    (hs : k.step h = some k') (hfresh : ∀ x ∈ k.heap, x.eid < k.eid) :
    k'.st = (h k.st e.pid e.time).1 ∧
    (∀ x ∈ k.heap.erase e, x ∈ k'.heap) ∧
    (∀ x ∈ k'.heap, x.eid < k'.eid) ∧
    ∃ eid2, k.eid ≤ eid2 ∧
      (∀ x ∈ k'.heap, x ∈ k.heap.erase e ∨
        (x.time = e.time ∧ x.prio = 0 ∧ x.pid ∈ (h k.st e.pid e.time).2.1) ∨
        (∃ d, (h k.st e.pid e.time).2.2 = some d ∧ x = ⟨e.time + d, 1, eid2, e.pid⟩)) ∧
      (∀ d, (h k.st e.pid e.time).2.2 = some d → ⟨e.time + d, 1, eid2, e.pid⟩ ∈ k'.heap) := by
  rw [step_eq h k e hp] at hs
  have hf1 : ∀ x ∈ k.heap.erase e, x.eid < k.eid := fun x hx => hfresh x (List.mem_of_mem_erase hx)
  obtain ⟨hP1, hP2⟩ := pushInits_fresh (h k.st e.pid e.time).2.1 (k.heap.erase e) k.eid e.time hf1
  have hsub := pushInits_sub (h k.st e.pid e.time).2.1 (k.heap.erase e) k.eid e.time
  have hmem := pushInits_mem (h k.st e.pid e.time).2.1 (k.heap.erase e) k.eid e.time
  cases hy : (h k.st e.pid e.time).2.2 with
  | none =>
    simp only [hy] at hs
    cases hs
    refine ⟨rfl, hsub, hP1, _, hP2, ?_, ?_⟩
    · intro x hx
      rcases hmem x hx with h1 | h1
      · exact Or.inl h1
      · exact Or.inr (Or.inl h1)
    · intro d hd; cases hd
  | some d =>
    simp only [hy] at hs
    cases hs
    refine ⟨rfl, fun x hx => List.mem_append_left _ (hsub x hx), ?_, _, hP2, ?_, ?_⟩
    · intro x hx
      rcases List.mem_append.mp hx with hx | hx
      · have := hP1 x hx; simp only; omega
      · simp only [List.mem_singleton] at hx; subst hx; simp
    · intro x hx
      rcases List.mem_append.mp hx with hx | hx
      · rcases hmem x hx with h1 | h1
        · exact Or.inl h1
        · exact Or.inr (Or.inl h1)
      · simp only [List.mem_singleton] at hx
        exact Or.inr (Or.inr ⟨d, rfl, hx⟩)
    · intro d' hd
      cases hd
      exact List.mem_append_right _ (List.mem_singleton.mpr rfl)

end KState

/-! ### the invariant -/

open KState

/-- **The monitor comes first.**  There is a heap entry `m` for the monitor
(pid 0) such that every other entry `x` whose process is not a `do_work` body
is either still pending at the instant just before `m` (`x.time + 1 = m.time`:
the monitor has already run at that instant and waits for the next one), or is
scheduled at the monitor's own time, *after* the monitor in the event order. -/
structure MonFirst (k : SimState) : Prop where
  mon : k.st.isMon
  fresh : ∀ x ∈ k.heap, x.eid < k.eid
  first : ∃ m ∈ k.heap, m.pid = 0 ∧ m.prio ≤ 1 ∧
    ∀ x ∈ k.heap, x ≠ m → ¬ k.st.isDW x.pid →
      (x.time + 1 = m.time ∨ (x.time = m.time ∧ m.lt x = true))

theorem MonFirst.step (env : SimEnv) (k k' : SimState) (inv : MonFirst k)
    (hs : k.step (simHandler env) = some k') : MonFirst k' := by
  cases hp : k.peek with
  | none => simp [KState.step, hp] at hs
  | some e =>
    obtain ⟨he, hleast⟩ := peek_spec k e hp
    obtain ⟨hst, hkeep, hfresh', eid2, heid2, hnew, hto⟩ :=
      step_spec (simHandler env) k k' e hp hs inv.fresh
    obtain ⟨m, hm, hmpid, hmprio, hfirst⟩ := inv.first
    have hmon' : k'.st.isMon := by rw [hst]; exact simHandler_isMon env _ _ _ inv.mon
    have hdw' : ∀ X, ¬ k'.st.isDW X → ¬ k.st.isDW X := by
      intro X hX hd
      apply hX
      rw [hst]
      exact simHandler_isDW env _ _ _ X hd
    refine ⟨hmon', hfresh', ?_⟩
    by_cases hem : e = m
    · -- the monitor itself is resumed: nothing at an earlier position was left
      subst hem
      have hmm := simHandler_mon env k.st e.time inv.mon
      rw [hmpid] at hnew hto
      rw [hmm.1, hmm.2] at hnew
      rw [hmm.2] at hto
      refine ⟨⟨e.time + 1, 1, eid2, 0⟩, hto 1 rfl, rfl, Nat.le_refl _, ?_⟩
      intro x hx hxm hxdw
      rcases hnew x hx with h1 | ⟨_, _, h1⟩ | ⟨d, hd, hxd⟩
      · left
        show x.time + 1 = e.time + 1
        have hxh : x ∈ k.heap := List.mem_of_mem_erase h1
        by_cases hxe : x = e
        · rw [hxe]
        · rcases hfirst x hxh hxe (hdw' _ hxdw) with h2 | ⟨h2, _⟩
          · exfalso
            have := hleast x hxh
            rw [lt_false_iff] at this
            grind
          · rw [h2]
      · cases h1
      · cases hd
        exact absurd hxd hxm
    · -- another event: the monitor's entry stays where it is
      have hmk : m ∈ k'.heap := hkeep m ((List.mem_erase_of_ne (Ne.symm hem)).mpr hm)
      refine ⟨m, hmk, hmpid, hmprio, ?_⟩
      -- if the popped event is an ordinary process, the monitor has already run at this instant
      have hpos : ¬ k.st.isDW e.pid → e.time + 1 = m.time := by
        intro hedw
        rcases hfirst e he hem hedw with h2 | ⟨_, h2⟩
        · exact h2
        · rw [hleast m hm] at h2; cases h2
      intro x hx hxm hxdw
      rcases hnew x hx with h1 | ⟨h1, _, h2⟩ | ⟨d, hd, hxd⟩
      · exact hfirst x (List.mem_of_mem_erase h1) hxm (hdw' _ hxdw)
      · left
        by_cases hedw : k.st.isDW e.pid
        · rw [simHandler_quiet env k.st e.pid e.time hedw] at h2; cases h2
        · rw [h1]; exact hpos hedw
      · have hedw : ¬ k.st.isDW e.pid := by
          have := hdw' _ hxdw
          rw [hxd] at this
          exact this
        have hme : m.eid < eid2 := Nat.lt_of_lt_of_le (inv.fresh m hm) heid2
        have ht := hpos hedw
        rcases simHandler_unit env k.st e.pid e.time hedw d hd with h1 | h1
        · right
          subst h1 hxd
          refine ⟨ht, ?_⟩
          rw [lt_iff]
          simp only
          right
          refine ⟨ht.symm, ?_⟩
          omega
        · left
          subst h1 hxd
          simp only
          grind

/-- Reading of the invariant at the moment an event is popped: if the next
event belongs to a process that is not a `do_work` body, then it is the
monitor's own wake-up, or the monitor has already been resumed at this very
instant (its next wake-up is one step later). -/
theorem MonFirst.next (k : SimState) (inv : MonFirst k) (e : HEntry) (hp : k.peek = some e)
    (hdw : ¬ k.st.isDW e.pid) :
    ∃ m ∈ k.heap, m.pid = 0 ∧ (e = m ∨ m.time = e.time + 1) := by
  obtain ⟨he, hleast⟩ := peek_spec k e hp
  obtain ⟨m, hm, hmpid, _, hfirst⟩ := inv.first
  refine ⟨m, hm, hmpid, ?_⟩
  by_cases hem : e = m
  · exact Or.inl hem
  · right
    rcases hfirst e he hem hdw with h2 | ⟨_, h2⟩
    · exact h2.symm
    · rw [hleast m hm] at h2; cases h2

/-- … and every process that is started or rescheduled meanwhile comes after
the monitor: no entry of a process other than a `do_work` body precedes the
monitor's entry at the monitor's own time. -/
theorem MonFirst.none_before (k : SimState) (inv : MonFirst k) :
    ∃ m ∈ k.heap, m.pid = 0 ∧ ∀ x ∈ k.heap, x ≠ m → ¬ k.st.isDW x.pid → x.time = m.time →
      m.lt x = true := by
  obtain ⟨m, hm, hmpid, _, hfirst⟩ := inv.first
  refine ⟨m, hm, hmpid, ?_⟩
  intro x hx hxm hxdw ht
  rcases hfirst x hx hxm hxdw with h2 | ⟨_, h2⟩
  · exfalso; grind
  · exact h2

/-! ### it holds initially and along every run -/

theorem Sys.start_isMon (s : Sys) (h1 : s.procs = []) (h2 : s.nextPid = 0) : s.start.isMon := by
  simp [Sys.start, Sys.isMon, Sys.spawn, Sys.proc?, h1, h2]

theorem SimState.start_heap (s : Sys) :
    (SimState.start s).heap =
      [⟨0, 0, 0, 0⟩, ⟨0, 0, 1, 1⟩, ⟨0, 0, 2, 2⟩, ⟨0, 0, 3, 3⟩, ⟨0, 0, 4, 4⟩] ∧
    (SimState.start s).eid = 5 := by
  have : List.range 5 = [0, 1, 2, 3, 4] := by decide
  simp [SimState.start, this, pushInits]

theorem MonFirst.init (s : Sys) (h1 : s.procs = []) (h2 : s.nextPid = 0) :
    MonFirst (SimState.start s) := by
  obtain ⟨hh, he⟩ := SimState.start_heap s
  refine ⟨Sys.start_isMon s h1 h2, ?_, ⟨0, 0, 0, 0⟩, ?_, rfl, by simp, ?_⟩
  · intro x hx
    rw [hh] at hx
    rw [he]
    simp only [List.mem_cons, List.not_mem_nil, or_false] at hx
    rcases hx with rfl | rfl | rfl | rfl | rfl <;> simp
  · rw [hh]; simp
  · intro x hx hne _
    rw [hh] at hx
    simp only [List.mem_cons, List.not_mem_nil, or_false] at hx
    rcases hx with rfl | rfl | rfl | rfl | rfl
    · exact absurd rfl hne
    all_goals right; simp [HEntry.lt]

theorem MonFirst.collate (k : SimState) (inv : MonFirst k) :
    MonFirst { k with st := k.st.collate } :=
  ⟨inv.mon, inv.fresh, inv.first⟩

theorem MonFirst.runsTo (env : SimEnv) (u : Time) (k k' : SimState) (inv : MonFirst k)
    (hr : RunsTo (simHandler env) u k k') : MonFirst k' := by
  induction hr with
  | idle k _ => exact inv
  | stop k e _ _ => exact inv
  | step k k1 k2 e _ _ hs _ ih => exact ih (MonFirst.step env k k1 inv hs)

theorem MonFirst.runUntil (env : SimEnv) (u : Time) (fuel : Nat) (k : SimState)
    (inv : MonFirst k) : MonFirst (SimState.runUntil env u fuel k) := by
  induction fuel generalizing k with
  | zero => exact inv
  | succ n ih =>
    unfold SimState.runUntil
    repeat' split
    all_goals first
      | exact inv
      | (rename_i k1 hs; exact ih k1 (MonFirst.step env k k1 inv hs))

/-- the invariant holds at every event of `start(runtime=u)` and of every
later `resume(until=v)` -/
theorem MonFirst.startUntil (env : SimEnv) (s : Sys) (u fuel : Nat) (h1 : s.procs = [])
    (h2 : s.nextPid = 0) : MonFirst (SimState.startUntil env s u fuel) := by
  unfold SimState.startUntil
  have := MonFirst.runUntil env u fuel _ (MonFirst.init s h1 h2)
  simp only
  split
  · exact this
  · exact MonFirst.collate _ this

theorem MonFirst.resumeUntil (env : SimEnv) (k : SimState) (u fuel : Nat) (inv : MonFirst k) :
    MonFirst (SimState.resumeUntil env k u fuel) := by
  unfold SimState.resumeUntil
  have := MonFirst.runUntil env u fuel _ inv
  simp only
  split
  · exact this
  · exact MonFirst.collate _ this

end Topsim
