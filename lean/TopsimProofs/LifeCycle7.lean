/-
  LifeCycle7 — `bufAdded` is emitted at most once per observation: an observation has at most
  one ingest stream ever (created when it leaves WAITING), and the stream emits the event in its
  first block only.
-/
import TopsimProofs.LifeCycle6

namespace Topsim
namespace Sys

/-- the ingest streams: at most one per observation, only for observations that have left WAITING -/
structure LcStrI (s : Sys) : Prop where
  uniq : ∀ p ∈ s.procs, ∀ q ∈ s.procs, ∀ o tl tl', p.k = .ingestStream o tl → q.k = .ingestStream o tl' →
    p.pid = q.pid
  begun : ∀ p ∈ s.procs, ∀ o tl, p.k = .ingestStream o tl → Begun s.obs o

theorem start_procs (s0 : Sys) (hw : WFConfig s0) :
    s0.start.procs =
      [{ pid := 0, k := .monitor, wake := 0 }, { pid := 1, k := .telescope, wake := 0 },
       { pid := 2, k := .clusterLoop, wake := 0 }, { pid := 3, k := .schedLoop, wake := 0 },
       { pid := 4, k := .bufferLoop, wake := 0 }] := by
  obtain ⟨hprocs, hnp, _⟩ := hw.fresh
  simp [start, spawn, hprocs, hnp]

theorem start_strI (s0 : Sys) (hw : WFConfig s0) : LcStrI s0.start := by
  constructor
  · intro p hp q _ o tl tl' hk
    rw [start_procs s0 hw] at hp
    simp only [List.mem_cons, List.not_mem_nil, or_false] at hp
    rcases hp with rfl | rfl | rfl | rfl | rfl <;> simp at hk
  · intro p hp o tl hk
    rw [start_procs s0 hw] at hp
    simp only [List.mem_cons, List.not_mem_nil, or_false] at hp
    rcases hp with rfl | rfl | rfl | rfl | rfl <;> simp at hk

theorem resume_obsMonoS (s : Sys) (pid : Nat) (orc : Oracle) (p : Proc) (hp : s.proc? pid = some p)
    (ha : p.alive = true) : ObsMonoS s.obs (s.resume pid orc).1.obs := by
  rw [(resume_alive s pid orc p hp ha).2.2.2.2.2.1]
  exact block_obsMono s p orc

/-- the new streams of a step: none, or the one stream the ingest supervisor creates for its
observation when it takes it out of WAITING -/
theorem new_streams (s : Sys) (p : Proc) (orc : Oracle) {new : List Proc}
    (hnew : (s.block p orc).1.procs = s.procs ++ new) :
    (∀ q ∈ new, ∀ o tl, q.k ≠ .ingestStream o tl) ∨
    (∃ oid, ¬ Begun s.obs oid ∧ Begun (s.block p orc).1.obs oid ∧
      ∀ q ∈ new, ∀ o tl, q.k = .ingestStream o tl → o = oid ∧ q.pid = s.nextPid + 1) := by
  obtain ⟨new', hnew', hprops⟩ := block_newp s p orc
  have hnn : new' = new := List.append_cancel_left (hnew'.symm.trans hnew)
  subst hnn
  by_cases hk : ∃ oid tl0, p.k = .allocIngest oid tl0
  · obtain ⟨oid, tl0, hk⟩ := hk
    rw [block_allocIngest orc hk] at hnew ⊢
    rcases allocIngestBlock_procs s p.wake p.pc oid tl0 with h | ⟨ob, d, hob, hw, h, hbeg⟩
    · have : new' = [] := by
        have := List.append_cancel_left (hnew.symm.trans (h.trans (List.append_nil _).symm))
        exact this
      left; rw [this]; simp
    · right
      have hn : new' = [{ pid := s.nextPid, k := .provIngest oid d, wake := p.wake },
          { pid := s.nextPid + 1, k := .ingestStream oid 0, wake := p.wake }] :=
        List.append_cancel_left (hnew.symm.trans h)
      refine ⟨oid, ?_, hbeg, ?_⟩
      · rintro ⟨ob', hob', hst⟩
        have : s.obs? oid = some ob' := hob'
        rw [hob] at this; injection this with e
        subst e; exact hst hw
      · intro q hq o tl hqk
        rw [hn] at hq
        simp only [List.mem_cons, List.not_mem_nil, or_false] at hq
        rcases hq with rfl | rfl
        · simp at hqk
        · simp only [PK.ingestStream.injEq] at hqk
          exact ⟨hqk.1.symm, rfl⟩
  · left
    intro q hq o tl hqk
    have := (hprops q hq).2.2.2
    rw [hqk] at this
    cases hpk : p.k <;> rw [hpk] at this <;> simp [NewKind] at this
    exact hk ⟨_, _, hpk⟩

theorem strI_step {s : Sys} (hi : EInv s) (h : LcStrI s) {pid : Nat} (hen : s.enabled pid) (orc : Oracle) :
    LcStrI (s.resume pid orc).1 := by
  obtain ⟨p, hp, ha, hmin⟩ := hen
  obtain ⟨hpm, hpid⟩ := proc?_some hp
  obtain ⟨new, hnew, _⟩ := block_newp s p orc
  have hm := resume_memSpec hi hp ha hmin orc hnew
  have hobs := resume_obsMonoS s pid orc p hp ha
  have hobsEq : (s.resume pid orc).1.obs = (s.block p orc).1.obs := (resume_alive s pid orc p hp ha).2.2.2.2.2.1
  have hcls := (block_class s hi.pw p orc).1
  -- where a stream of the new table comes from
  have back : ∀ q ∈ (s.resume pid orc).1.procs, ∀ o tl, q.k = .ingestStream o tl →
      (∃ q0 ∈ s.procs, q0.pid = q.pid ∧ ∃ tl0, q0.k = .ingestStream o tl0) ∨ q ∈ new := by
    intro q hq o tl hqk
    rcases (hm q).mp hq with rfl | ⟨hq0, _⟩ | hqn
    · left
      simp only [fin_k] at hqk
      obtain ⟨tl0, hk0⟩ := (hcls o).mp ⟨tl, hqk⟩
      exact ⟨p, hpm, by simp, tl0, hk0⟩
    · exact Or.inl ⟨q, hq0, rfl, tl, hqk⟩
    · exact Or.inr hqn
  rcases new_streams s p orc hnew with hnone | ⟨oid, hnb, hb, hone⟩
  · constructor
    · intro q1 hq1 q2 hq2 o tl tl' hk1 hk2
      rcases back q1 hq1 o tl hk1 with ⟨a, ha1, hap, tla, hak⟩ | hn1
      · rcases back q2 hq2 o tl' hk2 with ⟨b, hb1, hbp, tlb, hbk⟩ | hn2
        · rw [← hap, ← hbp]; exact h.uniq a ha1 b hb1 o tla tlb hak hbk
        · exact absurd hk2 (hnone q2 hn2 o tl')
      · exact absurd hk1 (hnone q1 hn1 o tl)
    · intro q hq o tl hqk
      rcases back q hq o tl hqk with ⟨a, ha1, _, tla, hak⟩ | hn1
      · exact hobs o (h.begun a ha1 o tla hak)
      · exact absurd hqk (hnone q hn1 o tl)
  · constructor
    · intro q1 hq1 q2 hq2 o tl tl' hk1 hk2
      rcases back q1 hq1 o tl hk1 with ⟨a, ha1, hap, tla, hak⟩ | hn1 <;>
      rcases back q2 hq2 o tl' hk2 with ⟨b, hb1, hbp, tlb, hbk⟩ | hn2
      · rw [← hap, ← hbp]; exact h.uniq a ha1 b hb1 o tla tlb hak hbk
      · obtain ⟨e, _⟩ := hone q2 hn2 o tl' hk2
        subst e; exact absurd (h.begun a ha1 o tla hak) hnb
      · obtain ⟨e, _⟩ := hone q1 hn1 o tl hk1
        subst e; exact absurd (h.begun b hb1 o tlb hbk) hnb
      · rw [(hone q1 hn1 o tl hk1).2, (hone q2 hn2 o tl' hk2).2]
    · intro q hq o tl hqk
      rcases back q hq o tl hqk with ⟨a, ha1, _, tla, hak⟩ | hn1
      · exact hobs o (h.begun a ha1 o tla hak)
      · obtain ⟨e, _⟩ := hone q hn1 o tl hqk
        subst e; rw [hobsEq]; exact hb

theorem reach_strI (s0 s : Sys) (hw : WFConfig s0) (h : Reach s0 s) : LcStrI s := by
  induction h with
  | start => exact start_strI s0 hw
  | step s pid orc hr hen ih => exact strI_step (reach_einv s0 s hw hr) ih hen orc

/-! ### the event -/

/-- one block: at most one `bufAdded` per observation, and only from the first block of that
observation's stream, the observation having left WAITING -/
theorem block_bufAdded (s : Sys) (p : Proc) (orc : Oracle) (o : Oid) :
    evCount o .bufAdded (blockEvents s p orc) ≤ 1 ∧
    (1 ≤ evCount o .bufAdded (blockEvents s p orc) → (∃ tl, p.k = .ingestStream o tl) ∧ p.pc = 0 ∧
      (∃ ob, s.obs? o = some ob ∧ ob.status ≠ .waiting) ∧
      ∀ e ∈ blockEvents s p orc, e = ⟨natNow p.wake, o, .bufAdded⟩) := by
  by_cases hk : ∃ o' tl, p.k = .ingestStream o' tl
  · obtain ⟨o', tl, hk⟩ := hk
    rcases blockEvents_ingestStream (s := s) orc hk with h | ⟨h0, ob, hob, hw, h⟩
    · rw [h]; simp
    · rw [h, evCount_single]
      by_cases e : o' = o
      · subst e
        exact ⟨by simp, fun _ => ⟨⟨tl, hk⟩, h0, ⟨ob, hob, hw⟩, by simp⟩⟩
      · simp [e]
  · have : evCount o .bufAdded (blockEvents s p orc) = 0 := by
      apply evCount_zero_of_kind
      intro e he hkind
      rcases blockEvents_kinds s p orc e he with ⟨_, h⟩ | ⟨_, h⟩ | ⟨⟨tl, h⟩, _⟩ | ⟨_, h⟩ | ⟨_, h⟩
      · simp [hkind] at h
      · simp [hkind] at h
      · exact hk ⟨_, _, h⟩
      · simp [hkind] at h
      · simp [isTransfer, hkind] at h
    rw [this]; simp

structure BAInv (s : Sys) (evs : List Event) : Prop where
  le : ∀ o, evCount o .bufAdded evs ≤ 1
  ran : ∀ o, 1 ≤ evCount o .bufAdded evs → ∃ q ∈ s.procs, ∃ tl, q.k = .ingestStream o tl ∧ 1 ≤ q.pc

/-- a stream that has run is still there after a step, and has run -/
theorem stream_keep {s : Sys} (hi : EInv s) {pid : Nat} (hen : s.enabled pid) (orc : Oracle) (o : Oid)
    (h : ∃ q ∈ s.procs, ∃ tl, q.k = .ingestStream o tl ∧ 1 ≤ q.pc) :
    ∃ q ∈ (s.resume pid orc).1.procs, ∃ tl, q.k = .ingestStream o tl ∧ 1 ≤ q.pc := by
  obtain ⟨p, hp, ha, hmin⟩ := hen
  obtain ⟨hpm, hpid⟩ := proc?_some hp
  obtain ⟨new, hnew, _⟩ := block_newp s p orc
  have hm := resume_memSpec hi hp ha hmin orc hnew
  obtain ⟨q, hq, tl, hqk, hqc⟩ := h
  rcases hm.old hi.pw hpm hq with rfl | hq'
  · obtain ⟨tl', hk'⟩ := ((block_class s hi.pw q orc).1 o).mpr ⟨tl, hqk⟩
    exact ⟨_, (hm _).mpr (Or.inl rfl), tl', by simp [hk'], by simp⟩
  · exact ⟨q, hq', tl, hqk, hqc⟩

theorem baInv_step {s : Sys} {evs : List Event} (hi : EInv s) (hs : LcStrI s) (h : BAInv s evs) {pid : Nat}
    (hen : s.enabled pid) (orc : Oracle) : BAInv (s.resume pid orc).1 (evs ++ s.stepEvents pid orc) := by
  have hkeep := stream_keep hi hen orc
  obtain ⟨p, hp, ha, hmin⟩ := hen
  obtain ⟨hpm, hpid⟩ := proc?_some hp
  obtain ⟨new, hnew, _⟩ := block_newp s p orc
  have hm := resume_memSpec hi hp ha hmin orc hnew
  rw [stepEvents_alive orc hp ha]
  have key : ∀ o, 1 ≤ evCount o .bufAdded (blockEvents s p orc) → evCount o .bufAdded evs = 0 := by
    intro o h1
    obtain ⟨⟨tl, hk⟩, hpc, _⟩ := (block_bufAdded s p orc o).2 h1
    cases hc : evCount o .bufAdded evs with
    | zero => rfl
    | succ n =>
      obtain ⟨q, hq, tl', hqk, hqc⟩ := h.ran o (by omega)
      have : q = p := hi.pw.eq_of_pid hq hpm (hs.uniq q hq p hpm o tl' tl hqk hk)
      subst this; omega
  constructor
  · intro o
    rw [evCount_append]
    have h1 := h.le o
    have h2 := (block_bufAdded s p orc o).1
    by_cases h3 : 1 ≤ evCount o .bufAdded (blockEvents s p orc)
    · have := key o h3; omega
    · omega
  · intro o hge
    rw [evCount_append] at hge
    by_cases h3 : 1 ≤ evCount o .bufAdded (blockEvents s p orc)
    · obtain ⟨⟨tl, hk⟩, _, _⟩ := (block_bufAdded s p orc o).2 h3
      obtain ⟨tl', hk'⟩ := ((block_class s hi.pw p orc).1 o).mpr ⟨tl, hk⟩
      exact ⟨_, (hm _).mpr (Or.inl rfl), tl', by simp [hk'], by simp⟩
    · exact hkeep o (h.ran o (by omega))

theorem reachEv_bufAdded {s0 s : Sys} {evs : List Event} (hw : WFConfig s0) (h : ReachEv s0 s evs) :
    BAInv s evs := by
  induction h with
  | start => exact ⟨by simp, by simp⟩
  | step s evs pid orc hr hen ih =>
    exact baInv_step (reach_einv s0 s hw hr.toReach) (reach_strI s0 s hw hr.toReach) ih hen orc

end Sys
end Topsim
