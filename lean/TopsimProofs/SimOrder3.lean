/-
  SimOrder3 — which pending list a block appends to, the fixed pids of the three
  loops that empty a pending list, and the origin of the processes of these kinds
  after one block.

  * only the telescope appends to `telEvents`;
  * only the scheduler loop and the `allocate_tasks` processes append to `schEvents`;
  * the monitor is pid 0, the telescope pid 1, the scheduler loop pid 3, for ever.
-/
import TopsimProofs.SimOrder2

namespace Topsim

open KState Sys

namespace Sys

/-! ### where the events of a block land -/

theorem so_block_ev3 (s : Sys) (p : Proc) (orc : Oracle) (hk : p.k ≠ .monitor) :
    ∃ t c u, Ev3 (s.preClear p.k) (s.block p orc).1 t c u ∧
      (p.k ≠ .telescope → t = []) ∧
      (p.k ≠ .schedLoop → (∀ o sc pa po fn, p.k ≠ .allocTasks o sc pa po fn) → c = []) := by
  cases hkk : p.k with
  | monitor => exact absurd hkk hk
  | telescope =>
    obtain ⟨L, hL⟩ := telescopeBlock_ev3 s p.wake
    refine ⟨L, [], [], ?_, fun h => absurd rfl h, fun _ _ => rfl⟩
    rw [block_telescope orc hkk]; exact hL
  | clusterLoop =>
    refine ⟨[], [], [], ?_, fun _ => rfl, fun _ _ => rfl⟩
    rw [preClear_other (by simp) (by simp), block_clusterLoop orc hkk]; exact Ev3.of_eq rfl rfl rfl
  | schedLoop =>
    rcases schedLoopBlock_ev3 s p.wake orc with ⟨h, _⟩ | ⟨oid, ob, h, _⟩
    · refine ⟨[], [], [], ?_, fun _ => rfl, fun _ _ => rfl⟩
      rw [block_schedLoop orc hkk]; exact h
    · refine ⟨[], [⟨natNow p.wake, oid, .queueAdded⟩], [], ?_, fun _ => rfl, fun h => absurd rfl h⟩
      rw [block_schedLoop orc hkk]; exact h
  | bufferLoop =>
    refine ⟨[], [], [], ?_, fun _ => rfl, fun _ _ => rfl⟩
    rw [preClear_other (by simp) (by simp), block_bufferLoop orc hkk]; exact bufferLoopBlock_ev3 _ _
  | allocIngest o tl =>
    refine ⟨[], [], [], ?_, fun _ => rfl, fun _ _ => rfl⟩
    rw [preClear_other (by simp) (by simp), block_allocIngest orc hkk]; exact allocIngestBlock_ev3 _ _ _ _ _
  | provIngest o d =>
    refine ⟨[], [], [], ?_, fun _ => rfl, fun _ _ => rfl⟩
    rw [preClear_other (by simp) (by simp), block_provIngest orc hkk]; exact provIngestBlock_ev3 _ _ _ _ _
  | ingestStream o tl =>
    rcases ingestStreamBlock_ev3 s p.wake p.pc o tl with h | ⟨_, _, _, _, h⟩
    · refine ⟨[], [], [], ?_, fun _ => rfl, fun _ _ => rfl⟩
      rw [preClear_other (by simp) (by simp), block_ingestStream orc hkk]; exact h
    · refine ⟨[], [], [⟨natNow p.wake, o, .bufAdded⟩], ?_, fun _ => rfl, fun _ _ => rfl⟩
      rw [preClear_other (by simp) (by simp), block_ingestStream orc hkk]; exact h
  | allocTask t m preds obs ing ret =>
    refine ⟨[], [], [], ?_, fun _ => rfl, fun _ _ => rfl⟩
    rw [preClear_other (by simp) (by simp), block_allocTask orc hkk]; exact allocTaskBlock_ev3 _ _ _ _ _ _ _ _
  | doWork t m preds ph tot =>
    refine ⟨[], [], [], ?_, fun _ => rfl, fun _ _ => rfl⟩
    rw [preClear_other (by simp) (by simp), block_doWork orc hkk]; exact doWorkBlock_ev3 _ _ _ _ _ _ _ _
  | allocTasks o sc pa po fn =>
    rw [preClear_other (by simp) (by simp)]
    rcases blockEvents_allocTasks (s := s) orc hkk with ⟨_, _, hb⟩ | ⟨_, c, u, hat, _⟩
    · refine ⟨[], [], [], ?_, fun _ => rfl, fun _ h => absurd rfl (h o sc pa po fn)⟩
      rw [hb]; exact Ev3.refl _
    · have h0 := atStart_ev3 s p.wake p.pc o
      have h1 : Ev3 (atStart s p.wake p.pc o) (s.block p orc).1 [] c u := by
        generalize s.block p orc = r at hat
        cases hat with
        | quiet X k y sc pa po h _ _ _ => exact h
        | finish X sc pa po h _ _ _ _ => exact h
        | finishBad X sc pa po e h _ _ _ _ => exact h
        | finishWait X sc pa po h _ _ _ => exact h
      refine ⟨[], (if p.pc = 0 then [⟨natNow p.wake, o, .allocStarted⟩] else []) ++ c, u, ?_, fun _ => rfl,
        fun _ h => absurd rfl (h o sc pa po fn)⟩
      simpa using h0.trans h1
  | hot2cold cur =>
    obtain ⟨u, hu, _⟩ := hot2coldBlock_ev3 s p.wake cur
    refine ⟨[], [], u, ?_, fun _ => rfl, fun _ _ => rfl⟩
    rw [preClear_other (by simp) (by simp), block_hot2cold orc hkk]; exact hu
  | cold2hot cur =>
    obtain ⟨u, hu, _⟩ := cold2hotBlock_ev3 s p.wake cur
    refine ⟨[], [], u, ?_, fun _ => rfl, fun _ _ => rfl⟩
    rw [preClear_other (by simp) (by simp), block_cold2hot orc hkk]; exact hu

/-- `stepEvents_spec`, with the list each part lands in -/
theorem so_stepEvents_spec (s : Sys) (pid : Nat) (orc : Oracle) (p : Proc) (hp : s.proc? pid = some p)
    (ha : p.alive = true) (hk : p.k ≠ .monitor) :
    ∃ t c u, s.stepEvents pid orc = t ++ c ++ u ∧
      (s.resume pid orc).1.telEvents = (if p.k = .telescope then [] else s.telEvents) ++ t ∧
      (s.resume pid orc).1.schEvents = (if p.k = .schedLoop then [] else s.schEvents) ++ c ∧
      (s.resume pid orc).1.bufEvents = s.bufEvents ++ u ∧
      (s.resume pid orc).1.log = s.log ∧
      (p.k ≠ .telescope → t = []) ∧
      (p.k ≠ .schedLoop → (∀ o sc pa po fn, p.k ≠ .allocTasks o sc pa po fn) → c = []) := by
  obtain ⟨_, h2, h3, h4, h5, _⟩ := resume_alive s pid orc p hp ha
  have hf := (frame_block s p orc hk).1
  obtain ⟨t, c, u, hev, ht, hc⟩ := so_block_ev3 s p orc hk
  refine ⟨t, c, u, ?_, ?_, ?_, ?_, ?_, ht, hc⟩
  · rw [stepEvents_alive orc hp ha]; exact blockEvents_of_ev3 hev
  · rw [h3, hev.tel, preClear_tel]
  · rw [h4, hev.sch, preClear_sch]
  · rw [h5, hev.buf, preClear_buf]
  · rw [h2, hf.log, preClear_log]

/-! ### the three loops keep their pids -/

def SoLoops (s : Sys) : Prop :=
  ∀ p ∈ s.procs, (p.k = .monitor → p.pid = 0) ∧ (p.k = .telescope → p.pid = 1) ∧
    (p.k = .schedLoop → p.pid = 3)

theorem so_block_loopKind (s : Sys) (hpw : PW s) (p : Proc) (orc : Oracle) :
    ((s.block p orc).2.1 = .monitor → p.k = .monitor) ∧
    ((s.block p orc).2.1 = .telescope → p.k = .telescope) ∧
    ((s.block p orc).2.1 = .schedLoop → p.k = .schedLoop) := by
  have htag := block_tag s hpw p orc
  refine ⟨?_, ?_, ?_⟩ <;>
  · intro h
    rw [h] at htag
    cases hk : p.k <;> rw [hk] at htag <;> simp [PK.tag] at htag

theorem so_newKind_loop {a b : PK} (h : NewKind a b) :
    b ≠ .monitor ∧ b ≠ .telescope ∧ b ≠ .schedLoop := by
  refine ⟨?_, ?_, ?_⟩ <;>
  · intro hb
    subst hb
    cases a <;> simp [NewKind] at h

theorem so_newKind_allocTasks {a : PK} {o sc pa po fn} (h : NewKind a (.allocTasks o sc pa po fn)) :
    a = .schedLoop := by
  cases a <;> simp [NewKind] at h
  rfl

/-- the processes of a loop kind after a block: the process that ran, if it has that kind, or an
unchanged old one -/
theorem so_loop_origin {s : Sys} (hi : EInv s) {pid : Nat} {p : Proc} (hp : s.proc? pid = some p)
    (ha : p.alive = true) (hmin : ∀ q ∈ s.procs, q.alive = true → p.wake ≤ q.wake) (orc : Oracle)
    {q' : Proc} (hq' : q' ∈ (s.resume pid orc).1.procs)
    (hl : q'.k = .monitor ∨ q'.k = .telescope ∨ q'.k = .schedLoop) :
    (q' = fin (s.block p orc).2.1 (s.block p orc).2.2 p.wake p ∧ p.k = q'.k) ∨
    (q' ∈ s.procs ∧ q'.pid ≠ pid) := by
  obtain ⟨m1, _, _⟩ := so_resume_origin hi hp ha hmin orc
  obtain ⟨l1, l2, l3⟩ := so_block_loopKind s hi.pw p orc
  rcases m1 q' hq' with hh | hh | ⟨_, hnk⟩
  · left
    refine ⟨hh, ?_⟩
    have hk' : q'.k = (s.block p orc).2.1 := by rw [hh, fin_k]
    rcases hl with h | h | h
    · rw [h]; exact l1 (by rw [← hk', h])
    · rw [h]; exact l2 (by rw [← hk', h])
    · rw [h]; exact l3 (by rw [← hk', h])
  · exact Or.inr hh
  · exfalso
    obtain ⟨n1, n2, n3⟩ := so_newKind_loop hnk
    rcases hl with h | h | h
    · exact n1 h
    · exact n2 h
    · exact n3 h

theorem so_loops_step {s : Sys} (hi : EInv s) (h : SoLoops s) {pid : Nat} (hen : s.enabled pid)
    (orc : Oracle) : SoLoops (s.resume pid orc).1 := by
  obtain ⟨p, hp, ha, hmin⟩ := hen
  obtain ⟨hpm, hpid⟩ := proc?_some hp
  have key : ∀ q' ∈ (s.resume pid orc).1.procs,
      (q'.k = .monitor ∨ q'.k = .telescope ∨ q'.k = .schedLoop) →
      ∃ q ∈ s.procs, q.k = q'.k ∧ q.pid = q'.pid := by
    intro q' hq' hl
    rcases so_loop_origin hi hp ha hmin orc hq' hl with ⟨hq, hk⟩ | ⟨hq, _⟩
    · exact ⟨p, hpm, hk, by rw [hq]; simp⟩
    · exact ⟨q', hq, rfl, rfl⟩
  intro q' hq'
  refine ⟨?_, ?_, ?_⟩
  · intro hk
    obtain ⟨q, hq, hqk, hqp⟩ := key q' hq' (Or.inl hk)
    rw [← hqp]; exact (h q hq).1 (hqk.trans hk)
  · intro hk
    obtain ⟨q, hq, hqk, hqp⟩ := key q' hq' (Or.inr (Or.inl hk))
    rw [← hqp]; exact (h q hq).2.1 (hqk.trans hk)
  · intro hk
    obtain ⟨q, hq, hqk, hqp⟩ := key q' hq' (Or.inr (Or.inr hk))
    rw [← hqp]; exact (h q hq).2.2 (hqk.trans hk)

theorem so_loops_start (s0 : Sys) (hw : WFConfig s0) : SoLoops s0.start := by
  intro p hp
  rw [start_procs s0 hw] at hp
  simp only [List.mem_cons, List.not_mem_nil, or_false] at hp
  rcases hp with rfl | rfl | rfl | rfl | rfl <;> simp

end Sys

end Topsim
