/-
  DelayTraj2 — what the blocks of every process other than a task body do to the
  delay fields of a task record (`delay_flag`, `delay_offset`): only
  `Task.update_allocation` (called by `_process_current_schedule`) writes them,
  and only to raise them.  The per-record facts `DRec`.
-/
import TopsimProofs.DelayTraj1
import TopsimProofs.SpanTraj5

namespace Topsim
namespace Sys

/-! ### a step relation on the table of records, with a predicate for the new records -/

/-- old records are in relation `R` with their later selves; records of new ids satisfy `F` -/
structure TStep2 (R : TaskRec → TaskRec → Prop) (F : TaskRec → Prop) (s X : Sys) : Prop where
  fwd : ∀ t r, s.task? t = some r → ∃ r', X.task? t = some r' ∧ R r r'
  fresh : ∀ t r', s.task? t = none → X.task? t = some r' → F r'

theorem TStep2.bwd {R F} {s X : Sys} (h : TStep2 R F s X) {t : Tid} {r' : TaskRec}
    (hr : X.task? t = some r') :
    (∃ r, s.task? t = some r ∧ R r r') ∨ (s.task? t = none ∧ F r') := by
  cases h0 : s.task? t with
  | none => exact Or.inr ⟨rfl, h.fresh t r' h0 hr⟩
  | some r =>
    obtain ⟨r1, h1, h2⟩ := h.fwd t r h0
    rw [hr] at h1
    injection h1 with h1
    subst h1
    exact Or.inl ⟨r, rfl, h2⟩

theorem TStep2.of_eq {R F} (hrefl : ∀ r, R r r) {s X : Sys} (h : X.tasks = s.tasks) : TStep2 R F s X := by
  have : ∀ t, X.task? t = s.task? t := fun t => by unfold task?; rw [h]
  exact ⟨fun t r hr => ⟨r, by rw [this]; exact hr, hrefl r⟩,
    fun t r' h0 h1 => by rw [this, h0] at h1; exact absurd h1 (by simp)⟩

theorem TStep2.trans {R F} (htrans : ∀ a b c, R a b → R b c → R a c)
    (hfr : ∀ a b, F a → R a b → F b) {a b c : Sys}
    (h1 : TStep2 R F a b) (h2 : TStep2 R F b c) : TStep2 R F a c := by
  constructor
  · intro t r hr
    obtain ⟨r1, g1, g2⟩ := h1.fwd t r hr
    obtain ⟨r2, g3, g4⟩ := h2.fwd t r1 g1
    exact ⟨r2, g3, htrans _ _ _ g2 g4⟩
  · intro t r' h0 hc
    cases hb : b.task? t with
    | none => exact h2.fresh t r' hb hc
    | some r1 =>
      obtain ⟨r2, g3, g4⟩ := h2.fwd t r1 hb
      rw [hc] at g3
      injection g3 with g3
      subst g3
      exact hfr _ _ (h1.fresh t r1 h0 hb) g4

theorem TStep2.updTask {R F} (hrefl : ∀ r, R r r) (s : Sys) (t0 : Tid) (f : TaskRec → TaskRec)
    (hid : ∀ r, (f r).id = r.id) (hR : ∀ r, R r (f r)) : TStep2 R F s (s.updTask t0 f) := by
  constructor
  · intro t r hr
    rw [task?_updTask s t0 t f hid, hr]
    refine ⟨_, rfl, ?_⟩
    simp only
    split
    · exact hR r
    · exact hrefl r
  · intro t r' h0 h1
    rw [task?_updTask s t0 t f hid, h0] at h1
    exact absurd h1 (by simp)

theorem TStep2.append {R F} (hrefl : ∀ r, R r r) (s X : Sys) (recs : List TaskRec)
    (h : X.tasks = s.tasks ++ recs) (hrecs : ∀ r ∈ recs, F r) : TStep2 R F s X := by
  constructor
  · intro t r hr
    exact ⟨r, by rw [task?_append s X recs h, hr], hrefl r⟩
  · intro t r' h0 h1
    rw [task?_append s X recs h, h0] at h1
    exact hrecs r' (List.mem_of_find?_eq_some h1)

theorem TStep2.of_tasks_eq {R F} {s X Y : Sys} (h : TStep2 R F s X) (e : Y.tasks = X.tasks) : TStep2 R F s Y := by
  have : ∀ t, Y.task? t = X.task? t := fun t => by unfold task?; rw [e]
  exact ⟨fun t r hr => by rw [this]; exact h.fwd t r hr, fun t r' h0 h1 => h.fresh t r' h0 (by rw [← this]; exact h1)⟩

/-! ### the delay fields of one record -/

/-- the nominal duration of the body of record `r` on machine `mm`: the runtime of its work, or the
planned duration of a record without work -/
def nomOf (r : TaskRec) (mm : Machine) : Nat :=
  if 0 < r.flops ∨ 0 < r.data then max (r.flops / mm.cpu) (r.data / mm.bw) else r.duration

/-- what every block other than a task body's may do to a record -/
structure TDel (r r' : TaskRec) : Prop where
  id : r'.id = r.id
  flops : r'.flops = r.flops
  data : r'.data = r.data
  ast : r'.ast = r.ast
  aft : r'.aft = r.aft
  eft : r'.eft = r.eft
  obj : r.allocObj = true → r'.allocObj = true
  wdur : r.flops = 0 → r.data = 0 →
    r'.duration = r.duration ∧ r'.delayOffset = r.delayOffset ∧ r'.delayFlag = r.delayFlag
  /-- nothing happens to the delay fields and the duration, or `update_allocation` has lengthened -/
  chg : (r'.duration = r.duration ∧ r'.delayOffset = r.delayOffset ∧ r'.delayFlag = r.delayFlag) ∨
    (r'.delayFlag = true ∧ r'.allocObj = true ∧ 0 < r'.delayOffset)

theorem TDel.refl (r : TaskRec) : TDel r r :=
  ⟨rfl, rfl, rfl, rfl, rfl, rfl, fun h => h, fun _ _ => ⟨rfl, rfl, rfl⟩, Or.inl ⟨rfl, rfl, rfl⟩⟩

theorem TDel.trans {a b c : TaskRec} (h1 : TDel a b) (h2 : TDel b c) : TDel a c := by
  refine ⟨h2.id.trans h1.id, h2.flops.trans h1.flops, h2.data.trans h1.data, h2.ast.trans h1.ast,
    h2.aft.trans h1.aft, h2.eft.trans h1.eft, fun h => h2.obj (h1.obj h), ?_, ?_⟩
  · intro h0 h0'
    obtain ⟨a1, a2, a3⟩ := h1.wdur h0 h0'
    obtain ⟨b1, b2, b3⟩ := h2.wdur (h1.flops.trans h0) (h1.data.trans h0')
    exact ⟨b1.trans a1, b2.trans a2, b3.trans a3⟩
  · rcases h2.chg with ⟨b1, b2, b3⟩ | hb
    · rcases h1.chg with ⟨a1, a2, a3⟩ | ⟨a1, a2, a3⟩
      · exact Or.inl ⟨b1.trans a1, b2.trans a2, b3.trans a3⟩
      · exact Or.inr ⟨by rw [b3]; exact a1, h2.obj a2, by rw [b2]; exact a3⟩
    · exact Or.inr hb

theorem nomOf_tdel {r r' : TaskRec} (h : TDel r r') (mm : Machine) : nomOf r' mm = nomOf r mm := by
  unfold nomOf
  rw [h.flops, h.data]
  split
  · rfl
  · rename_i hw
    have h0 : r.flops = 0 := by omega
    have h0' : r.data = 0 := by omega
    exact (h.wdur h0 h0').1

/-- an update that touches none of the fields `TDel` speaks of -/
theorem tdel_status (st : TStatus) (r : TaskRec) : TDel r { r with status := st } :=
  ⟨rfl, rfl, rfl, rfl, rfl, rfl, fun h => h, fun _ _ => ⟨rfl, rfl, rfl⟩, Or.inl ⟨rfl, rfl, rfl⟩⟩

theorem tdel_offset (n : Nat) (r : TaskRec) : TDel r { r with offset := n } :=
  ⟨rfl, rfl, rfl, rfl, rfl, rfl, fun h => h, fun _ _ => ⟨rfl, rfl, rfl⟩, Or.inl ⟨rfl, rfl, rfl⟩⟩

theorem tdel_updateAllocation (r : TaskRec) (mm : Machine) : TDel r (updateAllocation r mm) := by
  unfold updateAllocation
  simp only
  split
  · rename_i hgt
    refine ⟨rfl, rfl, rfl, rfl, rfl, rfl, fun _ => rfl, fun h0 h0' => ?_, Or.inr ⟨rfl, rfl, ?_⟩⟩
    · exfalso
      rw [h0, h0'] at hgt
      simp at hgt
    · show (0 : Int) < ((max (r.flops / mm.cpu) (r.data / mm.bw) - r.duration : Nat) : Int)
      have : 0 < max (r.flops / mm.cpu) (r.data / mm.bw) - r.duration := by
        have : r.duration < max (r.flops / mm.cpu) (r.data / mm.bw) := hgt
        omega
      exact_mod_cast this
  · exact ⟨rfl, rfl, rfl, rfl, rfl, rfl, fun _ => rfl, fun _ _ => ⟨rfl, rfl, rfl⟩, Or.inl ⟨rfl, rfl, rfl⟩⟩

/-- the facts about the delay fields of a record, in every state (`stat`: is the static planner
configured?) -/
structure DRec (stat : Bool) (r : TaskRec) : Prop where
  nonneg : 0 ≤ r.delayOffset
  /-- flagged iff an offset was recorded or the recorded finish lies after the planned finish -/
  flag : r.delayFlag = true ↔ (0 < r.delayOffset ∨ ∃ f, r.aft = some f ∧ (r.eft : Time) < f)
  astNonneg : ∀ a, r.ast = some a → 0 ≤ a
  ingest : r.id.isIngest = true → r.flops = 0 ∧ r.data = 0 ∧ r.eft = 0
  /-- a record without work that has not finished carries no offset -/
  workless : r.flops = 0 → r.data = 0 → r.aft = none → r.delayOffset = 0
  /-- a record `update_allocation` has never been called on, not finished: no offset -/
  untouched : r.allocObj = false → r.aft = none → r.delayOffset = 0
  /-- BatchPlanning gives every task the planned finish 0 -/
  batch : stat = false → r.eft = 0

theorem DRec.step {stat : Bool} {r r' : TaskRec} (h : DRec stat r) (k : TDel r r') : DRec stat r' := by
  constructor
  · rcases k.chg with ⟨_, e, _⟩ | ⟨_, _, e⟩
    · rw [e]; exact h.nonneg
    · exact Int.le_of_lt e
  · rw [k.aft, k.eft]
    rcases k.chg with ⟨_, e2, e3⟩ | ⟨e1, _, e3⟩
    · rw [e2, e3]; exact h.flag
    · exact ⟨fun _ => Or.inl e3, fun _ => e1⟩
  · rw [k.ast]; exact h.astNonneg
  · rw [k.id, k.flops, k.data, k.eft]; exact h.ingest
  · rw [k.flops, k.data, k.aft]
    intro h0 h0' ha
    rw [(k.wdur h0 h0').2.1]; exact h.workless h0 h0' ha
  · rw [k.aft]
    intro hobj ha
    have hobj0 : r.allocObj = false := by
      cases hb : r.allocObj with
      | false => rfl
      | true => rw [k.obj hb] at hobj; cases hobj
    rcases k.chg with ⟨_, e, _⟩ | ⟨_, e, _⟩
    · rw [e]; exact h.untouched hobj0 ha
    · rw [e] at hobj; cases hobj
  · rw [k.eft]; exact h.batch

/-- a new record: nothing recorded; an ingest task's record has no work and planned finish 0 -/
structure DFresh (stat : Bool) (r : TaskRec) : Prop where
  flag : r.delayFlag = false
  off : r.delayOffset = 0
  ast : r.ast = none
  aft : r.aft = none
  ingest : r.id.isIngest = true → r.flops = 0 ∧ r.data = 0 ∧ r.eft = 0
  batch : stat = false → r.eft = 0

theorem DFresh.drec {stat : Bool} {r : TaskRec} (h : DFresh stat r) : DRec stat r := by
  constructor
  · rw [h.off]; exact Int.le_refl _
  · rw [h.flag, h.off, h.aft]; simp
  · rw [h.ast]; intro a ha; cases ha
  · exact h.ingest
  · intro _ _ _; exact h.off
  · intro _ _; exact h.off
  · exact h.batch

abbrev DStep (stat : Bool) := TStep2 TDel (DRec stat)

theorem DStep.refl {stat : Bool} (s : Sys) : DStep stat s s := TStep2.of_eq TDel.refl rfl
theorem DStep.of_eq {stat : Bool} {s X : Sys} (h : X.tasks = s.tasks) : DStep stat s X := TStep2.of_eq TDel.refl h
theorem DStep.trans {stat : Bool} {a b c : Sys} (h1 : DStep stat a b) (h2 : DStep stat b c) : DStep stat a c :=
  TStep2.trans (R := TDel) (fun _ _ _ h1 h2 => TDel.trans h1 h2) (fun _ _ h k => h.step k) h1 h2

theorem DStep.foldl {stat : Bool} {α} (f : Sys → α → Sys) (hf : ∀ s a, DStep stat s (f s a)) (l : List α) (s : Sys) :
    DStep stat s (l.foldl f s) := by
  induction l generalizing s with
  | nil => exact DStep.refl s
  | cons a r ih => exact (hf s a).trans (ih _)

theorem DStep.updTask {stat : Bool} (s : Sys) (t0 : Tid) (f : TaskRec → TaskRec) (hR : ∀ r, TDel r (f r)) :
    DStep stat s (s.updTask t0 f) :=
  TStep2.updTask TDel.refl s t0 f (fun r => (hR r).id) hR

theorem dstep_status {stat : Bool} (s : Sys) (t : Tid) (st : TStatus) (X : Sys)
    (h : X.tasks = (s.updTask t (fun r => { r with status := st })).tasks) : DStep stat s X :=
  (DStep.updTask s t _ (tdel_status st)).of_tasks_eq h

/-! ### the blocks that write to the table of records -/

theorem planOf_dfresh (o : Obs) (c : Nat) (stat : Bool) (rows : List (Nat × Mid × Nat × Nat))
    (recs : List TaskRec) (plan : Plan)
    (h : (recs, plan) = (if stat = true then staticPlanOf o c rows else batchPlan o c)) :
    ∀ r ∈ recs, DFresh stat r := by
  intro r hr
  split at h
  · rename_i hst
    injection h with h1 _
    subst h1
    simp only [List.mem_map] at hr
    obtain ⟨⟨n, mid, est, eft⟩, _, rfl⟩ := hr
    exact ⟨rfl, rfl, rfl, rfl, fun hi => by simp [Tid.isIngest] at hi, fun hf => by rw [hf] at hst; cases hst⟩
  · injection h with h1 _
    subst h1
    simp only [List.mem_map] at hr
    obtain ⟨n, _, rfl⟩ := hr
    exact ⟨rfl, rfl, rfl, rfl, fun hi => by simp [Tid.isIngest] at hi, fun _ => rfl⟩

theorem schedLoop_dStep (s : Sys) (now : Time) (orc : Oracle) :
    DStep s.staticPlan s (s.schedLoopBlock now orc).1 := by
  rcases schedLoopBlock_buf s now orc with ⟨_, _, htasks, _, _⟩ |
    ⟨oid, o, recs, plan, _, _, hrp, _, _, htasks, _⟩
  · exact DStep.of_eq htasks
  · exact TStep2.append TDel.refl s _ recs htasks
      (fun r hr => (planOf_dfresh o (natNow now) s.staticPlan orc.plan recs plan hrp r hr).drec)

theorem provIngest_dStep {stat : Bool} (s : Sys) (now : Time) (pc : Nat) (oid : Oid) (d : Nat) :
    DStep stat s (s.provIngestBlock now pc oid d).1 := by
  unfold provIngestBlock
  split
  · simp only
    generalize hr : s.cl.provisionIngest d oid = r
    obtain ⟨cl1, e1, pairs⟩ := r
    cases e1 with
    | some e => exact DStep.of_eq rfl
    | none =>
      simp only
      generalize hrecs : List.map (fun x : Mid × Tid => ({ id := x.2, duration := (match s.obs? oid with | some o => o.duration | none => 0), status := TStatus.scheduled } : TaskRec)) pairs = recs
      have hrec : ∀ r ∈ recs, DRec stat r := by
        intro r hr'
        rw [← hrecs] at hr'
        obtain ⟨x, hx, rfl⟩ := List.mem_map.mp hr'
        exact (DFresh.mk rfl rfl rfl rfl (fun _ => ⟨rfl, rfl, rfl⟩) (fun _ => rfl)).drec
      generalize hs1 : ({ s with cl := cl1, tasks := s.tasks ++ recs } : Sys) = s1
      have e3 : s1.tasks = s.tasks ++ recs := by subst hs1; rfl
      have h1 : DStep stat s s1 := TStep2.append TDel.refl s s1 recs e3 hrec
      refine h1.trans ?_
      apply DStep.foldl
      intro s2 x
      exact DStep.of_eq rfl
  · exact DStep.refl s

theorem dstep_status2 {stat : Bool} (s : Sys) (t : Tid) (st1 st2 : TStatus) (X : Sys)
    (h : X.tasks = ((s.updTask t (fun r => { r with status := st1 })).updTask t
      (fun r => { r with status := st2 })).tasks) : DStep stat s X :=
  ((DStep.updTask s t _ (tdel_status st1)).trans (DStep.updTask _ t _ (tdel_status st2))).of_tasks_eq h

syntax "at_dstep" : tactic
macro_rules
  | `(tactic| at_dstep) =>
    `(tactic| first
      | exact DStep.of_eq rfl
      | exact dstep_status _ _ _ _ rfl
      | exact dstep_status2 _ _ _ _ _ rfl
      | (split <;> at_dstep))

/-- the allocation process only rewrites the status of its task (by case analysis of the block, whatever
the test that ends the polling) -/
theorem allocTask_dStep {stat : Bool} (s : Sys) (now : Time) (t : Tid) (m : Mid) (preds : List Tid)
    (obs : Option Oid) (ing : Bool) (ret : Nat) :
    DStep stat s (s.allocTaskBlock now t m preds obs ing ret).1 := by
  unfold allocTaskBlock; simp only; at_dstep

/-! ### `allocate_tasks` -/

theorem dstep_atStart {stat : Bool} (s : Sys) (now : Time) (pc : Nat) (oid : Oid) : DStep stat s (atStart s now pc oid) := by
  unfold atStart
  split
  · have h1 : DStep stat s (s.updPlan oid (fun p => { p with ast := some (natNow now) })) := DStep.of_eq rfl
    refine h1.trans ?_
    have h2 : ∀ S : Sys, ∀ l : List Tid, DStep stat S (l.foldl
        (fun (s : Sys) t => s.updTask t (fun r => { r with offset := natNow now })) S) := by
      intro S l
      apply DStep.foldl
      intro s1 t
      exact DStep.updTask s1 t _ (tdel_offset (natNow now))
    exact (h2 _ _).trans (DStep.of_eq rfl)
  · exact DStep.refl s

theorem dstep_processOne {stat : Bool} (now : Time) (oid : Oid) (st : PcsSt) (t : Tid) :
    DStep stat st.s (processOne now oid st t).s := by
  have hua : ∀ s1, UA st.s t s1 → DStep stat st.s s1 := by
    intro s1 h
    rcases h with rfl | ⟨mm, rfl⟩
    · exact DStep.refl _
    · exact DStep.updTask st.s t _ (fun r => tdel_updateAllocation r mm)
  rcases processOne_cases now oid st t with ⟨s1, h1, hs, _⟩ | ⟨s1, m, r, cross, h1, _, _, _, hs, _⟩
  · rw [hs]; exact hua s1 h1
  · rw [hs]
    refine (hua s1 h1).trans ?_
    have h2 : DStep stat s1 (s1.spawn (.allocTask t m cross (some oid) false 0) now).1 := DStep.of_eq rfl
    exact h2.trans (DStep.updTask _ t _ (tdel_status .scheduled))

theorem dstep_processCurrentSchedule {stat : Bool} (a : Sys) (now : Time) (oid : Oid) (sched pairs : List (Tid × Mid)) :
    DStep stat a (processCurrentSchedule a now oid sched pairs).s := by
  unfold processCurrentSchedule
  simp only
  generalize ((dictKeys sched).mergeSort _) = l
  have : ∀ (l : List Tid) (st : PcsSt), DStep stat st.s (l.foldl (processOne now oid) st).s := by
    intro l
    induction l with
    | nil => intro st; exact DStep.refl _
    | cons x r ih => intro st; exact (dstep_processOne now oid st x).trans (ih _)
  exact this l { s := a, schedule := sched, pairs := pairs, curr := [] }

theorem dstep_allocTasksIter {stat : Bool} (a : Sys) (now : Time) (orc : Oracle) (oid : Oid)
    (sc pa : List (Tid × Mid)) (po : List Tid) : DStep stat a (a.allocTasksIter now orc oid sc pa po).1 := by
  have h1 : DStep stat a (a.updateCurrentPlan oid) := DStep.of_eq (updateCurrentPlan_core a oid).tasks
  have h3 : ∀ out, DStep stat a (atS3 (a.updateCurrentPlan oid) out oid) := fun out =>
    h1.trans (DStep.of_eq (atS3_tasks _ out oid))
  have hout := allocTasksIter_out a now orc oid sc pa po
  generalize a.allocTasksIter now orc oid sc pa po = r at hout ⊢
  cases hout with
  | noPlan _ => exact h1
  | algErr _ _ _ _ => exact h1
  | finish plan out _ _ _ _ _ _ => exact (h3 out).trans (DStep.of_eq rfl)
  | finishBad plan out _ _ _ _ _ _ => exact (h3 out).trans (DStep.of_eq rfl)
  | finishWait plan out _ _ _ _ _ => exact (h3 out).trans (DStep.of_eq rfl)
  | idle plan out _ _ _ _ => exact h3 out
  | alloc plan out y _ _ _ _ => exact (h3 out).trans (dstep_processCurrentSchedule _ now oid _ _)

theorem dstep_allocTasksBlock {stat : Bool} (s : Sys) (now : Time) (orc : Oracle) (pc : Nat)
    (oid : Oid) (sc pa : List (Tid × Mid)) (po : List Tid) (fn : Bool) :
    DStep stat s (s.allocTasksBlock now orc pc oid sc pa po fn).1 := by
  cases fn with
  | true => rw [allocTasksBlock_fin]; exact DStep.refl s
  | false =>
    rw [allocTasksBlock_eq]
    exact (dstep_atStart s now pc oid).trans (dstep_allocTasksIter _ now orc oid sc pa po)

/-- every block but the task body's -/
theorem block_dStep (s : Sys) (p : Proc) (orc : Oracle) (h3 : p.k.tag ≠ "doWork") :
    DStep s.staticPlan s (s.block p orc).1 := by
  cases hk : p.k with
  | schedLoop =>
    rw [block_schedLoop orc hk]; exact schedLoop_dStep _ _ _
  | provIngest o d =>
    rw [block_provIngest orc hk]; exact provIngest_dStep _ _ _ _ _
  | allocTask t m preds obs ing ret =>
    rw [block_allocTask orc hk]; exact allocTask_dStep s _ _ _ _ _ _ _
  | doWork t m preds ph tot => rw [hk] at h3; exact absurd rfl h3
  | allocTasks o sc pa po fn =>
    rw [block_allocTasks orc hk]; exact dstep_allocTasksBlock _ _ _ _ _ _ _ _ _
  | _ =>
    exact DStep.of_eq (block_tasks s p orc (by rw [hk]; simp [PK.tag]) (by rw [hk]; simp [PK.tag])
      (by rw [hk]; simp [PK.tag]) (by rw [hk]; simp [PK.tag]) (by rw [hk]; simp [PK.tag]))

end Sys
end Topsim
