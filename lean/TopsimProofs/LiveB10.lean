/-
  LiveB10 — BatchProcessing: the declarations of Live10 that depend on the configuration hypotheses,
  for `LiveCfgB` / `NcCfgB` (`s0.alg = .batch …`).  Generated from Live10.lean by renaming (suffix `_B`);
  the algorithm-dependent ones are rewritten (see the comments).
-/
import TopsimProofs.Live10
import TopsimProofs.LiveB5
import TopsimProofs.LiveB9

namespace Topsim
open KState Sys

/-- the lemmas of the other parts (process liveness: LiveB6; `allocate_tasks`: LiveB7; quiescent
states and admission: LiveB8), for BatchProcessing.  Against `LiveParts`: `ats_progress` has the
third outcome "no reservation can be made, the cluster is left as it is"; `free` counts the idle
machines of the reservations; `admits` asks for a state without reservation; `ats_sched`,
`idle_queue`, `idle_keep`, `numProv` are new. -/
structure LivePartsB (env : SimEnv) (s0 : Sys) : Prop where
  worker_ends : ∀ {n pid : Nat} {p : Proc}, (simAt env s0 n).st.proc? pid = some p → p.alive = true →
    (p.k.tag = "allocIngest" ∨ p.k.tag = "provIngest" ∨ p.k.tag = "ingestStream" ∨
      p.k.tag = "allocTask" ∨ p.k.tag = "doWork") →
    ∃ n', n ≤ n' ∧ ∃ p', (simAt env s0 n').st.proc? pid = some p' ∧ p'.alive = false
  tel_alive : ∀ n, (∃ ob ∈ (simAt env s0 n).st.obs, ob.status ≠ .finished) →
    ∃ q ∈ (simAt env s0 n).st.procs, q.k = .telescope ∧ q.alive = true
  sched_alive : ∀ n, ∃ q, (simAt env s0 n).st.proc? 3 = some q ∧ q.k = .schedLoop ∧ q.alive = true
  obs_finishes : ∀ {n : Nat} {o : Oid} {ob : Obs} {a : Nat}, (simAt env s0 n).st.obs? o = some ob →
    ob.ast = some a →
    ∃ n', n ≤ n' ∧ ∃ ob', (simAt env s0 n').st.obs? o = some ob' ∧ ob'.status = .finished
  ats_progress : ∀ (n : Nat) {e : HEntry} {p : Proc}, (simAt env s0 n).peek = some e →
    (simAt env s0 n).st.proc? e.pid = some p → p.alive = true →
    ∀ {o : Oid} {sc pa : List (Tid × Mid)} {po : List Tid}, p.k = .allocTasks o sc pa po false →
    o ∉ (simAt env s0 n).st.buf.hot.finished →
    ((simAt env s0 n).st.cl.occupied = [] ∧ (simAt env s0 n).st.cl.ingest = []) →
    (∀ q ∈ (simAt env s0 n).st.procs, q.alive = true → q.k.tag ≠ "allocTask" ∧ q.k.tag ≠ "doWork") →
    ∀ {parts minPer : Nat} {split : Option (List (Oid × Nat × Nat))}, s0.alg = .batch parts minPer split →
    o ∈ (simAt env s0 (n + 1)).st.buf.hot.finished ∨
    (∃ ob ∈ s0.obs, ob.id = o ∧ ∃ node ∈ ob.wf.topo,
      ¬ Sys.PAT o node (simAt env s0 n).st ∧ Sys.PAT o node (simAt env s0 (n + 1)).st) ∨
    (Alg.provisionResources (simAt env s0 n).st.cl parts minPer split o = .ok ((simAt env s0 n).st.cl, false) ∧
      (simAt env s0 (n + 1)).st.cl = (simAt env s0 n).st.cl)
  ats_spawn : ∀ (n : Nat) {e : HEntry} {p : Proc}, (simAt env s0 n).peek = some e →
    (simAt env s0 n).st.proc? e.pid = some p → p.alive = true →
    ∀ {o : Oid} {sc pa : List (Tid × Mid)} {po : List Tid} {fn : Bool}, p.k = .allocTasks o sc pa po fn →
    (simAt env s0 n).st.nextPid < (simAt env s0 (n + 1)).st.nextPid →
    ∃ ob ∈ s0.obs, ob.id = o ∧ ∃ node ∈ ob.wf.topo,
      ¬ Sys.PAT o node (simAt env s0 n).st ∧ Sys.PAT o node (simAt env s0 (n + 1)).st
  ats_sched : ∀ (n : Nat), ∀ q ∈ (simAt env s0 n).st.procs, q.alive = true →
    ∀ o sc pa po, q.k = .allocTasks o sc pa po false → o ∈ (simAt env s0 n).st.buf.hot.scheduled
  idle_queue : ∀ (n : Nat), ∀ o ∈ dictKeys (simAt env s0 n).st.cl.idle, o ∈ (simAt env s0 n).st.queue
  idle_keep : ∀ (n : Nat) {e : HEntry} {p : Proc}, (simAt env s0 n).peek = some e →
    (simAt env s0 n).st.proc? e.pid = some p → p.alive = true → (simAt env s0 n).st.NoWorker →
    (∀ o sc pa po, p.k ≠ .allocTasks o sc pa po false) →
    (simAt env s0 (n + 1)).st.cl.idle = (simAt env s0 n).st.cl.idle
  numProv : ∀ (n : Nat), ((simAt env s0 n).st.cl.idle.length : Int) = (simAt env s0 n).st.cl.numProv
  sched_has_proc : ∀ (n : Nat) {o : Oid}, o ∈ (simAt env s0 n).st.buf.hot.scheduled →
    ∃ q ∈ (simAt env s0 n).st.procs, q.alive = true ∧ ∃ sc pa po, q.k = .allocTasks o sc pa po false
  queue_sched : ∀ (n : Nat) {o : Oid}, o ∈ (simAt env s0 n).st.queue →
    o ∈ (simAt env s0 n).st.buf.hot.scheduled
  noTier : ∀ n, Sys.NoTier (simAt env s0 n).st ∧ (simAt env s0 n).st.buf.cold = s0.buf.cold
  schedLoop_pops : ∀ (n : Nat) {e : HEntry} {p : Proc}, (simAt env s0 n).peek = some e →
    (simAt env s0 n).st.proc? e.pid = some p → p.alive = true → p.k = .schedLoop →
    (simAt env s0 n).st.buf.hot.stored ≠ [] →
    ∃ o ∈ (simAt env s0 n).st.buf.hot.stored, ¬ Sys.PQ o (simAt env s0 n).st ∧
      Sys.PQ o (simAt env s0 (n + 1)).st
  finished_stored : ∀ (n : Nat) {ob : Obs}, ob ∈ (simAt env s0 n).st.obs → ob.status = .finished →
    (∀ q ∈ (simAt env s0 n).st.procs, q.alive = true → ∀ tl, q.k ≠ .ingestStream ob.id tl) →
    ob.id ∈ (simAt env s0 n).st.buf.hot.stored ∨ Sys.PQ ob.id (simAt env s0 n).st
  free : ∀ (n : Nat), (simAt env s0 n).st.NoWorker →
    (∀ ob ∈ (simAt env s0 n).st.obs, ob.ast ≠ none → ob.status = .finished) →
    (simAt env s0 n).st.cl.occupied = [] ∧ (simAt env s0 n).st.cl.ingest = [] ∧
    (simAt env s0 n).st.cl.running = [] ∧
    (simAt env s0 n).st.cl.available.length + (simAt env s0 n).st.cl.idleAll.length = s0.machines.length ∧
    (simAt env s0 n).st.provIngest = 0 ∧
    (simAt env s0 n).st.telUse = 0 ∧ (simAt env s0 n).st.telStatus = false
  admits : ∀ (n : Nat) {e : HEntry} {p : Proc}, (simAt env s0 n).peek = some e →
    (simAt env s0 n).st.proc? e.pid = some p → p.alive = true → p.k = .telescope →
    (simAt env s0 n).st.NoWorker →
    (∀ ob ∈ (simAt env s0 n).st.obs, ob.ast ≠ none → ob.status = .finished) →
    (∃ ob ∈ (simAt env s0 n).st.obs, ob.ast = none) →
    (∀ ob ∈ (simAt env s0 n).st.obs, ob.ast = none → ((ob.est : Nat) : Time) ≤ p.wake) →
    (simAt env s0 n).st.cl.idle = [] →
    ∃ o ob0 ob1 a, (simAt env s0 n).st.obs? o = some ob0 ∧ ob0.ast = none ∧
      (simAt env s0 (n + 1)).st.obs? o = some ob1 ∧ ob1.ast = some a
  finished : ∀ (n : Nat), (simAt env s0 n).st.NoWorker →
    (∀ ob ∈ (simAt env s0 n).st.obs, ob.status = .finished ∧ ob.id ∈ (simAt env s0 n).st.buf.hot.finished) →
    (simAt env s0 n).st.queue = [] → (simAt env s0 n).st.isFinished = true
  schedLoop_spawn : ∀ (n : Nat) {e : HEntry} {p : Proc}, (simAt env s0 n).peek = some e →
    (simAt env s0 n).st.proc? e.pid = some p → p.alive = true → p.k = .schedLoop →
    (simAt env s0 n).st.nextPid < (simAt env s0 (n + 1)).st.nextPid →
    ∃ o, (∃ ob, (simAt env s0 n).st.obs? o = some ob) ∧ ¬ Sys.PQ o (simAt env s0 n).st ∧
      Sys.PQ o (simAt env s0 (n + 1)).st
  tel_spawn : ∀ (n : Nat) {e : HEntry} {p : Proc}, (simAt env s0 n).peek = some e →
    (simAt env s0 n).st.proc? e.pid = some p → p.alive = true → p.k = .telescope →
    (simAt env s0 n).st.nextPid < (simAt env s0 (n + 1)).st.nextPid →
    ∃ o, (∃ ob, (simAt env s0 n).st.obs? o = some ob) ∧ o ∉ (simAt env s0 n).st.admitted ∧
      o ∈ (simAt env s0 (n + 1)).st.admitted
  bufferLoop_no_spawn : ∀ (n : Nat) {e : HEntry} {p : Proc}, (simAt env s0 n).peek = some e →
    (simAt env s0 n).st.proc? e.pid = some p → p.alive = true → p.k = .bufferLoop →
    (simAt env s0 (n + 1)).st.nextPid = (simAt env s0 n).st.nextPid
namespace Sys
end Sys
section
variable {env : SimEnv} {s0 : Sys}

theorem live_nextPid_step_B (C : LiveCfgB env s0) (K : LiveKernel env s0) (n : Nat) {e : HEntry} {p : Proc}
    (hpk : (simAt env s0 n).peek = some e) (hpp : (simAt env s0 n).st.proc? e.pid = some p)
    (ha : p.alive = true) :
    (simAt env s0 (n + 1)).st.nextPid =
      ((simAt env s0 n).st.block p (env.oracle (simAt env s0 n).st)).1.nextPid ∧
    (simAt env s0 (n + 1)).st.obs =
      ((simAt env s0 n).st.block p (env.oracle (simAt env s0 n).st)).1.obs := by
  obtain ⟨e', p', hpk', hpp', _, _, _, _, hst⟩ := live_step_B C K n
  rw [hpk] at hpk'
  cases hpk'
  rw [hpp] at hpp'
  cases hpp'
  rw [hst]
  exact ⟨(il_resume_procs_eq _ _ _ p hpp ha).2.1, (il_resume_fields _ _ _ p hpp ha).1⟩

/-- **Which blocks create processes.** -/
theorem live_spawn_cases_B (C : LiveCfgB env s0) (K : LiveKernel env s0) (Pt : LivePartsB env s0) (n : Nat)
    (hsp : (simAt env s0 n).st.nextPid < (simAt env s0 (n + 1)).st.nextPid) :
    ∃ e p, (simAt env s0 n).peek = some e ∧ (simAt env s0 n).st.proc? e.pid = some p ∧ p.alive = true ∧
      ((∃ o, (∃ ob, (simAt env s0 n).st.obs? o = some ob) ∧ ¬ Sys.PAdm o (simAt env s0 n).st ∧
          Sys.PAdm o (simAt env s0 (n + 1)).st) ∨
       (∃ o, (∃ ob, (simAt env s0 n).st.obs? o = some ob) ∧ ¬ Sys.PRun o (simAt env s0 n).st ∧
          Sys.PRun o (simAt env s0 (n + 1)).st) ∨
       (∃ o, (∃ ob, (simAt env s0 n).st.obs? o = some ob) ∧ ¬ Sys.PQ o (simAt env s0 n).st ∧
          Sys.PQ o (simAt env s0 (n + 1)).st) ∨
       (∃ o, ∃ ob ∈ s0.obs, ob.id = o ∧ ∃ node ∈ ob.wf.topo,
          ¬ Sys.PAT o node (simAt env s0 n).st ∧ Sys.PAT o node (simAt env s0 (n + 1)).st) ∨
       (p.pc = 0 ∧ (p.k.tag = "provIngest" ∨ p.k.tag = "allocTask"))) := by
  obtain ⟨e, p, hpk, hpp, ha, het, hen, hs, hst⟩ := live_step_B C K n
  obtain ⟨hnp, hobs⟩ := live_nextPid_step_B C K n hpk hpp ha
  refine ⟨e, p, hpk, hpp, ha, ?_⟩
  have hinv := (K.reach n).l3inv C.hw
  obtain ⟨hpm, hpid⟩ := proc?_some hpp
  rw [hnp] at hsp
  cases hk : p.k with
  | monitor =>
    exfalso
    rw [(block_mon _ p _ hk).1] at hsp
    exact Nat.lt_irrefl _ hsp
  | telescope =>
    left
    exact Pt.tel_spawn n hpk hpp ha hk (by rw [hnp]; exact hsp)
  | clusterLoop =>
    exfalso
    rw [block_clusterLoop _ hk] at hsp
    exact Nat.lt_irrefl _ hsp
  | schedLoop =>
    right; right; left
    exact Pt.schedLoop_spawn n hpk hpp ha hk (by rw [hnp]; exact hsp)
  | bufferLoop =>
    exfalso
    have := Pt.bufferLoop_no_spawn n hpk hpp ha hk
    rw [hnp] at this
    rw [this] at hsp
    exact Nat.lt_irrefl _ hsp
  | allocIngest o tl =>
    right; left
    rw [block_allocIngest _ hk] at hsp
    obtain ⟨ob, hob, hw, ob', hob', hr⟩ := Sys.allocIngestBlock_spawn _ _ _ _ _ hsp
    refine ⟨o, ⟨ob, hob⟩, ?_, ?_⟩
    · rintro ⟨ob2, hob2, hne⟩
      rw [hob] at hob2
      cases hob2
      exact hne hw
    · refine ⟨ob', ?_, by rw [hr]; simp⟩
      rw [obs?_congr hobs, block_allocIngest _ hk]
      exact hob'
  | provIngest o d =>
    right; right; right; right
    refine ⟨?_, Or.inl rfl⟩
    by_cases hpc : p.pc = 0
    · exact hpc
    · exfalso
      rw [block_provIngest _ hk, Sys.provIngestBlock_nextPid_later _ _ _ _ _ hpc] at hsp
      exact Nat.lt_irrefl _ hsp
  | ingestStream o tl =>
    exfalso
    rw [block_ingestStream _ hk, Sys.ingestStreamBlock_nextPid] at hsp
    exact Nat.lt_irrefl _ hsp
  | allocTask t m preds obs ing ret =>
    right; right; right; right
    refine ⟨?_, Or.inr rfl⟩
    by_cases hpc : p.pc = 0
    · exact hpc
    exfalso
    obtain ⟨U, hU⟩ := hinv.sinv.ci
    have hent := hU.runOn p hpm ha t m preds obs ing ret hk (by omega)
    have hrun : t ∈ (simAt env s0 n).st.cl.running := by
      rw [← hU.inv.runOnTasks]
      exact List.mem_map_of_mem (f := (·.task)) hent
    rw [block_allocTask _ hk, Sys.allocTaskBlock_nextPid_running _ _ _ _ _ _ _ _ hrun] at hsp
    exact Nat.lt_irrefl _ hsp
  | doWork t m preds ph tot =>
    exfalso
    rw [block_doWork _ hk, (doWorkBlock_spec _ _ _ _ _ _ _ _).2.1] at hsp
    exact Nat.lt_irrefl _ hsp
  | allocTasks o sc pa po fn =>
    right; right; right; left
    obtain ⟨ob, hob, hid, node, hnode, h1, h2⟩ := Pt.ats_spawn n hpk hpp ha hk (by rw [hnp]; exact hsp)
    exact ⟨o, ob, hob, hid, node, hnode, h1, h2⟩
  | hot2cold cur =>
    exfalso
    exact ((Pt.noTier n).1 p hpm).1 (by rw [hk]; rfl)
  | cold2hot cur =>
    exfalso
    exact ((Pt.noTier n).1 p hpm).2 (by rw [hk]; rfl)
end
end Topsim
