/-
  SysInv3 — what the cluster operations do to the ghost fields, the
  restriction on oracle reservations, and the algorithms' effect on the cluster.
-/
import TopsimProofs.SysInv2

namespace Topsim

open Cluster

/-- the reservations a user algorithm can make through the public Cluster API -/
def ClOp.isBatch : ClOp → Prop
  | .provBatch _ _ => True
  | .relBatch _ => True
  | _ => False

/-- every reservation call of the oracle is `provision_batch_resources` /
`release_batch_resources` -/
def Oracle.preOk (orc : Oracle) : Prop := ∀ op ∈ orc.pre, op.isBatch

namespace Sys

theorem clQuiet_tick (c : Cluster) : ClQuiet c c.loopTick := by
  refine ⟨?_, ?_, ?_, ?_, fun U h => inv_tick h⟩ <;> (unfold loopTick; split <;> rfl)

theorem clQuiet_cleanup (c : Cluster) : ClQuiet c c.cleanUpIngest :=
  ⟨rfl, rfl, rfl, rfl, fun _ h => inv_cleanup h⟩

theorem addIdleResource_fields (c : Cluster) (o : Oid) (m : Mid) :
    (c.addIdleResource o m).1.pending = c.pending ∧ (c.addIdleResource o m).1.runOn = c.runOn ∧
    (c.addIdleResource o m).1.running = c.running ∧ (c.addIdleResource o m).1.finished = c.finished := by
  unfold addIdleResource
  by_cases h1 : dictHas c.idle o = true <;> by_cases h2 : m ∈ c.available <;> simp [h1, h2]

theorem addIdleAll_fields (c : Cluster) (o : Oid) (ms : List Mid) :
    (c.addIdleAll o ms).1.pending = c.pending ∧ (c.addIdleAll o ms).1.runOn = c.runOn ∧
    (c.addIdleAll o ms).1.running = c.running ∧ (c.addIdleAll o ms).1.finished = c.finished := by
  induction ms generalizing c with
  | nil => exact ⟨rfl, rfl, rfl, rfl⟩
  | cons m rest ih =>
    unfold addIdleAll
    have h1 := addIdleResource_fields c o m
    generalize c.addIdleResource o m = r at h1
    obtain ⟨c1, e1⟩ := r
    cases e1 with
    | some e => exact h1
    | none =>
      have h2 := ih c1
      simp only at h1 h2 ⊢
      exact ⟨h2.1.trans h1.1, h2.2.1.trans h1.2.1, h2.2.2.1.trans h1.2.2.1, h2.2.2.2.trans h1.2.2.2⟩

theorem clQuiet_provisionBatch (c : Cluster) (n : Nat) (o : Oid) : ClQuiet c (c.provisionBatch n o).1 := by
  have hinv : ∀ U, Inv c U → Inv (c.provisionBatch n o).1 U := fun U h => (provisionBatch_ok h n o).1
  have hf : (c.provisionBatch n o).1.pending = c.pending ∧ (c.provisionBatch n o).1.runOn = c.runOn ∧
      (c.provisionBatch n o).1.running = c.running ∧ (c.provisionBatch n o).1.finished = c.finished := by
    unfold provisionBatch
    simp only
    generalize (if n > c.available.length ∧ c.available.length > 0 then c.available.length else n) = s'
    by_cases hs : s' > c.available.length
    · simp only [hs, if_true]; exact ⟨trivial, trivial, trivial, trivial⟩
    · simp only [hs, if_false]
      have h1 := addIdleAll_fields c o (c.available.take s')
      generalize c.addIdleAll o (c.available.take s') = r at h1
      obtain ⟨c1, e1⟩ := r
      cases e1 <;> exact h1
  exact ⟨hf.1, hf.2.1, hf.2.2.1, hf.2.2.2, hinv⟩

theorem clQuiet_releaseBatch (c : Cluster) (o : Oid) : ClQuiet c (c.releaseBatch o) := by
  have hinv : ∀ U, Inv c U → Inv (c.releaseBatch o) U := fun U h => (releaseBatch_ok h o).1
  refine ⟨?_, ?_, ?_, ?_, hinv⟩ <;>
  · unfold releaseBatch
    split
    · rfl
    · simp only; split <;> rfl

theorem clQuiet_batchOps (ops : List ClOp) (hops : ∀ op ∈ ops, op.isBatch) (c : Cluster) :
    ClQuiet c (ops.foldl (fun c op => (c.applyOp op).1) c) := by
  induction ops generalizing c with
  | nil => exact ClQuiet.refl c
  | cons op rest ih =>
    simp only [List.foldl_cons]
    have h1 : ClQuiet c (c.applyOp op).1 := by
      have := hops op (by simp)
      cases op with
      | provBatch n o => exact clQuiet_provisionBatch c n o
      | relBatch o => exact clQuiet_releaseBatch c o
      | _ => exact absurd this (by simp [ClOp.isBatch])
    exact h1.trans (ih (fun op h => hops op (List.mem_cons_of_mem _ h)) _)

theorem clQuiet_provisionResources (c : Cluster) (parts minPer : Nat)
    (split : Option (List (Oid × Nat × Nat))) (o : Oid) (c1 : Cluster) (b : Bool)
    (h : Alg.provisionResources c parts minPer split o = .ok (c1, b)) : ClQuiet c c1 := by
  unfold Alg.provisionResources at h
  split at h
  · injection h with h; injection h with h1 _; subst h1; exact ClQuiet.refl c
  · split at h
    · split at h
      · exact absurd h (by simp)
      · rename_i prov _
        split at h
        · injection h with h; injection h with h1 _; subst h1; exact ClQuiet.refl c
        · have hq := clQuiet_provisionBatch c prov o
          generalize c.provisionBatch prov o = r at h hq
          obtain ⟨c2, e2⟩ := r
          cases e2 with
          | some e => exact absurd h (by simp)
          | none =>
            simp only at h
            injection h with h; injection h with h1 _; subst h1; exact hq
    · injection h with h; injection h with h1 _; subst h1; exact ClQuiet.refl c

theorem runAlgorithm_quiet (s : Sys) (orc : Oracle) (plan : Plan) (schedule : List (Tid × Mid))
    (pool : List Tid) (out : AlgOut) (hpre : s.alg = .oracle → orc.preOk)
    (h : s.runAlgorithm orc plan schedule pool = .ok out) : ClQuiet s.cl out.cl := by
  unfold runAlgorithm at h
  split at h
  · rename_i parts minPer spl _
    unfold Alg.batchRun at h
    split at h
    · exact absurd h (by simp)
    · rename_i cl1 prov hpr
      have h1 := clQuiet_provisionResources _ _ _ _ _ _ _ hpr
      injection h with h
      subst h
      simp only
      split
      · exact h1.trans (clQuiet_releaseBatch _ _)
      · exact h1
  · unfold Alg.queueRun at h
    injection h with h
    subst h
    simp only
    split
    · exact clQuiet_releaseBatch _ _
    · exact ClQuiet.refl _
  · unfold Alg.dynamicRun at h
    simp only at h
    split at h
    · exact absurd h (by simp)
    · injection h with h; subst h; exact ClQuiet.refl _
  · unfold Alg.greedyRun at h
    split at h
    · exact absurd h (by simp)
    · injection h with h; subst h; exact ClQuiet.refl _
  · rename_i halg
    injection h with h
    subst h
    exact clQuiet_batchOps orc.pre (hpre halg) s.cl

/-! ### `allocBegin` / `allocEnd` / `provisionIngest` on the ghost fields -/

theorem setMachineOccupied_fields (c : Cluster) (m : Mid) (obs : Option Oid) :
    (c.setMachineOccupied m obs).1.pending = c.pending ∧ (c.setMachineOccupied m obs).1.runOn = c.runOn ∧
    (c.setMachineOccupied m obs).1.running = c.running ∧
    (c.setMachineOccupied m obs).1.finished = c.finished := by
  unfold setMachineOccupied
  split
  · exact ⟨rfl, rfl, rfl, rfl⟩
  · split
    · exact ⟨rfl, rfl, rfl, rfl⟩
    · split
      · exact ⟨rfl, rfl, rfl, rfl⟩
      · split <;> exact ⟨rfl, rfl, rfl, rfl⟩

theorem allocBegin_fields (c : Cluster) (t : Tid) (m : Mid) (obs : Option Oid) (ing : Bool)
    (h : (c.allocBegin t m obs ing).2 = none) :
    (c.allocBegin t m obs ing).1.runOn = c.runOn ++ [⟨t, m, obs, ing⟩] ∧
    (c.allocBegin t m obs ing).1.pending = (if ing then c.pending.erase ⟨t, m, obs, true⟩ else c.pending) ∧
    (c.allocBegin t m obs ing).1.running = c.running ++ [t] ∧
    (∀ x ∈ dictKeys c.finished, x ∈ dictKeys (c.allocBegin t m obs ing).1.finished) := by
  unfold allocBegin at h ⊢
  by_cases ht : t ∈ c.running
  · simp [ht] at h
  · simp only [ht, if_false] at h ⊢
    cases ing with
    | true =>
      simp only [if_true] at h ⊢
      by_cases hm : m ∈ c.ingest
      · simp only [hm, decide_true, Bool.not_true, Bool.false_eq_true, if_false]
        refine ⟨trivial, trivial, trivial, ?_⟩
        intro x hx
        by_cases hk : t ∈ dictKeys c.finished
        · rw [dictKeys_dictSet_of_mem _ _ _ hk]; exact hx
        · rw [dictKeys_dictSet_of_not_mem _ _ _ hk]; exact List.mem_append_left _ hx
      · simp [hm] at h
    | false =>
      simp only [Bool.false_eq_true, if_false] at h ⊢
      by_cases hel : (!(decide (m ∈ c.available) || decide (m ∈ c.idleOf obs))) = true
      · simp [hel] at h
      · simp only [hel] at h ⊢
        have hf := setMachineOccupied_fields c m obs
        generalize c.setMachineOccupied m obs = r at h hf
        obtain ⟨c1, e1⟩ := r
        cases e1 with
        | some e => simp at h
        | none =>
          simp only at hf ⊢
          rw [hf.1, hf.2.1, hf.2.2.1, hf.2.2.2]
          exact ⟨rfl, rfl, rfl, fun x hx => hx⟩

theorem setMachineAvailable_fields (c : Cluster) (m : Mid) (obs : Option Oid) :
    (c.setMachineAvailable m obs).1.pending = c.pending ∧ (c.setMachineAvailable m obs).1.runOn = c.runOn ∧
    (c.setMachineAvailable m obs).1.running = c.running ∧
    (c.setMachineAvailable m obs).1.finished = c.finished := by
  unfold setMachineAvailable
  split
  · split
    · exact ⟨rfl, rfl, rfl, rfl⟩
    · simp only; split <;> exact ⟨rfl, rfl, rfl, rfl⟩
  · exact ⟨rfl, rfl, rfl, rfl⟩

theorem allocEnd_fields (c : Cluster) (t : Tid) (m : Mid) (obs : Option Oid) (ing : Bool)
    (h : (c.allocEnd t m obs ing).2 = none) :
    (c.allocEnd t m obs ing).1.runOn = c.runOn.erase ⟨t, m, obs, ing⟩ ∧
    (c.allocEnd t m obs ing).1.pending = c.pending ∧
    (c.allocEnd t m obs ing).1.running = c.running.erase t ∧
    (c.allocEnd t m obs ing).1.finished = dictSet c.finished t true := by
  unfold allocEnd at h ⊢
  by_cases ht : t ∈ c.running
  · simp only [ht, if_true] at h ⊢
    cases ing with
    | true =>
      simp only [if_true] at h ⊢
      split at h
      · rename_i hm
        simp only [hm, if_true]
        exact ⟨trivial, trivial, trivial, trivial⟩
      · simp at h
    | false =>
      simp only [Bool.false_eq_true, if_false] at h ⊢
      generalize hc1 : ({ c with running := c.running.erase t, uRunning := c.uRunning - 1,
                                 finished := dictSet c.finished t true,
                                 uFinished := c.uFinished + 1 } : Cluster) = c1 at h ⊢
      have hf := setMachineAvailable_fields c1 m obs
      generalize c1.setMachineAvailable m obs = r at h hf
      obtain ⟨c2, e2⟩ := r
      cases e2 with
      | some e => simp at h
      | none =>
        simp only at hf ⊢
        rw [hf.1, hf.2.1, hf.2.2.1, hf.2.2.2]
        subst hc1
        exact ⟨rfl, rfl, rfl, rfl⟩
  · simp [ht] at h

theorem moveToIngest_fields (c : Cluster) (obs : Oid) (pairs : List (Mid × Tid))
    (h : (moveToIngest c obs pairs).2 = none) :
    (moveToIngest c obs pairs).1.pending
      = c.pending ++ pairs.map (fun p => (⟨p.2, p.1, some obs, true⟩ : RunEntry)) ∧
    (moveToIngest c obs pairs).1.runOn = c.runOn ∧ (moveToIngest c obs pairs).1.running = c.running ∧
    (moveToIngest c obs pairs).1.finished = c.finished := by
  induction pairs generalizing c with
  | nil => exact ⟨by simp [moveToIngest], rfl, rfl, rfl⟩
  | cons p rest ih =>
    obtain ⟨m, t⟩ := p
    unfold moveToIngest at h ⊢
    simp only at h ⊢
    split at h
    · rename_i hm
      simp only [hm, if_true]
      have := ih _ h
      simp only at this
      refine ⟨?_, this.2.1, this.2.2.1, this.2.2.2⟩
      rw [this.1]; simp
    · simp at h

theorem provisionIngest_sharp {c : Cluster} {U : List Tid} (h : Inv c U) (d : Nat) (o : Oid)
    (hfresh : ∀ i, Tid.ingest o i ∉ U) (hok : (c.provisionIngest d o).2.1 = none) :
    Inv (c.provisionIngest d o).1 ((c.provisionIngest d o).2.2.map (·.2) ++ U) ∧
    (c.provisionIngest d o).1.pending = c.pending ++
      (c.provisionIngest d o).2.2.map (fun p => (⟨p.2, p.1, some o, true⟩ : RunEntry)) ∧
    (c.provisionIngest d o).1.runOn = c.runOn ∧ (c.provisionIngest d o).1.running = c.running ∧
    (c.provisionIngest d o).1.finished = c.finished ∧
    ((c.provisionIngest d o).2.2.map (·.2)).Nodup ∧
    (∀ p ∈ (c.provisionIngest d o).2.2, ∃ i, p.2 = Tid.ingest o i) := by
  unfold provisionIngest at hok ⊢
  by_cases hd : d > c.available.length
  · simp [hd] at hok
  · simp only [hd, if_false] at hok ⊢
    have h0 : Inv { c with ingestStatus := true, ingestDemand := d } U := { h with }
    generalize hp : ((c.available.take d).zipIdx.map (fun (x : Mid × Nat) => (x.1, Tid.ingest o x.2))) = pairs
      at hok ⊢
    have hfst : pairs.map (·.1) = c.available.take d := by
      subst hp; rw [List.map_map]; exact List.zipIdx_map_fst 0 _
    have hsnd : pairs.map (·.2) = (List.range' 0 (c.available.take d).length).map (Tid.ingest o) := by
      subst hp; rw [List.map_map, ← List.zipIdx_map_snd 0, List.map_map]; rfl
    have hsub : ∀ p ∈ pairs, p.1 ∈ c.available := by
      intro p hp'
      have : p.1 ∈ pairs.map (·.1) := List.mem_map_of_mem hp'
      rw [hfst] at this
      exact List.mem_of_mem_take this
    have hnd : (pairs.map (·.1)).Nodup := by
      rw [hfst]; exact (List.take_sublist d c.available).nodup h.avail_nodup
    have hnt : (pairs.map (·.2)).Nodup := by
      rw [hsnd]
      exact nodup_map_of_inj _ (fun a b e => by injection e) (List.nodup_range' 1)
    have hfr : ∀ p ∈ pairs, p.2.isIngest = true ∧ p.2 ∉ U := by
      intro p hp'
      have : p.2 ∈ pairs.map (·.2) := List.mem_map_of_mem hp'
      rw [hsnd] at this
      obtain ⟨i, _, hi⟩ := List.mem_map.mp this
      rw [← hi]
      exact ⟨rfl, hfresh i⟩
    obtain ⟨i1, i2, _⟩ := moveToIngest_ok h0 o pairs hsub hnd hnt hfr
    have hf := moveToIngest_fields { c with ingestStatus := true, ingestDemand := d } o pairs i1
    generalize hr : moveToIngest _ o pairs = r at i1 i2 hf hok
    obtain ⟨c2, e2⟩ := r
    simp only at i1 i2 hf ⊢
    refine ⟨i2, hf.1, hf.2.1, hf.2.2.1, hf.2.2.2, hnt, ?_⟩
    intro p hp'
    have : p.2 ∈ pairs.map (·.2) := List.mem_map_of_mem hp'
    rw [hsnd] at this
    obtain ⟨i, _, hi⟩ := List.mem_map.mp this
    exact ⟨i, hi.symm⟩

end Sys
end Topsim
