/-
  Bound1 — C05, the numeric clause (the serial bound) for QueueProcessing on the simulator:
  vocabulary and the decomposition into parts.

  `boundTau env s0 n` is the time of the event the kernel pops at index `n` (the clock of the block
  that turns `simAt env s0 n` into `simAt env s0 (n + 1)`).

  The accounting.  `boundV s0 s` is the total WEIGHT of the monotone predicates of Live5 / Live9
  that hold in `s`:
    * `PAst o`  (observation `o` admitted)                      weight `o.duration + 1`
    * `PQ o`    (handed to the scheduler)                       weight `1`
    * `PRm o`   (removed from the hot buffer)                   weight `1`
    * `PAT o node` (an allocation process exists for the node)  weight `boundWAT s0 o node`
        = max 1 (runtime on the slowest machine) + ⌈largest incoming transfer / slowest bandwidth⌉ + 1.
  The invariant proved in Bound-assembly is: after the latest planned start,
      clock + (1 if the state is idle and no enabled poller is still due at this instant) ≤ latest + V.
  An admission / a task start PRE-PAYS the whole life of the worker processes it creates (`tl`); an
  idle instant is paid by the removal or the worker end that happened in it.
-/
import TopsimProofs.Live20
import TopsimProofs.Live16

namespace Topsim

open KState Sys

/-- the time of the event popped at index `n` -/
def boundTau (env : SimEnv) (s0 : Sys) (n : Nat) : Time :=
  match (simAt env s0 n).peek with
  | some e => e.time
  | none => 0

/-- the latest planned start -/
def boundLatest (s0 : Sys) : Nat := (s0.obs.map (·.est)).foldl max 0

def boundSlowCpu (s0 : Sys) : Nat := (s0.machines.map (·.cpu)).foldl min (s0.machines.headD default).cpu

def boundSlowBw (s0 : Sys) : Nat := (s0.machines.map (·.bw)).foldl min (s0.machines.headD default).bw

/-- the attributes `(node, comp, task_data)` the planner reads for a node -/
def boundAttrs (o : Obs) (node : Nat) : Nat × Nat × Nat := (o.wf.nodes.find? (·.1 = node)).getD (node, 0, 0)

/-- occupancy of the node on the slowest machine -/
def boundRt (s0 : Sys) (o : Obs) (node : Nat) : Nat :=
  max 1 (max ((boundAttrs o node).2.1 / boundSlowCpu s0) ((boundAttrs o node).2.2 / boundSlowBw s0))

/-- the largest transfer wait of the node, rounded up -/
def boundWait (s0 : Sys) (o : Obs) (node : Nat) : Nat :=
  Sys.ceilDiv (((o.wf.edges.filter (fun e => e.2.1 = node)).map (·.2.2)).foldl max 0) (boundSlowBw s0)

/-- weight of the start of a workflow task -/
def boundWAT (s0 : Sys) (o : Obs) (node : Nat) : Nat := boundRt s0 o node + boundWait s0 o node + 1

open Classical in
/-- the weight of the stages that have happened -/
noncomputable def boundV (s0 s : Sys) : Nat :=
  (s0.obs.map (fun o =>
    (if Sys.PAst o.id s then o.duration + 1 else 0) + (if Sys.PQ o.id s then 1 else 0) +
    (if Sys.PRm o.id s then 1 else 0) +
    (o.wf.topo.map (fun node => if Sys.PAT o.id node s then boundWAT s0 o node else 0)).sum)).sum

/-- the weight of all the stages -/
def boundVTotal (s0 : Sys) : Nat :=
  (s0.obs.map (fun o => o.duration + 3 + (o.wf.topo.map (fun node => boundWAT s0 o node)).sum)).sum

/-- a worker process: ingest supervisor, provisioning, stream, allocation process, task body -/
def Proc.BoundWorker (q : Proc) : Prop :=
  q.k.tag = "allocIngest" ∨ q.k.tag = "provIngest" ∨ q.k.tag = "ingestStream" ∨
    q.k.tag = "allocTask" ∨ q.k.tag = "doWork"

/-- the workers of an ingest: supervisor, provisioning, stream, the allocation processes and bodies
of the ingest tasks -/
def Proc.BoundIngestWorker (q : Proc) : Prop :=
  q.k.tag = "allocIngest" ∨ q.k.tag = "provIngest" ∨ q.k.tag = "ingestStream" ∨
  (∃ t m preds obs ing ret, q.k = .allocTask t m preds obs ing ret ∧ t.isIngest = true) ∨
  (∃ t m preds ph tot, q.k = .doWork t m preds ph tot ∧ t.isIngest = true)

/-- the workers of a workflow task: its allocation process and its body -/
def Proc.BoundWfWorker (q : Proc) : Prop :=
  (∃ t m preds obs ing ret, q.k = .allocTask t m preds obs ing ret ∧ t.isIngest = false) ∨
  (∃ t m preds ph tot, q.k = .doWork t m preds ph tot ∧ t.isIngest = false)

/-- a polling process that will make a stage happen at its next block if the state is idle then -/
def Sys.BoundEn (s : Sys) (p : Proc) : Prop :=
  p.alive = true ∧
    ((p.k = .telescope ∧ ∃ ob ∈ s.obs, ob.ast = none) ∨
     (p.k = .schedLoop ∧ s.buf.hot.stored ≠ []) ∨
     (∃ o sc pa po, p.k = .allocTasks o sc pa po false ∧ o ∉ s.buf.hot.finished))

/-- `latest + V` at index `n`, as a time -/
noncomputable def boundLV (env : SimEnv) (s0 : Sys) (n : Nat) : Time :=
  ((boundLatest s0 + boundV s0 (simAt env s0 n).st : Nat) : Time)

/-- the parts of the proof of the bound (each is proved in its own file) -/
structure BoundParts (env : SimEnv) (s0 : Sys) : Prop where
  /-- every live process other than a task body is due at a whole instant, at most one unit after
  the clock -/
  wake_nat : ∀ n, ∀ q ∈ (simAt env s0 (n + 1)).st.procs, q.alive = true → q.k.tag ≠ "doWork" →
    ∃ m : Nat, q.wake = ((m : Nat) : Time) ∧ ((m : Nat) : Time) ≤ boundTau env s0 n + 1
  /-- timed liveness of the workers: every live worker is due (and so ends) before `latest + V`,
  provided the clock was within `latest + V` at every earlier index -/
  tl : ∀ n, (∀ j, j < n → boundTau env s0 j ≤ boundLV env s0 j) →
    ∀ q ∈ (simAt env s0 n).st.procs, q.alive = true → q.BoundWorker → q.wake + 1 ≤ boundLV env s0 n
  /-- an idle state that is not at `is_finished()` has an enabled poller -/
  idle_enabled : ∀ n, (simAt env s0 n).st.NoWorker → (simAt env s0 n).st.isFinished = false →
    ∃ p ∈ (simAt env s0 n).st.procs, (simAt env s0 n).st.BoundEn p
  /-- the block of an enabled poller in an idle state, after the latest planned start, makes a
  stage happen -/
  enabled_fires : ∀ n (e : HEntry) (p : Proc), (simAt env s0 n).peek = some e →
    (simAt env s0 n).st.proc? e.pid = some p → (simAt env s0 n).st.BoundEn p →
    (simAt env s0 n).st.NoWorker → ((boundLatest s0 : Nat) : Time) ≤ p.wake →
    boundV s0 (simAt env s0 n).st < boundV s0 (simAt env s0 (n + 1)).st
  /-- a block of another process in which no stage happens leaves an enabled poller enabled -/
  enabled_persists : ∀ n (e : HEntry) (p : Proc), (simAt env s0 n).peek = some e →
    p ∈ (simAt env s0 n).st.procs → p.pid ≠ e.pid → (simAt env s0 n).st.BoundEn p →
    boundV s0 (simAt env s0 (n + 1)).st = boundV s0 (simAt env s0 n).st →
    p ∈ (simAt env s0 (n + 1)).st.procs ∧ (simAt env s0 (n + 1)).st.BoundEn p
  v_mono : ∀ n, boundV s0 (simAt env s0 n).st ≤ boundV s0 (simAt env s0 (n + 1)).st
  v_total : ∀ n, boundLatest s0 + boundV s0 (simAt env s0 n).st ≤ Sys.serialBound s0

end Topsim
