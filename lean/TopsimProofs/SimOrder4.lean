/-
  SimOrder4 — nothing that is emitted is lost on the deterministic simulator.

  The runs of the simulator with the list of the events their blocks emit
  (`SimReachEv`, `SimRunEv`), and the invariant that makes "every emitted event is
  pending or logged" inductive in SimPy's order:

  * the monitor is resumed first at every instant (`MonFirst`), so at the moment
    the telescope (the scheduler loop) empties its pending list, the monitor has
    already moved it to the log (`SoWin`);
  * the scheduler loop is resumed before the `allocate_tasks` processes it started
    (`SoPairInv SoSL`), so what they append to the scheduler's pending list is
    appended after the list was emptied, and is collected by the monitor at the
    next instant before the list is emptied again.
-/
import TopsimProofs.SimOrder3

namespace Topsim

open KState Sys

/-- the scheduler loop starts the `allocate_tasks` processes -/
def SoSL (kc kd : PK) : Prop :=
  kc = .schedLoop ∧ ∃ o sc pa po fn, kd = .allocTasks o sc pa po fn

theorem soSL_dw (kc kd : PK) (h : SoSL kc kd) : kc.isDoWork = false ∧ kd.isDoWork = false := by
  obtain ⟨rfl, o, sc, pa, po, fn, rfl⟩ := h
  exact ⟨rfl, rfl⟩

theorem soSL_irr (k0 : PK) : ¬ SoSL k0 k0 := by
  rintro ⟨h1, o, sc, pa, po, fn, h2⟩
  rw [h1] at h2; cases h2

namespace Sys

/-- between the monitor's block of an instant and its own block of that instant, the pending
list of the telescope (of the scheduler loop) is empty -/
def SoWin (s : Sys) : Prop :=
  ∀ m ∈ s.procs, m.k = .monitor → m.alive = true →
    (∀ t ∈ s.procs, t.k = .telescope → t.alive = true → t.wake + 1 = m.wake → s.telEvents = []) ∧
    (∀ c ∈ s.procs, c.k = .schedLoop → c.alive = true → c.wake + 1 = m.wake → s.schEvents = [])

theorem so_mem_lcAll_step {log tel sch buf T C t c u : List Event} (hT : ∀ x ∈ tel, x ∈ T)
    (hC : ∀ x ∈ sch, x ∈ C) {e0 : Event}
    (h : e0 ∈ log ++ tel ++ sch ++ buf ∨ e0 ∈ t ++ c ++ u) :
    e0 ∈ log ++ (T ++ t) ++ (C ++ c) ++ (buf ++ u) := by
  have h1 := hT e0
  have h2 := hC e0
  simp only [List.mem_append] at h ⊢
  rcases h with (((h | h) | h) | h) | ((h | h) | h)
  · exact Or.inl (Or.inl (Or.inl h))
  · exact Or.inl (Or.inl (Or.inr (Or.inl (h1 h))))
  · exact Or.inl (Or.inr (Or.inl (h2 h)))
  · exact Or.inr (Or.inl h)
  · exact Or.inl (Or.inl (Or.inr (Or.inr h)))
  · exact Or.inl (Or.inr (Or.inr h))
  · exact Or.inr (Or.inr h)

theorem so_stepEvents_dead {s : Sys} {pid : Nat} (orc : Oracle)
    (h : ∀ q, s.proc? pid = some q → q.alive = false) : s.stepEvents pid orc = [] := by
  unfold stepEvents
  cases hq : s.proc? pid with
  | none => rfl
  | some q => simp [h q hq]

end Sys

/-! ### runs with their emitted events -/

/-- the events emitted by the kernel step from `k`: those of the block of the popped process -/
def simStepEvents (env : SimEnv) (k : SimState) : List Event :=
  match k.peek with
  | some e => k.st.stepEvents e.pid (env.oracle k.st)
  | none => []

/-- `SimReach`, with the list of the events emitted by the steps, in order -/
inductive SimReachEv (env : SimEnv) (s0 : Sys) : SimState → List Event → Prop
  | start : SimReachEv env s0 (SimState.start s0) []
  | step (k k1 : SimState) (evs : List Event) : SimReachEv env s0 k evs →
      k.step (simHandler env) = some k1 → SimReachEv env s0 k1 (evs ++ simStepEvents env k)
  | collate (k : SimState) (evs : List Event) : SimReachEv env s0 k evs →
      SimReachEv env s0 { k with st := k.st.collate } evs

/-- `SimRun`, with the list of the events emitted by the steps, in order -/
inductive SimRunEv (env : SimEnv) (s0 : Sys) : SimState → List Event → Prop
  | start : SimRunEv env s0 (SimState.start s0) []
  | step (k k1 : SimState) (evs : List Event) : SimRunEv env s0 k evs → k.st.halted = false →
      k.step (simHandler env) = some k1 → SimRunEv env s0 k1 (evs ++ simStepEvents env k)

theorem SimRunEv.toReachEv {env : SimEnv} {s0 : Sys} {k : SimState} {evs : List Event}
    (h : SimRunEv env s0 k evs) : SimReachEv env s0 k evs := by
  induction h with
  | start => exact SimReachEv.start
  | step k k1 evs _ _ hs ih => exact SimReachEv.step k k1 evs ih hs

theorem SimRunEv.toRun {env : SimEnv} {s0 : Sys} {k : SimState} {evs : List Event}
    (h : SimRunEv env s0 k evs) : SimRun env s0 k := by
  induction h with
  | start => exact SimRun.start
  | step k k1 evs _ hh hs ih => exact SimRun.step k k1 ih hh hs

theorem SimReachEv.toReach {env : SimEnv} {s0 : Sys} {k : SimState} {evs : List Event}
    (h : SimReachEv env s0 k evs) : SimReach env s0 k := by
  induction h with
  | start => exact SimReach.start
  | step k k1 evs _ hs ih => exact SimReach.step k k1 ih hs
  | collate k evs _ ih => exact SimReach.collate k ih

theorem SimRun.toEv {env : SimEnv} {s0 : Sys} {k : SimState} (h : SimRun env s0 k) :
    ∃ evs, SimRunEv env s0 k evs := by
  induction h with
  | start => exact ⟨[], SimRunEv.start⟩
  | step k k1 _ hh hs ih =>
    obtain ⟨evs, hev⟩ := ih
    exact ⟨_, SimRunEv.step k k1 evs hev hh hs⟩

theorem SimReach.toEv {env : SimEnv} {s0 : Sys} {k : SimState} (h : SimReach env s0 k) :
    ∃ evs, SimReachEv env s0 k evs := by
  induction h with
  | start => exact ⟨[], SimReachEv.start⟩
  | step k k1 _ hs ih =>
    obtain ⟨evs, hev⟩ := ih
    exact ⟨_, SimReachEv.step k k1 evs hev hs⟩
  | collate k _ ih =>
    obtain ⟨evs, hev⟩ := ih
    exact ⟨_, SimReachEv.collate k evs hev⟩

/-! ### the pairs (scheduler loop, `allocate_tasks` process) after one kernel step -/

theorem soSL_pairs (env : SimEnv) {k k' : SimState} (hs : SInv k.st) (h : IlHeapOk k)
    (hl : SoLoops k.st) (hl' : SoLoops k'.st) (hstep : k.step (simHandler env) = some k') :
    ∀ e, k.peek = some e → ∀ c' ∈ k'.st.procs, ∀ d' ∈ k'.st.procs, c'.alive = true →
      d'.alive = true → SoSL c'.k d'.k →
      (∃ c ∈ k.st.procs, ∃ d ∈ k.st.procs, c.alive = true ∧ d.alive = true ∧ c.pid = c'.pid ∧
        d.pid = d'.pid ∧ SoSL c.k d.k) ∨
      (c'.pid = e.pid ∧ k.st.nextPid ≤ d'.pid) := by
  have hpw := hs.pw
  have hi : EInv k.st := ⟨hs.pw, hs.eg⟩
  obtain ⟨_, _, e, hpk0, hcase⟩ := il_l3_step env k k' hs h hstep
  intro e1 hpk c' hc' d' hd' hca hda hR
  have hee : e = e1 := by rw [hpk0] at hpk; exact Option.some.inj hpk
  subst hee
  rcases hcase with ⟨hc, _⟩ | ⟨hen, ⟨p, hpp, ha, _⟩, hc⟩
  · left
    have hc0 : c' ∈ k.st.procs := by rw [hc] at hc'; exact hc'
    have hd0 : d' ∈ k.st.procs := by rw [hc] at hd'; exact hd'
    exact ⟨c', hc0, d', hd0, hca, hda, rfl, rfl, hR⟩
  · obtain ⟨hpm, hpid⟩ := proc?_some hpp
    obtain ⟨p0, hp0, _, hmin⟩ := hen
    rw [hpp] at hp0; cases hp0
    obtain ⟨m1, _, _⟩ := so_resume_origin hi hpp ha hmin (env.oracle k.st)
    have hcls := (block_class k.st hpw p (env.oracle k.st)).2
    have hc'3 : c'.pid = 3 := (hl' c' hc').2.2 hR.1
    rw [hc] at hc' hd'
    obtain ⟨hck, o, sc, pa, po, fn, hdk⟩ := hR
    -- the scheduler loop of the new table
    have hcorig := so_loop_origin hi hpp ha hmin (env.oracle k.st) hc' (Or.inr (Or.inr hck))
    rcases m1 d' hd' with hdp | ⟨hd0, hdne⟩ | ⟨hdge, hdnk⟩
    · -- the `allocate_tasks` process has run
      have hdk' := hdk
      rw [hdp, fin_k] at hdk'
      obtain ⟨sc0, pa0, po0, fn0, hpk'⟩ := (hcls o).mp ⟨sc, pa, po, fn, hdk'⟩
      rcases hcorig with ⟨_, hk⟩ | ⟨hc0, _⟩
      · rw [hck, hpk'] at hk; cases hk
      · left
        exact ⟨c', hc0, p, hpm, hca, ha, rfl, by rw [hdp]; simp, hck, o, sc0, pa0, po0, fn0, hpk'⟩
    · rcases hcorig with ⟨hcp, hk⟩ | ⟨hc0, _⟩
      · left
        exact ⟨p, hpm, d', hd0, ha, hda, by rw [hcp]; simp, rfl, hk.trans hck, o, sc, pa, po, fn, hdk⟩
      · left
        exact ⟨c', hc0, d', hd0, hca, hda, rfl, rfl, hck, o, sc, pa, po, fn, hdk⟩
    · -- a new `allocate_tasks` process: started by the scheduler loop, which has pid 3
      right
      refine ⟨?_, hdge⟩
      rw [hdk] at hdnk
      have hpsl := so_newKind_allocTasks hdnk
      rw [hc'3, ← hpid, (hl p hpm).2.2 hpsl]

/-! ### the invariant -/

structure SoEvInv (k : SimState) (evs : List Event) : Prop where
  loops : SoLoops k.st
  pair : SoPairInv SoSL k
  win : SoWin k.st
  sub : ∀ e ∈ evs, e ∈ lcAll k.st

theorem SoEvInv.init (s0 : Sys) (hw : WFConfig s0) : SoEvInv (SimState.start s0) [] := by
  have hst : (SimState.start s0).st = s0.start := rfl
  have hw0 : ∀ q ∈ s0.start.procs, q.wake = 0 := by
    rw [start_procs s0 hw]
    intro q hq
    simp only [List.mem_cons, List.not_mem_nil, or_false] at hq
    rcases hq with rfl | rfl | rfl | rfl | rfl <;> rfl
  refine ⟨by rw [hst]; exact so_loops_start s0 hw, ?_, ?_, by simp⟩
  · intro c _ d hd _ _ hR
    obtain ⟨_, o, sc, pa, po, fn, hdk⟩ := hR
    rw [hst, start_procs s0 hw] at hd
    simp only [List.mem_cons, List.not_mem_nil, or_false] at hd
    rcases hd with rfl | rfl | rfl | rfl | rfl <;> simp at hdk
  · rw [hst]
    intro m hm _ _
    constructor
    · intro t ht _ _ hwk
      rw [hw0 t ht, hw0 m hm] at hwk
      exfalso; grind
    · intro t ht _ _ hwk
      rw [hw0 t ht, hw0 m hm] at hwk
      exfalso; grind

theorem SoEvInv.collate {k : SimState} {evs : List Event} (inv : SoEvInv k evs) :
    SoEvInv { k with st := k.st.collate } evs := by
  refine ⟨inv.loops, inv.pair.collate, ?_, ?_⟩
  · intro _ _ _ _
    exact ⟨fun _ _ _ _ _ => rfl, fun _ _ _ _ _ => rfl⟩
  · intro e0 he0
    have := inv.sub e0 he0
    unfold lcAll at this ⊢
    simpa [Sys.collate] using this

theorem SoEvInv.step (env : SimEnv) {k k' : SimState} {evs : List Event} (hL : IlL3Inv k)
    (inv : SoEvInv k evs) (hstep : k.step (simHandler env) = some k') :
    SoEvInv k' (evs ++ simStepEvents env k) := by
  have hs := hL.sinv
  have h := hL.heap
  have hpw := hs.pw
  have hi : EInv k.st := ⟨hs.pw, hs.eg⟩
  obtain ⟨_, _, e, hpk, hcase⟩ := il_l3_step env k k' hs h hstep
  have hev : simStepEvents env k = k.st.stepEvents e.pid (env.oracle k.st) := by
    simp [simStepEvents, hpk]
  rcases hcase with ⟨hc, hdead⟩ | ⟨hen, ⟨p, hpp, ha, het⟩, hc⟩
  · -- the popped process is dead: only the flag is raised
    have hl' : SoLoops k'.st := by rw [hc]; exact inv.loops
    refine ⟨hl', ?_, ?_, ?_⟩
    · exact SoPairInv.step SoSL soSL_dw soSL_irr env k k' hs h inv.pair hstep
        (soSL_pairs env hs h inv.loops hl' hstep)
    · rw [hc]; exact inv.win
    · rw [hev, so_stepEvents_dead _ hdead, List.append_nil, hc]; exact inv.sub
  · obtain ⟨hpm, hpid⟩ := proc?_some hpp
    obtain ⟨p0, hp0, _, hmin⟩ := hen
    rw [hpp] at hp0; cases hp0
    have hen' : k.st.enabled e.pid := ⟨p, hpp, ha, hmin⟩
    generalize env.oracle k.st = orc at hc hev
    have hl' : SoLoops k'.st := by rw [hc]; exact so_loops_step hi inv.loops hen' orc
    have hpair' := SoPairInv.step SoSL soSL_dw soSL_irr env k k' hs h inv.pair hstep
      (soSL_pairs env hs h inv.loops hl' hstep)
    -- the monitor
    obtain ⟨q0, hq0, hq0k, hq0a⟩ := hL.mon.mon
    obtain ⟨hq0m, hq0p⟩ := proc?_some hq0
    have hmon_eq : ∀ m ∈ k.st.procs, m.k = .monitor → m = q0 := fun m hm hmk =>
      hpw.eq_of_pid hm hq0m (by rw [(inv.loops m hm).1 hmk, hq0p])
    -- the monitor has already run at this instant
    have hK : p.k.isDoWork = false → p.k ≠ .monitor → q0.wake = p.wake + 1 := by
      intro hdw hnm
      have hndw : ¬ k.st.isDW e.pid := by
        rintro ⟨q, hq, hqk⟩
        rw [hpp] at hq; cases hq
        rw [hdw] at hqk; cases hqk
      obtain ⟨m, hm, hmpid, hor⟩ := MonFirst.next k hL.mon e hpk hndw
      rcases hor with hem | hmt
      · exfalso
        have h0 : e.pid = 0 := by rw [hem]; exact hmpid
        rw [h0] at hpp
        rw [hq0] at hpp; cases hpp
        exact hnm hq0k
      · have := h.time m hm q0 hq0m (by rw [hq0p, hmpid]) hq0a
        rw [← this, hmt, het]
    have hwin' : SoWin (k.st.resume e.pid orc).1 := by
      intro m' hm' hm'k hm'a
      by_cases hmon : p.k = .monitor
      · obtain ⟨_, _, h3, h4, _⟩ := stepEvents_monitor k.st e.pid orc p hpp ha hmon
        exact ⟨fun _ _ _ _ _ => h3, fun _ _ _ _ _ => h4⟩
      · obtain ⟨t, c, u, _, htel, hsch, _, _, ht, hc0⟩ :=
          so_stepEvents_spec k.st e.pid orc p hpp ha hmon
        have hm0 : m' ∈ k.st.procs := by
          rcases so_loop_origin hi hpp ha hmin orc hm' (Or.inl hm'k) with ⟨_, hk⟩ | ⟨hq, _⟩
          · exact absurd (hk.trans hm'k) hmon
          · exact hq
        have hmq : m' = q0 := hmon_eq m' hm0 hm'k
        -- a loop that has just run is one step ahead of the monitor's next block
        have hran : ∀ q' : Proc, q' = fin (k.st.block p orc).2.1 (k.st.block p orc).2.2 p.wake p →
            q'.alive = true → p.k.isDoWork = false → q'.wake + 1 = m'.wake → False := by
          intro q' hq hq'a hdw hwk
          have hq0w := hK hdw hmon
          rw [hq] at hq'a hwk
          obtain ⟨_, d, hd⟩ := (il_fin_alive_iff _ _ _ _).mp hq'a
          have hu := block_unit k.st p orc hdw
          rw [hd] at hu hwk
          simp only [Yield.unit] at hu
          subst hu
          rw [il_fin_wake_timeout, hmq, hq0w] at hwk
          grind
        constructor
        · intro t' ht' ht'k ht'a hwk
          by_cases htl : p.k = .telescope
          · exfalso
            rcases so_loop_origin hi hpp ha hmin orc ht' (Or.inr (Or.inl ht'k)) with ⟨hq, _⟩ | ⟨hq, hne⟩
            · exact hran t' hq ht'a (by rw [htl]; rfl) hwk
            · apply hne
              rw [(inv.loops t' hq).2.1 ht'k, ← hpid, (inv.loops p hpm).2.1 htl]
          · rw [htel, if_neg htl, ht htl, List.append_nil]
            rcases so_loop_origin hi hpp ha hmin orc ht' (Or.inr (Or.inl ht'k)) with ⟨_, hk⟩ | ⟨hq, _⟩
            · exact absurd (hk.trans ht'k) htl
            · exact (inv.win m' hm0 hm'k hm'a).1 t' hq ht'k ht'a hwk
        · intro c' hc' hc'k hc'a hwk
          by_cases hsl : p.k = .schedLoop
          · exfalso
            rcases so_loop_origin hi hpp ha hmin orc hc' (Or.inr (Or.inr hc'k)) with ⟨hq, _⟩ | ⟨hq, hne⟩
            · exact hran c' hq hc'a (by rw [hsl]; rfl) hwk
            · apply hne
              rw [(inv.loops c' hq).2.2 hc'k, ← hpid, (inv.loops p hpm).2.2 hsl]
          · have hcold : c' ∈ k.st.procs := by
              rcases so_loop_origin hi hpp ha hmin orc hc' (Or.inr (Or.inr hc'k)) with ⟨_, hk⟩ | ⟨hq, _⟩
              · exact absurd (hk.trans hc'k) hsl
              · exact hq
            by_cases hat : ∃ o sc pa po fn, p.k = .allocTasks o sc pa po fn
            · -- an `allocate_tasks` process runs after the scheduler loop
              exfalso
              obtain ⟨o, sc, pa, po, fn, hpk'⟩ := hat
              have hq0w := hK (by rw [hpk']; rfl) hmon
              have := SoPairInv.popped h inv.pair hpk hcold hpm hc'a ha
                ⟨hc'k, o, sc, pa, po, fn, hpk'⟩ hpid.symm
              rw [hmq, hq0w, ← this] at hwk
              grind
            · rw [hsch, if_neg hsl,
                hc0 hsl (fun o sc pa po fn hh => hat ⟨o, sc, pa, po, fn, hh⟩), List.append_nil]
              exact (inv.win m' hm0 hm'k hm'a).2 c' hcold hc'k hc'a hwk
    have hsub' : ∀ e0 ∈ evs ++ k.st.stepEvents e.pid orc, e0 ∈ lcAll (k.st.resume e.pid orc).1 := by
      intro e0 he0
      by_cases hmon : p.k = .monitor
      · obtain ⟨h0, h1, h2, h3, h4⟩ := stepEvents_monitor k.st e.pid orc p hpp ha hmon
        rw [h0, List.append_nil] at he0
        have := inv.sub e0 he0
        unfold lcAll at this ⊢
        rw [h1, h2, h3, h4]
        simpa using this
      · obtain ⟨t, c, u, hse, htel, hsch, hbuf, hlog, _, _⟩ :=
          so_stepEvents_spec k.st e.pid orc p hpp ha hmon
        have hT : ∀ x ∈ k.st.telEvents, x ∈ (if p.k = .telescope then [] else k.st.telEvents) := by
          by_cases htl : p.k = .telescope
          · have hq0w := hK (by rw [htl]; rfl) hmon
            have := (inv.win q0 hq0m hq0k hq0a).1 p hpm htl ha hq0w.symm
            rw [this]; simp
          · rw [if_neg htl]; exact fun _ hx => hx
        have hC : ∀ x ∈ k.st.schEvents, x ∈ (if p.k = .schedLoop then [] else k.st.schEvents) := by
          by_cases hsl : p.k = .schedLoop
          · have hq0w := hK (by rw [hsl]; rfl) hmon
            have := (inv.win q0 hq0m hq0k hq0a).2 p hpm hsl ha hq0w.symm
            rw [this]; simp
          · rw [if_neg hsl]; exact fun _ hx => hx
        unfold lcAll
        rw [htel, hsch, hbuf, hlog]
        apply so_mem_lcAll_step hT hC
        rcases List.mem_append.mp he0 with he0 | he0
        · exact Or.inl (inv.sub e0 he0)
        · right; rw [← hse]; exact he0
    refine ⟨hl', hpair', by rw [hc]; exact hwin', ?_⟩
    rw [hev, hc]; exact hsub'

theorem SimReachEv.evInv {env : SimEnv} {s0 : Sys} (hw : WFConfig s0) {k : SimState}
    {evs : List Event} (h : SimReachEv env s0 k evs) : SoEvInv k evs := by
  induction h with
  | start => exact SoEvInv.init s0 hw
  | step k k1 evs hr hs ih => exact ih.step env (hr.toReach.l3inv hw) hs
  | collate k evs _ ih => exact ih.collate

/-- **Nothing is lost**: along every run of the simulator (pause hand-overs included) every
emitted event is pending or logged. -/
theorem sim_log_complete (env : SimEnv) (s0 : Sys) (hw : WFConfig s0) (k : SimState)
    (evs : List Event) (h : SimReachEv env s0 k evs) : ∀ e ∈ evs, e ∈ lcAll k.st :=
  (h.evInv hw).sub

/-! ### the mechanism, readable on its own -/

/-- when the kernel is about to resume a live process that is neither the monitor nor a task body,
the monitor has already run at this instant: its next block is one step later -/
theorem so_mon_ran {k : SimState} (hL : IlL3Inv k) {e : HEntry} (hpk : k.peek = some e) {p : Proc}
    (hpp : k.st.proc? e.pid = some p) (ha : p.alive = true) (hdw : p.k.isDoWork = false)
    (hnm : p.k ≠ .monitor) :
    ∃ q0, k.st.proc? 0 = some q0 ∧ q0.k = .monitor ∧ q0.alive = true ∧ q0.wake = p.wake + 1 := by
  obtain ⟨q0, hq0, hq0k, hq0a⟩ := hL.mon.mon
  obtain ⟨hq0m, hq0p⟩ := proc?_some hq0
  obtain ⟨hpm, hpid⟩ := proc?_some hpp
  obtain ⟨he, _⟩ := peek_spec k e hpk
  have het : e.time = p.wake := hL.heap.time e he p hpm hpid ha
  refine ⟨q0, hq0, hq0k, hq0a, ?_⟩
  have hndw : ¬ k.st.isDW e.pid := by
    rintro ⟨q, hq, hqk⟩
    rw [hpp] at hq; cases hq
    rw [hdw] at hqk; cases hqk
  obtain ⟨m, hm, hmpid, hor⟩ := MonFirst.next k hL.mon e hpk hndw
  rcases hor with hem | hmt
  · exfalso
    have h0 : e.pid = 0 := by rw [hem]; exact hmpid
    rw [h0] at hpp
    rw [hq0] at hpp; cases hpp
    exact hnm hq0k
  · have := hL.heap.time m hm q0 hq0m (by rw [hq0p, hmpid]) hq0a
    rw [← this, hmt, het]

/-- the list a loop is about to empty has already been moved to the log: when the kernel is about
to resume the telescope (the scheduler loop), the telescope's (the scheduler's) pending list is
empty -/
theorem sim_clear_after_collate (env : SimEnv) (s0 : Sys) (hw : WFConfig s0) (k : SimState)
    (evs : List Event) (h : SimReachEv env s0 k evs) (e : HEntry) (hpk : k.peek = some e) (p : Proc)
    (hpp : k.st.proc? e.pid = some p) (ha : p.alive = true) :
    (p.k = .telescope → k.st.telEvents = []) ∧ (p.k = .schedLoop → k.st.schEvents = []) := by
  have hL := h.toReach.l3inv hw
  have inv := h.evInv hw
  obtain ⟨hpm, _⟩ := proc?_some hpp
  constructor
  · intro hk
    obtain ⟨q0, hq0, hq0k, hq0a, hq0w⟩ := so_mon_ran hL hpk hpp ha (by rw [hk]; rfl) (by rw [hk]; simp)
    exact (inv.win q0 (proc?_some hq0).1 hq0k hq0a).1 p hpm hk ha hq0w.symm
  · intro hk
    obtain ⟨q0, hq0, hq0k, hq0a, hq0w⟩ := so_mon_ran hL hpk hpp ha (by rw [hk]; rfl) (by rw [hk]; simp)
    exact (inv.win q0 (proc?_some hq0).1 hq0k hq0a).2 p hpm hk ha hq0w.symm

/-- … and an `allocate_tasks` process, which appends to the scheduler's pending list, is resumed
after the scheduler loop of the instant -/
theorem sim_allocTasks_after_schedLoop (env : SimEnv) (s0 : Sys) (hw : WFConfig s0) (k : SimState)
    (evs : List Event) (h : SimReachEv env s0 k evs) (e : HEntry) (hpk : k.peek = some e) (p : Proc)
    (hpp : k.st.proc? e.pid = some p) (ha : p.alive = true) (o : Oid) (sc pa : List (Tid × Mid))
    (po : List Tid) (fn : Bool) (hk : p.k = .allocTasks o sc pa po fn) (c : Proc) (hc : c ∈ k.st.procs)
    (hca : c.alive = true) (hck : c.k = .schedLoop) : p.wake + 1 = c.wake := by
  have hL := h.toReach.l3inv hw
  have inv := h.evInv hw
  obtain ⟨hpm, hpid⟩ := proc?_some hpp
  exact SoPairInv.popped hL.heap inv.pair hpk hc hpm hca ha ⟨hck, o, sc, pa, po, fn, hk⟩ hpid.symm

/-! ### the traced runs are traced runs of the block system -/

theorem l3_refines_reachEv (env : SimEnv) (s0 : Sys) (hw : WFConfig s0) (k : SimState)
    (evs : List Event) (h : SimRunEv env s0 k evs) :
    ∃ s, ReachEvOk s0 s evs ∧ (k.st = s ∨ (k.st = { s with halted := true } ∧ k.st.halted = true)) := by
  induction h with
  | start => exact ⟨_, ReachEvOk.start, Or.inl rfl⟩
  | step k k1 evs hr hh hs ih =>
    obtain ⟨s, hrs, hks⟩ := ih
    rcases hks with hks | ⟨_, hks⟩
    · obtain ⟨hsi, hho⟩ := hr.toRun.toReach.inv hw
      obtain ⟨_, _, e, hpk, hc⟩ := il_l3_step env k k1 hsi hho hs
      have hev : simStepEvents env k = k.st.stepEvents e.pid (env.oracle k.st) := by
        simp [simStepEvents, hpk]
      rcases hc with ⟨hc, hdead⟩ | ⟨hen, _, hc⟩
      · refine ⟨s, ?_, Or.inr ⟨by rw [hc, hks], by rw [hc]⟩⟩
        rw [hev, so_stepEvents_dead _ hdead, List.append_nil]; exact hrs
      · have hse := ReachEvOk.step s evs e.pid (env.oracle s) hrs (by rw [← hks]; exact hen)
          (fun _ => il_oracle_preOk env s)
        refine ⟨(s.resume e.pid (env.oracle s)).1, ?_, Or.inl (by rw [hc, hks])⟩
        rw [hev, hks]; exact hse
    · rw [hks] at hh; exact absurd hh (by simp)

end Topsim
