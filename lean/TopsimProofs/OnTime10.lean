/-
  OnTime10 — the machines ingest holds for one observation, against the clock:
  none before the recorded start and none after `ast + duration`; exactly the
  pipeline demand strictly between the instant of the recorded start and the
  instant `ast + duration - 1` in which the ingest bodies end.
-/
import TopsimProofs.OnTime9

namespace Topsim

open KState Sys

/-- the ingest pool is, machine for machine, what the ingest allocation processes hold -/
theorem ot_pool_perm {c : Cluster} {U : List Tid} (h : Cluster.Inv c U) :
    (c.ilEntries.map (·.mach)).Perm c.ingest := by
  rw [List.perm_iff_count]
  intro m
  have h1 := h.ingm m
  have h2 : (c.runOn.filter (·.ing)).map (·.mach) = c.runMachines true := by
    unfold Cluster.runMachines
    congr 1
    apply List.filter_congr
    intro x _
    cases x.ing <;> rfl
  unfold Cluster.ilEntries
  rw [List.map_append, List.count_append, h2]
  omega

theorem ot_held_zero {s : Sys} {o : Oid} (h : ∀ e ∈ s.cl.ilEntries, e.obs ≠ some o) : s.ingestHeld o = 0 := by
  unfold ingestHeld ilEntCount
  rw [List.countP_eq_zero]
  intro e he
  simpa using h e he

theorem ot_cast_pred_succ (a D : Nat) (hD : 1 ≤ D) :
    ((a + (D - 1) : Nat) : Time) + 1 = ((a + D : Nat) : Time) := by
  rw [lcCast_succ]
  congr 1
  omega

/-- **Nothing is held before the start or after the end.**  Whenever the kernel is about to resume a
live process (at time `e.time`): an allocation process that holds a machine of the ingest pool works
for an observation with a recorded start `a`, and `e.time ≤ a + duration`. -/
theorem sim_ingest_window (env : SimEnv) (s0 : Sys) (hw : WFConfig s0) (k : SimState)
    (h : SimReach env s0 k) {e : HEntry} {p : Proc} (hpk : k.peek = some e)
    (hpp : k.st.proc? e.pid = some p) (ha : p.alive = true) :
    ∀ x ∈ k.st.cl.ilEntries, ∃ o ob a, x.obs = some o ∧ k.st.obs? o = some ob ∧ ob.ast = some a ∧
      e.time ≤ (((a + ob.duration : Nat) : Nat) : Time) := by
  have hinv := h.l3inv hw
  obtain ⟨⟨p', hp', _, hmin⟩, het⟩ := hinv.heap.enabled hinv.sinv.pw hpk hpp ha
  rw [hpp] at hp'; cases hp'
  intro x hx
  rcases mem_ilEntries.mp hx with hpd | ⟨hro, hi⟩
  · obtain ⟨o, ho, q, hq, hqa, hqc, preds, ret, hqk⟩ := hinv.ti.entPend x hpd
    obtain ⟨_, _, ob, a, hob, hast, hwk⟩ := hinv.ti.atPend q hq hqa hqc _ _ _ _ _ hqk
    refine ⟨o, ob, a, ho, hob, hast, ?_⟩
    rw [het]
    refine Rat.le_trans (hmin q hq hqa) ?_
    rw [hwk]
    exact natCast_le_natCast (by omega)
  · obtain ⟨o, ho, q, hq, hqa, hqc, preds, ret, hqk⟩ := hinv.ti.entRun x hro hi
    obtain ⟨_, r, _, _, hqw, _, _, _, _, ob, a, b, hob, hast, hrw, _, hbd⟩ :=
      hinv.ti.atRun q hq hqa hqc _ _ _ _ _ hqk
    refine ⟨o, ob, a, ho, hob, hast, ?_⟩
    rw [het]
    refine Rat.le_trans (hmin q hq hqa) (Rat.le_trans hqw ?_)
    rw [hrw, lcCast_succ]
    exact natCast_le_natCast hbd

/-- **Exactly the demand in between.**  In a run in which no exception has been raised, whenever the
kernel is about to resume a live process at a time strictly after the recorded start `a` of an
observation and more than one step before `a + duration`: the provisioning block of the observation
has run, none of its ingest bodies has ended, and exactly `ingestDemand` allocation processes hold a
machine of the ingest pool for it. -/
theorem sim_ingest_exact (env : SimEnv) (s0 : Sys) (hw : WFConfig s0) (k : SimState)
    (h : SimReach env s0 k) (hc : k.st.crashed = none) {e : HEntry} {p : Proc} (hpk : k.peek = some e)
    (hpp : k.st.proc? e.pid = some p) (ha : p.alive = true) {oid : Oid} {ob : Obs} {a : Nat}
    (hob : k.st.obs? oid = some ob) (hast : ob.ast = some a) (hlo : ((a : Nat) : Time) < e.time)
    (hhi : e.time + 1 < (((a + ob.duration : Nat) : Nat) : Time)) :
    Provisioned k.st oid ∧ NoDeadBody k.st oid ∧ k.st.ingestHeld oid = ob.ingestDemand := by
  have hinv := h.l3inv hw
  have hA := sim_otAst env s0 hw k h
  have hC := sim_otClock env s0 hw k h
  have hCh := sim_otChain env s0 hw k h
  have hB := sim_otBody env s0 hw k h hc
  obtain ⟨hpm, _⟩ := proc?_some hpp
  obtain ⟨⟨p', hp', _, hmin⟩, het⟩ := hinv.heap.enabled hinv.sinv.pw hpk hpp ha
  rw [hpp] at hp'; cases hp'
  rw [het] at hlo hhi
  have hD := hinv.ti.durPos ob (obs_mem_of_obs? hob).1
  -- a live process due at `a` would have run
  have hpast : ∀ q ∈ k.st.procs, q.alive = true → q.wake = ((a : Nat) : Time) → False := by
    intro q hq hqa hqw
    have := hmin q hq hqa
    rw [hqw] at this
    exact absurd hlo (Rat.not_lt.mpr this)
  -- the observation has left WAITING
  have hnw : ob.status ≠ .waiting := by
    intro hw1
    have hadm := hA.adm oid ob hob (by rw [hast]; simp)
    obtain ⟨ob2, hob2, hsup⟩ := hinv.sinv.eg.adm oid hadm
    rw [hob] at hob2; cases hob2
    obtain ⟨q, hq, hqa, hqc, ⟨tl, hqk⟩, _⟩ := hsup hw1
    obtain ⟨n, ob3, hwn, hob3, hast3, _⟩ := hinv.ti.aiNew q hq oid tl hqk hqc
    rw [hob] at hob3; cases hob3
    rw [hast] at hast3; cases hast3
    exact hpast q hq hqa hwn
  -- the provisioning block has run
  have hprov : Provisioned k.st oid := by
    obtain ⟨q, hq, d, hqk⟩ := hCh.begun oid ob hob hnw
    refine ⟨q, hq, d, hqk, ?_⟩
    cases hqa : q.alive with
    | false => exact hCh.deadPc q hq hqa
    | true =>
      by_cases hqc : q.pc = 0
      · exfalso
        obtain ⟨ob2, a2, hob2, hast2, hwk⟩ := hinv.ti.piW q hq hqa hqc oid d hqk
        rw [hob] at hob2; cases hob2
        rw [hast] at hast2; cases hast2
        exact hpast q hq hqa hwk
      · omega
  -- no ingest body has ended
  have hnd : NoDeadBody k.st oid := by
    intro r hr i m c ph tot hrk
    cases hra : r.alive with
    | true => rfl
    | false =>
      exfalso
      have h2 := hB.deadPh r hr oid i m c ph tot hrk hra
      obtain ⟨ob2, a2, _, hob2, hast2, hwk, _⟩ := hB.started r hr oid i m c ph tot hrk h2
      rw [hob] at hob2; cases hob2
      rw [hast] at hast2; cases hast2
      have h3 : r.wake ≤ p.wake := hC.dead r hr hra p hpm ha
      rw [hwk] at h3
      have h4 := ot_cast_pred_succ a ob.duration hD
      have h5 : ((a + (ob.duration - 1) : Nat) : Time) + 1 ≤ p.wake + 1 := Rat.add_le_add_right.mpr h3
      rw [h4] at h5
      exact absurd hhi (Rat.not_lt.mpr h5)
  refine ⟨hprov, hnd, ?_⟩
  rw [sim_otCount env s0 hw k h hc oid hprov hnd]
  unfold ilDemand
  rw [hob]

/-- … and each of these allocation processes runs an ingest task of the observation whose record
carries the observation's recorded start. -/
theorem sim_ingest_tasks (env : SimEnv) (s0 : Sys) (hw : WFConfig s0) (k : SimState)
    (h : SimReach env s0 k) (hc : k.st.crashed = none) {e : HEntry} {p : Proc} (hpk : k.peek = some e)
    (hpp : k.st.proc? e.pid = some p) (ha : p.alive = true) {oid : Oid} {ob : Obs} {a : Nat}
    (hob : k.st.obs? oid = some ob) (hast : ob.ast = some a) (hlo : ((a : Nat) : Time) < e.time) :
    ∀ x ∈ k.st.cl.ilEntries, x.obs = some oid →
      x ∈ k.st.cl.runOn ∧ x.mach ∈ k.st.cl.ingest ∧
      ∃ i rec, x.task = .ingest oid i ∧ k.st.task? (.ingest oid i) = some rec ∧
        rec.ast = some ((a : Nat) : Time) := by
  have hinv := h.l3inv hw
  have hB := sim_otBody env s0 hw k h hc
  obtain ⟨U, hU⟩ := hinv.sinv.ci
  obtain ⟨⟨p', hp', _, hmin⟩, het⟩ := hinv.heap.enabled hinv.sinv.pw hpk hpp ha
  rw [hpp] at hp'; cases hp'
  rw [het] at hlo
  have hpast : ∀ q ∈ k.st.procs, q.alive = true → q.wake = ((a : Nat) : Time) → False := by
    intro q hq hqa hqw
    have := hmin q hq hqa
    rw [hqw] at this
    exact absurd hlo (Rat.not_lt.mpr this)
  intro x hx hxo
  have hmach : x.mach ∈ k.st.cl.ingest :=
    (ot_pool_perm hU.inv).subset (List.mem_map_of_mem hx)
  rcases mem_ilEntries.mp hx with hpd | ⟨hro, hi⟩
  · exfalso
    obtain ⟨o, ho, q, hq, hqa, hqc, preds, ret, hqk⟩ := hinv.ti.entPend x hpd
    rw [hxo] at ho; cases ho
    obtain ⟨_, _, ob2, a2, hob2, hast2, hwk⟩ := hinv.ti.atPend q hq hqa hqc _ _ _ _ _ hqk
    rw [hob] at hob2; cases hob2
    rw [hast] at hast2; cases hast2
    exact hpast q hq hqa hwk
  · obtain ⟨o, ho, q, hq, hqa, hqc, preds, ret, hqk⟩ := hinv.ti.entRun x hro hi
    rw [hxo] at ho; cases ho
    obtain ⟨⟨i, hti⟩, r, hr, _, _, ph, tot, hrk, hph, ob2, a2, b, hob2, hast2, hrw, hb0, _⟩ :=
      hinv.ti.atRun q hq hqa hqc _ _ _ _ _ hqk
    rw [hob] at hob2; cases hob2
    rw [hast] at hast2; cases hast2
    rw [hti] at hrk
    have h2 : 2 ≤ ph := by
      cases hra : r.alive with
      | false => exact hB.deadPh r hr oid i _ _ ph tot hrk hra
      | true =>
        rcases hph hra with h0 | h2
        · exfalso
          have := hb0 hra h0
          rw [this] at hrw
          exact hpast r hr hra hrw
        · exact h2
    obtain ⟨ob3, a3, rec, hob3, hast3, _, hrec, hrast⟩ := hB.started r hr oid i _ _ ph tot hrk h2
    rw [hob] at hob3; cases hob3
    rw [hast] at hast3; cases hast3
    exact ⟨hro, hmach, i, rec, hti, hrec, hrast⟩

end Topsim
