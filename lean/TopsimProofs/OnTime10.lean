/-
  OnTime10 — the machines ingest holds for one observation, against the clock:
  none before the recorded start and none after `ast + duration`; exactly the
  pipeline demand strictly between the instant of the recorded start and the
  instant `ast + duration` in which the machines are given back.
  -- F13: before the repair "… and the instant `ast + duration - 1` in which the ingest bodies end".
-/
import TopsimProofs.OnTime9

namespace Topsim

open KState Sys

/-- the ingest pool is, machine for machine, what the ingest allocation processes hold -/
theorem ot_pool_perm {c : Cluster} {U : List Tid} (h : Cluster.Inv c U) :
    (c.ilEntries.map (·.mach)).Perm c.ingest := by
  rw [List.perm_iff_count]
  intro m
  have h1 := h.ingm m
  have h2 : (c.runOn.filter (·.ing)).map (·.mach) = c.runMachines true := by
    unfold Cluster.runMachines
    congr 1
    apply List.filter_congr
    intro x _
    cases x.ing <;> rfl
  unfold Cluster.ilEntries
  rw [List.map_append, List.count_append, h2]
  omega

theorem ot_held_zero {s : Sys} {o : Oid} (h : ∀ e ∈ s.cl.ilEntries, e.obs ≠ some o) : s.ingestHeld o = 0 := by
  unfold ingestHeld ilEntCount
  rw [List.countP_eq_zero]
  intro e he
  simpa using h e he

/-- **Nothing is held before the start or after the end.**  Whenever the kernel is about to resume a
live process (at time `e.time`): an allocation process that holds a machine of the ingest pool works
for an observation with a recorded start `a`, and `e.time ≤ a + duration`. -/
theorem sim_ingest_window (env : SimEnv) (s0 : Sys) (hw : WFConfig s0) (k : SimState)
    (h : SimReach env s0 k) {e : HEntry} {p : Proc} (hpk : k.peek = some e)
    (hpp : k.st.proc? e.pid = some p) (ha : p.alive = true) :
    ∀ x ∈ k.st.cl.ilEntries, ∃ o ob a, x.obs = some o ∧ k.st.obs? o = some ob ∧ ob.ast = some a ∧
      e.time ≤ (((a + ob.duration : Nat) : Nat) : Time) := by
  have hinv := h.l3inv hw
  obtain ⟨⟨p', hp', _, hmin⟩, het⟩ := hinv.heap.enabled hinv.sinv.pw hpk hpp ha
  rw [hpp] at hp'; cases hp'
  intro x hx
  rcases mem_ilEntries.mp hx with hpd | ⟨hro, hi⟩
  · obtain ⟨o, ho, q, hq, hqa, hqc, preds, ret, hqk⟩ := hinv.ti.entPend x hpd
    obtain ⟨_, _, ob, a, hob, hast, hwk⟩ := hinv.ti.atPend q hq hqa hqc _ _ _ _ _ hqk
    refine ⟨o, ob, a, ho, hob, hast, ?_⟩
    rw [het]
    refine Rat.le_trans (hmin q hq hqa) ?_
    rw [hwk]
    exact natCast_le_natCast (by omega)
  · obtain ⟨o, ho, q, hq, hqa, hqc, preds, ret, hqk⟩ := hinv.ti.entRun x hro hi
    obtain ⟨_, r, _, _, hqw, _, _, _, _, ob, a, b, hob, hast, hrw, _, hbd⟩ :=
      hinv.ti.atRun q hq hqa hqc _ _ _ _ _ hqk
    refine ⟨o, ob, a, ho, hob, hast, ?_⟩
    rw [het]
    refine Rat.le_trans (hmin q hq hqa) (Rat.le_trans hqw ?_)
    rw [hrw, lcCast_succ]
    exact natCast_le_natCast hbd.1

/-! ### the instant `ast + duration` (F13) -/

/-- in SimPy's order the block of a process that is neither the telescope, the monitor nor a task
body comes after the telescope's block of the instant (`il_l3_policy`, for every such process) -/
theorem ot_l3_after_tel {k : SimState} (hs : SInv k.st) (h : IlHeapOk k) (hmon : k.st.isMon) (htf : IlTelFirst k)
    {e : HEntry} (hpk : k.peek = some e) {p : Proc} (hpp : k.st.proc? e.pid = some p)
    (het : e.time = p.wake) (hnt : p.k ≠ .telescope) (hnm : p.k ≠ .monitor) (hnd : p.k.isDoWork = false) :
    ∀ t ∈ k.st.procs, t.k = .telescope → t.alive = true → p.wake + 1 ≤ t.wake := by
  intro t ht htk hta
  obtain ⟨he, hleast⟩ := peek_spec k e hpk
  obtain ⟨hpm, hpid⟩ := proc?_some hpp
  obtain ⟨m, hm, hmpid, _, hfirst⟩ := htf t ht htk hta
  have hpw := hs.pw
  have hem : e ≠ m := by
    intro hem
    have : p = t := hpw.eq_of_pid hpm ht (by rw [hpid, hem, hmpid])
    rw [this] at hnt
    exact hnt htk
  have he0 : e.pid ≠ 0 := by
    intro e0
    obtain ⟨q, hq, hqk, _⟩ := hmon
    rw [e0] at hpp
    rw [hq] at hpp; cases hpp
    exact hnm hqk
  have hedw : ¬ k.st.isDW e.pid := by
    rintro ⟨q, hq, hqk⟩
    rw [hpp] at hq; cases hq
    rw [hnd] at hqk; cases hqk
  have hmt : m.time = t.wake := h.time m hm t ht hmpid.symm hta
  rcases hfirst e he hem he0 hedw with h1 | ⟨_, h2⟩
  · rw [← het, ← hmt, h1]; exact Rat.le_refl
  · rw [hleast m hm] at h2; cases h2

namespace Sys

/-- an ingest allocation process that has ended ran its last block strictly before the next block
of the telescope's loop (in SimPy's order: after the telescope's block of that instant) -/
def OtRelTel (s : Sys) : Prop :=
  ∀ q ∈ s.procs, q.alive = false → ∀ t m preds o ret, q.k = .allocTask t m preds o true ret →
    ∀ tel ∈ s.procs, tel.k = .telescope → tel.alive = true → q.wake < tel.wake

end Sys

theorem sim_otRelTel (env : SimEnv) (s0 : Sys) (hw : WFConfig s0) (k : SimState) (h : SimReach env s0 k) :
    OtRelTel k.st := by
  induction h with
  | start =>
    intro q hq _ t m preds o ret hk
    have hq' : q ∈ s0.start.procs := hq
    rw [start_procs s0 hw] at hq'
    simp only [List.mem_cons, List.not_mem_nil, or_false] at hq'
    rcases hq' with rfl | rfl | rfl | rfl | rfl <;> simp at hk
  | collate k _ ih => exact ih
  | step k k1 hr hs ih =>
    obtain ⟨e, hpk, hc⟩ := ot_step_cases hw hr hs
    rcases hc with ⟨hc, _⟩ | ⟨p, hpp, ha, het, hen, hc⟩
    · rw [hc]; exact ih
    · rw [hc]
      have hinv := hr.l3inv hw
      obtain ⟨p', hp', _, hmin⟩ := hen
      rw [hpp] at hp'; cases hp'
      obtain ⟨hpm, hpid⟩ := proc?_some hpp
      obtain ⟨new, hm, hnew, hnewp⟩ := ot_step_table hinv.sinv hpp ha hmin (env.oracle k.st)
      intro q hq hqa t m preds o ret hqk tel htel htk hta
      -- the ended allocation processes of the new table
      have hqcase : (q ∈ k.st.procs ∧ q.pid ≠ p.pid) ∨
          (q = fin (k.st.block p (env.oracle k.st)).2.1 (k.st.block p (env.oracle k.st)).2.2 p.wake p ∧
            p.k.tag = "allocTask" ∧ q.wake = p.wake) := by
        rcases (hm q).mp hq with rfl | ⟨hq0, hne⟩ | hqn
        · right
          simp only [fin_k] at hqk
          have htag := block_tag k.st hinv.sinv.pw p (env.oracle k.st)
          rw [hqk] at htag
          refine ⟨rfl, htag.symm, ?_⟩
          generalize (k.st.block p (env.oracle k.st)).2.2 = y at hqa ⊢
          cases y with
          | timeout d => simp [ha] at hqa
          | done => rfl
          | raised e => rfl
        · exact Or.inl ⟨hq0, hne⟩
        · rw [(hnewp q hqn).1] at hqa; cases hqa
      rcases (hm tel).mp htel with rfl | ⟨htel0, htne⟩ | hteln
      · -- the telescope ran: it is due later than before
        simp only [fin_k] at htk
        have hpk' : p.k = .telescope := ot_block_tel hinv.sinv.pw p _ htk
        have hge : p.wake ≤ (fin (k.st.block p (env.oracle k.st)).2.1 (k.st.block p (env.oracle k.st)).2.2 p.wake p).wake :=
          fin_wake_ge _ _ p (fun d hd => block_delay_nonneg k.st p _ d hd) hta
        rcases hqcase with ⟨hq0, _⟩ | ⟨_, htag, _⟩
        · have := ih q hq0 hqa t m preds o ret hqk p hpm hpk' ha
          grind
        · rw [hpk'] at htag; simp [PK.tag] at htag
      · rcases hqcase with ⟨hq0, _⟩ | ⟨_, htag, hqw⟩
        · exact ih q hq0 hqa t m preds o ret hqk tel htel0 htk hta
        · -- the allocation process that has just ended: the telescope has run at this instant
          have hnt : p.k ≠ .telescope := by intro e'; rw [e'] at htag; simp [PK.tag] at htag
          have hnm : p.k ≠ .monitor := by intro e'; rw [e'] at htag; simp [PK.tag] at htag
          have hnd : p.k.isDoWork = false := by
            cases hpk' : p.k <;> rw [hpk'] at htag <;> simp [PK.tag] at htag <;> rfl
          have := ot_l3_after_tel hinv.sinv hinv.heap hinv.mon.mon hinv.tel hpk hpp het hnt hnm hnd
            tel htel0 htk hta
          rw [hqw]
          grind
      · exact absurd htk (ot_new_not_tel (hnewp tel hteln).2.2.2)

/-- the common part of `sim_ingest_exact` and `sim_ingest_at_end` -/
theorem sim_ingest_core (env : SimEnv) (s0 : Sys) (hw : WFConfig s0) (k : SimState)
    (h : SimReach env s0 k) (hc : k.st.crashed = none) {e : HEntry} {p : Proc} (hpk : k.peek = some e)
    (hpp : k.st.proc? e.pid = some p) (ha : p.alive = true) {oid : Oid} {ob : Obs} {a : Nat}
    (hob : k.st.obs? oid = some ob) (hast : ob.ast = some a) (hlo : ((a : Nat) : Time) < e.time)
    (hnd : NoDeadAlloc k.st oid) :
    Provisioned k.st oid ∧ NoDeadAlloc k.st oid ∧ k.st.ingestHeld oid = ob.ingestDemand := by
  have hinv := h.l3inv hw
  have hA := sim_otAst env s0 hw k h
  have hCh := sim_otChain env s0 hw k h
  obtain ⟨⟨p', hp', _, hmin⟩, het⟩ := hinv.heap.enabled hinv.sinv.pw hpk hpp ha
  rw [hpp] at hp'; cases hp'
  rw [het] at hlo
  -- a live process due at `a` would have run
  have hpast : ∀ q ∈ k.st.procs, q.alive = true → q.wake = ((a : Nat) : Time) → False := by
    intro q hq hqa hqw
    have := hmin q hq hqa
    rw [hqw] at this
    exact absurd hlo (Rat.not_lt.mpr this)
  -- the observation has left WAITING
  have hnw : ob.status ≠ .waiting := by
    intro hw1
    have hadm := hA.adm oid ob hob (by rw [hast]; simp)
    obtain ⟨ob2, hob2, hsup⟩ := hinv.sinv.eg.adm oid hadm
    rw [hob] at hob2; cases hob2
    obtain ⟨q, hq, hqa, hqc, ⟨tl, hqk⟩, _⟩ := hsup hw1
    obtain ⟨n, ob3, hwn, hob3, hast3, _⟩ := hinv.ti.aiNew q hq oid tl hqk hqc
    rw [hob] at hob3; cases hob3
    rw [hast] at hast3; cases hast3
    exact hpast q hq hqa hwn
  -- the provisioning block has run
  have hprov : Provisioned k.st oid := by
    obtain ⟨q, hq, d, hqk⟩ := hCh.begun oid ob hob hnw
    refine ⟨q, hq, d, hqk, ?_⟩
    cases hqa : q.alive with
    | false => exact hCh.deadPc q hq hqa
    | true =>
      by_cases hqc : q.pc = 0
      · exfalso
        obtain ⟨ob2, a2, hob2, hast2, hwk⟩ := hinv.ti.piW q hq hqa hqc oid d hqk
        rw [hob] at hob2; cases hob2
        rw [hast] at hast2; cases hast2
        exact hpast q hq hqa hwk
      · omega
  refine ⟨hprov, hnd, ?_⟩
  rw [sim_otCount env s0 hw k h hc oid hprov hnd]
  unfold ilDemand
  rw [hob]

/-- **Exactly the demand in between.**  In a run in which no exception has been raised, whenever the
kernel is about to resume a live process at a time strictly after the recorded start `a` of an
observation and strictly before `a + duration`: the provisioning block of the observation
has run, none of its allocation processes has ended, and exactly `ingestDemand` allocation processes
hold a machine of the ingest pool for it. -/
-- F13: upper bound `e.time + 1 < a + duration` -> `e.time < a + duration`; `NoDeadBody` -> `NoDeadAlloc`
theorem sim_ingest_exact (env : SimEnv) (s0 : Sys) (hw : WFConfig s0) (k : SimState)
    (h : SimReach env s0 k) (hc : k.st.crashed = none) {e : HEntry} {p : Proc} (hpk : k.peek = some e)
    (hpp : k.st.proc? e.pid = some p) (ha : p.alive = true) {oid : Oid} {ob : Obs} {a : Nat}
    (hob : k.st.obs? oid = some ob) (hast : ob.ast = some a) (hlo : ((a : Nat) : Time) < e.time)
    (hhi : e.time < (((a + ob.duration : Nat) : Nat) : Time)) :
    Provisioned k.st oid ∧ NoDeadAlloc k.st oid ∧ k.st.ingestHeld oid = ob.ingestDemand := by
  have hinv := h.l3inv hw
  have hC := sim_otClock env s0 hw k h
  have hR := sim_otRel env s0 hw k h hc
  obtain ⟨hpm, _⟩ := proc?_some hpp
  obtain ⟨_, het⟩ := hinv.heap.enabled hinv.sinv.pw hpk hpp ha
  refine sim_ingest_core env s0 hw k h hc hpk hpp ha hob hast hlo ?_
  rw [het] at hhi
  -- no allocation process has ended: it would have ended at `a + duration` or later
  intro q hq t m preds ret hqk
  cases hqa : q.alive with
  | true => rfl
  | false =>
    exfalso
    obtain ⟨ob2, a2, hob2, hast2, hle⟩ := hR q hq hqa t m preds oid ret hqk
    rw [hob] at hob2; cases hob2
    rw [hast] at hast2; cases hast2
    have h3 : q.wake ≤ p.wake := hC.dead q hq hqa p hpm ha
    exact absurd hhi (Rat.not_lt.mpr (Rat.le_trans hle h3))

/-- **… and still at the telescope's block of the instant `a + duration`** (the block that marks the
observation FINISHED): in SimPy's order the allocation processes give their machines back later in
that instant. -/
-- F13: new (before the repair the machines of an observation of duration ≥ 3 had been given back
-- one step earlier)
theorem sim_ingest_at_end (env : SimEnv) (s0 : Sys) (hw : WFConfig s0) (k : SimState)
    (h : SimReach env s0 k) (hc : k.st.crashed = none) {oid : Oid} {ob : Obs} {a : Nat}
    (hob : k.st.obs? oid = some ob) (hast : ob.ast = some a) (hdue : TelDue k (a + ob.duration)) :
    Provisioned k.st oid ∧ NoDeadAlloc k.st oid ∧ k.st.ingestHeld oid = ob.ingestDemand := by
  have hinv := h.l3inv hw
  have hR := sim_otRel env s0 hw k h hc
  have hT := sim_otRelTel env s0 hw k h
  obtain ⟨e, p, hpk, hpp, ha, hk, hwk⟩ := hdue
  obtain ⟨hpm, _⟩ := proc?_some hpp
  obtain ⟨_, het⟩ := hinv.heap.enabled hinv.sinv.pw hpk hpp ha
  have hD := hinv.ti.durPos ob (obs_mem_of_obs? hob).1
  refine sim_ingest_core env s0 hw k h hc hpk hpp ha hob hast ?_ ?_
  · rw [het, hwk]
    exact_mod_cast (by omega : a < a + ob.duration)
  · intro q hq t m preds ret hqk
    cases hqa : q.alive with
    | true => rfl
    | false =>
      exfalso
      obtain ⟨ob2, a2, hob2, hast2, hle⟩ := hR q hq hqa t m preds oid ret hqk
      rw [hob] at hob2; cases hob2
      rw [hast] at hast2; cases hast2
      have h3 := hT q hq hqa t m preds (some oid) ret hqk p hpm hk ha
      rw [hwk] at h3
      exact absurd h3 (Rat.not_lt.mpr hle)

/-- … and more than one step before `a + duration` none of the bodies of its ingest tasks has ended
(they end in the instant `a + duration - 1`). -/
theorem sim_ingest_bodies (env : SimEnv) (s0 : Sys) (hw : WFConfig s0) (k : SimState)
    (h : SimReach env s0 k) (hc : k.st.crashed = none) {e : HEntry} {p : Proc} (hpk : k.peek = some e)
    (hpp : k.st.proc? e.pid = some p) (ha : p.alive = true) {oid : Oid} {ob : Obs} {a : Nat}
    (hob : k.st.obs? oid = some ob) (hast : ob.ast = some a)
    (hhi : e.time + 1 < (((a + ob.duration : Nat) : Nat) : Time)) : NoDeadBody k.st oid := by
  have hinv := h.l3inv hw
  have hC := sim_otClock env s0 hw k h
  have hB := sim_otBody env s0 hw k h hc
  obtain ⟨hpm, _⟩ := proc?_some hpp
  obtain ⟨⟨p', hp', _, hmin⟩, het⟩ := hinv.heap.enabled hinv.sinv.pw hpk hpp ha
  rw [hpp] at hp'; cases hp'
  rw [het] at hhi
  have hD := hinv.ti.durPos ob (obs_mem_of_obs? hob).1
  intro r hr i m c ph tot hrk
  cases hra : r.alive with
  | true => rfl
  | false =>
    exfalso
    have h2 := hB.deadPh r hr oid i m c ph tot hrk hra
    obtain ⟨ob2, a2, _, hob2, hast2, hwk, _⟩ := hB.started r hr oid i m c ph tot hrk h2
    rw [hob] at hob2; cases hob2
    rw [hast] at hast2; cases hast2
    have h3 : r.wake ≤ p.wake := hC.dead r hr hra p hpm ha
    rw [hwk] at h3
    have h4 := ot_cast_pred_succ a ob.duration hD
    have h5 : ((a + (ob.duration - 1) : Nat) : Time) + 1 ≤ p.wake + 1 := Rat.add_le_add_right.mpr h3
    rw [h4] at h5
    exact absurd hhi (Rat.not_lt.mpr h5)

/-- … and each of these allocation processes runs an ingest task of the observation whose record
carries the observation's recorded start. -/
theorem sim_ingest_tasks (env : SimEnv) (s0 : Sys) (hw : WFConfig s0) (k : SimState)
    (h : SimReach env s0 k) (hc : k.st.crashed = none) {e : HEntry} {p : Proc} (hpk : k.peek = some e)
    (hpp : k.st.proc? e.pid = some p) (ha : p.alive = true) {oid : Oid} {ob : Obs} {a : Nat}
    (hob : k.st.obs? oid = some ob) (hast : ob.ast = some a) (hlo : ((a : Nat) : Time) < e.time) :
    ∀ x ∈ k.st.cl.ilEntries, x.obs = some oid →
      x ∈ k.st.cl.runOn ∧ x.mach ∈ k.st.cl.ingest ∧
      ∃ i rec, x.task = .ingest oid i ∧ k.st.task? (.ingest oid i) = some rec ∧
        rec.ast = some ((a : Nat) : Time) := by
  have hinv := h.l3inv hw
  have hB := sim_otBody env s0 hw k h hc
  obtain ⟨U, hU⟩ := hinv.sinv.ci
  obtain ⟨⟨p', hp', _, hmin⟩, het⟩ := hinv.heap.enabled hinv.sinv.pw hpk hpp ha
  rw [hpp] at hp'; cases hp'
  rw [het] at hlo
  have hpast : ∀ q ∈ k.st.procs, q.alive = true → q.wake = ((a : Nat) : Time) → False := by
    intro q hq hqa hqw
    have := hmin q hq hqa
    rw [hqw] at this
    exact absurd hlo (Rat.not_lt.mpr this)
  intro x hx hxo
  have hmach : x.mach ∈ k.st.cl.ingest :=
    (ot_pool_perm hU.inv).subset (List.mem_map_of_mem hx)
  rcases mem_ilEntries.mp hx with hpd | ⟨hro, hi⟩
  · exfalso
    obtain ⟨o, ho, q, hq, hqa, hqc, preds, ret, hqk⟩ := hinv.ti.entPend x hpd
    rw [hxo] at ho; cases ho
    obtain ⟨_, _, ob2, a2, hob2, hast2, hwk⟩ := hinv.ti.atPend q hq hqa hqc _ _ _ _ _ hqk
    rw [hob] at hob2; cases hob2
    rw [hast] at hast2; cases hast2
    exact hpast q hq hqa hwk
  · obtain ⟨o, ho, q, hq, hqa, hqc, preds, ret, hqk⟩ := hinv.ti.entRun x hro hi
    rw [hxo] at ho; cases ho
    obtain ⟨⟨i, hti⟩, r, hr, _, _, ph, tot, hrk, hph, ob2, a2, b, hob2, hast2, hrw, hb0, _⟩ :=
      hinv.ti.atRun q hq hqa hqc _ _ _ _ _ hqk
    rw [hob] at hob2; cases hob2
    rw [hast] at hast2; cases hast2
    rw [hti] at hrk
    have h2 : 2 ≤ ph := by
      cases hra : r.alive with
      | false => exact hB.deadPh r hr oid i _ _ ph tot hrk hra
      | true =>
        rcases hph hra with h0 | h2
        · exfalso
          have := hb0 hra h0
          rw [this] at hrw
          exact hpast r hr hra hrw
        · exact h2
    obtain ⟨ob3, a3, rec, hob3, hast3, _, hrec, hrast⟩ := hB.started r hr oid i _ _ ph tot hrk h2
    rw [hob] at hob3; cases hob3
    rw [hast] at hast3; cases hast3
    exact ⟨hro, hmach, i, rec, hti, hrec, hrast⟩

end Topsim
