/-
  Live15a — the process table across one block, with the kinds of the new processes; the five
  loops of `Simulation.start()` keep pids 0–4 (`LoopPids`); and the start-up facts (`StartInv`):
  while the telescope has not run its first block nothing has been created (`nextPid = 5`), and
  while the scheduler loop has not run its first block nothing is stored in the hot buffer (so its
  first block creates nothing).
-/
import TopsimProofs.Live15
import TopsimProofs.FinishFrame
import TopsimProofs.FinishBuf5

namespace Topsim

open KState Sys

namespace Sys

/-- the process table after one block of `p`: the entry of `p`, the other old entries, and the
new ones: alive, before their first block, with fresh pids, of a kind `p` may create -/
theorem nco_resume_procs {s : Sys} (hpw : PW s) {pid : Nat} {p : Proc} (hp : s.proc? pid = some p)
    (ha : p.alive = true) (orc : Oracle) :
    ∀ q' ∈ (s.resume pid orc).1.procs,
      q' = fin (s.block p orc).2.1 (s.block p orc).2.2 p.wake p ∨ (q' ∈ s.procs ∧ q'.pid ≠ pid) ∨
      (q'.alive = true ∧ q'.pc = 0 ∧ s.nextPid ≤ q'.pid ∧ NewKind p.k q'.k ∧
        q' ∈ (s.block p orc).1.procs ∧ q' ∉ s.procs) := by
  obtain ⟨hpm, hpid⟩ := proc?_some hp
  obtain ⟨e1, _, _⟩ := il_resume_procs_eq s pid orc p hp ha
  obtain ⟨new, hnew, hnewp⟩ := block_newp s p orc
  have hnw := block_ilnw s p orc
  intro q' hq'
  rw [e1] at hq'
  obtain ⟨q, hq, rfl⟩ := mem_updProc.mp hq'
  by_cases hold : q ∈ s.procs
  · by_cases e : q.pid = pid
    · have : q = p := hpw.eq_of_pid hold hpm (e.trans hpid.symm)
      subst this
      rw [if_pos e]; exact Or.inl rfl
    · rw [if_neg e]; exact Or.inr (Or.inl ⟨hold, e⟩)
  · have hqn : q ∈ new := by
      rw [hnew] at hq
      rcases List.mem_append.mp hq with h | h
      · exact absurd h hold
      · exact h
    rcases hnw.2 q hq with h | ⟨_, w2, w3, w4⟩
    · exact absurd h hold
    · have hne : q.pid ≠ pid := by
        have := hpw.lt p hpm
        omega
      rw [if_neg hne]
      exact Or.inr (Or.inr ⟨w2, w3, w4, (hnewp q hqn).2.2.2, hq, hold⟩)

/-! ### the five loops keep their pids -/

def nco_loopKind : Nat → PK
  | 0 => .monitor
  | 1 => .telescope
  | 2 => .clusterLoop
  | 3 => .schedLoop
  | _ => .bufferLoop

structure LoopPids (s : Sys) : Prop where
  loop : ∀ p ∈ s.procs, p.pid < 5 → p.k = nco_loopKind p.pid
  other : ∀ p ∈ s.procs, 5 ≤ p.pid → p.k ≠ .telescope ∧ p.k ≠ .schedLoop
  np : 5 ≤ s.nextPid

theorem LoopPids.tel {s : Sys} (h : LoopPids s) {p : Proc} (hp : p ∈ s.procs) (hk : p.k = .telescope) :
    p.pid = 1 := by
  by_cases h5 : p.pid < 5
  · have := h.loop p hp h5
    rw [hk] at this
    have h' : p.pid = 0 ∨ p.pid = 1 ∨ p.pid = 2 ∨ p.pid = 3 ∨ p.pid = 4 := by omega
    rcases h' with e | e | e | e | e <;> rw [e] at this <;> simp [nco_loopKind] at this
    exact e
  · exact absurd hk (h.other p hp (by omega)).1

theorem LoopPids.sch {s : Sys} (h : LoopPids s) {p : Proc} (hp : p ∈ s.procs) (hk : p.k = .schedLoop) :
    p.pid = 3 := by
  by_cases h5 : p.pid < 5
  · have := h.loop p hp h5
    rw [hk] at this
    have h' : p.pid = 0 ∨ p.pid = 1 ∨ p.pid = 2 ∨ p.pid = 3 ∨ p.pid = 4 := by omega
    rcases h' with e | e | e | e | e <;> rw [e] at this <;> simp [nco_loopKind] at this
    exact e
  · exact absurd hk (h.other p hp (by omega)).2

theorem nco_newKind_not_loop {k c : PK} (h : NewKind k c) : c ≠ .telescope ∧ c ≠ .schedLoop := by
  constructor <;> rintro rfl <;> cases k <;> simp [NewKind] at h

/-- the kind of a loop process after its block -/
theorem nco_block_loopKind (s : Sys) (p : Proc) (orc : Oracle) (i : Nat) (hk : p.k = nco_loopKind i) :
    (s.block p orc).2.1 = nco_loopKind i := by
  unfold nco_loopKind at hk ⊢
  split at hk
  · rw [block_monitor orc hk]
  · rw [block_telescope orc hk]
  · rw [block_clusterLoop orc hk]
  · rw [block_schedLoop orc hk]
  · rw [block_bufferLoop orc hk]

theorem nco_tag_telescope {k : PK} (h : k.tag = "telescope") : k = .telescope := by
  cases k <;> simp [PK.tag] at h <;> rfl

theorem nco_tag_schedLoop {k : PK} (h : k.tag = "schedLoop") : k = .schedLoop := by
  cases k <;> simp [PK.tag] at h <;> rfl

theorem LoopPids.resume {s : Sys} (h : LoopPids s) (hpw : PW s) {pid : Nat} {p : Proc}
    (hp : s.proc? pid = some p) (ha : p.alive = true) (orc : Oracle) : LoopPids (s.resume pid orc).1 := by
  obtain ⟨hpm, hpid⟩ := proc?_some hp
  have hm := nco_resume_procs hpw hp ha orc
  have htag := block_tag s hpw p orc
  refine ⟨?_, ?_, Nat.le_trans h.np (resume_np s pid orc)⟩
  · intro q' hq' h5
    rcases hm q' hq' with rfl | ⟨hold, _⟩ | ⟨_, _, w, _⟩
    · simp only [fin_pid, fin_k] at h5 ⊢
      exact nco_block_loopKind s p orc p.pid (h.loop p hpm h5)
    · exact h.loop q' hold h5
    · have := h.np; omega
  · intro q' hq' h5
    rcases hm q' hq' with rfl | ⟨hold, _⟩ | ⟨_, _, _, w, _⟩
    · simp only [fin_pid, fin_k] at h5 ⊢
      have := h.other p hpm h5
      constructor
      · intro e
        rw [e] at htag
        exact this.1 (nco_tag_telescope htag.symm)
      · intro e
        rw [e] at htag
        exact this.2 (nco_tag_schedLoop htag.symm)
    · exact h.other q' hold h5
    · exact nco_newKind_not_loop w

theorem nco_start_procs (s0 : Sys) (hw : WFConfig s0) :
    s0.start.procs =
      [{ pid := 0, k := .monitor, wake := 0 }, { pid := 1, k := .telescope, wake := 0 },
       { pid := 2, k := .clusterLoop, wake := 0 }, { pid := 3, k := .schedLoop, wake := 0 },
       { pid := 4, k := .bufferLoop, wake := 0 }] ∧ s0.start.nextPid = 5 := by
  obtain ⟨hprocs, hnp, _⟩ := hw.fresh
  exact ⟨by simp [start, spawn, hprocs, hnp], by simp [start, spawn, hnp]⟩

theorem LoopPids.init (s0 : Sys) (hw : WFConfig s0) : LoopPids s0.start := by
  obtain ⟨hp, hn⟩ := nco_start_procs s0 hw
  refine ⟨?_, ?_, by rw [hn]; exact Nat.le_refl _⟩
  · intro p hp' _
    rw [hp] at hp'
    simp only [List.mem_cons, List.not_mem_nil, or_false] at hp'
    rcases hp' with rfl | rfl | rfl | rfl | rfl <;> rfl
  · intro p hp' h5
    rw [hp] at hp'
    simp only [List.mem_cons, List.not_mem_nil, or_false] at hp'
    rcases hp' with rfl | rfl | rfl | rfl | rfl <;> simp at h5

end Sys

theorem SimReach.loopPids {env : SimEnv} {s0 : Sys} (hw : WFConfig s0) {k : SimState}
    (h : SimReach env s0 k) : LoopPids k.st :=
  SimReach.sys_induct hw LoopPids (LoopPids.init s0 hw) (fun _ h => ⟨h.loop, h.other, h.np⟩)
    (fun _ h => ⟨h.loop, h.other, h.np⟩)
    (fun _ hr ih _ _ hp ha _ => ih.resume (hr.l3inv hw).sinv.pw hp ha _) k h

/-! ### start-up -/

structure StartInv (s : Sys) : Prop where
  /-- before the telescope's first block nothing has been created -/
  tel0 : ∀ q ∈ s.procs, q.alive = true → q.pc = 0 → q.k = .telescope → s.nextPid = 5
  /-- before the scheduler loop's first block nothing is stored in the hot buffer -/
  sch0 : ∀ q ∈ s.procs, q.alive = true → q.pc = 0 → q.k = .schedLoop → s.buf.hot.stored = []

theorem StartInv.init (s0 : Sys) (hw : WFConfig s0) (hb0 : s0.buf.hot.stored = []) :
    StartInv s0.start := by
  refine ⟨fun _ _ _ _ _ => (nco_start_procs s0 hw).2, fun _ _ _ _ _ => ?_⟩
  have : s0.start.buf = s0.buf := by simp [start, spawn]
  rw [this]; exact hb0

theorem nco_loopKind_lt {i : Nat} :
    (i = 0 → nco_loopKind i = .monitor) ∧ (i = 1 → nco_loopKind i = .telescope) ∧
    (i = 2 → nco_loopKind i = .clusterLoop) :=
  ⟨fun h => by rw [h]; rfl, fun h => by rw [h]; rfl, fun h => by rw [h]; rfl⟩

/-- one kernel step of a live process keeps the start-up facts -/
theorem StartInv.step {k : SimState} (inv : StartInv k.st) (hs : SInv k.st) (h : IlHeapOk k) (hu : UrgInv k)
    (hl : LoopPids k.st) {e : HEntry} (hpk : k.peek = some e) {p : Proc}
    (hpp : k.st.proc? e.pid = some p) (ha : p.alive = true) (orc : Oracle) :
    StartInv (k.st.resume e.pid orc).1 := by
  have hpw := hs.pw
  obtain ⟨hpm, hpid⟩ := proc?_some hpp
  have hm := nco_resume_procs hpw hpp ha orc
  obtain ⟨_, hnp, _⟩ := il_resume_procs_eq k.st e.pid orc p hpp ha
  have hbuf := resume_buf k.st e.pid orc p hpp ha
  have hl' := hl.resume hpw hpp ha orc
  constructor
  · intro q' hq' hqa hq0 hqk
    rcases hm q' hq' with rfl | ⟨hold, hne⟩ | ⟨_, _, _, w, _⟩
    · simp at hq0
    · have hnp5 := inv.tel0 q' hold hqa hq0 hqk
      have hq1 : q'.pid = 1 := hl.tel hold hqk
      have hle := hu.loop_first h hpk hpp ha hold hqa hq0 (by omega)
      have hp0 : p.pid = 0 := by omega
      have hk : p.k = .monitor := by
        have := hl.loop p hpm (by omega)
        rw [hp0] at this; exact this
      rw [hnp, (block_mon k.st p orc hk).1]; exact hnp5
    · exact absurd hqk (nco_newKind_not_loop w).1
  · intro q' hq' hqa hq0 hqk
    rcases hm q' hq' with rfl | ⟨hold, hne⟩ | ⟨_, _, _, w, _⟩
    · simp at hq0
    · have hst := inv.sch0 q' hold hqa hq0 hqk
      have hq3 : q'.pid = 3 := hl.sch hold hqk
      have hle := hu.loop_first h hpk hpp ha hold hqa hq0 (by omega)
      have hp3 : p.pid = 0 ∨ p.pid = 1 ∨ p.pid = 2 := by omega
      have hkk := hl.loop p hpm (by omega)
      rw [hbuf]
      rcases hp3 with e0 | e1 | e2
      · have hk : p.k = .monitor := by rw [e0] at hkk; exact hkk
        rw [block_monitor orc hk]
        exact hst
      · have hk : p.k = .telescope := by rw [e1] at hkk; exact hkk
        rw [block_telescope orc hk]
        show (k.st.telescopeBlock p.wake).1.buf.hot.stored = []
        rw [telescopeBlock_buf]; exact hst
      · have hk : p.k = .clusterLoop := by rw [e2] at hkk; exact hkk
        rw [block_clusterLoop orc hk]
        exact hst
    · exact absurd hqk (nco_newKind_not_loop w).2

theorem SimReach.startInv {env : SimEnv} {s0 : Sys} (hw : WFConfig s0) (hb0 : s0.buf.hot.stored = [])
    {k : SimState} (h : SimReach env s0 k) : StartInv k.st := by
  induction h with
  | start => exact StartInv.init s0 hw hb0
  | collate k _ ih => exact ⟨ih.tel0, ih.sch0⟩
  | step k k1 hr hs ih =>
    obtain ⟨e, hpk, hcase⟩ := ot_step_cases hw hr hs
    rcases hcase with ⟨hc, _⟩ | ⟨p, hpp, ha, _, _, hc⟩
    · rw [hc]; exact ⟨ih.tel0, ih.sch0⟩
    · rw [hc]
      exact ih.step (hr.l3inv hw).sinv (hr.l3inv hw).heap (hr.urg hw) (hr.loopPids hw) hpk hpp ha _

end Topsim
