/-
  Live8g — J3 (`live_finished_stored`): an ingest stream ends only in the block that stores its
  observation, so the observation of an ended stream is in `hot.stored`, `hot.scheduled` or
  `hot.finished` from then on; the stream of a FINISHED observation has run.
-/
import TopsimProofs.Live8f
import TopsimProofs.BufTraj10
import TopsimProofs.FinishStr4

namespace Topsim

open KState Sys

namespace Sys

/-- the observation is in one of the three lists of the hot tier -/
def l8L3 (b : Buffer) (o : Oid) : Prop := o ∈ b.hot.stored ∨ o ∈ b.hot.scheduled ∨ o ∈ b.hot.finished

/-- the observation of an ended ingest stream is in the hot tier's lists -/
def l8DS (s : Sys) : Prop :=
  ∀ q ∈ s.procs, q.alive = false → ∀ o tl, q.k = .ingestStream o tl → l8L3 s.buf o

theorem l8_deposit_lists (b : Buffer) (o : Oid) (r : Int) :
    (b.deposit o r).1.hot.stored = b.hot.stored ∧ (b.deposit o r).1.hot.scheduled = b.hot.scheduled ∧
    (b.deposit o r).1.hot.finished = b.hot.finished := by
  unfold Buffer.deposit
  split <;> exact ⟨rfl, rfl, rfl⟩

theorem l8_iter_lists (s : Sys) (now : Time) (oid : Oid) (tl : Int) :
    (s.ingestStreamIter now oid tl).1.buf.hot.scheduled = s.buf.hot.scheduled ∧
    (s.ingestStreamIter now oid tl).1.buf.hot.finished = s.buf.hot.finished ∧
    ((s.ingestStreamIter now oid tl).1.buf.hot.stored = s.buf.hot.stored ∨
      (s.ingestStreamIter now oid tl).1.buf.hot.stored = s.buf.hot.stored ++ [oid]) ∧
    (∀ ob, s.obs? oid = some ob → ob.status = .running → (s.ingestStreamIter now oid tl).2.2 = .done →
      (s.ingestStreamIter now oid tl).1.buf.hot.stored = s.buf.hot.stored ++ [oid]) := by
  unfold ingestStreamIter
  cases hob : s.obs? oid with
  | none => exact ⟨rfl, rfl, Or.inl rfl, fun ob h => by cases h⟩
  | some o =>
    simp only
    by_cases hrun : o.status = .running
    · simp only [hrun, if_true]
      obtain ⟨d1, d2, d3⟩ := l8_deposit_lists s.buf oid o.rate
      generalize s.buf.deposit oid o.rate = d at d1 d2 d3
      obtain ⟨b1, e1⟩ := d
      cases e1 with
      | some e => exact ⟨d2, d3, Or.inl d1, fun _ _ _ h => by cases h⟩
      | none =>
        simp only at d1 d2 d3 ⊢
        by_cases htl : tl > 0
        · simp only [htl, if_true]
          exact ⟨d2, d3, Or.inl d1, fun _ _ _ h => by cases h⟩
        · simp only [htl, if_false]
          have e : (b1.store oid (natNow now)).hot.stored = s.buf.hot.stored ++ [oid] := by
            show b1.hot.stored ++ [oid] = _
            rw [d1]
          exact ⟨d2, d3, Or.inr e, fun _ _ _ _ => e⟩
    · simp only [hrun, if_false]
      refine ⟨by first | rfl | trivial, by first | rfl | trivial, Or.inl (by first | rfl | trivial),
        fun ob h1 h2 => ?_⟩
      cases h1; exact absurd h2 hrun

theorem l8_stream_lists (s : Sys) (now : Time) (pc : Nat) (oid : Oid) (tl : Int) :
    (s.ingestStreamBlock now pc oid tl).1.buf.hot.scheduled = s.buf.hot.scheduled ∧
    (s.ingestStreamBlock now pc oid tl).1.buf.hot.finished = s.buf.hot.finished ∧
    ((s.ingestStreamBlock now pc oid tl).1.buf.hot.stored = s.buf.hot.stored ∨
      (s.ingestStreamBlock now pc oid tl).1.buf.hot.stored = s.buf.hot.stored ++ [oid]) ∧
    (∀ ob, s.obs? oid = some ob → ob.status = .running → (s.ingestStreamBlock now pc oid tl).2.2 = .done →
      (s.ingestStreamBlock now pc oid tl).1.buf.hot.stored = s.buf.hot.stored ++ [oid]) := by
  unfold ingestStreamBlock
  split
  · cases hob : s.obs? oid with
    | none => exact ⟨rfl, rfl, Or.inl rfl, fun ob h => by cases h⟩
    | some o =>
      simp only
      split
      · exact ⟨rfl, rfl, Or.inl rfl, fun _ _ _ h => by cases h⟩
      · have := l8_iter_lists (s.addBuf ⟨natNow now, oid, .bufAdded⟩) now oid ((o.duration : Int) - 1)
        have e : (s.addBuf ⟨natNow now, oid, .bufAdded⟩).obs? oid = some o := hob
        rw [e] at this
        exact this
  · exact l8_iter_lists s now oid tl

/-- the three lists only grow together, under every block that is not a tier move -/
theorem l8_block_l3 (s : Sys) (p : Proc) (orc : Oracle) (h1 : p.k.tag ≠ "hot2cold")
    (h2 : p.k.tag ≠ "cold2hot") (o : Oid) (h : l8L3 s.buf o) : l8L3 (s.block p orc).1.buf o := by
  have quiet : p.k.tag ≠ "schedLoop" → p.k.tag ≠ "ingestStream" → p.k.tag ≠ "allocTasks" →
      l8L3 (s.block p orc).1.buf o :=
    fun a b c => by rw [block_buf s p orc a b c h1 h2]; exact h
  cases hk : p.k with
  | monitor => exact quiet (by simp [hk, PK.tag]) (by simp [hk, PK.tag]) (by simp [hk, PK.tag])
  | telescope => exact quiet (by simp [hk, PK.tag]) (by simp [hk, PK.tag]) (by simp [hk, PK.tag])
  | clusterLoop => exact quiet (by simp [hk, PK.tag]) (by simp [hk, PK.tag]) (by simp [hk, PK.tag])
  | bufferLoop => exact quiet (by simp [hk, PK.tag]) (by simp [hk, PK.tag]) (by simp [hk, PK.tag])
  | allocIngest o' tl => exact quiet (by simp [hk, PK.tag]) (by simp [hk, PK.tag]) (by simp [hk, PK.tag])
  | provIngest o' d => exact quiet (by simp [hk, PK.tag]) (by simp [hk, PK.tag]) (by simp [hk, PK.tag])
  | allocTask t m preds obs ing ret =>
    exact quiet (by simp [hk, PK.tag]) (by simp [hk, PK.tag]) (by simp [hk, PK.tag])
  | doWork t m preds ph tot => exact quiet (by simp [hk, PK.tag]) (by simp [hk, PK.tag]) (by simp [hk, PK.tag])
  | hot2cold cur => exact absurd (by rw [hk]; rfl) h1
  | cold2hot cur => exact absurd (by rw [hk]; rfl) h2
  | schedLoop =>
    rw [block_schedLoop orc hk]
    rcases schedLoopBlock_buf s p.wake orc with ⟨hbuf, _⟩ | ⟨oid, ob, recs, plan, _, _, _, hbuf, _⟩
    · rw [hbuf]; exact h
    · rw [hbuf]
      unfold Buffer.nextForProcessing
      cases hl : s.buf.hot.stored.getLast? with
      | none => exact h
      | some a =>
        simp only
        obtain ⟨ys, hys⟩ := List.getLast?_eq_some_iff.mp hl
        rcases h with h | h | h
        · rw [hys] at h
          rcases List.mem_append.mp h with h | h
          · left
            show o ∈ s.buf.hot.stored.dropLast
            rw [hys, List.dropLast_concat]; exact h
          · right; left
            show o ∈ s.buf.hot.scheduled ++ [a]
            exact List.mem_append_right _ h
        · right; left
          show o ∈ s.buf.hot.scheduled ++ [a]
          exact List.mem_append_left _ h
        · right; right; exact h
  | ingestStream oid tl =>
    rw [block_ingestStream orc hk]
    obtain ⟨e1, e2, e3, _⟩ := l8_stream_lists s p.wake p.pc oid tl
    rcases h with h | h | h
    · left
      rcases e3 with e | e
      · rw [e]; exact h
      · rw [e]; exact List.mem_append_left _ h
    · right; left; rw [e1]; exact h
    · right; right; rw [e2]; exact h
  | allocTasks oid sc pa po fn =>
    rw [block_allocTasks orc hk]
    rcases allocTasksBlock_bufCases s p.wake orc p.pc oid sc pa po fn with e | e
    · rw [e]; exact h
    · rw [e]
      rcases remove_full s.buf oid with e2 | ⟨_, _, f3, f4, _, f6, _⟩
      · rw [e2]; exact h
      · rcases h with h | h | h
        · left; rw [f6]; exact h
        · by_cases ho : o = oid
          · right; right; rw [f3, ho]; simp
          · right; left; rw [f4]; exact (List.mem_erase_of_ne ho).mpr h
        · right; right; rw [f3]; exact List.mem_append_left _ h

/-- the observation of a live ingest stream is RUNNING when the stream's block runs -/
theorem l8_stream_running {s : Sys} (hs : SInv s) (hb : BufI s) (hsi : SI s) (hsp : SP s) {p : Proc}
    (hp : p ∈ s.procs) (ha : p.alive = true) {oid : Oid} {tl : Int} (hk : p.k = .ingestStream oid tl) :
    ∃ ob, s.obs? oid = some ob ∧ ob.status = .running := by
  by_cases hp0 : p.pc = 0
  · obtain ⟨_, ob, a, hob, _, _⟩ := hsi.sw p hp oid tl hk hp0
    have hom := (obs_mem_of_obs? hob).1
    have hoid := (obs_mem_of_obs? hob).2
    refine ⟨ob, hob, ?_⟩
    cases hst : ob.status with
    | running => rfl
    | waiting =>
      exfalso
      obtain ⟨r, hr, hrs⟩ := hb.strObs p hp oid tl hk
      have h1 : s.obs.find? (fun r => decide (r.id = oid)) = some ob := hob
      rw [h1] at hr; injection hr with e
      subst e; exact hrs hst
    | finished =>
      exfalso
      obtain ⟨q, hq, tlq, hqk, hqc⟩ := hsi.fs ob hom hst
      rw [hoid] at hqk
      have := hb.strUniq q hq p hp oid tlq tl hqk hk
      have : q = p := hs.pw.eq_of_pid hq hp this
      subst this; omega
  · obtain ⟨ob, hob, _, a1, _⟩ := hsp.str p hp oid tl hk
    obtain ⟨a, _, g2, _⟩ := a1 (by omega) ha
    exact ⟨ob, hob, g2⟩

theorem l8_ds_step {s : Sys} (hs : SInv s) (hb : BufI s) (hsi : SI s) (hsp : SP s) (hnt : NoTier s)
    (h : l8DS s) {pid : Nat} (hen : s.enabled pid) (orc : Oracle)
    (hnr : ∀ p, s.proc? pid = some p → ∀ err, (s.block p orc).2.2 ≠ .raised err) :
    l8DS (s.resume pid orc).1 := by
  obtain ⟨p, hp, ha, hmin⟩ := hen
  obtain ⟨hpm, hpid⟩ := proc?_some hp
  subst hpid
  have hnr' := hnr p hp
  obtain ⟨new, hm, hnew, hnewp⟩ := ot_step_table hs hp ha hmin orc
  have hbuf := resume_buf s p.pid orc p hp ha
  have hmono : ∀ o, l8L3 s.buf o → l8L3 (s.resume p.pid orc).1.buf o := by
    intro o ho
    rw [hbuf]
    exact l8_block_l3 s p orc (hnt p hpm).1 (hnt p hpm).2 o ho
  intro q hq hqd o tl hqk
  rcases (hm q).mp hq with rfl | ⟨hq0, _⟩ | hqn
  · -- the process that ran: a stream that has just ended
    simp only [fin_k] at hqk
    obtain ⟨tl0, hk0⟩ := ((block_class s hs.pw p orc).1 o).mp ⟨tl, hqk⟩
    obtain ⟨ob, hob, hrun⟩ := l8_stream_running hs hb hsi hsp hpm ha hk0
    have hdone : (s.block p orc).2.2 = .done := by
      cases hy : (s.block p orc).2.2 with
      | timeout d =>
        rw [hy] at hqd
        have : (fin (s.block p orc).2.1 (.timeout d) p.wake p).alive = p.alive := rfl
        rw [this, ha] at hqd; cases hqd
      | done => rfl
      | raised err => exact absurd hy (hnr' err)
    rw [hbuf]
    rw [block_ingestStream orc hk0] at hdone ⊢
    left
    rw [(l8_stream_lists s p.wake p.pc o tl0).2.2.2 ob hob hrun hdone]
    simp
  · exact hmono o (h q hq0 hqd o tl hqk)
  · rw [(hnewp q hqn).1] at hqd; cases hqd

theorem l8_ds_start (s0 : Sys) (hw : WFConfig s0) : l8DS s0.start := by
  intro q hq _ o tl hqk
  rw [start_procs s0 hw] at hq
  simp only [List.mem_cons, List.not_mem_nil, or_false] at hq
  rcases hq with rfl | rfl | rfl | rfl | rfl <;> simp at hqk

end Sys

section
variable {env : SimEnv} {s0 : Sys}

theorem l8_hsz0 (C : LiveCfg env s0) : s0.buf.size = [] ∧ s0.buf.hot.cur ≤ s0.buf.hot.total ∧
    s0.buf.cold.cur ≤ s0.buf.cold.total :=
  ⟨C.hfull.1, by rw [C.hfull.2.1]; exact Int.le_refl _, by rw [C.hfull.2.2]; exact Int.le_refl _⟩

theorem l8_si (C : LiveCfg env s0) (K : LiveKernel env s0) (n : Nat) : SI (simAt env s0 n).st :=
  (reachOk_sh2 s0 _ C.hw (l8_bufList C) (l8_hsz0 C) (l8_rate C) (l8_reachOk C K n) (C.nr n)).1

theorem l8_sp (C : LiveCfg env s0) (K : LiveKernel env s0) (n : Nat) : SP (simAt env s0 n).st :=
  reachOk_sp s0 _ C.hw (l8_bufList C) (l8_hsz0 C) (l8_rate C) (l8_reachOk C K n) (C.nr n)

theorem live_ds (C : LiveCfg env s0) (K : LiveKernel env s0) (n : Nat) : Sys.l8DS (simAt env s0 n).st := by
  induction n with
  | zero => exact Sys.l8_ds_start s0 C.hw
  | succ n ih =>
    obtain ⟨e, p, _, hpp, _, _, hen, hnr, hst⟩ := l8_step C K n
    rw [hst]
    refine Sys.l8_ds_step (l8_sinv C K n) (l8_bufi C K n) (l8_si C K n) (l8_sp C K n) (live_noTier C K n).1
      ih hen _ ?_
    intro p' hp' err
    rw [hpp] at hp'; cases hp'
    exact hnr err

/-- **J3.**  A FINISHED observation whose ingest stream is no longer alive is stored, or has been
handed to the scheduler. -/
theorem live_finished_stored (C : LiveCfg env s0) (K : LiveKernel env s0) (n : Nat) {ob : Obs}
    (hob : ob ∈ (simAt env s0 n).st.obs) (hfin : ob.status = .finished)
    (hns : ∀ q ∈ (simAt env s0 n).st.procs, q.alive = true → ∀ tl, q.k ≠ .ingestStream ob.id tl) :
    ob.id ∈ (simAt env s0 n).st.buf.hot.stored ∨ Sys.PQ ob.id (simAt env s0 n).st := by
  obtain ⟨q, hq, tl, hqk, _⟩ := (l8_si C K n).fs ob hob hfin
  have hqd : q.alive = false := by
    cases hqa : q.alive with
    | false => rfl
    | true => exact absurd hqk (hns q hq hqa tl)
  rcases live_ds C K n q hq hqd ob.id tl hqk with h | h | h
  · exact Or.inl h
  · exact Or.inr (Or.inl h)
  · exact Or.inr (Or.inr h)

end

end Topsim
