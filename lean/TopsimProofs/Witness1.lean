/-
  Witness1 — non-vacuity of the terminal-state theorems (C04): a concrete run of
  the deterministic simulator (L3) that reaches `is_finished()`.

  `simRun_reachOk`: a state of an uninterrupted simulator run whose `halted`
  flag is down is a `ReachOk` state of the block system (`L3_refines_L2`).

  Configuration `c04W1`: one machine (cpu 1, bandwidth 1), one observation of one
  array, one ingest machine, one timestep, ingest rate 1 (> 0), whose workflow is
  the chain `0 → 1` (node 0: two units of work, node 1: one unit; no data on the
  edge); the queue algorithm; buffers 100 / 100, rates 10 / 10; no delay.
  The run is over (`is_finished()`) once every event before t = 8 has been processed.
-/
import TopsimProps.C08Traj

namespace Topsim
namespace Sys

/-! ### from the simulator's runs to `ReachOk` -/

theorem simRun_reachOk {env : SimEnv} {s0 : Sys} (hw : WFConfig s0) {k : SimState}
    (h : SimRun env s0 k) (hh : k.st.halted = false) : ReachOk s0 k.st := by
  obtain ⟨s, hr, hks | ⟨hks, _⟩⟩ := L3_refines_L2 env s0 hw k h
  · rw [hks]; exact hr
  · rw [hks] at hh; cases hh

/-- the simulator, no delay, no static plan, run until `u` -/
def witRun (s0 : Sys) (u fuel : Nat) : SimState :=
  SimState.runUntil {} (u : Nat) fuel (SimState.start s0)

theorem witRun_simRun (s0 : Sys) (u fuel : Nat) : SimRun {} s0 (witRun s0 u fuel) :=
  SimRun.runUntil _ _ SimRun.start

theorem witRun_reachOk {s0 : Sys} (hw : WFConfig s0) (u fuel : Nat)
    (hh : (witRun s0 u fuel).st.halted = false) : ReachOk s0 (witRun s0 u fuel).st :=
  simRun_reachOk hw (witRun_simRun s0 u fuel) hh

/-- what a finished state looks like, as one boolean (evaluated once) -/
def witChk (s : Sys) (obs : List Oid) (tasks : List (Tid × TStatus)) (starts : List Tid) : Bool :=
  s.isFinished && decide (s.crashed = none) && !s.halted && decide (s.obs.map (·.id) = obs) &&
  decide (s.tasks.map (fun r => (r.id, r.status)) = tasks) && decide (s.starts = starts) &&
  decide (s.cl.idle = [])

theorem witChk_spec {s : Sys} {obs : List Oid} {tasks : List (Tid × TStatus)} {starts : List Tid}
    (h : witChk s obs tasks starts = true) :
    s.isFinished = true ∧ s.crashed = none ∧ s.halted = false ∧ s.obs.map (·.id) = obs ∧
    s.tasks.map (fun r => (r.id, r.status)) = tasks ∧ s.starts = starts ∧ s.cl.idle = [] := by
  simpa [witChk, and_assoc] using h

/-- does the process table hold a process with this tag? -/
def witHasTag (s : Sys) (tag : String) : Bool := s.procs.any (fun p => p.k.tag == tag)

theorem witHasTag_spec {s : Sys} {tag : String} (h : witHasTag s tag = true) :
    ∃ p ∈ s.procs, p.k.tag = tag := by
  simpa [witHasTag] using h

/-! ### the configuration -/

def c04Obs1 : Obs :=
  { id := 0, est := 0, duration := 1, demand := 1, rate := 1, ingestDemand := 1,
    wf := ⟨[(0, 2, 0), (1, 1, 0)], [(0, 1, 0)], [0, 1]⟩ }

def c04W1 : Sys :=
  { machines := [⟨0, 1, 1⟩], totalArrays := 1, maxIngest := 1, alg := .queue,
    cl := Cluster.init [0], buf := Buffer.init 100 10 100 10, obs := [c04Obs1] }

theorem c04W1_wf : WFConfig c04W1 := by
  refine ⟨by decide, rfl, by decide, ?_, ⟨rfl, rfl, rfl, rfl, rfl, rfl, rfl, rfl, rfl, rfl, rfl, rfl, rfl,
    rfl, rfl, rfl, rfl⟩⟩
  intro o ho
  simp only [c04W1, List.mem_cons, List.not_mem_nil, or_false] at ho
  subst ho
  exact ⟨rfl, rfl, by decide, by decide⟩

theorem c04W1_buf : c04W1.buf.hot.stored = [] ∧ c04W1.buf.hot.scheduled = [] ∧
    c04W1.buf.hot.finished = [] ∧ c04W1.buf.cold.stored = [] := ⟨rfl, rfl, rfl, rfl⟩

theorem c04W1_size : c04W1.buf.size = [] ∧ c04W1.buf.hot.cur ≤ c04W1.buf.hot.total ∧
    c04W1.buf.cold.cur ≤ c04W1.buf.cold.total := ⟨rfl, by decide, by decide⟩

theorem c04W1_rate : ∀ o ∈ c04W1.obs, 0 < o.rate := by
  intro o ho
  simp only [c04W1, List.mem_cons, List.not_mem_nil, or_false] at ho
  subst ho
  decide

/-- the state of the simulator after every event before t = 8 -/
def c04S1 : Sys := (witRun c04W1 8 200).st

/-- the ingest task at t = 0; the plan is made at clock 1; node 0 runs from t = 2 (recorded finish
4), node 1 from t = 5 (recorded finish 6); `allocate_tasks` removes the observation at t = 7. -/
theorem c04S1_chk : witChk c04S1 [0]
    [(.ingest 0 0, .finished), (.wf 0 1 0, .finished), (.wf 0 1 1, .finished)]
    [.ingest 0 0, .wf 0 1 0, .wf 0 1 1] = true := by
  decide +kernel

theorem c04S1_reach : ReachOk c04W1 c04S1 :=
  witRun_reachOk c04W1_wf 8 200 (witChk_spec c04S1_chk).2.2.1

end Sys
end Topsim
