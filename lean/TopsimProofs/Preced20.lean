/-
  Preced20 — `PH` along every run of a shipped algorithm that has not crashed; the
  recorded start of a workflow task, on trajectories and for the single blocks.
-/
import TopsimProofs.Preced19

namespace Topsim
namespace Sys

open Cluster

def PHInv (s : Sys) : Prop := s.crashed = none → PH s

theorem start_ph (s0 : Sys) (hw : WFConfig s0) : PH s0.start := by
  obtain ⟨hprocs, _⟩ := hw.fresh
  have hp : s0.start.procs = s0.procs ++
      [{ pid := s0.nextPid, k := .monitor, wake := 0 }, { pid := s0.nextPid + 1, k := .telescope, wake := 0 },
       { pid := s0.nextPid + 2, k := .clusterLoop, wake := 0 }, { pid := s0.nextPid + 3, k := .schedLoop, wake := 0 },
       { pid := s0.nextPid + 4, k := .bufferLoop, wake := 0 }] := by
    simp [start, spawn]
  rw [hprocs] at hp
  simp only [List.nil_append] at hp
  constructor
  · intro p hp' t m cross obs ret hk
    rw [hp] at hp'
    simp only [List.mem_cons, List.not_mem_nil, or_false] at hp'
    rcases hp' with rfl | rfl | rfl | rfl | rfl <;> simp at hk
  · intro p hp' t m cross ph tot hk
    rw [hp] at hp'
    simp only [List.mem_cons, List.not_mem_nil, or_false] at hp'
    rcases hp' with rfl | rfl | rfl | rfl | rfl <;> simp at hk
  · intro p hp' _ t m cross tot hk
    rw [hp] at hp'
    simp only [List.mem_cons, List.not_mem_nil, or_false] at hp'
    rcases hp' with rfl | rfl | rfl | rfl | rfl <;> simp at hk
  · intro p hp' t m cross ph tot hk
    rw [hp] at hp'
    simp only [List.mem_cons, List.not_mem_nil, or_false] at hp'
    rcases hp' with rfl | rfl | rfl | rfl | rfl <;> simp at hk

theorem ph_step {s : Sys} (hs : SInv s) (hwi : WInv s) (hst : STInv s) (hpr : PRInv s) (h : PHInv s)
    (hno : s.alg ≠ .oracle) {pid : Nat} (hen : s.enabled pid) (orc : Oracle) :
    PHInv (s.resume pid orc).1 := by
  intro hc
  obtain ⟨p, hp, ha, hmin⟩ := hen
  obtain ⟨hc0, hnr⟩ := resume_nocrash s pid orc p hp ha hc
  have hph := h hc0
  have hprs := hpr hc0
  obtain ⟨hpm, hpid⟩ := proc?_some hp
  subst hpid
  refine PH.core ?_ (resume_core s p.pid orc p hp ha)
    ((resume_machs s p.pid orc).trans (block_machs s p orc).symm)
  by_cases h2 : p.k.tag = "allocTask"
  · cases hk : p.k with
    | allocTask t m preds obs ing ret => exact ph_allocTask hph hs (hwi hc0) hpm ha hmin orc hk hnr
    | _ => rw [hk] at h2; simp [PK.tag] at h2
  · by_cases h3 : p.k.tag = "doWork"
    · cases hk : p.k with
      | doWork t m preds ph tot => exact ph_doWork hph hs hpm ha orc hk hnr
      | _ => rw [hk] at h3; simp [PK.tag] at h3
    · by_cases h4 : p.k.tag = "allocTasks"
      · cases hk : p.k with
        | allocTasks o sc pa po fn => exact ph_allocTasks hph hprs hs (hst hc0) hno hpm ha hmin orc hk
        | _ => rw [hk] at h4; simp [PK.tag] at h4
      · exact ph_harmless hph hprs hs hno hpm ha hmin orc h2 h3 h4

theorem reach_ph (s0 s : Sys) (hw : WFConfig s0) (hbuf : bufList s0.buf = []) (hno : s0.alg ≠ .oracle)
    (h : Reach s0 s) : PHInv s := by
  induction h with
  | start => exact fun _ => start_ph s0 hw
  | step s pid orc hr hen ih =>
    have hok := hr.toOk hno
    exact ph_step (reach_inv s0 s hw hok) (reachOk_wi s0 s hw hbuf hok)
      (reach_st s0 s hw hbuf hno hr) (reach_pr s0 s hw hbuf hno hr) ih (by rw [reach_alg hr]; exact hno) hen orc

/-! ### the single blocks -/

/-- the first block of a body with a non-empty cross-machine list: nothing is written, the body
is resumed at `startTime now bw arrivals` -/
theorem dw_wait_block (s : Sys) (now : Time) (orc : Oracle) (t : Tid) (m : Mid) (preds : List Tid) (tot : Nat)
    (hne : preds ≠ []) (hok : ∀ e, (s.doWorkBlock now orc t m preds 0 tot).2.2 ≠ .raised e) :
    ∃ r mm, s.task? t = some r ∧ s.machine? m = some mm ∧
      s.doWorkBlock now orc t m preds 0 tot =
        (s, .doWork t m preds 1 tot, .timeout (startTime now mm.bw (crossArr s r preds) - now)) := by
  have hsh := doWorkBlock_shape s now orc t m preds 0 tot
  generalize hX : s.doWorkBlock now orc t m preds 0 tot = X at hsh hok
  cases hsh with
  | raised ph' e => exact absurd rfl (hok e)
  | wait w _ _ hw =>
    obtain ⟨r, mm, hr, hmm, hwe⟩ := transferWait_ok hw
    refine ⟨r, mm, hr, hmm, ?_⟩
    rw [startTime_cross s r preds hne, ← hwe]
    congr 2
    grind
  | start r mm dur tot' hph _ _ =>
    rcases hph with e | ⟨_, e⟩
    · omega
    · exact absurd e hne
  | finish hph => omega

/-- the block that stamps the start: `ast := now` on the record of the task -/
theorem dw_start_block (s : Sys) (now : Time) (orc : Oracle) (t : Tid) (m : Mid) (preds : List Tid) (ph tot : Nat)
    (hph : ph = 1 ∨ (ph = 0 ∧ preds = []))
    (hok : ∀ e, (s.doWorkBlock now orc t m preds ph tot).2.2 ≠ .raised e) :
    ∃ r' tot', (s.doWorkBlock now orc t m preds ph tot).1.task? t = some r' ∧ r'.ast = some now ∧
      (s.doWorkBlock now orc t m preds ph tot).2.1 = .doWork t m preds 2 tot' ∧
      (s.doWorkBlock now orc t m preds ph tot).2.2 = .timeout ((bodyWait tot' : Nat) : Rat) := by
  have hsh := doWorkBlock_shape s now orc t m preds ph tot
  generalize hX : s.doWorkBlock now orc t m preds ph tot = X at hsh hok
  cases hsh with
  | raised ph' e => exact absurd rfl (hok e)
  | wait w h0 hne _ =>
    rcases hph with e | ⟨_, e⟩
    · omega
    · exact absurd e hne
  | start r mm dur tot' _ hr _ =>
    refine ⟨dwStartF now dur r, tot', ?_, rfl, rfl, rfl⟩
    exact task?_updTask_eq s (dwStartF now dur) (fun _ => rfl) hr
  | finish h2 => rcases hph with e | ⟨e, _⟩ <;> omega

/-- the last block of a body: `aft := now + 1` on the record of the task -/
theorem dw_end_block (s : Sys) (now : Time) (orc : Oracle) (t : Tid) (m : Mid) (preds : List Tid) (ph tot : Nat)
    (hph : 2 ≤ ph) (r : TaskRec) (hr : s.task? t = some r) :
    ∃ r', (s.doWorkBlock now orc t m preds ph tot).1.task? t = some r' ∧ r'.aft = some (now + 1) ∧
      r'.ast = r.ast ∧ (s.doWorkBlock now orc t m preds ph tot).2.2 = .done := by
  have hsh := doWorkBlock_shape s now orc t m preds ph tot
  generalize hX : s.doWorkBlock now orc t m preds ph tot = X at hsh
  cases hsh with
  | raised ph' e => 
    -- a body in its work phase does not raise
    exfalso
    unfold doWorkBlock at hX
    have h0 : ¬ ph = 0 := by omega
    have h1 : ¬ ph = 1 := by omega
    simp only [h0, h1, if_false] at hX
    injection hX with _ hX
    injection hX with _ hX
    exact absurd hX (by simp)
  | wait w h0 _ _ => omega
  | start r0 mm dur tot' h0 _ _ => rcases h0 with e | ⟨e, _⟩ <;> omega
  | finish _ =>
    obtain ⟨_, _, _, d, _, f⟩ := dwEndF_spec now tot r
    exact ⟨dwEndF now tot r, task?_updTask_eq s (dwEndF now tot) (fun r => (dwEndF_spec now tot r).1) hr,
      f, d, rfl⟩

/-! ### on trajectories -/

/-- the body process of a started workflow task: its cross-machine list holds finished
predecessors of the task, and the recorded start is `startTime alloc bw arrivals` -/
theorem reach_recorded_start (s0 s : Sys) (hw : WFConfig s0) (hbuf : bufList s0.buf = [])
    (hno : s0.alg ≠ .oracle) (h : Reach s0 s) (hc : s.crashed = none) :
    ∀ d ∈ s.procs, ∀ t m cross ph tot, d.k = .doWork t m cross ph tot → 2 ≤ ph → IsWf t →
      CrossOk s t cross ∧
      ∃ r mm alloc, s.task? t = some r ∧ s.machine? m = some mm ∧
        r.ast = some (startTime alloc mm.bw (crossArr s r cross)) := by
  have hph := reach_ph s0 s hw hbuf hno h hc
  intro d hd t m cross ph tot hk hp2 hwf
  exact ⟨hph.dwCross d hd t m cross ph tot hk hwf, hph.startedAt d hd t m cross ph tot hk hp2 hwf⟩

end Sys
end Topsim
