/-
  IngestLimit16 — the ingest timing invariant across a block of an allocation
  process (`allocate_task_to_cluster`): first block (the task body is created),
  polling, completion (the machine is given back).
-/
import TopsimProofs.IngestLimit15

namespace Topsim
namespace Sys

open Cluster

theorem il_allocBegin_ing_none {c : Cluster} {U : List Tid} (h : Cluster.Inv c U) (e : RunEntry)
    (he : e ∈ c.pending) : (c.allocBegin e.task e.mach e.obs true).2 = none := by
  have hfr := h.pendFresh e he
  obtain ⟨t, m, obs, ing⟩ := e
  simp only at hfr ⊢
  have hmi : m ∈ c.ingest := by
    have h1 := h.ingm m
    have h2 : 0 < (c.pending.map (·.mach)).count m :=
      count_pos_of_mem (List.mem_map_of_mem (f := (·.mach)) he)
    exact List.count_pos_iff.mp (by omega)
  unfold allocBegin
  simp [hfr.1, hmi]

theorem il_nodup_of_map {α β} {f : α → β} {l : List α} (h : (l.map f).Nodup) : l.Nodup := nodup_of_map h

/-- an allocation process that is no ingest allocation process: nothing the invariant reads
changes, whatever the outcome of the block -/
theorem ilti_step_allocTask_other {s : Sys} (hs : SInv s) (h : ILTI s) {pid : Nat} {p : Proc}
    (hp : s.proc? pid = some p) (ha : p.alive = true) (orc : Oracle)
    {t : Tid} {m : Mid} {preds : List Tid} {obs : Option Oid} {ret : Nat}
    (hk : p.k = .allocTask t m preds obs false ret) : ILTI (s.resume pid orc).1 := by
  obtain ⟨hpm, hpid⟩ := proc?_some hp
  have hpw := hs.pw
  obtain ⟨U, hU⟩ := hs.ci
  have hb : s.block p orc = s.allocTaskBlock p.wake t m preds obs false ret := by
    unfold block; simp only [hk]
  obtain ⟨f1, f2, f3⟩ := il_resume_fields s pid orc p hp ha
  -- what the block leaves, in every case
  have key : (s.block p orc).1.obs = s.obs ∧ (s.block p orc).1.cl.pending = s.cl.pending ∧
      (∀ e : RunEntry, e.ing = true → (e ∈ (s.block p orc).1.cl.runOn ↔ e ∈ s.cl.runOn)) ∧
      IlTaskK s.tasks (s.block p orc).1.tasks ∧
      (∃ new, (s.block p orc).1.procs = s.procs ++ new ∧ ∀ q ∈ new, q.k.ilRel = false) ∧
      (s.block p orc).2.1.ilRel = false := by
    rw [hb]
    rcases allocTaskBlock_cases s hpw p.wake t m preds obs false ret with
      ⟨hnr, e, he, heq⟩ | ⟨hnr, hok, heq⟩ | ⟨hr, htr, heq⟩ | ⟨hr, htr, e, he, heq⟩ | ⟨hr, htr, hok, heq⟩
    · rw [heq]
      have hun := allocBegin_err_unchanged s.cl t m obs false e he
      exact ⟨rfl, by simp only [hun], fun e _ => by simp only [hun], IlTaskK.refl _, ⟨[], by simp, by simp⟩, rfl⟩
    · rw [heq]
      obtain ⟨g1, g2, _, _⟩ := allocBegin_fields s.cl t m obs false hok
      refine ⟨rfl, by simpa using g2, ?_, ?_, ⟨_, rfl, by simp [PK.ilRel]⟩, rfl⟩
      · intro e hi
        show e ∈ (s.cl.allocBegin t m obs false).1.runOn ↔ _
        rw [g1, List.mem_append, List.mem_singleton]
        constructor
        · rintro (h1 | h1)
          · exact h1
          · rw [h1] at hi; simp at hi
        · exact Or.inl
      · exact IlTaskK.updTask _ t _ (fun r => ⟨rfl, rfl, rfl, fun _ _ => rfl, rfl⟩)
    · rw [heq]
      exact ⟨rfl, rfl, fun _ _ => Iff.rfl, IlTaskK.refl _, ⟨[], by simp, by simp⟩, rfl⟩
    · exfalso
      have := (hU.atEnd hpw hpm ha hk hr (fin p.k .done p.wake) (by simp) (by simp) (by simp)).1
      rw [this] at he; exact absurd he (by simp)
    · rw [heq]
      obtain ⟨g1, g2, _, _⟩ := allocEnd_fields s.cl t m obs false hok
      refine ⟨rfl, g2, ?_, ?_, ⟨[], by simp, by simp⟩, rfl⟩
      · intro e hi
        show e ∈ (s.cl.allocEnd t m obs false).1.runOn ↔ _
        rw [g1]
        constructor
        · exact List.mem_of_mem_erase
        · intro h1
          refine (List.mem_erase_of_ne ?_).mpr h1
          intro e1; rw [e1] at hi; simp at hi
      · exact IlTaskK.updTask _ t _ (fun r => ⟨rfl, rfl, rfl, fun _ _ => rfl, rfl⟩)
  obtain ⟨k1, k2, k3, k4, k5, k6⟩ := key
  obtain ⟨m1, m3⟩ := il_resume_procs_irrel hpw hp ha orc k5
  have hpnr : p.k.ilRel = false ∧ p.k.isDoWork = false := by rw [hk]; exact ⟨rfl, rfl⟩
  apply h.frame
  · rw [f1]; exact k1
  · rw [f2]; exact k2
  · intro e hi; rw [f2]; exact k3 e hi
  · rw [f3]; exact k4
  · intro q hqm hrel
    apply m3 q hqm
    intro e
    have : q = p := hpw.eq_of_pid hqm hpm (e.trans hpid.symm)
    subst this
    rcases hrel with hrel | hrel
    · rw [hpnr.1] at hrel; exact absurd hrel (by simp)
    · rw [hpnr.2] at hrel; exact absurd hrel (by simp)
  · intro q' hq'
    rcases m1 q' hq' with rfl | ⟨hold, _⟩ | ⟨hirr, hge⟩
    · right
      refine ⟨by simpa using k6, ?_⟩
      intro r hr hrk e
      have : r = p := hpw.eq_of_pid hr hpm (by simpa [hpid] using e)
      subst this
      rw [hpnr.2] at hrk; exact absurd hrk (by simp)
    · exact Or.inl hold
    · right
      refine ⟨hirr, ?_⟩
      intro r hr _ e
      have := hpw.lt r hr
      omega


/-! ### the clauses about supervisors and provisioning processes, when those are left alone -/

theorem ILTI.base {s s' : Sys} (h : ILTI s) (hobs : s'.obs = s.obs) (htasks : IlTaskK s.tasks s'.tasks)
    (hAI0 : ∀ q' ∈ s'.procs, ∀ o tl, q'.k = .allocIngest o tl → q'.pc = 0 → q' ∈ s.procs)
    (hAI1 : ∀ q' ∈ s'.procs, q'.alive = true → ∀ o tl, q'.k = .allocIngest o tl → q' ∈ s.procs)
    (hPI0 : ∀ q' ∈ s'.procs, q'.alive = true → q'.pc = 0 → ∀ o d, q'.k = .provIngest o d → q' ∈ s.procs) :
    (∀ ob ∈ s'.obs, 1 ≤ ob.duration) ∧
    (∀ r ∈ s'.tasks, ∀ o i, r.id = .ingest o i →
      r.flops = 0 ∧ r.data = 0 ∧ ∃ ob, s'.obs? o = some ob ∧ r.duration = ob.duration) ∧
    (∀ p ∈ s'.procs, ∀ o tl, p.k = .allocIngest o tl → p.pc = 0 →
      ∃ (n : Nat) (ob : Obs), p.wake = (n : Time) ∧ s'.obs? o = some ob ∧ ob.ast = some n ∧ (p.alive = true → ob.status = .waiting)) ∧
    (∀ p ∈ s'.procs, p.alive = true → 1 ≤ p.pc → ∀ o tl, p.k = .allocIngest o tl →
      ∃ ob a j, s'.obs? o = some ob ∧ ob.ast = some a ∧ 1 ≤ j ∧ p.wake = ((a + j : Nat) : Time) ∧
        tl = (ob.duration : Int) - (j : Int)) ∧
    (∀ p ∈ s'.procs, p.alive = true → ∀ o tl, p.k = .allocIngest o tl → ∀ ob a, s'.obs? o = some ob →
      ob.status = .finished → ob.ast = some a → ((a + ob.duration : Nat) : Time) ≤ p.wake) ∧
    (∀ q ∈ s'.procs, q.alive = true → q.pc = 0 → ∀ o d, q.k = .provIngest o d →
      ∃ ob a, s'.obs? o = some ob ∧ ob.ast = some a ∧ q.wake = ((a : Nat) : Time)) := by
  have ho : ∀ o, s'.obs? o = s.obs? o := il_obs?_congr' hobs
  refine ⟨by rw [hobs]; exact h.durPos, ?_, ?_, ?_, ?_, ?_⟩
  · intro r' hr' o i hid
    obtain ⟨r, hr, e1, e2, e3, e4, _⟩ := htasks r' hr' (by rw [hid]; rfl)
    obtain ⟨k1, k2, ob, hob, k3⟩ := h.taskR r hr o i (e1 ▸ hid)
    exact ⟨e2.trans k1, e3.trans k2, ob, by rw [ho]; exact hob, (e4 k1 k2).trans k3⟩
  · intro q hq o tl hqk hpc
    obtain ⟨n, ob, h1, h2, h3⟩ := h.aiNew q (hAI0 q hq o tl hqk hpc) o tl hqk hpc
    exact ⟨n, ob, h1, by rw [ho]; exact h2, h3⟩
  · intro q hq hqa hpc o tl hqk
    obtain ⟨ob, a, j, h1, r⟩ := h.aiRun q (hAI1 q hq hqa o tl hqk) hqa hpc o tl hqk
    exact ⟨ob, a, j, by rw [ho]; exact h1, r⟩
  · intro q hq hqa o tl hqk ob a hob
    rw [ho] at hob
    exact h.aiFin q (hAI1 q hq hqa o tl hqk) hqa o tl hqk ob a hob
  · intro q hq hqa hqc o d hqk
    obtain ⟨ob, a, h1, r⟩ := h.piW q (hPI0 q hq hqa hqc o d hqk) hqa hqc o d hqk
    exact ⟨ob, a, by rw [ho]; exact h1, r⟩

/-! ### an ingest allocation process -/

theorem ilti_step_allocTask_ing {s : Sys} (hs : SInv s) (h : ILTI s) {pid : Nat} {p : Proc}
    (hp : s.proc? pid = some p) (ha : p.alive = true)
    (hmin : ∀ q ∈ s.procs, q.alive = true → p.wake ≤ q.wake) (orc : Oracle)
    {t : Tid} {m : Mid} {preds : List Tid} {obs : Option Oid} {ret : Nat}
    (hk : p.k = .allocTask t m preds obs true ret) : ILTI (s.resume pid orc).1 := by
  obtain ⟨hpm, hpid⟩ := proc?_some hp
  have hpw := hs.pw
  obtain ⟨U, hU⟩ := hs.ci
  have hb : s.block p orc = s.allocTaskBlock p.wake t m preds obs true ret := by
    unfold block; simp only [hk]
  obtain ⟨f1, f2, f3⟩ := il_resume_fields s pid orc p hp ha
  have hpendnd : s.cl.pending.Nodup := il_nodup_of_map hU.inv.pendNodup
  have hrunnd : s.cl.runOn.Nodup := by
    apply il_nodup_of_map (f := (·.task))
    rw [hU.inv.runOnTasks]; exact hU.inv.runNodup
  -- the entry of the process after its block
  have hp'in := (il_resume_procs_mem hpw hp ha orc).2.1
  -- the part common to all outcomes
  have common : ∀ (hobs : (s.resume pid orc).1.obs = s.obs)
      (htasks : IlTaskK s.tasks (s.resume pid orc).1.tasks)
      (hnewk : ∃ new, (s.block p orc).1.procs = s.procs ++ new ∧ ∀ q ∈ new, q.k.ilRel = false)
      (hk' : ∃ ret', (s.block p orc).2.1 = .allocTask t m preds obs true ret')
      (hatRunP : (fin (s.block p orc).2.1 (s.block p orc).2.2 p.wake p).alive = true →
        ∀ o ret', obs = some o → (s.block p orc).2.1 = .allocTask t m preds (some o) true ret' →
        (∃ i, t = .ingest o i) ∧ ∃ r ∈ (s.resume pid orc).1.procs, r.pid = ret' ∧
          (fin (s.block p orc).2.1 (s.block p orc).2.2 p.wake p).wake ≤ r.wake + 1 ∧
          ∃ ph tot, r.k = .doWork t m [] ph tot ∧ (r.alive = true → ph = 0 ∨ 2 ≤ ph) ∧
            ∃ ob a b, s.obs? o = some ob ∧ ob.ast = some a ∧ r.wake = ((b : Nat) : Time) ∧
              (r.alive = true → ph = 0 → b = a) ∧ b + 1 ≤ a + ob.duration ∧
              ∃ c : Nat, (fin (s.block p orc).2.1 (s.block p orc).2.2 p.wake p).wake = (c : Time))
      (hentP : ∀ e ∈ (s.resume pid orc).1.cl.pending, e ∈ s.cl.pending ∧ e ≠ ⟨t, m, obs, true⟩)
      (hentR : ∀ e ∈ (s.resume pid orc).1.cl.runOn, e.ing = true →
        (e ∈ s.cl.runOn ∧ e ≠ ⟨t, m, obs, true⟩) ∨
        (e = ⟨t, m, obs, true⟩ ∧ (fin (s.block p orc).2.1 (s.block p orc).2.2 p.wake p).alive = true))
      (hstaleP : ∀ o, obs = some o → (⟨t, m, obs, true⟩ : RunEntry) ∈ (s.resume pid orc).1.cl.ilEntries →
        o ∉ ilLiveAI s.procs → ∃ q ∈ s.procs, q.pid ≠ pid ∧ q.alive = true ∧ 1 ≤ q.pc ∧
          (∃ preds1 ret1, q.k = .allocTask t m preds1 (some o) true ret1 ∧
            ∀ r ∈ s.procs, r.pid = ret1 → r.alive = false ∧ r.wake + 1 ≤ q.wake) ∧
          ∀ t' ∈ s.procs, t'.k = .telescope → t'.alive = true → q.wake < t'.wake),
      ILTI (s.resume pid orc).1 := by
    intro hobs htasks hnewk hk' hatRunP hentP hentR hstaleP
    obtain ⟨ret', hk'⟩ := hk'
    have ho : ∀ o, (s.resume pid orc).1.obs? o = s.obs? o := il_obs?_congr' hobs
    obtain ⟨m1, m3⟩ := il_resume_procs_irrel hpw hp ha orc hnewk
    have hp'k : (fin (s.block p orc).2.1 (s.block p orc).2.2 p.wake p).k = .allocTask t m preds obs true ret' := by
      rw [fin_k, hk']
    -- processes of the kinds the invariant talks about, other than the one that ran, are old
    have hrel : ∀ q' ∈ (s.resume pid orc).1.procs, q'.k.ilRel = true →
        q' = fin (s.block p orc).2.1 (s.block p orc).2.2 p.wake p ∨ (q' ∈ s.procs ∧ q'.pid ≠ pid) := by
      intro q' hq' hr
      rcases m1 q' hq' with hh | hh | ⟨hh, _⟩
      · exact Or.inl hh
      · exact Or.inr hh
      · rw [hh] at hr; exact absurd hr (by simp)
    have hold : ∀ q ∈ s.procs, q.pid ≠ pid → q ∈ (s.resume pid orc).1.procs := m3
    have hne_of : ∀ q ∈ s.procs, q.k ≠ p.k → q.pid ≠ pid := by
      intro q hq hne e
      have : q = p := hpw.eq_of_pid hq hpm (e.trans hpid.symm)
      exact hne (by rw [this])
    have hlive : ∀ o, o ∉ ilLiveAI (s.resume pid orc).1.procs → o ∉ ilLiveAI s.procs := by
      intro o hno hin
      obtain ⟨q, hq, hqa, hqk⟩ := mem_ilLiveAI.mp hin
      apply hno
      refine mem_ilLiveAI.mpr ⟨q, hold q hq (hne_of q hq ?_), hqa, hqk⟩
      intro e; rw [e, hk] at hqk; simp [PK.aiObs] at hqk
    obtain ⟨b1, b2, b3, b4, b4', b5⟩ := h.base hobs htasks
      (by
        intro q' hq' o tl hqk _
        rcases hrel q' hq' (by rw [hqk]; rfl) with rfl | hh
        · rw [hp'k] at hqk; exact absurd hqk (by simp)
        · exact hh.1)
      (by
        intro q' hq' _ o tl hqk
        rcases hrel q' hq' (by rw [hqk]; rfl) with rfl | hh
        · rw [hp'k] at hqk; exact absurd hqk (by simp)
        · exact hh.1)
      (by
        intro q' hq' _ _ o d hqk
        rcases hrel q' hq' (by rw [hqk]; rfl) with rfl | hh
        · rw [hp'k] at hqk; exact absurd hqk (by simp)
        · exact hh.1)
    refine ⟨b1, b2, b3, b4, b4', b5, ?_, ?_, ?_, ?_, ?_, ?_⟩
    · -- allocation processes before their first block
      intro q hq hqa hqc t1 m1' preds1 o ret1 hqk
      rcases hrel q hq (by rw [hqk]; rfl) with rfl | hh
      · simp at hqc
      · obtain ⟨h1, h2, ob, a, h3, r⟩ := h.atPend q hh.1 hqa hqc t1 m1' preds1 o ret1 hqk
        exact ⟨h1, h2, ob, a, by rw [ho]; exact h3, r⟩
    · -- polling allocation processes
      intro q hq hqa hqc t1 m1' preds1 o ret1 hqk
      rcases hrel q hq (by rw [hqk]; rfl) with rfl | hh
      · rw [hp'k] at hqk
        injection hqk with e1 e2 e3 e4 e5 e6
        subst e1 e2 e3 e6
        obtain ⟨hi, r, hr, hrp, hw, ph, tot, hrk, hph, ob, a, b, hob, rest⟩ :=
          hatRunP hqa o ret' e4 (by rw [hk', e4])
        exact ⟨hi, r, hr, hrp, hw, ph, tot, hrk, hph, ob, a, b, by rw [ho]; exact hob, rest⟩
      · obtain ⟨h1, r, hr, hrp, hw, ph, tot, hrk, hph, ob, a, b, hob, rest⟩ :=
          h.atRun q hh.1 hqa hqc t1 m1' preds1 o ret1 hqk
        refine ⟨h1, r, hold r hr (hne_of r hr ?_), hrp, hw, ph, tot, hrk, hph, ob, a, b, by rw [ho]; exact hob, rest⟩
        intro e; rw [hrk, hk] at e; exact absurd e (by simp)
    · -- F13: recorded finishes of ingest tasks
      intro r' hr' hi f hf
      obtain ⟨r, hr, e1, _, _, _, e5⟩ := htasks r' hr' hi
      obtain ⟨d, hd, hda, hfd, m', preds', ph', tot', hdk⟩ := h.aftI r hr (e1 ▸ hi) f (e5 ▸ hf)
      refine ⟨d, hold d hd ?_, hda, hfd, m', preds', ph', tot', by rw [e1]; exact hdk⟩
      intro e
      have : d = p := hpw.eq_of_pid hd hpm (e.trans hpid.symm)
      rw [this, ha] at hda; exact absurd hda (by simp)
    · -- the ghost list of processes before their first block
      intro e he
      obtain ⟨he1, hne⟩ := hentP e he
      obtain ⟨o, h1, q, hq, h2, h3, preds1, ret1, hqk⟩ := h.entPend e he1
      refine ⟨o, h1, q, hold q hq ?_, h2, h3, preds1, ret1, hqk⟩
      intro epid
      have : q = p := hpw.eq_of_pid hq hpm (epid.trans hpid.symm)
      subst this
      rw [hk] at hqk
      injection hqk with e1 e2 e3 e4 e5 e6
      apply hne
      have hing := hU.inv.pendIng e he1
      cases e
      simp only at e1 e2 e4 hing h1 ⊢
      subst e1 e2 hing
      rw [h1, e4]
    · -- the ghost list of polling processes
      intro e he hi
      rcases hentR e he hi with ⟨he1, hne⟩ | ⟨he1, hal⟩
      · obtain ⟨o, h1, q, hq, h2, h3, preds1, ret1, hqk⟩ := h.entRun e he1 hi
        refine ⟨o, h1, q, hold q hq ?_, h2, h3, preds1, ret1, hqk⟩
        intro epid
        have : q = p := hpw.eq_of_pid hq hpm (epid.trans hpid.symm)
        subst this
        rw [hk] at hqk
        injection hqk with e1 e2 e3 e4 e5 e6
        apply hne
        cases e
        simp only at e1 e2 e4 hi h1 ⊢
        subst e1 e2 hi
        rw [h1, e4]
      · -- the entry of the process that ran: it has just begun
        subst he1
        have hob : ∃ o, obs = some o := by
          by_cases hpc : p.pc = 0
          · obtain ⟨o, h1, _⟩ := h.entPend _ (hU.pend p hpm ha t m preds obs ret hk hpc)
            exact ⟨o, h1⟩
          · obtain ⟨o, h1, _⟩ := h.entRun _ (hU.runOn p hpm ha t m preds obs true ret hk (by omega)) rfl
            exact ⟨o, h1⟩
        obtain ⟨o, hob⟩ := hob
        refine ⟨o, hob, _, hp'in, hal, by simp, preds, ret', ?_⟩
        rw [hp'k, hob]
    · -- allocation processes whose supervisor has ended
      intro e he o heo hno
      have hno' := hlive o hno
      -- the entry is an old one
      have heold : e ∈ s.cl.ilEntries ∧ (e ≠ ⟨t, m, obs, true⟩ ∨ e = ⟨t, m, obs, true⟩) := by
        rcases mem_ilEntries.mp he with hpd | ⟨hro, hi⟩
        · exact ⟨mem_ilEntries.mpr (Or.inl (hentP e hpd).1), Or.inl (hentP e hpd).2⟩
        · rcases hentR e hro hi with ⟨h1, h2⟩ | ⟨h1, _⟩
          · exact ⟨mem_ilEntries.mpr (Or.inr ⟨h1, hi⟩), Or.inl h2⟩
          · refine ⟨?_, Or.inr h1⟩
            subst h1
            by_cases hpc : p.pc = 0
            · exact mem_ilEntries.mpr (Or.inl (hU.pend p hpm ha t m preds obs ret hk hpc))
            · exact mem_ilEntries.mpr (Or.inr ⟨hU.runOn p hpm ha t m preds obs true ret hk (by omega), rfl⟩)
      obtain ⟨heo1, hcase⟩ := heold
      -- the old witness, which is not the process that ran
      have hwit : ∃ q ∈ s.procs, q.pid ≠ pid ∧ q.alive = true ∧ 1 ≤ q.pc ∧
          (∃ preds1 ret1, q.k = .allocTask e.task e.mach preds1 (some o) true ret1 ∧
            ∀ r ∈ s.procs, r.pid = ret1 → r.alive = false ∧ r.wake + 1 ≤ q.wake) ∧
          ∀ t' ∈ s.procs, t'.k = .telescope → t'.alive = true → q.wake < t'.wake := by
        rcases hcase with hne | heq
        · obtain ⟨q, hq, hqa, hqc, ⟨preds1, ret1, hqk, hdead⟩, hlt⟩ := h.stale e heo1 o heo hno'
          refine ⟨q, hq, ?_, hqa, hqc, ⟨preds1, ret1, hqk, hdead⟩, hlt⟩
          intro epid
          have : q = p := hpw.eq_of_pid hq hpm (epid.trans hpid.symm)
          subst this
          rw [hk] at hqk
          injection hqk with e1 e2 e3 e4 e5 e6
          apply hne
          have hing : e.ing = true := by
            rcases mem_ilEntries.mp heo1 with hpd | ⟨_, hi⟩
            · exact hU.inv.pendIng e hpd
            · exact hi
          cases e
          simp only at e1 e2 e4 hing heo ⊢
          subst e1 e2 hing
          rw [heo, e4]
        · subst heq
          exact hstaleP o heo he hno'
      obtain ⟨q, hq, hqne, hqa, hqc, ⟨preds1, ret1, hqk, hdead⟩, hlt⟩ := hwit
      refine ⟨q, hold q hq hqne, hqa, hqc, ⟨preds1, ret1, hqk, ?_⟩, ?_⟩
      · intro r' hr' hrp
        rcases m1 r' hr' with rfl | ⟨hh, _⟩ | ⟨_, hge⟩
        · exfalso
          have := (hdead p hpm (by simpa [hpid] using hrp)).1
          rw [this] at ha; exact absurd ha (by simp)
        · exact hdead r' hh hrp
        · exfalso
          obtain ⟨_, r, hr, hrpid, _⟩ := h.atRun q hq hqa hqc _ _ _ _ _ hqk
          have := hpw.lt r hr
          omega
      · intro t' ht' htk hta
        rcases hrel t' ht' (by rw [htk]; rfl) with rfl | hh
        · rw [hp'k] at htk; exact absurd htk (by simp)
        · exact hlt t' hh.1 htk hta
  -- the outcomes
  rw [hb] at f1 f2 f3
  rcases allocTaskBlock_cases s hpw p.wake t m preds obs true ret with
    ⟨hnr, e, he, heq⟩ | ⟨hnr, hok, heq⟩ | ⟨hr, htr, heq⟩ | ⟨hr, htr, e, he, heq⟩ | ⟨hr, htr, hok, heq⟩
  · -- refused: impossible, the process is in the ghost list
    exfalso
    have hpc0 := hU.pc_zero hpm ha hk hnr
    have := il_allocBegin_ing_none hU.inv _ (hU.pend p hpm ha t m preds obs ret hk hpc0)
    simp only at this
    rw [this] at he; exact absurd he (by simp)
  · -- first block: the task body is created, due now
    have hpc0 := hU.pc_zero hpm ha hk hnr
    have hin0 := hU.pend p hpm ha t m preds obs ret hk hpc0
    obtain ⟨g1, g2, _, _⟩ := allocBegin_fields s.cl t m obs true hok
    rw [heq] at f1 f2 f3
    have hbk : (s.block p orc).2.1 = .allocTask t m preds obs true s.nextPid := by rw [hb, heq]
    have hby : (s.block p orc).2.2 = .timeout 1 := by rw [hb, heq]
    have hbp : (s.block p orc).1.procs = s.procs ++ [{ pid := s.nextPid, k := .doWork t m preds 0 0, wake := p.wake }] := by
      rw [hb, heq]; rfl
    apply common f1
    · rw [f3]; exact IlTaskK.updTask _ t _ (fun r => ⟨rfl, rfl, rfl, fun _ _ => rfl, rfl⟩)
    · exact ⟨_, hbp, by simp [PK.ilRel]⟩
    · exact ⟨_, hbk⟩
    · intro _ o ret' hobs hkk
      rw [hbk] at hkk
      injection hkk with _ _ _ _ _ e6
      subst e6 hobs
      obtain ⟨hpr, hi, ob, a, hob, hast, hw⟩ := h.atPend p hpm ha hpc0 t m preds o ret hk
      subst hpr
      have hD := h.durPos ob (by unfold obs? at hob; exact List.mem_of_find?_eq_some hob)
      -- the new task body
      have hrin : ({ pid := s.nextPid, k := .doWork t m [] 0 0, wake := p.wake } : Proc) ∈ (s.resume pid orc).1.procs := by
        rw [(il_resume_procs_eq s pid orc p hp ha).1]
        refine mem_updProc.mpr ⟨{ pid := s.nextPid, k := .doWork t m [] 0 0, wake := p.wake },
          by rw [hbp]; simp, ?_⟩
        have := hpw.lt p hpm
        rw [if_neg (by simp; omega)]
      refine ⟨hi, _, hrin, rfl, ?_, 0, 0, rfl, fun _ => Or.inl rfl, ob, a, a, hob, hast, hw, fun _ _ => rfl, by omega,
        a + 1, ?_⟩
      · rw [hby, il_fin_wake_timeout]
        exact Rat.le_refl
      · rw [hby, il_fin_wake_timeout, hw]; simp
    · intro e he
      rw [f2] at he
      have he' : e ∈ s.cl.pending.erase ⟨t, m, obs, true⟩ := by
        have : (s.cl.allocBegin t m obs true).1.pending = s.cl.pending.erase ⟨t, m, obs, true⟩ := by
          simpa using g2
        rw [← this]; exact he
      exact ⟨List.mem_of_mem_erase he', ((List.Nodup.mem_erase_iff hpendnd).mp he').1⟩
    · intro e he hi
      rw [f2] at he
      have he' : e ∈ s.cl.runOn ++ [⟨t, m, obs, true⟩] := by rw [← g1]; exact he
      rcases List.mem_append.mp he' with h1 | h1
      · left
        refine ⟨h1, ?_⟩
        intro e1; subst e1
        have : t ∈ s.cl.running := by
          rw [← hU.inv.runOnTasks]; exact List.mem_map_of_mem (f := (·.task)) h1
        exact hnr this
      · right
        simp only [List.mem_singleton] at h1
        exact ⟨h1, by rw [hby]; exact ha⟩
    · -- not stale before: its witness would be a second live allocation process of the task
      intro o hobs _ hno
      exfalso
      obtain ⟨q, hq, hqa, hqc, ⟨preds1, ret1, hqk, _⟩, _⟩ :=
        h.stale _ (mem_ilEntries.mpr (Or.inl hin0)) o hobs hno
      have := hU.uniq q hq p hpm hqa ha _ _ _ _ _ _ _ _ _ _ _ hqk hk
      have : q = p := hpw.eq_of_pid hq hpm this
      rw [this] at hqc; omega
  · -- polling: the task body is still alive
    have hpc := hU.pc_pos hpm ha hk hr
    have hin0 := hU.runOn p hpm ha t m preds obs true ret hk hpc
    rw [heq] at f1 f2 f3
    have hbk : (s.block p orc).2.1 = .allocTask t m preds obs true ret := by rw [hb, heq]
    have hby : (s.block p orc).2.2 = .timeout 1 := by rw [hb, heq]
    have hbp : (s.block p orc).1.procs = s.procs := by rw [hb, heq]
    -- F13: the body is alive, or it has ended and the finish it recorded is still ahead
    have hbody : ∀ o, obs = some o → ∀ r ∈ s.procs, r.pid = ret →
        p.wake ≤ r.wake ∧ ¬ (r.alive = false ∧ r.wake + 1 ≤ p.wake) := by
      intro o hobs r hr hrp
      have hpr : s.proc? ret = some r := by rw [← hrp]; exact hpw.proc?_of_mem hr
      cases htr1 : s.procTriggered ret with
      | false =>
        have hra : r.alive = true := by
          unfold procTriggered at htr1
          rw [hpr] at htr1
          simpa using htr1
        exact ⟨hmin r hr hra, fun hh => by rw [hra] at hh; exact absurd hh.1 (by simp)⟩
      | true =>
        rw [htr1, Bool.true_and] at htr
        obtain ⟨rec, f, hrec, hf, hlt⟩ := aftReached_eq_false htr
        obtain ⟨hrecm, hrecid⟩ := il_task?_mem hrec
        subst hobs
        obtain ⟨⟨i, hti⟩, r0, hr0m, hr0p, _, ph, tot, hr0k, _, ob, a, b, _, _, hr0w, _, _, c, hc⟩ :=
          h.atRun p hpm ha hpc t m preds o ret hk
        have : r0 = r := hpw.eq_of_pid hr0m hr (hr0p.trans hrp.symm)
        subst this
        obtain ⟨d, hd, hda, hfd, m', preds', ph', tot', hdk⟩ :=
          h.aftI rec hrecm (by rw [hrecid, hti]; rfl) f hf
        rw [hrecid] at hdk
        have : d = r0 := hpw.eq_of_pid hd hr0m (hs.dg.dwUniq d hd r0 hr0m _ _ _ _ _ _ _ _ _ hdk hr0k)
        subst this
        rw [hfd, hr0w, hc] at hlt
        have hcb : c ≤ b := by
          have : ((c : Nat) : Time) < ((b + 1 : Nat) : Time) := by simpa using hlt
          have := Rat.natCast_lt_natCast.mp this
          omega
        refine ⟨by rw [hc, hr0w]; exact Rat.natCast_le_natCast.mpr hcb, fun hh => ?_⟩
        have h2 := hh.2
        rw [hr0w, hc] at h2
        have : ((b + 1 : Nat) : Time) ≤ ((c : Nat) : Time) := by simpa using h2
        have := Rat.natCast_le_natCast.mp this
        omega
    apply common f1
    · rw [f3]; exact IlTaskK.refl _
    · exact ⟨[], by rw [hbp]; simp, by simp⟩
    · exact ⟨_, hbk⟩
    · intro _ o ret' hobs hkk
      rw [hbk] at hkk
      injection hkk with _ _ _ _ _ e6
      subst e6
      have hbd := hbody o hobs
      subst hobs
      obtain ⟨hi, r, hrm, hrp, hw, ph, tot, hrk, hph, ob, a, b, hob, hast, hrw, hb0, hbd', c, hc⟩ :=
        h.atRun p hpm ha hpc t m preds o ret hk
      have hrne : r.pid ≠ pid := by
        intro e
        have : r = p := hpw.eq_of_pid hrm hpm (e.trans hpid.symm)
        rw [this, hk] at hrk; exact absurd hrk (by simp)
      refine ⟨hi, r, (il_resume_procs_mem hpw hp ha orc).2.2 r hrm hrne, hrp, ?_, ph, tot, hrk, hph, ob, a, b, hob,
        hast, hrw, hb0, hbd', c + 1, ?_⟩
      · rw [hby, il_fin_wake_timeout]
        have := (hbd r hrm hrp).1
        grind
      · rw [hby, il_fin_wake_timeout, hc]; simp
    · intro e he
      rw [f2] at he
      refine ⟨he, ?_⟩
      intro e1; subst e1
      exact (hU.inv.pendFresh _ he).1 hr
    · intro e he hi
      rw [f2] at he
      by_cases e1 : e = ⟨t, m, obs, true⟩
      · exact Or.inr ⟨e1, by rw [hby]; exact ha⟩
      · exact Or.inl ⟨he, e1⟩
    · -- not stale: the body of a stale allocation process is dead, and its recorded finish reached
      intro o hobs _ hno
      exfalso
      have hbd := hbody o hobs
      subst hobs
      obtain ⟨q, hq, hqa, hqc, ⟨preds1, ret1, hqk, hdead⟩, _⟩ :=
        h.stale _ (mem_ilEntries.mpr (Or.inr ⟨hin0, rfl⟩)) o rfl hno
      have hqp := hU.uniq q hq p hpm hqa ha _ _ _ _ _ _ _ _ _ _ _ hqk hk
      have : q = p := hpw.eq_of_pid hq hpm hqp
      subst this
      rw [hk] at hqk
      injection hqk with _ _ _ _ _ e6
      subst e6
      obtain ⟨_, r, hrm, hrp, _⟩ := h.atRun q hpm ha hpc t m preds o ret hk
      exact (hbd r hrm hrp).2 (hdead r hrm hrp)
  · exfalso
    have := (hU.atEnd hpw hpm ha hk hr (fin p.k .done p.wake) (by simp) (by simp) (by simp)).1
    rw [this] at he; exact absurd he (by simp)
  · -- completion: the machine is given back, the process ends
    have hpc := hU.pc_pos hpm ha hk hr
    obtain ⟨g1, g2, _, _⟩ := allocEnd_fields s.cl t m obs true hok
    rw [heq] at f1 f2 f3
    have hbk : (s.block p orc).2.1 = .allocTask t m preds obs true ret := by rw [hb, heq]
    have hby : (s.block p orc).2.2 = .done := by rw [hb, heq]
    have hbp : (s.block p orc).1.procs = s.procs := by rw [hb, heq]; rfl
    apply common f1
    · rw [f3]; exact IlTaskK.updTask _ t _ (fun r => ⟨rfl, rfl, rfl, fun _ _ => rfl, rfl⟩)
    · exact ⟨[], by rw [hbp]; simp, by simp⟩
    · exact ⟨_, hbk⟩
    · intro hal; rw [hby] at hal; exact absurd hal (by simp)
    · intro e he
      rw [f2] at he
      have he' : e ∈ s.cl.pending := by rw [← g2]; exact he
      refine ⟨he', ?_⟩
      intro e1; subst e1
      exact (hU.inv.pendFresh _ he').1 hr
    · intro e he hi
      rw [f2] at he
      have he' : e ∈ s.cl.runOn.erase ⟨t, m, obs, true⟩ := by rw [← g1]; exact he
      exact Or.inl ⟨List.mem_of_mem_erase he', ((List.Nodup.mem_erase_iff hrunnd).mp he').1⟩
    · -- its own entry is gone
      intro o hobs hin _
      exfalso
      rw [f2] at hin
      rcases mem_ilEntries.mp hin with hpd | ⟨hro, _⟩
      · have hpd' : (⟨t, m, obs, true⟩ : RunEntry) ∈ s.cl.pending := by rw [← g2]; exact hpd
        exact (hU.inv.pendFresh _ hpd').1 hr
      · have hro' : (⟨t, m, obs, true⟩ : RunEntry) ∈ s.cl.runOn.erase ⟨t, m, obs, true⟩ := by rw [← g1]; exact hro
        exact ((List.Nodup.mem_erase_iff hrunnd).mp hro').1 rfl

end Sys
end Topsim
