/-
  TaskTable4 — the record table of a finished run: every record was started
  (`finished_ids_started`), every record carries both stamps
  (`finished_recs_stamped`).  `DwEnd`: in a run that has not crashed, a task body
  that has ended ran its last block.
-/
import TopsimProofs.TaskTable3
import TopsimProofs.FinishStr4

namespace Topsim
namespace Sys

/-! ### a body that has ended ran its last block -/

def DwEnd (s : Sys) : Prop :=
  s.crashed = none → ∀ d ∈ s.procs, d.alive = false → ∀ t m c ph tot, d.k = .doWork t m c ph tot → ph = 3

theorem dwEnd_start (s0 : Sys) (hw : WFConfig s0) : DwEnd s0.start := by
  obtain ⟨hprocs, _⟩ := hw.fresh
  intro _ d hd hda
  have hp : s0.start.procs = s0.procs ++
      [{ pid := s0.nextPid, k := .monitor, wake := 0 }, { pid := s0.nextPid + 1, k := .telescope, wake := 0 },
       { pid := s0.nextPid + 2, k := .clusterLoop, wake := 0 }, { pid := s0.nextPid + 3, k := .schedLoop, wake := 0 },
       { pid := s0.nextPid + 4, k := .bufferLoop, wake := 0 }] := by
    simp [start, spawn]
  rw [hp, hprocs] at hd
  simp only [List.nil_append, List.mem_cons, List.not_mem_nil, or_false] at hd
  rcases hd with rfl | rfl | rfl | rfl | rfl <;> simp at hda

theorem dwEnd_step {s : Sys} (hs : SInv s) (h : DwEnd s) {pid : Nat} (hen : s.enabled pid) (orc : Oracle) :
    DwEnd (s.resume pid orc).1 := by
  intro hc
  obtain ⟨p, hp, ha, hmin⟩ := hen
  obtain ⟨hc0, hnr⟩ := resume_nocrash s pid orc p hp ha hc
  obtain ⟨new, hnew, hnewp⟩ := block_newp s p orc
  have hm := resume_memSpec ⟨hs.pw, hs.eg⟩ hp ha hmin orc hnew
  intro d hd hda t m c ph tot hk
  rcases (hm d).mp hd with rfl | ⟨h1, _⟩ | h1
  · -- the process that ran
    rw [fin_k] at hk
    have htag := block_tag s hs.pw p orc
    rw [hk] at htag
    cases hpk : p.k with
    | doWork t' m' c' ph' tot' =>
      have hb := block_doWork (s := s) (p := p) orc hpk
      rw [hb] at hk hda hnr
      have hsh := doWorkBlock_shape s p.wake orc t' m' c' ph' tot'
      generalize s.doWorkBlock p.wake orc t' m' c' ph' tot' = X at hsh hk hda hnr
      cases hsh with
      | raised ph'' e => exact absurd rfl (hnr e)
      | wait w _ _ _ =>
        have : (fin (PK.doWork t' m' c' 1 tot') (Yield.timeout w) p.wake p).alive = p.alive := rfl
        rw [this, ha] at hda; cases hda
      | start r mm dur tot'' _ _ _ =>
        have : (fin (PK.doWork t' m' c' 2 tot'') (Yield.timeout ((bodyWait tot'' : Nat) : Rat)) p.wake p).alive
            = p.alive := rfl
        rw [this, ha] at hda; cases hda
      | finish _ =>
        simp only [PK.doWork.injEq] at hk
        exact hk.2.2.2.1.symm
    | _ => rw [hpk] at htag; simp [PK.tag] at htag
  · exact h hc0 d h1 hda t m c ph tot hk
  · rw [(hnewp d h1).1] at hda; cases hda

theorem reachOk_dwEnd (s0 s : Sys) (hw : WFConfig s0) (h : ReachOk s0 s) : DwEnd s := by
  induction h with
  | start => exact dwEnd_start s0 hw
  | step s pid orc hr hen _ ih => exact dwEnd_step (reach_inv s0 s hw hr) ih hen orc

/-! ### observation records, forwards -/

theorem ObsSame.fwd {a b : List Obs} (h : ObsSame a b) {o0 : Obs} (ho : o0 ∈ a) :
    ∃ o ∈ b, o.id = o0.id ∧ o.wf = o0.wf := by
  have : obsKey o0 ∈ a.map obsKey := List.mem_map_of_mem ho
  rw [← h] at this
  obtain ⟨o, h0, e⟩ := List.mem_map.mp this
  exact ⟨o, h0, congrArg Prod.fst e, congrArg Prod.snd e⟩

/-! ### the record table of a finished run -/

/-- in a finished run that has not crashed every record of the table is the record of a task that
was started -/
theorem finished_ids_started (s0 s : Sys) (hw : WFConfig s0) (hbuf : bufList s0.buf = [])
    (hsz0 : s0.buf.size = [] ∧ s0.buf.hot.cur ≤ s0.buf.hot.total ∧ s0.buf.cold.cur ≤ s0.buf.cold.total)
    (hrate : ∀ o ∈ s0.obs, 0 < o.rate)
    (h : ReachOk s0 s) (hf : s.isFinished = true) (hc : s.crashed = none) :
    ∀ r ∈ s.tasks, r.id ∈ s.starts := by
  have hs := reach_inv s0 s hw h
  have hri := reachOk_reci s0 s hw h
  have hgi := reach_gi s0 s hw h.toReach
  have hobs := reach_obsSame h.toReach
  have hfi := reach_finv s0 s hw h hc
  obtain ⟨U, hU⟩ := hs.ci
  obtain ⟨_, _, _, ht⟩ := (sim_isFinished_iff s).mp hf
  obtain ⟨hfin, _, _⟩ := (telescope_isIdle_iff s).mp ht
  intro r hr
  cases hid : r.id with
  | wf o c n =>
    obtain ⟨pl, hpl, ho⟩ := hri.wfPlan r hr o c n hid
    obtain ⟨o0, ho0, _, e0, _⟩ := hgi.plans pl hpl
    obtain ⟨ob, hob, eob, _⟩ := hobs.fwd ho0
    have hrem := finished_all_removed2 s0 s hw hbuf hsz0 hrate h hf hc ob hob
    obtain ⟨_, _, _, hall⟩ := removed_tasks_ran s0 s hw hbuf h hc ob.id hrem
    have : ob.id = o := by rw [eob, ← e0, ho]
    rw [← hid]
    exact (hall r hr ⟨c, n, by rw [hid, this]⟩).2
  | ingest o i =>
    obtain ⟨q, hq, d, hqk, hqpc, hi⟩ := hri.ingProv r hr o i hid
    obtain ⟨ob, hob, _⟩ := hU.provObs q hq o d hqk
    have hobm : ob ∈ s.obs := List.mem_of_find?_eq_some hob
    have hoid : ob.id = o := by simpa using List.find?_some hob
    obtain ⟨p', hp', hpk'⟩ := hfi.obs.obsProv ob hobm (by rw [hfin ob hobm]; simp)
    rw [hoid] at hpk'
    have hpid := hU.provUniq q hq p' hp' o d ob.ingestDemand hqk hpk'
    have : q = p' := hs.pw.eq_of_pid hq hp' hpid
    subst this
    rw [hqk] at hpk'
    simp only [PK.provIngest.injEq] at hpk'
    have := finished_ingest_started s0 s hw h hf hc ob hobm i (by omega)
    rw [hoid] at this
    exact this
  | raw n => exact absurd hid (hri.noRaw r hr n)

/-- in a finished run that has not crashed whose record ids are distinct, every record carries a
recorded start `a` and the recorded finish `a + max 1 total`, `total` being the duration the body
of the task was handed -/
theorem finished_recs_stamped (s0 s : Sys) (hw : WFConfig s0) (h : ReachOk s0 s)
    (hf : s.isFinished = true) (hc : s.crashed = none) (hnd : (s.tasks.map (·.id)).Nodup)
    (hst : ∀ r ∈ s.tasks, r.id ∈ s.starts) :
    ∀ r ∈ s.tasks, ∃ a total, r.ast = some a ∧ r.aft = some (a + ((max 1 total : Nat) : Time)) ∧
      ∃ d ∈ s.procs, ∃ m cross, d.k = .doWork r.id m cross 3 total := by
  have hs := reach_inv s0 s hw h
  have hsp := reachD_spanInv s0 s hw h.toD
  have hde := reachOk_dwEnd s0 s hw h hc
  obtain ⟨_, hci, _, _⟩ := (sim_isFinished_iff s).mp hf
  obtain ⟨hrun, _, _⟩ := (cluster_isIdle_iff s.cl).mp hci
  intro r hr
  obtain ⟨d, hd, m, c, ph, tot, hdk, hph⟩ := hs.dg.startsDw r.id (hst r hr)
  have hdead : d.alive = false := by
    cases hda : d.alive with
    | false => rfl
    | true =>
      have := (dw_alloc hs hd hda hdk).1
      rw [hrun] at this; simp at this
  have hph3 : ph = 3 := hde d hd hdead _ _ _ _ _ hdk
  subst hph3
  obtain ⟨r', a, g1, g2, g3, _⟩ := hsp.done d hd r.id m c tot hdk
  rw [task?_of_mem_nodup hnd hr] at g1
  injection g1 with g1
  subst g1
  exact ⟨a, tot, g2, by rw [g3, finishTime_eq], d, hd, m, c, hdk⟩

end Sys
end Topsim
