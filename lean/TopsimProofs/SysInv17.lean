/-
  SysInv17 — the telescope group on its own: it is preserved by every step of
  `Reach`, whatever the oracle does to the cluster.
-/
import TopsimProofs.SysInv16

namespace Topsim
namespace Sys

open Cluster

structure EInv (s : Sys) : Prop where
  pw : PW s
  eg : EG s

structure PresE (s s1 : Sys) : Prop where
  pre : s.procs <+: s1.procs
  pw : PW s → PW s1
  eg : PW s → EG s → EG s1

theorem Pres.toE {a b : Sys} (h : Pres a b) : PresE a b := ⟨h.pre, h.pw, h.eg⟩

theorem PresE.refl (s : Sys) : PresE s s := (Pres.refl s).toE

theorem PresE.trans {a b c : Sys} (h1 : PresE a b) (h2 : PresE b c) : PresE a c :=
  ⟨h1.pre.trans h2.pre, fun h => h2.pw (h1.pw h), fun hp h => h2.eg (h1.pw hp) (h1.eg hp h)⟩

theorem PresE.frame {s s1 : Sys} (ho : s1.obs = s.obs) (hp : s1.procs = s.procs)
    (hn : s1.nextPid = s.nextPid) (hd : s1.admitted = s.admitted) : PresE s s1 :=
  ⟨by rw [hp]; exact List.prefix_refl _, fun h => ⟨by rw [hp]; exact h.nodup, by rw [hp, hn]; exact h.lt⟩,
   fun _ h => h.frame ho hd (fun _ _ => by rw [hp])⟩

theorem PresE.spawn (s : Sys) (k : PK) (now : Time) (hk : k.isTel = false ∧ k.isAI = false) :
    PresE s (s.spawn k now).1 :=
  ⟨by simp, fun h => h.spawn _ _,
   fun _ h => h.addProcs rfl rfl _ (spawn_procs s k now) (by simp [hk])⟩

theorem PresE.updObs (s : Sys) (o : Oid) (f : Obs → Obs) (hf : GoodO f) : PresE s (s.updObs o f) :=
  ⟨List.prefix_refl _, fun h => ⟨h.nodup, h.lt⟩, fun _ h => h.updObs o f hf⟩

theorem PresE.addSch_right {a b : Sys} (h : PresE a b) (e : Event) : PresE a (b.addSch e) :=
  h.trans (PresE.frame rfl rfl rfl rfl)

theorem foldl_presE {α} (f : Sys → α → Sys) (hf : ∀ s x, PresE s (f s x)) (l : List α) (s : Sys) :
    PresE s (l.foldl f s) := by
  induction l generalizing s with
  | nil => exact PresE.refl _
  | cons x r ih => exact (hf s x).trans (ih _)

theorem EInv.pres {a b : Sys} (h : EInv a) (hp : PresE a b) : EInv b := ⟨hp.pw h.pw, hp.eg h.pw h.eg⟩

theorem EInv.core {a b : Sys} (h : EInv a) (e : Core8 a b) : EInv b := ⟨h.pw.core e, h.eg.core e⟩

theorem EInv.finish {s s1 : Sys} (h : EInv s) (hpres : PresE s s1) {p : Proc} (hp : p ∈ s.procs)
    (g : Proc → Proc) (hg : ∀ q, (g q).pid = q.pid) (hk : p.k.isTel = false ∧ p.k.isAI = false)
    (hk' : (g p).k.isTel = false ∧ (g p).k.isAI = false) : EInv (s1.updProc p.pid g) :=
  ⟨(hpres.pw h.pw).updProc _ g hg,
   (hpres.eg h.pw h.eg).updProc_neutral (hpres.pw h.pw) (hpres.pre.subset hp) g hk hk'⟩

/-! ### the blocks -/

theorem allocTasksIter_presE (s : Sys) (now : Time) (orc : Oracle) (oid : Oid)
    (schedule pairs : List (Tid × Mid)) (pool : List Tid) :
    PresE s (s.allocTasksIter now orc oid schedule pairs pool).1 := by
  unfold allocTasksIter
  simp only
  have h1 : PresE s (s.updateCurrentPlan oid) := (Pres.core (updateCurrentPlan_core s oid)).toE
  generalize s.updateCurrentPlan oid = s1 at h1
  split
  · exact h1
  · split
    · exact h1
    · rename_i out _
      have h2 : PresE s1 (({ s1 with cl := out.cl }).updPlan oid (fun p => { p with status := out.status })) :=
        PresE.frame rfl rfl rfl rfl
      generalize (({ s1 with cl := out.cl }).updPlan oid (fun p => { p with status := out.status })) = s2 at h2
      have h3 : PresE s2 (if out.status = WStatus.delayed then { s2 with schedDelayed := true } else s2) := by
        split
        · exact PresE.frame rfl rfl rfl rfl
        · exact PresE.refl _
      generalize (if out.status = WStatus.delayed then { s2 with schedDelayed := true } else s2) = s3 at h3
      have h13 := h1.trans (h2.trans h3)
      split
      · have h4 : PresE s3 ((s3.addSch ⟨natNow now, oid, .allocStopped⟩).addBuf ⟨natNow now, oid, .bufRemoved⟩) :=
          PresE.frame rfl rfl rfl rfl
        generalize ((s3.addSch ⟨natNow now, oid, .allocStopped⟩).addBuf ⟨natNow now, oid, .bufRemoved⟩) = s4 at h4
        have h14 := h13.trans h4
        split
        · rename_i b1 _
          have h5 : PresE s4 { s4 with buf := b1, cl := s4.cl.releaseBatch oid } := PresE.frame rfl rfl rfl rfl
          split
          · exact h14.trans (h5.trans (PresE.frame rfl rfl rfl rfl))
          · exact h14.trans h5
        · exact h14.trans (PresE.frame rfl rfl rfl rfl)
      · split
        · exact h13
        · have h4 := (processCurrentSchedule_pres s3 now oid out.schedule pairs).toE
          split <;> exact h13.trans h4

theorem allocTasksBlock_presE (s : Sys) (now : Time) (orc : Oracle) (pc : Nat)
    (oid : Oid) (schedule pairs : List (Tid × Mid)) (pool : List Tid) (fin : Bool) :
    PresE s (s.allocTasksBlock now orc pc oid schedule pairs pool fin).1 := by
  unfold allocTasksBlock
  split
  · exact PresE.refl _
  · split
    · simp only
      have h1 : PresE s (s.updPlan oid (fun p => { p with ast := some (natNow now) })) :=
        PresE.frame rfl rfl rfl rfl
      generalize (s.updPlan oid (fun p => { p with ast := some (natNow now) })) = s1 at h1
      refine PresE.trans ?_ (allocTasksIter_presE _ now orc oid schedule pairs pool)
      apply PresE.addSch_right
      refine h1.trans ?_
      apply foldl_presE
      intro s t
      exact (Pres.updTask s t (fun r => { r with offset := natNow now }) (fun r => ⟨rfl, fun h => h⟩)).toE
    · exact allocTasksIter_presE _ now orc oid schedule pairs pool

theorem allocTaskBlock_presE (s : Sys) (hpw : PW s) (now : Time) (t : Tid) (m : Mid) (preds : List Tid)
    (obs : Option Oid) (ing : Bool) (ret : Nat) :
    PresE s (s.allocTaskBlock now t m preds obs ing ret).1 ∧
    ∃ ret', (s.allocTaskBlock now t m preds obs ing ret).2.1 = .allocTask t m preds obs ing ret' := by
  rcases allocTaskBlock_cases s hpw now t m preds obs ing ret with
    ⟨_, e, _, heq⟩ | ⟨_, _, heq⟩ | ⟨_, _, heq⟩ | ⟨_, _, e, _, heq⟩ | ⟨_, _, _, heq⟩ <;> rw [heq]
  · exact ⟨PresE.frame rfl rfl rfl rfl, _, rfl⟩
  · refine ⟨?_, _, rfl⟩
    refine PresE.trans (b := ({ s with cl := (s.cl.allocBegin t m obs ing).1 }).updTask t (fun r => { r with status := .scheduled })) (PresE.frame rfl rfl rfl rfl) ?_
    exact PresE.spawn _ _ _ ⟨rfl, rfl⟩
  · exact ⟨PresE.refl _, _, rfl⟩
  · exact ⟨PresE.frame rfl rfl rfl rfl, _, rfl⟩
  · exact ⟨PresE.frame rfl rfl rfl rfl, _, rfl⟩

theorem doWorkBlock_presE (s : Sys) (now : Time) (orc : Oracle) (t : Tid) (m : Mid) (preds : List Tid)
    (ph tot : Nat) :
    PresE s (s.doWorkBlock now orc t m preds ph tot).1 ∧
    ∃ ph' tot', (s.doWorkBlock now orc t m preds ph tot).2.1 = .doWork t m preds ph' tot' := by
  rcases doWorkBlock_out s now orc t m preds ph tot with
    ⟨_, _, _, _, heq⟩ | ⟨_, _, _, _, _, heq⟩ | ⟨_, _, _, heq⟩ <;> rw [heq]
  · exact ⟨PresE.refl _, _, _, rfl⟩
  · exact ⟨PresE.frame rfl rfl rfl rfl, _, _, rfl⟩
  · exact ⟨PresE.frame rfl rfl rfl rfl, _, _, rfl⟩

theorem provIngestBlock_presE (s : Sys) (now : Time) (pc : Nat) (oid : Oid) (d : Nat) :
    PresE s (s.provIngestBlock now pc oid d).1 ∧ (s.provIngestBlock now pc oid d).2.1 = .provIngest oid d := by
  unfold provIngestBlock
  split
  · simp only
    split
    · exact ⟨PresE.frame rfl rfl rfl rfl, rfl⟩
    · rename_i cl1 pairs _
      refine ⟨?_, rfl⟩
      show PresE s (List.foldl _ _ pairs)
      refine PresE.trans ?_ (foldl_presE _ ?_ _ _)
      · exact PresE.frame rfl rfl rfl rfl
      · intro s x
        exact PresE.spawn _ _ _ ⟨rfl, rfl⟩
  · exact ⟨PresE.refl _, rfl⟩

theorem allocIngestIter_E (s : Sys) (now : Time) (oid : Oid) (tl : Int) :
    PresE s (s.allocIngestIter now oid tl).1 ∧
    (∃ tl', (s.allocIngestIter now oid tl).2.1 = .allocIngest oid tl') ∧
    (∀ ob, (s.allocIngestIter now oid tl).1.obs? oid = some ob → ob.status ≠ .waiting) := by
  unfold allocIngestIter
  simp only
  cases hob : s.obs? oid with
  | none =>
    simp only
    exact ⟨PresE.refl _, ⟨tl, rfl⟩, fun ob hob' => by rw [hob] at hob'; exact absurd hob' (by simp)⟩
  | some o =>
    simp only
    have hsame : ∀ ob, s.obs? oid = some ob → ob = o := by
      intro ob hob'; rw [hob] at hob'; injection hob' with e; exact e.symm
    by_cases hfin : o.status = .finished
    · simp only [hfin, if_true]
      refine ⟨PresE.frame rfl rfl rfl rfl, ⟨tl, rfl⟩, ?_⟩
      intro ob hob'
      rw [hsame ob hob', hfin]; simp
    · simp only [hfin, if_false]
      by_cases hw : o.status = .waiting
      · simp only [hw, if_true]
        have hgood : GoodO (fun r : Obs => { r with status := .running }) :=
          fun r => ⟨rfl, fun h => by simp at h⟩
        have hoid : o.id = oid := by
          unfold obs? at hob; simpa using List.find?_some hob
        have hob2 : (s.updObs oid (fun r => { r with status := .running })).obs? oid
            = some { o with status := .running } := by
          rw [obs?_updObs s oid oid (fun r => { r with status := .running }) (fun _ => rfl), hob]
          simp [hoid]
        refine ⟨?_, ⟨tl, rfl⟩, ?_⟩
        · refine (PresE.updObs s oid _ hgood).trans ?_
          refine (PresE.spawn _ (.provIngest oid o.ingestDemand) now ⟨rfl, rfl⟩).trans ?_
          exact PresE.spawn _ (.ingestStream oid 0) now ⟨rfl, rfl⟩
        · intro ob hob'
          have : (s.updObs oid (fun r => { r with status := .running })).obs? oid = some ob := hob'
          rw [hob2] at this; injection this with e
          rw [← e]; simp
      · simp only [hw, if_false]
        have hst : ∀ ob, s.obs? oid = some ob → ob.status ≠ .waiting := by
          intro ob hob'
          rw [hsame ob hob']; exact hw
        split
        · exact ⟨PresE.refl _, ⟨_, rfl⟩, hst⟩
        · exact ⟨PresE.frame rfl rfl rfl rfl, ⟨tl, rfl⟩, hst⟩

theorem allocIngestBlock_E (s : Sys) (now : Time) (pc : Nat) (oid : Oid) (tl : Int) :
    PresE s (s.allocIngestBlock now pc oid tl).1 ∧
    (∃ tl', (s.allocIngestBlock now pc oid tl).2.1 = .allocIngest oid tl') ∧
    (∀ ob, (s.allocIngestBlock now pc oid tl).1.obs? oid = some ob → ob.status ≠ .waiting) := by
  unfold allocIngestBlock
  split
  · have hgood : GoodO (fun r : Obs => { r with ast := some (natNow now) }) := fun r => ⟨rfl, fun h => h⟩
    obtain ⟨h1, h2, h3⟩ := allocIngestIter_E (s.updObs oid (fun r => { r with ast := some (natNow now) })) now oid
      ((match s.obs? oid with | some o => (o.duration : Int) | none => 0) - 1)
    exact ⟨(PresE.updObs s oid _ hgood).trans h1, h2, h3⟩
  · exact allocIngestIter_E s now oid tl

/-! ### one step, any oracle -/

theorem estep {s : Sys} (h : EInv s) {pid : Nat} (hen : s.enabled pid) (orc : Oracle) :
    EInv (s.resume pid orc).1 := by
  obtain ⟨p, hp, ha, hmin⟩ := hen
  obtain ⟨hpm, hpid⟩ := proc?_some hp
  subst hpid
  refine EInv.core ?_ (resume_core s p.pid orc p hp ha)
  -- kinds that are neither the telescope nor an ingest supervisor
  have easy : ∀ (hpres : PresE s (s.block p orc).1) (_ : p.k.isTel = false ∧ p.k.isAI = false)
      (_ : (s.block p orc).2.1.isTel = false ∧ (s.block p orc).2.1.isAI = false),
      EInv ((s.block p orc).1.updProc p.pid (fin (s.block p orc).2.1 (s.block p orc).2.2 p.wake)) :=
    fun hpres hk hk' => h.finish hpres hpm _ (by simp) hk (by simpa using hk')
  cases hk : p.k with
  | monitor =>
    have hb : s.block p orc = ((s.monitorBlock p.wake).1, p.k, (s.monitorBlock p.wake).2) := by
      unfold block; simp only [hk]
    exact easy (by rw [hb]; exact (monitorBlock_pres _ _).toE) (by rw [hk]; exact ⟨rfl, rfl⟩)
      (by rw [hb, hk]; exact ⟨rfl, rfl⟩)
  | telescope =>
    have hb : s.block p orc = ((s.telescopeBlock p.wake).1, .telescope, (s.telescopeBlock p.wake).2) := by
      unfold block; simp only [hk]
    rw [hb]
    simp only
    have hwake0 := h.eg.telWake p hpm hk
    have hn : ((natNow p.wake : Nat) : Time) ≤ p.wake := natNow_le p.wake hwake0
    obtain ⟨hc, ⟨v, hm⟩, hy⟩ := telescope_key h.eg hpm ha hmin hk
    generalize s.telescopeBlock p.wake = r at hc hm hy
    obtain ⟨s1, y⟩ := r
    simp only at hc hm hy ⊢
    have hpw1 := hc.pw h.pw
    have hp1 : p ∈ s1.procs := hc.pre.subset hpm
    exact ⟨hpw1.updProc _ _ (by simp), EG.ofMid hm hpw1 hp1 hk hn y hy⟩
  | clusterLoop =>
    have hb : s.block p orc = ({ s with cl := s.cl.loopTick }, p.k, .timeout 1) := by
      unfold block; simp only [hk]
    exact easy (by rw [hb]; exact (clusterLoop_pres _).toE) (by rw [hk]; exact ⟨rfl, rfl⟩)
      (by rw [hb, hk]; exact ⟨rfl, rfl⟩)
  | schedLoop =>
    have hb : s.block p orc = ((s.schedLoopBlock p.wake orc).1, p.k, (s.schedLoopBlock p.wake orc).2) := by
      unfold block; simp only [hk]
    exact easy (by rw [hb]; exact (schedLoopBlock_pres _ _ _).toE) (by rw [hk]; exact ⟨rfl, rfl⟩)
      (by rw [hb, hk]; exact ⟨rfl, rfl⟩)
  | bufferLoop =>
    have hb : s.block p orc = ((s.bufferLoopBlock p.wake).1, p.k, (s.bufferLoopBlock p.wake).2) := by
      unfold block; simp only [hk]
    exact easy (by rw [hb]; exact (bufferLoopBlock_pres _ _).toE) (by rw [hk]; exact ⟨rfl, rfl⟩)
      (by rw [hb, hk]; exact ⟨rfl, rfl⟩)
  | allocIngest o tl =>
    have hb : s.block p orc = s.allocIngestBlock p.wake p.pc o tl := by
      unfold block; simp only [hk]
    rw [hb]
    obtain ⟨h1, ⟨tl', hk'⟩, hst⟩ := allocIngestBlock_E s p.wake p.pc o tl
    generalize s.allocIngestBlock p.wake p.pc o tl = r at h1 hk' hst
    obtain ⟨s1, k', y⟩ := r
    simp only at h1 hk' hst ⊢
    subst hk'
    have hpw1 := h1.pw h.pw
    exact ⟨hpw1.updProc _ _ (by simp),
      (h1.eg h.pw h.eg).replaceAI hpw1 (h1.pre.subset hpm) hk _ (by simp) tl' (by simp) hst⟩
  | provIngest o d =>
    have hb : s.block p orc = s.provIngestBlock p.wake p.pc o d := by
      unfold block; simp only [hk]
    obtain ⟨h1, h2⟩ := provIngestBlock_presE s p.wake p.pc o d
    exact easy (by rw [hb]; exact h1) (by rw [hk]; exact ⟨rfl, rfl⟩) (by rw [hb, h2]; exact ⟨rfl, rfl⟩)
  | ingestStream o tl =>
    have hb : s.block p orc = s.ingestStreamBlock p.wake p.pc o tl := by
      unfold block; simp only [hk]
    have hkind := ingestStreamBlock_kind s p.wake p.pc o tl
    exact easy (by rw [hb]; exact (ingestStreamBlock_pres _ _ _ _ _).toE) (by rw [hk]; exact ⟨rfl, rfl⟩)
      (by rw [hb]; exact ⟨hkind.2.2.2.2, hkind.2.2.2.1⟩)
  | allocTask t m preds obs ing ret =>
    have hb : s.block p orc = s.allocTaskBlock p.wake t m preds obs ing ret := by
      unfold block; simp only [hk]
    obtain ⟨h1, ret', h2⟩ := allocTaskBlock_presE s h.pw p.wake t m preds obs ing ret
    exact easy (by rw [hb]; exact h1) (by rw [hk]; exact ⟨rfl, rfl⟩) (by rw [hb, h2]; exact ⟨rfl, rfl⟩)
  | doWork t m preds ph tot =>
    have hb : s.block p orc = s.doWorkBlock p.wake orc t m preds ph tot := by
      unfold block; simp only [hk]
    obtain ⟨h1, ph', tot', h2⟩ := doWorkBlock_presE s p.wake orc t m preds ph tot
    exact easy (by rw [hb]; exact h1) (by rw [hk]; exact ⟨rfl, rfl⟩) (by rw [hb, h2]; exact ⟨rfl, rfl⟩)
  | allocTasks o sc pa po fin =>
    have hb : s.block p orc = s.allocTasksBlock p.wake orc p.pc o sc pa po fin := by
      unfold block; simp only [hk]
    have hkind := allocTasksBlock_kind s p.wake orc p.pc o sc pa po fin
    exact easy (by rw [hb]; exact allocTasksBlock_presE _ _ _ _ _ _ _ _ _) (by rw [hk]; exact ⟨rfl, rfl⟩)
      (by rw [hb]; exact ⟨hkind.2.2.2.2, hkind.2.2.2.1⟩)
  | hot2cold cur =>
    have hb : s.block p orc = s.hot2coldBlock p.wake cur := by
      unfold block; simp only [hk]
    have hkind := hot2coldBlock_kind s p.wake cur
    exact easy (by rw [hb]; exact (hot2coldBlock_pres _ _ _).toE) (by rw [hk]; exact ⟨rfl, rfl⟩)
      (by rw [hb]; exact ⟨hkind.2.2.2.2, hkind.2.2.2.1⟩)
  | cold2hot cur =>
    have hb : s.block p orc = s.cold2hotBlock p.wake cur := by
      unfold block; simp only [hk]
    have hkind := cold2hotBlock_kind s p.wake cur
    exact easy (by rw [hb]; exact (cold2hotBlock_pres _ _ _).toE) (by rw [hk]; exact ⟨rfl, rfl⟩)
      (by rw [hb]; exact ⟨hkind.2.2.2.2, hkind.2.2.2.1⟩)

end Sys
end Topsim
