/-
  Preservation of the cluster invariant by every operation of `ClOp`, and the
  corollaries used by `TopsimProps/C02.lean`.
-/
import TopsimProofs.ClusterInv

namespace Topsim
namespace Cluster

theorem inv_init (ms : List Mid) (hms : ms.Nodup) : Inv (init ms) [] := by
  constructor <;> simp [init, hms, idleAll, runMachines, dictKeys, dictGet]

theorem Inv.mono {c : Cluster} {U U' : List Tid} (h : Inv c U) (hs : ∀ t ∈ U, t ∈ U') : Inv c U' :=
  { h with
    usedRun := fun t ht => hs t (h.usedRun t ht)
    usedFin := fun t ht => hs t (h.usedFin t ht)
    usedPend := fun e he => hs _ (h.usedPend e he) }

theorem inv_tick {c U} (h : Inv c U) : Inv c.loopTick U := by
  unfold loopTick
  split
  · exact { h with }
  · exact h

theorem inv_cleanup {c U} (h : Inv c U) : Inv c.cleanUpIngest U := by
  unfold cleanUpIngest
  exact { h with }

theorem Inv.avail_nodup {c U} (h : Inv c U) : c.available.Nodup := by
  rw [List.nodup_iff_count]
  intro m
  have := h.part m
  have := List.nodup_iff_count.mp h.nodupM m
  omega

/-! ### provision_batch_resources -/

theorem inv_addKey {c U} (h : Inv c U) (o : Oid) (ho : dictHas c.idle o = false) :
    Inv { c with idle := c.idle ++ [(o, [])] } U :=
  { h with
    part := by
      intro m; have := h.part m
      simpa [idleAll] using this
    keys := by
      have hk : o ∉ dictKeys c.idle := by
        rw [← dictGet_none_iff]; simpa [dictHas] using ho
      show (dictKeys (c.idle ++ [(o, [])])).Nodup
      simp only [dictKeys, List.map_append, List.map_cons, List.map_nil]
      rw [List.nodup_append]
      refine ⟨h.keys, by simp, ?_⟩
      intro a ha b hb
      simp at hb; subst hb
      intro e; subst e; exact hk ha }

theorem inv_availToIdle {c U} (h : Inv c U) (o : Oid) (m : Mid) (l : List Mid)
    (hm : m ∈ c.available) (hg : dictGet c.idle o = some l) :
    Inv { c with idle := dictSet c.idle o (l ++ [m]), available := c.available.erase m } U :=
  { h with
    part := by
      intro m'
      have h1 := h.part m'
      have h2 := count_flatten_dictSet c.idle o l (l ++ [m]) m' hg
      have h3 := count_erase_of_mem c.available m m' hm
      have h4 := count_pos_of_mem hm
      simp only [idleAll] at h1 ⊢
      rw [count_append_singleton] at h2
      by_cases e : m' = m
      · subst e; simp only [if_true] at h2 h3; omega
      · simp only [e, if_false] at h2 h3; omega
    keys := dictKeys_nodup_dictSet _ _ _ h.keys }

theorem addIdleResource_ok {c U} (h : Inv c U) (o : Oid) (m : Mid) (hm : m ∈ c.available) :
    (c.addIdleResource o m).2 = none ∧ Inv (c.addIdleResource o m).1 U ∧
    (c.addIdleResource o m).1.available = c.available.erase m ∧
    (c.addIdleResource o m).1.machines = c.machines := by
  unfold addIdleResource
  by_cases ho : dictHas c.idle o = true
  · simp only [ho, if_true, hm]
    obtain ⟨l, hl⟩ : ∃ l, dictGet c.idle o = some l := by
      simpa [dictHas, Option.isSome_iff_exists] using ho
    simp only [hl, Option.getD_some]
    exact ⟨by trivial, inv_availToIdle h o m l hm hl, by trivial, by trivial⟩
  · have ho' : dictHas c.idle o = false := by simpa using ho
    simp only [ho', Bool.false_eq_true, if_false, hm, if_true]
    have hn : dictGet c.idle o = none := by simpa [dictHas] using ho'
    have hl : dictGet (c.idle ++ [(o, ([] : List Mid))]) o = some [] := by
      rw [dictGet_append_new, hn]; simp
    simp only [hl, Option.getD_some]
    exact ⟨by trivial, inv_availToIdle (inv_addKey h o ho') o m [] hm hl, by trivial, by trivial⟩

theorem addIdleAll_ok {c U} (h : Inv c U) (o : Oid) (ms : List Mid)
    (hsub : ∀ m ∈ ms, m ∈ c.available) (hnd : ms.Nodup) :
    (c.addIdleAll o ms).2 = none ∧ Inv (c.addIdleAll o ms).1 U ∧
    (c.addIdleAll o ms).1.machines = c.machines := by
  induction ms generalizing c with
  | nil => exact ⟨rfl, h, rfl⟩
  | cons m rest ih =>
    obtain ⟨h1, h2, h3, h4⟩ := addIdleResource_ok h o m (hsub m (by simp))
    unfold addIdleAll
    generalize hr : c.addIdleResource o m = r at h1 h2 h3 h4
    obtain ⟨c1, e1⟩ := r
    simp only at h1 h2 h3 h4
    subst h1
    simp only
    rw [List.nodup_cons] at hnd
    have hsub' : ∀ m' ∈ rest, m' ∈ c1.available := by
      intro m' hm'
      rw [h3]
      have : m' ≠ m := fun e => hnd.1 (e ▸ hm')
      exact (List.mem_erase_of_ne this).mpr (hsub m' (List.mem_cons_of_mem _ hm'))
    obtain ⟨i1, i2, i3⟩ := ih h2 hsub' hnd.2
    exact ⟨i1, i2, i3.trans h4⟩

theorem provisionBatch_ok {c U} (h : Inv c U) (s : Nat) (o : Oid) :
    Inv (c.provisionBatch s o).1 U ∧ (c.provisionBatch s o).1.machines = c.machines ∧
    ∀ e, (c.provisionBatch s o).2 = some e → (c.provisionBatch s o).1 = c := by
  unfold provisionBatch
  simp only
  generalize (if s > c.available.length ∧ c.available.length > 0
        then c.available.length else s) = s'
  by_cases hs : s' > c.available.length
  · simp only [hs, if_true]
    exact ⟨h, by trivial, fun _ _ => by trivial⟩
  · simp only [hs, if_false]
    have hsub : ∀ m ∈ c.available.take s', m ∈ c.available := fun m hm => List.mem_of_mem_take hm
    have hnd := (List.take_sublist s' c.available).nodup h.avail_nodup
    obtain ⟨i1, i2, i3⟩ := addIdleAll_ok h o _ hsub hnd
    generalize hr : c.addIdleAll o _ = r at i1 i2 i3
    obtain ⟨c1, e1⟩ := r
    simp only at i1 i2 i3
    subst i1
    simp only
    exact ⟨{ i2 with }, i3, fun e he => by simp at he⟩

/-! ### release_batch_resources -/

theorem releaseBatch_ok {c U} (h : Inv c U) (o : Oid) :
    Inv (c.releaseBatch o) U ∧ (c.releaseBatch o).machines = c.machines := by
  unfold releaseBatch
  split
  · exact ⟨h, rfl⟩
  · rename_i l hl
    simp only
    split
    · refine ⟨{ h with part := ?_, keys := ?_ }, rfl⟩
      · intro m
        have h1 := h.part m
        have h2 := count_flatten_dictErase c.idle o l m hl
        simp only [idleAll, List.count_append] at h1 ⊢
        omega
      · exact (dictKeys_dictErase_sublist c.idle o).nodup h.keys
    · rename_i hne
      have : l = [] := by simpa using hne
      subst this
      refine ⟨{ h with part := ?_ }, rfl⟩
      intro m
      have h1 := h.part m
      simpa using h1

/-! ### provision_ingest_resources -/

theorem inv_toIngest {c U} (h : Inv c U) (obs : Oid) (m : Mid) (t : Tid)
    (hm : m ∈ c.available) (ht : t.isIngest = true) (hU : t ∉ U) :
    Inv { c with ingest := c.ingest ++ [m], available := c.available.erase m,
                 pending := c.pending ++ [⟨t, m, some obs, true⟩] } (t :: U) :=
  have h' : Inv c (t :: U) := h.mono (fun _ hx => List.mem_cons_of_mem _ hx)
  { h' with
    part := by
      intro m'
      have h1 := h.part m'
      have h3 := count_erase_of_mem c.available m m' hm
      have h4 := count_pos_of_mem hm
      simp only [idleAll] at h1 ⊢
      rw [count_append_singleton]
      by_cases e : m' = m
      · subst e; simp only [if_true] at h3 ⊢; omega
      · simp only [e, if_false] at h3 ⊢; omega
    ingm := by
      intro m'
      have h1 := h.ingm m'
      simp only [runMachines] at h1 ⊢
      rw [List.map_append, List.map_cons, List.map_nil, count_append_singleton, count_append_singleton]
      dsimp only
      omega
    pendIng := by
      intro e he
      rcases List.mem_append.mp he with he | he
      · exact h.pendIng e he
      · simp at he; subst he; rfl
    pendNodup := by
      simp only []
      rw [List.map_append, List.nodup_append]
      refine ⟨h.pendNodup, by simp, ?_⟩
      intro a ha b hb
      simp at hb; subst hb
      intro e; subst e
      obtain ⟨x, hx, rfl⟩ := List.mem_map.mp ha
      exact hU (h.usedPend x hx)
    pendFresh := by
      intro e he
      rcases List.mem_append.mp he with he | he
      · exact h.pendFresh e he
      · simp at he; subst he
        refine ⟨fun hr => hU (h.usedRun _ hr), ?_⟩
        rw [dictGet_none_iff]
        exact fun hr => hU (h.usedFin _ hr)
    usedPend := by
      intro e he
      rcases List.mem_append.mp he with he | he
      · exact h'.usedPend e he
      · simp at he; subst he; simp
    pendTask := by
      intro e he
      rcases List.mem_append.mp he with he | he
      · exact h.pendTask e he
      · simp at he; subst he; exact ht }

theorem moveToIngest_ok {c U} (h : Inv c U) (obs : Oid) (pairs : List (Mid × Tid))
    (hsub : ∀ p ∈ pairs, p.1 ∈ c.available) (hnd : (pairs.map (·.1)).Nodup)
    (hnt : (pairs.map (·.2)).Nodup) (hfresh : ∀ p ∈ pairs, p.2.isIngest = true ∧ p.2 ∉ U) :
    (moveToIngest c obs pairs).2 = none ∧ Inv (moveToIngest c obs pairs).1 (pairs.map (·.2) ++ U) ∧
    (moveToIngest c obs pairs).1.machines = c.machines := by
  induction pairs generalizing c U with
  | nil => exact ⟨rfl, h, rfl⟩
  | cons p rest ih =>
    obtain ⟨m, t⟩ := p
    have hm : m ∈ c.available := hsub (m, t) (by simp)
    unfold moveToIngest
    simp only [hm, if_true]
    have hf := hfresh (m, t) (by simp)
    have h1 := inv_toIngest h obs m t hm hf.1 hf.2
    simp only [List.map_cons, List.nodup_cons] at hnd hnt
    have hsub' : ∀ p ∈ rest, p.1 ∈ c.available.erase m := by
      intro p hp
      have : p.1 ≠ m := fun e => hnd.1 (e ▸ List.mem_map_of_mem (f := (·.1)) hp)
      exact (List.mem_erase_of_ne this).mpr (hsub p (List.mem_cons_of_mem _ hp))
    have hfresh' : ∀ p ∈ rest, p.2.isIngest = true ∧ p.2 ∉ t :: U := by
      intro p hp
      have hp' := hfresh p (List.mem_cons_of_mem _ hp)
      refine ⟨hp'.1, ?_⟩
      have : p.2 ≠ t := fun e => hnt.1 (e ▸ List.mem_map_of_mem (f := (·.2)) hp)
      simp [this, hp'.2]
    obtain ⟨i1, i2, i3⟩ := ih h1 hsub' hnd.2 hnt.2 hfresh'
    refine ⟨i1, i2.mono ?_, i3⟩
    intro x hx
    simp only [List.map_cons, List.mem_append, List.mem_cons] at hx ⊢
    rcases hx with hx | hx | hx
    · exact Or.inl (Or.inr hx)
    · exact Or.inl (Or.inl hx)
    · exact Or.inr hx

theorem provisionIngest_ok {c U} (h : Inv c U) (d : Nat) (o : Oid)
    (hfresh : ∀ i, Tid.ingest o i ∉ U) :
    (∃ U', Inv (c.provisionIngest d o).1 U' ∧ ∀ t ∈ U', t ∈ U ∨ ∃ i, t = Tid.ingest o i) ∧
    (c.provisionIngest d o).1.machines = c.machines ∧
    ∀ e, (c.provisionIngest d o).2.1 = some e → (c.provisionIngest d o).1 = c := by
  unfold provisionIngest
  by_cases hd : d > c.available.length
  · simp only [hd, if_true]
    exact ⟨⟨U, h, fun t ht => Or.inl ht⟩, by trivial, fun _ _ => by trivial⟩
  · simp only [hd, if_false]
    have h0 : Inv { c with ingestStatus := true, ingestDemand := d } U := { h with }
    generalize hp : ((c.available.take d).zipIdx.map (fun (x : Mid × Nat) => (x.1, Tid.ingest o x.2))) = pairs
    have hfst : pairs.map (·.1) = c.available.take d := by
      subst hp; rw [List.map_map]; exact List.zipIdx_map_fst 0 _
    have hsnd : pairs.map (·.2) = (List.range' 0 (c.available.take d).length).map (Tid.ingest o) := by
      subst hp; rw [List.map_map, ← List.zipIdx_map_snd 0, List.map_map]; rfl
    have hsub : ∀ p ∈ pairs, p.1 ∈ c.available := by
      intro p hp'
      have : p.1 ∈ pairs.map (·.1) := List.mem_map_of_mem hp'
      rw [hfst] at this
      exact List.mem_of_mem_take this
    have hnd : (pairs.map (·.1)).Nodup := by
      rw [hfst]; exact (List.take_sublist d c.available).nodup h.avail_nodup
    have hnt : (pairs.map (·.2)).Nodup := by
      rw [hsnd]
      exact nodup_map_of_inj _ (fun a b e => by injection e) (List.nodup_range' 1)
    have hfr : ∀ p ∈ pairs, p.2.isIngest = true ∧ p.2 ∉ U := by
      intro p hp'
      have : p.2 ∈ pairs.map (·.2) := List.mem_map_of_mem hp'
      rw [hsnd] at this
      obtain ⟨i, _, hi⟩ := List.mem_map.mp this
      rw [← hi]
      exact ⟨rfl, hfresh i⟩
    obtain ⟨i1, i2, i3⟩ := moveToIngest_ok h0 o pairs hsub hnd hnt hfr
    generalize hr : moveToIngest _ o pairs = r at i1 i2 i3
    obtain ⟨c2, e2⟩ := r
    simp only at i1 i2 i3
    subst i1
    simp only
    refine ⟨⟨_, i2, ?_⟩, i3, fun e he => by simp at he⟩
    intro t ht
    rcases List.mem_append.mp ht with ht | ht
    · rw [hsnd] at ht
      obtain ⟨i, _, hi⟩ := List.mem_map.mp ht
      exact Or.inr ⟨i, hi.symm⟩
    · exact Or.inl ht

/-! ### first block of an ingest allocation process -/

theorem inv_beginIngest {c U} (h : Inv c U) (t : Tid) (m : Mid) (obs : Option Oid)
    (he : (⟨t, m, obs, true⟩ : RunEntry) ∈ c.pending) :
    Inv { c with running := c.running ++ [t],
                 finished := dictSet c.finished t false,
                 uAvail := c.uAvail - 1, uRunning := c.uRunning + 1, uIngest := c.uIngest + 1,
                 pending := c.pending.erase ⟨t, m, obs, true⟩,
                 runOn := c.runOn ++ [⟨t, m, obs, true⟩] } U :=
  have hfr := h.pendFresh _ he
  { h with
    runNodup := by
      simp only []
      rw [List.nodup_append]
      refine ⟨h.runNodup, by simp, ?_⟩
      intro a ha b hb
      simp at hb; subst hb
      intro e; subst e; exact hfr.1 ha
    runOnTasks := by
      simp only [List.map_append, List.map_cons, List.map_nil, h.runOnTasks]
    occ := by
      intro m'
      have := h.occ m'
      simpa [runMachines, List.filter_append, List.filter_cons] using this
    ingm := by
      intro m'
      have h1 := h.ingm m'
      have h2 := count_map_erase (·.mach) c.pending _ he m'
      simp only [runMachines, List.filter_append, List.filter_cons, List.filter_nil, beq_self_eq_true,
        if_true, List.map_append, List.map_cons, List.map_nil] at h1 h2 ⊢
      rw [count_append_singleton]
      by_cases e : m' = m
      · subst e; simp only [if_true] at h2 ⊢; omega
      · have e' : ¬ m = m' := fun x => e x.symm
        simp only [e, e', if_false] at h2 ⊢; omega
    pendIng := fun e he' => h.pendIng e (List.mem_of_mem_erase he')
    pendNodup := nodup_map_erase _ _ _ h.pendNodup
    pendFresh := by
      intro e he'
      have hne : e.task ≠ t := mem_erase_map_ne (·.task) c.pending _ e he h.pendNodup he'
      have h1 := h.pendFresh e (List.mem_of_mem_erase he')
      refine ⟨?_, ?_⟩
      · simp only [List.mem_append, List.mem_singleton, not_or]
        exact ⟨h1.1, hne⟩
      · simp only []
        rw [dictGet_dictSet, if_neg (fun x => hne x.symm)]
        exact h1.2
    cntRunning := by
      have := h.cntRunning
      simp only [List.length_append, List.length_singleton, Int.natCast_add]
      omega
    cntAvail := by
      have := h.cntAvail
      simp only [List.length_append, List.length_singleton, Int.natCast_add]
      omega
    cntIngest := by
      have := h.cntIngest
      simp only [runMachines, List.filter_append, List.filter_cons, List.filter_nil, beq_self_eq_true,
        if_true, List.map_append, List.length_append, List.length_map, List.length_singleton,
        Int.natCast_add] at this ⊢
      omega
    cntFinished := by
      have h1 := h.cntFinished
      have h2 := filter_dictSet_length c.finished t false
      simp only [hfr.2] at h2
      simp only []
      simp at h2
      omega
    runNotFin := by
      intro t' ht'
      simp only []
      rw [dictGet_dictSet]
      by_cases e : t = t'
      · simp [e]
      · simp only [e, if_false]
        simp only [List.mem_append, List.mem_singleton] at ht'
        rcases ht' with ht' | ht'
        · exact h.runNotFin t' ht'
        · exact absurd ht'.symm e
    usedRun := by
      intro t' ht'
      simp only [List.mem_append, List.mem_singleton] at ht'
      rcases ht' with ht' | ht'
      · exact h.usedRun t' ht'
      · subst ht'; exact h.usedPend _ he
    usedFin := by
      intro t' ht'
      rcases mem_dictKeys_dictSet _ _ _ _ ht' with e | ht'
      · subst e; exact h.usedPend _ he
      · exact h.usedFin t' ht'
    usedPend := fun e he' => h.usedPend e (List.mem_of_mem_erase he')
    ingRun := by
      intro e he'
      simp only [List.mem_append, List.mem_singleton] at he'
      rcases he' with he' | he'
      · exact h.ingRun e he'
      · subst he'; exact (h.pendTask _ he).symm
    pendTask := fun e he' => h.pendTask e (List.mem_of_mem_erase he') }

/-! ### first block of a scheduler-side allocation -/

theorem inv_beginTask {c U} (h : Inv c U) (t : Tid) (m : Mid) (obs : Option Oid)
    (avail' : List Mid) (idle' : List (Oid × List Mid))
    (hcnt : ∀ m', avail'.count m' + ((idle'.map (·.2)).flatten).count m' + (if m' = m then 1 else 0)
      = c.available.count m' + c.idleAll.count m')
    (hkeys : (dictKeys idle').Nodup) (htU : t ∉ U) (hti : t.isIngest = false) :
    Inv { c with available := avail', idle := idle', occupied := c.occupied ++ [m],
                 running := c.running ++ [t], uAvail := c.uAvail - 1, uRunning := c.uRunning + 1,
                 runOn := c.runOn ++ [⟨t, m, obs, false⟩] } (t :: U) :=
  have h' : Inv c (t :: U) := h.mono (fun _ hx => List.mem_cons_of_mem _ hx)
  { h' with
    part := by
      intro m'
      have h1 := h.part m'
      have h2 := hcnt m'
      simp only [idleAll] at h1 h2 ⊢
      rw [count_append_singleton]
      omega
    keys := hkeys
    runNodup := by
      simp only []
      rw [List.nodup_append]
      refine ⟨h.runNodup, by simp, ?_⟩
      intro a ha b hb
      simp at hb; subst hb
      intro e; subst e; exact htU (h.usedRun _ ha)
    runOnTasks := by
      simp only [List.map_append, List.map_cons, List.map_nil, h.runOnTasks]
    occ := by
      intro m'
      have h1 := h.occ m'
      simp only [runMachines, List.filter_append, List.filter_cons, List.filter_nil, beq_self_eq_true,
        if_true, List.map_append, List.map_cons, List.map_nil] at h1 ⊢
      rw [count_append_singleton, count_append_singleton]
      omega
    ingm := by
      intro m'
      have := h.ingm m'
      simpa [runMachines, List.filter_append, List.filter_cons] using this
    pendFresh := by
      intro e he
      have h1 := h.pendFresh e he
      refine ⟨?_, h1.2⟩
      simp only [List.mem_append, List.mem_singleton, not_or]
      exact ⟨h1.1, fun x => htU (x ▸ h.usedPend e he)⟩
    cntRunning := by
      have := h.cntRunning
      simp only [List.length_append, List.length_singleton, Int.natCast_add]
      omega
    cntAvail := by
      have := h.cntAvail
      simp only [List.length_append, List.length_singleton, Int.natCast_add]
      omega
    cntIngest := by
      have := h.cntIngest
      simpa [runMachines, List.filter_append, List.filter_cons] using this
    runNotFin := by
      intro t' ht'
      simp only [List.mem_append, List.mem_singleton] at ht'
      rcases ht' with ht' | ht'
      · exact h.runNotFin t' ht'
      · subst ht'
        have : dictGet c.finished t' = none := by
          rw [dictGet_none_iff]; exact fun x => htU (h.usedFin _ x)
        simp only []
        rw [this]; simp
    usedRun := by
      intro t' ht'
      simp only [List.mem_append, List.mem_singleton] at ht'
      rcases ht' with ht' | ht'
      · exact h'.usedRun t' ht'
      · subst ht'; simp
    ingRun := by
      intro e he'
      simp only [List.mem_append, List.mem_singleton] at he'
      rcases he' with he' | he'
      · exact h.ingRun e he'
      · subst he'; exact hti.symm }

theorem setMachineOccupied_err (c : Cluster) (m : Mid) (obs : Option Oid) (e : Err)
    (he : (c.setMachineOccupied m obs).2 = some e) : (c.setMachineOccupied m obs).1 = c := by
  unfold setMachineOccupied at he ⊢
  by_cases hm : m ∈ c.available
  · simp [hm] at he
  · simp only [hm, if_false] at he ⊢
    cases obs with
    | none => rfl
    | some o =>
      simp only at he ⊢
      cases hg : dictGet c.idle o with
      | none => rfl
      | some l =>
        simp only [hg] at he ⊢
        by_cases hml : m ∈ l
        · simp [hml] at he
        · simp only [hml, if_false]

theorem allocBegin_err_unchanged (c : Cluster) (t : Tid) (m : Mid) (obs : Option Oid) (ing : Bool)
    (e : Err) (he : (c.allocBegin t m obs ing).2 = some e) : (c.allocBegin t m obs ing).1 = c := by
  unfold allocBegin at he ⊢
  by_cases ht : t ∈ c.running
  · simp only [ht, if_true]
  · simp only [ht, if_false] at he ⊢
    cases ing with
    | true =>
      simp only [if_true] at he ⊢
      by_cases hel : (!decide (m ∈ c.ingest)) = true
      · simp only [hel, if_true]
      · simp [hel] at he
    | false =>
      simp only [Bool.false_eq_true, if_false] at he ⊢
      by_cases hel : (!(decide (m ∈ c.available) || decide (m ∈ c.idleOf obs))) = true
      · simp only [hel, if_true]
      · simp only [hel] at he ⊢
        have := setMachineOccupied_err c m obs
        generalize c.setMachineOccupied m obs = r at this he ⊢
        obtain ⟨c1, e1⟩ := r
        cases e1 with
        | none => simp at he
        | some e' => exact this e' rfl

theorem allocBegin_guard (c : Cluster) (t : Tid) (m : Mid) (obs : Option Oid) :
    (c.allocBegin t m obs false).2 = none →
      t ∉ c.running ∧ (m ∈ c.available ∨ m ∈ c.idleOf obs) := by
  unfold allocBegin
  simp only [Bool.false_eq_true, if_false]
  by_cases ht : t ∈ c.running
  · simp [ht]
  · simp only [ht, if_false]
    by_cases hel : (!(decide (m ∈ c.available) || decide (m ∈ c.idleOf obs))) = true
    · simp [hel]
    · intro _
      refine ⟨by simp, ?_⟩
      simpa [-not_or, Classical.or_iff_not_imp_left] using hel

theorem allocBegin_task_ok {c U} (h : Inv c U) (t : Tid) (m : Mid) (obs : Option Oid)
    (htU : t ∉ U) (hti : t.isIngest = false) :
    Inv (c.allocBegin t m obs false).1 (t :: U) ∧ (c.allocBegin t m obs false).1.machines = c.machines := by
  have h' : Inv c (t :: U) := h.mono (fun _ hx => List.mem_cons_of_mem _ hx)
  have ht : t ∉ c.running := fun x => htU (h.usedRun _ x)
  unfold allocBegin
  simp only [ht, if_false, Bool.false_eq_true]
  by_cases hel : (!(decide (m ∈ c.available) || decide (m ∈ c.idleOf obs))) = true
  · simp only [hel, if_true]
    exact ⟨h', by trivial⟩
  · simp only [hel]
    have hel' : m ∈ c.available ∨ m ∈ c.idleOf obs := by
      simpa [-not_or, Classical.or_iff_not_imp_left] using hel
    unfold setMachineOccupied
    by_cases hm : m ∈ c.available
    · simp only [hm, if_true]
      refine ⟨inv_beginTask h t m obs _ _ ?_ h.keys htU hti, rfl⟩
      intro m'
      have h3 := count_erase_of_mem c.available m m' hm
      have h4 := count_pos_of_mem hm
      simp only [idleAll]
      by_cases e : m' = m
      · subst e; simp only [if_true] at h3 ⊢; omega
      · simp only [e, if_false] at h3 ⊢; omega
    · simp only [hm, if_false]
      have hi : m ∈ c.idleOf obs := hel'.resolve_left hm
      cases obs with
      | none => simp [idleOf] at hi
      | some o =>
        simp only [idleOf] at hi
        simp only []
        cases hg : dictGet c.idle o with
        | none => simp [hg] at hi
        | some l =>
          simp only [hg, Option.getD_some] at hi
          simp only [hi, if_true]
          refine ⟨inv_beginTask h t m (some o) _ _ ?_ (dictKeys_nodup_dictSet _ _ _ h.keys) htU hti, rfl⟩
          intro m'
          have h2 := count_flatten_dictSet c.idle o l (l.erase m) m' hg
          have h3 := count_erase_of_mem l m m' hi
          have h4 := count_pos_of_mem hi
          simp only [idleAll]
          by_cases e : m' = m
          · subst e; simp only [if_true] at h3 ⊢; omega
          · simp only [e, if_false] at h3 ⊢; omega

/-! ### completion block of an allocation process -/

theorem mem_runMachines {c : Cluster} {e : RunEntry} (he : e ∈ c.runOn) :
    e.mach ∈ c.runMachines e.ing := by
  unfold runMachines
  exact List.mem_map_of_mem (List.mem_filter.mpr ⟨he, by simp⟩)

theorem inv_end {c U} (h : Inv c U) (t : Tid) (m : Mid) (obs : Option Oid) (ing : Bool)
    (he : (⟨t, m, obs, ing⟩ : RunEntry) ∈ c.runOn)
    (avail' ingest' occupied' : List Mid) (idle' : List (Oid × List Mid)) (uIngest' : Int)
    (hpart : ∀ m', avail'.count m' + ingest'.count m' + occupied'.count m'
        + ((idle'.map (·.2)).flatten).count m'
      = c.available.count m' + c.ingest.count m' + c.occupied.count m' + c.idleAll.count m')
    (hocc : ∀ m', occupied'.count m' + (if ing = false ∧ m = m' then 1 else 0) = c.occupied.count m')
    (hing : ∀ m', ingest'.count m' + (if ing = true ∧ m = m' then 1 else 0) = c.ingest.count m')
    (hkeys : (dictKeys idle').Nodup)
    (hu : uIngest' = c.uIngest - if ing = true then 1 else 0) :
    Inv { c with running := c.running.erase t, uRunning := c.uRunning - 1,
                 finished := dictSet c.finished t true, uFinished := c.uFinished + 1,
                 available := avail', ingest := ingest', occupied := occupied', idle := idle',
                 uIngest := uIngest', uAvail := c.uAvail + 1,
                 runOn := c.runOn.erase ⟨t, m, obs, ing⟩ } U :=
  have htr : t ∈ c.running := by
    rw [← h.runOnTasks]; exact List.mem_map_of_mem (f := (·.task)) he
  have hnd : (c.runOn.map (·.task)).Nodup := by rw [h.runOnTasks]; exact h.runNodup
  { h with
    part := by
      intro m'
      have h1 := h.part m'
      have h2 := hpart m'
      simp only [idleAll] at h1 h2 ⊢
      omega
    keys := hkeys
    runNodup := h.runNodup.erase t
    runOnTasks := by
      simp only []
      rw [map_erase_of_nodup (·.task) c.runOn _ he hnd, h.runOnTasks]
    occ := by
      intro m'
      have h1 := h.occ m'
      have h2 := count_filter_map_erase (·.mach) (fun e => e.ing == false) c.runOn _ he m'
      have h3 := hocc m'
      simp only [runMachines] at h1 ⊢
      simp only [beq_iff_eq] at h2
      omega
    ingm := by
      intro m'
      have h1 := h.ingm m'
      have h2 := count_filter_map_erase (·.mach) (fun e => e.ing == true) c.runOn _ he m'
      have h3 := hing m'
      simp only [runMachines] at h1 ⊢
      simp only [beq_iff_eq] at h2
      omega
    pendFresh := by
      intro e he'
      have h1 := h.pendFresh e he'
      have hne : e.task ≠ t := fun x => h1.1 (x ▸ htr)
      refine ⟨fun x => h1.1 (List.mem_of_mem_erase x), ?_⟩
      simp only []
      rw [dictGet_dictSet, if_neg (fun x => hne x.symm)]
      exact h1.2
    cntRunning := by
      have := h.cntRunning
      have h2 := List.length_erase_of_mem htr
      have h3 := List.length_pos_of_mem htr
      simp only []
      omega
    cntAvail := by
      have := h.cntAvail
      have h2 := List.length_erase_of_mem htr
      have h3 := List.length_pos_of_mem htr
      simp only []
      omega
    cntIngest := by
      have h1 := h.cntIngest
      have h2 := length_filter_erase (fun e => e.ing == true) c.runOn _ he
      simp only [runMachines, List.length_map] at h1 ⊢
      simp only [beq_iff_eq] at h2
      split at h2 <;> rename_i hi <;> simp only [hi, if_true, if_false, Bool.false_eq_true] at hu <;> omega
    cntFinished := by
      have h1 := h.cntFinished
      have h2 := filter_dictSet_length c.finished t true
      have h3 := h.runNotFin t htr
      simp only [h3, if_false, if_true] at h2
      simp only []
      omega
    runNotFin := by
      intro t' ht'
      have h1 := (List.Nodup.mem_erase_iff h.runNodup).mp ht'
      simp only []
      rw [dictGet_dictSet, if_neg (fun x => h1.1 x.symm)]
      exact h.runNotFin t' h1.2
    usedRun := fun t' ht' => h.usedRun t' (List.mem_of_mem_erase ht')
    usedFin := by
      intro t' ht'
      rcases mem_dictKeys_dictSet _ _ _ _ ht' with e | ht'
      · subst e; exact h.usedRun _ htr
      · exact h.usedFin t' ht'
    ingRun := fun e he' => h.ingRun e (List.mem_of_mem_erase he') }

theorem allocEnd_ok {c U} (h : Inv c U) (e : RunEntry) (he : e ∈ c.runOn) :
    (c.allocEnd e.task e.mach e.obs e.ing).2 = none ∧
    Inv (c.allocEnd e.task e.mach e.obs e.ing).1 U ∧
    (c.allocEnd e.task e.mach e.obs e.ing).1.machines = c.machines := by
  obtain ⟨t, m, obs, ing⟩ := e
  have htr : t ∈ c.running := by
    rw [← h.runOnTasks]; exact List.mem_map_of_mem (f := (·.task)) he
  have hmr := count_pos_of_mem (mem_runMachines he)
  simp only at hmr ⊢
  unfold allocEnd
  simp only [htr, if_true]
  cases ing with
  | true =>
    have hmi : m ∈ c.ingest := by
      have := h.ingm m
      exact List.count_pos_iff.mp (by omega)
    simp only [hmi, if_true]
    refine ⟨by trivial, inv_end h t m obs true he _ _ _ _ _ ?_ ?_ ?_ h.keys ?_, by trivial⟩
    · intro m'
      have h3 := count_erase_of_mem c.ingest m m' hmi
      have h4 := count_pos_of_mem hmi
      simp only [idleAll]
      rw [count_append_singleton]
      by_cases e : m' = m
      · subst e; simp only [if_true] at h3 ⊢; omega
      · simp only [e, if_false] at h3 ⊢; omega
    · intro m'; simp
    · intro m'
      have h3 := count_erase_of_mem c.ingest m m' hmi
      have h4 := count_pos_of_mem hmi
      by_cases e : m' = m
      · subst e; simp only [if_true, and_self] at h3 ⊢; omega
      · have e' : ¬ m = m' := fun x => e x.symm
        simp only [e, e', and_false, if_false] at h3 ⊢; omega
    · simp
  | false =>
    have hmo : m ∈ c.occupied := by
      have := h.occ m
      exact List.count_pos_iff.mp (by omega)
    have hoc : ∀ m', (c.occupied.erase m).count m' + (if false = false ∧ m = m' then 1 else 0)
        = c.occupied.count m' := by
      intro m'
      have h3 := count_erase_of_mem c.occupied m m' hmo
      have h4 := count_pos_of_mem hmo
      by_cases e : m' = m
      · subst e; simp only [if_true, and_self] at h3 ⊢; omega
      · have e' : ¬ m = m' := fun x => e x.symm
        simp only [e, e', and_false, if_false] at h3 ⊢; omega
    have hp1 : ∀ m', (c.available ++ [m]).count m' + c.ingest.count m' + (c.occupied.erase m).count m'
        + ((c.idle.map (·.2)).flatten).count m'
        = c.available.count m' + c.ingest.count m' + c.occupied.count m' + c.idleAll.count m' := by
      intro m'
      have h3 := count_erase_of_mem c.occupied m m' hmo
      have h4 := count_pos_of_mem hmo
      simp only [idleAll]
      rw [count_append_singleton]
      by_cases e : m' = m
      · subst e; simp only [if_true] at h3 ⊢; omega
      · simp only [e, if_false] at h3 ⊢; omega
    unfold setMachineAvailable
    simp only [hmo, if_true, Bool.false_eq_true, if_false]
    cases obs with
    | none =>
      simp only []
      exact ⟨by trivial, inv_end h t m none false he _ _ _ _ _ hp1 hoc (by intro m'; simp) h.keys (by simp),
        by trivial⟩
    | some o =>
      simp only []
      cases hg : dictGet c.idle o with
      | none =>
        simp only []
        exact ⟨by trivial, inv_end h t m (some o) false he _ _ _ _ _ hp1 hoc (by intro m'; simp) h.keys
          (by simp), by trivial⟩
      | some l =>
        simp only []
        refine ⟨by trivial, inv_end h t m (some o) false he _ _ _ _ _ ?_ hoc (by intro m'; simp)
          (dictKeys_nodup_dictSet _ _ _ h.keys) (by simp), by trivial⟩
        intro m'
        have h2 := count_flatten_dictSet c.idle o l (l ++ [m]) m' hg
        have h3 := count_erase_of_mem c.occupied m m' hmo
        have h4 := count_pos_of_mem hmo
        simp only [idleAll]
        rw [count_append_singleton] at h2
        by_cases e : m' = m
        · subst e; simp only [if_true] at h2 h3 ⊢; omega
        · simp only [e, if_false] at h2 h3 ⊢; omega

/-! ### the operation alphabet -/

theorem ingestBegin_ok {c U} (h : Inv c U) (e : RunEntry) (he : e ∈ c.pending) :
    Inv (c.allocBegin e.task e.mach e.obs true).1 U ∧
    (c.allocBegin e.task e.mach e.obs true).1.machines = c.machines := by
  have hi := h.pendIng e he
  have hfr := h.pendFresh e he
  obtain ⟨t, m, obs, ing⟩ := e
  simp only at hi hfr ⊢
  subst hi
  have hmi : m ∈ c.ingest := by
    have h1 := h.ingm m
    have h2 : 0 < (c.pending.map (·.mach)).count m :=
      count_pos_of_mem (List.mem_map_of_mem (f := (·.mach)) he)
    exact List.count_pos_iff.mp (by omega)
  unfold allocBegin
  simp only [hfr.1, if_false, if_true, hmi, decide_true, Bool.not_true, Bool.false_eq_true]
  exact ⟨inv_beginIngest h t m obs he, by trivial⟩

theorem moveToIngest_noerr (c : Cluster) (obs : Oid) (pairs : List (Mid × Tid))
    (hsub : ∀ p ∈ pairs, p.1 ∈ c.available) (hnd : (pairs.map (·.1)).Nodup) :
    (moveToIngest c obs pairs).2 = none := by
  induction pairs generalizing c with
  | nil => rfl
  | cons p rest ih =>
    obtain ⟨m, t⟩ := p
    have hm : m ∈ c.available := hsub (m, t) (by simp)
    unfold moveToIngest
    simp only [hm, if_true]
    simp only [List.map_cons, List.nodup_cons] at hnd
    apply ih _ _ hnd.2
    intro p hp
    have : p.1 ≠ m := fun e => hnd.1 (e ▸ List.mem_map_of_mem (f := (·.1)) hp)
    exact (List.mem_erase_of_ne this).mpr (hsub p (List.mem_cons_of_mem _ hp))

theorem provisionIngest_refused {c U} (h : Inv c U) (d : Nat) (o : Oid) (e : Err)
    (he : (c.provisionIngest d o).2.1 = some e) : (c.provisionIngest d o).1 = c := by
  unfold provisionIngest at he ⊢
  by_cases hd : d > c.available.length
  · simp only [hd, if_true]
  · simp only [hd, if_false] at he ⊢
    generalize hp : ((c.available.take d).zipIdx.map (fun (x : Mid × Nat) => (x.1, Tid.ingest o x.2)))
      = pairs at he ⊢
    have hfst : pairs.map (·.1) = c.available.take d := by
      subst hp; rw [List.map_map]; exact List.zipIdx_map_fst 0 _
    have hsub : ∀ p ∈ pairs, p.1 ∈ c.available := by
      intro p hp'
      have : p.1 ∈ pairs.map (·.1) := List.mem_map_of_mem hp'
      rw [hfst] at this
      exact List.mem_of_mem_take this
    have hnd : (pairs.map (·.1)).Nodup := by
      rw [hfst]; exact (List.take_sublist d c.available).nodup h.avail_nodup
    have := moveToIngest_noerr { c with ingestStatus := true, ingestDemand := d } o pairs hsub hnd
    rw [this] at he
    simp at he

/-- freshness of one operation with respect to the ids used so far -/
def OpFresh (U : List Tid) : ClOp → Prop
  | .alloc t _ _ => t ∉ U ∧ t.isIngest = false
  | .provIngest _ o => ∀ i, Tid.ingest o i ∉ U
  | _ => True

theorem applyOp_ok {c U} (h : Inv c U) (op : ClOp) (hf : OpFresh U op) :
    (∃ U', Inv (c.applyOp op).1 U' ∧
      ∀ t ∈ U', t ∈ U ∨ t ∈ opTids op ∨ ∃ o ∈ opIngestObs op, ∃ i, t = Tid.ingest o i) ∧
    (c.applyOp op).1.machines = c.machines := by
  cases op with
  | provBatch s o =>
    have := provisionBatch_ok h s o
    exact ⟨⟨U, this.1, fun t ht => Or.inl ht⟩, this.2.1⟩
  | relBatch o =>
    have := releaseBatch_ok h o
    exact ⟨⟨U, this.1, fun t ht => Or.inl ht⟩, this.2⟩
  | provIngest d o =>
    obtain ⟨⟨U', h1, h2⟩, h3, _⟩ := provisionIngest_ok h d o hf
    refine ⟨⟨U', h1, ?_⟩, h3⟩
    intro t ht
    rcases h2 t ht with h2 | ⟨i, hi⟩
    · exact Or.inl h2
    · exact Or.inr (Or.inr ⟨o, by simp [opIngestObs], i, hi⟩)
  | ingestBegin i =>
    simp only [applyOp]
    cases hp : c.pending[i]? with
    | none => exact ⟨⟨U, h, fun t ht => Or.inl ht⟩, rfl⟩
    | some e =>
      have := ingestBegin_ok h e (List.mem_of_getElem? hp)
      exact ⟨⟨U, this.1, fun t ht => Or.inl ht⟩, this.2⟩
  | alloc t m obs =>
    have := allocBegin_task_ok h t m obs hf.1 hf.2
    refine ⟨⟨t :: U, this.1, ?_⟩, this.2⟩
    intro t' ht'
    simp only [List.mem_cons] at ht'
    rcases ht' with ht' | ht'
    · exact Or.inr (Or.inl (by simp [opTids, ht']))
    · exact Or.inl ht'
  | finish i =>
    simp only [applyOp]
    cases hp : c.runOn[i]? with
    | none => exact ⟨⟨U, h, fun t ht => Or.inl ht⟩, rfl⟩
    | some e =>
      have := allocEnd_ok h e (List.mem_of_getElem? hp)
      exact ⟨⟨U, this.2.1, fun t ht => Or.inl ht⟩, this.2.2⟩
  | tick => exact ⟨⟨U, inv_tick h, fun t ht => Or.inl ht⟩, by simp only [applyOp, loopTick]; split <;> rfl⟩
  | cleanupIngest => exact ⟨⟨U, inv_cleanup h, fun t ht => Or.inl ht⟩, rfl⟩

theorem applyOp_refused {c U} (h : Inv c U) (op : ClOp) (e : Err)
    (he : (c.applyOp op).2 = some e) : (c.applyOp op).1 = c := by
  cases op with
  | provBatch s o => exact (provisionBatch_ok h s o).2.2 e he
  | relBatch o => simp [applyOp] at he
  | provIngest d o => exact provisionIngest_refused h d o e he
  | ingestBegin i =>
    simp only [applyOp] at he ⊢
    cases hp : c.pending[i]? with
    | none => rfl
    | some x =>
      simp only [hp] at he ⊢
      exact allocBegin_err_unchanged c _ _ _ _ e he
  | alloc t m obs => exact allocBegin_err_unchanged c _ _ _ _ e he
  | finish i =>
    simp only [applyOp] at he ⊢
    cases hp : c.runOn[i]? with
    | none => rfl
    | some x =>
      simp only [hp] at he ⊢
      have := (allocEnd_ok h x (List.mem_of_getElem? hp)).1
      rw [this] at he
      simp at he
  | tick => simp [applyOp] at he
  | cleanupIngest => simp [applyOp] at he

/-! ### histories -/

def FreshFrom (U : List Tid) (ops : List ClOp) : Prop :=
  FreshHist ops ∧ (∀ t ∈ ops.flatMap opTids, t ∉ U) ∧
  (∀ o ∈ ops.flatMap opIngestObs, ∀ i, Tid.ingest o i ∉ U)

theorem run_cons (c : Cluster) (op : ClOp) (ops : List ClOp) :
    c.run (op :: ops) = (c.applyOp op).1.run ops := rfl

theorem FreshFrom.head {U op ops} (h : FreshFrom U (op :: ops)) : OpFresh U op := by
  obtain ⟨⟨_, h2, _⟩, h4, h5⟩ := h
  cases op with
  | alloc t m obs =>
    exact ⟨h4 t (by simp [opTids]), h2 t (by simp [opTids])⟩
  | provIngest d o =>
    exact h5 o (by simp [opIngestObs])
  | _ => trivial

theorem FreshFrom.tail {U U' op ops} (h : FreshFrom U (op :: ops))
    (hU' : ∀ t ∈ U', t ∈ U ∨ t ∈ opTids op ∨ ∃ o ∈ opIngestObs op, ∃ i, t = Tid.ingest o i) :
    FreshFrom U' ops := by
  obtain ⟨⟨h1, h2, h3⟩, h4, h5⟩ := h
  simp only [List.flatMap_cons, List.nodup_append, List.mem_append] at h1 h2 h3 h4 h5
  refine ⟨⟨h1.2.1, fun t ht => h2 t (Or.inr ht), h3.2.1⟩, ?_, ?_⟩
  · intro t ht hu
    rcases hU' t hu with hu | hu | ⟨o, _, i, hi⟩
    · exact h4 t (Or.inr ht) hu
    · exact h1.2.2 t hu t ht rfl
    · have := h2 t (Or.inr ht)
      rw [hi] at this
      simp [Tid.isIngest] at this
  · intro o ho i hu
    rcases hU' _ hu with hu | hu | ⟨o', ho', i', hi⟩
    · exact h5 o (Or.inr ho) i hu
    · have := h2 _ (Or.inl hu)
      simp [Tid.isIngest] at this
    · injection hi with e1 e2
      subst e1
      exact h3.2.2 o ho' o ho rfl

theorem run_inv_gen (ops : List ClOp) : ∀ (c : Cluster) (U : List Tid), Inv c U → FreshFrom U ops →
    ∃ U', Inv (c.run ops) U' ∧ (c.run ops).machines = c.machines := by
  induction ops with
  | nil => intro c U h _; exact ⟨U, h, rfl⟩
  | cons op ops ih =>
    intro c U h hf
    obtain ⟨⟨U', h1, h2⟩, h3⟩ := applyOp_ok h op hf.head
    obtain ⟨U'', i1, i2⟩ := ih _ U' h1 (hf.tail h2)
    rw [run_cons]
    exact ⟨U'', i1, i2.trans h3⟩

theorem run_inv' (ms : List Mid) (hms : ms.Nodup) (ops : List ClOp) (hf : FreshHist ops) :
    ∃ U, Inv ((init ms).run ops) U ∧ ((init ms).run ops).machines = ms :=
  run_inv_gen ops (init ms) [] (inv_init ms hms) ⟨hf, by simp, by simp⟩

theorem run_inv (ms : List Mid) (hms : ms.Nodup) (ops : List ClOp) (hf : FreshHist ops) :
    ∃ U, Inv ((init ms).run ops) U := by
  obtain ⟨U, h, _⟩ := run_inv' ms hms ops hf
  exact ⟨U, h⟩

/-! ### consequences of the invariant -/

theorem Inv.perm {c U} (h : Inv c U) :
    (c.available ++ c.ingest ++ c.occupied ++ c.idleAll).Perm c.machines := by
  rw [List.perm_iff_count]
  intro m
  have := h.part m
  simp only [List.count_append]
  omega

theorem Inv.runOn_count {c U} (h : Inv c U) (m : Mid) :
    (c.runOn.map (·.mach)).count m + (c.pending.map (·.mach)).count m
      = c.occupied.count m + c.ingest.count m := by
  have h1 := h.occ m
  have h2 := h.ingm m
  have h3 := count_map_split (·.mach) (fun e => e.ing == true) c.runOn m
  have h4 : (c.runOn.filter (fun x => !(x.ing == true))) = c.runOn.filter (fun e => e.ing == false) := by
    apply List.filter_congr
    intro x _
    cases x.ing <;> rfl
  simp only [runMachines] at h1 h2
  rw [h4] at h3
  omega

theorem run_partition (ms : List Mid) (hms : ms.Nodup) (ops : List ClOp) (hf : FreshHist ops) :
    let c := (init ms).run ops
    (c.available ++ c.ingest ++ c.occupied ++ c.idleAll).Perm ms := by
  intro c
  obtain ⟨U, h, hm⟩ : ∃ U, Inv c U ∧ c.machines = ms := run_inv' ms hms ops hf
  clear_value c
  have := h.perm
  rw [hm] at this
  exact this

theorem run_exactly_one (ms : List Mid) (hms : ms.Nodup) (ops : List ClOp) (hf : FreshHist ops)
    (m : Mid) (hm : m ∈ ms) :
    let c := (init ms).run ops
    c.available.count m + c.ingest.count m + c.occupied.count m + c.idleAll.count m = 1 := by
  intro c
  obtain ⟨U, h, hmm⟩ : ∃ U, Inv c U ∧ c.machines = ms := run_inv' ms hms ops hf
  clear_value c
  have h1 := h.part m
  rw [hmm] at h1
  have h2 := List.nodup_iff_count.mp hms m
  have h3 := count_pos_of_mem hm
  show c.available.count m + c.ingest.count m + c.occupied.count m + c.idleAll.count m = 1
  omega

theorem run_one_owner (ms : List Mid) (hms : ms.Nodup) (ops : List ClOp) (hf : FreshHist ops)
    (m : Mid) (o₁ o₂ : Oid) :
    let c := (init ms).run ops
    m ∈ c.idleOf (some o₁) → m ∈ c.idleOf (some o₂) → o₁ = o₂ := by
  intro c
  obtain ⟨U, h, hmm⟩ : ∃ U, Inv c U ∧ c.machines = ms := run_inv' ms hms ops hf
  clear_value c
  intro h1 h2
  simp only [idleOf] at h1 h2
  cases hg1 : dictGet c.idle o₁ with
  | none => simp [hg1] at h1
  | some l₁ =>
    cases hg2 : dictGet c.idle o₂ with
    | none => simp [hg2] at h2
    | some l₂ =>
      simp only [hg1, hg2, Option.getD_some] at h1 h2
      apply Classical.byContradiction
      intro hne
      have h3 := count_flatten_two c.idle o₁ o₂ l₁ l₂ m hg1 hg2 hne
      have h4 := h.part m
      have h5 := List.nodup_iff_count.mp h.nodupM m
      have h6 := count_pos_of_mem h1
      have h7 := count_pos_of_mem h2
      simp only [idleAll] at h4
      omega

theorem run_refused_unchanged (ms : List Mid) (hms : ms.Nodup) (ops : List ClOp)
    (hf : FreshHist ops) (op : ClOp) (e : Err) :
    let c := (init ms).run ops
    (c.applyOp op).2 = some e → (c.applyOp op).1 = c := by
  intro c
  obtain ⟨U, h, _⟩ : ∃ U, Inv c U ∧ c.machines = ms := run_inv' ms hms ops hf
  clear_value c
  exact applyOp_refused h op e

theorem run_counts (ms : List Mid) (hms : ms.Nodup) (ops : List ClOp) (hf : FreshHist ops) :
    let c := (init ms).run ops
    c.uRunning = c.running.length ∧
    c.uAvail = (ms.length : Int) - c.running.length ∧
    c.uFinished = (c.finished.filter (·.2)).length ∧
    c.uIngest = (c.running.filter Tid.isIngest).length ∧
    (c.pending = [] → c.uAvail = (c.available.length : Int) + c.idleAll.length) := by
  intro c
  obtain ⟨U, h, hmm⟩ : ∃ U, Inv c U ∧ c.machines = ms := run_inv' ms hms ops hf
  clear_value c
  have hav := h.cntAvail
  rw [hmm] at hav
  refine ⟨h.cntRunning, hav, h.cntFinished, ?_, ?_⟩
  · rw [h.cntIngest, ← h.runOnTasks, List.filter_map, List.length_map]
    simp only [runMachines, List.length_map]
    congr 2
    apply List.filter_congr
    intro x hx
    have := h.ingRun x hx
    simp only [Function.comp]
    rw [← this]
    cases x.ing <;> rfl
  · intro hp
    have h1 := h.perm.length_eq
    have h2 := length_eq_of_count_eq h.occ
    have h3 : (c.runMachines true).length = c.ingest.length := by
      apply length_eq_of_count_eq
      intro m
      have := h.ingm m
      rw [hp] at this
      simpa using this
    have h4 := length_filter_bool_split (·.ing) c.runOn
    have h5 : c.running.length = c.runOn.length := by rw [← h.runOnTasks, List.length_map]
    simp only [runMachines, List.length_map] at h2 h3
    simp only [List.length_append] at h1
    rw [hmm] at h1
    omega

theorem run_quiescent (ms : List Mid) (hms : ms.Nodup) (ops : List ClOp) (hf : FreshHist ops) :
    let c := (init ms).run ops
    c.running = [] → c.pending = [] → c.idle = [] → c.available.Perm ms := by
  intro c
  obtain ⟨U, h, hmm⟩ : ∃ U, Inv c U ∧ c.machines = ms := run_inv' ms hms ops hf
  clear_value c
  intro hr hp hi
  have hro : c.runOn = [] := by
    have := h.runOnTasks
    rw [hr] at this
    exact List.map_eq_nil_iff.mp this
  rw [List.perm_iff_count]
  intro m
  have h1 := h.part m
  have h2 := h.occ m
  have h3 := h.ingm m
  rw [hmm] at h1
  simp only [runMachines, hro, hp, idleAll, hi, List.filter_nil, List.map_nil, List.count_nil,
    List.flatten_nil] at h1 h2 h3
  omega

theorem run_c01 (ms : List Mid) (hms : ms.Nodup) (ops : List ClOp) (hf : FreshHist ops) :
    let c := (init ms).run ops
    (c.runOn.map (·.mach)).Nodup ∧
    ∀ m, (m ∈ c.available ∨ m ∈ c.idleAll) → m ∉ c.runOn.map (·.mach) := by
  intro c
  obtain ⟨U, h, hmm⟩ : ∃ U, Inv c U ∧ c.machines = ms := run_inv' ms hms ops hf
  clear_value c
  refine ⟨?_, ?_⟩
  · rw [List.nodup_iff_count]
    intro m
    have h1 := h.part m
    have h2 := h.runOn_count m
    have h3 := List.nodup_iff_count.mp h.nodupM m
    omega
  · intro m hm hr
    have h1 := h.part m
    have h2 := h.runOn_count m
    have h3 := List.nodup_iff_count.mp h.nodupM m
    have h4 := count_pos_of_mem hr
    have h5 : 0 < c.available.count m + c.idleAll.count m := by
      rcases hm with hm | hm
      · have := count_pos_of_mem hm; omega
      · have := count_pos_of_mem hm; omega
    omega

end Cluster
end Topsim
