/-
  LiveP8c — the declarations of Live8c.lean that depend on the configuration structures, restated for
  the plan-following configurations (`LivePCfg`, `NcPCfg`, `L7PLib`); the proofs are those of Live8c.lean.
-/
import TopsimProofs.LiveP8b

namespace Topsim

open KState Sys

namespace Sys

end Sys

section

variable {env : SimEnv} {s0 : Sys}

/-- **The exact ingest ledger.**  Along the run the counter `provIngest` is the sum of the pipeline
demands of the observations whose ingest supervisor is alive. -/
theorem live_ledger_P (C : LivePCfg env s0) (K : LiveKernel env s0) (n : Nat) :
    (simAt env s0 n).st.provIngest =
      ((Sys.l8F (simAt env s0 n).st.ilDemand (simAt env s0 n).st.procs : Nat) : Int) := by
  have h : Sys.l8G (simAt env s0 n).st = 0 := by
    induction n with
    | zero => exact Sys.l8_G_start s0 C.hw
    | succ n ih =>
      obtain ⟨e, p, _, hpp, _, _, hen, hnr, hst⟩ := l8_step_P C K n
      rw [hst, Sys.l8_G_step (l8_sinv_P C K n) hen _ (l8_oracle_preOk_P C K n _) ?_]
      · exact ih
      · intro p' hp' err
        rw [hpp] at hp'; cases hp'
        exact hnr err
  unfold Sys.l8G at h
  omega

/-- no live ingest supervisor: the counter is zero -/
theorem live_provIngest_zero_P (C : LivePCfg env s0) (K : LiveKernel env s0) (n : Nat)
    (hq : ∀ q ∈ (simAt env s0 n).st.procs, q.alive = true → q.k.tag ≠ "allocIngest") :
    (simAt env s0 n).st.provIngest = 0 := by
  rw [live_ledger_P C K n]
  have : ilLiveAI (simAt env s0 n).st.procs = [] := by
    apply List.eq_nil_iff_forall_not_mem.mpr
    intro o ho
    obtain ⟨q, hq', hqa, hqk⟩ := mem_ilLiveAI.mp ho
    apply hq q hq' hqa
    cases hk : q.k <;> rw [hk] at hqk <;> simp [PK.aiObs] at hqk
    rfl
  unfold Sys.l8F
  rw [this]; rfl

end

end Topsim

