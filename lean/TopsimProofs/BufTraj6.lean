/-
  BufTraj6 — `CA` (cold-tier accounting, residuals within sizes) is preserved by
  every step that does not raise, and holds along every run that has not crashed.
-/
import TopsimProofs.BufTraj5

namespace Topsim
namespace Buffer

theorem applyOp_maxRate (b : Buffer) (op : BufOp) :
    (b.applyOp op).hot.maxRate = b.hot.maxRate ∧ (b.applyOp op).cold.maxRate = b.cold.maxRate := by
  cases op with
  | deposit o r => simp only [applyOp]; unfold deposit; split <;> exact ⟨rfl, rfl⟩
  | store o n => exact ⟨rfl, rfl⟩
  | next => simp only [applyOp]; unfold nextForProcessing; split <;> exact ⟨rfl, rfl⟩
  | remove o => simp only [applyOp]; unfold remove; split <;> exact ⟨rfl, rfl⟩
  | h2cBegin =>
    simp only [applyOp]; unfold hot2coldBegin
    split
    · exact ⟨rfl, rfl⟩
    · simp only; split <;> exact ⟨rfl, rfl⟩
  | c2hBegin =>
    simp only [applyOp]; unfold cold2hotBegin
    split
    · exact ⟨rfl, rfl⟩
    · simp only; split <;> exact ⟨rfl, rfl⟩
  | h2cStep o l =>
    simp only [applyOp, hot2coldStep]
    generalize recvAmount b.moveRate l (b.sizeOf o) = ra
    generalize sendAmount b.moveRate l (b.sizeOf o) = sa
    obtain ⟨take, check⟩ := ra
    obtain ⟨give, left'⟩ := sa
    simp only
    by_cases hc : check = 0 <;> by_cases hl : left' = 0 <;> by_cases hn : b.hot.transfer.isNone = true <;>
      by_cases he : check ≠ left' <;> simp_all
  | c2hStep o l =>
    simp only [applyOp, cold2hotStep]
    generalize recvAmount b.moveRate l (b.sizeOf o) = ra
    generalize sendAmount b.moveRate l (b.sizeOf o) = sa
    obtain ⟨take, check⟩ := ra
    obtain ⟨give, left'⟩ := sa
    simp only
    by_cases hc : check = 0 <;> by_cases hl : left' = 0 <;> by_cases hn : b.cold.transfer.isNone = true <;>
      by_cases he : check ≠ left' <;> simp_all

theorem Ref.maxRate {b b' : Buffer} (h : Ref b b') :
    b'.hot.maxRate = b.hot.maxRate ∧ b'.cold.maxRate = b.cold.maxRate :=
  h.induct (P := fun x => x.hot.maxRate = b.hot.maxRate ∧ x.cold.maxRate = b.cold.maxRate)
    (fun x op hx _ => ⟨(applyOp_maxRate x op).1.trans hx.1, (applyOp_maxRate x op).2.trans hx.2⟩) ⟨rfl, rfl⟩

theorem Ref.moveRate {b b' : Buffer} (h : Ref b b') : b'.moveRate = b.moveRate := by
  unfold Buffer.moveRate; rw [h.maxRate.1, h.maxRate.2]

end Buffer

namespace Sys

/-- the new entries of a block carry no tier-move token -/
theorem block_new {s : Sys} (hs : SInv s) {p : Proc} (hpm : p ∈ s.procs) (ha : p.alive = true)
    (hmin : ∀ q ∈ s.procs, q.alive = true → p.wake ≤ q.wake) (orc : Oracle)
    (hpre : s.alg = .oracle → orc.preOk) :
    ∃ new, (s.block p orc).1.procs = s.procs ++ new ∧ PW (s.block p orc).1 ∧
      ∀ q ∈ new, tok q = [] ∧ (p.k.tag ≠ "allocIngest" → q.k.tag ≠ "ingestStream") := by
  have hpw := hs.pw
  have ofPres : ∀ C : Prop, Pres s (s.block p orc).1 →
      ∃ new, (s.block p orc).1.procs = s.procs ++ new ∧ PW (s.block p orc).1 ∧
        ∀ q ∈ new, tok q = [] ∧ (C → q.k.tag ≠ "ingestStream") := by
    intro C hpres
    obtain ⟨new, hprocs, hnew⟩ := hnew_of_shape hpres.shape
    exact ⟨new, hprocs, hpres.pw hpw, fun q hq => ⟨(hnew q hq).2, fun _ => (hnew q hq).1⟩⟩
  cases hk : p.k with
  | monitor =>
    have hb : s.block p orc = ((s.monitorBlock p.wake).1, p.k, (s.monitorBlock p.wake).2) := by
      unfold block; simp only [hk]
    exact ofPres _ (by rw [hb]; exact monitorBlock_pres _ _)
  | telescope =>
    have hb : s.block p orc = ((s.telescopeBlock p.wake).1, .telescope, (s.telescopeBlock p.wake).2) := by
      unfold block; simp only [hk]
    obtain ⟨hc, _, _⟩ := telescope_key hs.eg hpm ha hmin hk
    obtain ⟨new, hprocs, hnewk⟩ := telescopeBlock_procs s p.wake
    rw [hb]
    exact ⟨new, hprocs, hc.pw hpw, fun q hq =>
      ⟨(hnew_of_tag hnewk (by decide) (by decide) (by decide) q hq).2,
       fun _ => (hnew_of_tag hnewk (by decide) (by decide) (by decide) q hq).1⟩⟩
  | clusterLoop =>
    have hb : s.block p orc = ({ s with cl := s.cl.loopTick }, p.k, .timeout 1) := by
      unfold block; simp only [hk]
    exact ofPres _ (by rw [hb]; exact clusterLoop_pres _)
  | schedLoop =>
    have hb : s.block p orc = ((s.schedLoopBlock p.wake orc).1, p.k, (s.schedLoopBlock p.wake orc).2) := by
      unfold block; simp only [hk]
    exact ofPres _ (by rw [hb]; exact schedLoopBlock_pres _ _ _)
  | bufferLoop =>
    have hb : s.block p orc = ((s.bufferLoopBlock p.wake).1, p.k, (s.bufferLoopBlock p.wake).2) := by
      unfold block; simp only [hk]
    exact ofPres _ (by rw [hb]; exact bufferLoopBlock_pres _ _)
  | allocIngest o tl =>
    have hb : s.block p orc = s.allocIngestBlock p.wake p.pc o tl := by
      unfold block; simp only [hk]
    have hpwX : PW (s.block p orc).1 := by rw [hb]; exact (allocIngestBlock_E s p.wake p.pc o tl).1.pw hpw
    rcases allocIngestBlock_procs s p.wake p.pc o tl with hsame | ⟨ob, d, _, _, hprocs, _⟩
    · exact ⟨[], by rw [hb]; simpa using hsame, hpwX, by simp⟩
    · refine ⟨_, by rw [hb]; exact hprocs, hpwX, ?_⟩
      intro q hq
      simp only [List.mem_cons, List.not_mem_nil, or_false] at hq
      rcases hq with rfl | rfl <;> simp [tok, tokK, PK.tag]
  | provIngest o d =>
    have hb : s.block p orc = s.provIngestBlock p.wake p.pc o d := by
      unfold block; simp only [hk]
    obtain ⟨new, hprocs, hnewk⟩ := provIngestBlock_procs s p.wake p.pc o d
    rw [hb]
    exact ⟨new, hprocs, (provIngestBlock_presE s p.wake p.pc o d).1.pw hpw,
      fun q hq =>
      ⟨(hnew_of_tag hnewk (by decide) (by decide) (by decide) q hq).2,
       fun _ => (hnew_of_tag hnewk (by decide) (by decide) (by decide) q hq).1⟩⟩
  | ingestStream o tl =>
    have hb : s.block p orc = s.ingestStreamBlock p.wake p.pc o tl := by
      unfold block; simp only [hk]
    exact ofPres _ (by rw [hb]; exact ingestStreamBlock_pres _ _ _ _ _)
  | allocTask t m preds obs ing ret =>
    have hb : s.block p orc = s.allocTaskBlock p.wake t m preds obs ing ret := by
      unfold block; simp only [hk]
    obtain ⟨new, hprocs, hnewk⟩ := allocTaskBlock_procs s hpw p.wake t m preds obs ing ret
    rw [hb]
    exact ⟨new, hprocs, (allocTaskBlock_presE s hpw p.wake t m preds obs ing ret).1.pw hpw,
      fun q hq =>
      ⟨(hnew_of_tag hnewk (by decide) (by decide) (by decide) q hq).2,
       fun _ => (hnew_of_tag hnewk (by decide) (by decide) (by decide) q hq).1⟩⟩
  | doWork t m preds ph tot =>
    have hb : s.block p orc = s.doWorkBlock p.wake orc t m preds ph tot := by
      unfold block; simp only [hk]
    rw [hb]
    exact ⟨[], by simpa using doWorkBlock_procs s p.wake orc t m preds ph tot,
      (doWorkBlock_presE s p.wake orc t m preds ph tot).1.pw hpw, by simp⟩
  | allocTasks o sc pa po fn =>
    have hb : s.block p orc = s.allocTasksBlock p.wake orc p.pc o sc pa po fn := by
      unfold block; simp only [hk]
    exact ofPres _ (by rw [hb]; exact allocTasksBlock_pres _ _ _ hpre _ _ _ _ _ _)
  | hot2cold cur =>
    have hb : s.block p orc = s.hot2coldBlock p.wake cur := by
      unfold block; simp only [hk]
    exact ofPres _ (by rw [hb]; exact hot2coldBlock_pres _ _ _)
  | cold2hot cur =>
    have hb : s.block p orc = s.cold2hotBlock p.wake cur := by
      unfold block; simp only [hk]
    exact ofPres _ (by rw [hb]; exact cold2hotBlock_pres _ _ _)

theorem CA.congr {a b : Sys} (h : CA a) (hp : b.procs = a.procs) (hb : b.buf = a.buf) : CA b := by
  constructor
  · rw [hb, hp]; exact h.acct
  · rw [hb, hp]; exact h.left

theorem mem_bufList_or_toks_ne {s : Sys} {oid x : Oid} (h0 : locCount s oid = 0)
    (hx : x ∈ s.buf.cold.stored ++ toks s) : x ≠ oid := by
  rintro rfl
  unfold locCount bufList at h0
  simp only [List.count_append] at h0
  rcases List.mem_append.mp hx with h | h
  · have := count_pos_of_mem h; omega
  · have := count_pos_of_mem h; omega

theorem ca_step {s : Sys} (hs : SInv s) (hb : BufI s) (hsn : ∀ o, 0 ≤ s.buf.sizeOf o) (h : CA s) {pid : Nat}
    (hen : s.enabled pid) (orc : Oracle) (hpre : s.alg = .oracle → orc.preOk)
    (hc : (s.resume pid orc).1.crashed = none) : CA (s.resume pid orc).1 := by
  obtain ⟨p, hp, ha, hmin⟩ := hen
  obtain ⟨_, hnr⟩ := resume_nocrash s pid orc p hp ha hc
  obtain ⟨hpm, hpid⟩ := proc?_some hp
  subst hpid
  have hcore := resume_core s p.pid orc p hp ha
  have hpw := hs.pw
  refine CA.congr (a := (s.block p orc).1.updProc p.pid (fin (s.block p orc).2.1 (s.block p orc).2.2 p.wake)) ?_
    hcore.procs (resume_buf s p.pid orc p hp ha)
  obtain ⟨new, hprocs, hpwX, hnew2⟩ := block_new hs hpm ha hmin orc hpre
  have hnew : ∀ q ∈ new, tok q = [] := fun q hq => (hnew2 q hq).1
  have hrate : (s.block p orc).1.buf.moveRate = s.buf.moveRate := (block_ref hb hpm ha orc hnr).moveRate
  have htag := block_tag s hpw p orc
  -- a block that is no tier move
  have nt : p.k.tag ≠ "hot2cold" → p.k.tag ≠ "cold2hot" → (s.block p orc).1.buf.cold = s.buf.cold →
      (∀ x ∈ s.buf.cold.stored ++ toks s, (s.block p orc).1.buf.sizeOf x = s.buf.sizeOf x) →
      CA ((s.block p orc).1.updProc p.pid (fin (s.block p orc).2.1 (s.block p orc).2.2 p.wake)) :=
    fun h4 h5 hcold hsz => h.frame hpw new hprocs hpwX hpm ha _ _ hnew hcold hsz hrate h4 h5 htag
  have quiet : p.k.tag ≠ "schedLoop" → p.k.tag ≠ "ingestStream" → p.k.tag ≠ "allocTasks" →
      p.k.tag ≠ "hot2cold" → p.k.tag ≠ "cold2hot" →
      CA ((s.block p orc).1.updProc p.pid (fin (s.block p orc).2.1 (s.block p orc).2.2 p.wake)) := by
    intro h1 h2 h3 h4 h5
    have hbuf := block_buf s p orc h1 h2 h3 h4 h5
    exact nt h4 h5 (by rw [hbuf]) (fun x _ => by rw [hbuf])
  cases hk : p.k with
  | monitor => exact quiet (by simp [hk, PK.tag]) (by simp [hk, PK.tag]) (by simp [hk, PK.tag]) (by simp [hk, PK.tag]) (by simp [hk, PK.tag])
  | telescope => exact quiet (by simp [hk, PK.tag]) (by simp [hk, PK.tag]) (by simp [hk, PK.tag]) (by simp [hk, PK.tag]) (by simp [hk, PK.tag])
  | clusterLoop => exact quiet (by simp [hk, PK.tag]) (by simp [hk, PK.tag]) (by simp [hk, PK.tag]) (by simp [hk, PK.tag]) (by simp [hk, PK.tag])
  | bufferLoop => exact quiet (by simp [hk, PK.tag]) (by simp [hk, PK.tag]) (by simp [hk, PK.tag]) (by simp [hk, PK.tag]) (by simp [hk, PK.tag])
  | allocIngest o tl => exact quiet (by simp [hk, PK.tag]) (by simp [hk, PK.tag]) (by simp [hk, PK.tag]) (by simp [hk, PK.tag]) (by simp [hk, PK.tag])
  | provIngest o d => exact quiet (by simp [hk, PK.tag]) (by simp [hk, PK.tag]) (by simp [hk, PK.tag]) (by simp [hk, PK.tag]) (by simp [hk, PK.tag])
  | allocTask t m preds obs ing ret => exact quiet (by simp [hk, PK.tag]) (by simp [hk, PK.tag]) (by simp [hk, PK.tag]) (by simp [hk, PK.tag]) (by simp [hk, PK.tag])
  | doWork t m preds ph tot => exact quiet (by simp [hk, PK.tag]) (by simp [hk, PK.tag]) (by simp [hk, PK.tag]) (by simp [hk, PK.tag]) (by simp [hk, PK.tag])
  | schedLoop =>
    have hb' : s.block p orc = ((s.schedLoopBlock p.wake orc).1, p.k, (s.schedLoopBlock p.wake orc).2) := by
      unfold block; simp only [hk]
    have hbq : bq (s.block p orc).1.buf = bq s.buf := by rw [hb']; exact schedLoopBlock_bq s p.wake orc
    exact nt (by simp [hk, PK.tag]) (by simp [hk, PK.tag]) (congrArg (·.2.2.2.2) hbq)
      (fun x _ => sizeOf_congr (congrArg (·.2.2.1) hbq) x)
  | ingestStream o tl =>
    have hb' : s.block p orc = s.ingestStreamBlock p.wake p.pc o tl := by
      unfold block; simp only [hk]
    have hbq := ingestStreamBlock_bq s p.wake p.pc o tl
    rw [← hb'] at hbq
    rcases hbq with ⟨e, _⟩ | ⟨ob, _, _, d0, _, _, _, d4⟩
    · exact nt (by simp [hk, PK.tag]) (by simp [hk, PK.tag]) (congrArg (·.2.2.2.2) e)
        (fun x _ => sizeOf_congr (congrArg (·.2.2.1) e) x)
    · refine nt (by simp [hk, PK.tag]) (by simp [hk, PK.tag]) d0 (fun x hx => ?_)
      have hne := mem_bufList_or_toks_ne (hb.strFree p hpm ha o tl hk) hx
      rw [d4 x, if_neg hne]
  | allocTasks o sc pa po fn =>
    have hb' : s.block p orc = s.allocTasksBlock p.wake orc p.pc o sc pa po fn := by
      unfold block; simp only [hk]
    have hcases := allocTasksBlock_bufCases s p.wake orc p.pc o sc pa po fn
    rw [← hb'] at hcases
    rcases hcases with e | e
    · exact nt (by simp [hk, PK.tag]) (by simp [hk, PK.tag]) (by rw [e]) (fun x _ => by rw [e])
    · rcases remove_full s.buf o with e' | ⟨_, _, _, _, _, _, _, _, h9, h10, _⟩
      · exact nt (by simp [hk, PK.tag]) (by simp [hk, PK.tag]) (by rw [e, e']) (fun x _ => by rw [e, e'])
      · exact nt (by simp [hk, PK.tag]) (by simp [hk, PK.tag]) (by rw [e, h9])
          (fun x _ => by rw [e]; exact sizeOf_congr h10 x)
  | hot2cold cur =>
    have hb' : s.block p orc = s.hot2coldBlock p.wake cur := by
      unfold block; simp only [hk]
    have hl : LeftOk s.buf (.hot2cold cur) := by
      have := h.left p hpm ha; rwa [hk] at this
    have hcs := hot2coldBlock_cs s p.wake cur hl
    have hacct := hot2coldBlock_acct s p.wake cur
    rw [← hb'] at hcs hacct
    rcases hcs with ⟨e, he⟩ | ⟨h1, h2⟩
    · exact absurd he (hnr e)
    · rcases hacct with ⟨e, he⟩ | hacct
      · exact absurd he (hnr e)
      · have hsize := hacct.1
        have ht := fun k => tok_transport (b := s.buf) (b' := (s.block p orc).1.buf) (k := k)
          (fun x _ => sizeOf_congr hsize x) hrate
        refine h.step hpw new hprocs hpwX hpm ha _ _ hnew (fun x _ => sizeOf_congr hsize x) hrate ?_
          (fun d hd => (ht _).2 (h2 d hd))
        have e1 : yCold (s.block p orc).1.buf (s.block p orc).2.1 (s.block p orc).2.2
            = yCold s.buf (s.block p orc).2.1 (s.block p orc).2.2 := by
          unfold yCold; split
          · exact (ht _).1
          · rfl
        rw [hk, e1]; exact h1
  | cold2hot cur =>
    have hb' : s.block p orc = s.cold2hotBlock p.wake cur := by
      unfold block; simp only [hk]
    have hl : LeftOk s.buf (.cold2hot cur) := by
      have := h.left p hpm ha; rwa [hk] at this
    have hcs := cold2hotBlock_cs s p.wake cur hl hsn
    have hacct := cold2hotBlock_acct s p.wake cur
    rw [← hb'] at hcs hacct
    rcases hcs with ⟨e, he⟩ | ⟨h1, h2⟩
    · exact absurd he (hnr e)
    · rcases hacct with ⟨e, he⟩ | hacct
      · exact absurd he (hnr e)
      · have hsize := hacct.1
        have ht := fun k => tok_transport (b := s.buf) (b' := (s.block p orc).1.buf) (k := k)
          (fun x _ => sizeOf_congr hsize x) hrate
        refine h.step hpw new hprocs hpwX hpm ha _ _ hnew (fun x _ => sizeOf_congr hsize x) hrate ?_
          (fun d hd => (ht _).2 (h2 d hd))
        have e1 : yCold (s.block p orc).1.buf (s.block p orc).2.1 (s.block p orc).2.2
            = yCold s.buf (s.block p orc).2.1 (s.block p orc).2.2 := by
          unfold yCold; split
          · exact (ht _).1
          · rfl
        rw [hk, e1]; exact h1

theorem start_ca (s0 : Sys) (hw : WFConfig s0) (hcold : s0.buf.cold.stored = [] ∧ s0.buf.cold.cur = s0.buf.cold.total) :
    CA s0.start := by
  obtain ⟨hprocs, _⟩ := hw.fresh
  have hp : s0.start.procs = s0.procs ++
      [{ pid := s0.nextPid, k := .monitor, wake := 0 }, { pid := s0.nextPid + 1, k := .telescope, wake := 0 },
       { pid := s0.nextPid + 2, k := .clusterLoop, wake := 0 }, { pid := s0.nextPid + 3, k := .schedLoop, wake := 0 },
       { pid := s0.nextPid + 4, k := .bufferLoop, wake := 0 }] := by
    simp [start, spawn]
  rw [hprocs] at hp
  simp only [List.nil_append] at hp
  have hnt : ∀ q ∈ s0.start.procs, tok q = [] := by
    intro q hq
    rw [hp] at hq
    simp only [List.mem_cons, List.not_mem_nil, or_false] at hq
    rcases hq with rfl | rfl | rfl | rfl | rfl <;> simp [tok, tokK]
  constructor
  · rw [sum_map_zero _ _ (fun q hq => (coldTok_of_tok_nil _ (hnt q hq)).1), start_buf]
    unfold cs sumSz
    rw [hcold.1, hcold.2]; simp
  · intro q hq hqa
    exact (coldTok_of_tok_nil _ (hnt q hq)).2 hqa

/-- along every run that has not crashed -/
theorem reachOk_ca (s0 s : Sys) (hw : WFConfig s0) (hbuf : bufList s0.buf = [])
    (hsz0 : s0.buf.size = [] ∧ s0.buf.hot.cur ≤ s0.buf.hot.total ∧ s0.buf.cold.cur ≤ s0.buf.cold.total)
    (hcold : s0.buf.cold.stored = [] ∧ s0.buf.cold.cur = s0.buf.cold.total)
    (hrate : ∀ o ∈ s0.obs, 0 < o.rate) (h : ReachOk s0 s) (hc : s.crashed = none) : CA s := by
  induction h with
  | start => exact start_ca s0 hw hcold
  | step s pid orc hr hen hpre ih =>
    have hc0 : s.crashed = none := by
      obtain ⟨p, hp, ha, _⟩ := hen
      exact (resume_nocrash s pid orc p hp ha hc).1
    have hsi := (reachOk_sh2 s0 s hw hbuf hsz0 hrate hr hc0).1
    exact ca_step (reach_inv s0 s hw hr) (reachOk_bufi s0 s hw hbuf hr) hsi.sn (ih hc0) hen orc hpre hc

end Sys
end Topsim
