/-
  Live15c — block-level facts for NC-A3.

  * `allocBegin` / `allocEnd` for machine `m` keep every other machine available.
  * One block of `allocate_tasks` with the queue algorithm and no batch reservation: the cluster
    is not touched, and the allocation processes it creates ask for pairwise different machines,
    each a machine of the configuration that is neither occupied nor ingesting (the `curr` /
    `is_occupied` test of `_process_current_schedule`) — hence available (`nco_avail_of_free`).
-/
import TopsimProofs.Live15a
import TopsimProofs.FinishInv9
import TopsimProofs.FinishAT2
import TopsimProofs.Preced12
import TopsimProofs.PlanFollow1

namespace Topsim

open KState Sys

namespace Cluster

theorem nco_setOcc_avail (c : Cluster) (m : Mid) (obs : Option Oid) :
    ∀ x ∈ c.available, x ≠ m → x ∈ (c.setMachineOccupied m obs).1.available := by
  intro x hx hne
  unfold setMachineOccupied
  split
  · exact (List.mem_erase_of_ne hne).mpr hx
  · split
    · exact hx
    · split
      · exact hx
      · split <;> exact hx

theorem nco_allocBegin_avail (c : Cluster) (t : Tid) (m : Mid) (obs : Option Oid) (ing : Bool) :
    ∀ x ∈ c.available, x ≠ m → x ∈ (c.allocBegin t m obs ing).1.available := by
  intro x hx hne
  have h1 := nco_setOcc_avail c m obs x hx hne
  unfold allocBegin
  simp only []
  (repeat' split) <;> first
    | exact hx
    | (rename_i heq; rw [heq] at h1; exact h1)

theorem nco_setAvail_avail (c : Cluster) (m : Mid) (obs : Option Oid) :
    ∀ x ∈ c.available, x ∈ (c.setMachineAvailable m obs).1.available := by
  intro x hx
  unfold setMachineAvailable
  split
  · simp only
    split
    · exact List.mem_append_left _ hx
    · split
      · exact hx
      · exact List.mem_append_left _ hx
  · exact hx

theorem nco_allocEnd_avail (c : Cluster) (t : Tid) (m : Mid) (obs : Option Oid) (ing : Bool) :
    ∀ x ∈ c.available, x ∈ (c.allocEnd t m obs ing).1.available := by
  intro x hx
  unfold allocEnd
  split
  · simp only
    split
    · split
      · exact List.mem_append_left _ hx
      · exact hx
    · have h1 := nco_setAvail_avail
        { c with running := c.running.erase t, uRunning := c.uRunning - 1,
                 finished := dictSet c.finished t true, uFinished := c.uFinished + 1 } m obs x hx
      generalize Cluster.setMachineAvailable _ m obs = r at h1 ⊢
      obtain ⟨c2, e2⟩ := r
      cases e2 <;> exact h1
  · exact hx

theorem nco_releaseBatch_nil (c : Cluster) (o : Oid) (h : c.idle = []) : c.releaseBatch o = c := by
  unfold releaseBatch
  rw [h]
  rfl

/-- with no batch reservation, a machine of the cluster that is neither occupied nor ingesting is
available -/
theorem nco_avail_of_free {c : Cluster} {U : List Tid} (hinv : Inv c U) (hidle : c.idle = [])
    {m : Mid} (hm : m ∈ c.machines) (hocc : c.isOccupied m = false) : m ∈ c.available := by
  have hp := hinv.part m
  have h1 : c.idleAll = [] := by unfold idleAll; rw [hidle]; rfl
  unfold isOccupied at hocc
  simp only [Bool.or_eq_false_iff, decide_eq_false_iff_not] at hocc
  rw [h1, List.count_eq_zero_of_not_mem hocc.1, List.count_eq_zero_of_not_mem hocc.2] at hp
  have h2 : 0 < c.machines.count m := List.count_pos_iff.mpr hm
  have h3 : 0 < c.available.count m := by simp at hp; omega
  exact List.count_pos_iff.mp h3

end Cluster

/-- the machine an allocation process asks for -/
def PK.ncoMach : PK → Option Mid
  | .allocTask _ m _ _ _ _ => some m
  | _ => none

namespace Sys

open Cluster

theorem nco_allocTaskBlock_avail (s : Sys) (now : Time) (t : Tid) (m : Mid) (preds : List Tid)
    (obs : Option Oid) (ing : Bool) (ret : Nat) :
    ∀ x ∈ s.cl.available, x ≠ m → x ∈ (s.allocTaskBlock now t m preds obs ing ret).1.cl.available := by
  intro x hx hne
  rcases allocTaskBlock_cl s now t m preds obs ing ret with he | he | he | he <;> rw [he]
  · exact hx
  · exact nco_allocBegin_avail _ _ _ _ _ x hx hne
  · exact nco_allocEnd_avail _ _ _ _ _ x (nco_allocBegin_avail _ _ _ _ _ x hx hne)
  · exact nco_allocEnd_avail _ _ _ _ _ x hx

/-! ### `_process_current_schedule` -/

/-- what the loop has done so far: the cluster and the machine list untouched, the new processes
are allocation processes for the machines in `curr`, pairwise different, each a machine of the
configuration that the cluster does not hold occupied or ingesting -/
structure PcsOk (C : Cluster) (Ms : List Machine) (P : List Proc) (oid : Oid) (st : PcsSt) : Prop where
  cl : st.s.cl = C
  ms : st.s.machines = Ms
  new : ∃ new, st.s.procs = P ++ new ∧ new.map (fun q => q.k.ncoMach) = st.curr.map some ∧
    ∀ q ∈ new, ∃ t m cross, q.k = .allocTask t m cross (some oid) false 0
  nodup : st.curr.Nodup
  good : ∀ m ∈ st.curr, C.isOccupied m = false ∧ ∃ mm ∈ Ms, mm.id = m

theorem PcsOk.processOne {C : Cluster} {Ms : List Machine} {P : List Proc} {oid : Oid} {st : PcsSt}
    (h : PcsOk C Ms P oid st) (now : Time) (t : Tid) : PcsOk C Ms P oid (processOne now oid st t) := by
  unfold Sys.processOne
  cases hok : st.err with
  | some e => exact h
  | none =>
    simp only
    cases hm : dictGet st.schedule t with
    | none => exact ⟨h.cl, h.ms, h.new, h.nodup, h.good⟩
    | some m =>
      cases hr : st.s.task? t with
      | none => exact ⟨h.cl, h.ms, h.new, h.nodup, h.good⟩
      | some r =>
        simp only []
        cases hmm : st.s.machine? m with
        | none => exact ⟨h.cl, h.ms, h.new, h.nodup, h.good⟩
        | some mm =>
          simp only []
          by_cases hz : ((r.allocObj || r.planned != some m) = true ∧ (mm.cpu = 0 ∨ mm.bw = 0))
          · rw [if_pos hz]; exact ⟨h.cl, h.ms, h.new, h.nodup, h.good⟩
          · simp only [hz, if_false]
            generalize hs1 : (if (r.allocObj || r.planned != some m) = true then
              st.s.updTask t (fun r => updateAllocation r mm) else st.s) = s1
            have h1 : s1.cl = st.s.cl ∧ s1.machines = st.s.machines ∧ s1.procs = st.s.procs := by
              subst hs1; split <;> exact ⟨rfl, rfl, rfl⟩
            have hold : ∀ (sch pr : List (Tid × Mid)) (er : Option Err),
                PcsOk C Ms P oid { s := s1, schedule := sch, pairs := pr, curr := st.curr, err := er } :=
              fun _ _ _ => ⟨h1.1.trans h.cl, h1.2.1.trans h.ms, (by
                obtain ⟨new, e1, e2, e3⟩ := h.new
                exact ⟨new, h1.2.2.trans e1, e2, e3⟩), h.nodup, h.good⟩
            by_cases hocc : (st.curr.contains m = true ∨ s1.cl.isOccupied m = true)
            · simp only [hocc, if_true]; exact hold _ _ _
            · simp only [hocc, if_false]
              by_cases hmiss : (r.preds.any fun p => !dictHas (dictSet st.pairs t m) p) = true
              · simp only [hmiss, if_true]
                exact hold _ _ _
              · simp only [hmiss, Bool.false_eq_true, if_false]
                by_cases hst : r.status ≠ TStatus.unscheduled
                · rw [if_pos hst]
                  exact hold _ _ _
                · rw [if_neg hst]
                  -- the allocation process is created
                  have hnc : m ∉ st.curr := by
                    intro hin; apply hocc; left
                    simpa using hin
                  have hno : C.isOccupied m = false := by
                    cases hb : C.isOccupied m with
                    | false => rfl
                    | true => exact absurd (Or.inr (by rw [h1.1, h.cl]; exact hb)) hocc
                  have hmem : ∃ mm ∈ Ms, mm.id = m := by
                    unfold machine? at hmm
                    rw [h.ms] at hmm
                    exact ⟨mm, List.mem_of_find?_eq_some hmm, by simpa using List.find?_some hmm⟩
                  obtain ⟨new, e1, e2, e3⟩ := h.new
                  refine ⟨h1.1.trans h.cl, h1.2.1.trans h.ms, ?_, ?_, ?_⟩
                  · refine ⟨new ++ [{ pid := s1.nextPid, k := .allocTask t m (crossPreds (dictSet st.pairs t m) r.preds m) (some oid) false 0, wake := now }], ?_, ?_, ?_⟩
                    · show s1.procs ++ _ = _
                      rw [h1.2.2, e1, List.append_assoc]
                    · show _ = (st.curr ++ [m]).map some
                      rw [List.map_append, List.map_append, e2]; rfl
                    · intro q hq
                      rcases List.mem_append.mp hq with hq | hq
                      · exact e3 q hq
                      · simp only [List.mem_singleton] at hq
                        subst hq
                        exact ⟨t, m, _, rfl⟩
                  · show (st.curr ++ [m]).Nodup
                    rw [List.nodup_append]
                    refine ⟨h.nodup, by simp, ?_⟩
                    intro a ha b hb hab
                    simp only [List.mem_singleton] at hb
                    subst hb; subst hab
                    exact hnc ha
                  · intro m' hm'
                    have hm'' : m' ∈ st.curr ++ [m] := hm'
                    rcases List.mem_append.mp hm'' with hm'' | hm''
                    · exact h.good m' hm''
                    · simp only [List.mem_singleton] at hm''
                      subst hm''
                      exact ⟨hno, hmem⟩

theorem PcsOk.fold {C : Cluster} {Ms : List Machine} {P : List Proc} {oid : Oid} (now : Time)
    (l : List Tid) (st : PcsSt) (h : PcsOk C Ms P oid st) :
    PcsOk C Ms P oid (l.foldl (Sys.processOne now oid) st) := by
  induction l generalizing st with
  | nil => exact h
  | cons x r ih => exact ih _ (h.processOne now x)

/-- the new allocation processes of `_process_current_schedule` -/
theorem nco_pcs (s : Sys) (now : Time) (oid : Oid) (schedule pairs : List (Tid × Mid)) :
    (processCurrentSchedule s now oid schedule pairs).s.cl = s.cl ∧
    ∃ new, (processCurrentSchedule s now oid schedule pairs).s.procs = s.procs ++ new ∧
      (new.map (fun q => q.k.ncoMach)).Nodup ∧
      ∀ q ∈ new, ∃ t m cross, q.k = .allocTask t m cross (some oid) false 0 ∧
        s.cl.isOccupied m = false ∧ ∃ mm ∈ s.machines, mm.id = m := by
  unfold processCurrentSchedule
  simp only
  generalize ((dictKeys schedule).mergeSort _) = l
  have h0 : PcsOk s.cl s.machines s.procs oid { s := s, schedule := schedule, pairs := pairs, curr := [] } :=
    ⟨rfl, rfl, ⟨[], by simp, rfl, by simp⟩, List.nodup_nil, by simp⟩
  have hf := PcsOk.fold now l _ h0
  obtain ⟨new, e1, e2, e3⟩ := hf.new
  refine ⟨hf.cl, new, e1, ?_, ?_⟩
  · rw [e2]
    exact nodup_map_of_inj some (fun a b hab => by cases hab; rfl) hf.nodup
  · intro q hq
    obtain ⟨t, m, cross, hk⟩ := e3 q hq
    have hmc : m ∈ (l.foldl (Sys.processOne now oid)
        { s := s, schedule := schedule, pairs := pairs, curr := [] }).curr := by
      have : q.k.ncoMach ∈ new.map (fun q => q.k.ncoMach) := List.mem_map_of_mem (f := fun q => q.k.ncoMach) hq
      rw [e2, hk] at this
      simpa [PK.ncoMach] using this
    exact ⟨t, m, cross, hk, hf.good m hmc⟩

/-! ### one block of `allocate_tasks`, queue algorithm -/

theorem nco_queue_out (s1 : Sys) (orc : Oracle) (plan : Plan) (sc : List (Tid × Mid)) (po : List Tid)
    (out : AlgOut) (halg : s1.alg = .queue) (hidle : s1.cl.idle = [])
    (h : s1.runAlgorithm orc plan sc po = .ok out) : out.cl = s1.cl := by
  unfold runAlgorithm at h
  rw [halg] at h
  simp only [Alg.queueRun, Except.ok.injEq] at h
  rw [← h]
  simp only
  split
  · exact nco_releaseBatch_nil _ _ hidle
  · rfl

theorem nco_allocTasksBlock (s : Sys) (now : Time) (orc : Oracle) (pc : Nat) (oid : Oid)
    (sc pa : List (Tid × Mid)) (po : List Tid) (fin : Bool) (halg : s.alg = .queue)
    (hidle : s.cl.idle = []) :
    (s.allocTasksBlock now orc pc oid sc pa po fin).1.cl = s.cl ∧
    ∃ new, (s.allocTasksBlock now orc pc oid sc pa po fin).1.procs = s.procs ++ new ∧
      (new.map (fun q => q.k.ncoMach)).Nodup ∧
      ∀ q ∈ new, ∃ t m cross, q.k = .allocTask t m cross (some oid) false 0 ∧
        s.cl.isOccupied m = false ∧ ∃ mm ∈ s.machines, mm.id = m := by
  cases fin with
  | true =>
    rw [allocTasksBlock_fin]
    exact ⟨rfl, [], by simp, by simp, by simp⟩
  | false =>
    rw [allocTasksBlock_eq]
    have a1 := atStart_cl s now pc oid
    have a2 := atStart_procs s now pc oid
    have a3 := atStart_machs s now pc oid
    have a4 := atStart_alg s now pc oid
    generalize atStart s now pc oid = a at a1 a2 a3 a4
    have c := updateCurrentPlan_core a oid
    have b1 : (a.updateCurrentPlan oid).cl = s.cl := c.cl.trans a1
    have b2 : (a.updateCurrentPlan oid).procs = s.procs := c.procs.trans a2
    have b3 : (a.updateCurrentPlan oid).machines = s.machines := (updateCurrentPlan_machs a oid).trans a3
    have b4 : (a.updateCurrentPlan oid).alg = .queue := by rw [updateCurrentPlan_alg, a4]; exact halg
    have hout := allocTasksIter_out a now orc oid sc pa po
    have hid1 : (a.updateCurrentPlan oid).cl.idle = [] := by rw [b1]; exact hidle
    have hq : ∀ plan out, (a.updateCurrentPlan oid).runAlgorithm orc plan sc po = .ok out → out.cl = s.cl :=
      fun plan out h => (nco_queue_out _ orc plan sc po out b4 hid1 h).trans b1
    have hnone : ∀ X : Sys, X.cl = s.cl → X.procs = s.procs →
        X.cl = s.cl ∧ ∃ new, X.procs = s.procs ++ new ∧ (new.map (fun q => q.k.ncoMach)).Nodup ∧
          ∀ q ∈ new, ∃ t m cross, q.k = .allocTask t m cross (some oid) false 0 ∧
            s.cl.isOccupied m = false ∧ ∃ mm ∈ s.machines, mm.id = m :=
      fun X h1 h2 => ⟨h1, [], by simp [h2], by simp, by simp⟩
    generalize a.allocTasksIter now orc oid sc pa po = r at hout ⊢
    cases hout with
    | noPlan _ => exact hnone _ b1 b2
    | algErr plan e _ _ => exact hnone _ b1 b2
    | finish plan out _ hrun _ _ _ _ =>
      apply hnone
      · show Cluster.releaseBatch (atS3 (a.updateCurrentPlan oid) out oid).cl oid = s.cl
        rw [atS3_cl, hq plan out hrun]
        exact nco_releaseBatch_nil _ _ hidle
      · show (atS3 (a.updateCurrentPlan oid) out oid).procs = s.procs
        rw [atS3_procs]; exact b2
    | finishBad plan out _ hrun _ _ _ _ =>
      apply hnone
      · show Cluster.releaseBatch (atS3 (a.updateCurrentPlan oid) out oid).cl oid = s.cl
        rw [atS3_cl, hq plan out hrun]
        exact nco_releaseBatch_nil _ _ hidle
      · show (atS3 (a.updateCurrentPlan oid) out oid).procs = s.procs
        rw [atS3_procs]; exact b2
    | finishWait plan out _ hrun _ _ _ =>
      apply hnone
      · show (atS3 (a.updateCurrentPlan oid) out oid).cl = s.cl
        rw [atS3_cl]; exact hq plan out hrun
      · show (atS3 (a.updateCurrentPlan oid) out oid).procs = s.procs
        rw [atS3_procs]; exact b2
    | idle plan out _ hrun _ _ =>
      apply hnone
      · rw [atS3_cl]; exact hq plan out hrun
      · rw [atS3_procs]; exact b2
    | alloc plan out y _ hrun _ _ =>
      obtain ⟨h1, new, h2, h3, h4⟩ := nco_pcs (atS3 (a.updateCurrentPlan oid) out oid) now oid out.schedule pa
      have hcl3 : (atS3 (a.updateCurrentPlan oid) out oid).cl = s.cl := by rw [atS3_cl]; exact hq plan out hrun
      refine ⟨h1.trans hcl3, new, by rw [h2, atS3_procs, b2], h3, ?_⟩
      intro q hq'
      obtain ⟨t, m, cross, hk, ho, hmm⟩ := h4 q hq'
      rw [hcl3] at ho
      rw [atS3_machs, b3] at hmm
      exact ⟨t, m, cross, hk, ho, hmm⟩

end Sys
end Topsim
