/-
  FinishInv5 — `FI` under the blocks of the allocation process and of the
  ingest provisioner.
-/
import TopsimProofs.FinishInv4

namespace Topsim
namespace Sys

open Cluster

theorem allocBegin_finished_true (c : Cluster) (t : Tid) (m : Mid) (obs : Option Oid) (ing : Bool)
    (x : Tid) (h : dictGet (c.allocBegin t m obs ing).1.finished x = some true) :
    dictGet c.finished x = some true := by
  unfold allocBegin at h
  by_cases ht : t ∈ c.running
  · simpa [ht] using h
  · simp only [ht, if_false] at h
    cases ing with
    | true =>
      simp only [if_true] at h
      split at h
      · exact h
      · simp only at h
        rw [dictGet_dictSet] at h
        split at h
        · simp at h
        · exact h
    | false =>
      simp only [Bool.false_eq_true, if_false] at h
      split at h
      · exact h
      · have hf := (setMachineOccupied_fields c m obs).2.2.2
        generalize c.setMachineOccupied m obs = r at h hf
        obtain ⟨c1, e1⟩ := r
        cases e1 <;> (simp only at h hf; rw [← hf]; exact h)

theorem moveToIngest_finished (c : Cluster) (obs : Oid) (pairs : List (Mid × Tid)) :
    (moveToIngest c obs pairs).1.finished = c.finished := by
  induction pairs generalizing c with
  | nil => rfl
  | cons p rest ih =>
    obtain ⟨m, t⟩ := p
    unfold moveToIngest
    simp only
    split
    · exact ih _
    · rfl

theorem provisionIngest_finished (c : Cluster) (d : Nat) (o : Oid) :
    (c.provisionIngest d o).1.finished = c.finished := by
  unfold provisionIngest
  split
  · rfl
  · simp only
    exact moveToIngest_finished _ _ _

theorem sameClass_at {t m preds obs ing ret ret'} :
    SameClass (.allocTask t m preds obs ing ret) (.allocTask t m preds obs ing ret') :=
  ⟨fun _ _ _ _ _ e => by simp at e,
   fun _ _ _ _ _ _ e => by injection e with e1 e2 e3 e4 e5; subst e1 e2 e3 e4 e5; exact ⟨_, rfl⟩,
   fun _ _ e => by simp at e, fun _ _ e => by simp at e⟩

theorem fi_allocTask {s : Sys} (hs : SInv s) (h : FI s) {p : Proc} (hp : p ∈ s.procs)
    (ha : p.alive = true) {t m preds obs ing ret} (hk : p.k = .allocTask t m preds obs ing ret)
    (hnr : ∀ e, (s.allocTaskBlock p.wake t m preds obs ing ret).2.2 ≠ .raised e) :
    FI ((s.allocTaskBlock p.wake t m preds obs ing ret).1.updProc p.pid
      (fin (s.allocTaskBlock p.wake t m preds obs ing ret).2.1
        (s.allocTaskBlock p.wake t m preds obs ing ret).2.2 p.wake)) := by
  have hpw := hs.pw
  have hokp := h.ok p hp
  obtain ⟨U, hU⟩ := hs.ci
  rcases allocTaskBlock_cases s hpw p.wake t m preds obs ing ret with
    ⟨_, e, _, heq⟩ | ⟨hnrun, hok, heq⟩ | ⟨hr, htr, heq⟩ | ⟨_, _, e, _, heq⟩ | ⟨hr, htr, hok, heq⟩
  · rw [heq] at hnr; exact absurd rfl (hnr e)
  · -- first block
    rw [heq]
    simp only
    have hpwT : PW (({ s with cl := (s.cl.allocBegin t m obs ing).1 }).updTask t
        (fun r => { r with status := .scheduled })) := ⟨hpw.nodup, hpw.lt⟩
    have hm := memSpec_updProc hpw hp [{ pid := s.nextPid, k := .doWork t m preds 0 0, wake := p.wake }]
      (s1 := ((({ s with cl := (s.cl.allocBegin t m obs ing).1 }).updTask t
        (fun r => { r with status := .scheduled })).spawn (.doWork t m preds 0 0) p.wake).1) rfl
      (hpwT.spawn _ _) (fin (.allocTask t m preds obs ing s.nextPid) (.timeout 1) p.wake)
    refine h.step_obs hpw hp hm (by simp) (by simp) (by rw [hk]; simp only [fin_k]; exact sameClass_at)
      (fun _ h => h) rfl rfl ?_ ?_ (by simp [PK.isAI])
      (fun x hx => Or.inl (allocBegin_finished_true s.cl t m obs ing x hx))
    · intro _
      constructor
      · intro hd; simp [ha] at hd
      · intro t1 m1 preds1 ph1 tot1 e; simp at e
      · intro t1 m1 preds1 obs1 ing1 ret1 e _
        simp only [fin_k, PK.allocTask.injEq] at e
        obtain ⟨rfl, _, _, _, _, rfl⟩ := e
        exact ⟨_, (hm _).mpr (Or.inr (Or.inr (List.mem_singleton.mpr rfl))), rfl, _, _, _, _, rfl⟩
      · intro t1 m1 preds1 obs1 ing1 ret1 _ hd; simp [ha] at hd
      all_goals (intros; simp_all)
    · intro _ q hq
      simp only [List.mem_singleton] at hq
      subst hq
      constructor
      · intro hd; simp at hd
      · intro t1 m1 preds1 ph1 tot1 e hx
        simp only [PK.doWork.injEq] at e
        obtain ⟨_, _, _, rfl, _⟩ := e
        simp at hx
      all_goals (intros; simp_all)
  · -- polling
    rw [heq]
    simp only
    have hpc := hU.pc_pos hp ha hk hr
    have hm := memSpec_updProc hpw hp [] (s1 := s) (by simp) hpw
      (fin (.allocTask t m preds obs ing ret) (.timeout 1) p.wake)
    refine h.step_obs hpw hp hm (by simp) (by simp) (by rw [hk]; simp only [fin_k]; exact sameClass_at)
      (fun _ h => h) rfl rfl ?_ (by simp) (by simp) (fun x hx => Or.inl hx)
    intro hkeep
    constructor
    · intro hd; simp [ha] at hd
    · intro t1 m1 preds1 ph1 tot1 e; simp at e
    · intro t1 m1 preds1 obs1 ing1 ret1 e _
      simp only [fin_k, PK.allocTask.injEq] at e
      obtain ⟨rfl, rfl, rfl, rfl, rfl, rfl⟩ := e
      obtain ⟨d, hd, hdp, m', preds', ph, tot, hdk⟩ := hokp.atRet _ _ _ _ _ _ hk hpc
      obtain ⟨d', hd', hdp', ph', tot', hdk'⟩ := hkeep.dw d hd _ _ _ _ _ hdk
      exact ⟨d', hd', hdp'.trans hdp, _, _, _, _, hdk'⟩
    · intro t1 m1 preds1 obs1 ing1 ret1 _ hd; simp [ha] at hd
    all_goals (intros; simp_all)
  · rw [heq] at hnr; exact absurd rfl (hnr e)
  · -- completion
    rw [heq]
    simp only
    have hpc := hU.pc_pos hp ha hk hr
    have hpwT : PW (({ s with cl := (s.cl.allocEnd t m obs ing).1 }).updTask t
        (fun r => { r with status := .finished })) := ⟨hpw.nodup, hpw.lt⟩
    have hm := memSpec_updProc hpw hp [] (s1 := (({ s with cl := (s.cl.allocEnd t m obs ing).1 }).updTask t
        (fun r => { r with status := .finished }))) (by simp) hpwT
      (fin (.allocTask t m preds obs ing ret) .done p.wake)
    -- the body of the task has ended, hence has been started
    have hts : t ∈ s.starts := by
      obtain ⟨d, hd, hdp, m', preds', ph, tot, hdk⟩ := hokp.atRet _ _ _ _ _ _ hk hpc
      have hdead : d.alive = false := by
        unfold procTriggered at htr
        rw [← hdp, hpw.proc?_of_mem hd] at htr
        simpa using htr
      exact (h.ok d hd).dwStarted _ _ _ _ _ hdk (Or.inl hdead)
    refine h.step_obs hpw hp hm (by simp) (by simp) (by rw [hk]; simp only [fin_k]; exact sameClass_at)
      (fun _ h => h) rfl rfl ?_ (by simp) (by simp) ?_
    rotate_left
    · intro x hx
      have hx' : dictGet (s.cl.allocEnd t m obs ing).1.finished x = some true := hx
      rw [(allocEnd_fields s.cl t m obs ing hok).2.2.2, dictGet_dictSet] at hx'
      by_cases e : t = x
      · subst e; exact Or.inr hts
      · rw [if_neg e] at hx'; exact Or.inl hx'
    intro hkeep
    constructor
    · intro _; simp
    · intro t1 m1 preds1 ph1 tot1 e; simp at e
    · intro t1 m1 preds1 obs1 ing1 ret1 e _
      simp only [fin_k, PK.allocTask.injEq] at e
      obtain ⟨rfl, rfl, rfl, rfl, rfl, rfl⟩ := e
      obtain ⟨d, hd, hdp, m', preds', ph, tot, hdk⟩ := hokp.atRet _ _ _ _ _ _ hk hpc
      obtain ⟨d', hd', hdp', ph', tot', hdk'⟩ := hkeep.dw d hd _ _ _ _ _ hdk
      exact ⟨d', hd', hdp'.trans hdp, _, _, _, _, hdk'⟩
    · intro t1 m1 preds1 obs1 ing1 ret1 e _
      simp only [fin_k, PK.allocTask.injEq] at e
      obtain ⟨rfl, _⟩ := e
      exact hts
    all_goals (intros; simp_all)

/-! ### the ingest provisioner -/

theorem foldSpawn_spec2 {α} (K : α → PK) (now : Time) (l : List α) (s1 : Sys) :
    ∃ new, (l.foldl (fun s p => (s.spawn (K p) now).1) s1).procs = s1.procs ++ new ∧
      (∀ q ∈ new, q.alive = true ∧ q.pc = 0 ∧ ∃ x ∈ l, q.k = K x) ∧
      (∀ x ∈ l, ∃ q ∈ new, q.k = K x) := by
  induction l generalizing s1 with
  | nil => exact ⟨[], by simp, by simp, by simp⟩
  | cons x r ih =>
    simp only [List.foldl_cons]
    obtain ⟨new, h1, h2, h3⟩ := ih (s1.spawn (K x) now).1
    refine ⟨{ pid := s1.nextPid, k := K x, wake := now } :: new, ?_, ?_, ?_⟩
    · rw [h1]; simp
    · intro q hq
      rcases List.mem_cons.mp hq with rfl | hq
      · exact ⟨rfl, rfl, x, by simp, rfl⟩
      · obtain ⟨g1, g2, y, hy, hk⟩ := h2 q hq
        exact ⟨g1, g2, y, List.mem_cons_of_mem _ hy, hk⟩
    · intro y hy
      rcases List.mem_cons.mp hy with rfl | hy
      · exact ⟨_, List.mem_cons_self, rfl⟩
      · obtain ⟨q, hq, hk⟩ := h3 y hy
        exact ⟨q, List.mem_cons_of_mem _ hq, hk⟩

/-- a successful `provision_ingest_resources(d, o)` makes the tasks `o_ingest_t0 … t(d-1)` -/
theorem provisionIngest_tasks (c : Cluster) (d : Nat) (o : Oid)
    (hok : (c.provisionIngest d o).2.1 = none) :
    ∀ i, i < d → ∃ x ∈ (c.provisionIngest d o).2.2, x.2 = Tid.ingest o i := by
  unfold provisionIngest at hok ⊢
  by_cases hd : d > c.available.length
  · simp [hd] at hok
  · simp only [hd, if_false]
    intro i hi
    have hlen : i < (c.available.take d).length := by
      rw [List.length_take]; omega
    refine ⟨((c.available.take d)[i], Tid.ingest o i), ?_, rfl⟩
    refine List.mem_map.mpr ⟨((c.available.take d)[i], i), ?_, rfl⟩
    rw [List.mem_zipIdx_iff_getElem?]
    exact List.getElem?_eq_getElem hlen

theorem sameClass_pi {o d} : SameClass (.provIngest o d) (.provIngest o d) := SameClass.refl _

theorem fi_provIngest {s : Sys} (hs : SInv s) (h : FI s) {p : Proc} (hp : p ∈ s.procs)
    (_ha : p.alive = true) {o d} (hk : p.k = .provIngest o d)
    (hnr : ∀ e, (s.provIngestBlock p.wake p.pc o d).2.2 ≠ .raised e) :
    FI ((s.provIngestBlock p.wake p.pc o d).1.updProc p.pid
      (fin (s.provIngestBlock p.wake p.pc o d).2.1 (s.provIngestBlock p.wake p.pc o d).2.2 p.wake)) := by
  have hpw := hs.pw
  have hokp := h.ok p hp
  revert hnr
  unfold provIngestBlock
  by_cases hpc : p.pc = 0
  · simp only [hpc, if_true]
    have htasks := provisionIngest_tasks s.cl d o
    have hpfin := provisionIngest_finished s.cl d o
    generalize hr : s.cl.provisionIngest d o = r at htasks hpfin
    obtain ⟨cl1, e1, pairs⟩ := r
    cases e1 with
    | some e => intro hnr; exact absurd rfl (hnr e)
    | none =>
      intro _
      simp only at htasks ⊢
      have htasks := htasks trivial
      generalize hs1 : ({ s with cl := cl1, tasks := s.tasks ++ List.map (fun x : Mid × Tid => ({ id := x.2, duration := (match s.obs? o with | some o => o.duration | none => 0), status := TStatus.scheduled } : TaskRec)) pairs } : Sys) = s1
      have hs1procs : s1.procs = s.procs := by subst hs1; rfl
      have hs1np : s1.nextPid = s.nextPid := by subst hs1; rfl
      have hpw1 : PW s1 := ⟨by rw [hs1procs]; exact hpw.nodup, by rw [hs1procs, hs1np]; exact hpw.lt⟩
      obtain ⟨new, g1, g2, g3⟩ := foldSpawn_spec2
        (fun x : Mid × Tid => PK.allocTask x.2 x.1 [] (some o) true 0) p.wake pairs s1
      obtain ⟨_, gpw, gcl, _, gobs, gstarts, _, gadm⟩ := foldSpawn_spec
        (fun x : Mid × Tid => PK.allocTask x.2 x.1 [] (some o) true 0) p.wake pairs s1
      have hpw2 := gpw hpw1
      have hm := memSpec_updProc hpw hp new (by rw [g1, hs1procs]) hpw2
        (fin (.provIngest o d) (.timeout 1) p.wake)
      refine h.step_obs hpw hp hm (by simp) (by simp) (by rw [hk]; simp only [fin_k]; exact sameClass_pi)
        (by rw [updProc_starts, gstarts]; subst hs1; exact fun _ h => h)
        (by rw [updProc_admitted, gadm]; subst hs1; rfl) (by rw [updProc_obs, gobs]; subst hs1; rfl)
        ?_ ?_ ?_ (fun x hx => Or.inl (by
          rw [updProc_cl, gcl] at hx
          subst hs1
          simp only at hpfin
          rw [← hpfin]; exact hx))
      · intro _
        constructor
        · intro hd; simp [_ha] at hd
        · intro t1 m1 preds1 ph1 tot1 e; simp at e
        · intro t1 m1 preds1 obs1 ing1 ret1 e; simp at e
        · intro t1 m1 preds1 obs1 ing1 ret1 e; simp at e
        · intro o1 d1 e _ i hi
          simp only [fin_k, PK.provIngest.injEq] at e
          obtain ⟨rfl, rfl⟩ := e
          obtain ⟨x, hx, hxt⟩ := htasks i hi
          obtain ⟨q, hq, hqk⟩ := g3 x hx
          exact ⟨q, (hm q).mpr (Or.inr (Or.inr hq)), x.1, [], some o, true, 0, by rw [hqk, hxt]⟩
        · intro o1 d1 _ hc; simp at hc
        all_goals (intros; simp_all)
      · intro _ q hq
        obtain ⟨q1, q2, x, _, hqk⟩ := g2 q hq
        exact Ok.of_fresh q1 q2 (by rw [hqk]; rfl) (by rw [hqk]; rfl) (by rw [hqk]; rfl)
      · intro q hq
        obtain ⟨_, _, x, _, hqk⟩ := g2 q hq
        rw [hqk]; rfl
  · simp only [hpc, if_false]
    intro _
    have hm := memSpec_updProc hpw hp [] (s1 := s) (by simp) hpw (fin (.provIngest o d) .done p.wake)
    refine h.step_obs hpw hp hm (by simp) (by simp) (by rw [hk]; simp only [fin_k]; exact sameClass_pi)
      (fun _ h => h) rfl rfl ?_ (by simp) (by simp) (fun x hx => Or.inl hx)
    intro hkeep
    constructor
    · intro _; simp
    · intro t1 m1 preds1 ph1 tot1 e; simp at e
    · intro t1 m1 preds1 obs1 ing1 ret1 e; simp at e
    · intro t1 m1 preds1 obs1 ing1 ret1 e; simp at e
    · intro o1 d1 e _ i hi
      simp only [fin_k, PK.provIngest.injEq] at e
      obtain ⟨rfl, rfl⟩ := e
      obtain ⟨a, ha', m1, preds1, obs1, ing1, ret1, hak⟩ := hokp.provAll _ _ hk (by omega) i hi
      obtain ⟨a', ha'', ret', hak'⟩ := hkeep.atk a ha' _ _ _ _ _ _ hak
      exact ⟨a', ha'', _, _, _, _, _, hak'⟩
    · intro o1 d1 _ hc; simp at hc
    all_goals (intros; simp_all)

end Sys
end Topsim
