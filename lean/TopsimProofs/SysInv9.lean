/-
  SysInv9 — the task-body group `DG` under the blocks of the allocation
  process and of `do_work`; the two step theorems.
-/
import TopsimProofs.SysInv8

namespace Topsim
namespace Sys

open Cluster

theorem DG.replaceAT {s : Sys} (h : DG s) (hpw : PW s) {p : Proc} (hp : p ∈ s.procs)
    {t : Tid} {m : Mid} {preds : List Tid} {obs : Option Oid} {ing : Bool} {ret : Nat}
    (hk : p.k = .allocTask t m preds obs ing ret) (g : Proc → Proc) (hgp : (g p).pid = p.pid)
    (ret' : Nat) (hgk : (g p).k = .allocTask t m preds obs ing ret') (cl' : Cluster)
    (hused : ∀ x, x ∈ s.cl.running ∨ x ∈ dictKeys s.cl.finished →
      x ∈ cl'.running ∨ x ∈ dictKeys cl'.finished)
    (hwit : 1 ≤ p.pc → p.alive = true →
      (∃ d ∈ s.procs, d.alive = true ∧ d.pid = ret ∧ d.k.isDW = true) →
      (g p).alive = true ∧ 1 ≤ (g p).pc ∧ ret' = ret) :
    DG ({ s with cl := cl' }.updProc p.pid g) := by
  have hpw' : PW { s with cl := cl' } := ⟨hpw.nodup, hpw.lt⟩
  have hmem := fun q => mem_updProc_iff hpw' (p := p) hp g q
  have hdw : ∀ q, q.k.isDW = true → (q ∈ ({ s with cl := cl' }.updProc p.pid g).procs ↔ q ∈ s.procs) :=
    mem_updProc_irrel hpw' hp rfl (fun k => k.isDW = true) (by rw [hk]; simp [PK.isDW])
      (by rw [hgk]; simp [PK.isDW])
  have hdw1 : ∀ {q : Proc} {t m preds ph tot}, q ∈ ({ s with cl := cl' }.updProc p.pid g).procs →
      q.k = .doWork t m preds ph tot → q ∈ s.procs := fun hq hk => (hdw _ (by rw [hk]; rfl)).mp hq
  have hdw2 : ∀ {q : Proc} {t m preds ph tot}, q ∈ s.procs → q.k = .doWork t m preds ph tot →
      q ∈ ({ s with cl := cl' }.updProc p.pid g).procs := fun hq hk => (hdw _ (by rw [hk]; rfl)).mpr hq
  constructor
  · intro q1 hq1 q2 hq2 t1 m1 preds1 ph1 tot1 m2 preds2 ph2 tot2 hk1 hk2
    exact h.dwUniq q1 (hdw1 hq1 hk1) q2 (hdw1 hq2 hk2) _ _ _ _ _ _ _ _ _ hk1 hk2
  · intro q hq t1 m1 preds1 ph1 tot1 hk1
    exact hused t1 (h.dwUsed q (hdw1 hq hk1) _ _ _ _ _ hk1)
  · intro d hd hda t1 m1 preds1 ph1 tot1 hk1
    have hd0 := hdw1 hd hk1
    obtain ⟨a, ha, haa, hapc, preds', obs', ing', hak⟩ := h.dwAlloc d hd0 hda _ _ _ _ _ hk1
    by_cases e : a.pid = p.pid
    · have : a = p := hpw.eq_of_pid ha hp e
      subst this
      rw [hk] at hak
      injection hak with e1 e2 e3 e4 e5 e6
      subst e1 e2 e3 e4 e5
      obtain ⟨w1, w2, w3⟩ := hwit hapc haa ⟨d, hd0, hda, e6.symm, by rw [hk1]; rfl⟩
      refine ⟨g a, (hmem _).mpr (Or.inl rfl), w1, w2, preds, obs, ing, ?_⟩
      rw [hgk, w3, e6]
    · exact ⟨a, (hmem _).mpr (Or.inr ⟨ha, e⟩), haa, hapc, preds', obs', ing', hak⟩
  · exact h.startsNodup
  · intro x hx
    obtain ⟨q, hq, m1, preds1, ph1, tot1, hk1, hph⟩ := h.startsDw x hx
    exact ⟨q, hdw2 hq hk1, m1, preds1, ph1, tot1, hk1, hph⟩
  · exact h.actNodup
  · intro mt hmt
    obtain ⟨q, hq, hqa, preds1, tot1, hk1⟩ := h.actDw mt hmt
    exact ⟨q, hdw2 hq hk1, hqa, preds1, tot1, hk1⟩

theorem DG.addDW {s s1 : Sys} (h : DG s) (hr : s1.cl.running = s.cl.running)
    (hf : s1.cl.finished = s.cl.finished) (hs : s1.starts = s.starts) (ha : s1.active = s.active)
    (n : Proc) (hp : s1.procs = s.procs ++ [n]) {t : Tid} {m : Mid} {preds : List Tid}
    (hnk : n.k = .doWork t m preds 0 0)
    (hno : ∀ q ∈ s.procs, ∀ m' preds' ph tot, q.k ≠ .doWork t m' preds' ph tot)
    (hrun : t ∈ s.cl.running ∨ t ∈ dictKeys s.cl.finished)
    (hwit : ∃ a ∈ s.procs, a.alive = true ∧ 1 ≤ a.pc ∧
      ∃ preds' obs ing, a.k = .allocTask t m preds' obs ing n.pid) : DG s1 := by
  have hm : ∀ q, q ∈ s1.procs ↔ q ∈ s.procs ∨ q = n := by
    intro q; rw [hp]; simp
  constructor
  · intro q1 hq1 q2 hq2 t1 m1 preds1 ph1 tot1 m2 preds2 ph2 tot2 hk1 hk2
    rcases (hm q1).mp hq1 with hq1 | rfl <;> rcases (hm q2).mp hq2 with hq2 | rfl
    · exact h.dwUniq q1 hq1 q2 hq2 _ _ _ _ _ _ _ _ _ hk1 hk2
    · rw [hnk] at hk2
      injection hk2 with e1
      subst e1
      exact absurd hk1 (hno q1 hq1 _ _ _ _)
    · rw [hnk] at hk1
      injection hk1 with e1
      subst e1
      exact absurd hk2 (hno q2 hq2 _ _ _ _)
    · rfl
  · intro q hq t1 m1 preds1 ph1 tot1 hk1
    rw [hr, hf]
    rcases (hm q).mp hq with hq | rfl
    · exact h.dwUsed q hq _ _ _ _ _ hk1
    · rw [hnk] at hk1
      injection hk1 with e1
      subst e1
      exact hrun
  · intro d hd hda t1 m1 preds1 ph1 tot1 hk1
    rcases (hm d).mp hd with hd | rfl
    · obtain ⟨a, ha1, ha2, ha3, hak⟩ := h.dwAlloc d hd hda _ _ _ _ _ hk1
      exact ⟨a, (hm a).mpr (Or.inl ha1), ha2, ha3, hak⟩
    · rw [hnk] at hk1
      injection hk1 with e1 e2
      subst e1 e2
      obtain ⟨a, ha1, ha2, ha3, hak⟩ := hwit
      exact ⟨a, (hm a).mpr (Or.inl ha1), ha2, ha3, hak⟩
  · rw [hs]; exact h.startsNodup
  · intro x hx
    rw [hs] at hx
    obtain ⟨q, hq, hrest⟩ := h.startsDw x hx
    exact ⟨q, (hm q).mpr (Or.inl hq), hrest⟩
  · rw [ha]; exact h.actNodup
  · intro mt hmt
    rw [ha] at hmt
    obtain ⟨q, hq, hrest⟩ := h.actDw mt hmt
    exact ⟨q, (hm q).mpr (Or.inl hq), hrest⟩

theorem DG.replaceDW {s : Sys} (h : DG s) (hpw : PW s) {p : Proc} (hp : p ∈ s.procs)
    {t : Tid} {m : Mid} {preds : List Tid} {ph tot : Nat} (hk : p.k = .doWork t m preds ph tot)
    (g : Proc → Proc) (hgp : (g p).pid = p.pid) (ph' tot' : Nat)
    (hgk : (g p).k = .doWork t m preds ph' tot') (hal : (g p).alive = true → p.alive = true)
    (s1 : Sys) (hcl : s1.cl = s.cl) (hprocs : s1.procs = s.procs) (hnp : s1.nextPid = s.nextPid)
    (hsn : s1.starts.Nodup)
    (hsd : ∀ x ∈ s1.starts, ∃ q ∈ (s1.updProc p.pid g).procs, ∃ m preds ph tot,
      q.k = .doWork x m preds ph tot ∧ 2 ≤ ph)
    (han : (s1.active.map (·.2)).Nodup)
    (had : ∀ mt ∈ s1.active, ∃ q ∈ (s1.updProc p.pid g).procs, q.alive = true ∧
      ∃ preds tot, q.k = .doWork mt.2 mt.1 preds 2 tot) :
    DG (s1.updProc p.pid g) := by
  have hpw1 : PW s1 := ⟨by rw [hprocs]; exact hpw.nodup, by rw [hprocs, hnp]; exact hpw.lt⟩
  have hp1 : p ∈ s1.procs := by rw [hprocs]; exact hp
  have hmem := fun q => mem_updProc_iff hpw1 (p := p) hp1 g q
  have back : ∀ q ∈ (s1.updProc p.pid g).procs, ∃ q0 ∈ s.procs, q0.pid = q.pid ∧
      (q.alive = true → q0.alive = true) ∧
      (∀ t m preds ph tot, q.k = .doWork t m preds ph tot →
        ∃ ph0 tot0, q0.k = .doWork t m preds ph0 tot0) := by
    intro q hq
    rcases (hmem q).mp hq with rfl | ⟨hq, _⟩
    · refine ⟨p, hp, hgp.symm, hal, ?_⟩
      intro t1 m1 preds1 ph1 tot1 hk1
      rw [hgk] at hk1
      injection hk1 with e1 e2 e3 e4 e5
      subst e1 e2 e3
      exact ⟨ph, tot, hk⟩
    · rw [hprocs] at hq
      exact ⟨q, hq, rfl, fun h => h, fun t1 m1 preds1 ph1 tot1 hk1 => ⟨ph1, tot1, hk1⟩⟩
  constructor
  · intro q1 hq1 q2 hq2 t1 m1 preds1 ph1 tot1 m2 preds2 ph2 tot2 hk1 hk2
    obtain ⟨a, ha, hap, _, hak⟩ := back q1 hq1
    obtain ⟨b, hb, hbp, _, hbk⟩ := back q2 hq2
    obtain ⟨_, _, hak⟩ := hak _ _ _ _ _ hk1
    obtain ⟨_, _, hbk⟩ := hbk _ _ _ _ _ hk2
    rw [← hap, ← hbp]
    exact h.dwUniq a ha b hb _ _ _ _ _ _ _ _ _ hak hbk
  · intro q hq t1 m1 preds1 ph1 tot1 hk1
    obtain ⟨a, ha, _, _, hak⟩ := back q hq
    obtain ⟨_, _, hak⟩ := hak _ _ _ _ _ hk1
    show t1 ∈ s1.cl.running ∨ t1 ∈ dictKeys s1.cl.finished
    rw [hcl]
    exact h.dwUsed a ha _ _ _ _ _ hak
  · intro d hd hda t1 m1 preds1 ph1 tot1 hk1
    obtain ⟨d0, hd0, hdp, hdal, hdk⟩ := back d hd
    obtain ⟨_, _, hdk⟩ := hdk _ _ _ _ _ hk1
    obtain ⟨a, ha, haa, hapc, preds', obs', ing', hak⟩ := h.dwAlloc d0 hd0 (hdal hda) _ _ _ _ _ hdk
    refine ⟨a, (hmem a).mpr (Or.inr ⟨by rw [hprocs]; exact ha, ?_⟩), haa, hapc, preds', obs', ing', ?_⟩
    · intro e
      have : a = p := hpw.eq_of_pid ha hp e
      subst this
      rw [hk] at hak; exact absurd hak (by simp)
    · rw [hak, hdp]
  · exact hsn
  · exact hsd
  · exact han
  · exact had

/-! ### the allocation process and `DG` -/

theorem DG.atBegin {s : Sys} {U} (h : DG s) (hci : CI s U) (hpw : PW s) {p : Proc} (hp : p ∈ s.procs)
    (ha : p.alive = true) {t m preds obs ing ret} (hk : p.k = .allocTask t m preds obs ing ret)
    (hnr : t ∉ s.cl.running) (hok : (s.cl.allocBegin t m obs ing).2 = none) (g : Proc → Proc)
    (hgp : (g p).pid = p.pid) (hgk : (g p).k = .allocTask t m preds obs ing s.nextPid)
    (hgc : (g p).pc = p.pc + 1) (hga : (g p).alive = true) (f : TaskRec → TaskRec) (now : Time) :
    DG (((({ s with cl := (s.cl.allocBegin t m obs ing).1 }).updTask t f).spawn
      (.doWork t m preds 0 0) now).1.updProc p.pid g) := by
  have hpc0 := hci.pc_zero hp ha hk hnr
  obtain ⟨_, _, f3, f4⟩ := allocBegin_fields s.cl t m obs ing hok
  have hnf : t ∉ dictKeys s.cl.finished := by
    cases ing with
    | true =>
      have he := hci.pend p hp ha t m preds obs ret hk hpc0
      rw [← dictGet_none_iff]
      exact (hci.inv.pendFresh _ he).2
    | false =>
      exact fun hx => (hci.newT p hp ha t m preds obs ret hk hpc0).1 (hci.inv.usedFin t hx)
  have hpw' : PW { s with cl := (s.cl.allocBegin t m obs ing).1 } := ⟨hpw.nodup, hpw.lt⟩
  have hmem := fun q => mem_updProc_iff hpw' (p := p) hp g q
  have h1 : DG ({ s with cl := (s.cl.allocBegin t m obs ing).1 }.updProc p.pid g) := by
    refine h.replaceAT hpw hp hk g hgp s.nextPid hgk _ ?_ (fun hpc => by omega)
    rintro x (hx | hx)
    · left; rw [f3]; exact List.mem_append_left _ hx
    · right; exact f4 x hx
  refine h1.addDW rfl rfl rfl rfl { pid := s.nextPid, k := .doWork t m preds 0 0, wake := now } ?_ rfl ?_ ?_ ?_
  · exact updProc_spawn_procs (({ s with cl := (s.cl.allocBegin t m obs ing).1 }).updTask t f) _ now p.pid g
      (hpw.lt p hp)
  · intro q hq m' preds' ph tot hqk
    have hq0 : q ∈ s.procs :=
      (mem_updProc_irrel hpw' hp rfl (fun k => k.isDW = true) (by rw [hk]; simp [PK.isDW])
        (by rw [hgk]; simp [PK.isDW]) q (by rw [hqk]; rfl)).mp hq
    rcases h.dwUsed q hq0 _ _ _ _ _ hqk with hx | hx
    · exact hnr hx
    · exact hnf hx
  · left
    show t ∈ (s.cl.allocBegin t m obs ing).1.running
    rw [f3]; simp
  · exact ⟨g p, (hmem _).mpr (Or.inl rfl), hga, by omega, preds, obs, ing, hgk⟩

theorem DG.atStay {s : Sys} (h : DG s) (hpw : PW s) {p : Proc} (hp : p ∈ s.procs)
    {t m preds obs ing ret} (hk : p.k = .allocTask t m preds obs ing ret) (g : Proc → Proc)
    (hgp : (g p).pid = p.pid) (hgk : (g p).k = p.k)
    (hwit : 1 ≤ p.pc → (g p).alive = true ∧ 1 ≤ (g p).pc) :
    DG ({ s with cl := s.cl }.updProc p.pid g) := by
  refine h.replaceAT hpw hp hk g hgp ret (hgk.trans hk) s.cl (fun _ hx => hx) ?_
  intro hpc _ _
  exact ⟨(hwit hpc).1, (hwit hpc).2, rfl⟩

theorem DG.atEnd {s : Sys} (h : DG s) (hpw : PW s) {p : Proc} (hp : p ∈ s.procs)
    {t m preds obs ing ret} (hk : p.k = .allocTask t m preds obs ing ret)
    (htr : s.procTriggered ret = true) (hok : (s.cl.allocEnd t m obs ing).2 = none)
    (g : Proc → Proc) (hgp : (g p).pid = p.pid) (hgk : (g p).k = p.k) :
    DG ({ s with cl := (s.cl.allocEnd t m obs ing).1 }.updProc p.pid g) := by
  obtain ⟨_, _, f3, f4⟩ := allocEnd_fields s.cl t m obs ing hok
  refine h.replaceAT hpw hp hk g hgp ret (hgk.trans hk) _ ?_ ?_
  · rintro x (hx | hx)
    · by_cases e : x = t
      · right; rw [f4, e]
        by_cases hkk : t ∈ dictKeys s.cl.finished
        · rw [dictKeys_dictSet_of_mem _ _ _ hkk]; exact hkk
        · rw [dictKeys_dictSet_of_not_mem _ _ _ hkk]; simp
      · left; rw [f3]; exact (List.mem_erase_of_ne e).mpr hx
    · right; rw [f4]
      by_cases hkk : t ∈ dictKeys s.cl.finished
      · rw [dictKeys_dictSet_of_mem _ _ _ hkk]; exact hx
      · rw [dictKeys_dictSet_of_not_mem _ _ _ hkk]; exact List.mem_append_left _ hx
  · rintro _ _ ⟨d, hd, hda, hdp, _⟩
    exfalso
    unfold procTriggered at htr
    rw [← hdp, hpw.proc?_of_mem hd] at htr
    simp [hda] at htr

end Sys
end Topsim
