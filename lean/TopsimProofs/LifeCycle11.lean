/-
  LifeCycle11 — how the observation records change in the two blocks that write them (the
  telescope's loop and the ingest supervisor), together with the events emitted meanwhile.
-/
import TopsimProofs.LifeCycle10

namespace Topsim
namespace Sys

/-- the record of `o` in `b` against its record in `a`, when the events `L` (stamped `n`) were
emitted in between: same duration; the start time is the same or has just been set to `n` with
`telStarted` emitted; the status is the same or has just become FINISHED, a full duration after a
start time that was recorded in `a` or set in between -/
def TObs (n : Nat) (L : List Event) (a b : Sys) : Prop :=
  ∀ o ob', b.obs? o = some ob' → ∃ ob, a.obs? o = some ob ∧ ob'.duration = ob.duration ∧
    (ob'.ast = ob.ast ∨ (ob'.ast = some n ∧ (⟨n, o, .telStarted⟩ : Event) ∈ L)) ∧
    (ob'.status = ob.status ∨ (ob'.status = .finished ∧
      ((∃ a0, ob.ast = some a0 ∧ a0 + ob.duration ≤ n) ∨
       ((⟨n, o, .telStarted⟩ : Event) ∈ L ∧ n + ob.duration ≤ n))))

theorem TObs.of_eq {n : Nat} {a b : Sys} (h : b.obs = a.obs) : TObs n [] a b := by
  intro o ob' hob
  rw [obs?_congr h] at hob
  exact ⟨ob', hob, rfl, Or.inl rfl, Or.inl rfl⟩

theorem TObs.trans {n : Nat} {L1 L2 : List Event} {a b c : Sys} (h1 : TObs n L1 a b) (h2 : TObs n L2 b c) :
    TObs n (L1 ++ L2) a c := by
  intro o ob2 hob2
  obtain ⟨ob1, hob1, d2, a2, s2⟩ := h2 o ob2 hob2
  obtain ⟨ob, hob, d1, a1, s1⟩ := h1 o ob1 hob1
  refine ⟨ob, hob, d2.trans d1, ?_, ?_⟩
  · rcases a2 with e2 | ⟨e2, m2⟩
    · rcases a1 with e1 | ⟨e1, m1⟩
      · exact Or.inl (e2.trans e1)
      · exact Or.inr ⟨e2.trans e1, List.mem_append_left _ m1⟩
    · exact Or.inr ⟨e2, List.mem_append_right _ m2⟩
  · rcases s2 with e2 | ⟨e2, f2⟩
    · rcases s1 with e1 | ⟨e1, f1⟩
      · exact Or.inl (e2.trans e1)
      · right
        refine ⟨e2.trans e1, ?_⟩
        rcases f1 with f | ⟨m, f⟩
        · exact Or.inl f
        · exact Or.inr ⟨List.mem_append_left _ m, f⟩
    · right
      refine ⟨e2, ?_⟩
      rcases f2 with ⟨a0, ha0, hle⟩ | ⟨m, f⟩
      · rcases a1 with e1 | ⟨e1, m1⟩
        · exact Or.inl ⟨a0, by rw [← e1]; exact ha0, by rw [← d1]; exact hle⟩
        · rw [e1] at ha0; injection ha0 with ha0; subst ha0
          exact Or.inr ⟨List.mem_append_left _ m1, by rw [← d1]; exact hle⟩
      · exact Or.inr ⟨List.mem_append_right _ m, by rw [← d1]; exact f⟩

/-- through a per-record update of observation `oid` -/
theorem lcObs?_updObs {a b : Sys} {oid : Oid} {f : Obs → Obs}
    (h : b.obs = (a.updObs oid f).obs) (hf : ∀ r, (f r).id = r.id) (o : Oid) :
    b.obs? o = if o = oid then (a.obs? o).map f else a.obs? o := by
  rw [obs?_congr h, updObs_obs? a oid f hf]

theorem telStep_tobs {n : Nat} {oid : Oid} {acc acc' : Sys × Option Err} {t : List Event}
    (h : TelStep n oid acc acc' t) : TObs n t acc.1 acc'.1 := by
  cases h with
  | quiet _ _ hobs => exact TObs.of_eq hobs
  | start ob _ _ _ hob _ _ _ hobs =>
    intro o ob' hob'
    rw [lcObs?_updObs hobs (fun _ => rfl) o] at hob'
    split at hob'
    · rename_i e; subst e
      rw [hob] at hob'
      simp only [Option.map_some, Option.some.injEq] at hob'
      subst hob'
      exact ⟨ob, hob, rfl, Or.inr ⟨rfl, by simp⟩, Or.inl rfl⟩
    · exact ⟨ob', hob', rfl, Or.inl rfl, Or.inl rfl⟩
  | finish ob a _ _ _ hob _ hast hle _ _ hobs =>
    intro o ob' hob'
    rw [lcObs?_updObs hobs (fun _ => rfl) o] at hob'
    split at hob'
    · rename_i e; subst e
      rw [hob] at hob'
      simp only [Option.map_some, Option.some.injEq] at hob'
      subst hob'
      exact ⟨ob, hob, rfl, Or.inl rfl, Or.inr ⟨rfl, Or.inl ⟨a, hast, hle⟩⟩⟩
    · exact ⟨ob', hob', rfl, Or.inl rfl, Or.inl rfl⟩

theorem telRun_tobs {n : Nat} {l : List Oid} {acc acc' : Sys × Option Err} {L : List Event}
    (h : TelRun n l acc acc' L) : TObs n L acc.1 acc'.1 := by
  induction h with
  | nil acc => exact TObs.of_eq rfl
  | cons oid l acc acc1 acc2 t L ht _ ih => exact (telStep_tobs ht).trans ih

/-- the `telFinished` events of a run: a full duration after a start time recorded before the run
or set during it -/
theorem telRun_finishedEv {n : Nat} {l : List Oid} {acc acc' : Sys × Option Err} {L : List Event}
    (h : TelRun n l acc acc' L) : ∀ eB ∈ L, eB.kind = .telFinished → eB.time = n ∧
      ∃ ob, acc.1.obs? eB.obs = some ob ∧
        ((∃ a0, ob.ast = some a0 ∧ a0 + ob.duration ≤ n) ∨
         ((⟨n, eB.obs, .telStarted⟩ : Event) ∈ L ∧ n + ob.duration ≤ n)) := by
  induction h with
  | nil acc => intro eB he; simp at he
  | cons oid l acc acc1 acc2 t L ht _ ih =>
    intro eB he hk
    rcases List.mem_append.mp he with he | he
    · cases ht with
      | quiet => simp at he
      | start => simp at he; subst he; simp at hk
      | finish ob a _ _ _ hob _ hast hle =>
        simp at he; subst he
        exact ⟨rfl, ob, hob, Or.inl ⟨a, hast, hle⟩⟩
    · obtain ⟨ht1, ob1, hob1, hor⟩ := ih eB he hk
      obtain ⟨ob, hob, d1, a1, _⟩ := telStep_tobs ht eB.obs ob1 hob1
      refine ⟨ht1, ob, hob, ?_⟩
      rcases hor with ⟨a0, ha0, hle⟩ | ⟨m, f⟩
      · rcases a1 with e1 | ⟨e1, m1⟩
        · exact Or.inl ⟨a0, by rw [← e1]; exact ha0, by rw [← d1]; exact hle⟩
        · rw [e1] at ha0; injection ha0 with ha0; subst ha0
          exact Or.inr ⟨List.mem_append_left _ m1, by rw [← d1]; exact hle⟩
      · exact Or.inr ⟨List.mem_append_right _ m, by rw [← d1]; exact f⟩

/-- the ingest supervisors a run creates: one per `telStarted`, for an observation that has a
record -/
theorem telRun_newAI {n : Nat} {l : List Oid} {acc acc' : Sys × Option Err} {L : List Event}
    (h : TelRun n l acc acc' L) : ∃ new, acc'.1.procs = acc.1.procs ++ new ∧
      ∀ q ∈ new, ∀ o tl, q.k = .allocIngest o tl →
        (⟨n, o, .telStarted⟩ : Event) ∈ L ∧ ∃ ob, acc'.1.obs? o = some ob := by
  induction h with
  | nil acc => exact ⟨[], by simp, by simp⟩
  | cons oid l acc acc1 acc2 t L ht hrun ih =>
    obtain ⟨new2, e2, f2⟩ := ih
    have hkeep : ∀ o, (∃ ob, acc1.1.obs? o = some ob) → ∃ ob, acc2.1.obs? o = some ob := by
      intro o ⟨ob, hob⟩
      -- records are never dropped
      have : ∀ {m : Nat} {l : List Oid} {a b : Sys × Option Err} {L : List Event}, TelRun m l a b L →
          ∀ o, (∃ ob, a.1.obs? o = some ob) → ∃ ob, b.1.obs? o = some ob := by
        intro m l a b L hr
        induction hr with
        | nil => exact fun _ h => h
        | cons oid l a a1 a2 t L ht _ ih =>
          intro o ⟨ob, hob⟩
          apply ih
          cases ht with
          | quiet _ _ hobs => exact ⟨ob, by rw [obs?_congr hobs]; exact hob⟩
          | start ob0 _ _ _ _ _ _ _ hobs =>
            rw [lcObs?_updObs hobs (fun _ => rfl) o]
            split
            · exact ⟨_, by rw [hob]; rfl⟩
            · exact ⟨ob, hob⟩
          | finish ob0 a0 _ _ _ _ _ _ _ _ _ hobs =>
            rw [lcObs?_updObs hobs (fun _ => rfl) o]
            split
            · exact ⟨_, by rw [hob]; rfl⟩
            · exact ⟨ob, hob⟩
      exact this hrun o ⟨ob, hob⟩
    cases ht with
    | quiet _ _ _ hp =>
      refine ⟨new2, by rw [e2, hp], ?_⟩
      intro q hq o tl hk
      obtain ⟨g1, g2⟩ := f2 q hq o tl hk
      exact ⟨by simpa using g1, g2⟩
    | finish ob a _ _ _ _ _ _ _ _ _ _ hp =>
      refine ⟨new2, by rw [e2, hp], ?_⟩
      intro q hq o tl hk
      obtain ⟨g1, g2⟩ := f2 q hq o tl hk
      exact ⟨List.mem_append_right _ g1, g2⟩
    | start ob _ _ _ hob _ _ _ hobs hp =>
      refine ⟨{ pid := acc.1.nextPid, k := .allocIngest oid 0, wake := (n : Time) } :: new2,
        by rw [e2, hp]; simp, ?_⟩
      intro q hq o tl hk
      rcases List.mem_cons.mp hq with rfl | hq
      · simp only [PK.allocIngest.injEq] at hk
        obtain ⟨e, _⟩ := hk
        subst e
        refine ⟨by simp, hkeep _ ?_⟩
        rw [lcObs?_updObs hobs (fun _ => rfl) oid, if_pos rfl, hob]
        exact ⟨_, rfl⟩
      · obtain ⟨g1, g2⟩ := f2 q hq o tl hk
        exact ⟨List.mem_append_right _ g1, g2⟩

/-! ### the ingest supervisor -/

theorem allocIngestIter_obs (s : Sys) (now : Time) (oid : Oid) (tl : Int) :
    (s.allocIngestIter now oid tl).1.obs = s.obs ∨
    (∃ ob, s.obs? oid = some ob ∧ ob.status = .waiting ∧
      (s.allocIngestIter now oid tl).1.obs = (s.updObs oid (fun r => { r with status := .running })).obs) := by
  unfold allocIngestIter
  simp only
  cases hob : s.obs? oid with
  | none => first | exact Or.inl rfl | exact Or.inl trivial
  | some o =>
    simp only
    by_cases hfin : o.status = .finished
    · simp only [hfin, if_true]; first | exact Or.inl rfl | exact Or.inl trivial
    · simp only [hfin, if_false]
      by_cases hw : o.status = .waiting
      · simp only [hw, if_true]
        exact Or.inr ⟨o, rfl, hw, rfl⟩
      · simp only [hw, if_false]
        split <;> first | exact Or.inl rfl | exact Or.inl trivial

/-- what the supervisor's block does to the records: only to its own observation's — the start
time is stamped again in the first block, and a WAITING observation becomes RUNNING -/
theorem allocIngestBlock_recs (s : Sys) (now : Time) (pc : Nat) (oid : Oid) (tl : Int) :
    ∀ o ob', (s.allocIngestBlock now pc oid tl).1.obs? o = some ob' →
      ∃ ob, s.obs? o = some ob ∧ ob'.duration = ob.duration ∧
        (ob'.ast = ob.ast ∨ (o = oid ∧ pc = 0 ∧ ob'.ast = some (natNow now))) ∧
        (ob'.status = ob.status ∨ (o = oid ∧ ob.status = .waiting ∧ ob'.status = .running)) := by
  have hi : ∀ (a : Sys) tl, ∀ o ob', (a.allocIngestIter now oid tl).1.obs? o = some ob' →
      ∃ ob, a.obs? o = some ob ∧ ob'.duration = ob.duration ∧ ob'.ast = ob.ast ∧
        (ob'.status = ob.status ∨ (o = oid ∧ ob.status = .waiting ∧ ob'.status = .running)) := by
    intro a tl o ob' hob'
    rcases allocIngestIter_obs a now oid tl with h | ⟨ob, hob, hw, h⟩
    · rw [obs?_congr h] at hob'
      exact ⟨ob', hob', rfl, rfl, Or.inl rfl⟩
    · rw [lcObs?_updObs h (fun _ => rfl) o] at hob'
      split at hob'
      · rename_i e; subst e
        rw [hob] at hob'
        simp only [Option.map_some, Option.some.injEq] at hob'
        subst hob'
        exact ⟨ob, hob, rfl, rfl, Or.inr ⟨rfl, hw, rfl⟩⟩
      · exact ⟨ob', hob', rfl, rfl, Or.inl rfl⟩
  unfold allocIngestBlock
  split
  · rename_i hpc
    simp only
    intro o ob' hob'
    obtain ⟨ob1, hob1, d1, a1, s1⟩ := hi _ _ o ob' hob'
    rw [updObs_obs? s oid (fun r => { r with ast := some (natNow now) }) (fun _ => rfl)] at hob1
    split at hob1
    · rename_i e; subst e
      cases hob : s.obs? o with
      | none => rw [hob] at hob1; simp at hob1
      | some ob =>
        rw [hob] at hob1
        simp only [Option.map_some, Option.some.injEq] at hob1
        subst hob1
        refine ⟨ob, rfl, d1, Or.inr ⟨rfl, hpc, a1⟩, ?_⟩
        rcases s1 with e | ⟨_, e1, e2⟩
        · exact Or.inl e
        · exact Or.inr ⟨rfl, e1, e2⟩
    · refine ⟨ob1, hob1, d1, Or.inl a1, ?_⟩
      rcases s1 with e | ⟨e0, e1, e2⟩
      · exact Or.inl e
      · exact Or.inr ⟨e0, e1, e2⟩
  · intro o ob' hob'
    obtain ⟨ob, hob, d1, a1, s1⟩ := hi _ _ o ob' hob'
    exact ⟨ob, hob, d1, Or.inl a1, s1⟩

/-- the supervisor's kind after its block -/
theorem allocIngest_class (s : Sys) (hpw : PW s) (p : Proc) (orc : Oracle) (o : Oid) :
    (∃ tl, (s.block p orc).2.1 = .allocIngest o tl) ↔ ∃ tl, p.k = .allocIngest o tl := by
  have htag := block_tag s hpw p orc
  constructor
  · rintro ⟨tl, h⟩
    rw [h] at htag
    cases hk : p.k <;> rw [hk] at htag <;> simp [PK.tag] at htag
    rename_i o' tl'
    obtain ⟨_, ⟨tl'', h'⟩, _⟩ := allocIngestBlock_E s p.wake p.pc o' tl'
    rw [block_allocIngest orc hk] at h
    rw [h] at h'
    injection h' with e _
    exact ⟨tl', by rw [e]⟩
  · rintro ⟨tl, hk⟩
    rw [block_allocIngest orc hk]
    exact (allocIngestBlock_E s p.wake p.pc o tl).2.1

end Sys
end Topsim
