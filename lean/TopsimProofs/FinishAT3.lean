/-
  FinishAT3 — the status of a task as the scheduler sees it, and what
  `_process_current_schedule` does: which allocation processes it creates.
-/
import TopsimProofs.FinishBuf9

namespace Topsim
namespace Sys

/-- `task.task_status` as `taskView` reports it (UNSCHEDULED when there is no record) -/
def tstat (s : Sys) (t : Tid) : TStatus := (s.taskView t).status

theorem tstat_eq (s : Sys) (t : Tid) :
    tstat s t = match s.task? t with | none => .unscheduled | some r => r.status := by
  unfold tstat taskView
  cases s.task? t <;> rfl

theorem tstat_of_tasks {a b : Sys} (h : b.tasks = a.tasks) (t : Tid) : tstat b t = tstat a t := by
  rw [tstat_eq, tstat_eq]; unfold task?; rw [h]

theorem tstat_updTask (s : Sys) (t t' : Tid) (f : TaskRec → TaskRec) (hf : ∀ r, (f r).id = r.id) :
    tstat (s.updTask t f) t' = match s.task? t' with
      | none => .unscheduled
      | some r => if r.id = t then (f r).status else r.status := by
  rw [tstat_eq, task?_updTask s t t' f hf]
  cases s.task? t' with
  | none => rfl
  | some r => simp only [Option.map_some]; split <;> rfl

theorem task?_id {s : Sys} {t : Tid} {r : TaskRec} (h : s.task? t = some r) : r.id = t := by
  unfold task? at h; simpa using List.find?_some h

theorem tstat_updTask_ne (s : Sys) {t t' : Tid} (f : TaskRec → TaskRec) (hf : ∀ r, (f r).id = r.id)
    (hne : t' ≠ t) : tstat (s.updTask t f) t' = tstat s t' := by
  rw [tstat_updTask s t t' f hf, tstat_eq]
  cases h : s.task? t' with
  | none => rfl
  | some r =>
    have := task?_id h
    simp only
    rw [if_neg (by rw [this]; exact hne)]

theorem tstat_updTask_keep (s : Sys) (t t' : Tid) (f : TaskRec → TaskRec) (hf : ∀ r, (f r).id = r.id)
    (hs : ∀ r, (f r).status = r.status) : tstat (s.updTask t f) t' = tstat s t' := by
  rw [tstat_updTask s t t' f hf, tstat_eq]
  cases h : s.task? t' with
  | none => rfl
  | some r => simp only; split <;> simp [hs]

theorem tstat_updTask_set (s : Sys) (t : Tid) (f : TaskRec → TaskRec) (hf : ∀ r, (f r).id = r.id)
    (st : TStatus) (hs : ∀ r, (f r).status = st) {r : TaskRec} (hr : s.task? t = some r) :
    tstat (s.updTask t f) t = st := by
  rw [tstat_updTask s t t f hf, hr]
  simp only
  rw [if_pos (task?_id hr)]; exact hs r

theorem updateAllocation_id (r : TaskRec) (mm : Machine) : (updateAllocation r mm).id = r.id :=
  (updateAllocation_good mm r).1

theorem updateAllocation_status (r : TaskRec) (mm : Machine) : (updateAllocation r mm).status = r.status := by
  unfold updateAllocation
  simp only
  split <;> rfl

/-- the two shapes of the state after the "update allocation" step -/
def UA (a : Sys) (t : Tid) (s1 : Sys) : Prop :=
  s1 = a ∨ ∃ mm, s1 = a.updTask t (fun r => updateAllocation r mm)

theorem UA.tstat {a s1 : Sys} {t : Tid} (h : UA a t s1) (t' : Tid) : tstat s1 t' = tstat a t' := by
  rcases h with rfl | ⟨mm, rfl⟩
  · rfl
  · exact tstat_updTask_keep a t t' _ (fun r => updateAllocation_id r mm) (fun r => updateAllocation_status r mm)

theorem UA.procs {a s1 : Sys} {t : Tid} (h : UA a t s1) : s1.procs = a.procs ∧ s1.nextPid = a.nextPid := by
  rcases h with rfl | ⟨mm, rfl⟩ <;> exact ⟨rfl, rfl⟩

theorem UA.task? {a s1 : Sys} {t : Tid} (h : UA a t s1) {r : TaskRec} (hr : a.task? t = some r) :
    ∃ r', s1.task? t = some r' := by
  rcases h with rfl | ⟨mm, rfl⟩
  · exact ⟨r, hr⟩
  · rw [task?_updTask a t t _ (fun r => updateAllocation_id r mm), hr]; exact ⟨_, rfl⟩

/-- the loop body of `_process_current_schedule`: either no process is created, or exactly one,
for an UNSCHEDULED task of the schedule, which becomes SCHEDULED and leaves the schedule -/
theorem processOne_cases (now : Time) (oid : Oid) (st : PcsSt) (t : Tid) :
    (∃ s1, UA st.s t s1 ∧ (processOne now oid st t).s = s1 ∧
      (processOne now oid st t).schedule = st.schedule) ∨
    (∃ s1 m r cross, UA st.s t s1 ∧ dictGet st.schedule t = some m ∧ st.s.task? t = some r ∧
      r.status = .unscheduled ∧
      (processOne now oid st t).s = (s1.spawn (.allocTask t m cross (some oid) false 0) now).1.updTask t
        (fun r => { r with status := .scheduled }) ∧
      (processOne now oid st t).schedule = dictErase st.schedule t) := by
  unfold processOne
  cases hok : st.err with
  | some e => exact Or.inl ⟨st.s, Or.inl rfl, rfl, rfl⟩
  | none =>
    simp only
    cases hm : dictGet st.schedule t with
    | none => exact Or.inl ⟨st.s, Or.inl rfl, rfl, rfl⟩
    | some m =>
      cases hr : st.s.task? t with
      | none => exact Or.inl ⟨st.s, Or.inl rfl, rfl, rfl⟩
      | some r =>
        simp only []
        cases hmm : st.s.machine? m with
        | none => exact Or.inl ⟨st.s, Or.inl rfl, rfl, rfl⟩
        | some mm =>
          simp only []
          by_cases hz : ((r.allocObj || r.planned != some m) = true ∧ (mm.cpu = 0 ∨ mm.bw = 0))
          · rw [if_pos hz]; exact Or.inl ⟨st.s, Or.inl rfl, rfl, rfl⟩
          · simp only [hz, if_false]
            generalize hs1 : (if (r.allocObj || r.planned != some m) = true then
              st.s.updTask t (fun r => updateAllocation r mm) else st.s) = s1
            have hua : UA st.s t s1 := by
              subst hs1; split
              · exact Or.inr ⟨mm, rfl⟩
              · exact Or.inl rfl
            by_cases hocc : (st.curr.contains m = true ∨ s1.cl.isOccupied m = true)
            · rw [if_pos hocc]; exact Or.inl ⟨s1, hua, rfl, rfl⟩
            · rw [if_neg hocc]
              by_cases hmiss : (r.preds.any fun p => !dictHas (dictSet st.pairs t m) p) = true
              · rw [if_pos hmiss]; exact Or.inl ⟨s1, hua, rfl, rfl⟩
              · rw [if_neg hmiss]
                by_cases hst : r.status ≠ TStatus.unscheduled
                · rw [if_pos hst]; exact Or.inl ⟨s1, hua, rfl, rfl⟩
                · rw [if_neg hst]
                  exact Or.inr ⟨s1, m, r, _, hua, rfl, rfl, by simpa using hst, rfl, rfl⟩

/-! ### the whole loop -/

theorem mem_dictKeys_of_get {κ α} [DecidableEq κ] {d : List (κ × α)} {k : κ} {v : α}
    (h : dictGet d k = some v) : k ∈ dictKeys d := by
  by_cases hk : k ∈ dictKeys d
  · exact hk
  · rw [(dictGet_none_iff d k).mpr hk] at h; exact absurd h (by simp)

theorem not_mem_dictKeys_dictErase {κ α} [DecidableEq κ] (d : List (κ × α)) (k : κ)
    (hnd : (dictKeys d).Nodup) : k ∉ dictKeys (dictErase d k) := by
  induction d with
  | nil => simp [dictErase]
  | cons p r ih =>
    obtain ⟨k', v'⟩ := p
    simp only [dictKeys_cons, List.nodup_cons] at hnd
    by_cases h : k' = k
    · subst h; simp only [dictErase, if_true]; exact hnd.1
    · simp only [dictErase, h, if_false, dictKeys_cons, List.mem_cons, not_or]
      exact ⟨fun e => h e.symm, ih hnd.2⟩

/-- what the loop has done so far, from state `a` and schedule `sched0` -/
structure PCS (a : Sys) (sched0 : List (Tid × Mid)) (oid : Oid) (st : PcsSt) (new : List Proc) : Prop where
  procs : st.s.procs = a.procs ++ new
  newk : ∀ q ∈ new, q.alive = true ∧ q.pc = 0 ∧ ∃ t m cross, q.k = .allocTask t m cross (some oid) false 0 ∧
    t ∈ dictKeys sched0 ∧ tstat a t = .unscheduled ∧ tstat st.s t = .scheduled ∧ t ∉ dictKeys st.schedule
  keys : ∀ t ∈ dictKeys st.schedule, t ∈ dictKeys sched0
  nodup : (dictKeys st.schedule).Nodup
  stat : ∀ t, tstat st.s t = tstat a t ∨ (tstat a t = .unscheduled ∧ tstat st.s t = .scheduled ∧
    ∃ q ∈ new, ∃ m cross, q.k = .allocTask t m cross (some oid) false 0)

theorem PCS.step {a : Sys} {sched0 : List (Tid × Mid)} {oid : Oid} {st : PcsSt} {new : List Proc}
    (h : PCS a sched0 oid st new) (now : Time) (t : Tid) :
    ∃ new', PCS a sched0 oid (processOne now oid st t) new' := by
  rcases processOne_cases now oid st t with ⟨s1, hua, hs, hsc⟩ | ⟨s1, m, r, cross, hua, hm, hr, hst, hs, hsc⟩
  · refine ⟨new, ?_, ?_, ?_, ?_, ?_⟩
    · rw [hs, hua.procs.1]; exact h.procs
    · intro q hq
      obtain ⟨g1, g2, t0, m0, c0, g3, g4, g5, g6, g7⟩ := h.newk q hq
      exact ⟨g1, g2, t0, m0, c0, g3, g4, g5, by rw [hs, hua.tstat]; exact g6, by rw [hsc]; exact g7⟩
    · rw [hsc]; exact h.keys
    · rw [hsc]; exact h.nodup
    · intro t'; rw [hs, hua.tstat]; exact h.stat t'
  · have htk : t ∈ dictKeys st.schedule := mem_dictKeys_of_get hm
    have hts : tstat st.s t = .unscheduled := by rw [tstat_eq, hr]; exact hst
    have hta : tstat a t = .unscheduled := by
      rcases h.stat t with e | ⟨_, e, _⟩
      · rw [← e]; exact hts
      · rw [hts] at e; exact absurd e (by simp)
    obtain ⟨r1, hr1⟩ := hua.task? hr
    have hstat' : ∀ t', tstat (processOne now oid st t).s t' = if t' = t then .scheduled else tstat st.s t' := by
      intro t'
      rw [hs]
      by_cases e : t' = t
      · subst e
        rw [if_pos rfl]
        exact tstat_updTask_set _ _ (fun r : TaskRec => { r with status := .scheduled }) (fun _ => rfl) .scheduled
          (fun _ => rfl) (r := r1) hr1
      · rw [if_neg e, tstat_updTask_ne _ (fun r : TaskRec => { r with status := .scheduled }) (fun _ => rfl) e]
        exact (tstat_of_tasks rfl t').trans (hua.tstat t')
    have hnk : t ∉ dictKeys (dictErase st.schedule t) := not_mem_dictKeys_dictErase _ _ h.nodup
    have hsub := (dictKeys_dictErase_sublist st.schedule t)
    refine ⟨new ++ [{ pid := s1.nextPid, k := .allocTask t m cross (some oid) false 0, wake := now }],
      ?_, ?_, ?_, ?_, ?_⟩
    · rw [hs]
      show s1.procs ++ _ = _
      rw [hua.procs.1, h.procs, List.append_assoc]
    · intro q hq
      rcases List.mem_append.mp hq with hq | hq
      · obtain ⟨g1, g2, t0, m0, c0, g3, g4, g5, g6, g7⟩ := h.newk q hq
        have hne : t0 ≠ t := fun e => g7 (e ▸ htk)
        refine ⟨g1, g2, t0, m0, c0, g3, g4, g5, ?_, ?_⟩
        · rw [hstat', if_neg hne]; exact g6
        · rw [hsc]; exact fun hx => g7 (hsub.subset hx)
      · simp only [List.mem_singleton] at hq
        subst hq
        refine ⟨rfl, rfl, t, m, cross, rfl, h.keys t htk, hta, ?_, ?_⟩
        · rw [hstat', if_pos rfl]
        · rw [hsc]; exact hnk
    · rw [hsc]; exact fun t' ht' => h.keys t' (hsub.subset ht')
    · rw [hsc]; exact hsub.nodup h.nodup
    · intro t'
      rw [hstat']
      by_cases e : t' = t
      · subst e
        rw [if_pos rfl]
        exact Or.inr ⟨hta, rfl, _, List.mem_append_right _ (List.mem_singleton.mpr rfl), m, cross, rfl⟩
      · rw [if_neg e]
        rcases h.stat t' with e1 | ⟨e1, e2, q, hq, m0, c0, hqk⟩
        · exact Or.inl e1
        · exact Or.inr ⟨e1, e2, q, List.mem_append_left _ hq, m0, c0, hqk⟩

theorem PCS.fold {a : Sys} {sched0 : List (Tid × Mid)} {oid : Oid} (now : Time) (l : List Tid) :
    ∀ {st : PcsSt} {new : List Proc}, PCS a sched0 oid st new →
      ∃ new', PCS a sched0 oid (l.foldl (processOne now oid) st) new' := by
  induction l with
  | nil => intro st new h; exact ⟨new, h⟩
  | cons x r ih =>
    intro st new h
    obtain ⟨n1, h1⟩ := h.step now x
    exact ih h1

theorem processCurrentSchedule_pcs (a : Sys) (now : Time) (oid : Oid) (sched0 pairs : List (Tid × Mid))
    (hnd : (dictKeys sched0).Nodup) :
    ∃ new, PCS a sched0 oid (processCurrentSchedule a now oid sched0 pairs) new := by
  unfold processCurrentSchedule
  simp only
  apply PCS.fold (new := [])
  exact ⟨by simp, by simp, fun _ h => h, hnd, fun _ => Or.inl rfl⟩

end Sys
end Topsim
