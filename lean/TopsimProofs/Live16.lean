/-
  Live16 — known finding K2 (two admissions in one telescope block) with PAIRWISE DISTINCT planned
  starts, after its repair F14.

  Configuration `k2W`: one machine, two arrays, ingest limit 2, hot/cold buffer 1000/1000; three
  observations without workflow: A (planned start 0, 3 timesteps, both arrays), B (planned start 1),
  C (planned start 2), one array, one timestep, one ingest machine each.  A holds the arrays until
  t = 3; at t = 3 its ingest machine is still in the ingest pool when the telescope's block runs
  (it is given back later in that instant); at t = 4 the telescope's block visits B and C.  Before
  F14 both were admitted (both checked against the same list of one available machine) and the
  second provisioning raised RuntimeError.  F14: B's admission raises the reservation counter, the
  test of C sees one machine promised and none left, C waits; at t = 5 B's machine is still in the
  ingest pool; C is admitted at t = 6 and the run reaches `is_finished()` with nothing raised.
  The configuration is well formed, feasible, satisfies H1 (`NoTierCfg`), its (empty) workflows are
  in topological order, the planned starts are 0, 1, 2, and H2 (`OneAdmission`) FAILS.
-/
import TopsimProofs.Live14
import TopsimProofs.Witness1

namespace Topsim
namespace Sys

def k2Wf : Workflow := { nodes := [], edges := [], topo := [] }

def k2W : Sys :=
  { machines := [⟨0, 10, 2⟩], totalArrays := 2, maxIngest := 2, alg := .queue,
    cl := Cluster.init [0], buf := Buffer.init 1000 50 1000 50,
    obs := [{ id := 0, est := 0, duration := 3, demand := 2, rate := 1, ingestDemand := 1, wf := k2Wf },
            { id := 1, est := 1, duration := 1, demand := 1, rate := 1, ingestDemand := 1, wf := k2Wf },
            { id := 2, est := 2, duration := 1, demand := 1, rate := 1, ingestDemand := 1, wf := k2Wf }] }

theorem k2W_wf : WFConfig k2W := by
  refine ⟨by decide, rfl, by decide, ?_, ⟨rfl, rfl, rfl, rfl, rfl, rfl, rfl, rfl, rfl, rfl, rfl, rfl, rfl,
    rfl, rfl, rfl, rfl⟩⟩
  intro o ho
  simp only [k2W, List.mem_cons, List.not_mem_nil, or_false] at ho
  rcases ho with rfl | rfl | rfl <;> exact ⟨rfl, rfl, by decide, by decide⟩

theorem k2W_feasible : Feasible k2W := by
  simp [Feasible, k2W, Buffer.init]

theorem k2W_h1 : NoTierCfg k2W := by
  unfold NoTierCfg
  decide

theorem k2W_topo : ∀ o ∈ k2W.obs, IsTopo o.wf := by
  intro o ho
  simp only [k2W, List.mem_cons, List.not_mem_nil, or_false] at ho
  rcases ho with rfl | rfl | rfl <;>
    exact ⟨by simp [k2Wf], by intro n; simp [k2Wf], by intro e he; simp [k2Wf] at he⟩

theorem k2W_est : (k2W.obs.map (·.est)) = [0, 1, 2] := rfl

/-- … and `OneAdmission` fails, as it must: B and C together fit the arrays and the ingest limit -/
theorem k2W_not_oneAdmission : ¬ OneAdmission k2W := by
  intro h
  have := h { id := 1, est := 1, duration := 1, demand := 1, rate := 1, ingestDemand := 1, wf := k2Wf }
    (by simp [k2W])
    { id := 2, est := 2, duration := 1, demand := 1, rate := 1, ingestDemand := 1, wf := k2Wf }
    (by simp [k2W]) (by decide)
  simp [k2W] at this

/-- the run until every event before t = 5 (where the unrepaired code had raised) -/
def k2K5 : SimState := witRun k2W 5 400

/-- the run until every event before t = 8 -/
def k2K : SimState := witRun k2W 8 800

set_option maxRecDepth 100000 in
unseal Rat.add in
/-- F14: at t = 4 only B is admitted (C is refused: the machine is promised to B), nothing raised -/
theorem k2K5_spec :
    k2K5.st.crashed = none ∧ k2K5.st.obs.map (fun o => (o.id, o.ast)) = [(0, some 0), (1, some 4), (2, none)] ∧
    k2K5.st.isFinished = false := by
  decide +kernel

set_option maxRecDepth 100000 in
unseal Rat.add in
/-- F14: B is admitted at t = 4, C at t = 6; the run ends at `is_finished()` with nothing raised -/
theorem k2K_spec :
    k2K.st.crashed = none ∧ k2K.st.obs.map (fun o => (o.id, o.ast)) = [(0, some 0), (1, some 4), (2, some 6)] ∧
    k2K.st.isFinished = true := by
  decide +kernel

theorem k2K5_run : SimRun {} k2W k2K5 := witRun_simRun k2W 5 400

theorem k2K_run : SimRun {} k2W k2K := witRun_simRun k2W 8 800

end Sys
end Topsim
