/-
  SysInv13 — step theorem for `provision_ingest_resources`.
-/
import TopsimProofs.SysInv12
namespace Topsim
namespace Sys
open Cluster

theorem CI.noLiveIngAT {s : Sys} {U} (h : CI s U) {t : Tid} (hti : t.isIngest = true) (htU : t ∉ U) :
    ∀ q ∈ s.procs, q.alive = true → ∀ m preds obs ing ret, q.k ≠ .allocTask t m preds obs ing ret := by
  intro q hq hqa m preds obs ing ret hqk
  by_cases h0 : q.pc = 0
  · cases ing with
    | true => exact htU (h.inv.usedPend _ (h.pend q hq hqa t m preds obs ret hqk h0))
    | false =>
      have := (h.newT q hq hqa t m preds obs ret hqk h0).2
      rw [hti] at this; exact absurd this (by simp)
  · have h1 := h.runOn q hq hqa t m preds obs ing ret hqk (by omega)
    apply htU
    apply h.inv.usedRun
    rw [← h.inv.runOnTasks]
    exact List.mem_map_of_mem (f := (·.task)) h1

theorem provIngest_ok_step {s : Sys} (h : SInv s) {U} (hU : CI s U) {p : Proc} (hpm : p ∈ s.procs)
    {o d} (hk : p.k = .provIngest o d) (hpc : p.pc = 0)
    (hok : (s.cl.provisionIngest d o).2.1 = none) (F : Mid × Tid → TaskRec)
    (hF : ∀ x, (F x).id = x.2 ∧ (F x).status = .scheduled) (now : Time) (g : Proc → Proc)
    (hg : ∀ q, (g q).pid = q.pid) (hgk : (g p).k = p.k) (hgc : (g p).pc = p.pc + 1) :
    SInv ((List.foldl (fun (s : Sys) (x : Mid × Tid) => (s.spawn (.allocTask x.2 x.1 [] (some o) true 0) now).1)
      { s with cl := (s.cl.provisionIngest d o).1,
               tasks := s.tasks ++ List.map F (s.cl.provisionIngest d o).2.2 }
      (s.cl.provisionIngest d o).2.2).updProc p.pid g) := by
  have hpw := h.pw
  have hfresh : ∀ i, Tid.ingest o i ∉ U := by
    intro i hi
    obtain ⟨q, hq, d', hqk, hqc⟩ := hU.provOnce o i hi
    have e := hU.provUniq q hq p hpm o d' d hqk hk
    have : q = p := hpw.eq_of_pid hq hpm e
    subst this
    omega
  obtain ⟨_, f1, _, f3, f4, hnd, hids⟩ := provisionIngest_sharp hU.inv d o hfresh hok
  generalize hs1 : ({ s with cl := (s.cl.provisionIngest d o).1, tasks := s.tasks ++ List.map F (s.cl.provisionIngest d o).2.2 } : Sys) = s1
  have hs1procs : s1.procs = s.procs := by subst hs1; rfl
  have hs1np : s1.nextPid = s.nextPid := by subst hs1; rfl
  have hpw1 : PW s1 := ⟨by rw [hs1procs]; exact hpw.nodup, by rw [hs1procs, hs1np]; exact hpw.lt⟩
  obtain ⟨⟨new, g1, g2⟩, g3, g4, g5, g6, g7, g8, g9⟩ :=
    foldSpawn_spec (fun x : Mid × Tid => PK.allocTask x.2 x.1 [] (some o) true 0) now
      (s.cl.provisionIngest d o).2.2 s1
  have hpw2 := g3 hpw1
  have hp2 : p ∈ (List.foldl (fun (s : Sys) (x : Mid × Tid) =>
      (s.spawn (.allocTask x.2 x.1 [] (some o) true 0) now).1) s1 (s.cl.provisionIngest d o).2.2).procs := by
    rw [g1, hs1procs]; exact List.mem_append_left _ hpm
  have hnewk : ∀ q ∈ new, q.k.isAT = true := by
    intro q hq
    obtain ⟨x, _, hx⟩ := g2 q hq
    rw [hx]; rfl
  refine ⟨hpw2.updProc _ _ hg, ?_, ?_, ?_⟩
  · -- CI: move the bookkeeping first
    rw [foldSpawn_comm _ now p.pid g _ s1 (by rw [hs1np]; exact hpw.lt p hpm)]
    have hb := hU.bumpPI hpw hpm hk g (hg p) hgk (by omega)
    have hpwb : PW (s.updProc p.pid g) := hpw.updProc _ _ hg
    have hgp : g p ∈ (s.updProc p.pid g).procs := (mem_updProc_iff hpw hpm g _).mpr (Or.inl rfl)
    have hc := hb.provStep hgp (hgk.trans hk) (by omega) hfresh d hok F hF
    have hs1' : s1.updProc p.pid g = { (s.updProc p.pid g) with cl := (s.cl.provisionIngest d o).1, tasks := s.tasks ++ List.map F (s.cl.provisionIngest d o).2.2 } := by
      subst hs1; rfl
    rw [hs1']
    refine ⟨_, CI.foldSpawnIng (some o) now _ hnd _ hc ?_⟩
    intro x hx
    have hxU : x.2 ∈ List.map (fun x => x.2) (s.cl.provisionIngest d o).2.2 ++ U :=
      List.mem_append_left _ (List.mem_map_of_mem hx)
    refine ⟨hc.usedRec _ hxU, ?_, ?_⟩
    · show _ ∈ (s.cl.provisionIngest d o).1.pending
      rw [f1]
      exact List.mem_append_right _ (List.mem_map_of_mem (f := fun p => (⟨p.2, p.1, some o, true⟩ : RunEntry)) hx)
    · obtain ⟨i, hi⟩ := hids x hx
      rw [hi]
      exact hb.noLiveIngAT rfl (hfresh i)
  · have : DG (List.foldl (fun (s : Sys) (x : Mid × Tid) =>
        (s.spawn (.allocTask x.2 x.1 [] (some o) true 0) now).1) s1 (s.cl.provisionIngest d o).2.2) := by
      refine h.dg.addProcs ?_ ?_ ?_ ?_ new (by rw [g1, hs1procs]) ?_
      · rw [g4]; subst hs1; exact f3
      · rw [g4]; subst hs1; exact f4
      · rw [g7]; subst hs1; rfl
      · rw [g8]; subst hs1; rfl
      · intro q hq
        obtain ⟨x, _, hx⟩ := g2 q hq
        rw [hx]; rfl
    exact this.updProc_neutral hpw2 hp2 g (by rw [hk]; exact ⟨rfl, rfl⟩) (by rw [hgk, hk]; exact ⟨rfl, rfl⟩)
  · have : EG (List.foldl (fun (s : Sys) (x : Mid × Tid) =>
        (s.spawn (.allocTask x.2 x.1 [] (some o) true 0) now).1) s1 (s.cl.provisionIngest d o).2.2) := by
      refine h.eg.addProcs ?_ ?_ new (by rw [g1, hs1procs]) ?_
      · rw [g6]; subst hs1; rfl
      · rw [g9]; subst hs1; rfl
      · intro q hq
        obtain ⟨x, _, hx⟩ := g2 q hq
        rw [hx]; exact ⟨rfl, rfl⟩
    exact this.updProc_neutral hpw2 hp2 g (by rw [hk]; exact ⟨rfl, rfl⟩) (by rw [hgk, hk]; exact ⟨rfl, rfl⟩)

theorem provIngest_stay_step {s : Sys} (h : SInv s) {p : Proc} (hpm : p ∈ s.procs)
    {o d} (hk : p.k = .provIngest o d) (g : Proc → Proc)
    (hg : ∀ q, (g q).pid = q.pid) (hgk : (g p).k = p.k) (hgc : (g p).pc = p.pc + 1) :
    SInv (s.updProc p.pid g) := by
  obtain ⟨U, hU⟩ := h.ci
  exact ⟨h.pw.updProc _ _ hg, ⟨U, hU.bumpPI h.pw hpm hk g (hg p) hgk (by omega)⟩,
    h.dg.updProc_neutral h.pw hpm g (by rw [hk]; exact ⟨rfl, rfl⟩) (by rw [hgk, hk]; exact ⟨rfl, rfl⟩),
    h.eg.updProc_neutral h.pw hpm g (by rw [hk]; exact ⟨rfl, rfl⟩) (by rw [hgk, hk]; exact ⟨rfl, rfl⟩)⟩

theorem step_provIngest {s : Sys} (h : SInv s) {pid : Nat} {p : Proc} (hp : s.proc? pid = some p)
    (ha : p.alive = true) {o d} (hk : p.k = .provIngest o d)
    (orc : Oracle) : SInv (s.resume pid orc).1 := by
  obtain ⟨hpm, hpid⟩ := proc?_some hp
  subst hpid
  have hcore := resume_core s p.pid orc p hp ha
  have hb : s.block p orc = s.provIngestBlock p.wake p.pc o d := by
    unfold block; simp only [hk]
  rw [hb] at hcore
  refine SInv.core ?_ hcore
  obtain ⟨U, hU⟩ := h.ci
  unfold provIngestBlock
  by_cases hpc : p.pc = 0
  · simp only [hpc, if_true]
    have hok := provIngest_ok_step h hU hpm hk hpc
    have href := provisionIngest_refused hU.inv d o
    generalize hr : s.cl.provisionIngest d o = r at hok href
    obtain ⟨cl1, e1, pairs⟩ := r
    cases e1 with
    | some e =>
      simp only at href ⊢
      have := href e rfl
      subst this
      exact provIngest_stay_step h hpm hk _ (by simp) (by simp [hk]) (by simp)
    | none =>
      simp only at hok ⊢
      exact hok trivial _ (fun x => ⟨rfl, rfl⟩) p.wake _ (by simp) (by simp [hk]) (by simp)
  · simp only [hpc, if_false]
    exact provIngest_stay_step h hpm hk _ (by simp) (by simp [hk]) (by simp)

end Sys
end Topsim
