/-
  LifeCycle5 — which process kind emits which event kind; the telescope's two events are
  emitted at most once per observation along every trajectory.
-/
import TopsimProofs.LifeCycle4

namespace Topsim
namespace Sys

/-! ### kinds -/

theorem TelStep.kinds {n : Nat} {oid : Oid} {acc acc' : Sys × Option Err} {t : List Event}
    (h : TelStep n oid acc acc' t) :
    ∀ e ∈ t, e.time = n ∧ e.obs = oid ∧ (e.kind = .telStarted ∨ e.kind = .telFinished) := by
  cases h with
  | quiet => intro e he; simp at he
  | start => intro e he; simp at he; subst he; exact ⟨rfl, rfl, Or.inl rfl⟩
  | finish => intro e he; simp at he; subst he; exact ⟨rfl, rfl, Or.inr rfl⟩

theorem TelRun.kinds {n : Nat} {l : List Oid} {acc acc' : Sys × Option Err} {L : List Event}
    (h : TelRun n l acc acc' L) : ∀ e ∈ L, e.kind = .telStarted ∨ e.kind = .telFinished := by
  induction h with
  | nil acc => intro e he; simp at he
  | cons oid l acc acc1 acc2 t L ht _ ih =>
    intro e he
    rcases List.mem_append.mp he with he | he
    · exact (ht.kinds e he).2.2
    · exact ih e he

/-- which process kind emits which event kind, and for which observation -/
theorem blockEvents_kinds (s : Sys) (p : Proc) (orc : Oracle) : ∀ e ∈ blockEvents s p orc,
    (p.k = .telescope ∧ (e.kind = .telStarted ∨ e.kind = .telFinished)) ∨
    (p.k = .schedLoop ∧ e.kind = .queueAdded) ∨
    ((∃ tl, p.k = .ingestStream e.obs tl) ∧ e.kind = .bufAdded) ∨
    ((∃ sc pa po fin, p.k = .allocTasks e.obs sc pa po fin) ∧
      (e.kind = .allocStarted ∨ e.kind = .allocStopped ∨ e.kind = .queueRemoved ∨ e.kind = .bufRemoved)) ∨
    (((∃ cur, p.k = .hot2cold cur) ∨ ∃ cur, p.k = .cold2hot cur) ∧ isTransfer e) := by
  intro e he
  cases hk : p.k with
  | monitor => rw [blockEvents_monitor orc hk] at he; simp at he
  | telescope =>
    left
    refine ⟨rfl, ?_⟩
    rcases blockEvents_telescope (s := s) orc hk with ⟨h, _⟩ | ⟨s0, e0, _, _, _, _, _, _, _, hrun, _⟩
    · rw [h] at he; simp at he
    · exact hrun.kinds e he
  | clusterLoop => rw [blockEvents_nil orc (Or.inl hk)] at he; simp at he
  | schedLoop =>
    right; left
    rcases blockEvents_schedLoop (s := s) orc hk with ⟨h, _⟩ | ⟨oid, ob, h, _⟩
    · rw [h] at he; simp at he
    · rw [h] at he; simp at he; subst he; exact ⟨rfl, rfl⟩
  | bufferLoop => rw [blockEvents_nil orc (Or.inr (Or.inl hk))] at he; simp at he
  | allocIngest o tl => rw [blockEvents_nil orc (Or.inr (Or.inr (Or.inl ⟨o, tl, hk⟩)))] at he; simp at he
  | provIngest o d =>
    rw [blockEvents_nil orc (Or.inr (Or.inr (Or.inr (Or.inl ⟨o, d, hk⟩))))] at he; simp at he
  | ingestStream o tl =>
    right; right; left
    rcases blockEvents_ingestStream (s := s) orc hk with h | ⟨_, ob, _, _, h⟩
    · rw [h] at he; simp at he
    · rw [h] at he; simp at he; subst he; exact ⟨⟨tl, rfl⟩, rfl⟩
  | allocTask t m preds obs ing ret =>
    rw [blockEvents_nil orc (Or.inr (Or.inr (Or.inr (Or.inr (Or.inl ⟨t, m, preds, obs, ing, ret, hk⟩)))))] at he
    simp at he
  | doWork t m preds ph tot =>
    rw [blockEvents_nil orc (Or.inr (Or.inr (Or.inr (Or.inr (Or.inr ⟨t, m, preds, ph, tot, hk⟩)))))] at he
    simp at he
  | allocTasks o sc pa po fin =>
    right; right; right; left
    rcases blockEvents_allocTasks (s := s) orc hk with ⟨_, h, _⟩ | ⟨_, c, u, hat, h⟩
    · rw [h] at he; simp at he
    · rw [h] at he
      have hcu : ∀ e ∈ c ++ u, e.obs = o ∧ (e.kind = .allocStopped ∨ e.kind = .queueRemoved ∨ e.kind = .bufRemoved) := by
        generalize s.block p orc = r at hat
        cases hat with
        | quiet => intro e he; simp at he
        | finish =>
          intro e he
          simp at he
          rcases he with rfl | rfl | rfl <;> simp
        | finishBad =>
          intro e he
          simp at he
          rcases he with rfl | rfl <;> simp
        | finishWait =>
          intro e he
          simp at he
          rcases he with rfl | rfl <;> simp
      rw [List.append_assoc] at he
      rcases List.mem_append.mp he with he | he
      · split at he
        · simp at he; subst he; exact ⟨⟨sc, pa, po, fin, rfl⟩, Or.inl rfl⟩
        · simp at he
      · obtain ⟨h1, h2⟩ := hcu e he
        exact ⟨⟨sc, pa, po, fin, by rw [h1]⟩, Or.inr h2⟩
  | hot2cold cur =>
    right; right; right; right
    exact ⟨Or.inl ⟨cur, rfl⟩, blockEvents_tier orc (Or.inl ⟨cur, hk⟩) e he⟩
  | cold2hot cur =>
    right; right; right; right
    exact ⟨Or.inr ⟨cur, rfl⟩, blockEvents_tier orc (Or.inr ⟨cur, hk⟩) e he⟩

/-- a block other than the telescope's emits no telescope event -/
theorem evCount_tel_zero (s : Sys) (p : Proc) (orc : Oracle) (hk : p.k ≠ .telescope) (o : Oid) :
    evCount o .telStarted (blockEvents s p orc) = 0 ∧ evCount o .telFinished (blockEvents s p orc) = 0 := by
  constructor <;> apply evCount_zero_of_kind <;> intro e he hkind <;>
    rcases blockEvents_kinds s p orc e he with ⟨h, _⟩ | ⟨_, h⟩ | ⟨_, h⟩ | ⟨_, h⟩ | ⟨_, h⟩
  all_goals first
    | exact hk h
    | (simp [isTransfer, hkind] at h)

/-! ### `telStarted`: one per admission -/

theorem telStep_started {n : Nat} {oid : Oid} {acc acc' : Sys × Option Err} {t : List Event}
    (h : TelStep n oid acc acc' t) (o : Oid) :
    evCount o .telStarted t + acc.1.admitted.count o = acc'.1.admitted.count o := by
  cases h with
  | quiet _ ha => rw [ha]; simp
  | start ob _ _ _ _ _ _ ha =>
    rw [ha, List.count_append, evCount_single]
    by_cases e : oid = o
    · subst e; simp; omega
    · have : ¬ (oid == o) = true := by simpa using e
      simp [e]
  | finish ob a _ _ _ _ _ _ _ _ ha => rw [ha, evCount_single]; simp

theorem telRun_started {n : Nat} {l : List Oid} {acc acc' : Sys × Option Err} {L : List Event}
    (h : TelRun n l acc acc' L) (o : Oid) :
    evCount o .telStarted L + acc.1.admitted.count o = acc'.1.admitted.count o := by
  induction h with
  | nil acc => simp
  | cons oid l acc acc1 acc2 t L ht _ ih =>
    have := telStep_started ht o
    rw [evCount_append]; omega

/-- one step: as many `telStarted` events of `o` as `o` is appended to `admitted` -/
theorem step_started (s : Sys) (pid : Nat) (orc : Oracle) (hen : s.enabled pid) (o : Oid) :
    evCount o .telStarted (s.stepEvents pid orc) + s.admitted.count o
      = (s.resume pid orc).1.admitted.count o := by
  obtain ⟨p, hp, ha, _⟩ := hen
  rw [stepEvents_alive orc hp ha, (resume_telSame s pid orc p hp ha).admitted]
  by_cases hk : p.k = .telescope
  · rcases blockEvents_telescope (s := s) orc hk with ⟨h, hb, _⟩ | ⟨s0, e0, g1, _, _, _, _, _, _, hrun, _⟩
    · rw [h, hb]; simp
    · have := telRun_started hrun o
      rw [g1] at this; exact this
  · rw [(evCount_tel_zero s p orc hk o).1, (block_telSame s p orc hk).admitted]; simp

theorem reachEv_started {s0 s : Sys} {evs : List Event} (hw : WFConfig s0) (h : ReachEv s0 s evs) (o : Oid) :
    evCount o .telStarted evs = s.admitted.count o := by
  induction h with
  | start =>
    have : s0.start.admitted = s0.admitted := by simp [start, spawn]
    rw [this, hw.fresh.2.2.2.2.2.2.2.1]; simp
  | step s evs pid orc _ hen ih =>
    have := step_started s pid orc hen o
    rw [evCount_append, ih]; omega

/-! ### `telFinished`: guarded by the status, which it sets to FINISHED -/

/-- observation `o` has a record and it is FINISHED -/
def obsFin (s : Sys) (o : Oid) : Prop := ∃ ob, s.obs? o = some ob ∧ ob.status = .finished

theorem obsFin_congr {a b : Sys} (h : b.obs = a.obs) (o : Oid) : obsFin b o ↔ obsFin a o := by
  unfold obsFin; rw [obs?_congr h]

theorem telStep_finished {n : Nat} {oid : Oid} {acc acc' : Sys × Option Err} {t : List Event}
    (h : TelStep n oid acc acc' t) (o : Oid) :
    (obsFin acc.1 o → obsFin acc'.1 o) ∧ (obsFin acc.1 o → evCount o .telFinished t = 0) ∧
    evCount o .telFinished t ≤ 1 ∧ (1 ≤ evCount o .telFinished t → obsFin acc'.1 o) := by
  cases h with
  | quiet _ _ hobs =>
    exact ⟨fun h => (obsFin_congr hobs o).mpr h, fun _ => rfl, by simp, fun h => by simp at h⟩
  | start ob _ _ _ hob _ _ _ hobs =>
    have hmono : obsFin acc.1 o → obsFin acc'.1 o := by
      rintro ⟨r, hr, hst⟩
      unfold obsFin
      rw [obs?_congr hobs, updObs_obs? acc.1 oid (fun r => { r with ast := some n }) (fun _ => rfl)]
      split
      · exact ⟨{ r with ast := some n }, by rw [hr]; rfl, hst⟩
      · exact ⟨r, hr, hst⟩
    refine ⟨hmono, fun _ => ?_, ?_, fun h => ?_⟩
    · rw [evCount_single]; simp
    · rw [evCount_single]; simp
    · rw [evCount_single] at h; simp at h
  | finish ob a _ _ _ hob hst _ _ _ _ hobs =>
    have hobs? : ∀ o', acc'.1.obs? o' = if o' = oid then (acc.1.obs? o').map (fun r => { r with status := .finished })
        else acc.1.obs? o' := by
      intro o'
      rw [obs?_congr hobs, updObs_obs? acc.1 oid (fun r => { r with status := .finished }) (fun _ => rfl)]
    have hmono : obsFin acc.1 o → obsFin acc'.1 o := by
      rintro ⟨r, hr, hst'⟩
      unfold obsFin
      rw [hobs? o]
      split
      · exact ⟨_, by rw [hr]; rfl, rfl⟩
      · exact ⟨r, hr, hst'⟩
    refine ⟨hmono, ?_, ?_, ?_⟩
    · rintro ⟨r, hr, hst'⟩
      rw [evCount_single]
      by_cases e : oid = o
      · subst e; rw [hob] at hr; injection hr with hr; subst hr; exact absurd hst' hst
      · simp [e]
    · rw [evCount_single]; split <;> omega
    · intro h
      rw [evCount_single] at h
      by_cases e : oid = o
      · subst e
        unfold obsFin
        rw [hobs? oid, if_pos rfl, hob]
        exact ⟨_, rfl, rfl⟩
      · simp [e] at h

theorem telRun_finished {n : Nat} {l : List Oid} {acc acc' : Sys × Option Err} {L : List Event}
    (h : TelRun n l acc acc' L) (o : Oid) :
    (obsFin acc.1 o → obsFin acc'.1 o) ∧ (obsFin acc.1 o → evCount o .telFinished L = 0) ∧
    evCount o .telFinished L ≤ 1 ∧ (1 ≤ evCount o .telFinished L → obsFin acc'.1 o) := by
  induction h with
  | nil acc => exact ⟨fun h => h, fun _ => rfl, by simp, fun h => by simp at h⟩
  | cons oid l acc acc1 acc2 t L ht _ ih =>
    obtain ⟨a1, b1, c1, d1⟩ := telStep_finished ht o
    obtain ⟨a2, b2, c2, d2⟩ := ih
    refine ⟨fun h => a2 (a1 h), fun h => ?_, ?_, fun h => ?_⟩
    · rw [evCount_append, b1 h, b2 (a1 h)]
    · rw [evCount_append]
      by_cases h1 : 1 ≤ evCount o .telFinished t
      · have := b2 (d1 h1); omega
      · omega
    · rw [evCount_append] at h
      by_cases h1 : 1 ≤ evCount o .telFinished t
      · exact a2 (d1 h1)
      · exact d2 (by omega)

/-- FINISHED is for ever -/
theorem obsFin_resume (s : Sys) (pid : Nat) (orc : Oracle) (o : Oid) (h : obsFin s o) :
    obsFin (s.resume pid orc).1 o := by
  obtain ⟨ob, hob, hst⟩ := h
  obtain ⟨ob', hob', hle, _⟩ := status_monotone s pid orc o ob hob
  refine ⟨ob', hob', ?_⟩
  rw [hst] at hle
  cases h : ob'.status <;> rw [h] at hle <;> simp [obsRank] at hle

theorem step_finished (s : Sys) (pid : Nat) (orc : Oracle) (hen : s.enabled pid) (o : Oid) :
    (obsFin s o → evCount o .telFinished (s.stepEvents pid orc) = 0) ∧
    evCount o .telFinished (s.stepEvents pid orc) ≤ 1 ∧
    (1 ≤ evCount o .telFinished (s.stepEvents pid orc) → obsFin (s.resume pid orc).1 o) := by
  obtain ⟨p, hp, ha, _⟩ := hen
  rw [stepEvents_alive orc hp ha]
  by_cases hk : p.k = .telescope
  · have hobs : (s.resume pid orc).1.obs = (s.block p orc).1.obs := (resume_alive s pid orc p hp ha).2.2.2.2.2.1
    rcases blockEvents_telescope (s := s) orc hk with ⟨h, _⟩ | ⟨s0, e0, _, g2, _, _, _, _, _, hrun, _⟩
    · rw [h]; exact ⟨fun _ => rfl, by simp, fun h => by simp at h⟩
    · obtain ⟨_, b, c, d⟩ := telRun_finished hrun o
      refine ⟨fun h => b ((obsFin_congr g2 o).mpr h), c, fun h => ?_⟩
      exact (obsFin_congr hobs o).mpr (d h)
  · rw [(evCount_tel_zero s p orc hk o).2]
    exact ⟨fun _ => rfl, by omega, fun h => by omega⟩

theorem reachEv_finished {s0 s : Sys} {evs : List Event} (h : ReachEv s0 s evs) (o : Oid) :
    evCount o .telFinished evs ≤ 1 ∧ (1 ≤ evCount o .telFinished evs → obsFin s o) := by
  induction h with
  | start => simp
  | step s evs pid orc _ hen ih =>
    obtain ⟨i1, i2⟩ := ih
    obtain ⟨b, c, d⟩ := step_finished s pid orc hen o
    rw [evCount_append]
    constructor
    · by_cases h1 : 1 ≤ evCount o .telFinished evs
      · have := b (i2 h1); omega
      · omega
    · intro h
      by_cases h1 : 1 ≤ evCount o .telFinished evs
      · exact obsFin_resume s pid orc o (i2 h1)
      · exact d (by omega)

end Sys
end Topsim
