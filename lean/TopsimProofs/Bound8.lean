/-
  Bound8 — C05, the numeric clause: a block of another process in which no stage happens
  (`boundV` unchanged) leaves an enabled poller in the table, with the same record, and enabled
  (`BoundParts.enabled_persists`).
-/
import TopsimProofs.Bound2
import TopsimProofs.Live8
import TopsimProofs.Live13
import TopsimProofs.IngestLimit11

namespace Topsim

open KState Sys

/-- membership from a count that did not shrink -/
theorem bound_ep_mem_of_count {l l' : List Oid} {o : Oid} (h : l.count o ≤ l'.count o) (ho : o ∈ l) :
    o ∈ l' := by
  have := List.count_pos_iff.mpr ho
  exact List.count_pos_iff.mp (by omega)

/-- `nextForProcessing` keeps every stored id in `stored` or moves it to `scheduled` -/
theorem bound_ep_next (b : Buffer) (o : Oid) (ho : o ∈ b.hot.stored) :
    o ∈ b.nextForProcessing.1.hot.stored ∨ o ∈ b.nextForProcessing.1.hot.scheduled := by
  unfold Buffer.nextForProcessing
  split
  · exact Or.inl ho
  · rename_i x hx
    simp only
    have hl := List.dropLast_append_getLast? x hx
    rw [← hl] at ho
    rcases List.mem_append.mp ho with h | h
    · exact Or.inl h
    · right
      simp only [List.mem_singleton] at h
      rw [h]; simp

/-- a block of a process that is not a tier move keeps every id of `hot.stored` in one of the
hot buffer's lists -/
theorem bound_ep_block_stored (s : Sys) (p : Proc) (orc : Oracle) (h1 : p.k.tag ≠ "hot2cold")
    (h2 : p.k.tag ≠ "cold2hot") (o : Oid) (ho : o ∈ s.buf.hot.stored) :
    o ∈ (s.block p orc).1.buf.hot.stored ∨ o ∈ (s.block p orc).1.buf.hot.scheduled ∨
      o ∈ (s.block p orc).1.buf.hot.finished := by
  have quiet : (s.block p orc).1.buf = s.buf →
      o ∈ (s.block p orc).1.buf.hot.stored ∨ o ∈ (s.block p orc).1.buf.hot.scheduled ∨
        o ∈ (s.block p orc).1.buf.hot.finished := by
    intro e; rw [e]; exact Or.inl ho
  cases hk : p.k with
  | schedLoop =>
    rw [block_schedLoop orc hk]
    rcases schedLoopBlock_buf s p.wake orc with ⟨hbuf, _⟩ | ⟨oid, ob, recs, plan, hnext, _, _, hbuf, _⟩
    · rw [hbuf]; exact Or.inl ho
    · rw [hbuf]
      rcases bound_ep_next s.buf o ho with h | h
      · exact Or.inl h
      · exact Or.inr (Or.inl h)
  | ingestStream oid tl =>
    have hcold := l8_block_cold s p orc h1 h2
    rw [block_ingestStream orc hk] at hcold ⊢
    obtain ⟨e1, e2, e3⟩ := ingestStreamBlock_buf s p.wake p.pc oid tl
    left
    have hc : (bufList s.buf).count o ≤ (bufList (s.ingestStreamBlock p.wake p.pc oid tl).1.buf).count o := by
      rcases e3 with e3 | ⟨_, e3⟩
      · exact Nat.le_of_eq (e3 o).symm
      · rw [e3 o]; omega
    unfold bufList at hc
    rw [e1, e2, hcold] at hc
    simp only [List.count_append] at hc
    exact bound_ep_mem_of_count (by omega) ho
  | allocTasks oid sc pa po fn =>
    rw [block_allocTasks orc hk]
    rcases allocTasksBlock_bufCases s p.wake orc p.pc oid sc pa po fn with e | e
    · rw [e]; exact Or.inl ho
    · rw [e]
      rcases remove_full s.buf oid with e2 | ⟨_, _, _, _, _, hst, _⟩
      · rw [e2]; exact Or.inl ho
      · rw [hst]; exact Or.inl ho
  | hot2cold cur => exact absurd (by rw [hk]; rfl) h1
  | cold2hot cur => exact absurd (by rw [hk]; rfl) h2
  | _ =>
    exact quiet (block_buf s p orc (by rw [hk]; simp [PK.tag]) (by rw [hk]; simp [PK.tag])
      (by rw [hk]; simp [PK.tag]) (by rw [hk]; simp [PK.tag]) (by rw [hk]; simp [PK.tag]))

section
variable {env : SimEnv} {s0 : Sys}

/-- along the run an id of `hot.stored` stays in one of the hot buffer's lists -/
theorem bound_ep_stored_step (C : LiveCfg env s0) (K : LiveKernel env s0) (n : Nat) {o : Oid}
    (ho : o ∈ (simAt env s0 n).st.buf.hot.stored) :
    o ∈ (simAt env s0 (n + 1)).st.buf.hot.stored ∨ o ∈ (simAt env s0 (n + 1)).st.buf.hot.scheduled ∨
      o ∈ (simAt env s0 (n + 1)).st.buf.hot.finished := by
  obtain ⟨e, p, hpk, hpp, ha, het, hen, hs, hst⟩ := live_step C K n
  have hb := resume_buf (simAt env s0 n).st e.pid (env.oracle (simAt env s0 n).st) p hpp ha
  obtain ⟨hpm, _⟩ := proc?_some hpp
  have hnt := (live_noTier C K n).1 p hpm
  rw [hst, hb]
  exact bound_ep_block_stored _ p _ hnt.1 hnt.2 o ho

/-- an observation of the configuration with a given id -/
theorem bound_ep_obs_of_id {o : Oid} (h : o ∈ s0.obs.map (·.id)) : ∃ ob ∈ s0.obs, ob.id = o := by
  obtain ⟨ob, hob, hid⟩ := List.mem_map.mp h
  exact ⟨ob, hob, hid⟩

/-- a block of another process in which no stage happens leaves an enabled poller enabled -/
theorem bound_enabled_persists (C : LiveCfg env s0) (K : LiveKernel env s0) (n : Nat)
    {e : HEntry} {p : Proc}
    (hpk : (simAt env s0 n).peek = some e) (hp : p ∈ (simAt env s0 n).st.procs) (hne : p.pid ≠ e.pid)
    (hen : (simAt env s0 n).st.BoundEn p)
    (hV : boundV s0 (simAt env s0 (n + 1)).st = boundV s0 (simAt env s0 n).st) :
    p ∈ (simAt env s0 (n + 1)).st.procs ∧ (simAt env s0 (n + 1)).st.BoundEn p := by
  obtain ⟨e', p', hpk', hpp, ha, _, _, _, hst⟩ := live_step C K n
  have hee : e' = e := by rw [hpk] at hpk'; exact (Option.some.inj hpk').symm
  subst hee
  have hpw := (live_sinv C K n).pw
  obtain ⟨_, _, m3⟩ := il_resume_procs_mem hpw hpp ha (env.oracle (simAt env s0 n).st)
  have hmem : p ∈ (simAt env s0 (n + 1)).st.procs := by rw [hst]; exact m3 p hp hne
  have hnf := bound_v_eq_noflip (bound_run_mono C K (Nat.le_succ n)) hV
  refine ⟨hmem, hen.1, ?_⟩
  rcases hen.2 with ⟨hk, ob, hob, hast⟩ | ⟨hk, hsto⟩ | ⟨o, sc, pa, po, hk, hfin⟩
  · -- the telescope: an observation without a recorded start
    left
    obtain ⟨hobs, hid⟩ := live_obs?_mem C K n hob
    obtain ⟨ob', hob', _, hobs'⟩ := live_obs_rec C K (n + 1) hid
    refine ⟨hk, ob', hob', ?_⟩
    cases hast' : ob'.ast with
    | none => rfl
    | some a =>
      exfalso
      obtain ⟨o0, ho0, hid0⟩ := bound_ep_obs_of_id hid
      have h1 : Sys.PAst o0.id (simAt env s0 (n + 1)).st := by
        rw [hid0]; exact ⟨ob', a, hobs', hast'⟩
      obtain ⟨ob2, a2, hobs2, hast2⟩ := (hnf o0 ho0).1 h1
      rw [hid0, hobs] at hobs2
      have : ob = ob2 := Option.some.inj hobs2
      subst this
      rw [hast] at hast2
      cases hast2
  · -- the scheduling loop: a stored observation
    right; left
    refine ⟨hk, ?_⟩
    obtain ⟨o, ho⟩ := List.exists_mem_of_ne_nil _ hsto
    have hid := live_buf_ids C K n (Or.inl ho)
    obtain ⟨o0, ho0, hid0⟩ := bound_ep_obs_of_id hid
    have hnq : ¬ Sys.PQ o (simAt env s0 n).st := by
      intro hq
      have hcnt := (live_bufi C K n).cnt o
      unfold locCount bufList at hcnt
      simp only [List.count_append] at hcnt
      have c1 := List.count_pos_iff.mpr ho
      rcases hq with hq | hq
      · have c2 := List.count_pos_iff.mpr hq
        omega
      · have c2 := List.count_pos_iff.mpr hq
        omega
    have hnq' : ¬ Sys.PQ o (simAt env s0 (n + 1)).st := by
      intro hq
      apply hnq
      have := (hnf o0 ho0).2.1 (by rw [hid0]; exact hq)
      rw [hid0] at this
      exact this
    rcases bound_ep_stored_step C K n ho with h | h | h
    · exact List.ne_nil_of_mem h
    · exact absurd (Or.inl h) hnq'
    · exact absurd (Or.inr h) hnq'
  · -- the allocation loop of an observation that has not been removed
    right; right
    refine ⟨o, sc, pa, po, hk, ?_⟩
    intro hfin'
    have hid := live_buf_ids C K (n + 1) (Or.inr (Or.inr hfin'))
    obtain ⟨o0, ho0, hid0⟩ := bound_ep_obs_of_id hid
    have := (hnf o0 ho0).2.2.1 (by rw [hid0]; exact hfin')
    rw [hid0] at this
    exact hfin this

end

end Topsim
