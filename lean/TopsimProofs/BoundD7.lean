/-
  BoundD7 — C05, the numeric clause under a delay model: tools for concrete witness runs.
    * `boundDScan env N k`: one pass over the first `N + 1` states of the run from `k`, true iff none of
      them is at `is_finished()` (`boundD_scan_spec`);
    * `boundD_tau_mono`: the clock is monotone along the run (any distance);
    * `boundD_witness_cfg`: configuration `c04W1` meets the hypotheses of the bound theorems, for any
      environment.
-/
import TopsimProofs.BoundD6

namespace Topsim

open KState Sys

/-- none of the first `N + 1` states of the run from `k` is at `is_finished()` (one pass) -/
def boundDScan (env : SimEnv) : Nat → SimState → Bool
  | 0, k => !k.st.isFinished
  | n + 1, k =>
    !k.st.isFinished &&
      match k.step (simHandler env) with
      | some k1 => boundDScan env n k1
      | none => true

theorem boundD_scan_spec (env : SimEnv) : ∀ (N : Nat) (k : SimState), boundDScan env N k = true →
    ∀ j, j ≤ N → (ilSimSteps env j k).st.isFinished = false
  | 0, k, h, j, hj => by
    have : j = 0 := by omega
    subst this
    simpa [boundDScan, ilSimSteps] using h
  | N + 1, k, h, j, hj => by
    simp only [boundDScan, Bool.and_eq_true, Bool.not_eq_true'] at h
    obtain ⟨h0, h1⟩ := h
    cases j with
    | zero => simpa [ilSimSteps] using h0
    | succ j =>
      simp only [ilSimSteps]
      cases hs : k.step (simHandler env) with
      | none => exact h0
      | some k1 =>
        rw [hs] at h1
        exact boundD_scan_spec env N k1 h1 j (by omega)

section
variable {env : SimEnv} {s0 : Sys}

/-- the clock is monotone along the run -/
theorem boundD_tau_mono (C : LiveCfg env s0) (K : LiveKernel env s0) {n m : Nat} (h : n ≤ m) :
    boundTau env s0 n ≤ boundTau env s0 m := by
  induction m with
  | zero =>
    have : n = 0 := by omega
    subst this
    exact Rat.le_refl
  | succ m ih =>
    by_cases e : n = m + 1
    · subst e; exact Rat.le_refl
    · exact Rat.le_trans (ih (by omega)) (bound_wk_mono C K m)

end

/-- configuration `c04W1` (TopsimProofs/Witness1.lean: one machine, one observation with the chain
workflow `0 → 1`) meets the hypotheses of the bound theorems, whatever the environment -/
theorem boundD_witness_cfg (env : SimEnv) : NcCfg env c04W1 where
  hw := c04W1_wf
  feas := by simp [Sys.Feasible, c04W1, c04Obs1, Buffer.init]
  hb0 := ⟨rfl, rfl, rfl, rfl⟩
  hfull := ⟨rfl, rfl, rfl⟩
  hct := rfl
  h1 := by unfold Sys.NoTierCfg; decide
  alg := rfl
  stat := rfl
  topo := by
    intro o ho
    simp only [c04W1, List.mem_cons, List.not_mem_nil, or_false] at ho
    subst ho
    exact ⟨by decide, by intro n; simp [c04Obs1], by decide⟩
  hh0 := rfl

end Topsim
