/-
  Cross6 — every task body was created by the block in which its allocation process
  (`allocate_task_to_cluster`) had the cluster accept the task; the time of that block
  is the allocation time in the recorded start.
-/
import TopsimProofs.Cross5
import TopsimProofs.PlanFollow3

namespace Topsim
namespace Sys

open Cluster

/-- the allocation block of task `t` on machine `m`: in the reachable state `s1` the enabled
process `p` is the allocation process of `t` on `m` with cross-machine list `cross`, and the
cluster does not run `t` yet — so the block `p` runs next is the one that calls
`allocate_task_to_cluster`'s `cluster.allocate…` and creates the body, at time `p.wake` -/
structure CrossAlloc (s0 s1 : Sys) (p : Proc) (t : Tid) (m : Mid) (cross : List Tid) : Prop where
  reach : Reach s0 s1
  mem : p ∈ s1.procs
  en : s1.enabled p.pid
  kind : ∃ obs ing ret, p.k = .allocTask t m cross obs ing ret
  fresh : t ∉ s1.cl.running

/-- the allocation block, when it does not raise, creates the body of `t` on `m` as process
`s1.nextPid`, due at the time of the block itself -/
theorem cross_alloc_spawns {s0 s1 : Sys} {p : Proc} {t : Tid} {m : Mid} {cross : List Tid}
    (hs : SInv s1) (h : CrossAlloc s0 s1 p t m cross) (orc : Oracle)
    (hc : (s1.resume p.pid orc).1.crashed = none) :
    CrossSeg s1.nextPid t m cross p.wake (s1.resume p.pid orc).1 := by
  have hp : s1.proc? p.pid = some p := hs.pw.proc?_of_mem h.mem
  obtain ⟨p', hp', ha, hmin⟩ := h.en
  rw [hp] at hp'
  injection hp' with hp'
  subst hp'
  obtain ⟨_, hnr⟩ := resume_nocrash s1 p.pid orc p hp ha hc
  obtain ⟨obs, ing, ret, hk⟩ := h.kind
  have hb : s1.block p orc = s1.allocTaskBlock p.wake t m cross obs ing ret := by
    unfold block; simp only [hk]
  refine CrossSeg.core ?_ (resume_core s1 p.pid orc p hp ha)
    ((resume_machs s1 p.pid orc).trans (block_machs s1 p orc).symm)
  have hnew : ({ pid := s1.nextPid, k := .doWork t m cross 0 0, wake := p.wake } : Proc) ∈ (s1.block p orc).1.procs := by
    rcases allocTaskBlock_cases s1 hs.pw p.wake t m cross obs ing ret with
      ⟨_, e, _, heq⟩ | ⟨_, _, heq⟩ | ⟨hr, _⟩ | ⟨hr, _⟩ | ⟨hr, _⟩
    · rw [hb, heq] at hnr; exact absurd rfl (hnr e)
    · rw [hb, heq]
      simp only [spawn_procs, updTask_procs, List.mem_append, List.mem_singleton]
      exact Or.inr rfl
    · exact absurd hr h.fresh
    · exact absurd hr h.fresh
    · exact absurd hr h.fresh
  have hmem := cross_new_mem hs h.mem ha hmin orc (fin (s1.block p orc).2.1 (s1.block p orc).2.2 p.wake) hnew
    (by rw [hk]; simp [PK.tag])
  exact ⟨_, hmem, rfl, 0, 0, rfl, fun _ => rfl, fun e => absurd e (by simp), fun e => absurd e (by simp)⟩

/-! ### later states -/

theorem cross_later_crashed {s0 a s : Sys} (h : Later s0 a s) (hc : s.crashed = none) : a.crashed = none := by
  induction h with
  | refl _ => exact hc
  | step s' pid orc _ hen ih =>
    obtain ⟨p, hp, ha, _⟩ := hen
    exact ih (resume_nocrash s' pid orc p hp ha hc).1

theorem cross_later_seg {s0 a s : Sys} (hw : WFConfig s0) (hbuf : bufList s0.buf = []) (hno : s0.alg ≠ .oracle)
    (h : Later s0 a s) {b : Nat} {t : Tid} {m : Mid} {cross : List Tid} {now : Time} (hwf : IsWf t)
    (hseg : CrossSeg b t m cross now a) (hc : s.crashed = none) : CrossSeg b t m cross now s := by
  induction h with
  | refl _ => exact hseg
  | step s' pid orc hl hen ih =>
    have hc' : s'.crashed = none := by
      obtain ⟨p, hp, ha, _⟩ := hen
      exact (resume_nocrash s' pid orc p hp ha hc).1
    have hr := hl.reach_right
    exact cross_seg_step (reach_inv s0 s' hw (hr.toOk hno)) (reach_ph s0 s' hw hbuf hno hr hc')
      (by rw [reach_alg hr]; exact hno) hwf (ih hc') hen orc hc

/-! ### where a body comes from -/

theorem cross_body_origin (s0 s : Sys) (hw : WFConfig s0) (hbuf : bufList s0.buf = []) (hno : s0.alg ≠ .oracle)
    (h : Reach s0 s) (hc : s.crashed = none) :
    ∀ d ∈ s.procs, ∀ t m cross ph tot, d.k = .doWork t m cross ph tot →
      ∃ s1 p orc, CrossAlloc s0 s1 p t m cross ∧ d.pid = s1.nextPid ∧ Later s0 (s1.resume p.pid orc).1 s := by
  induction h with
  | start =>
    obtain ⟨hprocs, _⟩ := hw.fresh
    have hp : s0.start.procs = s0.procs ++
        [{ pid := s0.nextPid, k := .monitor, wake := 0 }, { pid := s0.nextPid + 1, k := .telescope, wake := 0 },
         { pid := s0.nextPid + 2, k := .clusterLoop, wake := 0 }, { pid := s0.nextPid + 3, k := .schedLoop, wake := 0 },
         { pid := s0.nextPid + 4, k := .bufferLoop, wake := 0 }] := by
      simp [start, spawn]
    rw [hprocs] at hp
    simp only [List.nil_append] at hp
    intro d hd t m cross ph tot hk
    rw [hp] at hd
    simp only [List.mem_cons, List.not_mem_nil, or_false] at hd
    rcases hd with rfl | rfl | rfl | rfl | rfl <;> simp at hk
  | step s pid orc hr hen ih =>
    have hen0 := hen
    obtain ⟨p, hp, ha, hmin⟩ := hen
    obtain ⟨hc0, hnr⟩ := resume_nocrash s pid orc p hp ha hc
    obtain ⟨hpm, hpid⟩ := proc?_some hp
    subst hpid
    have hs := reach_inv s0 s hw (hr.toOk hno)
    have hpr := reach_pr s0 s hw hbuf hno hr hc0
    have hcore := resume_core s p.pid orc p hp ha
    have htel : p.k = .telescope → ((natNow p.wake : Nat) : Time) = p.wake := by
      intro hk
      obtain ⟨n, hn⟩ := hpr.telNat p hpm hk
      rw [hn, natNow_natCast]
    have hpc := resume_procs hs hpm ha hmin orc htel
    have hreach' : Reach s0 (s.resume p.pid orc).1 := Reach.step s p.pid orc hr hen0
    have hlater : ∀ {a : Sys}, Later s0 a s → Later s0 a (s.resume p.pid orc).1 :=
      fun hl => Later.step s p.pid orc hl hen0
    have htag := block_tag s hs.pw p orc
    intro d hd t m cross ph tot hdk
    rw [hcore.procs] at hd
    rcases hpc d hd with rfl | ⟨h1, _⟩ | ⟨h1, h2, _⟩
    · -- the process that ran: a body before the block as well
      rw [fin_k] at hdk
      rw [hdk] at htag
      cases hk : p.k with
      | doWork t1 m1 c1 ph1 tot1 =>
        have hb : s.block p orc = s.doWorkBlock p.wake orc t1 m1 c1 ph1 tot1 := by
          unfold block; simp only [hk]
        have hsh := doWorkBlock_shape s p.wake orc t1 m1 c1 ph1 tot1
        rw [← hb] at hsh
        have hkk : ∃ ph' tot', (s.block p orc).2.1 = .doWork t1 m1 c1 ph' tot' := by
          generalize s.block p orc = X at hsh
          cases hsh with
          | raised ph' e => exact ⟨ph', tot1, rfl⟩
          | wait w _ _ _ => exact ⟨1, tot1, rfl⟩
          | start r mm dur tot' _ _ _ => exact ⟨2, tot', rfl⟩
          | finish _ => exact ⟨3, tot1, rfl⟩
        obtain ⟨ph', tot', hk'⟩ := hkk
        rw [hk'] at hdk
        simp only [PK.doWork.injEq] at hdk
        obtain ⟨e1, e2, e3, _⟩ := hdk
        subst e1 e2 e3
        obtain ⟨s1, p1, orc1, g1, g2, g3⟩ := ih hc0 p hpm t1 m1 c1 ph1 tot1 hk
        exact ⟨s1, p1, orc1, g1, by rw [fin_pid]; exact g2, hlater g3⟩
      | _ => rw [hk] at htag; simp [PK.tag] at htag
    · obtain ⟨s1, p1, orc1, g1, g2, g3⟩ := ih hc0 d h1 t m cross ph tot hdk
      exact ⟨s1, p1, orc1, g1, g2, hlater g3⟩
    · -- a new process: the block is an allocation block
      by_cases k2 : p.k.tag = "allocTask"
      · cases hk : p.k with
        | allocTask t1 m1 preds obs ing ret =>
          have hb : s.block p orc = s.allocTaskBlock p.wake t1 m1 preds obs ing ret := by
            unfold block; simp only [hk]
          rw [hb] at h1
          rcases allocTaskBlock_cases s hs.pw p.wake t1 m1 preds obs ing ret with
            ⟨_, e, _, heq⟩ | ⟨hfr, _, heq⟩ | ⟨_, _, heq⟩ | ⟨_, _, e, _, heq⟩ | ⟨_, _, _, heq⟩
          · rw [heq] at h1; exact absurd h1 h2
          · rw [heq] at h1
            simp only [spawn_procs, updTask_procs, List.mem_append, List.mem_singleton] at h1
            rcases h1 with h3 | h3
            · exact absurd h3 h2
            · subst h3
              simp only [PK.doWork.injEq] at hdk
              obtain ⟨e1, e2, e3, _⟩ := hdk
              subst e1 e2 e3
              exact ⟨s, p, orc, ⟨hr, hpm, hen0, ⟨obs, ing, ret, hk⟩, hfr⟩, rfl, Later.refl hreach'⟩
          · rw [heq] at h1; exact absurd h1 h2
          · rw [heq] at h1; exact absurd h1 h2
          · rw [heq] at h1; exact absurd h1 h2
        | _ => rw [hk] at k2; simp [PK.tag] at k2
      · by_cases k3 : p.k.tag = "doWork"
        · cases hk : p.k with
          | doWork t1 m1 preds ph1 tot1 =>
            have hb : s.block p orc = s.doWorkBlock p.wake orc t1 m1 preds ph1 tot1 := by
              unfold block; simp only [hk]
            rw [hb, doWorkBlock_procs] at h1
            exact absurd h1 h2
          | _ => rw [hk] at k3; simp [PK.tag] at k3
        · by_cases k4 : p.k.tag = "allocTasks"
          · cases hk : p.k with
            | allocTasks o sc pa po fn =>
              have hb : s.block p orc = s.allocTasksBlock p.wake orc p.pc o sc pa po fn := by
                unfold block; simp only [hk]
              obtain ⟨sc2, pa2, po2, fn2, _, cout⟩ := cross_allocTasksBlock_sum s p.wake orc p.pc o sc pa po fn
                (by rw [← hb]; exact hnr)
              rw [← hb] at cout
              rcases cout.procs d h1 with h3 | ⟨t2, m2, paq, r, k1, _⟩
              · exact absurd h3 h2
              · rw [k1] at hdk; exact absurd hdk (by simp)
            | _ => rw [hk] at k4; simp [PK.tag] at k4
          · have hh := block_new_harmless s p orc k2 k3 k4 d h1 h2
            exact absurd (by rw [hdk]; rfl) hh.2.1

/-- the recorded start with the allocation time made explicit -/
theorem cross_reach_recorded_start_exact (s0 s : Sys) (hw : WFConfig s0) (hbuf : bufList s0.buf = [])
    (hno : s0.alg ≠ .oracle) (h : Reach s0 s) (hc : s.crashed = none) :
    ∀ d ∈ s.procs, ∀ t m cross ph tot, d.k = .doWork t m cross ph tot → 2 ≤ ph → IsWf t →
      ∃ s1 p orc, CrossAlloc s0 s1 p t m cross ∧ d.pid = s1.nextPid ∧
        Later s0 (s1.resume p.pid orc).1 s ∧
        CrossSeg s1.nextPid t m cross p.wake (s1.resume p.pid orc).1 ∧
        ∃ r mm, s.task? t = some r ∧ s.machine? m = some mm ∧
          r.ast = some (startTime p.wake mm.bw (crossArr s r cross)) := by
  intro d hd t m cross ph tot hdk hph hwf
  obtain ⟨s1, p, orc, g1, g2, g3⟩ := cross_body_origin s0 s hw hbuf hno h hc d hd t m cross ph tot hdk
  have hc1 := cross_later_crashed g3 hc
  have hs1 := reach_inv s0 s1 hw (g1.reach.toOk hno)
  have hseg1 := cross_alloc_spawns hs1 g1 orc hc1
  have hseg := cross_later_seg hw hbuf hno g3 hwf hseg1 hc
  refine ⟨s1, p, orc, g1, g2, g3, hseg1, ?_⟩
  obtain ⟨d', hd', hdb, ph', tot', hdk', _, _, h2⟩ := hseg
  have hs := reach_inv s0 s hw (h.toOk hno)
  have : d' = d := hs.pw.eq_of_pid hd' hd (hdb.trans g2.symm)
  subst this
  rw [hdk] at hdk'
  simp only [PK.doWork.injEq] at hdk'
  obtain ⟨_, _, _, e4, _⟩ := hdk'
  subst e4
  exact h2 hph

end Sys
end Topsim
