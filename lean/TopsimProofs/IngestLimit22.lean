/-
  IngestLimit22 — the ingest limit along the runs of the block system in which
  the supervisors' blocks follow the telescope's block of the same instant
  (`ReachOrd`), and along every run of the deterministic simulator.
-/
import TopsimProofs.IngestLimit21

namespace Topsim

open KState Sys

namespace Sys

/-- `ReachOk` with the simulator's oracle discipline (no delay imposed on task bodies from
outside) and one fact about the order inside an instant: a block of an ingest supervisor
(`allocate_ingest`) runs after the telescope's block of that instant (the telescope, if alive, is
already due one step later). -/
inductive ReachOrd (s0 : Sys) : Sys → Prop
  | start : ReachOrd s0 s0.start
  | step (s : Sys) (pid : Nat) (orc : Oracle) :
      ReachOrd s0 s → s.enabled pid → (s.alg = .oracle → orc.preOk) → orc.total = none →
      (∀ p, s.proc? pid = some p → p.k.aiObs ≠ none →
        ∀ t ∈ s.procs, t.k = .telescope → t.alive = true → p.wake + 1 ≤ t.wake) →
      ReachOrd s0 (s.resume pid orc).1

theorem ReachOrd.toOk {s0 s : Sys} (h : ReachOrd s0 s) : ReachOk s0 s := by
  induction h with
  | start => exact ReachOk.start
  | step s pid orc _ hen hpre _ _ ih => exact ReachOk.step s pid orc ih hen hpre

theorem reachOrd_ti (s0 s : Sys) (hw : WFConfig s0) (h : ReachOrd s0 s) : ILTI s := by
  induction h with
  | start => exact ilti_start s0 hw
  | step s pid orc hr hen hpre htot hpol ih =>
    exact ilti_step (reach_inv s0 s hw hr.toOk) ih (reach_il s0 s hw hr.toOk).1 hen orc hpre htot hpol

/-- in such a run the telescope never finds a stale allocation process -/
theorem ReachOrd.toTelFirst {s0 s : Sys} (hw : WFConfig s0) (h : ReachOrd s0 s) : ReachTelFirst s0 s := by
  induction h with
  | start => exact ReachTelFirst.start
  | step s pid orc hr hen hpre _ _ ih =>
    refine ReachTelFirst.step s pid orc ih hen hpre ?_
    rintro ⟨p, hp, hk⟩
    obtain ⟨p', hp', ha, hmin⟩ := hen
    rw [hp] at hp'; cases hp'
    exact (reachOrd_ti s0 s hw hr).no_stale (proc?_some hp).1 ha hk hmin

theorem reach_ingest_ord (s0 s : Sys) (hw : WFConfig s0) (h : ReachOrd s0 s) :
    s.cl.ingest.length + s.ingestPromised ≤ s.maxIngest :=
  reach_ingest_telFirst s0 s hw (h.toTelFirst hw)

end Sys

/-! ### the simulator -/

/-- in SimPy's order a supervisor's block comes after the telescope's block of the instant -/
theorem il_l3_policy {k : SimState} (hs : SInv k.st) (h : IlHeapOk k) (hmon : k.st.isMon) (htf : IlTelFirst k)
    {e : HEntry} (hpk : k.peek = some e) {p : Proc} (hpp : k.st.proc? e.pid = some p)
    (het : e.time = p.wake) (hai : p.k.aiObs ≠ none) :
    ∀ t ∈ k.st.procs, t.k = .telescope → t.alive = true → p.wake + 1 ≤ t.wake := by
  intro t ht htk hta
  obtain ⟨he, hleast⟩ := peek_spec k e hpk
  obtain ⟨hpm, hpid⟩ := proc?_some hpp
  obtain ⟨m, hm, hmpid, _, hfirst⟩ := htf t ht htk hta
  have hpw := hs.pw
  have hem : e ≠ m := by
    intro hem
    have : p = t := hpw.eq_of_pid hpm ht (by rw [hpid, hem, hmpid])
    rw [this, htk] at hai
    exact hai rfl
  have he0 : e.pid ≠ 0 := by
    intro e0
    obtain ⟨q, hq, hqk, _⟩ := hmon
    rw [e0] at hpp
    rw [hq] at hpp; cases hpp
    rw [hqk] at hai; exact hai rfl
  have hedw : ¬ k.st.isDW e.pid := by
    rintro ⟨q, hq, hqk⟩
    rw [hpp] at hq; cases hq
    cases hkk : p.k <;> simp [hkk, PK.aiObs, PK.isDoWork] at hai hqk
  have hmt : m.time = t.wake := h.time m hm t ht hmpid.symm hta
  rcases hfirst e he hem he0 hedw with h1 | ⟨_, h2⟩
  · rw [← het, ← hmt, h1]; exact Rat.le_refl
  · rw [hleast m hm] at h2; cases h2

structure IlL3Inv (k : SimState) : Prop where
  sinv : SInv k.st
  heap : IlHeapOk k
  mon : MonFirst k
  tel : IlTelFirst k
  il : ILInv k.st
  ti : ILTI k.st
  lim : ilT k.st

theorem IlL3Inv.init (s0 : Sys) (hw : WFConfig s0) : IlL3Inv (SimState.start s0) := by
  obtain ⟨hprocs, hnp, _⟩ := hw.fresh
  obtain ⟨h1, h2⟩ := il_start s0 hw
  exact ⟨il_start_sinv s0 hw, IlHeapOk.init s0 hw, MonFirst.init s0 hprocs hnp, IlTelFirst.init s0 hw,
    h1, ilti_start s0 hw, by unfold ilT; show s0.start.ilLoadS ≤ _; omega⟩

theorem Sys.ILTI.same {s s' : Sys} (h : ILTI s) (h1 : s'.obs = s.obs) (h2 : s'.cl = s.cl) (h3 : s'.tasks = s.tasks)
    (h4 : s'.procs = s.procs) : ILTI s' :=
  h.frame h1 (by rw [h2]) (fun _ _ => by rw [h2]) (IlTaskK.of_eq h3)
    (fun q hq _ => by rw [h4]; exact hq) (fun q hq => Or.inl (by rw [← h4]; exact hq))

theorem ilT_of_ilq {s s' : Sys} (h : ILInv s) (hq : ILQ s s') (ht : ilT s) : ilT s' := by
  have := (h.quiet hq).2
  unfold ilT at ht ⊢
  rw [hq.maxI]; omega

theorem IlL3Inv.collate {k : SimState} (h : IlL3Inv k) : IlL3Inv { k with st := k.st.collate } :=
  ⟨h.sinv.il_collate, h.heap.collate, h.mon.collate, h.tel.collate,
    (h.il.quiet (ILQ.same rfl rfl rfl rfl rfl rfl rfl)).1, h.ti.same rfl rfl rfl rfl,
    ilT_of_ilq h.il (ILQ.same rfl rfl rfl rfl rfl rfl rfl) h.lim⟩

theorem il_oracle_total (env : SimEnv) (s : Sys) : (env.oracle s).total = none := rfl

theorem IlL3Inv.step (env : SimEnv) {k k' : SimState} (h : IlL3Inv k)
    (hstep : k.step (simHandler env) = some k') : IlL3Inv k' := by
  obtain ⟨hheap', hs', e, hpk, hcase⟩ := il_l3_step env k k' h.sinv h.heap hstep
  have hmon' := MonFirst.step env k k' h.mon hstep
  have htel' := IlTelFirst.step env k k' h.sinv h.heap h.mon.mon h.tel hstep
  rcases hcase with ⟨hc, _⟩ | ⟨hen, ⟨p, hpp, ha, het⟩, hc⟩
  · have hq : ILQ k.st k'.st := by rw [hc]; exact ILQ.same rfl rfl rfl rfl rfl rfl rfl
    exact ⟨hs', hheap', hmon', htel', (h.il.quiet hq).1, by rw [hc]; exact h.ti.same rfl rfl rfl rfl,
      ilT_of_ilq h.il hq h.lim⟩
  · have hpol : ∀ p', k.st.proc? e.pid = some p' → p'.k.aiObs ≠ none →
        ∀ t ∈ k.st.procs, t.k = .telescope → t.alive = true → p'.wake + 1 ≤ t.wake := by
      intro p' hp' hai
      rw [hpp] at hp'; cases hp'
      exact il_l3_policy h.sinv h.heap h.mon.mon h.tel hpk hpp het hai
    have hti' := ilti_step h.sinv h.ti h.il hen (env.oracle k.st) (fun _ => il_oracle_preOk env k.st)
      (il_oracle_total env k.st) hpol
    obtain ⟨k1, _, _, k4⟩ := il_step h.sinv h.il hen (env.oracle k.st) (fun _ => il_oracle_preOk env k.st)
    refine ⟨hs', hheap', hmon', htel', by rw [hc]; exact k1, by rw [hc]; exact hti', ?_⟩
    rw [hc]
    apply k4 _ h.lim
    rintro ⟨p', hp', hk⟩
    rw [hpp] at hp'; cases hp'
    obtain ⟨p'', hp'', _, hmin⟩ := hen
    rw [hpp] at hp''; cases hp''
    exact h.ti.no_stale (proc?_some hpp).1 ha hk hmin

theorem SimReach.l3inv {env : SimEnv} {s0 : Sys} (hw : WFConfig s0) {k : SimState}
    (h : SimReach env s0 k) : IlL3Inv k := by
  induction h with
  | start => exact IlL3Inv.init s0 hw
  | step k k1 _ hs ih => exact ih.step env hs
  | collate k _ ih => exact ih.collate

/-- along every run of the simulator: machines ingesting plus machines promised stay within the
telescope's ingest limit -/
theorem sim_ingest_limit (env : SimEnv) (s0 : Sys) (hw : WFConfig s0) (k : SimState)
    (h : SimReach env s0 k) :
    k.st.cl.ingest.length + k.st.ingestPromised ≤ k.st.maxIngest ∧ k.st.ingestStale ≤ k.st.cl.ingest.length := by
  have hinv := h.l3inv hw
  obtain ⟨U, hU⟩ := hinv.sinv.ci
  have h1 := hinv.lim
  have h2 := il_ingest_length hU.inv
  unfold ilT ilLoadS at h1
  refine ⟨by omega, ?_⟩
  rw [h2]
  unfold ingestStale ilStale
  exact List.countP_le_length

/-- the simulator's runs are `ReachOrd` runs of the block system (up to the `halted` flag) -/
theorem l3_refines_reachOrd (env : SimEnv) (s0 : Sys) (hw : WFConfig s0) (k : SimState)
    (h : SimRun env s0 k) :
    ∃ s, ReachOrd s0 s ∧ (k.st = s ∨ (k.st = { s with halted := true } ∧ k.st.halted = true)) := by
  induction h with
  | start => exact ⟨_, ReachOrd.start, Or.inl rfl⟩
  | step k k1 hr hh hs ih =>
    obtain ⟨s, hrs, hks⟩ := ih
    rcases hks with hks | ⟨_, hks⟩
    · have hinv := hr.toReach.l3inv hw
      obtain ⟨_, _, e, hpk, hc⟩ := il_l3_step env k k1 hinv.sinv hinv.heap hs
      rcases hc with ⟨hc, _⟩ | ⟨hen, ⟨p, hpp, ha, het⟩, hc⟩
      · exact ⟨s, hrs, Or.inr ⟨by rw [hc, hks], by rw [hc]⟩⟩
      · refine ⟨_, ReachOrd.step s e.pid (env.oracle s) hrs (by rw [← hks]; exact hen)
          (fun _ => il_oracle_preOk env s) rfl ?_, Or.inl ?_⟩
        · intro p' hp' hai
          rw [← hks] at hp' ⊢
          rw [hpp] at hp'; cases hp'
          exact il_l3_policy hinv.sinv hinv.heap hinv.mon.mon hinv.tel hpk hpp het hai
        · rw [hc, hks]
    · rw [hks] at hh; exact absurd hh (by simp)

end Topsim
