/-
  TopsimProofs.TaskTimeLemmas — lemmas about `calculateRuntime`, `occupancy`
  and `finishTime` cited by TopsimProps.C06.
-/
import TopsimModel.TaskTime

namespace Topsim

theorem runtime_formula (f d c b r : Nat) (h : calculateRuntime f d c b = .ok r) :
    0 < c ∧ 0 < b ∧ r = max (f / c) (d / b) := by
  unfold calculateRuntime at h
  split at h
  · cases h
  · rename_i hz
    injection h with h
    refine ⟨?_, ?_, h.symm⟩ <;> omega

theorem occupancy_eq (total : Nat) : occupancy total = max 1 total := by
  unfold occupancy bodyWait
  split <;> omega

theorem finishTime_sub (ast : Time) (total : Nat) :
    finishTime ast total - ast = ((max 1 total : Nat) : Rat) := by
  have h : bodyWait total + 1 = max 1 total := occupancy_eq total
  rw [← h]
  unfold finishTime
  show ast + ((bodyWait total : Nat) : Rat) + 1 - ast = ((bodyWait total + 1 : Nat) : Rat)
  grind

theorem occupancy_mono (r total : Nat) (h : r ≤ total) : occupancy r ≤ occupancy total := by
  rw [occupancy_eq, occupancy_eq]; omega

theorem mono_work (f f' d d' c b r r' : Nat) (hf : f ≤ f') (hd : d ≤ d')
    (h : calculateRuntime f d c b = .ok r) (h' : calculateRuntime f' d' c b = .ok r') :
    occupancy r ≤ occupancy r' := by
  obtain ⟨_, _, hr⟩ := runtime_formula _ _ _ _ _ h
  obtain ⟨_, _, hr'⟩ := runtime_formula _ _ _ _ _ h'
  apply occupancy_mono
  have h1 : f / c ≤ f' / c := Nat.div_le_div_right hf
  have h2 : d / b ≤ d' / b := Nat.div_le_div_right hd
  omega

theorem anti_speed (f d c c' b b' r r' : Nat) (hc : c' ≤ c) (hb : b' ≤ b)
    (h : calculateRuntime f d c b = .ok r) (h' : calculateRuntime f d c' b' = .ok r') :
    occupancy r ≤ occupancy r' := by
  obtain ⟨_, _, hr⟩ := runtime_formula _ _ _ _ _ h
  obtain ⟨hc', hb', hr'⟩ := runtime_formula _ _ _ _ _ h'
  apply occupancy_mono
  have h1 : f / c ≤ f / c' := Nat.div_le_div_left hc hc'
  have h2 : d / b ≤ d / b' := Nat.div_le_div_left hb hb'
  omega

theorem ingest_span (c b duration : Nat) (ast : Time) (hd : 1 ≤ duration) :
    nominalDuration 0 0 c b duration = .ok duration ∧
    finishTime ast duration - ast = (duration : Rat) := by
  refine ⟨by simp [nominalDuration], ?_⟩
  rw [finishTime_sub]
  have : max 1 duration = duration := by omega
  rw [this]

end Topsim
