/-
  Block-level lemmas cited by TopsimProps/C08, C12, C13.
-/
import TopsimProofs.BlockLemmas1

namespace Topsim

deriving instance DecidableEq for PK

namespace Sys

theorem admission_guard (now : Nat) (s s' : Sys) (oid : Oid) (o : Obs)
    (ho : s.obs? oid = some o) (h : telescopeVisit now (s, none) oid = (s', none))
    (hadm : s'.admitted ≠ s.admitted) :
    o.est ≤ now ∧ o.status = .waiting ∧
    (o.demand : Int) ≤ (s.totalArrays : Int) - s.telUse ∧
    o.ingestDemand ≤ s.cl.available.length ∧
    s.cl.ingest.length + o.ingestDemand ≤ s.maxIngest ∧
    s.provIngest + o.ingestDemand ≤ s.maxIngest ∧
    o.rate * o.duration ≤ s.buf.hot.cur ∧ o.rate * o.duration < s.buf.hot.total ∧
    s.buf.coldHasCapacityFor (o.rate * o.duration) = true ∧
    s'.admitted = s.admitted ++ [oid] ∧ s'.telUse = s.telUse + o.demand ∧
    s'.provIngest = s.provIngest + o.ingestDemand := sorry

theorem admission_on_time (now : Nat) (s : Sys) (oid : Oid) (o : Obs) (ho : s.obs? oid = some o)
    (hdue : o.est ≤ now) (hw : o.status = .waiting)
    (harr : (o.demand : Int) ≤ (s.totalArrays : Int) - s.telUse)
    (hav : o.ingestDemand ≤ s.cl.available.length) (hlim : o.ingestDemand ≤ s.maxIngest)
    (hing : s.cl.ingest.length + o.ingestDemand ≤ s.maxIngest)
    (hprov : s.provIngest + o.ingestDemand ≤ s.maxIngest)
    (hdur : 1 ≤ o.duration)
    (hhot : o.rate * o.duration ≤ s.buf.hot.cur) (hcap : o.rate * o.duration < s.buf.hot.total)
    (hcold : s.buf.coldHasCapacityFor (o.rate * o.duration) = true) :
    ∃ s', telescopeVisit now (s, none) oid = (s', none) ∧ s'.admitted = s.admitted ++ [oid] ∧
      (s'.obs? oid).map (·.ast) = some (some now) := sorry

theorem arrays_step (now : Nat) (s s' : Sys) (oid : Oid) (e : Option Err)
    (h : telescopeVisit now (s, none) oid = (s', e))
    (hb : 0 ≤ s.telUse ∧ s.telUse ≤ s.totalArrays)
    (hfin : ∀ o, s.obs? oid = some o → o.isFinishedAt now s.telStatus = true → (o.demand : Int) ≤ s.telUse) :
    0 ≤ s'.telUse ∧ s'.telUse ≤ s'.totalArrays := sorry

theorem provisionIngest_exact (c c' : Cluster) (demand : Nat) (o : Oid) (pairs : List (Mid × Tid))
    (hnd : c.available.Nodup) (h : c.provisionIngest demand o = (c', none, pairs)) :
    pairs.length = demand ∧ pairs.map (·.1) = c.available.take demand ∧
    c'.ingest = c.ingest ++ c.available.take demand ∧ c'.available = c.available.drop demand ∧
    pairs.map (·.2) = (List.range demand).map (Tid.ingest o) := sorry

theorem status_monotone (s : Sys) (pid : Nat) (orc : Oracle) (oid : Oid) (o : Obs)
    (ho : s.obs? oid = some o) :
    ∃ o', (s.resume pid orc).1.obs? oid = some o' ∧ obsRank o.status ≤ obsRank o'.status ∧
      o'.duration = o.duration ∧ o'.est = o.est ∧ o'.demand = o.demand := sorry

theorem row_true (s : Sys) (U : List Tid) (hinv : Cluster.Inv s.cl U) (n : Nat) :
    let r := s.mkRow n
    r.running = s.cl.running.length ∧
    r.available = (s.cl.machines.length : Int) - s.cl.running.length ∧
    r.ingest = (s.cl.running.filter Tid.isIngest).length ∧
    r.finished = (s.cl.finished.filter (·.2)).length ∧
    r.provisioned = s.cl.idle.length ∧
    r.hot = s.buf.hot.cur ∧ r.cold = s.buf.cold.cur ∧
    r.stored = s.buf.hot.stored.length + s.buf.cold.stored.length ∧
    r.waiting = (s.obs.filter (·.status = .waiting)).length ∧
    r.obsFinished = (s.obs.filter (·.status = .finished)).length ∧
    r.queue = s.queue.length := sorry

theorem row_available_true (s : Sys) (U : List Tid) (hinv : Cluster.Inv s.cl U) (n : Nat)
    (hp : s.cl.pending = []) :
    (s.mkRow n).available = (s.cl.available.length : Int) + s.cl.idleAll.length := sorry

theorem rows_only_monitor (s : Sys) (pid : Nat) (orc : Oracle) (p : Proc)
    (hp : s.proc? pid = some p) (hk : p.k ≠ .monitor) :
    (s.resume pid orc).1.rows = s.rows := sorry

theorem reach_rows_count (s0 s : Sys) (hw : WFConfig s0) (h : Reach s0 s) :
    ∃ p, s.proc? 0 = some p ∧ p.k = .monitor ∧ p.alive = true ∧
      s.rows.length = p.pc ∧ p.wake = (p.pc : Rat) := sorry

theorem events_no_loss (s : Sys) (pid : Nat) (orc : Oracle) (p : Proc) (hp : s.proc? pid = some p)
    (hk : p.k ≠ .telescope ∧ p.k ≠ .schedLoop) :
    ∀ e ∈ s.log ++ s.telEvents ++ s.schEvents ++ s.bufEvents,
      e ∈ (s.resume pid orc).1.log ++ (s.resume pid orc).1.telEvents ++
        (s.resume pid orc).1.schEvents ++ (s.resume pid orc).1.bufEvents := sorry

theorem events_loop_clear (s : Sys) (pid : Nat) (orc : Oracle) (p : Proc) (hp : s.proc? pid = some p)
    (hk : p.k = .telescope ∨ p.k = .schedLoop) :
    ∀ e ∈ s.log ++ (if p.k = .telescope then [] else s.telEvents) ++
            (if p.k = .schedLoop then [] else s.schEvents) ++ s.bufEvents,
      e ∈ (s.resume pid orc).1.log ++ (s.resume pid orc).1.telEvents ++
        (s.resume pid orc).1.schEvents ++ (s.resume pid orc).1.bufEvents := sorry

theorem events_stamped (s : Sys) (pid : Nat) (orc : Oracle) (p : Proc) (hp : s.proc? pid = some p)
    (hint : p.wake = ((natNow p.wake : Nat) : Rat)) :
    ∀ e ∈ (s.resume pid orc).1.log ++ (s.resume pid orc).1.telEvents ++
        (s.resume pid orc).1.schEvents ++ (s.resume pid orc).1.bufEvents,
      e ∉ s.log ++ s.telEvents ++ s.schEvents ++ s.bufEvents → e.time = natNow p.wake := sorry

theorem finished_after_duration (now : Nat) (s s' : Sys) (oid : Oid) (o : Obs)
    (ho : s.obs? oid = some o) (h : telescopeVisit now (s, none) oid = (s', none))
    (hev : (⟨now, oid, .telFinished⟩ : Event) ∈ s'.telEvents ∧ (⟨now, oid, .telFinished⟩ : Event) ∉ s.telEvents) :
    ∃ a, o.ast = some a ∧ a + o.duration ≤ now ∧ o.status ≠ .finished ∧
      (s'.obs? oid).map (·.status) = some .finished := sorry

end Sys
end Topsim
