/-
  Block-level lemmas cited by TopsimProps/C08, C12, C13.

  * BlockLemmas1 — projections of the state helpers, `ObsMono`, the `Frame` relation
  * BlockLemmas2 — `Frame` for every block of every process kind but the monitor
  * BlockLemmas3 — from blocks to `resume`: `rows_only_monitor`, `status_monotone`,
                   `events_no_loss`, `events_loop_clear`, `events_stamped`,
                   `reach_rows_count`
  * BlockLemmas4 — the admission block: `admission_guard`, `admission_on_time`,
                   `arrays_step`, `finished_after_duration`; `provisionIngest_exact`;
                   `row_true`, `row_available_true`
-/
import TopsimModel.Reach
import TopsimProofs.ClusterSteps
import TopsimProofs.BlockLemmas1
import TopsimProofs.BlockLemmas2
import TopsimProofs.BlockLemmas3
import TopsimProofs.BlockLemmas4
