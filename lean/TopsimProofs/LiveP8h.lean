/-
  LiveP8h — the declarations of Live8h.lean that depend on the configuration structures, restated for
  the plan-following configurations (`LivePCfg`, `NcPCfg`, `L7PLib`); the proofs are those of Live8h.lean.
-/
import TopsimProofs.LiveP8g

namespace Topsim

open KState Sys

section

variable {env : SimEnv} {s0 : Sys}

/-- **FIN.**  No live worker, every observation FINISHED and removed from the hot buffer, the
scheduler's queue empty: the simulation is finished. -/
theorem live_finished_P (C : LivePCfg env s0) (K : LiveKernel env s0) (n : Nat)
    (hq : ∀ q ∈ (simAt env s0 n).st.procs, q.alive = true →
      q.k.tag ≠ "allocIngest" ∧ q.k.tag ≠ "provIngest" ∧ q.k.tag ≠ "ingestStream" ∧
      q.k.tag ≠ "allocTask" ∧ q.k.tag ≠ "doWork")
    (hall : ∀ ob ∈ (simAt env s0 n).st.obs, ob.status = .finished ∧
      ob.id ∈ (simAt env s0 n).st.buf.hot.finished)
    (hqueue : (simAt env s0 n).st.queue = []) :
    (simAt env s0 n).st.isFinished = true := by
  obtain ⟨f1, f2, f3, _, _, f6, f7⟩ := live_free_P C K n hq (fun ob hob _ => (hall ob hob).1)
  rw [sim_isFinished_iff]
  refine ⟨?_, (cluster_isIdle_iff _).mpr ⟨f3, f1, f2⟩, hqueue,
    (telescope_isIdle_iff _).mpr ⟨fun ob hob => (hall ob hob).1, f7, f6⟩⟩
  rw [buffer_isEmpty_iff]
  have hcold := (live_noTier_P C K n).2
  have hc : (simAt env s0 n).st.buf.cold.cur = (simAt env s0 n).st.buf.cold.total := by
    rw [hcold]; exact C.hfull.2.2
  refine ⟨?_, hc⟩
  obtain ⟨hle, _⟩ := C07_bounds_simpy env s0 C.hw C.hb0 C.hfull (l8_rate_P C) _ (K.run n).1 (C.nr n)
  obtain ⟨_, _, hused, _⟩ := live_not_over env s0 C.hw C.hb0 C.hfull (l8_rate_P C) C.h1 _ (K.run n).1 (C.nr n)
  have hnil : (simAt env s0 n).st.obs.filter
      (fun ob => ob.status != .waiting && !(simAt env s0 n).st.buf.hot.finished.contains ob.id) = [] := by
    apply List.filter_eq_nil_iff.mpr
    intro ob hob
    have := (hall ob hob).2
    simp [this]
  rw [hnil, hc] at hused
  simp only [List.map_nil, List.sum_nil] at hused
  omega

/-- **SF2.**  The telescope creates a process only when a visit admits an observation, which is
appended to `admitted`, where it was not before. -/
theorem live_telescope_spawn_flips_P (C : LivePCfg env s0) (K : LiveKernel env s0) (n : Nat) {e : HEntry}
    {p : Proc} (hpk : (simAt env s0 n).peek = some e) (hpp : (simAt env s0 n).st.proc? e.pid = some p)
    (ha : p.alive = true) (hk : p.k = .telescope)
    (hsp : (simAt env s0 n).st.nextPid < (simAt env s0 (n + 1)).st.nextPid) :
    ∃ o, (∃ ob, (simAt env s0 n).st.obs? o = some ob) ∧ o ∉ (simAt env s0 n).st.admitted ∧
      o ∈ (simAt env s0 (n + 1)).st.admitted := by
  obtain ⟨e', p', hpk', hpp', _, _, _, _, hstep⟩ := l8_step_P C K n
  rw [hpk] at hpk'; cases hpk'
  rw [hpp] at hpp'; cases hpp'
  have hcore := resume_core (simAt env s0 n).st e.pid (env.oracle (simAt env s0 n).st) p hpp ha
  have hnd : (simAt env s0 (n + 1)).st.admitted.Nodup :=
    reach_admitted_nodup s0 _ C.hw (l8_reach_P C K (n + 1))
  have hnp : (simAt env s0 (n + 1)).st.nextPid
      = ((simAt env s0 n).st.block p (env.oracle (simAt env s0 n).st)).1.nextPid := by
    rw [hstep, hcore.nextPid, updProc_nextPid]
  have hadm : (simAt env s0 (n + 1)).st.admitted
      = ((simAt env s0 n).st.block p (env.oracle (simAt env s0 n).st)).1.admitted := by
    rw [hstep, hcore.admitted, updProc_admitted]
  rcases blockEvents_telescope (s := (simAt env s0 n).st) (env.oracle (simAt env s0 n).st) hk with
    ⟨_, hb, _⟩ | ⟨s1, e0, g1, g2, _, g4, _, _, _, hrun, _⟩
  · rw [hnp, hb] at hsp
    simp only at hsp
    omega
  · rcases l8_telRun_spawn hrun with h1 | ⟨o, pre, post, ⟨ob, hob⟩, hadm', hpre⟩
    · simp only at h1
      rw [hnp, h1, g4] at hsp; omega
    · simp only at hadm' hpre hob
      rw [← hadm] at hadm'
      rw [g1] at hpre
      refine ⟨o, ⟨ob, by rw [← obs?_congr g2]; exact hob⟩, ?_, by rw [hadm']; simp⟩
      intro hin
      have hin' : o ∈ pre := hpre.subset hin
      rw [hadm'] at hnd
      have := (List.nodup_append.mp hnd).2.2 o hin' o (by simp)
      exact this rfl

end

end Topsim

