/-
  PlanTraj1 — what never changes after planning.
  * Observation records keep their id and their workflow (`obsKey`) along every run.
  * The graph data of a task record (id, compute and data demands, predecessor list,
    per-edge volumes: `TG`) is never rewritten: every block that does not create
    records maps the record table through a function that keeps them (`MapStep`).
-/
import TopsimProofs.SpanTraj5
import TopsimProofs.LifeCycle19
import TopsimProofs.TaskTable1

namespace Topsim
namespace Sys

/-! ### observation records keep their id and their workflow -/

/-- what planning reads of an observation record -/
def obsKey (o : Obs) : Oid × Workflow := (o.id, o.wf)

/-- same ids and workflows, in the same order -/
def ObsSame (a b : List Obs) : Prop := b.map obsKey = a.map obsKey

theorem ObsSame.refl (a : List Obs) : ObsSame a a := rfl
theorem ObsSame.trans {a b c : List Obs} (h1 : ObsSame a b) (h2 : ObsSame b c) : ObsSame a c :=
  Eq.trans h2 h1
theorem ObsSame.of_eq {a b : List Obs} (h : b = a) : ObsSame a b := by subst h; rfl

theorem ObsSame.updObs (s : Sys) (o : Oid) (f : Obs → Obs) (hf : ∀ r, obsKey (f r) = obsKey r) :
    ObsSame s.obs (s.updObs o f).obs := by
  unfold ObsSame
  simp only [Sys.updObs, List.map_map]
  apply List.map_congr_left
  intro r _
  simp only [Function.comp]
  split
  · exact hf r
  · rfl

theorem telescopeVisit_obsSame (n : Nat) (acc : Sys × Option Err) (oid : Oid) :
    ObsSame acc.1.obs (telescopeVisit n acc oid).1.obs := by
  obtain ⟨s1, err⟩ := acc
  unfold telescopeVisit
  cases err with
  | some e => exact ObsSame.refl _
  | none =>
    simp only
    split
    · exact ObsSame.refl _
    · rename_i o _
      split
      · cases hc : s1.checkIngestCapacity o with
        | error e => exact ObsSame.refl _
        | ok r =>
          obtain ⟨s', b⟩ := r
          have hcore := checkIngestCapacity_core s1 o s' b hc
          cases b with
          | false => exact ObsSame.of_eq hcore.obs
          | true =>
            simp only
            refine (ObsSame.of_eq hcore.obs).trans ?_
            exact ObsSame.updObs { s' with telUse := s'.telUse + o.demand, telStatus := true, admitted := s'.admitted ++ [oid] }
              oid (fun r => { r with ast := some n }) (fun r => rfl)
      · split
        · exact ObsSame.updObs s1 oid (fun r => { r with status := .finished }) (fun r => rfl)
        · exact ObsSame.refl _

theorem telescopeBlock_obsSame (s : Sys) (now : Time) : ObsSame s.obs (s.telescopeBlock now).1.obs := by
  unfold telescopeBlock
  split
  · exact ObsSame.refl _
  · simp only
    have : ∀ (l : List Oid) (acc : Sys × Option Err),
        ObsSame acc.1.obs (l.foldl (telescopeVisit (natNow now)) acc).1.obs := by
      intro l
      induction l with
      | nil => intro acc; exact ObsSame.refl _
      | cons x r ih => intro acc; exact (telescopeVisit_obsSame _ acc x).trans (ih _)
    have h2 := this (s.obs.map (·.id))
      ({ s with telEvents := [], telDelayed := if s.schedDelayed = true ∧ (!s.telDelayed) = true then true else s.telDelayed }, none)
    generalize (List.foldl (telescopeVisit (natNow now)) ({ s with telEvents := [], telDelayed := if s.schedDelayed = true ∧ (!s.telDelayed) = true then true else s.telDelayed }, none) (s.obs.map (·.id))) = r at h2 ⊢
    obtain ⟨s1, e1⟩ := r
    cases e1 <;> exact h2

theorem allocIngestBlock_obsSame (s : Sys) (now : Time) (pc : Nat) (oid : Oid) (tl : Int) :
    ObsSame s.obs (s.allocIngestBlock now pc oid tl).1.obs := by
  have hi : ∀ s : Sys, ∀ tl, ObsSame s.obs (s.allocIngestIter now oid tl).1.obs := by
    intro s tl
    unfold allocIngestIter
    simp only
    split
    · exact ObsSame.refl _
    · split
      · exact ObsSame.refl _
      · split
        · exact ObsSame.updObs _ oid (fun r => { r with status := .running }) (fun r => rfl)
        · split <;> exact ObsSame.refl _
  unfold allocIngestBlock
  split
  · exact (ObsSame.updObs s oid (fun r => { r with ast := some (natNow now) }) (fun r => rfl)).trans (hi _ _)
  · exact hi _ _

theorem block_obsSame (s : Sys) (p : Proc) (orc : Oracle) : ObsSame s.obs (s.block p orc).1.obs := by
  by_cases h1 : p.k.tag = "telescope"
  · unfold block
    split <;> first
      | exact telescopeBlock_obsSame _ _
      | (rename_i hk; rw [hk] at h1; exact absurd h1 (by simp [PK.tag]))
  · by_cases h2 : p.k.tag = "allocIngest"
    · unfold block
      split <;> first
        | exact allocIngestBlock_obsSame _ _ _ _ _
        | (rename_i hk; rw [hk] at h2; exact absurd h2 (by simp [PK.tag]))
    · exact ObsSame.of_eq (block_obs s p orc h1 h2)

theorem resume_obsSame (s : Sys) (pid : Nat) (orc : Oracle) : ObsSame s.obs (s.resume pid orc).1.obs := by
  cases hp : s.proc? pid with
  | none => rw [resume_none s pid orc hp]; exact ObsSame.refl _
  | some p =>
    cases ha : p.alive with
    | false => rw [resume_dead s pid orc p hp ha]; exact ObsSame.refl _
    | true =>
      have hc := (resume_core s pid orc p hp ha).obs
      exact (block_obsSame s p orc).trans (ObsSame.of_eq (by rw [hc]; rfl))

/-- ids and workflows of the observation records are those of the configuration, in every
reachable state -/
theorem reach_obsSame {s0 s : Sys} (h : Reach s0 s) : ObsSame s0.obs s.obs := by
  induction h with
  | start => exact ObsSame.of_eq (start_obs s0)
  | step s pid orc _ _ ih => exact ih.trans (resume_obsSame s pid orc)

/-- every observation record stands for a configured observation with the same workflow -/
theorem ObsSame.back {a b : List Obs} (h : ObsSame a b) {o : Obs} (ho : o ∈ b) :
    ∃ o0 ∈ a, o0.id = o.id ∧ o0.wf = o.wf := by
  have : obsKey o ∈ b.map obsKey := List.mem_map_of_mem ho
  rw [h] at this
  obtain ⟨o0, h0, e⟩ := List.mem_map.mp this
  exact ⟨o0, h0, congrArg Prod.fst e, congrArg Prod.snd e⟩

/-! ### the graph data of a record -/

/-- id, compute and data demands, predecessor list, per-edge volumes -/
structure TG (r r' : TaskRec) : Prop where
  id : r'.id = r.id
  flops : r'.flops = r.flops
  data : r'.data = r.data
  preds : r'.preds = r.preds
  io : r'.io = r.io

theorem TG.refl (r : TaskRec) : TG r r := ⟨rfl, rfl, rfl, rfl, rfl⟩
theorem TG.trans {a b c : TaskRec} (h1 : TG a b) (h2 : TG b c) : TG a c :=
  ⟨h2.id.trans h1.id, h2.flops.trans h1.flops, h2.data.trans h1.data, h2.preds.trans h1.preds,
    h2.io.trans h1.io⟩

/-- the record table is mapped through a function that keeps the graph data: no record is added,
dropped or moved -/
def MapStep (s X : Sys) : Prop := ∃ g : TaskRec → TaskRec, X.tasks = s.tasks.map g ∧ ∀ r, TG r (g r)

theorem MapStep.refl (s : Sys) : MapStep s s := ⟨id, by simp, fun r => TG.refl r⟩
theorem MapStep.of_eq {s X : Sys} (h : X.tasks = s.tasks) : MapStep s X := ⟨id, by simp [h], fun r => TG.refl r⟩
theorem MapStep.trans {a b c : Sys} (h1 : MapStep a b) (h2 : MapStep b c) : MapStep a c := by
  obtain ⟨g1, e1, t1⟩ := h1
  obtain ⟨g2, e2, t2⟩ := h2
  exact ⟨g2 ∘ g1, by rw [e2, e1, List.map_map], fun r => (t1 r).trans (t2 (g1 r))⟩

theorem MapStep.updTask (s : Sys) (t : Tid) (f : TaskRec → TaskRec) (hf : ∀ r, TG r (f r)) :
    MapStep s (s.updTask t f) :=
  ⟨fun r => if r.id = t then f r else r, rfl, fun r => by
    show TG r (if r.id = t then f r else r)
    split
    · exact hf r
    · exact TG.refl r⟩

theorem MapStep.foldl {α} (f : Sys → α → Sys) (hf : ∀ s a, MapStep s (f s a)) (l : List α) (s : Sys) :
    MapStep s (l.foldl f s) := by
  induction l generalizing s with
  | nil => exact MapStep.refl s
  | cons a r ih => exact (hf s a).trans (ih _)

/-- ids are kept, in order -/
theorem MapStep.ids {s X : Sys} (h : MapStep s X) : X.tasks.map (·.id) = s.tasks.map (·.id) := by
  obtain ⟨g, e, t⟩ := h
  rw [e, List.map_map]
  apply List.map_congr_left
  intro r _
  exact (t r).id

/-- every record of the new table is the image of an old one -/
theorem MapStep.back {s X : Sys} (h : MapStep s X) {r' : TaskRec} (hr : r' ∈ X.tasks) :
    ∃ r ∈ s.tasks, TG r r' := by
  obtain ⟨g, e, t⟩ := h
  rw [e] at hr
  obtain ⟨r, hr0, rfl⟩ := List.mem_map.mp hr
  exact ⟨r, hr0, t r⟩

theorem MapStep.fwd {s X : Sys} (h : MapStep s X) {r : TaskRec} (hr : r ∈ s.tasks) :
    ∃ r' ∈ X.tasks, TG r r' := by
  obtain ⟨g, e, t⟩ := h
  exact ⟨g r, by rw [e]; exact List.mem_map_of_mem hr, t r⟩

/-! ### the blocks that rewrite records -/

theorem updateAllocation_tg (r : TaskRec) (mm : Machine) : TG r (updateAllocation r mm) := by
  unfold updateAllocation
  simp only
  split <;> exact ⟨rfl, rfl, rfl, rfl, rfl⟩

theorem dwEndF_tg (now : Time) (total : Nat) (r : TaskRec) : TG r (dwEndF now total r) := by
  unfold dwEndF
  simp only
  split <;> exact ⟨rfl, rfl, rfl, rfl, rfl⟩

theorem mapStep_atStart (s : Sys) (now : Time) (pc : Nat) (oid : Oid) : MapStep s (atStart s now pc oid) := by
  unfold atStart
  split
  · have h1 : MapStep s (s.updPlan oid (fun p => { p with ast := some (natNow now) })) := MapStep.of_eq rfl
    refine h1.trans ?_
    have h2 : ∀ S : Sys, ∀ l : List Tid, MapStep S (l.foldl
        (fun (s : Sys) t => s.updTask t (fun r => { r with offset := natNow now })) S) := by
      intro S l
      apply MapStep.foldl
      intro s1 t
      exact MapStep.updTask s1 t (fun r : TaskRec => { r with offset := natNow now })
        (fun r => ⟨rfl, rfl, rfl, rfl, rfl⟩)
    exact (h2 _ _).trans (MapStep.of_eq rfl)
  · exact MapStep.refl s

theorem mapStep_processOne (now : Time) (oid : Oid) (st : PcsSt) (t : Tid) :
    MapStep st.s (processOne now oid st t).s := by
  have hua : ∀ s1, UA st.s t s1 → MapStep st.s s1 := by
    intro s1 h
    rcases h with rfl | ⟨mm, rfl⟩
    · exact MapStep.refl _
    · exact MapStep.updTask st.s t _ (fun r => updateAllocation_tg r mm)
  rcases processOne_cases now oid st t with ⟨s1, h1, hs, _⟩ | ⟨s1, m, r, cross, h1, _, _, _, hs, _⟩
  · rw [hs]; exact hua s1 h1
  · rw [hs]
    refine (hua s1 h1).trans ?_
    have h2 : MapStep s1 (s1.spawn (.allocTask t m cross (some oid) false 0) now).1 := MapStep.of_eq rfl
    exact h2.trans (MapStep.updTask _ t (fun r : TaskRec => { r with status := .scheduled })
      (fun r => ⟨rfl, rfl, rfl, rfl, rfl⟩))

theorem mapStep_processCurrentSchedule (a : Sys) (now : Time) (oid : Oid) (sched pairs : List (Tid × Mid)) :
    MapStep a (processCurrentSchedule a now oid sched pairs).s := by
  unfold processCurrentSchedule
  simp only
  generalize ((dictKeys sched).mergeSort _) = l
  have : ∀ (l : List Tid) (st : PcsSt), MapStep st.s (l.foldl (processOne now oid) st).s := by
    intro l
    induction l with
    | nil => intro st; exact MapStep.refl _
    | cons x r ih => intro st; exact (mapStep_processOne now oid st x).trans (ih _)
  exact this l { s := a, schedule := sched, pairs := pairs, curr := [] }

theorem mapStep_allocTasksIter (a : Sys) (now : Time) (orc : Oracle) (oid : Oid)
    (sc pa : List (Tid × Mid)) (po : List Tid) : MapStep a (a.allocTasksIter now orc oid sc pa po).1 := by
  have h1 : MapStep a (a.updateCurrentPlan oid) := MapStep.of_eq (updateCurrentPlan_core a oid).tasks
  have h3 : ∀ out, MapStep a (atS3 (a.updateCurrentPlan oid) out oid) := fun out =>
    h1.trans (MapStep.of_eq (atS3_tasks _ out oid))
  have hout := allocTasksIter_out a now orc oid sc pa po
  generalize a.allocTasksIter now orc oid sc pa po = r at hout ⊢
  cases hout with
  | noPlan _ => exact h1
  | algErr _ _ _ _ => exact h1
  | finish plan out _ _ _ _ _ _ => exact (h3 out).trans (MapStep.of_eq rfl)
  | finishBad plan out _ _ _ _ _ _ => exact (h3 out).trans (MapStep.of_eq rfl)
  | finishWait plan out _ _ _ _ _ => exact (h3 out).trans (MapStep.of_eq rfl)
  | idle plan out _ _ _ _ => exact h3 out
  | alloc plan out y _ _ _ _ =>
    exact (h3 out).trans (mapStep_processCurrentSchedule _ now oid _ _)

theorem mapStep_allocTasksBlock (s : Sys) (now : Time) (orc : Oracle) (pc : Nat)
    (oid : Oid) (sc pa : List (Tid × Mid)) (po : List Tid) (fn : Bool) :
    MapStep s (s.allocTasksBlock now orc pc oid sc pa po fn).1 := by
  cases fn with
  | true => rw [allocTasksBlock_fin]; exact MapStep.refl s
  | false =>
    rw [allocTasksBlock_eq]
    exact (mapStep_atStart s now pc oid).trans (mapStep_allocTasksIter _ now orc oid sc pa po)

theorem mapStep_allocTask (s : Sys) (hpw : PW s) (now : Time) (t : Tid) (m : Mid) (preds : List Tid)
    (obs : Option Oid) (ing : Bool) (ret : Nat) : MapStep s (s.allocTaskBlock now t m preds obs ing ret).1 := by
  rcases allocTaskBlock_cases s hpw now t m preds obs ing ret with
    ⟨_, e, _, heq⟩ | ⟨_, _, heq⟩ | ⟨_, _, heq⟩ | ⟨_, _, e, _, heq⟩ | ⟨_, _, _, heq⟩
  · rw [heq]; exact MapStep.of_eq rfl
  · rw [heq]
    have h1 : MapStep s ({ s with cl := (s.cl.allocBegin t m obs ing).1 } : Sys) := MapStep.of_eq rfl
    refine (h1.trans (MapStep.updTask _ t (fun r : TaskRec => { r with status := .scheduled })
      (fun r => ⟨rfl, rfl, rfl, rfl, rfl⟩))).trans (MapStep.of_eq rfl)
  · rw [heq]; exact MapStep.refl s
  · rw [heq]; exact MapStep.of_eq rfl
  · rw [heq]
    have h1 : MapStep s ({ s with cl := (s.cl.allocEnd t m obs ing).1 } : Sys) := MapStep.of_eq rfl
    exact h1.trans (MapStep.updTask _ t (fun r : TaskRec => { r with status := .finished })
      (fun r => ⟨rfl, rfl, rfl, rfl, rfl⟩))

theorem mapStep_doWork (s : Sys) (now : Time) (orc : Oracle) (t : Tid) (m : Mid) (preds : List Tid)
    (ph tot : Nat) : MapStep s (s.doWorkBlock now orc t m preds ph tot).1 := by
  have hsh := doWorkBlock_shape s now orc t m preds ph tot
  generalize s.doWorkBlock now orc t m preds ph tot = X at hsh
  cases hsh with
  | raised _ _ => exact MapStep.refl s
  | wait _ _ _ _ => exact MapStep.refl s
  | start r mm dur tot' _ _ _ =>
    exact (MapStep.updTask s t (dwStartF now dur) (fun r => ⟨rfl, rfl, rfl, rfl, rfl⟩)).trans (MapStep.of_eq rfl)
  | finish _ =>
    exact (MapStep.updTask s t (dwEndF now tot) (fun r => dwEndF_tg now tot r)).trans (MapStep.of_eq rfl)

/-! ### the ingest provisioner -/

/-- the records the ingest provisioner of observation `o` (demand `d`) appends: one per ingest
task, with distinct ids `o_ingest_t0 … ` below the demand -/
theorem provIngestBlock_recs (s : Sys) (now : Time) (pc : Nat) (oid : Oid) (d : Nat) :
    ∃ recs : List TaskRec, (s.provIngestBlock now pc oid d).1.tasks = s.tasks ++ recs ∧
      (recs.map (·.id)).Nodup ∧ (∀ r ∈ recs, ∃ i, i < d ∧ r.id = .ingest oid i) ∧
      (recs ≠ [] → pc = 0) := by
  unfold provIngestBlock
  split
  · simp only
    generalize hr : s.cl.provisionIngest d oid = r
    obtain ⟨cl1, e1, pairs⟩ := r
    cases e1 with
    | some e => exact ⟨[], by simp, by simp, by simp, by simp⟩
    | none =>
      simp only
      have hpairs : pairs.map (·.2) = (List.range' 0 (s.cl.available.take d).length).map (Tid.ingest oid) ∨
          pairs = [] := by
        have : (s.cl.provisionIngest d oid).2.2 = pairs := by rw [hr]
        rw [← this]
        unfold Cluster.provisionIngest
        split
        · exact Or.inr rfl
        · left
          simp only [List.map_map]
          have : (List.map ((fun x : Mid × Tid => x.2) ∘ fun x : Mid × Nat => (x.1, Tid.ingest oid x.2))
              (s.cl.available.take d).zipIdx) = ((s.cl.available.take d).zipIdx.map Prod.snd).map (Tid.ingest oid) := by
            rw [List.map_map]; rfl
          rw [this, List.zipIdx_map_snd]
      generalize hrecs : List.map (fun x : Mid × Tid => ({ id := x.2, duration := (match s.obs? oid with | some o => o.duration | none => 0), status := TStatus.scheduled } : TaskRec)) pairs = recs
      have hids : recs.map (·.id) = pairs.map (·.2) := by
        rw [← hrecs, List.map_map]; rfl
      obtain ⟨_, _, _, gtasks, _⟩ := foldSpawn_spec
        (fun x : Mid × Tid => PK.allocTask x.2 x.1 [] (some oid) true 0) now pairs
        ({ s with cl := cl1, tasks := s.tasks ++ recs } : Sys)
      refine ⟨recs, by rw [gtasks], ?_, ?_, fun _ => by assumption⟩
      · rw [hids]
        rcases hpairs with h | h
        · rw [h]
          refine nodup_map_of_inj_on _ List.nodup_range' ?_
          intro a _ b _ e
          injection e
        · rw [h]; simp
      · intro r hr'
        have : r.id ∈ recs.map (·.id) := List.mem_map_of_mem hr'
        rw [hids] at this
        rcases hpairs with h | h
        · rw [h] at this
          obtain ⟨i, hi, e⟩ := List.mem_map.mp this
          have hi' := List.mem_range'_1.mp hi
          have hl : (s.cl.available.take d).length ≤ d := List.length_take_le d _
          exact ⟨i, by omega, e.symm⟩
        · rw [h] at this; simp at this
  · exact ⟨[], by simp, by simp, by simp, by simp⟩

/-! ### every block -/

/-- what a block does to the record table: it maps it through a function that keeps the graph
data; or it is the ingest provisioner's first block, which appends its ingest records; or it is
the scheduler loop planning an observation, which appends the plan's records -/
theorem block_tasksShape (s : Sys) (hpw : PW s) (p : Proc) (orc : Oracle) :
    MapStep s (s.block p orc).1 ∨
    (∃ o d recs, p.k = .provIngest o d ∧ p.pc = 0 ∧ (s.block p orc).1.tasks = s.tasks ++ recs ∧
      (recs.map (·.id)).Nodup ∧ ∀ r ∈ recs, ∃ i, i < d ∧ r.id = .ingest o i) ∨
    (p.k = .schedLoop ∧ ∃ oid o recs plan, s.buf.nextForProcessing.2 = some oid ∧ s.obs? oid = some o ∧
      (recs, plan) = (if s.staticPlan then staticPlanOf o (natNow p.wake) orc.plan
        else batchPlan o (natNow p.wake)) ∧
      (s.block p orc).1.tasks = s.tasks ++ recs ∧
      (s.block p orc).1.plans = s.plans.filter (·.obs ≠ oid) ++ [plan]) := by
  cases hk : p.k with
  | schedLoop =>
    rw [block_schedLoop orc hk]
    rcases schedLoopBlock_buf s p.wake orc with ⟨_, _, ht, _, _⟩ | ⟨oid, o, recs, plan, hnx, hob, hrp, _, hpl, ht, _⟩
    · exact Or.inl (MapStep.of_eq ht)
    · exact Or.inr (Or.inr ⟨rfl, oid, o, recs, plan, hnx, hob, hrp, ht, hpl⟩)
  | provIngest o d =>
    rw [block_provIngest orc hk]
    obtain ⟨recs, ht, hnd, hid, hpc⟩ := provIngestBlock_recs s p.wake p.pc o d
    by_cases he : recs = []
    · left; rw [he] at ht; exact MapStep.of_eq (by simpa using ht)
    · exact Or.inr (Or.inl ⟨o, d, recs, rfl, hpc he, ht, hnd, hid⟩)
  | allocTask t m preds obs ing ret =>
    rw [block_allocTask orc hk]; exact Or.inl (mapStep_allocTask s hpw _ _ _ _ _ _ _)
  | doWork t m preds ph tot =>
    rw [block_doWork orc hk]; exact Or.inl (mapStep_doWork s _ orc _ _ _ _ _)
  | allocTasks o sc pa po fn =>
    rw [block_allocTasks orc hk]; exact Or.inl (mapStep_allocTasksBlock s _ orc _ _ _ _ _ _)
  | _ =>
    exact Or.inl (MapStep.of_eq (block_tasks s p orc (by simp [hk, PK.tag]) (by simp [hk, PK.tag])
      (by simp [hk, PK.tag]) (by simp [hk, PK.tag]) (by simp [hk, PK.tag])))

end Sys
end Topsim
