/-
  BufTraj1 — the buffer component of every run of the block system that has not
  raised is the result of a well-formed L1 operation history (`BufOp`,
  `WFHistDef`) applied to the initial buffer: each block's effect on the buffer
  is a (possibly empty) sequence of enabled buffer operations.
-/
import TopsimProofs.FinishStr4

namespace Topsim
namespace Buffer

theorem run_append (b : Buffer) (l1 l2 : List BufOp) : b.run (l1 ++ l2) = (b.run l1).run l2 := by
  unfold run; rw [List.foldl_append]

theorem wf_append (b : Buffer) (l1 l2 : List BufOp) :
    WFHistDef b (l1 ++ l2) ↔ WFHistDef b l1 ∧ WFHistDef (b.run l1) l2 := by
  induction l1 generalizing b with
  | nil => simp [WFHistDef, run]
  | cons op r ih => simp only [List.cons_append, WFHistDef, run_cons, ih, and_assoc]

/-- `b'` is reached from `b` by a well-formed operation history -/
def Ref (b b' : Buffer) : Prop := ∃ ops, WFHistDef b ops ∧ b' = b.run ops

theorem Ref.refl (b : Buffer) : Ref b b := ⟨[], trivial, rfl⟩

theorem Ref.of_eq {b b' : Buffer} (h : b' = b) : Ref b b' := by subst h; exact Ref.refl _

theorem Ref.trans {a b c : Buffer} (h1 : Ref a b) (h2 : Ref b c) : Ref a c := by
  obtain ⟨l1, w1, e1⟩ := h1
  obtain ⟨l2, w2, e2⟩ := h2
  subst e1
  exact ⟨l1 ++ l2, (wf_append a l1 l2).mpr ⟨w1, w2⟩, by rw [e2, run_append]⟩

theorem Ref.op {b : Buffer} (op : BufOp) (hok : opOk b op = true) : Ref b (b.applyOp op) :=
  ⟨[op], ⟨hok, trivial⟩, rfl⟩

/-- whatever one enabled operation preserves is preserved along a history -/
theorem Ref.induct {P : Buffer → Prop} (step : ∀ b op, P b → opOk b op = true → P (b.applyOp op))
    {b b' : Buffer} (h : Ref b b') (hb : P b) : P b' := by
  obtain ⟨ops, hw, e⟩ := h
  subst e
  exact run_induct P (fun _ => True) (fun b op h1 h2 _ => step b op h1 h2) ops b hb hw (fun _ _ => trivial)

theorem Ref.binv {b b' : Buffer} (h : Ref b b') (hb : BInv b) : BInv b' :=
  h.induct (fun _ op h1 h2 => applyOp_inv h1 op h2) hb

theorem opOk_deposit {b : Buffer} {o : Oid} (r : Int) (h : o ∉ b.hot.finished) :
    opOk b (.deposit o r) = true := by
  simp [opOk, h]

theorem opOk_remove {b : Buffer} {o : Oid} (h : o ∉ b.hot.finished) : opOk b (.remove o) = true := by
  simp [opOk, h]

theorem opOk_h2cStep {b : Buffer} {o : Oid} {left l' : Int} (h : (b.hot2coldStep o left).2 = .ok l') :
    opOk b (.h2cStep o left) = true := by
  show (match (b.hot2coldStep o left).2 with | .ok _ => true | .error _ => false) = true
  rw [h]

theorem opOk_c2hStep {b : Buffer} {o : Oid} {left l' : Int} (h : (b.cold2hotStep o left).2 = .ok l') :
    opOk b (.c2hStep o left) = true := by
  show (match (b.cold2hotStep o left).2 with | .ok _ => true | .error _ => false) = true
  rw [h]

theorem remove_ref (b : Buffer) (o : Oid) (h : o ∈ b.hot.scheduled → o ∉ b.hot.finished) :
    Ref b (b.remove o).1 := by
  by_cases hs : o ∈ b.hot.scheduled
  · exact Ref.op (.remove o) (opOk_remove (h hs))
  · exact Ref.of_eq (by simp [remove, hs])

end Buffer

namespace Sys

open Buffer (Ref)

/-! ### the blocks that touch the buffer -/

theorem ingestStreamIter_ref (s : Sys) (now : Time) (oid : Oid) (tl : Int) (hnf : oid ∉ s.buf.hot.finished) :
    Ref s.buf (s.ingestStreamIter now oid tl).1.buf := by
  unfold ingestStreamIter
  cases hob : s.obs? oid with
  | none => exact Ref.refl _
  | some o =>
    simp only
    by_cases hrun : o.status = .running
    · simp only [hrun, if_true]
      have hop : Ref s.buf (s.buf.deposit oid o.rate).1 := Ref.op (.deposit oid o.rate) (Buffer.opOk_deposit _ hnf)
      cases hd : s.buf.deposit oid o.rate with
      | mk b1 e1 =>
        rw [hd] at hop
        simp only at hop
        cases e1 with
        | some e => exact hop
        | none =>
          simp only
          split
          · exact hop
          · exact hop.trans (Ref.op (.store oid (natNow now)) rfl)
    · simp only [hrun, if_false]
      exact Ref.refl _

theorem ingestStreamBlock_ref (s : Sys) (now : Time) (pc : Nat) (oid : Oid) (tl : Int)
    (hnf : oid ∉ s.buf.hot.finished) : Ref s.buf (s.ingestStreamBlock now pc oid tl).1.buf := by
  unfold ingestStreamBlock
  split
  · split
    · exact Ref.refl _
    · split
      · exact Ref.refl _
      · exact ingestStreamIter_ref (s.addBuf _) now oid _ hnf
  · exact ingestStreamIter_ref s now oid tl hnf

theorem hot2coldIter_ref (s : Sys) (now : Time) (o : Oid) (left : Int) :
    (∃ e, (s.hot2coldIter now o left).2.2 = .raised e) ∨ Ref s.buf (s.hot2coldIter now o left).1.buf := by
  unfold hot2coldIter
  split
  · exact Or.inr (Ref.refl _)
  · cases hr : s.buf.hot2coldStep o left with
    | mk b1 res =>
      cases res with
      | error e => exact Or.inl ⟨e, rfl⟩
      | ok l' =>
        right
        have h1 := Ref.op (b := s.buf) (.h2cStep o left) (Buffer.opOk_h2cStep (l' := l') (by rw [hr]))
        have h2 : s.buf.applyOp (.h2cStep o left) = b1 := by
          show (s.buf.hot2coldStep o left).1 = b1
          rw [hr]
        rw [h2] at h1
        exact h1

theorem hot2coldBlock_ref (s : Sys) (now : Time) (cur : Option (Oid × Int)) :
    (∃ e, (s.hot2coldBlock now cur).2.2 = .raised e) ∨ Ref s.buf (s.hot2coldBlock now cur).1.buf := by
  unfold hot2coldBlock
  split
  · exact hot2coldIter_ref s now _ _
  · have hop : Ref s.buf s.buf.hot2coldBegin.1 := Ref.op .h2cBegin rfl
    generalize s.buf.hot2coldBegin = r at hop
    obtain ⟨b1, res⟩ := r
    match res with
    | .error e => exact Or.inr hop
    | .ok none => exact Or.inr hop
    | .ok (some (o, left)) =>
      rcases hot2coldIter_ref (({ s with buf := b1 }).addBuf ⟨natNow now, o, .transferStarted⟩) now o left with h | h
      · exact Or.inl h
      · exact Or.inr (hop.trans h)

theorem cold2hotIter_ref (s : Sys) (now : Time) (o : Oid) (left : Int) :
    (∃ e, (s.cold2hotIter now o left).2.2 = .raised e) ∨ Ref s.buf (s.cold2hotIter now o left).1.buf := by
  unfold cold2hotIter
  split
  · exact Or.inr (Ref.refl _)
  · cases hr : s.buf.cold2hotStep o left with
    | mk b1 res =>
      cases res with
      | error e => exact Or.inl ⟨e, rfl⟩
      | ok l' =>
        right
        have h1 := Ref.op (b := s.buf) (.c2hStep o left) (Buffer.opOk_c2hStep (l' := l') (by rw [hr]))
        have h2 : s.buf.applyOp (.c2hStep o left) = b1 := by
          show (s.buf.cold2hotStep o left).1 = b1
          rw [hr]
        rw [h2] at h1
        exact h1

theorem cold2hotBlock_ref (s : Sys) (now : Time) (cur : Option (Oid × Int)) :
    (∃ e, (s.cold2hotBlock now cur).2.2 = .raised e) ∨ Ref s.buf (s.cold2hotBlock now cur).1.buf := by
  unfold cold2hotBlock
  split
  · exact cold2hotIter_ref s now _ _
  · have hop : Ref s.buf s.buf.cold2hotBegin.1 := Ref.op .c2hBegin rfl
    generalize s.buf.cold2hotBegin = r at hop
    obtain ⟨b1, res⟩ := r
    match res with
    | .error e => exact Or.inr hop
    | .ok none => exact Or.inr hop
    | .ok (some (o, left)) =>
      rcases cold2hotIter_ref (({ s with buf := b1 }).addBuf ⟨natNow now, o, .transferStarted⟩) now o left with h | h
      · exact Or.inl h
      · exact Or.inr (hop.trans h)

theorem schedLoopBlock_ref (s : Sys) (now : Time) (orc : Oracle) : Ref s.buf (s.schedLoopBlock now orc).1.buf := by
  rcases schedLoopBlock_buf s now orc with ⟨hbuf, _⟩ | ⟨oid, o, recs, plan, _, _, _, hbuf, _⟩
  · exact Ref.of_eq hbuf
  · rw [hbuf]; exact Ref.op .next rfl

theorem mem_scheduled_not_finished {s : Sys} (hb : BufI s) {o : Oid} (hin : o ∈ s.buf.hot.scheduled) :
    o ∉ s.buf.hot.finished := by
  intro hf
  have h2 := hb.cnt o
  have c1 := count_pos_of_mem hin
  have c2 := count_pos_of_mem hf
  unfold locCount bufList at h2
  simp only [List.count_append] at h2
  omega

/-- one block that does not raise acts on the buffer as a well-formed operation history -/
theorem block_ref {s : Sys} (hb : BufI s) {p : Proc} (hp : p ∈ s.procs) (ha : p.alive = true) (orc : Oracle)
    (hnr : ∀ e, (s.block p orc).2.2 ≠ .raised e) : Ref s.buf (s.block p orc).1.buf := by
  have quiet : p.k.tag ≠ "schedLoop" → p.k.tag ≠ "ingestStream" → p.k.tag ≠ "allocTasks" →
      p.k.tag ≠ "hot2cold" → p.k.tag ≠ "cold2hot" → Ref s.buf (s.block p orc).1.buf :=
    fun h1 h2 h3 h4 h5 => Ref.of_eq (block_buf s p orc h1 h2 h3 h4 h5)
  cases hk : p.k with
  | monitor => exact quiet (by simp [hk, PK.tag]) (by simp [hk, PK.tag]) (by simp [hk, PK.tag]) (by simp [hk, PK.tag]) (by simp [hk, PK.tag])
  | telescope => exact quiet (by simp [hk, PK.tag]) (by simp [hk, PK.tag]) (by simp [hk, PK.tag]) (by simp [hk, PK.tag]) (by simp [hk, PK.tag])
  | clusterLoop => exact quiet (by simp [hk, PK.tag]) (by simp [hk, PK.tag]) (by simp [hk, PK.tag]) (by simp [hk, PK.tag]) (by simp [hk, PK.tag])
  | bufferLoop => exact quiet (by simp [hk, PK.tag]) (by simp [hk, PK.tag]) (by simp [hk, PK.tag]) (by simp [hk, PK.tag]) (by simp [hk, PK.tag])
  | allocIngest o tl => exact quiet (by simp [hk, PK.tag]) (by simp [hk, PK.tag]) (by simp [hk, PK.tag]) (by simp [hk, PK.tag]) (by simp [hk, PK.tag])
  | provIngest o d => exact quiet (by simp [hk, PK.tag]) (by simp [hk, PK.tag]) (by simp [hk, PK.tag]) (by simp [hk, PK.tag]) (by simp [hk, PK.tag])
  | allocTask t m preds obs ing ret => exact quiet (by simp [hk, PK.tag]) (by simp [hk, PK.tag]) (by simp [hk, PK.tag]) (by simp [hk, PK.tag]) (by simp [hk, PK.tag])
  | doWork t m preds ph tot => exact quiet (by simp [hk, PK.tag]) (by simp [hk, PK.tag]) (by simp [hk, PK.tag]) (by simp [hk, PK.tag]) (by simp [hk, PK.tag])
  | schedLoop =>
    have hb' : s.block p orc = ((s.schedLoopBlock p.wake orc).1, p.k, (s.schedLoopBlock p.wake orc).2) := by
      unfold block; simp only [hk]
    rw [hb']; exact schedLoopBlock_ref s p.wake orc
  | ingestStream o tl =>
    have hb' : s.block p orc = s.ingestStreamBlock p.wake p.pc o tl := by
      unfold block; simp only [hk]
    rw [hb']
    refine ingestStreamBlock_ref s p.wake p.pc o tl ?_
    intro hf
    have h0 := hb.strFree p hp ha o tl hk
    have c := count_pos_of_mem hf
    unfold locCount bufList at h0
    simp only [List.count_append] at h0
    omega
  | allocTasks o sc pa po fn =>
    have hb' : s.block p orc = s.allocTasksBlock p.wake orc p.pc o sc pa po fn := by
      unfold block; simp only [hk]
    rw [hb']
    rcases allocTasksBlock_bufCases s p.wake orc p.pc o sc pa po fn with e | e
    · exact Ref.of_eq e
    · rw [e]; exact Buffer.remove_ref s.buf o (fun hin => mem_scheduled_not_finished hb hin)
  | hot2cold cur =>
    have hb' : s.block p orc = s.hot2coldBlock p.wake cur := by
      unfold block; simp only [hk]
    rw [hb'] at hnr ⊢
    rcases hot2coldBlock_ref s p.wake cur with ⟨e, he⟩ | h
    · exact absurd he (hnr e)
    · exact h
  | cold2hot cur =>
    have hb' : s.block p orc = s.cold2hotBlock p.wake cur := by
      unfold block; simp only [hk]
    rw [hb'] at hnr ⊢
    rcases cold2hotBlock_ref s p.wake cur with ⟨e, he⟩ | h
    · exact absurd he (hnr e)
    · exact h

/-- one step of the block system that leaves the run un-crashed -/
theorem resume_ref {s : Sys} (hb : BufI s) {pid : Nat} (hen : s.enabled pid) (orc : Oracle)
    (hc : (s.resume pid orc).1.crashed = none) : s.crashed = none ∧ Ref s.buf (s.resume pid orc).1.buf := by
  obtain ⟨p, hp, ha, _⟩ := hen
  obtain ⟨hc0, hnr⟩ := resume_nocrash s pid orc p hp ha hc
  obtain ⟨hpm, _⟩ := proc?_some hp
  rw [resume_buf s pid orc p hp ha]
  exact ⟨hc0, block_ref hb hpm ha orc hnr⟩

theorem start_buf (s0 : Sys) : s0.start.buf = s0.buf := by simp [start, spawn]

/-- along every run that has not raised the buffer is `run` of a well-formed history -/
theorem reachOk_ref (s0 s : Sys) (hw : WFConfig s0) (hbuf : bufList s0.buf = []) (h : ReachOk s0 s)
    (hc : s.crashed = none) : Ref s0.buf s.buf := by
  induction h with
  | start => exact Ref.of_eq (start_buf s0)
  | step s pid orc hr hen _ ih =>
    obtain ⟨hc0, hstep⟩ := resume_ref (reachOk_bufi s0 s hw hbuf hr) hen orc hc
    exact (ih hc0).trans hstep

end Sys
end Topsim
