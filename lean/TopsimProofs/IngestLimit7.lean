/-
  IngestLimit7 — the ledger invariant across the telescope's admission loop,
  one `resume`, and every run.
-/
import TopsimProofs.IngestLimit6

namespace Topsim
namespace Sys

open Cluster

/-- the unconditional bound: ingest pool plus promises stay below twice the limit -/
def ilW (s : Sys) : Prop := s.ilLoadS ≤ 2 * s.maxIngest - 1

/-- the intended bound: ingest pool plus promises stay within the limit -/
def ilT (s : Sys) : Prop := s.ilLoadS ≤ s.maxIngest

/-- what one visit of the admission loop (and the whole loop) keeps -/
def TelKeep (a b : Sys) : Prop :=
  ILInv b ∧ b.maxIngest = a.maxIngest ∧ b.cl = a.cl ∧
    (∀ o ∈ ilLiveAI a.procs, o ∈ ilLiveAI b.procs) ∧ (ilW a → ilW b) ∧
    (a.ingestStale = 0 → ilT a → ilT b)

theorem TelKeep.refl {a : Sys} (h : ILInv a) : TelKeep a a :=
  ⟨h, rfl, rfl, fun _ ho => ho, fun h => h, fun _ h => h⟩

theorem TelKeep.trans {a b c : Sys} (h1 : TelKeep a b) (h2 : TelKeep b c) : TelKeep a c := by
  obtain ⟨_, a2, a3, a4, a5, a6⟩ := h1
  obtain ⟨b1, b2, b3, b4, b5, b6⟩ := h2
  refine ⟨b1, b2.trans a2, b3.trans a3, fun o ho => b4 o (a4 o ho), fun h => b5 (a5 h), ?_⟩
  intro hs ht
  refine b6 ?_ (a6 hs ht)
  unfold ingestStale at hs ⊢
  rw [a3]
  exact ilStale_zero_mono a4 hs

theorem TelKeep.of_ilq {a b : Sys} (h : ILInv a) (hq : ILQ a b) (hcl : b.cl = a.cl)
    (hp : b.procs = a.procs) : TelKeep a b := by
  obtain ⟨h1, h2⟩ := h.quiet hq
  refine ⟨h1, hq.maxI, hcl, fun o ho => by rw [hp]; exact ho, ?_, ?_⟩
  · intro hw; unfold ilW at hw ⊢; rw [hq.maxI]; omega
  · intro _ ht; unfold ilT at ht ⊢; rw [hq.maxI]; omega

/-- the admission itself -/
theorem il_admit {s1 : Sys} (h : ILInv s1) (hinv : ∃ U, Cluster.Inv s1.cl U) (n : Nat) (oid : Oid) (o : Obs)
    (hob : s1.obs? oid = some o) (hno : oid ∉ s1.admitted) (s' : Sys)
    (hc : s1.checkIngestCapacity o = .ok (s', true)) : TelKeep s1 (admitState s' n oid o) := by
  obtain ⟨_, c2, c3, _, _, _, rfl⟩ := checkIngestCapacity_true s1 o s' hc
  have hdem : s1.ilDemand oid = o.ingestDemand := by unfold ilDemand; rw [hob]
  have hil : ILC s1.procs s1.ilDemand s1.cl.ilEntries s1.provIngest s1.maxIngest s1.admitted := h
  let a : Proc := { pid := s1.nextPid, k := .allocIngest oid 0, wake := (n : Time) }
  obtain ⟨hc1, hl1⟩ := hil.admit a oid rfl rfl rfl hno (by rw [hdem]; exact c3)
  have hfin := ILInv.of_ilc (s' := admitState { s1 with provIngest := s1.provIngest + o.ingestDemand } n oid o)
    hc1 rfl
    (fun x => (ilDemand_congr (a := s1.updObs oid (fun r => { r with ast := some n })) rfl x).trans
      (ilDemand_updObs s1 oid (fun r => { r with ast := some n }) (fun _ => rfl) (fun _ => rfl) x))
    (fun _ => Nat.le_refl _) (by rw [hdem]; rfl) rfl rfl
  obtain ⟨U, hU⟩ := hinv
  have hlen := il_ingest_length hU
  have hprom := hil.promised_le
  have hacc := hil.accounting
  refine ⟨hfin.1, rfl, rfl, ?_, ?_, ?_⟩
  · intro x hx
    show x ∈ ilLiveAI (s1.procs ++ [a])
    rw [ilLiveAI_append]
    exact List.mem_append_left _ hx
  · intro hw
    unfold ilW at hw ⊢
    have hM : (admitState { s1 with provIngest := s1.provIngest + o.ingestDemand } n oid o).maxIngest
        = s1.maxIngest := rfl
    rw [hM]
    have := hfin.2
    unfold ilLoadS ingestPromised at hw
    rw [hdem] at hl1
    by_cases hd : o.ingestDemand = 0
    · omega
    · omega
  · intro hs ht
    unfold ilT
    have hM : (admitState { s1 with provIngest := s1.provIngest + o.ingestDemand } n oid o).maxIngest
        = s1.maxIngest := rfl
    rw [hM]
    have := hfin.2
    unfold ingestStale at hs
    rw [hs] at hacc
    rw [hdem] at hl1
    omega

/-- one visit of the admission loop -/
theorem il_visit (n : Nat) (s1 : Sys) (err : Option Err) (oid : Oid) (v : List Oid)
    (hv : oid ∉ v) (hm : TelMid s1 n v) (h : ILInv s1) (hinv : ∃ U, Cluster.Inv s1.cl U) :
    TelKeep s1 (telescopeVisit n (s1, err) oid).1 := by
  unfold telescopeVisit
  cases err with
  | some e => exact TelKeep.refl h
  | none =>
    simp only
    cases hob : s1.obs? oid with
    | none => exact TelKeep.refl h
    | some o =>
      simp only
      by_cases hready : o.isReady n ((s1.totalArrays : Int) - s1.telUse) = true
      · simp only [hready, if_true]
        have hw : o.status = .waiting := by
          unfold Obs.isReady at hready
          simp only [Bool.and_eq_true, beq_iff_eq] at hready
          exact hready.2
        cases hc : s1.checkIngestCapacity o with
        | error e => exact TelKeep.refl h
        | ok r =>
          obtain ⟨s', b⟩ := r
          cases b with
          | false =>
            simp only
            rcases checkIngestCapacity_ok s1 o s' false hc with e | ⟨e, _⟩
            · subst e; exact TelKeep.refl h
            · exact absurd e (by simp)
          | true =>
            simp only
            have hno : oid ∉ s1.admitted := by
              intro hin
              obtain ⟨ob, hob', hw'⟩ := hm.adm oid hin
              rw [hob] at hob'; injection hob' with e
              subst e
              exact hv (hw' hw).1
            exact il_admit h hinv n oid o hob hno s' hc
      · simp only [hready, Bool.false_eq_true, if_false]
        split
        · refine TelKeep.of_ilq h ?_ rfl rfl
          exact (ilq_updObs s1 oid (fun r => { r with status := .finished }) (fun _ => rfl) (fun _ => rfl)).trans
            (ILQ.same rfl rfl rfl rfl rfl rfl rfl)
        · exact TelKeep.refl h

theorem il_telescopeFold (n : Nat) (l : List Oid) (hnd : l.Nodup) (acc : Sys × Option Err)
    (v : List Oid) (hdisj : ∀ o ∈ l, o ∉ v) (hm : TelMid acc.1 n v) (h : ILInv acc.1)
    (hinv : ∃ U, Cluster.Inv acc.1.cl U) : TelKeep acc.1 (l.foldl (telescopeVisit n) acc).1 := by
  induction l generalizing acc v with
  | nil => exact TelKeep.refl h
  | cons x r ih =>
    simp only [List.foldl_cons]
    rw [List.nodup_cons] at hnd
    obtain ⟨s1, err⟩ := acc
    have hvis := il_visit n s1 err x v (hdisj x (by simp)) hm h hinv
    obtain ⟨_, h2⟩ := telescopeVisit_inv n s1 err x v (hdisj x (by simp)) hm
    refine hvis.trans (ih hnd.2 (telescopeVisit n (s1, err) x) (x :: v) ?_ h2 hvis.1 ?_)
    · intro o ho hov
      rcases List.mem_cons.mp hov with rfl | hov
      · exact hnd.1 ho
      · exact hdisj o (List.mem_cons_of_mem _ ho) hov
    · rw [hvis.2.2.1]; exact hinv

/-- the telescope's block -/
theorem il_step_telescope {s : Sys} (hs : SInv s) (h : ILInv s) {p : Proc} (hpm : p ∈ s.procs)
    (ha : p.alive = true) (hmin : ∀ q ∈ s.procs, q.alive = true → p.wake ≤ q.wake)
    (hk : p.k = .telescope) :
    TelKeep s (s.telescopeBlock p.wake).1 := by
  have heg := hs.eg
  have hinv : ∃ U, Cluster.Inv s.cl U := by
    obtain ⟨U, hU⟩ := hs.ci; exact ⟨U, hU.inv⟩
  have hmid0 : TelMid s (natNow p.wake) [] := by
    refine ⟨heg.obsNodup, heg.admNodup, heg.telUniq, heg.telWake, ?_⟩
    intro o ho
    obtain ⟨ob, hob, hw⟩ := heg.adm o ho
    refine ⟨ob, hob, fun hst => ?_⟩
    exfalso
    obtain ⟨w, hw1, hwa, _, _, hlt⟩ := hw hst
    have h1 := hlt p hpm hk ha
    have h2 := hmin w hw1 hwa
    exact absurd h1 (Rat.not_lt.mpr h2)
  unfold telescopeBlock
  split
  · exact TelKeep.of_ilq h (ILQ.same rfl rfl rfl rfl rfl rfl rfl) rfl rfl
  · simp only
    generalize hs0 : ({ s with telEvents := [], telDelayed := if s.schedDelayed = true ∧ (!s.telDelayed) = true then true else s.telDelayed } : Sys) = s0
    have hk0 : TelKeep s s0 := by
      subst hs0; exact TelKeep.of_ilq h (ILQ.same rfl rfl rfl rfl rfl rfl rfl) rfl rfl
    have hm0 : TelMid s0 (natNow p.wake) [] := by subst hs0; exact hmid0.core rfl rfl rfl
    have hnd : (s.obs.map (·.id)).Nodup := heg.obsNodup
    have f1 := il_telescopeFold (natNow p.wake) (s.obs.map (·.id)) hnd (s0, none) []
      (fun _ _ => by simp) hm0 hk0.1 (by rw [hk0.2.2.1]; exact hinv)
    generalize (List.foldl (telescopeVisit (natNow p.wake)) (s0, none) (s.obs.map (·.id))) = r at f1 ⊢
    obtain ⟨s1, e1⟩ := r
    cases e1 with
    | some e => exact hk0.trans f1
    | none => exact hk0.trans f1

/-! ### one `resume` -/

/-- what every block keeps; the last clause is about a telescope block that starts with no
stale allocation process, or any block of another process -/
def ILKeep (s s' : Sys) (tel : Prop) : Prop :=
  ILInv s' ∧ s'.maxIngest = s.maxIngest ∧ (ilW s → ilW s') ∧ ((tel → s.ingestStale = 0) → ilT s → ilT s')

theorem ILStep.keep {s X : Sys} (h : ILStep s X) (tel : Prop) : ILKeep s X tel := by
  obtain ⟨h1, h2, h3⟩ := h
  refine ⟨h1, h2, ?_, ?_⟩
  · intro hw; unfold ilW at hw ⊢; rw [h2]; omega
  · intro _ ht; unfold ilT at ht ⊢; rw [h2]; omega

theorem ILKeep.close {s X Y : Sys} {tel : Prop} (h : ILKeep s X tel) (hq : ILQ X Y) : ILKeep s Y tel := by
  obtain ⟨h1, h2, h3, h4⟩ := h
  obtain ⟨q1, q2⟩ := h1.quiet hq
  refine ⟨q1, hq.maxI.trans h2, ?_, ?_⟩
  · intro hw; have := h3 hw; unfold ilW at this ⊢; rw [hq.maxI]; omega
  · intro hs ht; have := h4 hs ht; unfold ilT at this ⊢; rw [hq.maxI]; omega

theorem il_step {s : Sys} (hs : SInv s) (h : ILInv s) {pid : Nat} (hen : s.enabled pid) (orc : Oracle)
    (hpre : s.alg = .oracle → orc.preOk) :
    ILKeep s (s.resume pid orc).1 (∃ p, s.proc? pid = some p ∧ p.k = .telescope) := by
  obtain ⟨p, hp, ha, hmin⟩ := hen
  obtain ⟨hpm, hpid⟩ := proc?_some hp
  subst hpid
  refine ILKeep.close ?_ (il_resume s p.pid orc p hp ha)
  have hn : ∀ {k : PK}, k.neutral → k.aiObs = none ∧ k.piObs = none := by
    intro k hk
    obtain ⟨_, _, k3, k4, _⟩ := hk
    cases k <;> simp_all [PK.isPI, PK.isAI, PK.aiObs, PK.piObs]
  cases hk : p.k with
  | monitor =>
    have hb : s.block p orc = ((s.monitorBlock p.wake).1, p.k, (s.monitorBlock p.wake).2) := by
      unfold block; simp only [hk]
    rw [hb]
    exact (il_step_neutral h _ (monitorBlock_ilq _ _) ((monitorBlock_pres _ _).pw hs.pw) ((monitorBlock_pres _ _).pre.subset hpm)
      (by rw [hk]; exact ⟨rfl, rfl⟩) (by rw [hk]; exact ⟨rfl, rfl⟩)).keep _
  | telescope =>
    have hb : s.block p orc = ((s.telescopeBlock p.wake).1, .telescope, (s.telescopeBlock p.wake).2) := by
      unfold block; simp only [hk]
    rw [hb]
    simp only
    obtain ⟨t1, t2, _, _, t5, t6⟩ := il_step_telescope hs h hpm ha hmin hk
    obtain ⟨hc, _, _⟩ := telescope_key hs.eg hpm ha hmin hk
    have hpw1 := hc.pw hs.pw
    have hp1 : p ∈ (s.telescopeBlock p.wake).1.procs := hc.pre.subset hpm
    obtain ⟨j1, j2⟩ := il_finish_other t1 hpw1 hp1 (fin .telescope (s.telescopeBlock p.wake).2 p.wake)
      (by simp) (by rw [hk]; exact ⟨rfl, rfl⟩) (by simp [PK.aiObs, PK.piObs])
      (fun ha' => (fin_alive _ _ _ _ ha').1)
    refine ⟨j1, t2, ?_, ?_⟩
    · intro hw
      have := t5 hw
      unfold ilW at this ⊢
      show _ ≤ 2 * (s.telescopeBlock p.wake).1.maxIngest - 1
      omega
    · intro hst ht
      have := t6 (hst ⟨p, hp, hk⟩) ht
      unfold ilT at this ⊢
      show _ ≤ (s.telescopeBlock p.wake).1.maxIngest
      omega
  | clusterLoop =>
    have hb : s.block p orc = ({ s with cl := s.cl.loopTick }, p.k, .timeout 1) := by
      unfold block; simp only [hk]
    rw [hb]
    exact (il_step_neutral h _ (clusterLoop_ilq _) ((clusterLoop_pres _).pw hs.pw) ((clusterLoop_pres _).pre.subset hpm)
      (by rw [hk]; exact ⟨rfl, rfl⟩) (by rw [hk]; exact ⟨rfl, rfl⟩)).keep _
  | schedLoop =>
    have hb : s.block p orc = ((s.schedLoopBlock p.wake orc).1, p.k, (s.schedLoopBlock p.wake orc).2) := by
      unfold block; simp only [hk]
    rw [hb]
    exact (il_step_neutral h _ (schedLoopBlock_ilq _ _ _) ((schedLoopBlock_pres _ _ _).pw hs.pw) ((schedLoopBlock_pres _ _ _).pre.subset hpm)
      (by rw [hk]; exact ⟨rfl, rfl⟩) (by rw [hk]; exact ⟨rfl, rfl⟩)).keep _
  | bufferLoop =>
    have hb : s.block p orc = ((s.bufferLoopBlock p.wake).1, p.k, (s.bufferLoopBlock p.wake).2) := by
      unfold block; simp only [hk]
    rw [hb]
    exact (il_step_neutral h _ (bufferLoopBlock_ilq _ _) ((bufferLoopBlock_pres _ _).pw hs.pw) ((bufferLoopBlock_pres _ _).pre.subset hpm)
      (by rw [hk]; exact ⟨rfl, rfl⟩) (by rw [hk]; exact ⟨rfl, rfl⟩)).keep _
  | allocIngest o tl =>
    have hb : s.block p orc = s.allocIngestBlock p.wake p.pc o tl := by
      unfold block; simp only [hk]
    rw [hb]
    exact (il_step_allocIngest hs h hpm ha hmin hk).keep _
  | provIngest o d =>
    have hb : s.block p orc = s.provIngestBlock p.wake p.pc o d := by
      unfold block; simp only [hk]
    rw [hb]
    exact (il_step_provIngest hs h hpm ha hk).keep _
  | ingestStream o tl =>
    have hb : s.block p orc = s.ingestStreamBlock p.wake p.pc o tl := by
      unfold block; simp only [hk]
    rw [hb]
    exact (il_step_neutral h _ (ingestStreamBlock_ilq _ _ _ _ _) ((ingestStreamBlock_pres _ _ _ _ _).pw hs.pw) ((ingestStreamBlock_pres _ _ _ _ _).pre.subset hpm)
      (by rw [hk]; exact ⟨rfl, rfl⟩) (hn (ingestStreamBlock_kind _ _ _ _ _))).keep _
  | allocTask t m preds obs ing ret =>
    have hb : s.block p orc = s.allocTaskBlock p.wake t m preds obs ing ret := by
      unfold block; simp only [hk]
    rw [hb]
    exact (il_step_allocTask hs h hpm ha hk).keep _
  | doWork t m preds ph tot =>
    have hb : s.block p orc = s.doWorkBlock p.wake orc t m preds ph tot := by
      unfold block; simp only [hk]
    rw [hb]
    have hpw1 : PW (s.doWorkBlock p.wake orc t m preds ph tot).1 ∧
        p ∈ (s.doWorkBlock p.wake orc t m preds ph tot).1.procs := by
      rcases doWorkBlock_out s p.wake orc t m preds ph tot with
        ⟨_, _, _, _, heq⟩ | ⟨_, f, _, _, hf, heq⟩ | ⟨_, f, hf, heq⟩ <;> rw [heq]
      · exact ⟨hs.pw, hpm⟩
      · exact ⟨⟨hs.pw.nodup, hs.pw.lt⟩, hpm⟩
      · exact ⟨⟨hs.pw.nodup, hs.pw.lt⟩, hpm⟩
    exact (il_step_neutral h _ (doWorkBlock_ilq _ _ _ _ _ _ _ _) hpw1.1 hpw1.2
      (by rw [hk]; exact ⟨rfl, rfl⟩) (doWorkBlock_kind_il _ _ _ _ _ _ _ _)).keep _
  | allocTasks o sc pa po fin =>
    have hb : s.block p orc = s.allocTasksBlock p.wake orc p.pc o sc pa po fin := by
      unfold block; simp only [hk]
    rw [hb]
    exact (il_step_neutral h _ (allocTasksBlock_ilq _ _ _ hpre _ _ _ _ _ _)
      ((allocTasksBlock_pres _ _ _ hpre _ _ _ _ _ _).pw hs.pw)
      ((allocTasksBlock_pres _ _ _ hpre _ _ _ _ _ _).pre.subset hpm)
      (by rw [hk]; exact ⟨rfl, rfl⟩) (hn (allocTasksBlock_kind _ _ _ _ _ _ _ _ _))).keep _
  | hot2cold cur =>
    have hb : s.block p orc = s.hot2coldBlock p.wake cur := by
      unfold block; simp only [hk]
    rw [hb]
    exact (il_step_neutral h _ (hot2coldBlock_ilq _ _ _) ((hot2coldBlock_pres _ _ _).pw hs.pw) ((hot2coldBlock_pres _ _ _).pre.subset hpm)
      (by rw [hk]; exact ⟨rfl, rfl⟩) (hn (hot2coldBlock_kind _ _ _))).keep _
  | cold2hot cur =>
    have hb : s.block p orc = s.cold2hotBlock p.wake cur := by
      unfold block; simp only [hk]
    rw [hb]
    exact (il_step_neutral h _ (cold2hotBlock_ilq _ _ _) ((cold2hotBlock_pres _ _ _).pw hs.pw) ((cold2hotBlock_pres _ _ _).pre.subset hpm)
      (by rw [hk]; exact ⟨rfl, rfl⟩) (hn (cold2hotBlock_kind _ _ _))).keep _

end Sys
end Topsim
