/-
  Lemmas cited by TopsimProps/C05.lean: the negation of the full termination
  statement (a concrete feasible configuration whose run raises IndexError at
  t = 7, for every fuel and every number of steps), and the partial results:
  exact / returned ingest reservation, ingest countdown, progress of the
  free-for-all algorithm, release in the finishing block, and an evaluated
  example.
-/
import TopsimModel.Feasible
import TopsimModel.Reach
import TopsimProofs.AlgLemmas

namespace Topsim
namespace Sys

/-! ### K1b: the cold → hot test -/

theorem cold_never_returns (b : Buffer) (now : Nat) (d : Buffer.LoopDecision)
    (hfull : b.hot.cur = b.hot.total) (htot : 0 < b.hot.total) (hd : 0 ≤ b.dltt)
    (h : b.loopDecide now = .ok d) : d.startCold2Hot = false := by
  have hc : ¬ (5 * (b.hot.cur + b.dltt) < 3 * b.hot.total) := by omega
  have ho : b.overThreshold = false := by
    simp only [Buffer.overThreshold, decide_eq_false_iff_not]; omega
  simp only [Buffer.loopDecide, ho, Bool.false_eq_true, false_and, if_false, hc] at h
  injection h with h
  subst h
  rfl

/-! ### the ingest reservation -/

theorem reservation_exact (s s' : Sys) (o : Obs) (ok : Bool)
    (h : s.checkIngestCapacity o = .ok (s', ok)) :
    s'.provIngest = s.provIngest + (if ok then (o.ingestDemand : Int) else 0) ∧
    (ok = true → s.provIngest + o.ingestDemand ≤ s.maxIngest) := by
  unfold checkIngestCapacity at h
  split at h
  · cases h
  · rename_i cap _
    split at h
    · split at h
      · rename_i hle
        injection h with h
        injection h with h1 h2
        subst h1 h2
        cases cap <;> simp [hle]
      · injection h with h
        injection h with h1 h2
        subst h1 h2
        simp
    · injection h with h
      injection h with h1 h2
      subst h1 h2
      simp

/-! ### F14: a second admission in the same pass is refused when the machines do not cover both -/

theorem double_admission_refused (c : Cluster) (mx d1 d2 : Nat) (prov : Int)
    (hp : (c.ingest.length : Int) ≤ prov) (hd : c.available.length < d1 + d2) :
    c.checkIngestCapacity d2 mx (prov + d1) = false := by
  unfold Cluster.checkIngestCapacity
  by_cases a1 : d2 > mx
  · rw [if_pos a1]
  · rw [if_neg a1]
    have a0 : ¬ (prov + (d1 : Int) - (c.ingest.length : Int) < 0) := by omega
    simp only [a0, if_false]
    rw [if_neg]
    intro h
    have := h.1
    omega

theorem double_admission_refused_sys (s s1 : Sys) (o1 o2 : Obs)
    (h1 : s.checkIngestCapacity o1 = .ok (s1, true))
    (hp : (s.cl.ingest.length : Int) ≤ s.provIngest)
    (hd : s.cl.available.length < o1.ingestDemand + o2.ingestDemand) :
    s1.cl.checkIngestCapacity o2.ingestDemand s1.maxIngest s1.provIngest = false ∧
    ∀ s2 b, s1.checkIngestCapacity o2 = .ok (s2, b) → b = false ∧ s2 = s1 := by
  have hs1 : s1 = { s with provIngest := s.provIngest + o1.ingestDemand } := by
    unfold checkIngestCapacity at h1
    split at h1
    · cases h1
    · rename_i cap _
      split at h1
      · split at h1
        · injection h1 with h1
          injection h1 with e1 e2
          subst e2
          simp only [if_true] at e1
          exact e1.symm
        · injection h1 with h1
          injection h1 with e1 e2
          cases e2
      · injection h1 with h1
        injection h1 with e1 e2
        cases e2
  have hcl : s1.cl.checkIngestCapacity o2.ingestDemand s1.maxIngest s1.provIngest = false := by
    rw [hs1]
    exact double_admission_refused s.cl s.maxIngest o1.ingestDemand o2.ingestDemand s.provIngest hp hd
  refine ⟨hcl, ?_⟩
  intro s2 b h2
  unfold checkIngestCapacity at h2
  rw [hcl] at h2
  split at h2
  · cases h2
  · simp only [Bool.false_eq_true, if_false] at h2
    injection h2 with h2
    injection h2 with e1 e2
    exact ⟨e2.symm, e1.symm⟩

theorem reservation_returned (s : Sys) (now : Time) (oid : Oid) (o : Obs) (tl : Int)
    (ho : s.obs? oid = some o) (hfin : o.status = .finished ∨ (o.status = .running ∧ tl ≤ 0)) :
    (s.allocIngestIter now oid tl).2.2 = .done ∧
    (s.allocIngestIter now oid tl).1.provIngest = s.provIngest - o.ingestDemand := by
  rcases hfin with hf | ⟨hr, htl⟩
  · simp [allocIngestIter, ho, hf]
  · have h1 : ¬ tl > 0 := by omega
    simp [allocIngestIter, ho, hr, h1]

theorem ingest_counts_down (s : Sys) (now : Time) (oid : Oid) (o : Obs) (tl : Int)
    (ho : s.obs? oid = some o) (hr : o.status = .running) (hpos : 0 < tl) :
    s.allocIngestIter now oid tl = (s, .allocIngest oid (tl - 1), .timeout 1) := by
  simp [allocIngestIter, ho, hr, hpos]

/-! ### progress of the first-free loop -/

theorem dictSet_ne_nil {κ α} [DecidableEq κ] (d : List (κ × α)) (k : κ) (v : α) :
    dictSet d k v ≠ [] := by
  cases d with
  | nil => simp [dictSet]
  | cons p r =>
    obtain ⟨k', v'⟩ := p
    by_cases h : k' = k <;> simp [dictSet, h]

theorem firstFreeStep_alloc_ne_nil (cl : Cluster) (plan : Plan) (view : Tid → TaskView) (n : Nat)
    (st : Alg.LoopSt) (x : Tid) (h : st.alloc ≠ []) :
    (Alg.firstFreeStep cl plan view n st x).alloc ≠ [] := by
  unfold Alg.firstFreeStep
  split
  · exact h
  split
  · exact h
  split
  · split
    · split
      · exact h
      · split
        · exact dictSet_ne_nil _ _ _
        · exact h
    · exact h
  · exact h

/-- either something has been allocated, or the loop is still running with a
free machine in hand -/
def FFProg (st : Alg.LoopSt) : Prop :=
  st.alloc ≠ [] ∨ (st.stop = false ∧ st.temp ≠ [])

theorem firstFreeStep_prog (cl : Cluster) (plan : Plan) (view : Tid → TaskView) (n : Nat)
    (st : Alg.LoopSt) (x : Tid) (hn : 1 ≤ n) (h : FFProg st) :
    FFProg (Alg.firstFreeStep cl plan view n st x) := by
  rcases h with h | ⟨hs, ht⟩
  · exact Or.inl (firstFreeStep_alloc_ne_nil cl plan view n st x h)
  · by_cases ha : st.alloc = []
    · unfold Alg.firstFreeStep
      split
      · exact Or.inr ⟨hs, ht⟩
      split
      · rename_i hge
        rw [ha] at hge
        simp at hge
        omega
      split
      · split
        · split
          · exact Or.inr ⟨hs, ht⟩
          · split
            · exact Or.inl (dictSet_ne_nil _ _ _)
            · exact Or.inr ⟨hs, ht⟩
        · exact Or.inr ⟨hs, ht⟩
      · exact Or.inr ⟨hs, ht⟩
    · exact Or.inl (firstFreeStep_alloc_ne_nil cl plan view n st x ha)

theorem firstFreeStep_ready (cl : Cluster) (plan : Plan) (view : Tid → TaskView) (n : Nat)
    (st : Alg.LoopSt) (t : Tid) (hn : 1 ≤ n) (hu : (view t).status = .unscheduled)
    (hready : Alg.predsFinished cl plan t = true) (h : FFProg st) :
    (Alg.firstFreeStep cl plan view n st t).alloc ≠ [] := by
  by_cases ha : st.alloc = []
  · rcases h with h | ⟨hs, ht⟩
    · exact absurd ha h
    · obtain ⟨m, rest, hm⟩ := List.exists_cons_of_ne_nil ht
      have h1 : ¬ (st.alloc.length ≥ n) := by rw [ha]; simp; omega
      have h2 : Alg.schedHas st.alloc t = false := by
        rw [ha]; simp [Alg.schedHas, dictHas, dictGet]
      simp only [Alg.firstFreeStep, hs, Bool.false_eq_true, if_false, h1, hm, h2, hu, hready,
        List.length_cons, gt_iff_lt, Nat.zero_lt_succ, Bool.not_false, and_self, if_true, or_true]
      exact dictSet_ne_nil _ _ _
  · exact firstFreeStep_alloc_ne_nil cl plan view n st t ha

theorem firstFree_fold_progress (cl : Cluster) (plan : Plan) (view : Tid → TaskView) (n : Nat)
    (t : Tid) (hn : 1 ≤ n) (hu : (view t).status = .unscheduled)
    (hready : Alg.predsFinished cl plan t = true) :
    ∀ (l : List Tid) (st : Alg.LoopSt), t ∈ l → FFProg st →
      (l.foldl (Alg.firstFreeStep cl plan view n) st).alloc ≠ [] := by
  intro l
  induction l with
  | nil => intro st ht; simp at ht
  | cons x r ih =>
    intro st ht hst
    simp only [List.foldl_cons]
    rcases List.mem_cons.mp ht with hx | hr
    · subst hx
      exact foldl_inv _ (fun s => s.alloc ≠ [])
        (fun s a hs => firstFreeStep_alloc_ne_nil cl plan view n s a hs) r _
        (firstFreeStep_ready cl plan view n st t hn hu hready hst)
    · exact ih _ hr (firstFreeStep_prog cl plan view n st x hn hst)

theorem queue_progress (cl : Cluster) (plan : Plan) (view : Tid → TaskView)
    (pool : List Tid) (out : AlgOut) (t : Tid)
    (ht : t ∈ plan.tasks) (hp : t ∈ pool) (hu : (view t).status = .unscheduled)
    (hready : Alg.predsFinished cl plan t = true) (hav : cl.available ≠ [])
    (h : Alg.queueRun cl plan view [] pool = .ok out) : out.schedule ≠ [] := by
  unfold Alg.queueRun at h
  injection h with h
  subst h
  have hseed : Alg.seedPool plan pool = pool := by
    unfold Alg.seedPool
    cases pool with
    | nil => simp at hp
    | cons a r => simp
  have hlen : 1 ≤ cl.available.length := by
    cases hc : cl.available with
    | nil => exact absurd hc hav
    | cons a r => simp
  apply firstFree_fold_progress cl plan view cl.available.length t hlen hu hready
  · rw [hseed]
    simp [List.mem_filter, ht, hp]
  · exact Or.inr ⟨rfl, hav⟩

/-! ### the finishing block of `allocate_tasks` -/

theorem find_map_updPlan (plans : List Plan) (o : Oid) (f : Plan → Plan)
    (hf : ∀ p, (f p).obs = p.obs) :
    (plans.map (fun p => if p.obs = o then f p else p)).find? (·.obs = o)
      = (plans.find? (·.obs = o)).map f := by
  induction plans with
  | nil => rfl
  | cons a r ih => by_cases h : a.obs = o <;> simp [h, hf, ih]

theorem plan?_updPlan (s : Sys) (o : Oid) (f : Plan → Plan) (hf : ∀ p, (f p).obs = p.obs) :
    (s.updPlan o f).plan? o = (s.plan? o).map f :=
  find_map_updPlan s.plans o f hf

theorem release_on_finish (s : Sys) (now : Time) (orc : Oracle) (oid : Oid)
    (plan : Plan) (pairs : List (Tid × Mid)) (pool : List Tid)
    (hp : s.plan? oid = some plan) (hempty : plan.tasks = [])
    (halg : s.alg = .queue)
    (hsch : oid ∈ s.buf.hot.scheduled) (hq : oid ∈ s.queue) :
    let r := s.allocTasksIter now orc oid [] pairs pool
    r.2.2 = .timeout 1 ∧ r.1.queue = s.queue.erase oid ∧
    r.1.buf.hot.cur = s.buf.hot.cur + s.buf.sizeOf oid ∧
    r.1.cl = (s.cl.releaseBatch oid).releaseBatch oid := by
  have hobs : plan.obs = oid := by
    have := List.find?_some hp
    simpa using this
  have hu : s.updateCurrentPlan oid = s.updPlan oid (fun p =>
      { p with tasks := p.tasks.filter (fun t => (s.taskView t).status ≠ .finished) }) := by
    simp [updateCurrentPlan, hp, hempty]
  have hp1 : (s.updateCurrentPlan oid).plan? oid = some { plan with tasks := [] } := by
    rw [hu, plan?_updPlan s oid (fun p =>
      { p with tasks := p.tasks.filter (fun t => (s.taskView t).status ≠ .finished) })
      (fun _ => rfl), hp]
    simp [hempty]
  intro r
  have hr : r = s.allocTasksIter now orc oid [] pairs pool := rfl
  clear_value r
  subst hr
  simp only [allocTasksIter, hp1]
  rw [hu]
  simp [runAlgorithm, updPlan, halg, Alg.queueRun, Alg.finishStatus, Buffer.remove, hsch, hq,
    addSch, addBuf, hobs]

/-! ### the negation of the full statement

`runUntil` takes a fuel; the full statement quantifies over it.  A run whose
every `env.run(now + 1)` segment ended by itself (not by running out of fuel)
is the same for every larger fuel, so the claim "no fuel and no number of steps
gives a finished, exception-free run" reduces to finitely many evaluations. -/

/-- the segment ended by itself: halted, no event left, next event not before
`u`, or nothing to step -/
def simStopped (env : SimEnv) (u : Time) (k : SimState) : Bool :=
  k.st.halted || match k.peek with
    | none => true
    | some e => !(decide (e.time < u)) || (k.step (simHandler env)).isNone

theorem runUntil_stable (env : SimEnv) (u : Time) :
    ∀ (f : Nat) (k : SimState), simStopped env u (SimState.runUntil env u f k) = true →
      ∀ f', f ≤ f' → SimState.runUntil env u f' k = SimState.runUntil env u f k := by
  intro f
  induction f with
  | zero =>
    intro k hs f' _
    simp only [SimState.runUntil] at hs ⊢
    cases f' with
    | zero => rfl
    | succ f' =>
      simp only [SimState.runUntil]
      unfold simStopped at hs
      by_cases hh : k.st.halted = true
      · simp [hh]
      · simp only [hh, Bool.false_eq_true, if_false]
        cases hp : k.peek with
        | none => rfl
        | some e =>
          simp only
          by_cases hlt : e.time < u
          · simp only [hlt, if_true]
            cases hst : k.step (simHandler env) with
            | none => rfl
            | some k1 => simp [hh, hp, hlt, hst] at hs
          · simp [hlt]
  | succ f ih =>
    intro k hs f' hle
    obtain ⟨f'', rfl⟩ : ∃ f'', f' = f'' + 1 := ⟨f' - 1, by omega⟩
    simp only [SimState.runUntil] at hs ⊢
    by_cases hh : k.st.halted = true
    · simp [hh]
    · simp only [hh, Bool.false_eq_true, if_false] at hs ⊢
      cases hp : k.peek with
      | none => rfl
      | some e =>
        simp only [hp] at hs ⊢
        by_cases hlt : e.time < u
        · simp only [hlt, if_true] at hs ⊢
          cases hst : k.step (simHandler env) with
          | none => rfl
          | some k1 =>
            simp only [hst] at hs ⊢
            exact ih k1 hs f'' (by omega)
        · simp [hlt]

/-- every segment of the run with fuel `F` ended by itself -/
def checkRun (env : SimEnv) (F : Nat) : Nat → Nat → SimState → Bool
  | 0, _, _ => true
  | steps + 1, now, k =>
    if k.st.halted then true else if k.st.isFinished then true
    else simStopped env (now + 1 : Nat) (SimState.runUntil env (now + 1 : Nat) F k) &&
      checkRun env F steps (now + 1) (SimState.runUntil env (now + 1 : Nat) F k)

theorem runToCompletion_stable (env : SimEnv) (F f : Nat) (hle : F ≤ f) :
    ∀ (steps now : Nat) (k : SimState), checkRun env F steps now k = true →
      SimState.runToCompletion env f steps now k = SimState.runToCompletion env F steps now k := by
  intro steps
  induction steps with
  | zero => intro now k _; rfl
  | succ n ih =>
    intro now k hc
    simp only [checkRun, SimState.runToCompletion] at hc ⊢
    by_cases hh : k.st.halted = true
    · simp [hh]
    · by_cases hf : k.st.isFinished = true
      · simp [hh, hf]
      · simp only [hh, hf, Bool.false_eq_true, if_false, Bool.and_eq_true] at hc ⊢
        rw [runUntil_stable env _ F k hc.1 f hle]
        exact ih _ _ hc.2

/-- the witness: one machine, one observation of 8 steps × 10 units on a hot
buffer of 100 -/
def negWitness : Sys :=
  { machines := [⟨0, 10, 2⟩], totalArrays := 4, maxIngest := 1, alg := .queue,
    cl := Cluster.init [0], buf := Buffer.init 100 20 100 5,
    obs := [{ id := 0, est := 0, duration := 8, demand := 1, rate := 10, ingestDemand := 1,
              wf := { nodes := [(0, 10, 0)], edges := [], topo := [0] } }] }

theorem negWitness_wf : WFConfig negWitness := by
  refine ⟨by decide, rfl, by decide, ?_, ?_⟩
  · simp [negWitness]
  · simp [negWitness]

theorem negWitness_feasible : Feasible negWitness := by
  simp [Feasible, negWitness, Buffer.init]

set_option maxRecDepth 100000 in
theorem negWitness_bound : serialBound negWitness = 47 := by decide +kernel

set_option maxRecDepth 100000 in
/-- with fuel 10 every segment ends by itself, and the run has raised -/
theorem negWitness_large : ∀ steps < 48,
    checkRun {} 10 (steps + 1) 0 (SimState.start negWitness) = true ∧
    ¬ ((SimState.runToCompletion {} 10 (steps + 1) 0 (SimState.start negWitness)).1.st.isFinished = true ∧
       (SimState.runToCompletion {} 10 (steps + 1) 0 (SimState.start negWitness)).1.st.crashed = none) := by
  decide +kernel

set_option maxRecDepth 100000 in
theorem negWitness_small : ∀ fuel < 10, ∀ steps < 48,
    ¬ ((SimState.runToCompletion {} fuel (steps + 1) 0 (SimState.start negWitness)).1.st.isFinished = true ∧
       (SimState.runToCompletion {} fuel (steps + 1) 0 (SimState.start negWitness)).1.st.crashed = none) := by
  decide +kernel

theorem terminates_neg :
    ¬ (∀ (s0 : Sys) (env : SimEnv), WFConfig s0 → Feasible s0 →
      ∃ steps fuel, steps ≤ serialBound s0 ∧
        (SimState.runToCompletion env fuel (steps + 1) 0 (SimState.start s0)).1.st.isFinished = true ∧
        (SimState.runToCompletion env fuel (steps + 1) 0 (SimState.start s0)).1.st.crashed = none) := by
  intro h
  obtain ⟨steps, fuel, hs, hfin, hcr⟩ := h negWitness {} negWitness_wf negWitness_feasible
  rw [negWitness_bound] at hs
  have hlt : steps < 48 := by omega
  by_cases hf : fuel < 10
  · exact negWitness_small fuel hf steps hlt ⟨hfin, hcr⟩
  · have hl := negWitness_large steps hlt
    rw [runToCompletion_stable {} 10 fuel (by omega) _ _ _ hl.1] at hfin hcr
    exact hl.2 ⟨hfin, hcr⟩

/-! ### an evaluated example -/

set_option maxRecDepth 100000 in
theorem example_terminates :
    let wf : Workflow := { nodes := [(0, 20, 0), (1, 10, 0)], edges := [(0, 1, 4)], topo := [0, 1] }
    let s0 : Sys :=
      { machines := [⟨0, 10, 2⟩, ⟨1, 5, 4⟩], totalArrays := 4, maxIngest := 1, alg := .queue,
        cl := Cluster.init [0, 1], buf := Buffer.init 100 10 100 5,
        obs := [{ id := 0, est := 0, duration := 2, demand := 2, rate := 3, ingestDemand := 1, wf := wf },
                { id := 1, est := 1, duration := 2, demand := 2, rate := 2, ingestDemand := 1, wf := wf }] }
    let r := SimState.runToCompletion {} 100000 (serialBound s0 + 1) 0 (SimState.start s0)
    r.1.st.isFinished = true ∧ r.1.st.crashed = none ∧ r.2 ≤ serialBound s0 := by
  decide +kernel

end Sys
end Topsim
