/-
  Preced10 — `PR` under the blocks of a task body (the two stamps: `ast` at the
  start, `aft` at the end), one step, and `PR` along every run that has not crashed.
-/
import TopsimProofs.Preced9

namespace Topsim
namespace Sys

open Cluster

/-- a block of the body of task `t` that rewrites the records of `t` with `f`: either the start
(`ast := now`, nothing else that matters) or the end (`aft := now + 1`) -/
theorem pr_dw {s : Sys} (h : PR s) (hs : SInv s) {p : Proc} (hp : p ∈ s.procs) (ha : p.alive = true)
    (hmin : ∀ q ∈ s.procs, q.alive = true → p.wake ≤ q.wake) {t m preds ph tot}
    (hk : p.k = .doWork t m preds ph tot) (f : TaskRec → TaskRec) (hshape : ∀ r, TShape r (f r))
    (k' : PK) (y : Yield) (hk' : ∃ ph' tot', k' = .doWork t m preds ph' tot') (hy : ∀ d, y = .timeout d → 0 ≤ d)
    (Y : Sys) (hYt : Y.tasks = (s.updTask t f).tasks) (hYc : Y.cl = s.cl)
    (hYp : Y.procs = (s.updProc p.pid (fin k' y p.wake)).procs)
    (heff : ((∀ r, (f r).aft = r.aft ∧ (f r).ast = some p.wake) ∧ (fin k' y p.wake p).alive = true) ∨
      (∀ r, (f r).ast = r.ast ∧ (f r).status = r.status ∧ (f r).aft = some (p.wake + 1))) : PR Y := by
  obtain ⟨ph', tot', hk'⟩ := hk'
  have hid : ∀ r, (f r).id = r.id := fun r => (hshape r).id
  have htq : ∀ x, Y.task? x = (s.updTask t f).task? x := fun x => by unfold task?; rw [hYt]
  have heq : ∀ r, s.task? t = some r → Y.task? t = some (f r) := fun r hr => by
    rw [htq]; exact task?_updTask_eq s f hid hr
  have hne : ∀ x, x ≠ t → Y.task? x = s.task? x := fun x hx => by
    rw [htq]; exact task?_updTask_ne s f hid hx
  have hnofin : ¬ FinT s t := finT_no_dw hs hp ha hk
  have hfin : ∀ q, FinT Y q ↔ FinT s q := fun q => finT_congr (by rw [hYc]) q
  have hmem : ∀ q, q ∈ Y.procs ↔ q = fin k' y p.wake p ∨ (q ∈ s.procs ∧ q.pid ≠ p.pid) := by
    intro q; rw [hYp]; exact mem_updProc_iff hs.pw hp _ q
  have hwake : ∀ q ∈ Y.procs, q.alive = true → p.wake ≤ q.wake := by
    intro q hq hqa
    rcases (hmem q).mp hq with rfl | ⟨h1, _⟩
    · exact fin_wake_ge _ _ p hy hqa
    · exact hmin q h1 hqa
  have hTS : TaskStepS s Y :=
    (TaskStepR.updTask1 TShape.refl s t f hid (fun r _ => hshape r)).of_tasks_eq hYt
  have hrdy : ∀ x, Rdy s x → Rdy Y x := fun x hx => hx.mono hTS (FinMono.of_eq (by rw [hYc]))
  -- the record of another task is untouched; the record of `t` is `f` of the old one
  have hback : ∀ x r', Y.task? x = some r' →
      (x = t ∧ ∃ r, s.task? t = some r ∧ r' = f r) ∨ (x ≠ t ∧ s.task? x = some r') := by
    intro x r' hr'
    by_cases e : x = t
    · subst e
      cases h0 : s.task? x with
      | none =>
        rw [htq, task?_updTask s x x f hid, h0] at hr'
        exact absurd hr' (by simp)
      | some r =>
        rw [heq r h0] at hr'
        injection hr' with e'
        exact Or.inl ⟨rfl, r, rfl, e'.symm⟩
    · rw [hne x e] at hr'; exact Or.inr ⟨e, hr'⟩
  constructor
  · -- telescope
    intro q hq hqk
    rcases (hmem q).mp hq with rfl | ⟨h1, _⟩
    · simp only [fin_k] at hqk; rw [hk'] at hqk; exact absurd hqk (by simp)
    · exact h.telNat q h1 hqk
  · -- recorded finishes
    intro x r' f0 hr' hf0 q hq hqa
    have hw := hwake q hq hqa
    rcases hback x r' hr' with ⟨rfl, r, hr, rfl⟩ | ⟨_, hr⟩
    · rcases heff with ⟨h1, _⟩ | h1
      · have := h.aftLe x r f0 hr (by rw [← (h1 r).1]; exact hf0) p hp ha
        grind
      · rw [(h1 r).2.2] at hf0
        injection hf0 with e
        rw [← e]; grind
    · have := h.aftLe x r' f0 hr hf0 p hp ha
      grind
  · -- ended bodies
    intro d hd t1 m1 preds1 ph1 tot1 hdk hda hw r' hr'
    have hold : ∀ d0 ∈ s.procs, d0.k = .doWork t1 m1 preds1 ph1 tot1 → d0.alive = false → r'.aft.isSome = true := by
      intro d0 hd0 hdk0 hda0
      rcases hback t1 r' hr' with ⟨e, r, hr, rfl⟩ | ⟨_, hr⟩
      · have := h.dwDead d0 hd0 t1 m1 preds1 ph1 tot1 hdk0 hda0 hw r (by rw [e]; exact hr)
        rcases heff with ⟨h1, _⟩ | h1
        · rw [(h1 r).1]; exact this
        · rw [(h1 r).2.2]; rfl
      · exact h.dwDead d0 hd0 t1 m1 preds1 ph1 tot1 hdk0 hda0 hw r' hr
    rcases (hmem d).mp hd with rfl | ⟨h1, _⟩
    · simp only [fin_k] at hdk
      rw [hk'] at hdk
      simp only [PK.doWork.injEq] at hdk
      obtain ⟨e1, _⟩ := hdk
      subst e1
      rcases heff with ⟨_, h2⟩ | h2
      · rw [h2] at hda; exact absurd hda (by simp)
      · rcases hback t r' hr' with ⟨_, r, _, rfl⟩ | ⟨e, _⟩
        · rw [(h2 r).2.2]; rfl
        · exact absurd rfl e
    · exact hold d h1 hdk hda
  · -- finished in the cluster's view
    intro q hw hq
    have hq' := (hfin q).mp hq
    have hqt : q ≠ t := fun e => hnofin (e ▸ hq')
    obtain ⟨rq, g1, g2, g3⟩ := h.finRec q hw hq'
    exact ⟨rq, by rw [hne q hqt]; exact g1, g2, g3⟩
  · intro q hq o sc pa po fn hqk x hx
    rcases (hmem q).mp hq with rfl | ⟨h1, _⟩
    · simp only [fin_k] at hqk; rw [hk'] at hqk; exact absurd hqk (by simp)
    · exact hrdy x (h.schedRdy q h1 o sc pa po fn hqk x hx)
  · intro q hq t1 m1 cross obs ret hqk
    rcases (hmem q).mp hq with rfl | ⟨h1, _⟩
    · simp only [fin_k] at hqk; rw [hk'] at hqk; exact absurd hqk (by simp)
    · exact hrdy t1 (h.atRdy q h1 t1 m1 cross obs ret hqk)
  · -- started tasks
    intro x r' a hr' hast hw q hq
    -- the bound for a predecessor `q` that is reported finished, given the bound for its old record
    have hbound : FinT s q → ∀ B : Time, (∀ rq f0, s.task? q = some rq → rq.aft = some f0 → f0 ≤ B) →
        ∀ rq' f0, Y.task? q = some rq' → rq'.aft = some f0 → f0 ≤ B := by
      intro hfq B hB rq' f0 h3 h4
      have hqt : q ≠ t := fun e => hnofin (e ▸ hfq)
      rw [hne q hqt] at h3
      exact hB rq' f0 h3 h4
    rcases hback x r' hr' with ⟨rfl, r, hr, rfl⟩ | ⟨_, hr⟩
    · rw [(hshape r).preds] at hq
      rcases heff with ⟨h1, _⟩ | h1
      · -- the start: `ast := now`
        rw [(h1 r).2] at hast
        injection hast with e
        subst e
        obtain ⟨_, a0, ha0, preds', obs, hak⟩ := dw_alloc hs hp ha hk
        rw [isWf_not_ingest hw] at hak
        obtain ⟨r0, hr0, hq0⟩ := h.atRdy a0 ha0 x m preds' obs p.pid hak
        rw [hr] at hr0
        injection hr0 with e
        subst e
        obtain ⟨g1, g2⟩ := hq0 q hq
        refine ⟨g1, (hfin q).mpr g2, hbound g2 _ ?_⟩
        intro rq f0 h3 h4
        exact h.aftLe q rq f0 h3 h4 p hp ha
      · -- the end: `ast` untouched
        obtain ⟨g0, g1, g2⟩ := h.started x r a hr (by rw [← (h1 r).1]; exact hast) hw q hq
        exact ⟨g0, (hfin q).mpr g1, hbound g1 _ g2⟩
    · obtain ⟨g0, g1, g2⟩ := h.started x r' a hr hast hw q hq
      exact ⟨g0, (hfin q).mpr g1, hbound g1 _ g2⟩

/-- the task body -/
theorem pr_doWork {s : Sys} (h : PR s) (hs : SInv s) {p : Proc} (hp : p ∈ s.procs) (ha : p.alive = true)
    (hmin : ∀ q ∈ s.procs, q.alive = true → p.wake ≤ q.wake) (orc : Oracle) {t m preds ph tot}
    (hk : p.k = .doWork t m preds ph tot) (hnr : ∀ e, (s.block p orc).2.2 ≠ .raised e) :
    PR ((s.block p orc).1.updProc p.pid (fin (s.block p orc).2.1 (s.block p orc).2.2 p.wake)) := by
  have hb : s.block p orc = s.doWorkBlock p.wake orc t m preds ph tot := by
    unfold block; simp only [hk]
  have hy := fun d hd => block_delay_nonneg s p orc d hd
  have hsh := doWorkBlock_shape s p.wake orc t m preds ph tot
  generalize hX : s.doWorkBlock p.wake orc t m preds ph tot = X at hsh
  have hbX : s.block p orc = X := hb.trans hX
  cases hsh with
  | raised ph' e => rw [hbX] at hnr; exact absurd rfl (hnr e)
  | wait w _ _ _ =>
    -- nothing is written; the body waits for its inputs
    refine pr_step_quiet h hs hp ha hmin orc (by rw [hbX]; exact TaskStep.refl s) (by rw [hbX]) ⟨?_, ?_, ?_⟩ ?_
    · intro t1 m1 preds1 ph1 tot1 _
      rw [hbX]
      show (fin _ (.timeout w) p.wake p).alive = true
      simp [ha]
    · intro o sc pa po fn e; rw [hbX] at e; exact absurd e (by simp)
    · intro t1 m1 cross obs ret e; rw [hbX] at e; exact absurd e (by simp)
    · intro q hq hn; rw [hbX] at hq; exact absurd hq hn
  | start r mm dur tot' _ _ _ =>
    rw [hbX] at hy ⊢
    refine pr_dw h hs hp ha hmin hk (dwStartF p.wake dur) (fun r => ⟨rfl, rfl, rfl⟩) _ _ ⟨2, tot', rfl⟩ hy _
      rfl rfl rfl (Or.inl ⟨fun r => ⟨rfl, rfl⟩, ?_⟩)
    show (fin _ (.timeout _) p.wake p).alive = true
    simp [ha]
  | finish _ =>
    rw [hbX] at hy ⊢
    refine pr_dw h hs hp ha hmin hk (dwEndF p.wake tot) (fun r => ?_) _ _ ⟨3, tot, rfl⟩ hy _
      rfl rfl rfl (Or.inr (fun r => ?_))
    · obtain ⟨a, b, c, _⟩ := dwEndF_spec p.wake tot r
      exact ⟨a, b, c⟩
    · obtain ⟨_, _, _, d, e, f⟩ := dwEndF_spec p.wake tot r
      exact ⟨d, e, f⟩

end Sys
end Topsim
