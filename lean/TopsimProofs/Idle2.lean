/-
  Idle2 — the cluster's side of the timed reading of C19, on the block system (any block order, any
  `ReachOk` oracle).

  * `idle_cluster_pre`: in a state in which `Cluster.is_idle()` answers True, a task record with a
    recorded start has a recorded finish, strictly later, and that finish lies behind the clock
    (`IvInv.stamp`, `IvInv.rel`; a live body keeps its task in the cluster's running list).
  * `idle_rel_post`: after the block that has just run at time `p.wake`, the recorded finish of every
    task the cluster does not run is `≤ p.wake` — a task leaves the running list only in the block of
    its allocation process that found `now ≥ aft` (F13).
-/
import TopsimProofs.Idle1
import TopsimProofs.QueryLemmas
import TopsimProofs.SpanTraj4

namespace Topsim
namespace Sys

open Cluster

theorem idle_running_nil {c : Cluster} (h : c.isIdle = true) : c.running = [] :=
  ((cluster_isIdle_iff c).mp h).1

/-- a recorded interval is not empty -/
theorem idle_span_pos {R} {s : Sys} (hsp : SpanInv R s) {t : Tid} {r : TaskRec} {f : Time}
    (hr : s.task? t = some r) (hf : r.aft = some f) : ∃ a, r.ast = some a ∧ a + 1 ≤ f := by
  obtain ⟨a, total, _, _, g1, g2, _⟩ := spanInv_recorded_span hsp t r f hr hf
  refine ⟨a, g1, ?_⟩
  rw [g2]
  have h1 : (1 : Nat) ≤ max 1 total := by omega
  have h2 : ((1 : Nat) : Time) ≤ ((max 1 total : Nat) : Time) := by exact_mod_cast h1
  have h3 : ((1 : Nat) : Time) = 1 := by norm_cast
  rw [h3] at h2
  exact Rat.add_le_add_left.mpr h2

/-- **The cluster is never idle inside a recorded interval** (state form): when `is_idle()` holds,
every task record with a recorded start `a` has a recorded finish `f`, `a + 1 ≤ f`, and every live
process is due at `f` or later. -/
theorem idle_cluster_pre {R} {s : Sys} (hs : SInv s) (hsp : SpanInv R s) (h : IvInv s)
    (hidle : s.cl.isIdle = true) :
    ∀ t r a, s.task? t = some r → r.ast = some a → ∃ f, r.aft = some f ∧ a + 1 ≤ f ∧ Now s f := by
  intro t r a hr hast
  have hrun : s.cl.running = [] := idle_running_nil hidle
  rcases h.stamp t r a hr hast with ⟨d, hd, hda, m, c, tot, hdk⟩ | h2
  · have := (live_body_entry hs hd hda hdk).1
    rw [hrun] at this; cases this
  · cases hf : r.aft with
    | none => rw [hf] at h2; cases h2
    | some f =>
      obtain ⟨a', g1, g2⟩ := idle_span_pos hsp hr hf
      rw [hast] at g1; cases g1
      exact ⟨f, rfl, g2, h.rel t r f hr hf (by rw [hrun]; simp)⟩

/-- **After the block that has just run at time `p.wake`**: the recorded finish of a task the cluster
does not run is `≤ p.wake`. -/
theorem idle_rel_post {s : Sys} (hs : SInv s) (h : IvInv s) {pid : Nat} {p : Proc}
    (hp : s.proc? pid = some p) (ha : p.alive = true)
    (hmin : ∀ q ∈ s.procs, q.alive = true → p.wake ≤ q.wake) (orc : Oracle)
    (hpre : s.alg = .oracle → orc.preOk) (hs' : SInv (s.resume pid orc).1) :
    ∀ t r' f, (s.resume pid orc).1.task? t = some r' → r'.aft = some f →
      t ∉ (s.resume pid orc).1.cl.running → f ≤ p.wake := by
  obtain ⟨hpm, hpid⟩ := proc?_some hp
  obtain ⟨new, hm, hnewe, hnewp⟩ := ot_step_table hs hp ha hmin orc
  have hcore := resume_core s pid orc p hp ha
  have htasks : (s.resume pid orc).1.tasks = (s.block p orc).1.tasks := by rw [hcore.tasks]; rfl
  have hcl : (s.resume pid orc).1.cl = (s.block p orc).1.cl := by rw [hcore.cl]; rfl
  obtain ⟨U, hU⟩ := hs.ci
  obtain ⟨U', hU'⟩ := hs'.ci
  have hrunning_of : (s.resume pid orc).1.cl.runOn = s.cl.runOn →
      (s.resume pid orc).1.cl.running = s.cl.running := by
    intro e
    rw [← hU'.inv.runOnTasks, ← hU.inv.runOnTasks, e]
  have hold : ∀ t r f, s.task? t = some r → r.aft = some f → t ∉ s.cl.running → f ≤ p.wake :=
    fun t r f hr hf hnr => h.rel t r f hr hf hnr p hpm ha
  -- the records change as in a step of a process that is no task body; the running list loses at
  -- most a task whose recorded finish has been reached
  have hgen : SpanStep s (s.resume pid orc).1 →
      (∀ t, t ∈ s.cl.running → t ∈ (s.resume pid orc).1.cl.running ∨
        ∀ r f, s.task? t = some r → r.aft = some f → f ≤ p.wake) →
      ∀ t r' f, (s.resume pid orc).1.task? t = some r' → r'.aft = some f →
        t ∉ (s.resume pid orc).1.cl.running → f ≤ p.wake := by
    intro hT hrun t r' f hr' hf hnr
    rcases hT.bwd hr' with ⟨r, hr, hk⟩ | ⟨_, hfr⟩
    · have hf0 : r.aft = some f := by rw [← hk.aft]; exact hf
      by_cases hin : t ∈ s.cl.running
      · rcases hrun t hin with h1 | h1
        · exact absurd h1 hnr
        · exact h1 r f hr hf0
      · exact hold t r f hr hf0 hin
    · rw [hfr.aft] at hf; cases hf
  -- a step that leaves the polling entries alone
  have hquiet : p.k.tag ≠ "doWork" → (s.block p orc).1.cl.runOn = s.cl.runOn →
      ∀ t r' f, (s.resume pid orc).1.task? t = some r' → r'.aft = some f →
        t ∉ (s.resume pid orc).1.cl.running → f ≤ p.wake := by
    intro htag hro
    have hT : SpanStep s (s.resume pid orc).1 := (block_spanStep s hs.pw p orc htag).of_tasks_eq htasks
    have hro' : (s.resume pid orc).1.cl.runOn = s.cl.runOn := by rw [hcl]; exact hro
    exact hgen hT (fun t hin => Or.inl (by rw [hrunning_of hro']; exact hin))
  cases hk : p.k with
  | doWork t m c ph tot =>
    have hclb : (s.block p orc).1.cl = s.cl := (doWork_facts s p orc hk).2.2.1
    have hcl0 : (s.resume pid orc).1.cl = s.cl := hcl.trans hclb
    have hb : s.block p orc = s.doWorkBlock p.wake orc t m c ph tot := block_doWork orc hk
    -- the records of the other tasks are untouched
    have hne : ∀ x, x ≠ t → (s.resume pid orc).1.task? x = s.task? x := by
      have hsh := doWorkBlock_shape2 s p.wake orc t m c ph tot
      rw [hb] at htasks
      generalize s.doWorkBlock p.wake orc t m c ph tot = X at hsh htasks
      cases hsh with
      | raised ph' e _ => intro x _; unfold task?; rw [htasks]
      | wait w => intro x _; unfold task?; rw [htasks]
      | start r mm dur _ _ _ =>
        exact (spanInv_stamp_frame hs hpm hk (dwStartF p.wake dur) (fun _ => rfl) htasks).2.1
      | finish h2 =>
        exact (spanInv_stamp_frame hs hpm hk (dwEndF p.wake tot)
          (fun r => (dwEndF_spec p.wake tot r).1) htasks).2.1
    intro x r' f hr' hf hnr
    rw [hcl0] at hnr
    by_cases e : x = t
    · subst e
      exact absurd (live_body_entry hs hpm ha hk).1 hnr
    · rw [hne x e] at hr'
      exact hold x r' f hr' hf hnr
  | allocTask t0 m0 preds obs ing ret =>
    have hb : s.block p orc = s.allocTaskBlock p.wake t0 m0 preds obs ing ret := block_allocTask orc hk
    have htag : p.k.tag ≠ "doWork" := by rw [hk]; simp [PK.tag]
    have hT : SpanStep s (s.resume pid orc).1 := (block_spanStep s hs.pw p orc htag).of_tasks_eq htasks
    rcases allocTaskBlock_cases' s hs.pw p.wake t0 m0 preds obs ing ret with
      ⟨_, e, he, heq⟩ | ⟨hnr, hok, heq⟩ | ⟨_, _, heq⟩ | ⟨_, _, e, he, heq⟩ | ⟨hr, ⟨_, haft⟩, hok, heq⟩
    · apply hquiet htag
      rw [hb, heq]
      show (s.cl.allocBegin t0 m0 obs ing).1.runOn = _
      rw [allocBegin_err_unchanged s.cl t0 m0 obs ing e he]
    · have hf := allocBegin_fields s.cl t0 m0 obs ing hok
      have hclX : (s.block p orc).1.cl = (s.cl.allocBegin t0 m0 obs ing).1 := by rw [hb, heq]; rfl
      refine hgen hT (fun t hin => Or.inl ?_)
      rw [hcl, hclX, hf.2.2.1]
      exact List.mem_append_left _ hin
    · apply hquiet htag
      rw [hb, heq]
    · apply hquiet htag
      rw [hb, heq]
      show (s.cl.allocEnd t0 m0 obs ing).1.runOn = _
      exact (allocEnd_err s.cl t0 m0 obs ing e he).2.1
    · have hf := allocEnd_fields s.cl t0 m0 obs ing hok
      have hclX : (s.block p orc).1.cl = (s.cl.allocEnd t0 m0 obs ing).1 := by rw [hb, heq]; rfl
      refine hgen hT (fun t hin => ?_)
      by_cases e : t = t0
      · subst e
        exact Or.inr (aftReached_eq_true haft)
      · left
        rw [hcl, hclX, hf.2.2.1]
        exact (List.mem_erase_of_ne e).mpr hin
  | allocTasks o sc pa po fn =>
    refine hquiet (by rw [hk]; simp [PK.tag]) ?_
    rw [block_allocTasks orc hk]; exact allocTasksBlock_runOn s p.wake orc hpre p.pc o sc pa po fn
  | _ =>
    refine hquiet (by rw [hk]; simp [PK.tag]) ?_
    exact block_runOn_harmless s p orc (by rw [hk]; simp [PK.tag]) (by rw [hk]; simp [PK.tag])

end Sys
end Topsim
