/-
  Preced19 — `PH` (the recorded start) under every block, and along every run of a
  shipped algorithm that has not crashed.
-/
import TopsimProofs.Preced18

namespace Topsim
namespace Sys

open Cluster

theorem crossArr_congr {s Y : Sys} {r r' : TaskRec} (hio : r'.io = r.io) (cross : List Tid)
    (h : ∀ x ∈ cross, aftOf Y x = aftOf s x) : crossArr Y r' cross = crossArr s r cross := by
  unfold crossArr
  apply List.map_congr_left
  intro q hq
  rw [h q hq, hio]

/-! ### harmless kinds, `allocate_tasks` -/

theorem ph_harmless {s : Sys} (h : PH s) (hpr : PR s) (hs : SInv s) (hno : s.alg ≠ .oracle) {p : Proc}
    (hp : p ∈ s.procs) (ha : p.alive = true) (hmin : ∀ q ∈ s.procs, q.alive = true → p.wake ≤ q.wake)
    (orc : Oracle) (h2 : p.k.tag ≠ "allocTask") (h3 : p.k.tag ≠ "doWork") (h4 : p.k.tag ≠ "allocTasks") :
    PH ((s.block p orc).1.updProc p.pid (fin (s.block p orc).2.1 (s.block p orc).2.2 p.wake)) := by
  obtain ⟨hT, hF⟩ := block_taskStep s p orc hno h2 h3
  have htag := block_tag s hs.pw p orc
  have htel : p.k = .telescope → ((natNow p.wake : Nat) : Time) = p.wake := by
    intro hk
    obtain ⟨n, hn⟩ := hpr.telNat p hp hk
    rw [hn, natNow_natCast]
  refine ph_step_quiet h hs hp ha hmin orc htel hT (FinMono.of_eq hF) h3 ?_
    (fun q hq hn => Or.inl (block_new_harmless s p orc h2 h3 h4 q hq hn))
  intro t m cross obs ret e; rw [e] at htag; exact absurd htag.symm h2

theorem ph_allocTasks {s : Sys} (h : PH s) (hpr : PR s) (hs : SInv s) (hst : ST s) (hno : s.alg ≠ .oracle)
    {p : Proc} (hp : p ∈ s.procs) (ha : p.alive = true)
    (hmin : ∀ q ∈ s.procs, q.alive = true → p.wake ≤ q.wake)
    (orc : Oracle) {o sc pa po fn} (hk : p.k = .allocTasks o sc pa po fn) :
    PH ((s.block p orc).1.updProc p.pid (fin (s.block p orc).2.1 (s.block p orc).2.2 p.wake)) := by
  have hb : s.block p orc = s.allocTasksBlock p.wake orc p.pc o sc pa po fn := by
    unfold block; simp only [hk]
  have hq := quietB_allocTasksBlock s hno p.wake orc p.pc o sc pa po fn
  obtain ⟨sc', pa', po', fn', g1, _, g3⟩ := allocTasksBlock_sum hst hno p.wake orc p.pc o sc pa po fn
  rw [← hb] at hq g1 g3
  have htel : p.k = .telescope → ((natNow p.wake : Nat) : Time) = p.wake := by
    intro e; rw [hk] at e; exact absurd e (by simp)
  refine ph_step_quiet h hs hp ha hmin orc htel hq.task (FinMono.of_eq hq.fin) (by rw [hk]; simp [PK.tag]) ?_ ?_
  · intro t m cross obs ret e; rw [g1] at e; exact absurd e (by simp)
  · intro q hq' hn
    rcases g3 q hq' with h1 | ⟨t, m, cross, e, ht, r, hr, hc⟩
    · exact absurd h1 hn
    · right; left
      refine ⟨t, m, cross, some o, 0, e, ?_⟩
      have hrd : Rdy (s.block p orc).1 t := by
        rcases ht with h1 | h1
        · exact hq.rdy (hpr.schedRdy p hp o sc pa po fn hk t h1)
        · exact h1.1
      obtain ⟨r0, hr0, hq0⟩ := hrd
      rw [hr] at hr0
      injection hr0 with e0
      subst e0
      intro x hx
      obtain ⟨a1, a2⟩ := hq0 x (hc x hx)
      exact ⟨a1, a2, r, hr, hc x hx⟩

/-! ### the allocation process -/

theorem ph_allocTask {s : Sys} (h : PH s) (hs : SInv s) (hwi : WI s) {p : Proc}
    (hp : p ∈ s.procs) (ha : p.alive = true) (hmin : ∀ q ∈ s.procs, q.alive = true → p.wake ≤ q.wake)
    (orc : Oracle) {t m preds obs ing ret} (hk : p.k = .allocTask t m preds obs ing ret)
    (hnr : ∀ e, (s.block p orc).2.2 ≠ .raised e) :
    PH ((s.block p orc).1.updProc p.pid (fin (s.block p orc).2.1 (s.block p orc).2.2 p.wake)) := by
  have hpw := hs.pw
  obtain ⟨U, hU⟩ := hs.ci
  have hb : s.block p orc = s.allocTaskBlock p.wake t m preds obs ing ret := by
    unfold block; simp only [hk]
  have hndw : p.k.tag ≠ "doWork" := by rw [hk]; simp [PK.tag]
  have htel : p.k = .telescope → ((natNow p.wake : Nat) : Time) = p.wake := by
    intro e; rw [hk] at e; exact absurd e (by simp)
  have hkind : ∃ ret', (s.block p orc).2.1 = .allocTask t m preds obs ing ret' := by
    rw [hb]
    rcases allocTaskBlock_cases s hpw p.wake t m preds obs ing ret with
      ⟨_, e, _, heq⟩ | ⟨_, _, heq⟩ | ⟨_, _, heq⟩ | ⟨_, _, e, _, heq⟩ | ⟨_, _, _, heq⟩ <;> rw [heq] <;>
      exact ⟨_, rfl⟩
  obtain ⟨ret', hk'⟩ := hkind
  -- the process keeps its cross-machine list
  have hown : ∀ (hT : TaskStepS s (s.block p orc).1) (hFm : FinMono s (s.block p orc).1),
      ∀ t1 m1 cross obs1 ret1, (s.block p orc).2.1 = .allocTask t1 m1 cross obs1 false ret1 →
        CrossOk (s.block p orc).1 t1 cross := by
    intro hT hFm t1 m1 cross obs1 ret1 e
    rw [hk'] at e
    simp only [PK.allocTask.injEq] at e
    obtain ⟨e1, _, e3, e4, e5, _⟩ := e
    subst e1 e3 e4 e5
    exact (h.atCross p hp t m preds obs ret hk).mono hT hFm
  have hnfp : IsWf t → ∀ r, s.task? t = some r → r.status ≠ .finished := by
    intro hw r hr
    exact hwi.ast p hp ha _ _ _ _ _ _ hk hw r (List.mem_of_find?_eq_some hr) (task?_id hr)
  rw [hb] at hnr
  rcases allocTaskBlock_cases s hpw p.wake t m preds obs ing ret with
    ⟨_, e, _, heq⟩ | ⟨hnr', hok, heq⟩ | ⟨_, _, heq⟩ | ⟨_, _, e, _, heq⟩ | ⟨hr, htr, hok, heq⟩
  · rw [heq] at hnr; exact absurd rfl (hnr e)
  · -- first block
    have hfin := allocBegin_finished s.cl t m obs ing hok
    have hX : (s.block p orc).1 = ((({ s with cl := (s.cl.allocBegin t m obs ing).1 }).updTask t
        (fun r => { r with status := .scheduled })).spawn (.doWork t m preds 0 0) p.wake).1 := by
      rw [hb, heq]
    have hpc0 := hU.pc_zero hp ha hk hnr'
    have hting : ing = true → t.isIngest = true := by
      intro e
      subst e
      exact hU.inv.pendTask _ (hU.pend p hp ha t m preds obs ret hk hpc0)
    have hFm : FinMono s (s.block p orc).1 := by
      intro q hw hq
      rw [hX]
      show dictGet (s.cl.allocBegin t m obs ing).1.finished q = some true
      rw [hfin]
      cases hi : ing with
      | false => exact hq
      | true =>
        simp only [if_true]
        have hne : t ≠ q := by
          intro e
          have := hting hi
          rw [e, isWf_not_ingest hw] at this
          exact absurd this (by simp)
        rw [dictGet_dictSet_ne _ _ hne]
        exact hq
    have hT : TaskStep s (s.block p orc).1 := by
      rw [hX]
      have x := TaskStepR.updTask1 (R := TKeep) TKeep.refl
        ({ s with cl := (s.cl.allocBegin t m obs ing).1 } : Sys) t
        (fun r => { r with status := .scheduled }) (fun _ => rfl) (by
          intro r hr
          have hr' : s.task? t = some r := hr
          exact ⟨⟨rfl, rfl, rfl⟩, rfl, rfl, fun hw hf =>
            absurd hf (hnfp (by rw [← task?_id hr']; exact hw) r hr')⟩)
      have y := TaskStepR.of_src_eq (s := s) x rfl
      exact TaskStepR.of_tasks_eq y rfl
    refine ph_step_quiet h hs hp ha hmin orc htel hT hFm hndw (hown hT.toS hFm) ?_
    intro q hq hn
    right; right
    have hq1 : q ∈ (s.block p orc).1.procs := hq
    rw [hX] at hq1
    simp only [spawn_procs, updTask_procs, List.mem_append, List.mem_singleton] at hq1
    rcases hq1 with h1 | h1
    · exact absurd h1 hn
    · subst h1
      refine ⟨t, m, preds, rfl, ?_⟩
      intro hw
      have hif : ing = false := by
        cases hi : ing with
        | false => rfl
        | true =>
          have := hting hi
          rw [isWf_not_ingest hw] at this
          exact absurd this (by simp)
      subst hif
      exact (h.atCross p hp t m preds obs ret hk).mono hT.toS hFm
  · -- polling
    have hX : (s.block p orc).1 = s := by rw [hb, heq]
    have hT : TaskStep s (s.block p orc).1 := by rw [hX]; exact TaskStep.refl s
    have hFm : FinMono s (s.block p orc).1 := by rw [hX]; exact fun _ _ h => h
    refine ph_step_quiet h hs hp ha hmin orc htel hT hFm hndw (hown hT.toS hFm) ?_
    intro q hq hn; rw [hX] at hq; exact absurd hq hn
  · rw [heq] at hnr; exact absurd rfl (hnr e)
  · -- completion
    have hfin := (allocEnd_fields s.cl t m obs ing hok).2.2.2
    have hX : (s.block p orc).1 = ({ s with cl := (s.cl.allocEnd t m obs ing).1 } : Sys).updTask t
        (fun r => { r with status := .finished }) := by
      rw [hb, heq]
    have hFm : FinMono s (s.block p orc).1 := by
      intro q _ hq
      rw [hX]
      show dictGet (s.cl.allocEnd t m obs ing).1.finished q = some true
      rw [hfin, dictGet_dictSet]
      split
      · rfl
      · exact hq
    have hT : TaskStep s (s.block p orc).1 := by
      rw [hX]
      have x := TaskStepR.updTask1 (R := TKeep) TKeep.refl ({ s with cl := (s.cl.allocEnd t m obs ing).1 } : Sys) t
        (fun r => { r with status := .finished }) (fun _ => rfl)
        (fun r _ => ⟨⟨rfl, rfl, rfl⟩, rfl, rfl, fun _ _ => rfl⟩)
      exact TaskStepR.of_src_eq (s := s) x rfl
    refine ph_step_quiet h hs hp ha hmin orc htel hT hFm hndw (hown hT.toS hFm) ?_
    intro q hq hn
    have hq1 : q ∈ (s.block p orc).1.procs := hq
    rw [hX] at hq1
    exact absurd hq1 hn

/-! ### the task body -/

theorem ph_doWork {s : Sys} (h : PH s) (hs : SInv s) {p : Proc} (hp : p ∈ s.procs)
    (ha : p.alive = true) (orc : Oracle) {t m preds ph tot}
    (hk : p.k = .doWork t m preds ph tot) (hnr : ∀ e, (s.block p orc).2.2 ≠ .raised e) :
    PH ((s.block p orc).1.updProc p.pid (fin (s.block p orc).2.1 (s.block p orc).2.2 p.wake)) := by
  have hb : s.block p orc = s.doWorkBlock p.wake orc t m preds ph tot := by
    unfold block; simp only [hk]
  have hnofin : ¬ FinT s t := finT_no_dw hs hp ha hk
  have hsh := doWorkBlock_shape s p.wake orc t m preds ph tot
  generalize hX : s.doWorkBlock p.wake orc t m preds ph tot = X at hsh
  have hbX : s.block p orc = X := hb.trans hX
  -- another body works on another task
  have hother : ∀ d ∈ s.procs, d.pid ≠ p.pid → ∀ t1 m1 cross ph1 tot1, d.k = .doWork t1 m1 cross ph1 tot1 → t1 ≠ t := by
    intro d hd hne t1 m1 cross ph1 tot1 hdk e
    subst e
    exact hne (hs.dg.dwUniq d hd p hp _ _ _ _ _ _ _ _ _ hdk hk)
  -- the common part of the two stamping blocks
  have stamp : ∀ (f : TaskRec → TaskRec) (hshape : ∀ r, TShape r (f r)) (k' : PK) (y : Yield) (Y : Sys)
      (hYt : Y.tasks = (s.updTask t f).tasks) (hYc : Y.cl = s.cl) (hYm : Y.machines = s.machines)
      (hYp : Y.procs = (s.updProc p.pid (fin k' y p.wake)).procs)
      (ph' tot' : Nat) (hk' : k' = .doWork t m preds ph' tot') (hph' : 2 ≤ ph')
      (hown : IsWf t → ∃ r mm alloc, s.task? t = some r ∧ s.machine? m = some mm ∧
        (f r).ast = some (startTime alloc mm.bw (crossArr s r preds))), PH Y := by
    intro f hshape k' y Y hYt hYc hYm hYp ph' tot' hk' hph' hown
    have hid : ∀ r, (f r).id = r.id := fun r => (hshape r).id
    have htq : ∀ x, Y.task? x = (s.updTask t f).task? x := fun x => by unfold task?; rw [hYt]
    have heq : ∀ r, s.task? t = some r → Y.task? t = some (f r) := fun r hr => by
      rw [htq]; exact task?_updTask_eq s f hid hr
    have hne : ∀ x, x ≠ t → Y.task? x = s.task? x := fun x hx => by
      rw [htq]; exact task?_updTask_ne s f hid hx
    have hmem : ∀ q, q ∈ Y.procs ↔ q = fin k' y p.wake p ∨ (q ∈ s.procs ∧ q.pid ≠ p.pid) := by
      intro q; rw [hYp]; exact mem_updProc_iff hs.pw hp _ q
    have hTS : TaskStepS s Y :=
      (TaskStepR.updTask1 TShape.refl s t f hid (fun r _ => hshape r)).of_tasks_eq hYt
    have hcr : ∀ t1 cross, CrossOk s t1 cross → CrossOk Y t1 cross :=
      fun t1 cross hx => hx.mono hTS (FinMono.of_eq (by rw [hYc]))
    -- arrivals of a list of finished tasks are untouched
    have harr : ∀ t1 cross (r r' : TaskRec), CrossOk s t1 cross → r'.io = r.io →
        crossArr Y r' cross = crossArr s r cross := by
      intro t1 cross r r' hc hio
      apply crossArr_congr hio
      intro x hx
      have hxt : x ≠ t := fun e => hnofin (e ▸ (hc x hx).2.1)
      unfold aftOf
      rw [hne x hxt]
    refine ⟨?_, ?_, ?_, ?_⟩
    · intro q hq t1 m1 cross obs ret hqk
      rcases (hmem q).mp hq with rfl | ⟨h1, _⟩
      · simp only [fin_k] at hqk; rw [hk'] at hqk; exact absurd hqk (by simp)
      · exact hcr _ _ (h.atCross q h1 t1 m1 cross obs ret hqk)
    · intro d hd t1 m1 cross ph1 tot1 hdk hw
      rcases (hmem d).mp hd with rfl | ⟨h1, _⟩
      · simp only [fin_k] at hdk
        rw [hk'] at hdk
        simp only [PK.doWork.injEq] at hdk
        obtain ⟨e1, _, e3, _⟩ := hdk
        subst e1 e3
        exact hcr _ _ (h.dwCross p hp t m preds ph tot hk hw)
      · exact hcr _ _ (h.dwCross d h1 t1 m1 cross ph1 tot1 hdk hw)
    · intro d hd hda t1 m1 cross tot1 hdk hw
      rcases (hmem d).mp hd with rfl | ⟨h1, h2⟩
      · simp only [fin_k] at hdk
        rw [hk'] at hdk
        simp only [PK.doWork.injEq] at hdk
        omega
      · have ht1 := hother d h1 h2 t1 m1 cross 1 tot1 hdk
        obtain ⟨r, mm, alloc, g1, g2, g3, g4, g5⟩ := h.waiting d h1 hda t1 m1 cross tot1 hdk hw
        refine ⟨r, mm, alloc, by rw [hne t1 ht1]; exact g1, by rw [machine?_congr hYm]; exact g2, g3, g4, ?_⟩
        rw [harr t1 cross r r (h.dwCross d h1 t1 m1 cross 1 tot1 hdk hw) rfl]; exact g5
    · intro d hd t1 m1 cross ph1 tot1 hdk hph1 hw
      rcases (hmem d).mp hd with rfl | ⟨h1, h2⟩
      · simp only [fin_k] at hdk
        rw [hk'] at hdk
        simp only [PK.doWork.injEq] at hdk
        obtain ⟨e1, e2, e3, _⟩ := hdk
        subst e1 e2 e3
        obtain ⟨r, mm, alloc, g1, g2, g3⟩ := hown hw
        refine ⟨f r, mm, alloc, heq r g1, by rw [machine?_congr hYm]; exact g2, ?_⟩
        rw [harr t preds r (f r) (h.dwCross p hp t m preds ph tot hk hw) (hshape r).io]; exact g3
      · have ht1 := hother d h1 h2 t1 m1 cross ph1 tot1 hdk
        obtain ⟨r, mm, alloc, g1, g2, g3⟩ := h.startedAt d h1 t1 m1 cross ph1 tot1 hdk hph1 hw
        refine ⟨r, mm, alloc, by rw [hne t1 ht1]; exact g1, by rw [machine?_congr hYm]; exact g2, ?_⟩
        rw [harr t1 cross r r (h.dwCross d h1 t1 m1 cross ph1 tot1 hdk hw) rfl]; exact g3
  cases hsh with
  | raised ph' e => rw [hbX] at hnr; exact absurd rfl (hnr e)
  | wait w hph hne hw =>
    rw [hbX]
    have hw0 := transferWait_nonneg _ _ _ _ _ _ hw
    obtain ⟨r, mm, hr, hmm, hwe⟩ := transferWait_ok hw
    have hmem : ∀ q, q ∈ (s.updProc p.pid (fin (.doWork t m preds 1 tot) (.timeout w) p.wake)).procs ↔
        q = fin (.doWork t m preds 1 tot) (.timeout w) p.wake p ∨ (q ∈ s.procs ∧ q.pid ≠ p.pid) :=
      fun q => mem_updProc_iff hs.pw hp _ q
    refine ⟨?_, ?_, ?_, ?_⟩
    · intro q hq t1 m1 cross obs ret hqk
      rcases (hmem q).mp hq with rfl | ⟨h1, _⟩
      · simp at hqk
      · exact h.atCross q h1 t1 m1 cross obs ret hqk
    · intro d hd t1 m1 cross ph1 tot1 hdk hw1
      rcases (hmem d).mp hd with rfl | ⟨h1, _⟩
      · simp only [fin_k, PK.doWork.injEq] at hdk
        obtain ⟨e1, _, e3, _⟩ := hdk
        subst e1 e3
        exact h.dwCross p hp t m preds ph tot hk hw1
      · exact h.dwCross d h1 t1 m1 cross ph1 tot1 hdk hw1
    · intro d hd hda t1 m1 cross tot1 hdk hw1
      rcases (hmem d).mp hd with rfl | ⟨h1, _⟩
      · simp only [fin_k, PK.doWork.injEq] at hdk
        obtain ⟨e1, e2, e3, _⟩ := hdk
        subst e1 e2 e3
        refine ⟨r, mm, p.wake, hr, hmm, hne, ?_, ?_⟩
        · show p.wake ≤ p.wake + w; grind
        · show p.wake + w = startTime p.wake mm.bw (crossArr s r preds)
          rw [startTime_cross s r preds hne, hwe]
      · exact h.waiting d h1 hda t1 m1 cross tot1 hdk hw1
    · intro d hd t1 m1 cross ph1 tot1 hdk hph1 hw1
      rcases (hmem d).mp hd with rfl | ⟨h1, _⟩
      · simp only [fin_k, PK.doWork.injEq] at hdk
        omega
      · exact h.startedAt d h1 t1 m1 cross ph1 tot1 hdk hph1 hw1
  | start r mm dur tot' hph hr hmm =>
    rw [hbX]
    refine stamp (dwStartF p.wake dur) (fun r => ⟨rfl, rfl, rfl⟩) _ _ _ rfl rfl rfl rfl 2 tot' rfl (by omega) ?_
    · intro hw
      rcases hph with e | ⟨e, hp0⟩
      · -- after the wait
        subst e
        obtain ⟨r0, mm0, alloc, g1, g2, _, _, g5⟩ := h.waiting p hp ha t m preds tot hk hw
        rw [hr] at g1; injection g1 with e1; subst e1
        rw [hmm] at g2; injection g2 with e2; subst e2
        exact ⟨r, mm, alloc, hr, hmm, by show some p.wake = _; rw [g5]⟩
      · -- no cross-machine predecessor
        subst hp0
        exact ⟨r, mm, p.wake, hr, hmm, by show some p.wake = _; rw [crossArr_nil]; rfl⟩
  | finish hph =>
    rw [hbX]
    refine stamp (dwEndF p.wake tot) (fun r => ?_) _ _ _ rfl rfl rfl rfl 3 tot rfl (by omega) ?_
    · obtain ⟨a, b, c, _⟩ := dwEndF_spec p.wake tot r
      exact ⟨a, b, c⟩
    · intro hw
      obtain ⟨r, mm, alloc, g1, g2, g3⟩ := h.startedAt p hp t m preds ph tot hk hph hw
      exact ⟨r, mm, alloc, g1, g2, by rw [(dwEndF_spec p.wake tot r).2.2.2.1]; exact g3⟩

end Sys
end Topsim
