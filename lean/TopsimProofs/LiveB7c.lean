/-
  LiveB7c — BatchProcessing: the declarations of Live7c that depend on the configuration hypotheses,
  for `LiveCfgB` / `NcCfgB` (`s0.alg = .batch …`).  Generated from Live7c.lean by renaming (suffix `_B`);
  the algorithm-dependent ones are rewritten (see the comments).
-/
import TopsimProofs.Live7c
import TopsimProofs.LiveB5
import TopsimProofs.LiveB7

namespace Topsim
open Sys
namespace Sys

theorem l7_clk_step_B {s0 s s' : Sys} {p : Proc} {orc : Oracle} (L : L7LibB s0 s) (h : L7Step s s' p orc)
    (hc : ∀ r ∈ s.tasks, ∀ r' ∈ s.tasks, ∀ o c n c' n', r.id = .wf o c n → r'.id = .wf o c' n' → c = c') :
    ∀ r ∈ s'.tasks, ∀ r' ∈ s'.tasks, ∀ o c n c' n', r.id = .wf o c n → r'.id = .wf o c' n' → c = c' := by
  rw [h.res]
  rcases resume_shape s L.sinv.pw p.pid orc with ⟨_, hM⟩ | ⟨_, p1, o1, d, recs, _, _, _, _, ht, _, hid⟩ |
      ⟨p1, hp1, _, _, oid, ob, recs, plan, hnx, hob, hrp, ht, _⟩
  · intro r hr r' hr' o c n c' n' e e'
    obtain ⟨a, ha, ka⟩ := hM.back hr
    obtain ⟨b, hb, kb⟩ := hM.back hr'
    exact hc a ha b hb o c n c' n' (ka.id.symm.trans e) (kb.id.symm.trans e')
  · intro r hr r' hr' o c n c' n' e e'
    rw [ht] at hr hr'
    have old : ∀ x ∈ s.tasks ++ recs, ∀ o c n, x.id = Tid.wf o c n → x ∈ s.tasks := by
      intro x hx o c n ex
      rcases List.mem_append.mp hx with h1 | h1
      · exact h1
      · obtain ⟨i, _, ei⟩ := hid x h1
        rw [ei] at ex; cases ex
    exact hc r (old r hr o c n e) r' (old r' hr' o c' n' e') o c n c' n' e e'
  · obtain ⟨_, _, hold⟩ := l7_next_fresh L.wi L.bufi hnx
    have hoid : ob.id = oid := (obs_mem_of_obs? hob).2
    obtain ⟨_, _, _, g4⟩ := planOf_facts ob (natNow p1.wake) s.staticPlan orc.plan recs plan hrp
    intro r hr r' hr' o c n c' n' e e'
    rw [ht] at hr hr'
    rcases List.mem_append.mp hr with h1 | h1 <;> rcases List.mem_append.mp hr' with h2 | h2
    · exact hc r h1 r' h2 o c n c' n' e e'
    · exfalso
      obtain ⟨_, n2, e2⟩ := g4 r' h2
      rw [e2, hoid] at e'
      injection e' with e3 _ _
      subst e3
      exact hold r h1 c n e
    · exfalso
      obtain ⟨_, n1, e1⟩ := g4 r h1
      rw [e1, hoid] at e
      injection e with e3 _ _
      subst e3
      exact hold r' h2 c' n' e'
    · obtain ⟨_, n1, e1⟩ := g4 r h1
      obtain ⟨_, n2, e2⟩ := g4 r' h2
      rw [e1] at e
      rw [e2] at e'
      injection e with _ a1 _
      injection e' with _ a2 _
      rw [← a1, ← a2]

theorem l7a_step_B {s0 s s' : Sys} {p : Proc} {orc : Oracle} (L : L7LibB s0 s) (h : L7Step s s' p orc)
    (A : L7A s) : L7A s' := by
  have hpm := h.mem
  have hs := L.sinv
  obtain ⟨U, hU⟩ := hs.ci
  have hno : s.alg ≠ .oracle := L.alg.ne_oracle
  obtain ⟨new, hnewe, hnewp⟩ := block_newp s p orc
  have hm := h.memSpec hs hnewe
  -- an old live allocation process other than the one that ran is still there
  have keep : ∀ a ∈ s.procs, a.pid ≠ p.pid → a ∈ s'.procs := fun a ha hne => (hm a).mpr (Or.inr (Or.inl ⟨ha, hne⟩))
  have keepK : ∀ {t : Tid}, (∀ m preds obs ing ret, p.k ≠ .allocTask t m preds obs ing ret) →
      (∃ q ∈ s.procs, q.alive = true ∧ ∃ m preds obs ing ret, q.k = .allocTask t m preds obs ing ret) →
      ∃ q ∈ s'.procs, q.alive = true ∧ ∃ m preds obs ing ret, q.k = .allocTask t m preds obs ing ret := by
    rintro t hne ⟨q, hq, hqa, m, preds, obs, ing, ret, hqk⟩
    refine ⟨q, keep q hq ?_, hqa, m, preds, obs, ing, ret, hqk⟩
    intro e
    have : q = p := hs.pw.eq_of_pid hq hpm e
    subst this
    exact hne m preds obs ing ret hqk
  refine ⟨l7_clk_step_B L h A.clk, ?_, ?_⟩
  · -- run
    intro t hw hst
    rw [h.tstat] at hst
    cases hk : p.k with
    | allocTask t0 m preds obs ing ret =>
      have hnr := h.nr
      rw [block_allocTask orc hk] at hnr hst
      have hrec : ∃ r, s.task? t0 = some r := by
        obtain ⟨r, hr, _⟩ := hU.hasRec p hpm t0 m preds obs ing ret hk
        exact ⟨r, hr⟩
      obtain ⟨⟨ret', hk'⟩, hcase⟩ := l7_allocTask_block s hs.pw p.wake t0 m preds obs ing ret hnr hrec
      by_cases e : t = t0
      · subst e
        rcases hcase with ⟨hy, _, _⟩ | ⟨_, hf, _⟩
        · refine ⟨_, (hm _).mpr (Or.inl rfl), ?_, m, preds, obs, ing, ret', ?_⟩
          · rw [h.alive', block_allocTask orc hk]; exact ⟨1, hy⟩
          · rw [fin_k, block_allocTask orc hk]; exact hk'
        · rw [hf] at hst; rcases hst with hst | hst <;> cases hst
      · rw [allocTask_tstat_ne s _ _ _ _ _ _ _ e] at hst
        apply keepK _ (A.run t hw hst)
        intro m1 p1 o1 i1 r1 e1
        rw [hk] at e1
        injection e1 with e2
        exact e e2.symm
    | doWork t0 m preds ph tot =>
      rw [block_doWork orc hk] at hst
      have hne : ∀ m1 p1 o1 i1 r1, p.k ≠ .allocTask t m1 p1 o1 i1 r1 := by
        intro m1 p1 o1 i1 r1 e1; rw [hk] at e1; cases e1
      rcases l7_doWork_tstat s p.wake orc t0 m preds ph tot t with e | ⟨e, _⟩
      · rw [e] at hst; exact keepK hne (A.run t hw hst)
      · subst e
        obtain ⟨a, ha1, haa, _, preds', obs, ing, hak⟩ := hs.dg.dwAlloc p hpm h.ha _ _ _ _ _ hk
        exact keepK hne ⟨a, ha1, haa, m, preds', obs, ing, p.pid, hak⟩
    | allocTasks o sc pa po fn =>
      have hne : ∀ m1 p1 o1 i1 r1, p.k ≠ .allocTask t m1 p1 o1 i1 r1 := by
        intro m1 p1 o1 i1 r1 e1; rw [hk] at e1; cases e1
      rcases l7_allocTasks_tstat L.su hno hpm h.ha orc hk hnewe t with e | ⟨_, _, q, hq, hqa, m', cross', hqk⟩
      · rw [e] at hst; exact keepK hne (A.run t hw hst)
      · exact ⟨q, (hm q).mpr (Or.inr (Or.inr hq)), hqa, m', cross', some o, false, 0, hqk⟩
    | _ =>
      have hne : ∀ m1 p1 o1 i1 r1, p.k ≠ .allocTask t m1 p1 o1 i1 r1 := by
        intro m1 p1 o1 i1 r1 e1; rw [hk] at e1; cases e1
      rw [l7_block_tstat_other s p orc (by rw [hk]; simp [PK.tag]) (by rw [hk]; simp [PK.tag])
        (by rw [hk]; simp [PK.tag]) hw] at hst
      exact keepK hne (A.run t hw hst)
  · -- fin
    intro t hw hst
    rw [h.tstat] at hst
    rw [h.finT]
    by_cases htag : p.k.tag = "allocTask"
    · cases hk : p.k <;> rw [hk] at htag <;> simp [PK.tag] at htag
      rename_i t0 m preds obs ing ret
      have hnr := h.nr
      rw [block_allocTask orc hk] at hnr hst ⊢
      have hrec : ∃ r, s.task? t0 = some r := by
        obtain ⟨r, hr, _⟩ := hU.hasRec p hpm t0 m preds obs ing ret hk
        exact ⟨r, hr⟩
      obtain ⟨_, hcase⟩ := l7_allocTask_block s hs.pw p.wake t0 m preds obs ing ret hnr hrec
      by_cases e : t = t0
      · subst e
        rcases hcase with ⟨_, hsame | hsch, _⟩ | ⟨_, _, hf⟩
        · exfalso
          rw [hsame] at hst
          obtain ⟨r, hr, hid, hfin⟩ := l7_rec_of_finished hst
          exact L.wi.ast p hpm h.ha t m preds obs ing ret hk hw r hr hid hfin
        · rw [hsch] at hst; cases hst
        · unfold FinT; rw [hf]; exact dictGet_dictSet_self _ _ _
      · rw [allocTask_tstat_ne s _ _ _ _ _ _ _ e] at hst
        have ih := A.fin t hw hst
        unfold FinT at ih ⊢
        have hne : t0 ≠ t := fun e' => e e'.symm
        rcases hcase with ⟨_, _, hf | hf⟩ | ⟨_, _, hf⟩
        · rw [hf]; exact ih
        · rw [hf, dictGet_dictSet_ne _ _ hne]; exact ih
        · rw [hf, dictGet_dictSet_ne _ _ hne]; exact ih
    · by_cases htag2 : p.k.tag = "doWork"
      · cases hk : p.k <;> rw [hk] at htag2 <;> simp [PK.tag] at htag2
        rename_i t0 m preds ph tot
        rw [block_doWork orc hk] at hst ⊢
        rcases l7_doWork_tstat s p.wake orc t0 m preds ph tot t with e | ⟨_, e⟩
        · rw [e] at hst
          exact (finT_congr (by rw [l7_doWork_cl]) t).mpr (A.fin t hw hst)
        · rw [e] at hst; cases hst
      · have hfin := (block_taskStep s p orc hno htag htag2).2
        have hsame : tstat (s.block p orc).1 t = tstat s t := by
          by_cases htag3 : p.k.tag = "allocTasks"
          · cases hk : p.k <;> rw [hk] at htag3 <;> simp [PK.tag] at htag3
            rcases l7_allocTasks_tstat L.su hno hpm h.ha orc hk hnewe t with e | ⟨_, e, _⟩
            · exact e
            · rw [e] at hst; cases hst
          · exact l7_block_tstat_other s p orc htag htag2 htag3 hw
        rw [hsame] at hst
        exact (finT_congr hfin t).mpr (A.fin t hw hst)
section
variable {env : SimEnv} {s0 : Sys}

/-- `L7A` at every index of the run -/
theorem live_l7a_B (C : LiveCfgB env s0) (K : LiveKernel env s0) (n : Nat) : L7A (simAt env s0 n).st := by
  induction n with
  | zero => exact l7a_start s0 C.hw
  | succ n ih =>
    obtain ⟨e, p, _, _, _, hstep⟩ := l7_step_B C K n
    exact l7a_step_B (l7_lib_B C K n) hstep ih
end
end Sys
end Topsim
