/-
  RowTraj2 — steps that are not the monitor's write no row; `run(until=u)` returns
  with exactly `u` rows; a concrete run in which a task body is resumed before
  the monitor inside an instant.
-/
import TopsimProofs.RowTraj1
import TopsimProofs.SpanTraj4

namespace Topsim

open KState Sys

/-- a step of any process other than the monitor writes no row -/
theorem other_step_rows (env : SimEnv) (k k' : SimState) (hi : RowsInv k.st) (e : HEntry)
    (hp : k.peek = some e) (he : e.pid ≠ 0) (hs : k.step (simHandler env) = some k') :
    k'.st.rows = k.st.rows := by
  rw [step_next _ _ e hp] at hs
  cases hs
  rw [next_st]
  rcases simHandler_cases env k.st e.pid e.time with ⟨hc, _⟩ | ⟨hc, _, _⟩
  · rw [hc]
  · rw [hc]
    cases hq : k.st.proc? e.pid with
    | none => rw [resume_none _ _ _ hq]
    | some q =>
      apply rows_only_monitor k.st e.pid _ q hq
      intro hk
      obtain ⟨hqm, hqp⟩ := proc?_some hq
      exact he (hqp.symm.trans (hi.only q hqm hk))

/-- `run(until=u)` from the start returns with exactly `u` rows -/
theorem runsTo_rows_length (env : SimEnv) (s0 : Sys) (hw : WFConfig s0) (u : Nat) (ku : SimState)
    (hr : RunsTo (simHandler env) (u : Time) (SimState.start s0) ku) : ku.st.rows.length = u := by
  obtain ⟨hprocs, hnp, _⟩ := hw.fresh
  have hreach : SimReach env s0 ku := SimReach.start.runsTo hr
  obtain ⟨m, hm, hmp, hmt, _⟩ := sim_monitor_entry env s0 hw ku hreach
  obtain ⟨_, mt⟩ := MonTimes.runsTo env u _ ku (MonFirst.init s0 hprocs hnp) (MonTimes.start u s0) hr
  obtain ⟨n, hn, hnu⟩ := mt.2 m hm hmp
  have h1 : ku.st.rows.length = n := by
    have : ((ku.st.rows.length : Nat) : Time) = ((n : Nat) : Time) := by rw [← hmt, hn]
    exact_mod_cast this
  have h2 : u ≤ n := by
    rcases runsTo_stops _ _ _ _ hr with h | ⟨e, he, hu⟩
    · rw [peek_none_iff] at h
      rw [h] at hm
      cases hm
    · obtain ⟨_, hleast⟩ := peek_spec ku e he
      have := hleast m hm
      rw [lt_false_iff] at this
      have h3 : ((u : Nat) : Time) ≤ ((n : Nat) : Time) := by
        rw [← hn]
        grind
      exact_mod_cast h3
  omega

theorem ilSimSteps_one (env : SimEnv) {k k1 : SimState} (hs : k.step (simHandler env) = some k1) :
    ilSimSteps env 1 k = k1 := by
  simp [ilSimSteps, hs]

-- F13: 78 kernel steps / instant 11 (before the repair: 72 steps / instant 10; `precA` now holds
-- its machine one step longer, so `precB` starts one step later)
/-- the simulator on `precW0` with the delay script `[3]`, after 78 kernel steps: 11 rows written,
every pending event is at instant 11 or later, the next event is the last block of the body of
`precB` (process 14), the one after it the monitor's; the row the monitor then writes reports one
task running -/
theorem rowSim78 :
    (ilSimSteps { delayScript := [3] } 78 (SimState.start precW0)).st.rows.length = 11 ∧
    (∀ x ∈ (ilSimSteps { delayScript := [3] } 78 (SimState.start precW0)).heap, (11 : Time) ≤ x.time) ∧
    ((ilSimSteps { delayScript := [3] } 78 (SimState.start precW0)).peek.map (·.pid)) = some 14 ∧
    ((ilSimSteps { delayScript := [3] } 1 (ilSimSteps { delayScript := [3] } 78 (SimState.start precW0))).peek.map
      (·.pid)) = some 0 ∧
    (ilSimSteps { delayScript := [3] } 78 (SimState.start precW0)).st.active = [(0, precB)] ∧
    (ilSimSteps { delayScript := [3] } 1 (ilSimSteps { delayScript := [3] } 78 (SimState.start precW0))).st.active = [] ∧
    ((ilSimSteps { delayScript := [3] } 78 (SimState.start precW0)).st.mkRow 11).running = 1 := by
  decide +kernel

end Topsim
