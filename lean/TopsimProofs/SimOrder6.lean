/-
  SimOrder6 — the hypotheses of the C13 theorems at L3 are satisfiable: a concrete run of the
  deterministic simulator (configuration `soW0`: one observation, rate 1, one ingest machine, one
  timestep, empty workflow, queue algorithm, empty buffer) that reaches `is_finished()` without a
  raised exception after 20 kernel steps, having emitted the eight life-cycle events of the
  observation, each once; one step later the monitor has moved all eight to the log.
-/
import TopsimProofs.SimOrder5

namespace Topsim

open KState Sys

/-- `n` kernel steps of one `env.run(...)`, with the emitted events -/
def soStepsEv (env : SimEnv) : Nat → SimState × List Event → SimState × List Event
  | 0, x => x
  | n + 1, (k, evs) =>
    if k.st.halted then (k, evs) else
    match k.step (simHandler env) with
    | some k1 => soStepsEv env n (k1, evs ++ simStepEvents env k)
    | none => (k, evs)

theorem SimRunEv.stepsEv {env : SimEnv} {s0 : Sys} (n : Nat) {k : SimState} {evs : List Event}
    (h : SimRunEv env s0 k evs) :
    SimRunEv env s0 (soStepsEv env n (k, evs)).1 (soStepsEv env n (k, evs)).2 := by
  induction n generalizing k evs with
  | zero => exact h
  | succ n ih =>
    unfold soStepsEv
    split
    · exact h
    · rename_i hh
      split
      · rename_i k1 hs
        exact ih (SimRunEv.step k k1 evs h (by simpa using hh) hs)
      · exact h

def soObsA : Obs :=
  { id := 0, est := 0, duration := 1, demand := 1, rate := 1, ingestDemand := 1, wf := ⟨[], [], []⟩ }

def soW0 : Sys :=
  { machines := [⟨0, 1, 1⟩, ⟨1, 1, 1⟩], totalArrays := 3, maxIngest := 2, alg := .queue,
    cl := Cluster.init [0, 1], buf := Buffer.init 100 10 100 10, obs := [soObsA] }

theorem soW0_wf : WFConfig soW0 := by
  refine ⟨by decide, rfl, by decide, ?_, ⟨rfl, rfl, rfl, rfl, rfl, rfl, rfl, rfl, rfl, rfl, rfl, rfl, rfl,
    rfl, rfl, rfl, rfl⟩⟩
  intro o ho
  simp only [soW0, List.mem_cons, List.not_mem_nil, or_false] at ho
  subst ho
  exact ⟨rfl, rfl, by decide, by decide⟩

theorem soW0_buf : soW0.buf.hot.stored = [] ∧ soW0.buf.hot.scheduled = [] ∧ soW0.buf.hot.finished = [] ∧
    soW0.buf.cold.stored = [] := ⟨rfl, rfl, rfl, rfl⟩

theorem soW0_size : soW0.buf.size = [] ∧ soW0.buf.hot.cur ≤ soW0.buf.hot.total ∧
    soW0.buf.cold.cur ≤ soW0.buf.cold.total := by decide

theorem soW0_rate : ∀ o ∈ soW0.obs, 0 < o.rate := by
  intro o ho
  simp only [soW0, List.mem_cons, List.not_mem_nil, or_false] at ho
  subst ho
  decide

/-- the state and the trace after 20 kernel steps (two instants), and after 21 -/
def soK20 : SimState × List Event := soStepsEv {} 20 (SimState.start soW0, [])
def soK21 : SimState × List Event := soStepsEv {} 21 (SimState.start soW0, [])

theorem soK20_run : SimRunEv {} soW0 soK20.1 soK20.2 := SimRunEv.start.stepsEv 20
theorem soK21_run : SimRunEv {} soW0 soK21.1 soK21.2 := SimRunEv.start.stepsEv 21

theorem soK20_facts :
    soK20.1.st.isFinished = true ∧ soK20.1.st.crashed = none ∧ soK20.1.st.obs.map (·.id) = [0] ∧
    soK20.2 = [⟨0, 0, .telStarted⟩, ⟨0, 0, .bufAdded⟩, ⟨1, 0, .telFinished⟩, ⟨1, 0, .queueAdded⟩,
      ⟨1, 0, .allocStarted⟩, ⟨1, 0, .allocStopped⟩, ⟨1, 0, .queueRemoved⟩, ⟨1, 0, .bufRemoved⟩] := by
  decide +kernel

theorem soK21_facts :
    soK21.1.st.isFinished = true ∧ soK21.1.st.crashed = none ∧ soK21.2 = soK20.2 ∧
    soK21.1.st.log = [⟨0, 0, .telStarted⟩, ⟨0, 0, .bufAdded⟩, ⟨1, 0, .telFinished⟩, ⟨1, 0, .queueAdded⟩,
      ⟨1, 0, .allocStarted⟩, ⟨1, 0, .allocStopped⟩, ⟨1, 0, .queueRemoved⟩, ⟨1, 0, .bufRemoved⟩] := by
  decide +kernel

end Topsim
