/-
  BoundB1 — C05, the numeric clause (the serial bound) for BatchProcessing on the simulator:
  vocabulary, and the lemmas of Bound2 / Bound3 that depend on the configuration hypotheses, for
  `LiveCfgB` (`s0.alg = .batch …`).  The definitions that do not depend on the algorithm (`boundTau`,
  `boundLatest`, `boundV`, `boundWAT`, `Proc.BoundWorker`, …) are those of Bound1.

  THE DIFFERENCE to QueueProcessing.  A workflow runs on the machines of its reservation only; a
  refused request for a reservation is repeated every time unit; the reservation is released when the
  workflow ends.  In an idle state (no worker process alive) in which a reservation exists, the
  telescope may be refused (the reserved machines are not available) and so may the `allocate_tasks`
  process of an observation without reservation.  So the "enabled" pollers are (`Sys.BoundBEn`):
    * the telescope with an observation not yet admitted, when NO reservation exists;
    * the scheduler loop with something stored;
    * an `allocate_tasks` process whose observation is not removed and either HOLDS a reservation or
      no reservation exists at all.
  An idle state that is not at `is_finished()` still has an enabled poller (a holder of a reservation is
  in the scheduler's queue and its `allocate_tasks` process is running), and the block of an enabled
  poller in an idle state still makes a stage happen: the accounting of Bound9 goes through with the
  SAME weights.
-/
import TopsimProofs.Bound10
import TopsimProofs.LiveB20

namespace Topsim

open KState Sys

/-- a polling process that will make a stage happen at its next block if the state is idle then,
BatchProcessing -/
def Sys.BoundBEn (s : Sys) (p : Proc) : Prop :=
  p.alive = true ∧
    ((p.k = .telescope ∧ (∃ ob ∈ s.obs, ob.ast = none) ∧ s.cl.idle = []) ∨
     (p.k = .schedLoop ∧ s.buf.hot.stored ≠ []) ∨
     (∃ o sc pa po, p.k = .allocTasks o sc pa po false ∧ o ∉ s.buf.hot.finished ∧
        (s.cl.idle = [] ∨ s.cl.isProvisioned o = true)))

/-- the parts of the proof of the bound, BatchProcessing (against `BoundParts`: `Sys.BoundBEn`, and
`enabled_persists` is asked for idle states only) -/
structure BoundBParts (env : SimEnv) (s0 : Sys) : Prop where
  wake_nat : ∀ n, ∀ q ∈ (simAt env s0 (n + 1)).st.procs, q.alive = true → q.k.tag ≠ "doWork" →
    ∃ m : Nat, q.wake = ((m : Nat) : Time) ∧ ((m : Nat) : Time) ≤ boundTau env s0 n + 1
  tl : ∀ n, (∀ j, j < n → boundTau env s0 j ≤ boundLV env s0 j) →
    ∀ q ∈ (simAt env s0 n).st.procs, q.alive = true → q.BoundWorker → q.wake + 1 ≤ boundLV env s0 n
  idle_enabled : ∀ n, (simAt env s0 n).st.NoWorker → (simAt env s0 n).st.isFinished = false →
    ∃ p ∈ (simAt env s0 n).st.procs, (simAt env s0 n).st.BoundBEn p
  enabled_fires : ∀ n (e : HEntry) (p : Proc), (simAt env s0 n).peek = some e →
    (simAt env s0 n).st.proc? e.pid = some p → (simAt env s0 n).st.BoundBEn p →
    (simAt env s0 n).st.NoWorker → ((boundLatest s0 : Nat) : Time) ≤ p.wake →
    boundV s0 (simAt env s0 n).st < boundV s0 (simAt env s0 (n + 1)).st
  enabled_persists : ∀ n (e : HEntry) (p : Proc), (simAt env s0 n).peek = some e →
    p ∈ (simAt env s0 n).st.procs → p.pid ≠ e.pid → (simAt env s0 n).st.BoundBEn p →
    (simAt env s0 n).st.NoWorker →
    boundV s0 (simAt env s0 (n + 1)).st = boundV s0 (simAt env s0 n).st →
    p ∈ (simAt env s0 (n + 1)).st.procs ∧ (simAt env s0 (n + 1)).st.BoundBEn p
  v_mono : ∀ n, boundV s0 (simAt env s0 n).st ≤ boundV s0 (simAt env s0 (n + 1)).st
  v_total : ∀ n, boundLatest s0 + boundV s0 (simAt env s0 n).st ≤ Sys.serialBound s0

section
variable {env : SimEnv} {s0 : Sys}

/-! ### Bound2 along the run -/

theorem boundB_run_mono (C : LiveCfgB env s0) (K : LiveKernel env s0) {n m : Nat} (h : n ≤ m) :
    BoundMono s0 (simAt env s0 n).st (simAt env s0 m).st :=
  fun _ _ => ⟨fun hp => live_PAst_mono_B C K h hp, fun hp => live_PQ_mono_B C K h hp,
    fun hp => live_PRm_mono_B C K h hp, fun _ _ hp => live_PAT_mono_B C K h hp⟩

theorem boundB_v_mono (C : LiveCfgB env s0) (K : LiveKernel env s0) {n m : Nat} (h : n ≤ m) :
    boundV s0 (simAt env s0 n).st ≤ boundV s0 (simAt env s0 m).st :=
  bound_v_mono_of (boundB_run_mono C K h)

theorem boundB_lv_mono (C : LiveCfgB env s0) (K : LiveKernel env s0) {n m : Nat} (h : n ≤ m) :
    boundLV env s0 n ≤ boundLV env s0 m := by
  unfold boundLV
  have := boundB_v_mono C K h
  exact_mod_cast Nat.add_le_add_left this _

/-! ### Bound3: whole-instant wakes -/

/-- the clock is monotone -/
theorem boundB_wk_mono (C : LiveCfgB env s0) (K : LiveKernel env s0) (n : Nat) :
    boundTau env s0 n ≤ boundTau env s0 (n + 1) := by
  obtain ⟨e, p, hpk, -⟩ := live_step_B C K n
  obtain ⟨e', p', hpk', -⟩ := live_step_B C K (n + 1)
  rw [bound_wk_tau hpk, bound_wk_tau hpk']
  obtain ⟨_, hleast⟩ := peek_spec _ e hpk
  obtain ⟨he', _⟩ := peek_spec _ e' hpk'
  refine K.minMono n (n + 1) e.time (Nat.le_succ n) ?_ e' he'
  intro x hx
  have h1 := hleast x hx
  rw [lt_false_iff] at h1
  have h2 : ¬ x.time < e.time := fun h => h1 (Or.inl h)
  exact Rat.not_lt.mp h2

theorem boundB_wk_start_procs (C : LiveCfgB env s0) :
    ∀ q ∈ (simAt env s0 0).st.procs, q.wake = 0 := by
  obtain ⟨hprocs, hnp, _⟩ := C.hw.fresh
  have hst : (simAt env s0 0).st = s0.start := rfl
  have hp : s0.start.procs =
      [{ pid := 0, k := .monitor, wake := 0 }, { pid := 1, k := .telescope, wake := 0 },
       { pid := 2, k := .clusterLoop, wake := 0 }, { pid := 3, k := .schedLoop, wake := 0 },
       { pid := 4, k := .bufferLoop, wake := 0 }] := by
    simp [start, spawn, hprocs, hnp]
  intro q hq
  rw [hst, hp] at hq
  simp only [List.mem_cons, List.not_mem_nil, or_false] at hq
  rcases hq with rfl | rfl | rfl | rfl | rfl <;> rfl

theorem boundB_wk_Q_zero (C : LiveCfgB env s0) (K : LiveKernel env s0) : bound_wk_Q env s0 0 := by
  intro q hq _ _
  obtain ⟨e, p, hpk, hpp, _, het, -⟩ := live_step_B C K 0
  have hp0 := boundB_wk_start_procs C p (proc?_some hpp).1
  refine ⟨0, by rw [boundB_wk_start_procs C q hq]; simp, ?_⟩
  rw [bound_wk_tau hpk, het, hp0]
  exact bound_wk_le_add_one 0

/-- one block: the invariant at `n` gives the statement at `n + 1` with the clock of index `n` -/
theorem boundB_wk_step (C : LiveCfgB env s0) (K : LiveKernel env s0) (n : Nat)
    (hQ : bound_wk_Q env s0 n) :
    ∀ q ∈ (simAt env s0 (n + 1)).st.procs, q.alive = true → q.k.tag ≠ "doWork" →
      ∃ m : Nat, q.wake = ((m : Nat) : Time) ∧ ((m : Nat) : Time) ≤ boundTau env s0 n + 1 := by
  obtain ⟨e, p, hpk, hpp, ha, het, _, _, hst⟩ := live_step_B C K n
  have hpw : PW (simAt env s0 n).st := (live_sinv_B C K n).pw
  obtain ⟨hpm, hpid⟩ := proc?_some hpp
  obtain ⟨m1, _, _⟩ := il_resume_procs_mem hpw hpp ha (env.oracle (simAt env s0 n).st)
  have htau : boundTau env s0 n = p.wake := by rw [bound_wk_tau hpk, het]
  -- a fired process that is not a task body is due at a whole instant
  have hpnat : p.k.tag ≠ "doWork" → ∃ m : Nat, p.wake = ((m : Nat) : Time) := by
    intro hk
    obtain ⟨m, hm, _⟩ := hQ p hpm ha hk
    exact ⟨m, hm⟩
  intro q hq hqa hqk
  rw [hst] at hq
  rcases m1 q hq with rfl | ⟨hold, _⟩ | ⟨w1, _, _, w4⟩
  · -- the fired process
    obtain ⟨_, d, hd⟩ := fin_alive _ _ _ _ hqa
    have htag : p.k.tag ≠ "doWork" := by
      rw [← block_tag _ hpw p (env.oracle (simAt env s0 n).st)]
      simpa using hqk
    have hu := block_unit (simAt env s0 n).st p (env.oracle (simAt env s0 n).st)
      (bound_wk_isDoWork htag)
    rw [hd] at hu
    simp only [Yield.unit] at hu
    subst hu
    obtain ⟨m, hm⟩ := hpnat htag
    refine ⟨m + 1, ?_, ?_⟩
    · rw [hd, il_fin_wake_timeout, hm]; simp
    · rw [htau, hm]; simp
  · -- another old process
    exact hQ q hold hqa hqk
  · -- a new process
    by_cases hk : p.k.tag = "doWork"
    · -- a task body creates nothing
      exfalso
      obtain ⟨e1, _, _⟩ := il_resume_procs_eq (simAt env s0 n).st e.pid
        (env.oracle (simAt env s0 n).st) p hpp ha
      rw [e1] at hq
      obtain ⟨q0, hq0, hq0e⟩ := mem_updProc.mp hq
      have hprocs : ((simAt env s0 n).st.block p (env.oracle (simAt env s0 n).st)).1.procs =
          (simAt env s0 n).st.procs := by
        cases hkk : p.k with
        | doWork t m preds ph tot =>
          rw [block_doWork _ hkk]
          exact (doWorkBlock_spec _ _ _ _ _ _ _ _).1
        | _ => rw [hkk] at hk; exact absurd hk (by simp [PK.tag])
      rw [hprocs] at hq0
      have hlt := hpw.lt q0 hq0
      have hpidq : q.pid = q0.pid := by
        rw [hq0e]; split
        · unfold fin; split <;> rfl
        · rfl
      omega
    · obtain ⟨m, hm⟩ := hpnat hk
      have hsp : ilSpawnTime p = ((m : Nat) : Time) := by
        unfold ilSpawnTime
        split
        · rw [hm, il_natNow_natCast]
        · exact hm
      refine ⟨m, by rw [w1, hsp], ?_⟩
      rw [htau, hm]
      exact bound_wk_le_add_one _

theorem boundB_wk_Q_all (C : LiveCfgB env s0) (K : LiveKernel env s0) (n : Nat) :
    bound_wk_Q env s0 n := by
  induction n with
  | zero => exact boundB_wk_Q_zero C K
  | succ n ih =>
    intro q hq hqa hqk
    obtain ⟨m, hm, hle⟩ := boundB_wk_step C K n ih q hq hqa hqk
    refine ⟨m, hm, Rat.le_trans hle ?_⟩
    exact Rat.add_le_add_right.mpr (boundB_wk_mono C K n)

/-- **`BoundParts.wake_nat`.**  Every live process other than a task body is due at a whole
instant, at most one unit after the clock of the block that just ran. -/
theorem boundB_wake_nat (C : LiveCfgB env s0) (K : LiveKernel env s0) (n : Nat) :
    ∀ q ∈ (simAt env s0 (n + 1)).st.procs, q.alive = true → q.k.tag ≠ "doWork" →
      ∃ m : Nat, q.wake = ((m : Nat) : Time) ∧ ((m : Nat) : Time) ≤ boundTau env s0 n + 1 :=
  boundB_wk_step C K n (boundB_wk_Q_all C K n)

/-! ### the facts about one kernel step (Bound9) -/

/-- the facts about one kernel step that the assembly uses -/
theorem boundB_step_facts (C : LiveCfgB env s0) (K : LiveKernel env s0) (n : Nat) :
    ∃ e p, (simAt env s0 n).peek = some e ∧ (simAt env s0 n).st.proc? e.pid = some p ∧ p.alive = true ∧
      p ∈ (simAt env s0 n).st.procs ∧ p.pid = e.pid ∧
      boundTau env s0 n = p.wake ∧
      (∀ q ∈ (simAt env s0 n).st.procs, q.alive = true → boundTau env s0 n ≤ q.wake) ∧
      (∀ q ∈ (simAt env s0 n).st.procs, q.pid ≠ e.pid → q ∈ (simAt env s0 (n + 1)).st.procs) ∧
      (∀ q ∈ (simAt env s0 n).st.procs, q.pid = e.pid → q = p) := by
  obtain ⟨e, p, hpk, hpp, ha, het, hen, _, hst⟩ := live_step_B C K n
  have hpw := (live_sinv_B C K n).pw
  obtain ⟨hpm, hpid⟩ := proc?_some hpp
  have htau : boundTau env s0 n = p.wake := by rw [bound_wk_tau hpk, het]
  refine ⟨e, p, hpk, hpp, ha, hpm, hpid, htau, ?_, ?_, ?_⟩
  · intro q hq hqa
    obtain ⟨p0, hp0, _, hmin⟩ := hen
    rw [hpp] at hp0
    cases hp0
    rw [htau]
    exact hmin q hq hqa
  · intro q hq hne
    obtain ⟨_, _, m3⟩ := il_resume_procs_mem hpw hpp ha (env.oracle (simAt env s0 n).st)
    rw [hst]
    exact m3 q hq hne
  · intro q hq he
    exact hpw.eq_of_pid hq hpm (he.trans hpid.symm)

end

end Topsim
