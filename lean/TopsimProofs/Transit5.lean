/-
  Transit5 — concrete runs of the deterministic simulator (SimPy's own order) for the
  room-on-top-of-transit property.  Every configuration: machines of speed 1 / bandwidth 1, one array,
  one ingest machine and one timestep per observation, one workflow task per observation, the queue
  algorithm, no delay.  `transitObs i est rate work`: observation `i`, planned start `est`, volume
  `rate` (× 1 timestep), a workflow of one task of `work` units.

  `transitNV`  (non-vacuity; hot 100 at ≤ 50/step, cold 42 at 5/step):
      a = 41 (long workflow) and a2 = 7 at t = 0, b = 13 at t = 2 (61 % of hot: over the threshold);
      b is moved hot→cold during t = 3..5 (5, 5, 3).  d = 2 falls due at t = 4 and is ADMITTED with
      8 units of b in transit (2 + 13 ≤ 37).  c = 30 falls due at t = 5: the cold tier shows 32 free,
      3 units of b are still to arrive, the test counts b in full (30 + 13 > 32): REFUSED — and
      refused until b has come back to the hot tier (cold→hot move t = 8..10); admitted at t = 11.

  `transitK5`  (no hypothesis; K5 shape: `c07WC` + D = 35 due at t = 3): two moves in flight
      (20 + 30 to come), slot = one observation of 40, cold free 80: D admitted, 35 + 50 > 80.

  `transitPW`  (hypothesis at the admission instant only; block system, not SimPy's order):
      A = 36, B = 35 in a hot tier of 100; moves of B (t = 1..4) and A (t = 2..5) overlap; B's move
      ends at t = 4 and clears the slot.  At t = 5, if the ended move's last block runs before the
      telescope, ONE move is alive (6 to come), the slot is empty, cold free 35: D = 32 admitted.

  `transitN2`  (at most one hot→cold move along the WHOLE run, SimPy's order — a cold→hot move beside
      it): `transitNV` without c and d, e = 20 at t = 9, f = 30 at t = 11.  b returns cold→hot during
      t = 8..10; e pushes the hot tier over the threshold and its hot→cold move starts at t = 10; in
      that instant b's return completes and CLEARS the cold tier's slot.  At t = 11: slot empty, 15
      units of e in transit, cold free 37: f = 30 admitted, 30 + 15 > 37.

  `transitN3`  (hot tier; one cold→hot move, nothing else): `transitNV` with cold 100, without c and d,
      e = 50 at t = 9: b is returning (8 to come), hot free 54; `check_buffer_capacity` compares 50
      with 54 (it does not call `HotBuffer.has_capacity_for`): admitted, 50 + 8 > 54; hot free −1 at
      t = 10, no exception.
-/
import TopsimProofs.Transit4
import TopsimProofs.BufTraj3

namespace Topsim

open Sys

theorem transit_simRun_step {env : SimEnv} {s0 : Sys} {k : SimState} (h : SimRun env s0 k)
    (hh : k.st.halted = false) (hs : (k.step (simHandler env)).isSome = true) :
    SimRun env s0 (transitStep env k) :=
  SimRun.step k _ h hh (transitStep_spec hs)

theorem transit_transitSimRun_step {Q : Sys → Prop} {env : SimEnv} {s0 : Sys} {k : SimState}
    (h : TransitSimRun Q env s0 k) (hh : k.st.halted = false)
    (hs : (k.step (simHandler env)).isSome = true) (hq : Q (transitStep env k).st) :
    TransitSimRun Q env s0 (transitStep env k) :=
  TransitSimRun.step k _ h hh (transitStep_spec hs) hq

namespace Sys

def transitObs (i est : Nat) (rate : Int) (work : Nat) : Obs :=
  { id := i, est := est, duration := 1, demand := 1, rate := rate, ingestDemand := 1,
    wf := ⟨[(0, work, 0)], [], [0]⟩ }

def transitCfg (hot hotRate cold coldRate : Int) (obs : List Obs) : Sys :=
  { machines := [⟨0, 1, 1⟩, ⟨1, 1, 1⟩, ⟨2, 1, 1⟩, ⟨3, 1, 1⟩, ⟨4, 1, 1⟩], totalArrays := 5, maxIngest := 5,
    alg := .queue, cl := Cluster.init [0, 1, 2, 3, 4], buf := Buffer.init hot hotRate cold coldRate,
    obs := obs }

/-- volume of the observation with this id -/
def transitVol (s : Sys) (o : Oid) : Option Int := (s.obs? o).map (fun r => r.rate * (r.duration : Int))

theorem transitVol_spec {s : Sys} {o : Oid} {v : Int} (h : transitVol s o = some v) {r : Obs}
    (hr : s.obs? o = some r) : r.rate * (r.duration : Int) = v := by
  unfold transitVol at h
  rw [hr] at h
  simpa using h

/-! ### `transitNV`: non-vacuity -/

def transitNV : Sys :=
  transitCfg 100 50 42 5
    [transitObs 0 0 41 30, transitObs 1 0 7 6, transitObs 2 2 13 1, transitObs 3 5 30 1, transitObs 4 4 2 1]

theorem transitNV_wf : WFConfig transitNV := by
  refine ⟨by decide, rfl, by decide, ?_, ⟨rfl, rfl, rfl, rfl, rfl, rfl, rfl, rfl, rfl, rfl, rfl, rfl, rfl,
    rfl, rfl, rfl, rfl⟩⟩
  intro o ho
  simp only [transitNV, transitCfg, List.mem_cons, List.not_mem_nil, or_false] at ho
  rcases ho with rfl | rfl | rfl | rfl | rfl <;> exact ⟨rfl, rfl, by decide, by decide⟩

theorem transitNV_rate : ∀ o ∈ transitNV.obs, 0 < o.rate := by
  intro o ho
  simp only [transitNV, transitCfg, List.mem_cons, List.not_mem_nil, or_false] at ho
  rcases ho with rfl | rfl | rfl | rfl | rfl <;> decide

/-- before the events of t = 4; after the monitor's block; after the telescope's block -/
def transitNV4 : SimState := witRun transitNV 4 600
def transitNV4A : SimState := transitStep {} transitNV4
def transitNV4B : SimState := transitStep {} transitNV4A

theorem transitNV4_chk :
    (transitRunChk (fun s => decide (TransitOneCold s)) {} (4 : Nat) 600 (SimState.start transitNV) &&
      decide (TransitOneCold transitNV4A.st) && (transitNV4.step (simHandler {})).isSome &&
      (transitNV4A.step (simHandler {})).isSome && !transitNV4.st.halted && !transitNV4A.st.halted &&
      decide (transitNV4A.st.crashed = none) &&
      decide (4 ∉ transitNV4A.st.admitted) && decide (4 ∈ transitNV4B.st.admitted) &&
      decide (transitVol transitNV4A.st 4 = some 2) &&
      decide (transitNV4A.st.inTransitToCold = 8) && decide (transitNV4A.st.buf.cold.cur = 37) &&
      decide (transitNV4A.st.buf.cold.transfer = some 2) && decide (transitNV4A.st.LiveH2C = 1)) = true := by
  decide +kernel

def transitNV5 : SimState := witRun transitNV 5 700
def transitNV5A : SimState := transitStep {} transitNV5
def transitNV5B : SimState := transitStep {} transitNV5A

theorem transitNV5_chk :
    (transitRunChk (fun s => decide (TransitOneCold s)) {} (5 : Nat) 700 (SimState.start transitNV) &&
      decide (TransitOneCold transitNV5A.st) && (transitNV5.step (simHandler {})).isSome &&
      (transitNV5A.step (simHandler {})).isSome && !transitNV5.st.halted && !transitNV5A.st.halted &&
      decide (transitNV5A.st.crashed = none) &&
      decide (3 ∉ transitNV5A.st.admitted) && decide (3 ∉ transitNV5B.st.admitted) &&
      decide ((transitNV5A.st.obs? 3).map (fun r => (r.est, r.rate, r.duration, decide (r.status = .waiting)))
        = some (5, 30, 1, true)) &&
      decide (transitNV5A.st.inTransitToCold = 3) && decide (transitNV5A.st.buf.cold.cur = 32) &&
      decide (transitNV5A.st.buf.hot.cur = 47) &&
      decide (transitNV5A.st.buf.cold.transfer = some 2) && decide (transitNV5A.st.buf.sizeOf 2 = 13) &&
      !transitNV5A.st.buf.coldHasCapacityFor 30) = true := by
  decide +kernel

def transitNV11 : SimState := witRun transitNV 11 1400
def transitNV11A : SimState := transitStep {} transitNV11
def transitNV11B : SimState := transitStep {} transitNV11A

theorem transitNV11_chk :
    (transitRunChk (fun s => decide (TransitOneCold s)) {} (11 : Nat) 1400 (SimState.start transitNV) &&
      decide (TransitOneCold transitNV11A.st) && (transitNV11.step (simHandler {})).isSome &&
      (transitNV11A.step (simHandler {})).isSome && !transitNV11.st.halted && !transitNV11A.st.halted &&
      decide (transitNV11A.st.crashed = none) &&
      decide (3 ∉ transitNV11A.st.admitted) && decide (3 ∈ transitNV11B.st.admitted) &&
      decide (transitNV11A.st.buf.cold.cur = 42) && decide (transitNV11A.st.inTransitToCold = 0)) = true := by
  decide +kernel

theorem transitNV_start : TransitOneCold (SimState.start transitNV).st := by decide

theorem transitNV4A_run : TransitSimRun TransitOneCold {} transitNV transitNV4A := by
  have h := transitNV4_chk
  simp only [Bool.and_eq_true, Bool.not_eq_true', decide_eq_true_eq] at h
  obtain ⟨⟨⟨⟨⟨⟨⟨⟨⟨⟨⟨⟨⟨h1, h2⟩, h3⟩, _⟩, h5⟩, _⟩, _⟩, _⟩, _⟩, _⟩, _⟩, _⟩, _⟩, _⟩ := h
  exact transit_transitSimRun_step (transit_witRun transitNV 4 600 transitNV_start h1) h5 h3 h2

theorem transitNV5A_run : TransitSimRun TransitOneCold {} transitNV transitNV5A := by
  have h := transitNV5_chk
  simp only [Bool.and_eq_true, Bool.not_eq_true', decide_eq_true_eq] at h
  obtain ⟨⟨⟨⟨⟨⟨⟨⟨⟨⟨⟨⟨⟨⟨⟨h1, h2⟩, h3⟩, _⟩, h5⟩, _⟩, _⟩, _⟩, _⟩, _⟩, _⟩, _⟩, _⟩, _⟩, _⟩, _⟩ := h
  exact transit_transitSimRun_step (transit_witRun transitNV 5 700 transitNV_start h1) h5 h3 h2

theorem transitNV11A_run : TransitSimRun TransitOneCold {} transitNV transitNV11A := by
  have h := transitNV11_chk
  simp only [Bool.and_eq_true, Bool.not_eq_true', decide_eq_true_eq] at h
  obtain ⟨⟨⟨⟨⟨⟨⟨⟨⟨⟨h1, h2⟩, h3⟩, _⟩, h5⟩, _⟩, _⟩, _⟩, _⟩, _⟩, _⟩ := h
  exact transit_transitSimRun_step (transit_witRun transitNV 11 1400 transitNV_start h1) h5 h3 h2

/-! ### `transitK5`: two moves in flight -/

def transitK5 : Sys :=
  transitCfg 140 50 110 10 [transitObs 0 0 40 1, transitObs 1 0 40 1, transitObs 2 0 40 1, transitObs 3 3 35 1]

theorem transitK5_wf : WFConfig transitK5 := by
  refine ⟨by decide, rfl, by decide, ?_, ⟨rfl, rfl, rfl, rfl, rfl, rfl, rfl, rfl, rfl, rfl, rfl, rfl, rfl,
    rfl, rfl, rfl, rfl⟩⟩
  intro o ho
  simp only [transitK5, transitCfg, List.mem_cons, List.not_mem_nil, or_false] at ho
  rcases ho with rfl | rfl | rfl | rfl <;> exact ⟨rfl, rfl, by decide, by decide⟩

theorem transitK5_rate : ∀ o ∈ transitK5.obs, 0 < o.rate := by
  intro o ho
  simp only [transitK5, transitCfg, List.mem_cons, List.not_mem_nil, or_false] at ho
  rcases ho with rfl | rfl | rfl | rfl <;> decide

def transitK5_3 : SimState := witRun transitK5 3 500
def transitK5_3A : SimState := transitStep {} transitK5_3

theorem transitK5_chk :
    ((transitK5_3.step (simHandler {})).isSome && !transitK5_3.st.halted && !transitK5_3A.st.halted &&
      decide (transitK5_3A.st.crashed = none) &&
      decide (3 ∉ transitK5_3A.st.admitted) && decide (3 ∈ (transitK5_3A.st.resume 1 {}).1.admitted) &&
      decide (transitVol transitK5_3A.st 3 = some 35) &&
      decide (transitK5_3A.st.inTransitToCold = 50) && decide (transitK5_3A.st.buf.cold.cur = 80) &&
      decide (transitK5_3A.st.LiveH2C = 2)) = true := by
  decide +kernel

theorem transitK5_reach : ReachOk transitK5 transitK5_3A.st := by
  have h := transitK5_chk
  simp only [Bool.and_eq_true, Bool.not_eq_true', decide_eq_true_eq] at h
  obtain ⟨⟨⟨⟨⟨⟨⟨⟨⟨h1, h2⟩, h3⟩, _⟩, _⟩, _⟩, _⟩, _⟩, _⟩, _⟩ := h
  exact simRun_reachOk transitK5_wf (transit_simRun_step (witRun_simRun transitK5 3 500) h2 h1) h3

/-! ### `transitPW`: one move alive at the admission instant, after an overlap -/

def transitPW : Sys :=
  transitCfg 100 50 100 10 [transitObs 0 0 36 1, transitObs 1 0 35 1, transitObs 2 5 32 1]

theorem transitPW_wf : WFConfig transitPW := by
  refine ⟨by decide, rfl, by decide, ?_, ⟨rfl, rfl, rfl, rfl, rfl, rfl, rfl, rfl, rfl, rfl, rfl, rfl, rfl,
    rfl, rfl, rfl, rfl⟩⟩
  intro o ho
  simp only [transitPW, transitCfg, List.mem_cons, List.not_mem_nil, or_false] at ho
  rcases ho with rfl | rfl | rfl <;> exact ⟨rfl, rfl, by decide, by decide⟩

theorem transitPW_rate : ∀ o ∈ transitPW.obs, 0 < o.rate := by
  intro o ho
  simp only [transitPW, transitCfg, List.mem_cons, List.not_mem_nil, or_false] at ho
  rcases ho with rfl | rfl | rfl <;> decide

def transitPW5 : SimState := witRun transitPW 5 600

/-- at instant 5 of the block system: first the last block of the move that ended at t = 4
(process 15), then the monitor -/
def transitPWSched : List Nat := [15, 0]

def transitPW5A : Sys := ilRun transitPWSched transitPW5.st

theorem transitPW_chk :
    (!transitPW5.st.halted && ilEnabledAll transitPWSched transitPW5.st &&
      decide (transitPW5A.crashed = none) && decide (TransitOneCold transitPW5A) &&
      decide (transitPW5A.LiveH2C = 1) && decide (transitPW5A.LiveC2H = 0) &&
      decide (2 ∉ transitPW5A.admitted) && decide (2 ∈ (transitPW5A.resume 1 {}).1.admitted) &&
      decide (transitVol transitPW5A 2 = some 32) &&
      decide (transitPW5A.inTransitToCold = 6) && decide (transitPW5A.buf.cold.cur = 35) &&
      decide (transitPW5A.buf.cold.transfer = none)) = true := by
  decide +kernel

theorem transitPW_reach : ReachOk transitPW transitPW5A := by
  have h := transitPW_chk
  simp only [Bool.and_eq_true, Bool.not_eq_true', decide_eq_true_eq] at h
  obtain ⟨⟨⟨⟨⟨⟨⟨⟨⟨⟨⟨h1, h2⟩, _⟩, _⟩, _⟩, _⟩, _⟩, _⟩, _⟩, _⟩, _⟩, _⟩ := h
  exact transit_reachOk_run (by simp [transitPW, transitCfg]) transitPWSched _
    (simRun_reachOk transitPW_wf (witRun_simRun transitPW 5 600) h1) h2

/-! ### `transitN2`: one hot→cold move along the whole run, a cold→hot move beside it -/

def transitN2 : Sys :=
  transitCfg 100 50 42 5
    [transitObs 0 0 41 30, transitObs 1 0 7 6, transitObs 2 2 13 1, transitObs 3 9 20 1, transitObs 4 11 30 1]

theorem transitN2_wf : WFConfig transitN2 := by
  refine ⟨by decide, rfl, by decide, ?_, ⟨rfl, rfl, rfl, rfl, rfl, rfl, rfl, rfl, rfl, rfl, rfl, rfl, rfl,
    rfl, rfl, rfl, rfl⟩⟩
  intro o ho
  simp only [transitN2, transitCfg, List.mem_cons, List.not_mem_nil, or_false] at ho
  rcases ho with rfl | rfl | rfl | rfl | rfl <;> exact ⟨rfl, rfl, by decide, by decide⟩

theorem transitN2_rate : ∀ o ∈ transitN2.obs, 0 < o.rate := by
  intro o ho
  simp only [transitN2, transitCfg, List.mem_cons, List.not_mem_nil, or_false] at ho
  rcases ho with rfl | rfl | rfl | rfl | rfl <;> decide

def transitN2_11 : SimState := witRun transitN2 11 1400
def transitN2_11A : SimState := transitStep {} transitN2_11

theorem transitN2_chk :
    (transitRunChk (fun s => decide (LiveH2C s ≤ 1)) {} (11 : Nat) 1400 (SimState.start transitN2) &&
      decide (LiveH2C transitN2_11A.st ≤ 1) && (transitN2_11.step (simHandler {})).isSome &&
      !transitN2_11.st.halted && !transitN2_11A.st.halted && decide (transitN2_11A.st.crashed = none) &&
      decide (4 ∉ transitN2_11A.st.admitted) && decide (4 ∈ (transitN2_11A.st.resume 1 {}).1.admitted) &&
      decide (transitVol transitN2_11A.st 4 = some 30) &&
      decide (transitN2_11A.st.inTransitToCold = 15) && decide (transitN2_11A.st.buf.cold.cur = 37) &&
      decide (transitN2_11A.st.buf.cold.transfer = none) && decide (transitN2_11A.st.LiveH2C = 1) &&
      decide (transitN2_11A.st.LiveC2H = 1)) = true := by
  decide +kernel

theorem transitN2_run : TransitSimRun (fun s => LiveH2C s ≤ 1) {} transitN2 transitN2_11A := by
  have h := transitN2_chk
  simp only [Bool.and_eq_true, Bool.not_eq_true', decide_eq_true_eq] at h
  obtain ⟨⟨⟨⟨⟨⟨⟨⟨⟨⟨⟨⟨⟨h1, h2⟩, h3⟩, h4⟩, _⟩, _⟩, _⟩, _⟩, _⟩, _⟩, _⟩, _⟩, _⟩, _⟩ := h
  exact transit_transitSimRun_step (transit_witRun transitN2 11 1400 (by decide) h1) h4 h3 h2

/-! ### `transitN3`: the hot tier, one cold→hot move -/

def transitN3 : Sys :=
  transitCfg 100 50 100 5 [transitObs 0 0 41 30, transitObs 1 0 7 6, transitObs 2 2 13 1, transitObs 3 9 50 1]

theorem transitN3_wf : WFConfig transitN3 := by
  refine ⟨by decide, rfl, by decide, ?_, ⟨rfl, rfl, rfl, rfl, rfl, rfl, rfl, rfl, rfl, rfl, rfl, rfl, rfl,
    rfl, rfl, rfl, rfl⟩⟩
  intro o ho
  simp only [transitN3, transitCfg, List.mem_cons, List.not_mem_nil, or_false] at ho
  rcases ho with rfl | rfl | rfl | rfl <;> exact ⟨rfl, rfl, by decide, by decide⟩

theorem transitN3_rate : ∀ o ∈ transitN3.obs, 0 < o.rate := by
  intro o ho
  simp only [transitN3, transitCfg, List.mem_cons, List.not_mem_nil, or_false] at ho
  rcases ho with rfl | rfl | rfl | rfl <;> decide

def transitN3_9 : SimState := witRun transitN3 9 1200
def transitN3_9A : SimState := transitStep {} transitN3_9
def transitN3_10 : SimState := witRun transitN3 10 1300

theorem transitN3_chk :
    (transitRunChk (fun s => decide (TransitOneHot s)) {} (9 : Nat) 1200 (SimState.start transitN3) &&
      decide (TransitOneHot transitN3_9A.st) && (transitN3_9.step (simHandler {})).isSome &&
      !transitN3_9.st.halted && !transitN3_9A.st.halted && decide (transitN3_9A.st.crashed = none) &&
      decide (3 ∉ transitN3_9A.st.admitted) && decide (3 ∈ (transitN3_9A.st.resume 1 {}).1.admitted) &&
      decide (transitVol transitN3_9A.st 3 = some 50) &&
      decide (transitN3_9A.st.inTransitToHot = 8) && decide (transitN3_9A.st.buf.hot.cur = 54) &&
      decide (transitN3_9A.st.buf.hot.transfer = some 2) && decide (transitN3_9A.st.buf.sizeOf 2 = 13) &&
      decide (transitN3_9A.st.LiveC2H = 1) && decide (transitN3_9A.st.LiveH2C = 0) &&
      !transitN3_9A.st.buf.hotHasCapacityFor 50) = true := by
  decide +kernel

/-- the consequence, one timestep later: the hot tier's free space is negative, nothing has raised -/
theorem transitN3_after :
    (!transitN3_10.st.halted && decide (transitN3_10.st.crashed = none) &&
      decide (transitN3_10.st.buf.hot.cur = -1) && decide (transitN3_10.st.admitted = [0, 1, 2, 3])) = true := by
  decide +kernel

theorem transitN3_run : TransitSimRun TransitOneHot {} transitN3 transitN3_9A := by
  have h := transitN3_chk
  simp only [Bool.and_eq_true, Bool.not_eq_true', decide_eq_true_eq] at h
  obtain ⟨⟨⟨⟨⟨⟨⟨⟨⟨⟨⟨⟨⟨⟨⟨h1, h2⟩, h3⟩, h4⟩, _⟩, _⟩, _⟩, _⟩, _⟩, _⟩, _⟩, _⟩, _⟩, _⟩, _⟩, _⟩ := h
  exact transit_transitSimRun_step (transit_witRun transitN3 9 1200 (by decide) h1) h4 h3 h2

/-- in each of the simulator states used above the kernel is about to resume process 1, the telescope -/
theorem transit_peeks :
    (decide ((transitNV4A.peek).map (·.pid) = some 1) && decide ((transitNV5A.peek).map (·.pid) = some 1) &&
      decide ((transitNV11A.peek).map (·.pid) = some 1) && decide ((transitK5_3A.peek).map (·.pid) = some 1) &&
      decide ((transitN2_11A.peek).map (·.pid) = some 1) && decide ((transitN3_9A.peek).map (·.pid) = some 1) &&
      decide ((transitNV4A.st.proc? 1).map (fun p => p.k.isTel) = some true)) = true := by
  decide +kernel

end Sys
end Topsim
