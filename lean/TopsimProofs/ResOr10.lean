/-
  ResOr10 — `ResOrRI` through the first half of an `allocate_tasks` iteration (plan stamp, pruning
  of finished tasks: port of FinishRes8) and through the run of a user algorithm whose proposals
  are adversarial.
-/
import TopsimProofs.ResOr9

namespace Topsim
namespace Sys

open Cluster

/-- a per-plan update of observation `oid` that keeps status and only drops FINISHED tasks -/
theorem ResOrRI.planMap {s s' : Sys} (h : ResOrRI s) (hprocs : s'.procs = s.procs) (hqu : s'.queue = s.queue)
    (hcl : s'.cl = s.cl) (hts : ∀ t, tstat s' t = tstat s t) (oid : Oid) (F : Plan → Plan)
    (hpl : s'.plans = s.plans.map (fun pl => if pl.obs = oid then F pl else pl))
    (hF : ∀ pl, (F pl).obs = pl.obs ∧ (F pl).status = pl.status ∧ (∀ t ∈ (F pl).tasks, t ∈ pl.tasks) ∧
      (∀ t ∈ pl.tasks, tstat s t ≠ .finished → t ∈ (F pl).tasks)) : ResOrRI s' := by
  have hp? := plan?_map s s' oid F (fun pl => (hF pl).1) hpl
  have hkeep : ∀ o t, t ∈ planTasks s o → tstat s t ≠ .finished → t ∈ planTasks s' o := by
    intro o t ht hne
    unfold planTasks at ht ⊢
    rw [hp? o]
    cases hpo : s.plan? o with
    | none => rw [hpo] at ht; simp at ht
    | some pl =>
      rw [hpo] at ht
      simp only [Option.map_some]
      split
      · exact (hF pl).2.2.2 t ht hne
      · exact ht
  have hback : ∀ pl' ∈ s'.plans, ∃ pl ∈ s.plans, pl'.obs = pl.obs ∧ pl'.status = pl.status ∧
      ∀ t ∈ pl'.tasks, t ∈ pl.tasks := by
    intro pl' hpl'
    rw [hpl] at hpl'
    obtain ⟨pl, hpl0, rfl⟩ := List.mem_map.mp hpl'
    refine ⟨pl, hpl0, ?_⟩
    split
    · exact ⟨(hF pl).1, (hF pl).2.1, (hF pl).2.2.1⟩
    · exact ⟨rfl, rfl, fun _ h => h⟩
  constructor
  · rw [hqu]; exact h.qNodup
  · intro q hq hqa o sc pa po hqk
    rw [hprocs] at hq
    obtain ⟨a1, a2⟩ := h.atsQ q hq hqa o sc pa po hqk
    refine ⟨by rw [hqu]; exact a1, ?_⟩
    rw [hp? o]
    cases hpo : s.plan? o with
    | none => rw [hpo] at a2; simp at a2
    | some pl => rfl
  · rw [hprocs]; exact h.atsUniq
  · intro q hq hqa o sc pa po hqk
    rw [hprocs] at hq
    obtain ⟨a1, a2⟩ := h.sl q hq hqa o sc pa po hqk
    refine ⟨a1, fun t ht hu => ?_⟩
    rw [hts] at hu
    exact hkeep o t (a2 t ht hu) (by rw [hu]; simp)
  · intro pl' hpl' t ht
    obtain ⟨pl, hpl0, e1, _, e3⟩ := hback pl' hpl'
    rw [e1]; exact h.pt pl hpl0 t (e3 t ht)
  · intro pl' hpl' hfin
    obtain ⟨pl, hpl0, _, e2, e3⟩ := hback pl' hpl'
    have := h.pf pl hpl0 (by rw [← e2]; exact hfin)
    cases htk : pl'.tasks with
    | nil => rfl
    | cons x r =>
      have := e3 x (by rw [htk]; simp)
      rw [‹pl.tasks = []›] at this; simp at this
  · rw [hpl, List.map_map]
    have : (fun pl : Plan => pl.obs) ∘ (fun pl => if pl.obs = oid then F pl else pl) = fun pl => pl.obs := by
      funext pl
      simp only [Function.comp]
      split
      · exact (hF pl).1
      · rfl
    rw [this]; exact h.pn
  · intro q hq hqa t m preds o ret hqk
    rw [hprocs] at hq
    obtain ⟨a1, a2⟩ := h.st q hq hqa t m preds o ret hqk
    exact ⟨by rw [hts]; exact a1, hkeep o t a2 a1⟩
  · rw [hcl, hprocs]; exact h.rc
  · rw [hcl, hqu]; exact h.keyQ
  · rw [hcl]; exact h.keyNE

theorem ResOrRI.started {s : Sys} (h : ResOrRI s) (now : Time) (pc : Nat) (oid : Oid) : ResOrRI (atStart s now pc oid) := by
  rcases atStart_plans s now pc oid with hpl | hpl
  · refine h.planMap (atStart_procs _ _ _ _) (atStart_queue _ _ _ _) (atStart_cl _ _ _ _)
      (atStart_tstat _ _ _ _) oid id ?_ (fun pl => ⟨rfl, rfl, fun _ h => h, fun _ h _ => h⟩)
    rw [hpl]; simp
  · exact h.planMap (atStart_procs _ _ _ _) (atStart_queue _ _ _ _) (atStart_cl _ _ _ _)
      (atStart_tstat _ _ _ _) oid (fun p => { p with ast := some (natNow now) }) hpl
      (fun pl => ⟨rfl, rfl, fun _ h => h, fun _ h _ => h⟩)

theorem ResOrRI.prune {a : Sys} (h : ResOrRI a) (oid : Oid) : ResOrRI (a.updateCurrentPlan oid) := by
  have hc := updateCurrentPlan_core a oid
  have hpl := updateCurrentPlan_plans a oid
  cases hpo : a.plan? oid with
  | none =>
    rw [hpo] at hpl
    refine h.planMap hc.procs (updateCurrentPlan_queue a oid) hc.cl (updateCurrentPlan_tstat a oid) oid id ?_
      (fun pl => ⟨rfl, rfl, fun _ h => h, fun _ h _ => h⟩)
    rw [hpl]; simp
  | some pl0 =>
    rw [hpo] at hpl
    refine h.planMap hc.procs (updateCurrentPlan_queue a oid) hc.cl (updateCurrentPlan_tstat a oid) oid
      (fun p => { p with tasks := p.tasks.filter (fun t => (a.taskView t).status ≠ .finished) }) hpl ?_
    intro pl
    refine ⟨rfl, rfl, fun t ht => (List.mem_filter.mp ht).1, fun t ht hne => ?_⟩
    exact List.mem_filter.mpr ⟨ht, by simpa [tstat] using hne⟩

/-- the state in which the algorithm runs -/
theorem ResOrRI.pruned {s : Sys} (h : ResOrRI s) (now : Time) (pc : Nat) (oid : Oid) :
    ResOrRI ((atStart s now pc oid).updateCurrentPlan oid) ∧
    ((atStart s now pc oid).updateCurrentPlan oid).procs = s.procs ∧
    ((atStart s now pc oid).updateCurrentPlan oid).nextPid = s.nextPid ∧
    ((atStart s now pc oid).updateCurrentPlan oid).queue = s.queue ∧
    ((atStart s now pc oid).updateCurrentPlan oid).cl = s.cl ∧
    ((atStart s now pc oid).updateCurrentPlan oid).alg = s.alg ∧
    (∀ t, tstat ((atStart s now pc oid).updateCurrentPlan oid) t = tstat s t) := by
  have hc := updateCurrentPlan_core (atStart s now pc oid) oid
  refine ⟨(h.started now pc oid).prune oid, hc.procs.trans (atStart_procs _ _ _ _), ?_,
    (updateCurrentPlan_queue _ oid).trans (atStart_queue _ _ _ _), hc.cl.trans (atStart_cl _ _ _ _),
    (updateCurrentPlan_alg _ oid).trans (atStart_alg _ _ _ _),
    fun t => (updateCurrentPlan_tstat _ oid t).trans (atStart_tstat _ _ _ _ t)⟩
  rw [hc.nextPid]
  unfold Sys.atStart
  split
  · refine Eq.trans (?_ : _ = (s.updPlan oid (fun p => { p with ast := some (natNow now) })).nextPid) rfl
    have : ∀ (l : List Tid) (s1 : Sys), (l.foldl (fun (s : Sys) t =>
        s.updTask t (fun r => { r with offset := natNow now })) s1).nextPid = s1.nextPid := by
      intro l; induction l with
      | nil => intro s1; rfl
      | cons x r ih => intro s1; exact (ih _).trans rfl
    exact this _ _
  · rfl

/-! ### after the user algorithm has run -/

/-- after the oracle algorithm: its reservation calls (as in `ResOrOk`) and ADVERSARIAL proposals —
any task ids on any machines; the only thing asked is that a proposed task that is UNSCHEDULED
(one `_process_current_schedule` could start) is a task of the plan being scheduled -/
theorem resOr_afterOracleW {s1 : Sys} (h : ResOrRI s1) {U : List Tid} (hinv : Cluster.Inv s1.cl U) {p : Proc}
    (hp : p ∈ s1.procs) (ha : p.alive = true) {oid : Oid} {sc pa : List (Tid × Mid)} {po : List Tid}
    (hk : p.k = .allocTasks oid sc pa po false) (plan : Plan) (hplan : s1.plan? oid = some plan)
    (orc : Oracle) (halg : s1.alg = .oracle)
    (hpre : ∀ op ∈ orc.pre, (∃ size o, op = .provBatch size o ∧ o ∈ s1.queue) ∨ ∃ o, op = .relBatch o)
    (hprop : ∀ pr ∈ orc.proposals, tstat s1 pr.1 = .unscheduled → pr.1 ∈ planTasks s1 oid)
    (out : AlgOut) (hrun : s1.runAlgorithm orc plan sc po = .ok out) :
    ResOrRI (atS3 s1 out oid) ∧ (atS3 s1 out oid).cl.runOn = s1.cl.runOn ∧
    (out.status = .finished → plan.tasks = []) ∧
    (dictKeys out.schedule).Nodup ∧
    (∀ t ∈ dictKeys out.schedule, tstat s1 t = .unscheduled → t ∈ planTasks s1 oid) ∧
    (dictKeys (atS3 s1 out oid).cl.idle).Nodup := by
  unfold runAlgorithm at hrun
  rw [halg] at hrun
  simp only at hrun
  injection hrun with hrun
  obtain ⟨hplm, hpobs⟩ := plan?_mem hplan
  obtain ⟨slnd, slk⟩ := h.sl p hp ha oid sc pa po hk
  -- the cluster after the reservation calls
  obtain ⟨hcl, hinv'⟩ := resOr_ops (Q := s1.queue) (c0 := s1.cl) orc.pre hpre s1.cl
    ⟨h.keyNE, rfl, h.keyQ⟩ hinv
  have e_cl : out.cl = orc.pre.foldl (fun c op => (c.applyOp op).1) s1.cl := by rw [← hrun]
  have e_sc : out.schedule = orc.proposals.foldl (fun d p => dictSet d p.1 p.2) sc := by rw [← hrun]
  have e_st : out.status = Alg.finishStatus plan plan.status := by rw [← hrun]
  rw [← e_cl] at hcl hinv'
  obtain ⟨l1, l2, l3⟩ := hcl
  have l4 := hinv'.keys
  obtain ⟨k1, k2⟩ := resOr_sched orc.proposals sc
  rw [← e_sc] at k1 k2
  have hfin : out.status = .finished → plan.tasks = [] := by
    intro hf
    rw [e_st] at hf
    unfold Alg.finishStatus at hf
    split at hf
    · rename_i h0; exact List.length_eq_zero_iff.mp h0
    · exact h.pf plan hplm hf
  have hsk : ∀ t ∈ dictKeys out.schedule, tstat s1 t = .unscheduled → t ∈ planTasks s1 oid := by
    intro t ht hu
    rcases k1 t ht with h1 | ⟨pr, hpr, e⟩
    · exact slk t h1 hu
    · rw [← e] at hu ⊢; exact hprop pr hpr hu
  refine ⟨?_, by rw [atS3_cl]; exact l2, hfin, k2 slnd, hsk, by rw [atS3_cl]; exact l4⟩
  constructor
  · rw [atS3_queue]; exact h.qNodup
  · intro q hq hqa o sc' pa' po' hqk
    rw [atS3_procs] at hq
    obtain ⟨a1, a2⟩ := h.atsQ q hq hqa o sc' pa' po' hqk
    refine ⟨by rw [atS3_queue]; exact a1, ?_⟩
    rw [plan?_map s1 (atS3 s1 out oid) oid (fun p => { p with status := out.status }) (fun _ => rfl)
      (atS3_plans s1 out oid) o]
    cases hpo : s1.plan? o with
    | none => rw [hpo] at a2; simp at a2
    | some pl => rfl
  · rw [atS3_procs]; exact h.atsUniq
  · intro q hq hqa o sc' pa' po' hqk
    rw [atS3_procs] at hq
    obtain ⟨a1, a2⟩ := h.sl q hq hqa o sc' pa' po' hqk
    refine ⟨a1, fun t ht hu => ?_⟩
    rw [atS3_tstat] at hu
    rw [atS3_planTasks]; exact a2 t ht hu
  · intro pl' hpl' t ht
    rw [atS3_plans] at hpl'
    obtain ⟨pl, hpl0, rfl⟩ := List.mem_map.mp hpl'
    have : ∃ c n, t = Tid.wf pl.obs c n := by
      apply h.pt pl hpl0 t
      split at ht <;> exact ht
    split <;> exact this
  · intro pl' hpl' hf
    rw [atS3_plans] at hpl'
    obtain ⟨pl, hpl0, rfl⟩ := List.mem_map.mp hpl'
    by_cases e : pl.obs = oid
    · simp only [e, if_true] at hf ⊢
      have : pl = plan := eq_of_map_nodup h.pn hpl0 hplm (e.trans hpobs.symm)
      rw [this]; exact hfin hf
    · simp only [e, if_false] at hf ⊢
      exact h.pf pl hpl0 hf
  · rw [atS3_plans, List.map_map]
    have : (fun pl : Plan => pl.obs) ∘ (fun pl => if pl.obs = oid then { pl with status := out.status } else pl)
        = fun pl => pl.obs := by
      funext pl; simp only [Function.comp]; split <;> rfl
    rw [this]; exact h.pn
  · intro q hq hqa t m preds o ret hqk
    rw [atS3_procs] at hq
    obtain ⟨a1, a2⟩ := h.st q hq hqa t m preds o ret hqk
    exact ⟨by rw [atS3_tstat]; exact a1, by rw [atS3_planTasks]; exact a2⟩
  · rw [atS3_cl, atS3_procs, l2]; exact h.rc
  · intro o ho
    rw [atS3_cl] at ho
    rw [atS3_queue]
    exact l3 o ho
  · rw [atS3_cl]; exact l1

end Sys
end Topsim
