/-
  BoundE7 — C05, the numeric clause under a delay model for BatchProcessing and the plan-following
  algorithms: concrete configurations with NON-EMPTY delay environments, their runs evaluated in the
  kernel, and the counterexample to `Sys.serialBoundD` under `BoundPDurOk`.
    * `boundE_env1` (table `2 ↦ 20`, script `[3]`), any environment: `boundB_wit` (BoundB7) and the small
      batch configuration `boundE_witB` (`c04W1` under BatchProcessing, 1 partition) meet `NcCfgB`; the run
      of `boundE_witB` under `boundE_env1` is first at `is_finished()` at index 185 with the clock at 28:
      beyond the un-delayed `Sys.serialBound = 15`, within `Sys.serialBoundD = 36`;
    * `boundE_cxEnv` (table `1 ↦ 30`, plan row `(node 0, machine 0, est 0, eft 1)`) on `boundP_cxW alg` (one
      node WITHOUT work): every hypothesis of the plan theorems and `BoundPDurOk` (the row books 1 step)
      hold, `Sys.serialBoundD = 10`, and the run is first at `is_finished()` with the clock at 33: the
      delay table is applied to the PLANNED duration of a task without work, which `Sys.serialBoundD`
      (charging `boundDTot 0`) does not see; `boundEP_serial = 39`;
    * `boundE_okEnv` (table `1 ↦ 2, 0 ↦ 5`, script `[3]`, the same plan row): `BoundEPDurOk` holds with a
      non-empty environment on a node without work (non-vacuity of the `…_partial` forms).
-/
import TopsimProofs.BoundE6

namespace Topsim

open KState Sys

/-- a delay environment with a non-empty table and a non-empty script -/
def boundE_env1 : SimEnv := { delayTable := [(2, 20)], delayScript := [3] }

/-! ### BatchProcessing -/

/-- `boundB_wit` meets the hypotheses of the batch theorems whatever the environment -/
theorem boundE_wit_cfg (env : SimEnv) : NcCfgB env boundB_wit where
  hw := boundB_wit_wf
  feas := boundB_wit_feasible
  hb0 := ⟨rfl, rfl, rfl, rfl⟩
  hfull := ⟨rfl, rfl, rfl⟩
  hct := rfl
  h1 := boundB_wit_h1
  alg := ⟨_, _, _, rfl⟩
  stat := rfl
  topo := boundB_wit_topo
  hh0 := rfl
  minOk := by
    intro parts minPer sp e
    injection e with _ e2 _
    rw [← e2]
    decide

/-- `c04W1` (one machine, one observation with the chain workflow `0 → 1`) under BatchProcessing with one
partition -/
def boundE_witB : Sys :=
  { machines := [⟨0, 1, 1⟩], totalArrays := 1, maxIngest := 1, alg := .batch 1 1 none,
    cl := Cluster.init [0], buf := Buffer.init 100 10 100 10, obs := [c04Obs1] }

theorem boundE_witB_cfg (env : SimEnv) : NcCfgB env boundE_witB where
  hw := by
    refine ⟨by decide, rfl, by decide, ?_, ⟨rfl, rfl, rfl, rfl, rfl, rfl, rfl, rfl, rfl, rfl, rfl, rfl, rfl,
      rfl, rfl, rfl, rfl⟩⟩
    intro o ho
    simp only [boundE_witB, List.mem_cons, List.not_mem_nil, or_false] at ho
    subst ho
    exact ⟨rfl, rfl, by decide, by decide⟩
  feas := by simp [Sys.Feasible, boundE_witB, c04Obs1, Buffer.init]
  hb0 := ⟨rfl, rfl, rfl, rfl⟩
  hfull := ⟨rfl, rfl, rfl⟩
  hct := rfl
  h1 := by unfold Sys.NoTierCfg; decide
  alg := ⟨_, _, _, rfl⟩
  stat := rfl
  topo := by
    intro o ho
    simp only [boundE_witB, List.mem_cons, List.not_mem_nil, or_false] at ho
    subst ho
    exact ⟨by decide, by intro n; simp [c04Obs1], by decide⟩
  hh0 := rfl
  minOk := by
    intro parts minPer sp e
    injection e with _ _ e3
    cases e3

theorem boundE_witB_numbers : Sys.serialBound boundE_witB = 15 ∧ Sys.serialBoundD boundE_env1 boundE_witB = 36 ∧
    boundLatest boundE_witB + boundDVTotal boundE_env1 boundE_witB = 30 ∧
    Sys.serialBoundD {} boundE_witB = 15 := by decide

set_option maxRecDepth 100000 in
unseal Rat.add in
/-- the delayed run of `boundE_witB`: first at `is_finished()` at index 185, clock 28 -/
theorem boundE_witB_first :
    boundP_firstFin boundE_env1 200 (SimState.start boundE_witB) 0 0 = some (185, 28) := by
  decide +kernel

section
variable {env : SimEnv} {s0 : Sys}

theorem boundEB_clock_mono (C : LiveCfgB env s0) (K : LiveKernel env s0) {n m : Nat} (h : n ≤ m) (hn : 1 ≤ n) :
    boundClock env s0 n ≤ boundClock env s0 m := by
  induction m with
  | zero => omega
  | succ m ih =>
    by_cases e : n = m + 1
    · subst e; exact Rat.le_refl
    · have h1 := ih (by omega)
      cases m with
      | zero => omega
      | succ m =>
        show _ ≤ boundTau env s0 (m + 1)
        have h2 : boundClock env s0 (m + 1) = boundTau env s0 m := rfl
        rw [h2] at h1
        exact Rat.le_trans h1 (boundB_wk_mono C K m)

/-- from the first `is_finished()` index and its clock: every index at which the run is at
`is_finished()` has its clock at least there (BatchProcessing) -/
theorem boundEB_clock_ge_first (N : NcCfgB env s0) {f n0 : Nat} {c0 : Time}
    (h : boundP_firstFin env f (SimState.start s0) 0 0 = some (n0, c0)) (h0 : 1 ≤ n0) :
    ∀ n, (simAt env s0 n).st.isFinished = true → c0 ≤ boundClock env s0 n := by
  have C : LiveCfgB env s0 := N.toLive (live_noRaise_B N)
  have K := liveKernel_B C N.hh0
  obtain ⟨_, g2, g3, g4⟩ := boundP_firstFin_spec env s0 f 0 n0 c0 h
  intro n hn
  have hle : n0 ≤ n := by
    apply Classical.byContradiction
    intro hlt
    have := g4 n (Nat.zero_le _) (by omega)
    rw [hn] at this
    cases this
  rw [g3]
  exact boundEB_clock_mono C K hle h0

end

/-- the un-delayed serial bound is exceeded by the delayed run of `boundE_witB` -/
theorem boundE_witB_exceeds : ∀ n, (simAt boundE_env1 boundE_witB n).st.isFinished = true →
    (28 : Time) ≤ boundClock boundE_env1 boundE_witB n :=
  boundEB_clock_ge_first (boundE_witB_cfg _) boundE_witB_first (by decide)

/-! ### the plan-following algorithms -/

/-- `PlanOk` of `boundP_cxW` only depends on the static plans: one row for node 0 on machine 0 -/
theorem boundE_cx_planOk (env : SimEnv) (d : Nat) (h : env.staticPlans = [(0, [(0, 0, 0, d)])])
    (alg : AlgKind) : PlanOk env (boundP_cxW alg) := by
  have hrows : env.rowsOf boundP_cxObs.id = [(0, 0, 0, d)] := by
    unfold SimEnv.rowsOf
    rw [h]
    rfl
  constructor
  · intro o ho n hn
    simp only [boundP_cxW, List.mem_cons, List.not_mem_nil, or_false] at ho
    subst ho
    rw [hrows]
    have : n = 0 := by simpa [boundP_cxObs] using hn
    subst this
    simp
  · intro o ho x hx
    simp only [boundP_cxW, List.mem_cons, List.not_mem_nil, or_false] at ho
    subst ho
    rw [hrows] at hx
    simp only [List.mem_cons, List.not_mem_nil, or_false] at hx
    subst hx
    simp [boundP_cxObs]
  · intro o ho x hx
    simp only [boundP_cxW, List.mem_cons, List.not_mem_nil, or_false] at ho
    subst ho
    rw [hrows] at hx
    simp only [List.mem_cons, List.not_mem_nil, or_false] at hx
    subst hx
    exact ⟨⟨0, 1, 1⟩, by simp [boundP_cxW], rfl⟩

theorem boundE_cx_nc (env : SimEnv) (d : Nat) (h : env.staticPlans = [(0, [(0, 0, 0, d)])])
    {alg : AlgKind} (halg : alg = .dynamic ∨ alg = .greedy) : NcPCfg env (boundP_cxW alg) := by
  rcases halg with rfl | rfl
  · exact ⟨boundP_cx_wf _, boundP_cx_feasible_dynamic, ⟨rfl, rfl, rfl, rfl⟩, ⟨rfl, rfl, rfl⟩, rfl, boundP_cx_h1 _,
      Or.inl rfl, rfl, boundP_cx_topo _, boundE_cx_planOk env d h _, rfl⟩
  · exact ⟨boundP_cx_wf _, boundP_cx_feasible_greedy, ⟨rfl, rfl, rfl, rfl⟩, ⟨rfl, rfl, rfl⟩, rfl, boundP_cx_h1 _,
      Or.inr rfl, rfl, boundP_cx_topo _, boundE_cx_planOk env d h _, rfl⟩

/-- the counterexample environment: the plan books ONE step for the node without work, the delay table
sends the duration 1 to 30 -/
def boundE_cxEnv : SimEnv := { delayTable := [(1, 30)], staticPlans := [(0, [(0, 0, 0, 1)])] }

/-- `BoundPDurOk` (no plan row of a node without work books more than one step) holds of it -/
theorem boundE_cx_durOk (alg : AlgKind) : BoundPDurOk boundE_cxEnv (boundP_cxW alg) := by
  intro o ho n hn _ _ x hx _
  simp only [boundP_cxW, List.mem_cons, List.not_mem_nil, or_false] at ho
  subst ho
  have : ∀ x ∈ boundE_cxEnv.rowsOf boundP_cxObs.id, x.2.2.2 - x.2.2.1 ≤ 1 := by decide
  exact this x hx

theorem boundE_cx_numbers :
    (Sys.serialBoundD boundE_cxEnv (boundP_cxW .dynamic) = 10 ∧ boundEP_serial boundE_cxEnv (boundP_cxW .dynamic) = 39 ∧
      boundLatest (boundP_cxW .dynamic) + boundEP_VTotal boundE_cxEnv (boundP_cxW .dynamic) = 35 ∧
      boundP_serial boundE_cxEnv (boundP_cxW .dynamic) = 10) ∧
    (Sys.serialBoundD boundE_cxEnv (boundP_cxW .greedy) = 10 ∧ boundEP_serial boundE_cxEnv (boundP_cxW .greedy) = 39 ∧
      boundLatest (boundP_cxW .greedy) + boundEP_VTotal boundE_cxEnv (boundP_cxW .greedy) = 35 ∧
      boundP_serial boundE_cxEnv (boundP_cxW .greedy) = 10) := by
  decide

set_option maxRecDepth 100000 in
unseal Rat.add in
theorem boundE_cx_first_dynamic :
    boundP_firstFin boundE_cxEnv 250 (SimState.start (boundP_cxW .dynamic)) 0 0 = some (213, 33) := by
  decide +kernel

set_option maxRecDepth 100000 in
unseal Rat.add in
theorem boundE_cx_first_greedy :
    boundP_firstFin boundE_cxEnv 250 (SimState.start (boundP_cxW .greedy)) 0 0 = some (213, 33) := by
  decide +kernel

theorem boundE_cx_exceeds_dynamic : ∀ n, (simAt boundE_cxEnv (boundP_cxW .dynamic) n).st.isFinished = true →
    (33 : Time) ≤ boundClock boundE_cxEnv (boundP_cxW .dynamic) n :=
  boundP_clock_ge_first (boundE_cx_nc _ 1 rfl (Or.inl rfl)) boundE_cx_first_dynamic (by decide)

theorem boundE_cx_exceeds_greedy : ∀ n, (simAt boundE_cxEnv (boundP_cxW .greedy) n).st.isFinished = true →
    (33 : Time) ≤ boundClock boundE_cxEnv (boundP_cxW .greedy) n :=
  boundP_clock_ge_first (boundE_cx_nc _ 1 rfl (Or.inr rfl)) boundE_cx_first_greedy (by decide)

/-- an environment with a non-empty table and a non-empty script under which `BoundEPDurOk` holds of the
node without work: the planned duration 1 is sent to 2, a planned duration 0 would be sent to 5 -/
def boundE_okEnv : SimEnv :=
  { delayTable := [(1, 2), (0, 5)], delayScript := [3], staticPlans := [(0, [(0, 0, 0, 1)])] }

theorem boundE_ok_durOk (alg : AlgKind) : BoundEPDurOk boundE_okEnv (boundP_cxW alg) := by
  intro o ho n hn _ _ x hx _
  simp only [boundP_cxW, List.mem_cons, List.not_mem_nil, or_false] at ho
  subst ho
  have : ∀ x ∈ boundE_okEnv.rowsOf boundP_cxObs.id,
      boundE_okEnv.boundDTot (x.2.2.2 - x.2.2.1) ≤ max 1 (boundE_okEnv.boundDTot 0) := by decide
  exact this x hx

theorem boundE_ok_numbers :
    Sys.serialBoundD boundE_okEnv (boundP_cxW .dynamic) = 14 ∧ boundEP_serial boundE_okEnv (boundP_cxW .dynamic) = 11 ∧
    Sys.serialBoundD boundE_okEnv (boundP_cxW .greedy) = 14 ∧ boundEP_serial boundE_okEnv (boundP_cxW .greedy) = 11 := by
  decide

set_option maxRecDepth 100000 in
unseal Rat.add in
theorem boundE_ok_first :
    boundP_firstFin boundE_okEnv 60 (SimState.start (boundP_cxW .dynamic)) 0 0 = some (45, 5) ∧
    boundP_firstFin boundE_okEnv 60 (SimState.start (boundP_cxW .greedy)) 0 0 = some (45, 5) := by
  decide +kernel

/-- the two-observation configuration `boundP_nvW` (BoundP12: all four tasks, of two workflows, planned on
the slow machine 0) with `boundE_env1`'s table and script added to its plans -/
def boundE_nvEnv : SimEnv := { boundP_nvEnv with delayTable := [(2, 20)], delayScript := [3] }

theorem boundE_nv_planOk (alg : AlgKind) : PlanOk boundE_nvEnv (boundP_nvW alg) := by
  have h := boundP_nv_planOk alg
  exact ⟨h.cover, h.nodes, h.mach⟩

end Topsim
