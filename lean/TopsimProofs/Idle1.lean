/-
  Idle1 — the telescope's side of the timed reading of C19, on the block system (any block order,
  any oracle, plain `Reach`): the invariant `IdleTel` — an observation with a recorded start has been
  admitted; a FINISHED observation has a recorded start, and the window `[ast, ast + duration)` it
  occupied on the telescope lies behind the clock — and the form "after the block that has just run
  at time `p.wake`, the window of every FINISHED observation ends at or before `p.wake`".

  Nothing here needs SimPy's order: the telescope's block marks an observation FINISHED only at a time
  `n ≥ ast + duration`, the recorded start never changes once set (the supervisor's first block
  re-stamps the same instant, `TelDisc.aiAst`), and the clock does not go back.
-/
import TopsimProofs.Interval3
import TopsimProofs.LifeCycle18

namespace Topsim
namespace Sys

/-- the clock does not go back (as `now_step`, from the telescope group of the invariant only: no
restriction on the oracle) -/
theorem idle_now_step {s : Sys} (hi : EInv s) {pid : Nat} {p : Proc} (hp : s.proc? pid = some p)
    (ha : p.alive = true) (hmin : ∀ q ∈ s.procs, q.alive = true → p.wake ≤ q.wake)
    (hint : p.k = .telescope → ∃ m : Nat, p.wake = ((m : Nat) : Time)) (orc : Oracle) {t : Time}
    (h : Now s t) : Now (s.resume pid orc).1 t := by
  obtain ⟨hpm, _⟩ := proc?_some hp
  obtain ⟨new, hnew, hnewp⟩ := block_newp s p orc
  have hm := resume_memSpec hi hp ha hmin orc hnew
  have htp : t ≤ p.wake := h p hpm ha
  intro q hq hqa
  rcases (hm q).mp hq with rfl | ⟨hq0, _⟩ | hqn
  · obtain ⟨_, d, hd⟩ := fin_alive _ _ _ _ hqa
    have hd0 := lcDelay_nonneg s p orc d hd
    rw [hd, fin_timeout]
    show t ≤ p.wake + d
    have : p.wake + 0 ≤ p.wake + d := Rat.add_le_add_left.mpr hd0
    rw [Rat.add_zero] at this
    exact Rat.le_trans htp this
  · exact h q hq0 hqa
  · have hw := (hnewp q hqn).2.2.1
    split at hw
    · rename_i hk
      obtain ⟨m, hwm⟩ := hint hk
      rw [hw, hwm, natNow_natCast, ← hwm]; exact htp
    · rw [hw]; exact htp

/-- what the step lemmas need of the telescope's discipline: the telescope runs at whole instants,
durations are positive, and an ingest supervisor that has not run yet is due at the recorded start of
its observation (so its first block re-stamps the same instant).  `TelDisc` (any block order) and
`ILTI` (SimPy's order, pauses included) both provide it. -/
structure IdleDisc (s : Sys) : Prop where
  int : ∀ q ∈ s.procs, q.k = .telescope → ∃ m : Nat, q.wake = ((m : Nat) : Time)
  dur : ∀ ob ∈ s.obs, 1 ≤ ob.duration
  aiAst : ∀ q ∈ s.procs, ∀ o tl, q.k = .allocIngest o tl → q.pc = 0 →
    ∃ ob, s.obs? o = some ob ∧ ∃ a, ob.ast = some a ∧ q.wake = ((a : Nat) : Time)

theorem IdleDisc.of_telDisc {s : Sys} (h : TelDisc s) : IdleDisc s := ⟨h.int, h.dur, h.aiAst⟩

theorem IdleDisc.of_ilti {s : Sys} (h : ILTI s)
    (hint : ∀ q ∈ s.procs, q.k = .telescope → ∃ m : Nat, q.wake = ((m : Nat) : Time)) : IdleDisc s := by
  refine ⟨hint, h.durPos, ?_⟩
  intro q hq o tl hk hpc
  obtain ⟨n, ob, hwn, hob, hast, _⟩ := h.aiNew q hq o tl hk hpc
  exact ⟨ob, hob, n, hast, hwn⟩

/-- the telescope's side of the timed reading of C19 -/
structure IdleTel (s : Sys) : Prop where
  /-- an observation with a recorded start has been admitted -/
  adm : ∀ o ob, s.obs? o = some ob → ob.ast ≠ none → o ∈ s.admitted
  /-- a FINISHED observation has a recorded start -/
  finAst : ∀ o ob, s.obs? o = some ob → ob.status = .finished → ob.ast ≠ none
  /-- the window of a FINISHED observation lies behind the clock -/
  fin : ∀ o ob a, s.obs? o = some ob → ob.status = .finished → ob.ast = some a →
    Now s (((a + ob.duration : Nat) : Nat) : Time)

theorem idleTel_start (s0 : Sys) (hw : WFConfig s0) : IdleTel s0.start := by
  have hnone : ∀ o ob, s0.start.obs? o = some ob → ob.ast = none ∧ ob.status = .waiting := by
    intro o ob hob
    have hm := (obs_mem_of_obs? hob).1
    rw [start_obs s0] at hm
    exact ⟨(hw.obsWaiting ob hm).2.1, (hw.obsWaiting ob hm).1⟩
  constructor
  · intro o ob hob hast; exact absurd (hnone o ob hob).1 hast
  · intro o ob hob hfin; rw [(hnone o ob hob).2] at hfin; cases hfin
  · intro o ob a hob hfin; rw [(hnone o ob hob).2] at hfin; cases hfin

/-- when the telescope's loop is about to run, a WAITING observation has no recorded start -/
theorem idle_no_waiting_ast {s : Sys} (hi : EInv s) (h : IdleTel s) {p : Proc} (hpm : p ∈ s.procs)
    (ha : p.alive = true) (hk : p.k = .telescope)
    (hmin : ∀ q ∈ s.procs, q.alive = true → p.wake ≤ q.wake) {o : Oid} {ob : Obs}
    (hob : s.obs? o = some ob) (hw : ob.status = .waiting) : ob.ast = none := by
  cases hast : ob.ast with
  | none => rfl
  | some a =>
    exfalso
    have hadm := h.adm o ob hob (by rw [hast]; simp)
    obtain ⟨ob2, hob2, hsup⟩ := hi.eg.adm o hadm
    rw [hob] at hob2; cases hob2
    obtain ⟨q, hq, hqa, _, _, hlt⟩ := hsup hw
    have h1 := hlt p hpm hk ha
    have h2 := hmin q hq hqa
    exact absurd h1 (Rat.not_lt.mpr h2)

/-- what one block of an enabled process does to an observation record, as far as the timed reading
is concerned: the record after the block is FINISHED with recorded start `a` only if the record
before it was (same start), or the block ran at a time `≥ a + duration` -/
theorem idle_step_rec {s : Sys} (hi : EInv s) (hd : IdleDisc s) (h : IdleTel s) {pid : Nat} {p : Proc}
    (hp : s.proc? pid = some p) (ha : p.alive = true)
    (hmin : ∀ q ∈ s.procs, q.alive = true → p.wake ≤ q.wake) (orc : Oracle) :
    ∀ o ob', (s.resume pid orc).1.obs? o = some ob' → ∃ ob, s.obs? o = some ob ∧
      ob'.duration = ob.duration ∧
      (ob'.ast ≠ none → ob.ast ≠ none ∨ o ∈ (s.resume pid orc).1.admitted) ∧
      (ob'.status = .finished → ob'.ast ≠ none ∧
        ((ob.status = .finished ∧ ob'.ast = ob.ast) ∨
         (∃ a, ob'.ast = some a ∧ (((a + ob.duration : Nat) : Nat) : Time) ≤ p.wake))) := by
  obtain ⟨hpm, _⟩ := proc?_some hp
  have hobsEq : (s.resume pid orc).1.obs = (s.block p orc).1.obs := (il_resume_fields s pid orc p hp ha).1
  have hrts := resume_telSame s pid orc p hp ha
  intro o ob' hob'
  by_cases hk : p.k = .telescope
  · obtain ⟨m, hwm⟩ := hd.int p hpm hk
    have hnat : natNow p.wake = m := by rw [hwm]; exact natNow_natCast m
    rw [obs?_congr hobsEq] at hob'
    rcases blockEvents_telescope (s := s) orc hk with ⟨_, hb, _⟩ | ⟨s0', e0, _, g2, _, _, _, _, _, hrun, _⟩
    · rw [hb] at hob'
      refine ⟨ob', hob', rfl, fun hne => Or.inl hne, ?_⟩
      intro hfin
      exact ⟨h.finAst o ob' hob' hfin, Or.inl ⟨hfin, rfl⟩⟩
    · rw [hnat] at hrun
      obtain ⟨ob, hob, d, a1, s1⟩ := telRun_tobs hrun o ob' hob'
      have hob2 := hob
      rw [obs?_congr g2] at hob2
      have hdur := hd.dur ob (obs_mem_of_obs? hob2).1
      refine ⟨ob, hob2, d, ?_, ?_⟩
      · intro hne
        rcases a1 with e | ⟨_, hmem⟩
        · left; rw [← e]; exact hne
        · right; rw [hrts.admitted]; exact telRun_startedAdm hrun o hmem
      · intro hfin
        rcases s1 with e2 | ⟨_, f⟩
        · -- the status has not changed: FINISHED before
          have hfin0 : ob.status = .finished := by rw [← e2]; exact hfin
          rcases a1 with e | ⟨_, hmem⟩
          · exact ⟨by rw [e]; exact h.finAst o ob hob2 hfin0, Or.inl ⟨hfin0, e⟩⟩
          · exfalso
            obtain ⟨ob1, hob1, _, hw1⟩ := telRun_startedEst hrun o hmem
            rw [hob] at hob1; cases hob1
            rw [hfin0] at hw1; cases hw1
        · rcases f with ⟨a0, ha0, hle⟩ | ⟨_, f2⟩
          · rcases a1 with e | ⟨_, hmem⟩
            · refine ⟨by rw [e, ha0]; simp, Or.inr ⟨a0, by rw [e, ha0], ?_⟩⟩
              rw [hwm]
              exact_mod_cast hle
            · exfalso
              obtain ⟨ob1, hob1, _, hw1⟩ := telRun_startedEst hrun o hmem
              rw [hob] at hob1; cases hob1
              have := idle_no_waiting_ast hi h hpm ha hk hmin hob2 hw1
              rw [this] at ha0; cases ha0
          · omega
  · obtain ⟨ob, hob, d, a1, s1⟩ := step_recs s pid orc p hp ha o ob' hob'
    have hast : ob'.ast = ob.ast := by
      rcases a1 with e | ⟨e, _⟩ | ⟨tl, hpk, hpc, e⟩
      · exact e
      · exact absurd e hk
      · obtain ⟨ob2, hob2, a2, hast2, hwk⟩ := hd.aiAst p hpm o tl hpk hpc
        rw [hob] at hob2; cases hob2
        rw [e, hast2, hwk, natNow_natCast]
    refine ⟨ob, hob, d, fun hne => Or.inl (by rw [← hast]; exact hne), ?_⟩
    intro hfin
    have hfin0 : ob.status = .finished := by
      rcases s1 with e | ⟨e, _⟩ | ⟨_, _, _, e⟩
      · rw [← e]; exact hfin
      · exact absurd e hk
      · rw [hfin] at e; cases e
    exact ⟨by rw [hast]; exact h.finAst o ob hob hfin0, Or.inl ⟨hfin0, hast⟩⟩

/-- **After the block that has just run at time `p.wake`**, the window of every FINISHED observation
ends at or before `p.wake`. -/
theorem idle_tel_post {s : Sys} (hi : EInv s) (hd : IdleDisc s) (h : IdleTel s) {pid : Nat} {p : Proc}
    (hp : s.proc? pid = some p) (ha : p.alive = true)
    (hmin : ∀ q ∈ s.procs, q.alive = true → p.wake ≤ q.wake) (orc : Oracle) :
    ∀ o ob' a, (s.resume pid orc).1.obs? o = some ob' → ob'.status = .finished → ob'.ast = some a →
      (((a + ob'.duration : Nat) : Nat) : Time) ≤ p.wake := by
  obtain ⟨hpm, _⟩ := proc?_some hp
  intro o ob' a hob' hfin hast
  obtain ⟨ob, hob, d, _, hf⟩ := idle_step_rec hi hd h hp ha hmin orc o ob' hob'
  rw [d]
  rcases (hf hfin).2 with ⟨hfin0, e⟩ | ⟨a', ha', hle⟩
  · exact h.fin o ob a hob hfin0 (by rw [← e]; exact hast) p hpm ha
  · rw [hast] at ha'; cases ha'; exact hle

theorem idleTel_step {s : Sys} (hi : EInv s) (hd : IdleDisc s) (h : IdleTel s) {pid : Nat} {p : Proc}
    (hp : s.proc? pid = some p) (ha : p.alive = true)
    (hmin : ∀ q ∈ s.procs, q.alive = true → p.wake ≤ q.wake) (orc : Oracle) :
    IdleTel (s.resume pid orc).1 := by
  obtain ⟨hpm, _⟩ := proc?_some hp
  have hint : p.k = .telescope → ∃ m : Nat, p.wake = ((m : Nat) : Time) := fun hk => hd.int p hpm hk
  have hrts := resume_telSame s pid orc p hp ha
  have hnowp : Now (s.resume pid orc).1 p.wake := idle_now_step hi hp ha hmin hint orc hmin
  -- what was admitted stays admitted
  have hadmSub : ∀ o, o ∈ s.admitted → o ∈ (s.resume pid orc).1.admitted := by
    intro o ho
    rw [hrts.admitted]
    by_cases hk : p.k = .telescope
    · rcases blockEvents_telescope (s := s) orc hk with ⟨_, hb, _⟩ | ⟨s0', e0, g1, _, _, _, _, _, _, hrun, _⟩
      · rw [hb]; exact ho
      · exact (telRun_admitted_prefix hrun).subset (by rw [g1]; exact ho)
    · rw [(block_telSame s p orc hk).admitted]; exact ho
  constructor
  · intro o ob' hob' hne
    obtain ⟨ob, hob, _, hadm, _⟩ := idle_step_rec hi hd h hp ha hmin orc o ob' hob'
    rcases hadm hne with h1 | h1
    · exact hadmSub o (h.adm o ob hob h1)
    · exact h1
  · intro o ob' hob' hfin
    obtain ⟨ob, hob, _, _, hf⟩ := idle_step_rec hi hd h hp ha hmin orc o ob' hob'
    exact (hf hfin).1
  · intro o ob' a hob' hfin hast
    exact hnowp.mono (idle_tel_post hi hd h hp ha hmin orc o ob' a hob' hfin hast)

/-- `IdleTel` in every reachable state of the block system: any block order, any oracle -/
theorem idle_reach_tel (s0 s : Sys) (hw : WFConfig s0) (h : Reach s0 s) : IdleTel s := by
  induction h with
  | start => exact idleTel_start s0 hw
  | step s pid orc hr hen ih =>
    obtain ⟨p, hp, ha, hmin⟩ := hen
    exact idleTel_step (reach_einv s0 s hw hr) (IdleDisc.of_telDisc (reach_telDisc hw hr)) ih hp ha hmin orc

theorem IdleTel.congr {s s' : Sys} (h : IdleTel s) (h1 : s'.obs = s.obs) (h2 : s'.procs = s.procs)
    (h3 : s'.admitted = s.admitted) : IdleTel s' := by
  constructor
  · intro o ob hob; rw [obs?_congr h1] at hob; rw [h3]; exact h.adm o ob hob
  · intro o ob hob; rw [obs?_congr h1] at hob; exact h.finAst o ob hob
  · intro o ob a hob hfin hast
    rw [obs?_congr h1] at hob
    intro q hq; rw [h2] at hq; exact h.fin o ob a hob hfin hast q hq

end Sys
end Topsim
