/-
  DelayTraj5 — with a shipped algorithm the local schedule of every live `allocate_tasks`
  process holds UNSCHEDULED workflow tasks of its own observation, each once (`SU`), in every
  state of a run that has not raised.  (So `_process_current_schedule` never calls
  `update_allocation` on a task that has been handed to the cluster.)
-/
import TopsimProofs.DelayTraj4

namespace Topsim
namespace Sys

structure SU (s : Sys) : Prop where
  sl : ∀ p ∈ s.procs, p.alive = true → ∀ o sc pa po fn, p.k = .allocTasks o sc pa po fn →
    (dictKeys sc).Nodup ∧ ∀ t ∈ dictKeys sc, (∃ c n, t = Tid.wf o c n) ∧ tstat s t = .unscheduled

def SUInv (s : Sys) : Prop := s.crashed = none → SU s

theorem su_start (s0 : Sys) (hw : WFConfig s0) : SU s0.start := by
  constructor
  intro p hp _ o sc pa po fn hk
  rw [start_procs s0 hw] at hp
  simp only [List.mem_cons, List.not_mem_nil, or_false] at hp
  rcases hp with rfl | rfl | rfl | rfl | rfl <;> simp at hk

theorem dictKeys_of_isEmpty {d : List (Tid × Mid)} (h : d.isEmpty = true) : dictKeys d = [] := by
  cases d with
  | nil => rfl
  | cons a r => simp at h

/-- one step of a run that does not raise -/
theorem su_step {s : Sys} (hs : SInv s) (hwi : WI s) (hati : LcATI s) (hno : s.alg ≠ .oracle) (h : SU s)
    {pid : Nat} (hen : s.enabled pid) (orc : Oracle) (hc : (s.resume pid orc).1.crashed = none) :
    SU (s.resume pid orc).1 := by
  obtain ⟨p, hp, ha, hmin⟩ := hen
  obtain ⟨hpm, hpid⟩ := proc?_some hp
  obtain ⟨_, hnr⟩ := resume_nocrash s pid orc p hp ha hc
  obtain ⟨new, hnewe, hnewp⟩ := block_newp s p orc
  have hm := resume_memSpec ⟨hs.pw, hs.eg⟩ hp ha hmin orc hnewe
  have hcore := resume_core s pid orc p hp ha
  have htst : ∀ t, tstat (s.resume pid orc).1 t = tstat (s.block p orc).1 t :=
    fun t => tstat_of_tasks (by rw [hcore.tasks]; rfl) t
  -- a process created by this block is no `allocate_tasks` process with a non-empty schedule
  have hnewsc : ∀ q ∈ new, ∀ o sc pa po fn, q.k = .allocTasks o sc pa po fn → sc = [] := by
    intro q hq o sc pa po fn hqk
    have hnk := (hnewp q hq).2.2.2
    rw [hqk] at hnk
    cases hk : p.k <;> rw [hk] at hnk <;> simp [NewKind] at hnk
    exact hnk.1
  constructor
  intro q hq hqa o sc pa po fn hqk
  by_cases htag : p.k.tag = "allocTasks"
  · cases hk : p.k with
    | allocTasks o0 sc0 pa0 po0 fn0 =>
      have hb : s.block p orc = s.allocTasksBlock p.wake orc p.pc o0 sc0 pa0 po0 fn0 := block_allocTasks orc hk
      -- the other `allocate_tasks` processes work for other observations
      have hother : ∀ q0 ∈ s.procs, q0.pid ≠ p.pid → ∀ o' sc' pa' po' fn', q0.k = .allocTasks o' sc' pa' po' fn' →
          o' ≠ o0 := by
        intro q0 hq0 hne o' sc' pa' po' fn' hq0k e
        subst e
        exact hne (hati.uniq q0 hq0 p hpm _ _ _ _ _ _ _ _ _ hq0k hk)
      cases fn0 with
      | true =>
        rw [allocTasksBlock_fin] at hb
        rcases (hm q).mp hq with rfl | ⟨h1, _⟩ | h1
        · rw [hb] at hqa; simp at hqa
        · obtain ⟨hnd, hkeys⟩ := h.sl q h1 hqa o sc pa po fn hqk
          refine ⟨hnd, fun t ht => ⟨(hkeys t ht).1, ?_⟩⟩
          rw [htst, hb]; exact (hkeys t ht).2
        · rw [hnewsc q h1 o sc pa po fn hqk]; exact ⟨by simp [dictKeys], fun t ht => by simp [dictKeys] at ht⟩
      | false =>
        rw [allocTasksBlock_eq] at hb
        have hts1 : ∀ t, tstat ((atStart s p.wake p.pc o0).updateCurrentPlan o0) t = tstat s t := fun t =>
          (updateCurrentPlan_tstat _ o0 t).trans (atStart_tstat s p.wake p.pc o0 t)
        have hwi1 : WI ((atStart s p.wake p.pc o0).updateCurrentPlan o0) := (hwi.started p.wake p.pc o0).prune o0
        have halg1 : ((atStart s p.wake p.pc o0).updateCurrentPlan o0).alg ≠ .oracle := by
          rw [updateCurrentPlan_alg, atStart_alg]; exact hno
        obtain ⟨hnd0, hkeys0⟩ := h.sl p hpm ha o0 sc0 pa0 po0 false hk
        have hout := allocTasksIter_out (atStart s p.wake p.pc o0) p.wake orc o0 sc0 pa0 po0
        rw [hb] at hnr hm htst
        generalize (atStart s p.wake p.pc o0).allocTasksIter p.wake orc o0 sc0 pa0 po0 = r at hout hnr hm htst
        -- the outcomes that leave the records alone and an empty schedule
        have hsimple : ∀ (X : Sys) (k' : PK) (y : Yield) (sc' : List (Tid × Mid)) (pa' : List (Tid × Mid))
            (po' : List Tid) (fn' : Bool), r = (X, k', y) → k' = .allocTasks o0 sc' pa' po' fn' →
            sc'.isEmpty = true → (∀ t, tstat X t = tstat ((atStart s p.wake p.pc o0).updateCurrentPlan o0) t) →
            (dictKeys sc).Nodup ∧ ∀ t ∈ dictKeys sc, (∃ c n, t = Tid.wf o c n) ∧
              tstat (s.resume pid orc).1 t = .unscheduled := by
          intro X k' y sc' pa' po' fn' hr hk' hemp hX
          subst hr
          rcases (hm q).mp hq with rfl | ⟨h1, _⟩ | h1
          · simp only [fin_k] at hqk
            rw [hk'] at hqk
            injection hqk with _ e2 _ _ _
            subst e2
            rw [dictKeys_of_isEmpty hemp]
            exact ⟨by simp, fun t ht => by simp at ht⟩
          · obtain ⟨hnd, hkeys⟩ := h.sl q h1 hqa o sc pa po fn hqk
            refine ⟨hnd, fun t ht => ⟨(hkeys t ht).1, ?_⟩⟩
            rw [htst]
            show tstat X t = _
            rw [hX, hts1]; exact (hkeys t ht).2
          · rw [hnewsc q h1 o sc pa po fn hqk]; exact ⟨by simp [dictKeys], fun t ht => by simp [dictKeys] at ht⟩
        cases hout with
        | noPlan _ => exact absurd rfl (hnr _)
        | algErr plan e _ _ => exact absurd rfl (hnr _)
        | finish plan out hplan hrun hemp _ _ _ =>
          exact hsimple _ _ _ _ _ _ _ rfl rfl hemp (fun t => tstat_of_tasks (atS3_tasks ((atStart s p.wake p.pc o0).updateCurrentPlan o0) out o0) t)
        | finishBad plan out _ _ _ _ _ _ => exact absurd rfl (hnr _)
        | finishWait plan out hplan hrun hemp _ _ =>
          exact hsimple _ _ _ _ _ _ _ rfl rfl hemp (fun t => tstat_of_tasks (atS3_tasks ((atStart s p.wake p.pc o0).updateCurrentPlan o0) out o0) t)
        | idle plan out hplan hrun hemp _ =>
          exact hsimple _ _ _ _ _ _ _ rfl rfl hemp (fun t => tstat_of_tasks (atS3_tasks ((atStart s p.wake p.pc o0).updateCurrentPlan o0) out o0) t)
        | alloc plan out y hplan hrun _ hy =>
          obtain ⟨hplm, hpobs⟩ := plan?_mem hplan
          obtain ⟨halgk, halgn⟩ := runAlgorithm_sched ((atStart s p.wake p.pc o0).updateCurrentPlan o0) orc plan sc0 po0 out halg1 hrun
          -- the schedule handed to `_process_current_schedule`
          have hsk : ∀ t ∈ dictKeys out.schedule, (∃ c n, t = Tid.wf o0 c n) ∧
              tstat (atS3 ((atStart s p.wake p.pc o0).updateCurrentPlan o0) out o0) t = .unscheduled := by
            intro t ht
            rw [atS3_tstat]
            rcases halgk t ht with h1 | ⟨h1, h2⟩
            · exact ⟨(hkeys0 t h1).1, by rw [hts1]; exact (hkeys0 t h1).2⟩
            · obtain ⟨c, n, e⟩ := hwi1.pt plan hplm t h1
              exact ⟨⟨c, n, by rw [e, hpobs]⟩, h2⟩
          obtain ⟨new', hpcs⟩ := processCurrentSchedule_pcs (atS3 ((atStart s p.wake p.pc o0).updateCurrentPlan o0) out o0) p.wake o0 out.schedule pa0 (halgn hnd0)
          generalize processCurrentSchedule (atS3 ((atStart s p.wake p.pc o0).updateCurrentPlan o0) out o0) p.wake o0 out.schedule pa0 = st at hpcs hm htst ⊢
          rcases (hm q).mp hq with rfl | ⟨h1, h2⟩ | h1
          · simp only [fin_k] at hqk
            injection hqk with e1 e2 _ _ _
            subst e1 e2
            refine ⟨hpcs.nodup, fun t ht => ⟨(hsk t (hpcs.keys t ht)).1, ?_⟩⟩
            rw [htst]
            show tstat st.s t = _
            rcases hpcs.stat t with e | ⟨_, _, q', hq', m', cross', hq'k⟩
            · rw [e]; exact (hsk t (hpcs.keys t ht)).2
            · exfalso
              obtain ⟨_, _, t0, m0, c0, e, _, _, _, hnk⟩ := hpcs.newk q' hq'
              rw [hq'k] at e
              injection e with e1
              subst e1
              exact hnk ht
          · obtain ⟨hnd, hkeys⟩ := h.sl q h1 hqa o sc pa po fn hqk
            refine ⟨hnd, fun t ht => ⟨(hkeys t ht).1, ?_⟩⟩
            rw [htst]
            show tstat st.s t = _
            rcases hpcs.stat t with e | ⟨_, _, q', hq', m', cross', hq'k⟩
            · rw [e, atS3_tstat, hts1]; exact (hkeys t ht).2
            · exfalso
              obtain ⟨_, _, t0, m0, c0, e, g1, _⟩ := hpcs.newk q' hq'
              rw [hq'k] at e
              injection e with e1
              subst e1
              obtain ⟨c1, n1, e1⟩ := (hsk t g1).1
              obtain ⟨c2, n2, e2⟩ := (hkeys t ht).1
              rw [e1] at e2
              injection e2 with e3
              exact hother q h1 h2 o sc pa po fn hqk e3.symm
          · rw [hnewsc q h1 o sc pa po fn hqk]; exact ⟨by simp [dictKeys], fun t ht => by simp [dictKeys] at ht⟩
    | _ => rw [hk] at htag; simp [PK.tag] at htag
  · rcases (hm q).mp hq with rfl | ⟨h1, _⟩ | h1
    · exfalso
      simp only [fin_k] at hqk
      have := block_tag s hs.pw p orc
      rw [hqk] at this
      exact htag this.symm
    · obtain ⟨hnd, hkeys⟩ := h.sl q h1 hqa o sc pa po fn hqk
      refine ⟨hnd, fun t ht => ⟨(hkeys t ht).1, ?_⟩⟩
      rw [htst]
      obtain ⟨c, n, e⟩ := (hkeys t ht).1
      exact block_tstat_unsched hs hpm ha orc htag ⟨o, c, n, e⟩ (hkeys t ht).2
    · rw [hnewsc q h1 o sc pa po fn hqk]; exact ⟨by simp [dictKeys], fun t ht => by simp [dictKeys] at ht⟩

theorem reachOk_su (s0 s : Sys) (hw : WFConfig s0) (hbuf : bufList s0.buf = []) (hno : s0.alg ≠ .oracle)
    (h : ReachOk s0 s) : SUInv s := by
  induction h with
  | start => exact fun _ => su_start s0 hw
  | step s pid orc hr hen _ ih =>
    intro hc
    obtain ⟨p, hp, ha, _⟩ := hen
    obtain ⟨hc0, _⟩ := resume_nocrash s pid orc p hp ha hc
    exact su_step (reach_inv s0 s hw hr) (reachOk_wi s0 s hw hbuf hr hc0) (reachOk_ati s0 s hw hbuf hr)
      (by rw [reach_alg hr.toReach]; exact hno) (ih hc0) ⟨p, hp, ha, ‹_›⟩ orc hc

end Sys
end Topsim
