/-
  FinishInv2 — no block touches the `crashed` flag (only `resume` sets it, when a block raises).
-/
import TopsimProofs.FinishInv1

namespace Topsim
namespace Sys

theorem foldl_crashed {α} (f : Sys → α → Sys) (hf : ∀ s x, (f s x).crashed = s.crashed) (l : List α) (s : Sys) :
    (l.foldl f s).crashed = s.crashed := by
  induction l generalizing s with
  | nil => rfl
  | cons x r ih => exact (ih _).trans (hf s x)

theorem updateCurrentPlan_crashed (s : Sys) (oid : Oid) : (s.updateCurrentPlan oid).crashed = s.crashed := by
  unfold updateCurrentPlan
  split
  · rfl
  · simp only
    show (List.foldl _ s _).crashed = s.crashed
    apply foldl_crashed
    intro s x
    split
    · split <;> rfl
    · rfl

syntax "crashed_split" : tactic
macro_rules
  | `(tactic| crashed_split) =>
    `(tactic| first
      | rfl
      | (split <;> crashed_split))

theorem monitorBlock_crashed (s : Sys) (now : Time) : (s.monitorBlock now).1.crashed = s.crashed := rfl

theorem checkIngestCapacity_crashed (s : Sys) (o : Obs) (s' : Sys) (b : Bool)
    (h : s.checkIngestCapacity o = .ok (s', b)) : s'.crashed = s.crashed := by
  unfold checkIngestCapacity at h
  split at h
  · exact absurd h (by simp)
  · split at h
    · split at h
      · injection h with h; injection h with h1 _
        subst h1
        split <;> rfl
      · injection h with h; injection h with h1 _; subst h1; rfl
    · injection h with h; injection h with h1 _; subst h1; rfl

theorem telescopeVisit_crashed (n : Nat) (acc : Sys × Option Err) (oid : Oid) :
    (telescopeVisit n acc oid).1.crashed = acc.1.crashed := by
  obtain ⟨s1, err⟩ := acc
  unfold telescopeVisit
  cases err with
  | some e => rfl
  | none =>
    simp only
    split
    · rfl
    · rename_i o _
      split
      · cases hc : s1.checkIngestCapacity o with
        | error e => rfl
        | ok r =>
          obtain ⟨s', b⟩ := r
          have := checkIngestCapacity_crashed s1 o s' b hc
          cases b with
          | false => exact this
          | true => simp only; exact this
      · split <;> rfl

theorem foldl_crashed' {α β} (f : Sys × β → α → Sys × β) (hf : ∀ acc x, (f acc x).1.crashed = acc.1.crashed)
    (l : List α) (acc : Sys × β) : (l.foldl f acc).1.crashed = acc.1.crashed := by
  induction l generalizing acc with
  | nil => rfl
  | cons x r ih => exact (ih _).trans (hf acc x)

theorem telescopeBlock_crashed (s : Sys) (now : Time) : (s.telescopeBlock now).1.crashed = s.crashed := by
  unfold telescopeBlock
  split
  · rfl
  · simp only
    have := foldl_crashed' (telescopeVisit (natNow now)) (telescopeVisit_crashed (natNow now))
      (s.obs.map (·.id))
      ({ s with telEvents := [], telDelayed := if s.schedDelayed = true ∧ (!s.telDelayed) = true then true else s.telDelayed }, none)
    generalize (List.foldl (telescopeVisit (natNow now)) ({ s with telEvents := [], telDelayed := if s.schedDelayed = true ∧ (!s.telDelayed) = true then true else s.telDelayed }, none) (s.obs.map (·.id))) = r at this ⊢
    obtain ⟨s1, e1⟩ := r
    cases e1 <;> exact this

theorem schedLoopBlock_crashed (s : Sys) (now : Time) (orc : Oracle) :
    (s.schedLoopBlock now orc).1.crashed = s.crashed := by
  unfold schedLoopBlock
  simp only
  split
  · split
    · rfl
    · split
      · rfl
      · split <;> split <;> rfl
  · rfl

theorem bufferLoopBlock_crashed (s : Sys) (now : Time) : (s.bufferLoopBlock now).1.crashed = s.crashed := by
  unfold bufferLoopBlock
  split
  · rfl
  · simp only; split <;> split <;> rfl

theorem allocIngestIter_crashed (s : Sys) (now : Time) (oid : Oid) (tl : Int) :
    (s.allocIngestIter now oid tl).1.crashed = s.crashed := by
  unfold allocIngestIter; simp only; crashed_split

theorem allocIngestBlock_crashed (s : Sys) (now : Time) (pc : Nat) (oid : Oid) (tl : Int) :
    (s.allocIngestBlock now pc oid tl).1.crashed = s.crashed := by
  unfold allocIngestBlock
  split
  · exact allocIngestIter_crashed _ _ _ _
  · exact allocIngestIter_crashed _ _ _ _

theorem provIngestBlock_crashed (s : Sys) (now : Time) (pc : Nat) (oid : Oid) (d : Nat) :
    (s.provIngestBlock now pc oid d).1.crashed = s.crashed := by
  unfold provIngestBlock
  split
  · simp only
    split
    · rfl
    · refine Eq.trans (foldl_crashed _ ?_ _ _) rfl
      intro s x; rfl
  · rfl

theorem ingestStreamIter_crashed (s : Sys) (now : Time) (oid : Oid) (tl : Int) :
    (s.ingestStreamIter now oid tl).1.crashed = s.crashed := by
  unfold ingestStreamIter; crashed_split

theorem ingestStreamBlock_crashed (s : Sys) (now : Time) (pc : Nat) (oid : Oid) (tl : Int) :
    (s.ingestStreamBlock now pc oid tl).1.crashed = s.crashed := by
  unfold ingestStreamBlock
  split
  · split
    · rfl
    · split
      · rfl
      · exact ingestStreamIter_crashed _ _ _ _
  · exact ingestStreamIter_crashed _ _ _ _

theorem allocTaskBlock_crashed (s : Sys) (now : Time) (t : Tid) (m : Mid) (preds : List Tid)
    (obs : Option Oid) (ing : Bool) (ret : Nat) :
    (s.allocTaskBlock now t m preds obs ing ret).1.crashed = s.crashed := by
  unfold allocTaskBlock; simp only; crashed_split

theorem doWorkBlock_crashed (s : Sys) (now : Time) (orc : Oracle) (t : Tid) (m : Mid) (preds : List Tid)
    (ph tot : Nat) : (s.doWorkBlock now orc t m preds ph tot).1.crashed = s.crashed := by
  rcases doWorkBlock_out s now orc t m preds ph tot with
    ⟨_, _, _, _, heq⟩ | ⟨_, _, _, _, _, heq⟩ | ⟨_, _, _, heq⟩ <;> rw [heq] <;> rfl

theorem processOne_crashed (now : Time) (oid : Oid) (st : PcsSt) (t : Tid) :
    (processOne now oid st t).s.crashed = st.s.crashed := by
  unfold processOne
  cases hok : st.err with
  | some e => rfl
  | none =>
    simp only
    cases hm : dictGet st.schedule t with
    | none => rfl
    | some m =>
      cases hr : st.s.task? t with
      | none => rfl
      | some r =>
        simp only []
        cases hmm : st.s.machine? m with
        | none => rfl
        | some mm =>
          simp only []
          by_cases hz : ((r.allocObj || r.planned != some m) = true ∧ (mm.cpu = 0 ∨ mm.bw = 0))
          · rw [if_pos hz]
          · simp only [hz, if_false]
            generalize hs1 : (if (r.allocObj || r.planned != some m) = true then
              st.s.updTask t (fun r => updateAllocation r mm) else st.s) = s1
            have h1 : s1.crashed = st.s.crashed := by subst hs1; split <;> rfl
            by_cases hocc : (st.curr.contains m = true ∨ s1.cl.isOccupied m = true)
            · simp only [hocc, if_true]; exact h1
            · simp only [hocc, if_false]
              by_cases hmiss : (r.preds.any fun p => !dictHas (dictSet st.pairs t m) p) = true
              · simp only [hmiss, if_true]; exact h1
              · simp only [hmiss]
                by_cases hst : r.status ≠ TStatus.unscheduled
                · rw [if_pos hst]; exact h1
                · rw [if_neg hst]; exact h1

theorem processCurrentSchedule_crashed (s : Sys) (now : Time) (oid : Oid)
    (schedule pairs : List (Tid × Mid)) : (processCurrentSchedule s now oid schedule pairs).s.crashed = s.crashed := by
  unfold processCurrentSchedule
  simp only
  generalize ((dictKeys schedule).mergeSort _) = l
  have : ∀ (l : List Tid) (st : PcsSt), (l.foldl (processOne now oid) st).s.crashed = st.s.crashed := by
    intro l
    induction l with
    | nil => intro st; rfl
    | cons x r ih => intro st; exact (ih _).trans (processOne_crashed now oid st x)
  exact this l { s := s, schedule := schedule, pairs := pairs, curr := [] }

theorem allocTasksIter_crashed (s : Sys) (now : Time) (orc : Oracle) (oid : Oid)
    (schedule pairs : List (Tid × Mid)) (pool : List Tid) :
    (s.allocTasksIter now orc oid schedule pairs pool).1.crashed = s.crashed := by
  unfold allocTasksIter
  simp only
  have h1 := updateCurrentPlan_crashed s oid
  generalize s.updateCurrentPlan oid = s1 at h1
  split
  · exact h1
  · split
    · exact h1
    · rename_i out _
      have h3 : (if out.status = WStatus.delayed then { (({ s1 with cl := out.cl }).updPlan oid (fun p => { p with status := out.status })) with schedDelayed := true } else (({ s1 with cl := out.cl }).updPlan oid (fun p => { p with status := out.status }))).crashed = s.crashed := by
        split <;> exact h1
      generalize (if out.status = WStatus.delayed then { (({ s1 with cl := out.cl }).updPlan oid (fun p => { p with status := out.status })) with schedDelayed := true } else (({ s1 with cl := out.cl }).updPlan oid (fun p => { p with status := out.status }))) = s3 at h3
      split
      · split
        · split <;> exact h3
        · exact h3
      · split
        · exact h3
        · have h4 := processCurrentSchedule_crashed s3 now oid out.schedule pairs
          split <;> exact h4.trans h3

theorem allocTasksBlock_crashed (s : Sys) (now : Time) (orc : Oracle) (pc : Nat) (oid : Oid)
    (schedule pairs : List (Tid × Mid)) (pool : List Tid) (fin : Bool) :
    (s.allocTasksBlock now orc pc oid schedule pairs pool fin).1.crashed = s.crashed := by
  unfold allocTasksBlock
  split
  · rfl
  · split
    · simp only
      rw [allocTasksIter_crashed]
      refine Eq.trans (foldl_crashed _ ?_ _ _) rfl
      intro s x; rfl
    · exact allocTasksIter_crashed _ _ _ _ _ _ _

theorem hot2coldIter_crashed (s : Sys) (now : Time) (o : Oid) (left : Int) :
    (s.hot2coldIter now o left).1.crashed = s.crashed := by
  unfold hot2coldIter; crashed_split

theorem hot2coldBlock_crashed (s : Sys) (now : Time) (cur : Option (Oid × Int)) :
    (s.hot2coldBlock now cur).1.crashed = s.crashed := by
  unfold hot2coldBlock
  split
  · exact hot2coldIter_crashed _ _ _ _
  · split
    · rfl
    · rfl
    · rw [hot2coldIter_crashed]; rfl

theorem cold2hotIter_crashed (s : Sys) (now : Time) (o : Oid) (left : Int) :
    (s.cold2hotIter now o left).1.crashed = s.crashed := by
  unfold cold2hotIter; crashed_split

theorem cold2hotBlock_crashed (s : Sys) (now : Time) (cur : Option (Oid × Int)) :
    (s.cold2hotBlock now cur).1.crashed = s.crashed := by
  unfold cold2hotBlock
  split
  · exact cold2hotIter_crashed _ _ _ _
  · split
    · rfl
    · rfl
    · rw [cold2hotIter_crashed]; rfl

theorem block_crashed (s : Sys) (p : Proc) (orc : Oracle) : (s.block p orc).1.crashed = s.crashed := by
  unfold block
  split
  · exact monitorBlock_crashed _ _
  · exact telescopeBlock_crashed _ _
  · rfl
  · exact schedLoopBlock_crashed _ _ _
  · exact bufferLoopBlock_crashed _ _
  · exact allocIngestBlock_crashed _ _ _ _ _
  · exact provIngestBlock_crashed _ _ _ _ _
  · exact ingestStreamBlock_crashed _ _ _ _ _
  · exact allocTaskBlock_crashed _ _ _ _ _ _ _ _
  · exact doWorkBlock_crashed _ _ _ _ _ _ _ _
  · exact allocTasksBlock_crashed _ _ _ _ _ _ _ _ _
  · exact hot2coldBlock_crashed _ _ _
  · exact cold2hotBlock_crashed _ _ _

theorem resume_nocrash (s : Sys) (pid : Nat) (orc : Oracle) (p : Proc) (hp : s.proc? pid = some p)
    (ha : p.alive = true) (hc : (s.resume pid orc).1.crashed = none) :
    s.crashed = none ∧ ∀ e, (s.block p orc).2.2 ≠ .raised e := by
  unfold resume at hc
  simp only [hp, ha, Bool.not_true, Bool.false_eq_true, if_false] at hc
  have hb := block_crashed s p orc
  generalize s.block p orc = r at hc hb
  obtain ⟨s1, k, y⟩ := r
  cases y with
  | timeout d => exact ⟨hb ▸ hc, fun e h => by simp at h⟩
  | done => exact ⟨hb ▸ hc, fun e h => by simp at h⟩
  | raised e =>
    exfalso
    simp only [Sys.crash] at hc
    split at hc <;> simp_all [Sys.updProc]

end Sys
end Topsim
