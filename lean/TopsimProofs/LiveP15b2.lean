/-
  LiveP15b2 — the declarations of Live15b2.lean that depend on the configuration structures, restated for
  the plan-following configurations (`LivePCfg`, `NcPCfg`, `L7PLib`); the proofs are those of Live15b2.lean.
-/
import TopsimProofs.LiveP13

namespace Topsim

open KState Sys

namespace Sys

end Sys

variable {env : SimEnv} {s0 : Sys}

/-- H2 along the run -/
-- F14: legacy (the H2-based argument); `h2` is now an explicit hypothesis, `NcCfg` has lost the field
theorem nco_oneAdm_P (N : NcPCfg env s0) (h2 : Sys.OneAdmission s0) {k : SimState} (hr : SimReach env s0 k) (hreach : ReachOk s0 k.st) :
    OneAdmL k.st.totalArrays k.st.maxIngest k.st.obs := by
  rw [nco_reach_totalArrays hreach.toReach, reach_maxIngest s0 k.st N.hw hreach]
  have h0 : OneAdmL s0.totalArrays s0.maxIngest s0.obs := h2
  exact h0.keep (a := s0) (b := k.st) (hr.keep0 N.hw)

/-- one kernel step (a block of the live process `p`) keeps `IngInv` -/
theorem Sys.IngInv.step_P (N : NcPCfg env s0) (h2 : Sys.OneAdmission s0) {k k1 : SimState} (hr : SimReach env s0 k)
    (hreach : ReachOk s0 k.st) (hr1 : SimReach env s0 k1) (inv : IngInv k.st) {e : HEntry} {p : Proc}
    (hpk : k.peek = some e) (hpp : k.st.proc? e.pid = some p) (ha : p.alive = true)
    (hst : k1.st = (k.st.resume e.pid (env.oracle k.st)).1) : IngInv k1.st := by
  have hw := N.hw
  have hinv := hr.l3inv hw
  have hinv1 := hr1.l3inv hw
  have hs := hinv.sinv
  have hpw := hs.pw
  have hu := hr.urg hw
  have hl := hr.loopPids hw
  have hsi := hr.startInv hw N.hb0.1
  obtain ⟨hpm, hpid⟩ := proc?_some hpp
  rw [hst]
  have hs1 : SInv (k.st.resume e.pid (env.oracle k.st)).1 := by rw [← hst]; exact hinv1.sinv
  generalize env.oracle k.st = orc at hs1 ⊢
  have hm := nco_resume_procs hpw hpp ha orc
  obtain ⟨hobs', hcl', _⟩ := il_resume_fields k.st e.pid orc p hpp ha
  have hkeep := ot_resume_keep k.st e.pid orc p hpp ha
  have hdem : ∀ o, (k.st.resume e.pid orc).1.ilDemand o = k.st.ilDemand o := fun o => ot_ilDemand_keep hkeep o
  -- live processes of the new state before their first block: old ones, or new ones
  have hP0 : ∀ q' ∈ (k.st.resume e.pid orc).1.procs, q'.pc = 0 →
      (q' ∈ k.st.procs ∧ q'.pid ≠ e.pid) ∨
      (k.st.nextPid ≤ q'.pid ∧ NewKind p.k q'.k ∧ q' ∈ (k.st.block p orc).1.procs ∧ q' ∉ k.st.procs) := by
    intro q' hq' h0
    rcases hm q' hq' with rfl | h | ⟨_, _, w1, w2, w3, w4⟩
    · simp at h0
    · exact Or.inl h
    · exact Or.inr ⟨w1, w2, w3, w4⟩
  -- when `p` is past its first block, no live process is before its first block
  have hnormal : 1 ≤ p.pc → ∀ q ∈ k.st.procs, q.alive = true → q.pc = 0 → False := by
    intro hpc q hq hqa hq0
    have := hu.normal hinv.heap hpk hpp ha hpc q hq hqa
    omega
  -- if an old supervisor / provisioning process is pending, `p` is before its first block and harmless
  have hA : ∀ q ∈ k.st.procs, q.alive = true → q.pc = 0 → q.k.ncoIng ≠ none →
      p.pc = 0 ∧ p.k.ncoOk2 = true := by
    intro q hq hqa hq0 hqn
    have hp0 := hu.first hinv.heap hpk hpp ha hq hqa hq0
    exact ⟨hp0, inv.ok q hq hqa hq0 hqn p hpm ha hp0⟩
  -- a generic case: the block leaves `available` alone and creates only harmless processes
  have hquiet : p.k.ncoQuietCl = true →
      (∀ c, NewKind p.k c → c.ncoIng = none ∧ c.ncoOk2 = true) → IngInv (k.st.resume e.pid orc).1 := by
    intro hq hnew
    refine inv.mono hdem (by rw [hcl']; exact nco_block_avail k.st p orc hq) ?_
    intro q' hq' _ h0
    rcases hP0 q' hq' h0 with ⟨h, _⟩ | ⟨_, w, _, _⟩
    · exact Or.inl h
    · exact Or.inr (hnew _ w)
  -- a generic case: no supervisor / provisioning process is pending afterwards
  have hnone : (∀ q ∈ k.st.procs, q.alive = true → q.pc = 0 → q.pid ≠ e.pid → q.k.ncoIng = none) →
      (∀ c, NewKind p.k c → c.ncoIng = none) → IngInv (k.st.resume e.pid orc).1 := by
    intro hold hnew
    apply IngInv.of_noA
    intro q' hq' hqa h0
    rcases hP0 q' hq' h0 with ⟨h, hne⟩ | ⟨_, w, _, _⟩
    · exact hold q' h hqa h0 hne
    · exact hnew _ w
  -- old pending processes when `p` is no harmless kind
  have holdBad : p.k.ncoOk2 = false →
      ∀ q ∈ k.st.procs, q.alive = true → q.pc = 0 → q.pid ≠ e.pid → q.k.ncoIng = none := by
    intro hbad q hq hqa hq0 _
    cases hn : q.k.ncoIng with
    | none => rfl
    | some o =>
      have := (hA q hq hqa hq0 (by rw [hn]; simp)).2
      rw [hbad] at this; cases this
  cases hk : p.k with
  | monitor => exact hquiet (by rw [hk]; rfl) (fun c w => by rw [hk] at w; simp [NewKind] at w)
  | clusterLoop => exact hquiet (by rw [hk]; rfl) (fun c w => by rw [hk] at w; simp [NewKind] at w)
  | ingestStream o tl => exact hquiet (by rw [hk]; rfl) (fun c w => by rw [hk] at w; simp [NewKind] at w)
  | doWork t m preds ph tot => exact hquiet (by rw [hk]; rfl) (fun c w => by rw [hk] at w; simp [NewKind] at w)
  | hot2cold cur => exact hquiet (by rw [hk]; rfl) (fun c w => by rw [hk] at w; simp [NewKind] at w)
  | cold2hot cur => exact hquiet (by rw [hk]; rfl) (fun c w => by rw [hk] at w; simp [NewKind] at w)
  | bufferLoop =>
    refine hquiet (by rw [hk]; rfl) (fun c w => ?_)
    rw [hk] at w
    simp only [NewKind] at w
    rcases w with rfl | rfl <;> exact ⟨rfl, rfl⟩
  | allocTask t m preds obs ing ret =>
    refine hnone (holdBad (by rw [hk]; rfl)) (fun c w => ?_)
    rw [hk] at w
    simp only [NewKind] at w
    rw [w]; rfl
  | allocTasks o sc pa po fin =>
    refine hnone (holdBad (by rw [hk]; rfl)) (fun c w => ?_)
    rw [hk] at w
    simp only [NewKind] at w
    obtain ⟨t, m, cr, rfl⟩ := w; rfl
  | provIngest o d =>
    refine hnone ?_ (fun c w => ?_)
    · intro q hq hqa hq0 hne
      cases hn : q.k.ncoIng with
      | none => rfl
      | some o' =>
        exfalso
        have hqn : q.k.ncoIng ≠ none := by rw [hn]; simp
        have hp0 := (hA q hq hqa hq0 hqn).1
        exact hne ((inv.uniq q hq p hpm hqa hq0 ha hp0 hqn (by rw [hk]; simp [PK.ncoIng])).trans hpid)
    · rw [hk] at w
      simp only [NewKind] at w
      obtain ⟨t, m, rfl⟩ := w; rfl
  | schedLoop =>
    by_cases hex : ∃ q ∈ k.st.procs, q.alive = true ∧ q.pc = 0 ∧ q.k.ncoIng ≠ none
    · -- the scheduler loop's first block, nothing stored: it creates nothing
      obtain ⟨q, hq, hqa, hq0, hqn⟩ := hex
      have hp0 := (hA q hq hqa hq0 hqn).1
      have hstored := hsi.sch0 p hpm ha hp0 hk
      have hprocs : (k.st.block p orc).1.procs = k.st.procs := by
        rw [block_schedLoop orc hk]
        show (k.st.schedLoopBlock p.wake orc).1.procs = _
        unfold schedLoopBlock
        have : ({ k.st with schEvents := [] } : Sys).buf.hasReady = false := by
          show k.st.buf.hasReady = false
          unfold Buffer.hasReady
          rw [hstored]; rfl
        simp only [this, Bool.false_eq_true, if_false]
      refine inv.mono hdem (by rw [hcl']; exact nco_block_avail k.st p orc (by rw [hk]; rfl)) ?_
      intro q' hq' _ h0
      rcases hP0 q' hq' h0 with ⟨h, _⟩ | ⟨_, _, w3, w4⟩
      · exact Or.inl h
      · rw [hprocs] at w3; exact absurd w3 w4
    · refine hnone ?_ (fun c w => ?_)
      · intro q hq hqa hq0 _
        cases hn : q.k.ncoIng with
        | none => rfl
        | some o' => exact absurd ⟨q, hq, hqa, hq0, by rw [hn]; simp⟩ hex
      · rw [hk] at w
        simp only [NewKind] at w
        obtain ⟨o, rfl⟩ := w; rfl
  | allocIngest o tl =>
    have hav : (k.st.resume e.pid orc).1.cl.available = k.st.cl.available := by
      rw [hcl']; exact nco_block_avail k.st p orc (by rw [hk]; rfl)
    have hpA : p.k.ncoIng = some o := by rw [hk]; rfl
    cases hpc : p.pc with
    | zero =>
      -- the supervisor's first block: it creates the provisioning process and the stream
      have hfitp := inv.fit p hpm ha hpc o hpA
      have holdA : ∀ q ∈ k.st.procs, q.alive = true → q.pc = 0 → q.pid ≠ e.pid → q.k.ncoIng = none := by
        intro q hq hqa hq0 hne
        cases hn : q.k.ncoIng with
        | none => rfl
        | some o' =>
          exfalso
          exact hne ((inv.uniq q hq p hpm hqa hq0 ha hpc (by rw [hn]; simp) (by rw [hpA]; simp)).trans hpid)
      have hnewk : ∀ c, NewKind p.k c → ((∃ d, c = .provIngest o d) ∨ c = .ingestStream o 0) := by
        intro c w; rw [hk] at w; simpa [NewKind] using w
      refine ⟨?_, ?_, ?_⟩
      · intro q' hq' hqa h0 o' ho'
        rcases hP0 q' hq' h0 with ⟨h, hne⟩ | ⟨_, w, _, _⟩
        · rw [holdA q' h hqa h0 hne] at ho'; cases ho'
        · rcases hnewk _ w with ⟨d, hc⟩ | hc
          · rw [hc] at ho'
            simp only [PK.ncoIng, Option.some.injEq] at ho'
            subst ho'
            rw [hdem, hav]; exact hfitp
          · rw [hc] at ho'; cases ho'
      · intro q hq q' hq' hqa h0 hqa' h0' hn hn'
        rcases hP0 q hq h0 with ⟨h, hne⟩ | ⟨_, w, _, _⟩
        · exact absurd (holdA q h hqa h0 hne) hn
        · rcases hP0 q' hq' h0' with ⟨h', hne'⟩ | ⟨_, w', _, _⟩
          · exact absurd (holdA q' h' hqa' h0' hne') hn'
          · rcases hnewk _ w with ⟨d, hc⟩ | hc
            · rcases hnewk _ w' with ⟨d', hc'⟩ | hc'
              · obtain ⟨U, hU⟩ := hs1.ci
                exact hU.provUniq q hq q' hq' o d d' hc hc'
              · rw [hc'] at hn'; exact absurd rfl hn'
            · rw [hc] at hn; exact absurd rfl hn
      · intro q hq hqa h0 hn q' hq' hqa' h0'
        rcases hP0 q' hq' h0' with ⟨h', _⟩ | ⟨_, w', _, _⟩
        · exact inv.ok p hpm ha hpc (by rw [hpA]; simp) q' h' hqa' h0'
        · rcases hnewk _ w' with ⟨d', hc'⟩ | hc' <;> rw [hc'] <;> rfl
    | succ j =>
      -- a later block: the observation is not WAITING any more, nothing is created
      have hpc1 : 1 ≤ p.pc := by omega
      have hprocs : (k.st.block p orc).1.procs = k.st.procs := by
        rw [block_allocIngest orc hk]
        rcases allocIngestBlock_procs k.st p.wake p.pc o tl with h | ⟨ob, d, hob, hwait, _, _⟩
        · exact h
        · exfalso
          have hoadm : o ∈ k.st.admitted := hinv.il.aiAdm p hpm o (by rw [hk]; rfl)
          obtain ⟨ob', hob', hex⟩ := hs.eg.adm o hoadm
          rw [hob] at hob'
          cases hob'
          obtain ⟨q, hq, hqa, hq0, _⟩ := hex hwait
          exact hnormal hpc1 q hq hqa hq0
      apply IngInv.of_noA
      intro q' hq' hqa h0
      rcases hP0 q' hq' h0 with ⟨h, _⟩ | ⟨_, _, w3, w4⟩
      · exact absurd h0 (fun h0 => hnormal hpc1 q' h hqa h0)
      · rw [hprocs] at w3; exact absurd w3 w4
  | telescope =>
    have hav : (k.st.resume e.pid orc).1.cl.available = k.st.cl.available := by
      rw [hcl']; exact nco_block_avail k.st p orc (by rw [hk]; rfl)
    -- no supervisor / provisioning process is pending
    have holdA := holdBad (by rw [hk]; rfl)
    -- the block admits at most one observation
    have hacct : TelAcct k.st := reach_telAcct hw hreach.toReach
    have hp0 : 0 ≤ k.st.provIngest := by
      have := hinv.il.owed
      omega
    have hnd : (k.st.telescopeBlock p.wake).1.admitted.Nodup := by
      have h1 := hs1.eg.admNodup
      rw [(resume_telSame k.st e.pid orc p hpp ha).admitted, block_telescope orc hk] at h1
      exact h1
    have hadm := nco_telescopeBlock k.st p.wake hacct hnd (nco_oneAdm_P N h2 hr hreach) hp0
    have hblk : (k.st.block p orc).1 = (k.st.telescopeBlock p.wake).1 := by rw [block_telescope orc hk]
    rw [← hblk] at hadm
    -- the old pending processes are harmless
    have holdOk : ∀ q ∈ k.st.procs, q.alive = true → q.pc = 0 → q.pid ≠ e.pid → q.k.ncoOk2 = true := by
      intro q hq hqa hq0 hne
      have hpc0 := hu.first hinv.heap hpk hpp ha hq hqa hq0
      have hn5 := hsi.tel0 p hpm ha hpc0 hk
      have hq5 : q.pid < 5 := by have := hpw.lt q hq; omega
      rw [hl.loop q hq hq5]
      apply nco_loopKind_ok2
      have := hl.tel hpm hk
      omega
    rcases hadm with ⟨a1, _⟩ | ⟨o1, r1, _, b2, b3, _, _, _, b7, b8, _⟩
    · -- nothing admitted
      apply IngInv.of_noA
      intro q' hq' hqa h0
      rcases hP0 q' hq' h0 with ⟨h, hne⟩ | ⟨_, _, w3, w4⟩
      · exact holdA q' h hqa h0 hne
      · rw [a1] at w3; exact absurd w3 w4
    · -- one supervisor created
      have hnewq : ∀ q' ∈ (k.st.block p orc).1.procs, q' ∉ k.st.procs →
          q' = { pid := k.st.nextPid, k := .allocIngest o1 0, wake := ((natNow p.wake : Nat) : Time) } := by
        intro q' hq' hnot
        rw [b8] at hq'
        rcases List.mem_append.mp hq' with h | h
        · exact absurd h hnot
        · simpa using h
      have hr1m : r1 ∈ (k.st.resume e.pid orc).1.obs := by rw [hobs']; exact b2
      have hdem1 : (k.st.resume e.pid orc).1.ilDemand o1 = r1.ingestDemand := by
        have := obs?_of_mem hs1.eg.obsNodup hr1m
        rw [b3] at this
        unfold ilDemand
        rw [this]
      refine ⟨?_, ?_, ?_⟩
      · intro q' hq' hqa h0 o' ho'
        rcases hP0 q' hq' h0 with ⟨h, hne⟩ | ⟨_, _, w3, w4⟩
        · rw [holdA q' h hqa h0 hne] at ho'; cases ho'
        · rw [hnewq q' w3 w4] at ho'
          simp only [PK.ncoIng, Option.some.injEq] at ho'
          subst ho'
          rw [hdem1, hav]; exact b7
      · intro q hq q' hq' hqa h0 hqa' h0' hn hn'
        rcases hP0 q hq h0 with ⟨h, hne⟩ | ⟨_, _, w3, w4⟩
        · exact absurd (holdA q h hqa h0 hne) hn
        · rcases hP0 q' hq' h0' with ⟨h', hne'⟩ | ⟨_, _, w3', w4'⟩
          · exact absurd (holdA q' h' hqa' h0' hne') hn'
          · rw [hnewq q w3 w4, hnewq q' w3' w4']
      · intro q hq hqa h0 hn q' hq' hqa' h0'
        rcases hP0 q' hq' h0' with ⟨h', hne'⟩ | ⟨_, _, w3', w4'⟩
        · exact holdOk q' h' hqa' h0' hne'
        · rw [hnewq q' w3' w4']; rfl

/-- the context of one kernel step of a run that has not raised -/
theorem nco_step_ctx_P (N : NcPCfg env s0) (n : Nat) (hc1 : (simAt env s0 (n + 1)).st.crashed = none) :
    (simAt env s0 n).st.crashed = none ∧ ReachOk s0 (simAt env s0 n).st ∧
    ∃ e p, (simAt env s0 n).peek = some e ∧ (simAt env s0 n).st.proc? e.pid = some p ∧ p.alive = true ∧
      (simAt env s0 (n + 1)).st =
        ((simAt env s0 n).st.resume e.pid (env.oracle (simAt env s0 n).st)).1 := by
  have hw := N.hw
  have hc := live_crashed_mono env s0 hw (Nat.le_succ n) hc1
  obtain ⟨hrun, hhalt, k1, hs⟩ := live_simRun env s0 hw N.hh0 n hc
  obtain ⟨e, p, hpk, hpp, ha, _, _, hst⟩ := live_step_resume hw (simAt_reach env s0 n) hc hs
  refine ⟨hc, simRun_reachOk hw hrun hhalt, e, p, hpk, hpp, ha, ?_⟩
  rw [simAt_succ_of_step hs]; exact hst

theorem nco_ingInv_P (N : NcPCfg env s0) (h2 : Sys.OneAdmission s0) (n : Nat) (hc : (simAt env s0 n).st.crashed = none) :
    IngInv (simAt env s0 n).st := by
  induction n with
  | zero => exact IngInv.init s0 N.hw
  | succ n ih =>
    obtain ⟨hcn, hreach, e, p, hpk, hpp, ha, hst⟩ := nco_step_ctx_P N n hc
    exact (ih hcn).step_P N h2 (simAt_reach env s0 n) hreach (simAt_reach env s0 (n + 1)) hpk hpp ha hst

/-- **NC-A2.**  In a run that has not raised, the first block of a provisioning process finds at
least as many machines available as it asks for: `provision_ingest_resources` does not raise. -/
theorem nc_provIngest_fits_P (N : NcPCfg env s0) (h2 : Sys.OneAdmission s0) (n : Nat) (hc : (simAt env s0 n).st.crashed = none)
    {e : HEntry} {p : Proc} (hpk : (simAt env s0 n).peek = some e)
    (hpp : (simAt env s0 n).st.proc? e.pid = some p) (ha : p.alive = true) {o : Oid} {d : Nat}
    (hk : p.k = .provIngest o d) (hpc : p.pc = 0) : d ≤ (simAt env s0 n).st.cl.available.length := by
  have _ := hpk
  obtain ⟨hpm, _⟩ := proc?_some hpp
  have hinv := (simAt_reach env s0 n).l3inv N.hw
  have hd := (hinv.il.piLive p hpm ha hpc o d hk).1
  rw [hd]
  exact (nco_ingInv_P N h2 n hc).fit p hpm ha hpc o (by rw [hk]; rfl)

end Topsim

