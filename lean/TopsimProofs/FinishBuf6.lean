/-
  FinishBuf6 — `BufI` under the blocks that move no data: everything but the
  scheduler loop, `allocate_tasks`, the ingest stream, the tier moves and the
  ingest supervisor.
-/
import TopsimProofs.FinishBuf5

namespace Topsim
namespace Sys

theorem doWorkBlock_procs (s : Sys) (now : Time) (orc : Oracle) (t : Tid) (m : Mid) (preds : List Tid)
    (ph tot : Nat) : (s.doWorkBlock now orc t m preds ph tot).1.procs = s.procs := by
  rcases doWorkBlock_out s now orc t m preds ph tot with
    ⟨_, _, _, _, heq⟩ | ⟨_, _, _, _, _, heq⟩ | ⟨_, _, _, heq⟩ <;> rw [heq] <;> rfl

/-- the counting step for a block that leaves buffer and plans alone, run by a process that is
neither a stream nor a tier move -/
theorem bufi_quiet {s : Sys} (hs : SInv s) (h : BufI s) {p : Proc} (hp : p ∈ s.procs)
    (ha : p.alive = true) (orc : Oracle)
    (h1 : p.k.tag ≠ "schedLoop") (h2 : p.k.tag ≠ "ingestStream") (h3 : p.k.tag ≠ "allocTasks")
    (h4 : p.k.tag ≠ "hot2cold") (h5 : p.k.tag ≠ "cold2hot")
    (new : List Proc) (hprocs : (s.block p orc).1.procs = s.procs ++ new) (hpwX : PW (s.block p orc).1)
    (hnew : ∀ q ∈ new, q.k.tag ≠ "ingestStream" ∧ tok q = []) :
    BufI ((s.block p orc).1.updProc p.pid (fin (s.block p orc).2.1 (s.block p orc).2.2 p.wake)) := by
  have htag := block_tag s hs.pw p orc
  have hbuf := block_buf s p orc h1 h2 h3 h4 h5
  have hplans := block_plans s p orc h1 h3
  refine h.step_count hs.pw new hprocs hpwX hp ha _ _ hnew ?_ ?_ (block_obsMono s p orc) ?_
  · intro o tl e
    rw [e] at htag
    exact absurd htag.symm h2
  · intro x
    rw [hbuf, yTok_of_tag _ (by rw [htag]; exact h4) (by rw [htag]; exact h5), tokK_of_tag h4 h5]
    exact Nat.le_refl _
  · rw [hplans, hbuf]; exact h.planLoc

theorem hnew_of_tag {new : List Proc} {tg : String} (h : ∀ q ∈ new, q.k.tag = tg)
    (h1 : tg ≠ "ingestStream") (h2 : tg ≠ "hot2cold") (h3 : tg ≠ "cold2hot") :
    ∀ q ∈ new, q.k.tag ≠ "ingestStream" ∧ tok q = [] := by
  intro q hq
  have := h q hq
  exact ⟨by rw [this]; exact h1, tok_of_tag (by rw [this]; exact h2) (by rw [this]; exact h3)⟩

theorem hnew_of_shape {s X : Sys} (h : Shape s X) :
    ∃ new, X.procs = s.procs ++ new ∧ ∀ q ∈ new, q.k.tag ≠ "ingestStream" ∧ tok q = [] := by
  obtain ⟨new, hp, hn⟩ := h.newp
  refine ⟨new, hp, fun q hq => ?_⟩
  obtain ⟨_, _, _, _, _, _, h7, h8, h9⟩ := hn q hq
  exact ⟨h7, tok_of_none h8 h9⟩

end Sys
end Topsim
