/-
  BufTraj12 — the resident data never exceeds the volumes (rate × duration) of
  the observations that have begun (left WAITING) and have not been removed
  from the hot buffer.
-/
import TopsimProofs.BufTraj11

namespace Topsim
namespace Sys

open Buffer (resSum)

/-- the volumes of the observations that have left WAITING and are not yet removed -/
def begunVolume (s : Sys) : Int :=
  ((s.obs.filter (fun ob => ob.status != .waiting && !s.buf.hot.finished.contains ob.id)).map
    (fun ob => ob.rate * (ob.duration : Int))).sum

theorem sum_filter_map {α} (l : List α) (p : α → Bool) (f : α → Int) :
    ((l.filter p).map f).sum = (l.map (fun x => if p x then f x else 0)).sum := by
  induction l with
  | nil => rfl
  | cons a t ih =>
    by_cases h : p a = true <;> simp [h, ih]

/-- the resident data is at most the not-removed part of the sizes over any duplicate-free list
of observations outside of which nothing is recorded -/
theorem resSum_le_sum (fin : List Oid) (d : List (Oid × Int)) (hk : (dictKeys d).Nodup) (L : List Oid)
    (hnd : L.Nodup) (hz : ∀ k, k ∉ L → (dictGet d k).getD 0 = 0) :
    resSum fin d ≤ (L.map (fun x => if x ∈ fin then 0 else (dictGet d x).getD 0)).sum := by
  induction d with
  | nil =>
    have : (L.map (fun x => if x ∈ fin then 0 else (dictGet ([] : List (Oid × Int)) x).getD 0)).sum = 0 :=
      sum_map_zero _ _ (fun x _ => by simp [dictGet])
    rw [this]
    exact Int.le_refl _
  | cons p r ih =>
    obtain ⟨k, v⟩ := p
    simp only [dictKeys_cons, List.nodup_cons] at hk
    have hkr : dictGet r k = none := (dictGet_none_iff r k).mpr hk.1
    have hz' : ∀ k', k' ∉ L → (dictGet r k').getD 0 = 0 := by
      intro k' hk'
      by_cases e : k = k'
      · subst e; rw [hkr]; rfl
      · have := hz k' hk'
        simpa [dictGet, e] using this
    have hupd := sum_upd (fun x => if x ∈ fin then 0 else (dictGet r x).getD 0)
      (fun x => if x ∈ fin then 0 else (dictGet ((k, v) :: r) x).getD 0) k (if k ∈ fin then 0 else v) (by
      intro x
      by_cases e : x = k
      · subst e
        by_cases hf : x ∈ fin <;> simp [dictGet, hkr, hf]
      · have e' : ¬ k = x := fun h => e h.symm
        simp [dictGet, e, e']) L hnd
    rw [hupd]
    have hih := ih hk.2 hz'
    show (if k ∈ fin then 0 else v) + resSum fin r ≤ _
    by_cases hkL : k ∈ L
    · rw [if_pos hkL]; omega
    · rw [if_neg hkL]
      have hv : v = 0 := by
        have := hz k hkL
        simpa [dictGet] using this
      rw [hv]
      split <;> omega

theorem resident_le_begunVolume (s0 s : Sys) (hw : WFConfig s0) (hbuf : bufList s0.buf = [])
    (hfull : s0.buf.size = [] ∧ s0.buf.hot.cur = s0.buf.hot.total ∧ s0.buf.cold.cur = s0.buf.cold.total)
    (hrate : ∀ o ∈ s0.obs, 0 < o.rate) (h : ReachOk s0 s) (hc : s.crashed = none) :
    s.buf.residentData ≤ begunVolume s := by
  have hsz0 : s0.buf.size = [] ∧ s0.buf.hot.cur ≤ s0.buf.hot.total ∧ s0.buf.cold.cur ≤ s0.buf.cold.total :=
    ⟨hfull.1, by rw [hfull.2.1]; exact Int.le_refl _, by rw [hfull.2.2]; exact Int.le_refl _⟩
  obtain ⟨hb, _, hbi, hsi⟩ := reachOk_bufFacts s0 s hw hbuf hfull hrate h hc
  have hsp := reachOk_sp s0 s hw hbuf hsz0 hrate h hc
  have hnd := (reach_inv s0 s hw h).eg.obsNodup
  have hvol := deposited_le_volume s0 s hw hbuf hsz0 hrate h hc
  -- nothing is recorded for an observation that has not begun
  have hnb : ∀ o, ¬ Begun s.obs o → s.buf.sizeOf o = 0 := by
    intro o hno
    exact hsp.nz o (fun q hq tl hqk => hno (hb.strObs q hq o tl hqk))
  have hz : ∀ k, k ∉ s.obs.map (·.id) → (dictGet s.buf.size k).getD 0 = 0 := by
    intro k hk
    apply hnb k
    rintro ⟨ob, hob, _⟩
    have hm := List.mem_of_find?_eq_some hob
    have hid : ob.id = k := by simpa using List.find?_some hob
    exact hk (hid ▸ List.mem_map_of_mem hm)
  rw [Buffer.residentData_eq]
  refine Int.le_trans (resSum_le_sum s.buf.hot.finished s.buf.size hbi.keys (s.obs.map (·.id)) hnd hz) ?_
  unfold begunVolume
  rw [sum_filter_map, List.map_map]
  apply sum_map_le
  intro ob hob
  simp only [Function.comp]
  obtain ⟨v0, v1⟩ := hvol ob hob
  have hr : 0 ≤ ob.rate * ob.duration := Int.le_trans v0 v1
  by_cases hf : ob.id ∈ s.buf.hot.finished
  · rw [if_pos hf]
    split
    · exact hr
    · exact Int.le_refl _
  · rw [if_neg hf]
    by_cases hwt : ob.status = .waiting
    · have : s.buf.sizeOf ob.id = 0 := by
        apply hnb
        rintro ⟨ob', hob', hst⟩
        have h1 : s.obs? ob.id = some ob' := hob'
        rw [obs?_of_mem hnd hob] at h1
        injection h1 with h1
        subst h1
        exact hst hwt
      show s.buf.sizeOf ob.id ≤ _
      rw [this]
      split
      · exact hr
      · exact Int.le_refl _
    · have hcond : (ob.status != .waiting && !s.buf.hot.finished.contains ob.id) = true := by
        simp [hwt, hf]
      rw [if_pos hcond]
      exact v1

end Sys
end Topsim
