/-
  Live7f — progress of `allocate_tasks` (part 6), at block level: a process created by a block of
  `allocate_tasks` carries a task that goes from UNSCHEDULED to SCHEDULED in that block
  (`l7_ats_new`); a block that does not raise ran `_process_current_schedule` without error
  (`l7_iter_alloc_err`); and the progress of the block in a quiet state (`l7_progress`).
-/
import TopsimProofs.Live7e

namespace Topsim

open Sys

namespace Sys

/-! ### small facts -/

theorem l7_atStart_nextPid (s : Sys) (now : Time) (pc : Nat) (oid : Oid) :
    (atStart s now pc oid).nextPid = s.nextPid := by
  unfold Sys.atStart
  split
  · refine Eq.trans (?_ : _ = (s.updPlan oid (fun p => { p with ast := some (natNow now) })).nextPid) rfl
    have : ∀ (l : List Tid) (s1 : Sys), (l.foldl (fun (s : Sys) t =>
        s.updTask t (fun r => { r with offset := natNow now })) s1).nextPid = s1.nextPid := by
      intro l; induction l with
      | nil => intro s1; rfl
      | cons x r ih => intro s1; exact (ih _).trans rfl
    exact this _ _
  · rfl

theorem l7_releaseBatch_occ (c : Cluster) (o : Oid) :
    (c.releaseBatch o).occupied = c.occupied ∧ (c.releaseBatch o).ingest = c.ingest := by
  unfold Cluster.releaseBatch
  split
  · exact ⟨rfl, rfl⟩
  · simp only
    split <;> exact ⟨rfl, rfl⟩

theorem l7_queueRun_cl (cl : Cluster) (plan : Plan) (view : Tid → TaskView) (sc : List (Tid × Mid))
    (po : List Tid) (out : AlgOut) (h : Alg.queueRun cl plan view sc po = .ok out) :
    out.cl.occupied = cl.occupied ∧ out.cl.ingest = cl.ingest := by
  unfold Alg.queueRun at h
  injection h with h
  subst h
  simp only
  split
  · exact l7_releaseBatch_occ cl plan.obs
  · exact ⟨rfl, rfl⟩

theorem l7_task?_of_mem {s : Sys} {t : Tid} (h : ∃ r ∈ s.tasks, r.id = t) : ∃ r, s.task? t = some r := by
  cases hr : s.task? t with
  | some r => exact ⟨r, rfl⟩
  | none =>
    exfalso
    obtain ⟨r, hm, hid⟩ := h
    unfold task? at hr
    rw [List.find?_eq_none] at hr
    exact hr r hm (by simpa using hid)

/-! ### the processes a block of `allocate_tasks` creates -/

attribute [local irreducible] atS3 atStart Sys.updateCurrentPlan processCurrentSchedule in
theorem l7_ats_new {s : Sys} (hsu : SU s) (hno : s.alg ≠ .oracle) {p : Proc} (hp : p ∈ s.procs)
    (ha : p.alive = true) (orc : Oracle) {o : Oid} {sc pa : List (Tid × Mid)} {po : List Tid} {fn : Bool}
    (hk : p.k = .allocTasks o sc pa po fn) {new : List Proc}
    (hnew : (s.block p orc).1.procs = s.procs ++ new) :
    ∀ q ∈ new, ∃ t m cross, q.k = .allocTask t m cross (some o) false 0 ∧ tstat s t = .unscheduled ∧
      tstat (s.block p orc).1 t = .scheduled := by
  have hnil : ∀ X : Sys, X.procs = s.procs → X.procs = s.procs ++ new → ∀ q ∈ new, False := by
    intro X h1 h2 q hq
    have : new = [] := List.append_cancel_left (h2.symm.trans (h1.trans (List.append_nil _).symm))
    rw [this] at hq; simp at hq
  rw [block_allocTasks orc hk] at hnew ⊢
  cases fn with
  | true =>
    rw [allocTasksBlock_fin] at hnew
    exact fun q hq => (hnil s rfl hnew q hq).elim
  | false =>
    rw [allocTasksBlock_eq] at hnew ⊢
    have hts1 : ∀ t, tstat ((atStart s p.wake p.pc o).updateCurrentPlan o) t = tstat s t := fun t =>
      (updateCurrentPlan_tstat _ o t).trans (atStart_tstat s p.wake p.pc o t)
    have hp1 : ((atStart s p.wake p.pc o).updateCurrentPlan o).procs = s.procs :=
      (updateCurrentPlan_core _ o).procs.trans (atStart_procs s p.wake p.pc o)
    have halg1 : ((atStart s p.wake p.pc o).updateCurrentPlan o).alg ≠ .oracle := by
      rw [updateCurrentPlan_alg, atStart_alg]; exact hno
    obtain ⟨hnd0, _⟩ := hsu.sl p hp ha o sc pa po false hk
    have hout := allocTasksIter_out (atStart s p.wake p.pc o) p.wake orc o sc pa po
    generalize (atStart s p.wake p.pc o).allocTasksIter p.wake orc o sc pa po = r at hout hnew ⊢
    cases hout with
    | noPlan _ => exact fun q hq => (hnil _ hp1 hnew q hq).elim
    | algErr plan e _ _ => exact fun q hq => (hnil _ hp1 hnew q hq).elim
    | finish plan out _ _ _ _ _ _ =>
      exact fun q hq => (hnil _ ((atS3_procs _ out o).trans hp1) hnew q hq).elim
    | finishBad plan out _ _ _ _ _ _ =>
      exact fun q hq => (hnil _ ((atS3_procs _ out o).trans hp1) hnew q hq).elim
    | finishWait plan out _ _ _ _ _ =>
      exact fun q hq => (hnil _ ((atS3_procs _ out o).trans hp1) hnew q hq).elim
    | idle plan out _ _ _ _ =>
      exact fun q hq => (hnil _ ((atS3_procs _ out o).trans hp1) hnew q hq).elim
    | alloc plan out y hplan hrun _ _ =>
      obtain ⟨_, halgn⟩ := runAlgorithm_sched ((atStart s p.wake p.pc o).updateCurrentPlan o) orc plan sc po out
        halg1 hrun
      obtain ⟨new', hpcs⟩ := processCurrentSchedule_pcs (atS3 ((atStart s p.wake p.pc o).updateCurrentPlan o) out o)
        p.wake o out.schedule pa (halgn hnd0)
      generalize processCurrentSchedule (atS3 ((atStart s p.wake p.pc o).updateCurrentPlan o) out o) p.wake o
        out.schedule pa = st at hpcs hnew ⊢
      have hnn : new' = new := by
        have h1 := hpcs.procs
        rw [atS3_procs, hp1] at h1
        exact List.append_cancel_left (h1.symm.trans hnew)
      subst hnn
      intro q hq
      obtain ⟨_, _, t, m, cross, hqk, _, g1, g2, _⟩ := hpcs.newk q hq
      rw [atS3_tstat, hts1] at g1
      exact ⟨t, m, cross, hqk, g1, g2⟩

/-! ### no raise, no error in `_process_current_schedule` -/

theorem l7_iter_alloc_err (a : Sys) (now : Time) (orc : Oracle) (o : Oid) (sc pa : List (Tid × Mid))
    (po : List Tid) (plan : Plan) (out : AlgOut) (hplan : (a.updateCurrentPlan o).plan? o = some plan)
    (hrun : (a.updateCurrentPlan o).runAlgorithm orc plan sc po = .ok out)
    (hemp : out.schedule.isEmpty = false)
    (hnr : ∀ e, (a.allocTasksIter now orc o sc pa po).2.2 ≠ .raised e) :
    (processCurrentSchedule (atS3 (a.updateCurrentPlan o) out o) now o out.schedule pa).err = none := by
  cases he : (processCurrentSchedule (atS3 (a.updateCurrentPlan o) out o) now o out.schedule pa).err with
  | none => rfl
  | some e =>
    exfalso
    apply hnr e
    unfold allocTasksIter
    simp only [hplan, hrun]
    have hs3 : (if out.status = WStatus.delayed then
        { (({ (a.updateCurrentPlan o) with cl := out.cl }).updPlan o (fun p => { p with status := out.status })) with schedDelayed := true }
        else ({ (a.updateCurrentPlan o) with cl := out.cl }).updPlan o (fun p => { p with status := out.status }))
        = atS3 (a.updateCurrentPlan o) out o := rfl
    rw [hs3]
    simp only [hemp, Bool.false_eq_true, false_and, if_false]
    rw [he]

end Sys

end Topsim
