/-
  BufTraj8 — progress of an ingest stream (`SP`): after `j` blocks the stream of
  observation `o` has deposited `j × rate`, is due at `ast + j`, counts
  `duration - 1 - j` and its observation is still RUNNING; a stream that has
  ended has deposited `rate × duration`; nothing is recorded for an observation
  that has no stream yet.  Generic step, and the stream's own block.
-/
import TopsimProofs.BufTraj7

namespace Topsim
namespace Sys

/-- the state of the stream `q` of observation `o` (counter `tl`) -/
def StrOk (s : Sys) (q : Proc) (o : Oid) (tl : Int) : Prop :=
  ∃ ob, s.obs? o = some ob ∧
    (q.pc = 0 → s.buf.sizeOf o = 0) ∧
    (1 ≤ q.pc → q.alive = true → ∃ a : Nat, ob.ast = some a ∧ ob.status = .running ∧
      q.wake = ((a + q.pc : Nat) : Time) ∧ tl = (ob.duration : Int) - 1 - q.pc ∧ 0 ≤ tl ∧
      s.buf.sizeOf o = ob.rate * q.pc) ∧
    (1 ≤ q.pc → q.alive = false → s.buf.sizeOf o = ob.rate * ob.duration)

structure SP (s : Sys) : Prop where
  nz : ∀ o, (∀ q ∈ s.procs, ∀ tl, q.k ≠ .ingestStream o tl) → s.buf.sizeOf o = 0
  str : ∀ q ∈ s.procs, ∀ o tl, q.k = .ingestStream o tl → StrOk s q o tl

theorem SP.stepP {s Y : Sys} (h : SP s) (hb : BufI s) (hpw : PW s) {p p' : Proc} (hp : p ∈ s.procs)
    {new : List Proc} (hm : MemSpec s Y p p' new)
    (hsize : ∀ o, (∀ tl, p.k ≠ .ingestStream o tl) → Y.buf.sizeOf o = s.buf.sizeOf o)
    (hobs : ∀ q ∈ s.procs, q.pid ≠ p.pid → ∀ o tl, q.k = .ingestStream o tl → ∀ ob, s.obs? o = some ob →
      ∃ ob', Y.obs? o = some ob' ∧ ob'.rate = ob.rate ∧ ob'.duration = ob.duration ∧
        (1 ≤ q.pc → q.alive = true → ob.status = .running → ob'.ast = ob.ast ∧ ob'.status = .running))
    (hnew : ∀ q ∈ new, ∀ o tl, q.k = .ingestStream o tl → q.pc = 0 ∧ (∃ ob, Y.obs? o = some ob) ∧
      ∀ q0 ∈ s.procs, ∀ tl0, q0.k ≠ .ingestStream o tl0)
    (hself : ∀ o tl, p'.k = .ingestStream o tl → StrOk Y p' o tl)
    (hkeep : ∀ o tl, p.k = .ingestStream o tl → ∃ tl', p'.k = .ingestStream o tl') : SP Y := by
  constructor
  · intro o hno
    have hno_s : ∀ q ∈ s.procs, ∀ tl, q.k ≠ .ingestStream o tl := by
      intro q hq tl hqk
      rcases hm.old hpw hp hq with rfl | hq'
      · obtain ⟨tl', e⟩ := hkeep o tl hqk
        exact hno p' ((hm p').mpr (Or.inl rfl)) tl' e
      · exact hno q hq' tl hqk
    rw [hsize o (fun tl => hno_s p hp tl)]
    exact h.nz o hno_s
  · intro q hq o tl hqk
    rcases (hm q).mp hq with rfl | ⟨hq0, hne⟩ | hqn
    · exact hself o tl hqk
    · obtain ⟨ob, hob, a0, a1, a2⟩ := h.str q hq0 o tl hqk
      have hpk : ∀ tl2, p.k ≠ .ingestStream o tl2 := fun tl2 e =>
        hne (hb.strUniq q hq0 p hp o tl tl2 hqk e)
      have hsz := hsize o hpk
      obtain ⟨ob', hob', hr, hd, hrun⟩ := hobs q hq0 hne o tl hqk ob hob
      refine ⟨ob', hob', fun h0 => by rw [hsz]; exact a0 h0, fun h1 ha => ?_, fun h1 ha => ?_⟩
      · obtain ⟨a, g1, g2, g3, g4, g5, g6⟩ := a1 h1 ha
        obtain ⟨e1, e2⟩ := hrun h1 ha g2
        exact ⟨a, by rw [e1]; exact g1, e2, g3, by rw [hd]; exact g4, g5, by rw [hsz, hr]; exact g6⟩
      · rw [hsz, hr, hd]; exact a2 h1 ha
    · obtain ⟨h0, ⟨ob, hob⟩, hfresh⟩ := hnew q hqn o tl hqk
      refine ⟨ob, hob, fun _ => ?_, fun h1 => by omega, fun h1 => by omega⟩
      rw [hsize o (fun tl2 => hfresh p hp tl2)]
      exact h.nz o hfresh

/-! ### the stream's own block -/

theorem store_sizeOf (b : Buffer) (o : Oid) (n : Nat) (x : Oid) : (b.store o n).sizeOf x = b.sizeOf x := rfl

/-- an iteration of the stream whose observation is RUNNING, when it does not raise -/
theorem ingestStreamIter_run (s : Sys) (now : Time) (oid : Oid) (tl : Int) (ob : Obs)
    (hob : s.obs? oid = some ob) (hrun : ob.status = .running)
    (hnr : ∀ e, (s.ingestStreamIter now oid tl).2.2 ≠ .raised e) :
    (∀ x, (s.ingestStreamIter now oid tl).1.buf.sizeOf x
      = if x = oid then s.buf.sizeOf oid + ob.rate else s.buf.sizeOf x) ∧
    ((0 < tl ∧ (s.ingestStreamIter now oid tl).2.1 = .ingestStream oid (tl - 1) ∧
        (s.ingestStreamIter now oid tl).2.2 = .timeout 1) ∨
     (¬ 0 < tl ∧ (s.ingestStreamIter now oid tl).2.1 = .ingestStream oid tl ∧
        (s.ingestStreamIter now oid tl).2.2 = .done)) := by
  unfold ingestStreamIter at hnr ⊢
  simp only [hob, hrun, if_true] at hnr ⊢
  cases hd : s.buf.deposit oid ob.rate with
  | mk b1 e1 =>
    rw [hd] at hnr
    cases e1 with
    | some e => exact absurd rfl (hnr e)
    | none =>
      have hdep := deposit_ok s.buf oid ob.rate (by rw [hd])
      rw [hd] at hdep
      simp only at hdep ⊢
      by_cases htl : tl > 0
      · rw [if_pos htl]
        exact ⟨hdep.2.2.2.2, Or.inl ⟨htl, rfl, rfl⟩⟩
      · rw [if_neg htl]
        exact ⟨fun x => by rw [store_sizeOf]; exact hdep.2.2.2.2 x, Or.inr ⟨htl, rfl, rfl⟩⟩

theorem ingestStreamBlock_first (s : Sys) (now : Time) (oid : Oid) (tl : Int) (ob : Obs)
    (hob : s.obs? oid = some ob) (hst : ob.status ≠ .waiting) :
    s.ingestStreamBlock now 0 oid tl
      = (s.addBuf ⟨natNow now, oid, .bufAdded⟩).ingestStreamIter now oid ((ob.duration : Int) - 1) := by
  unfold ingestStreamBlock
  simp only [hob, hst, if_true, if_false]

theorem ingestStreamBlock_later (s : Sys) (now : Time) (pc : Nat) (oid : Oid) (tl : Int) (hpc : pc ≠ 0) :
    s.ingestStreamBlock now pc oid tl = s.ingestStreamIter now oid tl := by
  unfold ingestStreamBlock
  simp only [hpc, if_false]

/-! ### the record of an observation after the telescope's block -/

theorem ORel.fwd2 {n : Nat} {a b : List Obs} (h : ORel n a b) (hnd : (a.map (·.id)).Nodup) {o : Oid} {ob : Obs}
    (ho : a.find? (fun r => decide (r.id = o)) = some ob) :
    ∃ ob', b.find? (fun r => decide (r.id = o)) = some ob' ∧ ob'.rate = ob.rate ∧ ob'.duration = ob.duration ∧
      (ob'.status = ob.status ∨ ob'.status = .finished) ∧
      (ob.status ≠ .waiting → ob'.status ≠ .waiting ∧ ob'.ast = ob.ast) ∧
      (ob'.status = .finished → ob.status = .finished ∨ ∃ x, ob.ast = some x ∧ x + ob.duration ≤ n) := by
  have hom : ob ∈ a := List.mem_of_find?_eq_some ho
  have hoid : ob.id = o := by simpa using List.find?_some ho
  have : o ∈ b.map (·.id) := by rw [h.ids, ← hoid]; exact List.mem_map_of_mem hom
  obtain ⟨ob', hob', hid'⟩ := List.mem_map.mp this
  obtain ⟨ob0, hob0, i, r, d, _, st, w, f⟩ := h.rel ob' hob'
  have : ob0 = ob := eq_of_map_nodup hnd hob0 hom (by rw [← i, hid', hoid])
  subst this
  refine ⟨ob', ?_, r, d, st, w, f⟩
  have hndb : (b.map (·.id)).Nodup := by rw [h.ids]; exact hnd
  have := find?_of_mem_nodup (f := fun r : Obs => r.id) hndb hob'
  rw [← hid']; exact this

end Sys
end Topsim
