/-
  LiveB2 — BatchProcessing: what `BatchProcessing.run` does to the pool and to the keys of the
  schedule (`l7_batchRun`, the counterpart of `l7_queueRun`), for every run of the algorithm of a
  batch configuration (`l7_runAlg_B`).
-/
import TopsimProofs.Live7f
import TopsimProofs.LiveB5
import TopsimProofs.Reserve7

namespace Topsim

open Sys

/-- what `BatchProcessing.run` returns, with the two local sets of its loop (both empty when no
reservation could be made) -/
theorem l7_batchRun (cl : Cluster) (plan : Plan) (view : Tid → TaskView) (parts minPer : Nat)
    (split : Option (List (Oid × Nat × Nat))) (sc : List (Tid × Mid))
    (po : List Tid) (out : AlgOut) (h : Alg.batchRun cl plan view parts minPer split sc po = .ok out) :
    ∃ removed added : List Tid,
      (∀ k ∈ dictKeys sc, k ∈ dictKeys out.schedule) ∧
      (∀ t ∈ removed, t ∈ dictKeys out.schedule) ∧
      (∀ t ∈ removed, ∀ x ∈ plan.succs t, x ∈ added) ∧
      (∀ k ∈ dictKeys out.schedule, k ∈ dictKeys sc ∨ k ∈ removed) ∧
      (∀ t, t ∈ out.pool ↔ (t ∈ Alg.seedPool plan po ∧ t ∉ removed) ∨ t ∈ added) ∧
      out.status = Alg.finishStatus plan plan.status := by
  unfold Alg.batchRun at h
  split at h
  · cases h
  · rename_i cl1 prov hpr
    injection h with h
    subst h
    cases prov with
    | false =>
      refine ⟨[], [], fun k hk => hk, fun t ht => by simp at ht, fun t ht => by simp at ht,
        fun k hk => Or.inl hk, fun t => ?_, rfl⟩
      exact Alg.mem_updatePool _ _ _ t
    | true =>
      have hinv := foldl_inv (Alg.firstFreeStep cl1 plan view (cl1.idleOf (some plan.obs)).length)
        (Alg.L7FF plan sc)
        (fun s a hs => Alg.l7_ff_step cl1 plan view _ sc s a hs)
        (plan.tasks.filter (fun t => (Alg.seedPool plan po).contains t))
        { alloc := sc, temp := cl1.idleOf (some plan.obs), removed := [], added := [], status := plan.status }
        ⟨fun k hk => hk, fun t ht => by simp at ht, fun t ht => by simp at ht, fun k hk => Or.inl hk⟩
      exact ⟨_, _, hinv.old, hinv.rem, hinv.add, hinv.new, fun t => Alg.mem_updatePool _ _ _ t, rfl⟩

/-- the same for `runAlgorithm` in a state of a batch configuration -/
theorem l7_runAlg_B {s1 : Sys} (hb : s1.BatchAlg) (orc : Oracle) (plan : Plan) (sc : List (Tid × Mid))
    (po : List Tid) (out : AlgOut) (hrun : s1.runAlgorithm orc plan sc po = .ok out) :
    ∃ removed added : List Tid,
      (∀ k ∈ dictKeys sc, k ∈ dictKeys out.schedule) ∧
      (∀ t ∈ removed, t ∈ dictKeys out.schedule) ∧
      (∀ t ∈ removed, ∀ x ∈ plan.succs t, x ∈ added) ∧
      (∀ k ∈ dictKeys out.schedule, k ∈ dictKeys sc ∨ k ∈ removed) ∧
      (∀ t, t ∈ out.pool ↔ (t ∈ Alg.seedPool plan po ∧ t ∉ removed) ∨ t ∈ added) ∧
      out.status = Alg.finishStatus plan plan.status := by
  obtain ⟨parts, minPer, split, e⟩ := hb
  unfold runAlgorithm at hrun
  rw [e] at hrun
  exact l7_batchRun _ _ _ _ _ _ _ _ _ hrun

/-! ### provisioning: the pools `occupied` and `ingest`, the idle list of the reservation -/

namespace Sys

open Cluster

theorem lb_addIdleResource_occ (c : Cluster) (o : Oid) (m : Mid) :
    (c.addIdleResource o m).1.occupied = c.occupied ∧ (c.addIdleResource o m).1.ingest = c.ingest := by
  unfold addIdleResource
  by_cases h1 : dictHas c.idle o = true <;> by_cases h2 : m ∈ c.available <;> simp [h1, h2]

theorem lb_addIdleAll_occ (c : Cluster) (o : Oid) (ms : List Mid) :
    (c.addIdleAll o ms).1.occupied = c.occupied ∧ (c.addIdleAll o ms).1.ingest = c.ingest := by
  induction ms generalizing c with
  | nil => exact ⟨rfl, rfl⟩
  | cons m rest ih =>
    unfold addIdleAll
    have h1 := lb_addIdleResource_occ c o m
    generalize c.addIdleResource o m = r at h1
    obtain ⟨c1, e1⟩ := r
    cases e1 with
    | some e => exact h1
    | none =>
      have h2 := ih c1
      simp only at h1 h2 ⊢
      exact ⟨h2.1.trans h1.1, h2.2.trans h1.2⟩

theorem lb_provisionBatch_occ (c : Cluster) (n : Nat) (o : Oid) :
    (c.provisionBatch n o).1.occupied = c.occupied ∧ (c.provisionBatch n o).1.ingest = c.ingest := by
  unfold provisionBatch
  simp only
  generalize (if n > c.available.length ∧ c.available.length > 0 then c.available.length else n) = s'
  by_cases hs : s' > c.available.length
  · simp only [hs, if_true]; exact ⟨trivial, trivial⟩
  · simp only [hs, if_false]
    have h1 := lb_addIdleAll_occ c o (c.available.take s')
    generalize c.addIdleAll o (c.available.take s') = r at h1
    obtain ⟨c1, e1⟩ := r
    cases e1 <;> exact h1

/-- `_provision_resources` that returns False leaves the cluster alone -/
theorem lb_provisionResources_false (cl cl1 : Cluster) (parts minPer : Nat)
    (split : Option (List (Oid × Nat × Nat))) (o : Oid)
    (h : Alg.provisionResources cl parts minPer split o = .ok (cl1, false)) : cl1 = cl := by
  rcases provisionResources_cases cl cl1 parts minPer split o false h with e | ⟨_, _, e, _⟩
  · exact e
  · cases e

theorem lb_provisionResources_occ (cl cl1 : Cluster) (parts minPer : Nat)
    (split : Option (List (Oid × Nat × Nat))) (o : Oid) (b : Bool)
    (h : Alg.provisionResources cl parts minPer split o = .ok (cl1, b)) :
    cl1.occupied = cl.occupied ∧ cl1.ingest = cl.ingest := by
  rcases provisionResources_cases cl cl1 parts minPer split o b h with e | ⟨_, _, _, n, _, _, _, hpb⟩
  · rw [e]; exact ⟨rfl, rfl⟩
  · have := lb_provisionBatch_occ cl n o
    rw [hpb] at this
    exact this

/-- `_provision_resources` that returns True: the reservation of the observation has an idle
machine — the one it already had, or the `n ≥ 1` machines just taken from the available pool -/
theorem lb_provisionResources_true_idle (cl cl1 : Cluster) (parts minPer : Nat)
    (split : Option (List (Oid × Nat × Nat))) (o : Oid) (hnd : cl.available.Nodup)
    (hres : ∀ l, dictGet cl.idle o = some l → l ≠ [])
    (h : Alg.provisionResources cl parts minPer split o = .ok (cl1, true)) :
    cl1.idleOf (some o) ≠ [] := by
  by_cases hp : cl.isProvisioned o = true
  · have e : cl1 = cl := by
      unfold Alg.provisionResources at h
      rw [if_pos hp] at h
      injection h with h; injection h with h1 _; exact h1.symm
    rw [e]
    unfold isProvisioned dictHas at hp
    obtain ⟨l, hl⟩ := Option.isSome_iff_exists.mp hp
    unfold idleOf
    simp only [hl, Option.getD_some]
    exact hres l hl
  · have hp' : cl.isProvisioned o = false := by simpa using hp
    rcases provisionResources_cases cl cl1 parts minPer split o true h with e | ⟨_, _, _, n, hn1, _, hmax, hpb⟩
    · -- the cluster is unchanged: impossible, the result would be False
      exfalso
      unfold Alg.provisionResources at h
      rw [if_neg hp] at h
      split at h
      · split at h
        · cases h
        · split at h
          · injection h with h; injection h with _ h2; cases h2
          · rename_i n hmax hge
            generalize hpb : cl.provisionBatch n o = r at h
            obtain ⟨c2, e2⟩ := r
            cases e2 with
            | some e' => cases h
            | none =>
              simp only at h
              injection h with h; injection h with h1 _
              have hle := (maxResourceProvision_bounds cl parts split o n hmax).1
              obtain ⟨t1, t2, _⟩ := provisionBatch_takes cl c2 n o (by simpa [isProvisioned] using hp') hnd
                (by omega) hle hpb
              rw [h1, e] at t2
              have hlen := congrArg List.length t2
              rw [List.length_drop] at hlen
              omega
      · injection h with h; injection h with _ h2; cases h2
    · have hle := (maxResourceProvision_bounds cl parts split o n hmax).1
      obtain ⟨t1, _, _⟩ := provisionBatch_takes cl cl1 n o (by simpa [isProvisioned] using hp') hnd hn1 hle hpb
      rw [t1]
      intro e
      have := congrArg List.length e
      rw [List.length_take, List.length_nil] at this
      omega

end Sys

/-! ### progress of `BatchProcessing.run` -/

theorem l7_batchRun_cl (cl : Cluster) (plan : Plan) (view : Tid → TaskView) (parts minPer : Nat)
    (split : Option (List (Oid × Nat × Nat))) (sc : List (Tid × Mid))
    (po : List Tid) (out : AlgOut) (h : Alg.batchRun cl plan view parts minPer split sc po = .ok out) :
    out.cl.occupied = cl.occupied ∧ out.cl.ingest = cl.ingest := by
  unfold Alg.batchRun at h
  split at h
  · cases h
  · rename_i cl1 prov hpr
    injection h with h
    subst h
    obtain ⟨g1, g2⟩ := Sys.lb_provisionResources_occ _ _ _ _ _ _ _ hpr
    simp only
    split
    · obtain ⟨r1, r2⟩ := Sys.l7_releaseBatch_occ cl1 plan.obs
      exact ⟨r1.trans g1, r2.trans g2⟩
    · exact ⟨g1, g2⟩

/-- with a plan that is not empty, a run that cannot reserve leaves the cluster alone -/
theorem l7_batchRun_refused (cl : Cluster) (plan : Plan) (view : Tid → TaskView) (parts minPer : Nat)
    (split : Option (List (Oid × Nat × Nat))) (sc : List (Tid × Mid))
    (po : List Tid) (out : AlgOut) (h : Alg.batchRun cl plan view parts minPer split sc po = .ok out)
    (hpr : Alg.provisionResources cl parts minPer split plan.obs = .ok (cl, false))
    (hne : plan.tasks ≠ []) : out.cl = cl := by
  unfold Alg.batchRun at h
  rw [hpr] at h
  simp only at h
  injection h with h
  subst h
  simp only
  rw [if_neg]
  intro e
  exact hne (List.length_eq_zero_iff.mp e)

/-- **progress of `BatchProcessing.run`**: a ready task in the pool is proposed as soon as the
observation holds (or gets) a reservation with an idle machine -/
theorem l7_batch_progress (cl : Cluster) (plan : Plan) (view : Tid → TaskView) (parts minPer : Nat)
    (split : Option (List (Oid × Nat × Nat))) (sc : List (Tid × Mid))
    (po : List Tid) (out : AlgOut) (t : Tid) (ht : t ∈ plan.tasks) (hp : t ∈ Alg.seedPool plan po)
    (hu : (view t).status = .unscheduled) (hready : Alg.predsFinished cl plan t = true)
    (hnd : cl.available.Nodup) (hres : ∀ l, dictGet cl.idle plan.obs = some l → l ≠ [])
    (h : Alg.batchRun cl plan view parts minPer split sc po = .ok out) :
    out.schedule ≠ [] ∨ Alg.provisionResources cl parts minPer split plan.obs = .ok (cl, false) := by
  unfold Alg.batchRun at h
  split at h
  · cases h
  · rename_i cl1 prov hpr
    injection h with h
    subst h
    cases prov with
    | false =>
      right
      rw [hpr, Sys.lb_provisionResources_false _ _ _ _ _ _ hpr]
    | true =>
      left
      have hidle := Sys.lb_provisionResources_true_idle cl cl1 parts minPer split plan.obs hnd hres hpr
      have hlen : 1 ≤ (cl1.idleOf (some plan.obs)).length := by
        cases hc : cl1.idleOf (some plan.obs) with
        | nil => exact absurd hc hidle
        | cons a r => simp
      have hready1 : Alg.predsFinished cl1 plan t = true := by
        unfold Alg.predsFinished at hready ⊢
        rw [List.all_eq_true] at hready ⊢
        intro u hu'
        rw [isTaskFinished_congr cl1 cl (provisionResources_finished cl cl1 parts minPer split plan.obs true hpr)]
        exact hready u hu'
      apply Sys.firstFree_fold_progress cl1 plan view (cl1.idleOf (some plan.obs)).length t hlen hu hready1
      · simp [List.mem_filter, ht, hp]
      · exact Or.inr ⟨rfl, hidle⟩

/-- a leftover schedule alone makes the new schedule non-empty -/
theorem l7_batch_leftover (cl : Cluster) (plan : Plan) (view : Tid → TaskView) (parts minPer : Nat)
    (split : Option (List (Oid × Nat × Nat))) (sc : List (Tid × Mid))
    (po : List Tid) (out : AlgOut) (hsc : sc ≠ [])
    (h : Alg.batchRun cl plan view parts minPer split sc po = .ok out) : out.schedule ≠ [] := by
  obtain ⟨_, _, h1, _⟩ := l7_batchRun cl plan view parts minPer split sc po out h
  obtain ⟨x, hx⟩ := List.exists_mem_of_ne_nil _ (l7_keys_ne_nil hsc)
  intro e
  have := h1 x hx
  rw [e] at this
  simp at this

end Topsim
