/-
  FinishAT4 — what `BatchProcessing.run` returns: the tasks it proposes, the
  plan status, the reservation calls it makes.
-/
import TopsimProofs.FinishAT3

namespace Topsim
namespace Sys

theorem firstFreeStep_keys (cl : Cluster) (plan : Plan) (view : Tid → TaskView) (mx : Nat)
    (st : Alg.LoopSt) (t : Tid) :
    (∀ k ∈ dictKeys (Alg.firstFreeStep cl plan view mx st t).alloc,
      k ∈ dictKeys st.alloc ∨ (k = t ∧ (view t).status = .unscheduled)) ∧
    ((dictKeys st.alloc).Nodup → (dictKeys (Alg.firstFreeStep cl plan view mx st t).alloc).Nodup) := by
  unfold Alg.firstFreeStep
  split
  · exact ⟨fun k hk => Or.inl hk, fun h => h⟩
  · split
    · exact ⟨fun k hk => Or.inl hk, fun h => h⟩
    · split
      · split
        · rename_i hun
          split
          · exact ⟨fun k hk => Or.inl hk, fun h => h⟩
          · split
            · refine ⟨fun k hk => ?_, fun h => dictKeys_nodup_dictSet _ _ _ h⟩
              rcases mem_dictKeys_dictSet _ _ _ _ hk with e | e
              · exact Or.inr ⟨e, hun⟩
              · exact Or.inl e
            · exact ⟨fun k hk => Or.inl hk, fun h => h⟩
        · exact ⟨fun k hk => Or.inl hk, fun h => h⟩
      · exact ⟨fun k hk => Or.inl hk, fun h => h⟩

theorem firstFreeFold_keys (cl : Cluster) (plan : Plan) (view : Tid → TaskView) (mx : Nat) (l : List Tid)
    (st : Alg.LoopSt) :
    (∀ k ∈ dictKeys (l.foldl (Alg.firstFreeStep cl plan view mx) st).alloc,
      k ∈ dictKeys st.alloc ∨ (k ∈ l ∧ (view k).status = .unscheduled)) ∧
    ((dictKeys st.alloc).Nodup → (dictKeys (l.foldl (Alg.firstFreeStep cl plan view mx) st).alloc).Nodup) := by
  induction l generalizing st with
  | nil => exact ⟨fun k hk => Or.inl hk, fun h => h⟩
  | cons x r ih =>
    simp only [List.foldl_cons]
    obtain ⟨h1, h2⟩ := firstFreeStep_keys cl plan view mx st x
    obtain ⟨g1, g2⟩ := ih (Alg.firstFreeStep cl plan view mx st x)
    refine ⟨fun k hk => ?_, fun h => g2 (h2 h)⟩
    rcases g1 k hk with e | ⟨e1, e2⟩
    · rcases h1 k e with e' | ⟨e1, e2⟩
      · exact Or.inl e'
      · exact Or.inr ⟨by rw [e1]; simp, by rw [e1]; exact e2⟩
    · exact Or.inr ⟨List.mem_cons_of_mem _ e1, e2⟩

/-- the facts about `BatchProcessing.run` the invariants use -/
theorem batchRun_facts (cl : Cluster) (plan : Plan) (view : Tid → TaskView) (parts minPer : Nat)
    (split : Option (List (Oid × Nat × Nat))) (sched : List (Tid × Mid)) (pool : List Tid) (out : AlgOut)
    (h : Alg.batchRun cl plan view parts minPer split sched pool = .ok out) :
    (∀ k ∈ dictKeys out.schedule, k ∈ dictKeys sched ∨ (k ∈ plan.tasks ∧ (view k).status = .unscheduled)) ∧
    ((dictKeys sched).Nodup → (dictKeys out.schedule).Nodup) ∧
    out.status = Alg.finishStatus plan plan.status ∧
    ∃ c1, (c1 = cl ∨ ∃ n, c1 = (cl.provisionBatch n plan.obs).1 ∧ (cl.provisionBatch n plan.obs).2 = none) ∧
      (out.cl = c1 ∨ (plan.tasks.length = 0 ∧ out.cl = c1.releaseBatch plan.obs)) := by
  unfold Alg.batchRun at h
  split at h
  · exact absurd h (by simp)
  · rename_i cl1 prov hpr
    injection h with h
    subst h
    simp only
    have hc1 : cl1 = cl ∨ ∃ n, cl1 = (cl.provisionBatch n plan.obs).1 ∧ (cl.provisionBatch n plan.obs).2 = none := by
      unfold Alg.provisionResources at hpr
      split at hpr
      · injection hpr with hpr; injection hpr with e _; exact Or.inl e.symm
      · split at hpr
        · split at hpr
          · exact absurd hpr (by simp)
          · rename_i n _
            split at hpr
            · injection hpr with hpr; injection hpr with e _; exact Or.inl e.symm
            · generalize hpb : cl.provisionBatch n plan.obs = r at hpr
              obtain ⟨c2, e2⟩ := r
              cases e2 with
              | some e => exact absurd hpr (by simp)
              | none =>
                simp only at hpr
                injection hpr with hpr; injection hpr with e _
                exact Or.inr ⟨n, by rw [hpb, e], by rw [hpb]⟩
        · injection hpr with hpr; injection hpr with e _; exact Or.inl e.symm
    refine ⟨?_, ?_, trivial, cl1, hc1, ?_⟩
    · intro k hk
      split at hk
      · rcases (firstFreeFold_keys cl1 plan view _ _ _).1 k hk with e | ⟨e1, e2⟩
        · exact Or.inl e
        · exact Or.inr ⟨(List.mem_filter.mp e1).1, e2⟩
      · exact Or.inl hk
    · intro hnd
      split
      · exact (firstFreeFold_keys cl1 plan view _ _ _).2 hnd
      · exact hnd
    · split
      · rename_i h0; exact Or.inr ⟨h0, rfl⟩
      · exact Or.inl rfl

end Sys
end Topsim
