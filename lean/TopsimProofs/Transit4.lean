/-
  Transit4 — the hot tier and `move_cold_to_hot`: the mirror image of Transit1/2.

  Along every run with at most one cold→hot move alive (and no hot→cold move beside it) the hot
  tier's transfer slot holds the observation of the move in flight (`transit_slotHot_reach`), so
  wherever `HotBuffer.has_capacity_for` holds of a size, that size fits on top of what is still in
  transit to the hot tier (`transit_hot_room`).

  NB the admission test does NOT call `HotBuffer.has_capacity_for`: `check_buffer_capacity`
  compares the volume with `hot.current_capacity` directly.  See Transit5 for the consequence.
-/
import TopsimProofs.Transit3

namespace Topsim
namespace Sys

/-! ### the hot tier's slot after a block of `move_cold_to_hot` -/

theorem transit_c2hStep_slot (b b1 : Buffer) (o : Oid) (l l' : Int)
    (h : b.cold2hotStep o l = (b1, .ok l')) (hl : 0 < l') : b1.hot.transfer = some o := by
  simp only [Buffer.cold2hotStep] at h
  generalize Buffer.recvAmount b.moveRate l (b.sizeOf o) = ra at h
  generalize Buffer.sendAmount b.moveRate l (b.sizeOf o) = sa at h
  obtain ⟨take, check⟩ := ra
  obtain ⟨give, left'⟩ := sa
  simp only at h
  by_cases he : check ≠ left'
  · rw [if_pos he] at h
    cases h
  · rw [if_neg he] at h
    have he' : check = left' := by
      by_cases e : check = left'
      · exact e
      · exact absurd e he
    injection h with h1 h2
    injection h2 with h2
    subst h2
    have hc : ¬ check = 0 := by omega
    rw [← h1]
    simp [hc]

theorem transit_c2hIter_slot (s : Sys) (now : Time) (o : Oid) (l : Int) (d : Time)
    (hy : (s.cold2hotIter now o l).2.2 = .timeout d) :
    ∃ l', (s.cold2hotIter now o l).2.1 = .cold2hot (some (o, l')) ∧
      (0 < l' → (s.cold2hotIter now o l).1.buf.hot.transfer = some o) := by
  unfold cold2hotIter at hy ⊢
  by_cases h0 : l ≤ 0
  · simp only [h0, if_true] at hy
    cases hy
  · simp only [h0, if_false] at hy ⊢
    cases hr : s.buf.cold2hotStep o l with
    | mk b1 res =>
      rw [hr] at hy
      cases res with
      | error e => simp at hy
      | ok l' =>
        simp only
        exact ⟨l', rfl, fun hl => transit_c2hStep_slot s.buf b1 o l l' hr hl⟩

theorem transit_c2hBlock_slot (s : Sys) (now : Time) (cur : Option (Oid × Int)) (d : Time)
    (hy : (s.cold2hotBlock now cur).2.2 = .timeout d) :
    ∃ o l', (s.cold2hotBlock now cur).2.1 = .cold2hot (some (o, l')) ∧
      (0 < l' → (s.cold2hotBlock now cur).1.buf.hot.transfer = some o) := by
  unfold cold2hotBlock at hy ⊢
  cases cur with
  | some ol =>
    obtain ⟨o, l⟩ := ol
    exact ⟨o, transit_c2hIter_slot s now o l d hy⟩
  | none =>
    simp only at hy ⊢
    cases hb : s.buf.cold2hotBegin with
    | mk b1 res =>
      rw [hb] at hy
      match res, hy with
      | .error e, hy => cases hy
      | .ok none, hy => cases hy
      | .ok (some (o, l)), hy => exact ⟨o, transit_c2hIter_slot _ now o l d hy⟩

/-! ### blocks that are no tier move leave the hot tier's slot alone -/

theorem transit_deposit_hotTransfer (b : Buffer) (o : Oid) (r : Int) :
    (b.deposit o r).1.hot.transfer = b.hot.transfer := by
  unfold Buffer.deposit; split <;> rfl

theorem transit_next_hotTransfer (b : Buffer) : b.nextForProcessing.1.hot.transfer = b.hot.transfer := by
  unfold Buffer.nextForProcessing; split <;> rfl

theorem transit_ingestStreamIter_hotTransfer (s : Sys) (now : Time) (oid : Oid) (tl : Int) :
    (s.ingestStreamIter now oid tl).1.buf.hot.transfer = s.buf.hot.transfer := by
  unfold ingestStreamIter
  split
  · rfl
  · rename_i o _
    split
    · have hd := transit_deposit_hotTransfer s.buf oid o.rate
      cases hdep : s.buf.deposit oid o.rate with
      | mk b1 e1 =>
        rw [hdep] at hd
        simp only at hd
        cases e1 with
        | some e => exact hd
        | none =>
          simp only
          split
          · exact hd
          · exact hd
    · rfl

theorem transit_ingestStreamBlock_hotTransfer (s : Sys) (now : Time) (pc : Nat) (oid : Oid) (tl : Int) :
    (s.ingestStreamBlock now pc oid tl).1.buf.hot.transfer = s.buf.hot.transfer := by
  unfold ingestStreamBlock
  split
  · split
    · rfl
    · split
      · rfl
      · exact transit_ingestStreamIter_hotTransfer _ _ _ _
  · exact transit_ingestStreamIter_hotTransfer _ _ _ _

theorem transit_block_hotTransfer (s : Sys) (p : Proc) (orc : Oracle) (h4 : p.k.tag ≠ "hot2cold")
    (h5 : p.k.tag ≠ "cold2hot") : (s.block p orc).1.buf.hot.transfer = s.buf.hot.transfer := by
  have quiet : p.k.tag ≠ "schedLoop" → p.k.tag ≠ "ingestStream" → p.k.tag ≠ "allocTasks" →
      (s.block p orc).1.buf.hot.transfer = s.buf.hot.transfer :=
    fun h1 h2 h3 => by rw [block_buf s p orc h1 h2 h3 h4 h5]
  cases hk : p.k with
  | monitor => exact quiet (by simp [hk, PK.tag]) (by simp [hk, PK.tag]) (by simp [hk, PK.tag])
  | telescope => exact quiet (by simp [hk, PK.tag]) (by simp [hk, PK.tag]) (by simp [hk, PK.tag])
  | clusterLoop => exact quiet (by simp [hk, PK.tag]) (by simp [hk, PK.tag]) (by simp [hk, PK.tag])
  | bufferLoop => exact quiet (by simp [hk, PK.tag]) (by simp [hk, PK.tag]) (by simp [hk, PK.tag])
  | allocIngest o tl => exact quiet (by simp [hk, PK.tag]) (by simp [hk, PK.tag]) (by simp [hk, PK.tag])
  | provIngest o d => exact quiet (by simp [hk, PK.tag]) (by simp [hk, PK.tag]) (by simp [hk, PK.tag])
  | allocTask t m preds obs ing ret =>
    exact quiet (by simp [hk, PK.tag]) (by simp [hk, PK.tag]) (by simp [hk, PK.tag])
  | doWork t m preds ph tot => exact quiet (by simp [hk, PK.tag]) (by simp [hk, PK.tag]) (by simp [hk, PK.tag])
  | schedLoop =>
    have hb' : s.block p orc = ((s.schedLoopBlock p.wake orc).1, p.k, (s.schedLoopBlock p.wake orc).2) := by
      unfold block; simp only [hk]
    rw [hb']
    rcases schedLoopBlock_buf s p.wake orc with ⟨hb, _⟩ | ⟨oid, o, recs, plan, _, _, _, hb, _⟩
    · show (s.schedLoopBlock p.wake orc).1.buf.hot.transfer = s.buf.hot.transfer
      rw [hb]
    · show (s.schedLoopBlock p.wake orc).1.buf.hot.transfer = s.buf.hot.transfer
      rw [hb]; exact transit_next_hotTransfer s.buf
  | ingestStream o tl =>
    have hb' : s.block p orc = s.ingestStreamBlock p.wake p.pc o tl := by
      unfold block; simp only [hk]
    rw [hb']
    exact transit_ingestStreamBlock_hotTransfer _ _ _ _ _
  | allocTasks o sc pa po fn =>
    have hb' : s.block p orc = s.allocTasksBlock p.wake orc p.pc o sc pa po fn := by
      unfold block; simp only [hk]
    rw [hb']
    rcases allocTasksBlock_bufCases s p.wake orc p.pc o sc pa po fn with e | e
    · rw [e]
    · rw [e]
      rcases remove_full s.buf o with e' | ⟨_, _, _, _, _, _, h7, _⟩
      · rw [e']
      · exact h7
  | hot2cold cur => exact absurd (by rw [hk]; rfl) h4
  | cold2hot cur => exact absurd (by rw [hk]; rfl) h5

/-! ### the slot invariant -/

theorem transit_slotHot_step {s : Sys} (hs : SInv s) (hq : TransitOneHot s) (h : TransitSlotHot s)
    {pid : Nat} (hen : s.enabled pid) (orc : Oracle) (hpre : s.alg = .oracle → orc.preOk) :
    TransitSlotHot (s.resume pid orc).1 := by
  obtain ⟨p, hp, ha, hmin⟩ := hen
  obtain ⟨hpm, hpid⟩ := proc?_some hp
  subst hpid
  have hcore := resume_core s p.pid orc p hp ha
  have hpw := hs.pw
  obtain ⟨new, hprocs, hpwX, hnew2⟩ := block_new hs hpm ha hmin orc hpre
  have hbuf := resume_buf s p.pid orc p hp ha
  have hmem := memSpec_updProc hpw hpm new hprocs hpwX (fin (s.block p orc).2.1 (s.block p orc).2.2 p.wake)
  have htag := block_tag s hpw p orc
  intro q hq' hqa o l hk hl
  rw [hbuf]
  rw [hcore.procs] at hq'
  rcases (hmem q).mp hq' with rfl | ⟨hq0, hne⟩ | hqn
  · obtain ⟨_, d, hd⟩ := fin_alive _ _ _ _ hqa
    rw [fin_k] at hk
    by_cases hpt : p.k.tag = "cold2hot"
    · obtain ⟨cur, hcur⟩ := transit_c2h_cur (transit_c2h_tag.mpr hpt)
      have hb' : s.block p orc = s.cold2hotBlock p.wake cur := by
        unfold block; simp only [hcur]
      rw [hb'] at hk hd ⊢
      obtain ⟨o', l', hk', hslot⟩ := transit_c2hBlock_slot s p.wake cur d hd
      rw [hk] at hk'
      injection hk' with hk'
      injection hk' with hk'
      injection hk' with e1 e2
      subst e1; subst e2
      exact hslot hl
    · exfalso
      apply hpt
      rw [← htag, hk]; rfl
  · by_cases hpt : p.k.tag = "cold2hot"
    · exfalso
      have hp1 : transitLiveC2H p = true := by
        unfold transitLiveC2H; rw [ha, transit_c2h_tag.mpr hpt]; rfl
      have hq1 : transitLiveC2H q = true := by
        unfold transitLiveC2H; rw [hqa, hk]; rfl
      exact hne (congrArg Proc.pid (transit_filter_unique s.procs transitLiveC2H hq.1 hq0 hpm hq1 hp1))
    · by_cases hpc : p.k.tag = "hot2cold"
      · exfalso
        have hq1 : transitLiveC2H q = true := by
          unfold transitLiveC2H; rw [hqa, hk]; rfl
        have h0 := hq.2 (transit_filter_pos s.procs transitLiveC2H hq0 hq1)
        have := transit_filter_zero s.procs transitLiveH2C h0 hpm
        unfold transitLiveH2C at this
        rw [ha, transit_h2c_tag.mpr hpc] at this
        cases this
      · rw [transit_block_hotTransfer s p orc hpc hpt]
        exact h q hq0 hqa o l hk hl
  · exact absurd (hnew2 q hqn).1 (transit_tok_ne' hqa hk hl)

/-- along every run with at most one cold→hot move at a time (and no hot→cold move beside it),
the hot tier's transfer slot holds the observation of the move in flight -/
theorem transit_slotHot_reach (s0 s : Sys) (hw : WFConfig s0) (h : TransitReach TransitOneHot s0 s) :
    TransitSlotHot s := by
  induction h with
  | start _ =>
    intro q hq hqa o l hk hl
    exact absurd (transit_start_procs s0 hw q hq) (transit_tok_ne' hqa hk hl)
  | step s pid orc hr hen hpre _ ih =>
    exact transit_slotHot_step (reach_inv s0 s hw hr.toOk) hr.holds ih hen orc hpre

/-! ### in transit ≤ the slot, and room under `has_capacity_for` -/

theorem transit_back_zero {b : Proc} (h : transitLiveC2H b = false) : transitBack b = 0 := by
  unfold transitLiveC2H at h
  unfold transitBack
  by_cases hb : b.alive = true
  · rw [hb] at h
    simp only [Bool.true_and] at h
    rw [if_pos hb]
    cases hk : b.k <;> simp [hk, PK.transitC2H, transitBackK] at h ⊢
  · simp [hb]

theorem transit_inTransitHot_cases {s : Sys} (hq : LiveC2H s ≤ 1) (hts : TransitSlotHot s) (hca : CA s) :
    s.inTransitToHot = 0 ∨
    ∃ p ∈ s.procs, p.alive = true ∧ ∃ o l, p.k = .cold2hot (some (o, l)) ∧ 0 < l ∧
      s.inTransitToHot = l ∧ l ≤ s.buf.sizeOf o ∧ s.buf.hot.transfer = some o := by
  by_cases hex : ∃ p ∈ s.procs, p.alive = true ∧ ∃ o l, p.k = .cold2hot (some (o, l)) ∧ 0 < l
  · obtain ⟨p, hp, ha, o, l, hk, hl⟩ := hex
    right
    refine ⟨p, hp, ha, o, l, hk, hl, ?_, ?_, hts p hp ha o l hk hl⟩
    · have hlive : transitLiveC2H p = true := by
        unfold transitLiveC2H; rw [ha, hk]; rfl
      have := transit_sum_unique s.procs transitLiveC2H transitBack (fun b _ hb => transit_back_zero hb)
        hq p hp hlive
      unfold inTransitToHot
      rw [this]
      simp [transitBack, ha, hk, transitBackK, hl]
    · have := hca.left p hp ha
      rw [hk] at this
      exact (this hl).1
  · left
    unfold inTransitToHot
    apply sum_map_zero
    intro b hb
    unfold transitBack
    by_cases hba : b.alive = true
    · rw [if_pos hba]
      cases hk : b.k with
      | cold2hot cur =>
        cases cur with
        | none => rfl
        | some ol =>
          obtain ⟨o, l⟩ := ol
          by_cases hl : 0 < l
          · exact absurd ⟨b, hb, hba, o, l, hk, hl⟩ hex
          · simp [transitBackK, hl]
      | _ => rfl
    · simp [hba]

/-- wherever the hot tier's `has_capacity_for` holds of a size, that size fits on top of what is
still in transit to the hot tier -/
theorem transit_hot_room {s : Sys} (hq : LiveC2H s ≤ 1) (hts : TransitSlotHot s) (hca : CA s)
    (hsn : ∀ o, 0 ≤ s.buf.sizeOf o) (sz : Int) (hcap : s.buf.hotHasCapacityFor sz = true) :
    sz + s.inTransitToHot ≤ s.buf.hot.cur := by
  unfold Buffer.hotHasCapacityFor at hcap
  rcases transit_inTransitHot_cases hq hts hca with h0 | ⟨p, _, _, o, l, _, _, hsum, hle, hslot⟩
  · rw [h0]
    cases htr : s.buf.hot.transfer with
    | none =>
      simp only [htr, decide_eq_true_eq] at hcap
      omega
    | some t =>
      simp only [htr, decide_eq_true_eq] at hcap
      have := hsn t
      omega
  · rw [hsum]
    simp only [hslot, decide_eq_true_eq] at hcap
    omega

/-- the hot tier: what an admission step guarantees (its own test only), and what it would
guarantee if the hot tier's `has_capacity_for` held of the volume as well -/
theorem transit_admission_hot_room (s0 s : Sys) (hw : WFConfig s0) (hbuf : bufList s0.buf = [])
    (hfull : s0.buf.size = [] ∧ s0.buf.hot.cur = s0.buf.hot.total ∧ s0.buf.cold.cur = s0.buf.cold.total)
    (hrate : ∀ o ∈ s0.obs, 0 < o.rate) (h : TransitReach TransitOneHot s0 s) (hc : s.crashed = none)
    (pid : Nat) (orc : Oracle) (hpre : s.alg = .oracle → orc.preOk) (oid : Oid)
    (hn : oid ∉ s.admitted) (ha : oid ∈ (s.resume pid orc).1.admitted) :
    ∃ o, s.obs? oid = some o ∧ o.rate * o.duration ≤ s.buf.hot.cur ∧
      (s.buf.hotHasCapacityFor (o.rate * o.duration) = true →
        o.rate * o.duration + s.inTransitToHot ≤ s.buf.hot.cur) ∧
      (s.buf.hot.transfer = none → o.rate * o.duration + s.inTransitToHot ≤ s.buf.hot.cur) := by
  obtain ⟨o, ho, hhot, _⟩ := transit_resume_admission s pid orc hpre oid hn ha
  obtain ⟨_, hca, _, hsi⟩ := reachOk_bufFacts s0 s hw hbuf hfull hrate h.toOk hc
  have hts := transit_slotHot_reach s0 s hw h
  refine ⟨o, ho, hhot, fun hcap => transit_hot_room h.holds.1 hts hca hsi.sn _ hcap, fun hnone => ?_⟩
  apply transit_hot_room h.holds.1 hts hca hsi.sn
  unfold Buffer.hotHasCapacityFor
  simp only [hnone, decide_eq_true_eq]
  omega

/-! ### no tier move at all -/

/-- a state without tier-move processes (`NoTier`, e.g. every state of a run under `NoTierCfg`):
nothing is in transit and the one-move hypotheses hold -/
theorem transit_noTier {s : Sys} (h : NoTier s) :
    LiveH2C s = 0 ∧ LiveC2H s = 0 ∧ s.inTransitToCold = 0 ∧ s.inTransitToHot = 0 := by
  have h1 : ∀ p ∈ s.procs, transitLiveH2C p = false := by
    intro p hp
    unfold transitLiveH2C
    have : p.k.transitH2C = false := by
      cases hh : p.k.transitH2C with
      | false => rfl
      | true => exact absurd (transit_h2c_tag.mp hh) (h p hp).1
    rw [this]; simp
  have h2 : ∀ p ∈ s.procs, transitLiveC2H p = false := by
    intro p hp
    unfold transitLiveC2H
    have : p.k.transitC2H = false := by
      cases hh : p.k.transitC2H with
      | false => rfl
      | true => exact absurd (transit_c2h_tag.mp hh) (h p hp).2
    rw [this]; simp
  refine ⟨?_, ?_, sum_map_zero _ _ (fun p hp => transit_left_zero (h1 p hp)),
    sum_map_zero _ _ (fun p hp => transit_back_zero (h2 p hp))⟩
  · unfold LiveH2C
    rw [List.filter_eq_nil_iff.mpr (fun p hp => by simp [h1 p hp])]; rfl
  · unfold LiveC2H
    rw [List.filter_eq_nil_iff.mpr (fun p hp => by simp [h2 p hp])]; rfl

end Sys
end Topsim
