/-
  LifeCycle12 — the ingest side of the causal order: whatever refers to an observation's start
  (its recorded start time, its supervisor, its stream, `bufAdded`, `telFinished`) comes after a
  `telStarted` event of that observation, with the right stamp.
-/
import TopsimProofs.LifeCycle11

namespace Topsim
namespace Sys

/-- the trace holds an event of kind `k` of observation `o` whose stamp satisfies `P` -/
def hasEv (evs : List Event) (o : Oid) (k : EvKind) (P : Nat → Prop) : Prop :=
  ∃ e ∈ evs, e.obs = o ∧ e.kind = k ∧ P e.time

theorem hasEv.left {evs : List Event} {o k P} (L : List Event) (h : hasEv evs o k P) : hasEv (evs ++ L) o k P := by
  obtain ⟨e, he, h⟩ := h; exact ⟨e, List.mem_append_left _ he, h⟩

theorem hasEv.right {L : List Event} {o k P} (evs : List Event) (h : hasEv L o k P) : hasEv (evs ++ L) o k P := by
  obtain ⟨e, he, h⟩ := h; exact ⟨e, List.mem_append_right _ he, h⟩

theorem hasEv.imp {evs : List Event} {o k} {P Q : Nat → Prop} (h : hasEv evs o k P) (hpq : ∀ t, P t → Q t) :
    hasEv evs o k Q := by
  obtain ⟨e, he, h1, h2, h3⟩ := h; exact ⟨e, he, h1, h2, hpq _ h3⟩

theorem hasEv.of_mem {L : List Event} {n : Nat} {o : Oid} {k : EvKind} {P : Nat → Prop}
    (h : (⟨n, o, k⟩ : Event) ∈ L) (hp : P n) : hasEv L o k P := ⟨_, h, rfl, rfl, hp⟩

structure LcTW (s : Sys) (evs : List Event) : Prop where
  aiObs : ∀ q ∈ s.procs, ∀ o tl, q.k = .allocIngest o tl → ∃ ob, s.obs? o = some ob
  aiRun : ∀ q ∈ s.procs, ∀ o tl, q.k = .allocIngest o tl → 1 ≤ q.pc → Begun s.obs o
  ai : ∀ q ∈ s.procs, ∀ o tl, q.k = .allocIngest o tl →
    hasEv evs o .telStarted (fun t => q.pc = 0 → q.wake = ((t : Nat) : Time))
  str : ∀ q ∈ s.procs, ∀ o tl, q.k = .ingestStream o tl →
    hasEv evs o .telStarted (fun t => q.pc = 0 → q.wake = ((t : Nat) : Time))
  ast : ∀ o ob a, s.obs? o = some ob → ob.ast = some a → hasEv evs o .telStarted (fun t => t = a)
  beg : ∀ o, Begun s.obs o → hasEv evs o .telStarted (fun _ => True)
  ba : ∀ eB ∈ evs, eB.kind = .bufAdded → hasEv evs eB.obs .telStarted (fun t => t = eB.time)
  tf : ∀ eB ∈ evs, eB.kind = .telFinished → ∃ ob, s.obs? eB.obs = some ob ∧
    hasEv evs eB.obs .telStarted (fun t => t + ob.duration ≤ eB.time)

theorem tw_step {s : Sys} {evs : List Event} (hi : EInv s) (h : LcTW s evs) {pid : Nat} (hen : s.enabled pid)
    (orc : Oracle) : LcTW (s.resume pid orc).1 (evs ++ s.stepEvents pid orc) := by
  obtain ⟨p, hp, ha, hmin⟩ := hen
  obtain ⟨hpm, hpid⟩ := proc?_some hp
  obtain ⟨new, hnew, hnewp⟩ := block_newp s p orc
  have hm := resume_memSpec hi hp ha hmin orc hnew
  have hobsEq : (s.resume pid orc).1.obs = (s.block p orc).1.obs := (resume_alive s pid orc p hp ha).2.2.2.2.2.1
  have hobsM := resume_obsMonoS s pid orc p hp ha
  rw [stepEvents_alive orc hp ha]
  generalize hL : blockEvents s p orc = L
  generalize hn : natNow p.wake = n
  -- records persist, with their duration
  have hkeep : ∀ o ob, s.obs? o = some ob → ∃ ob', (s.resume pid orc).1.obs? o = some ob' ∧
      ob'.duration = ob.duration := by
    intro o ob hob
    obtain ⟨ob', h1, _, h2, _⟩ := status_monotone s pid orc o ob hob
    exact ⟨ob', h1, h2⟩
  -- the records after the step against the records before
  have G : ∀ o ob', (s.resume pid orc).1.obs? o = some ob' → ∃ ob, s.obs? o = some ob ∧
      ob'.duration = ob.duration ∧
      (ob'.ast = ob.ast ∨ (ob'.ast = some n ∧ (⟨n, o, .telStarted⟩ : Event) ∈ L) ∨
        (∃ tl, p.k = .allocIngest o tl ∧ p.pc = 0 ∧ ob'.ast = some n)) ∧
      (ob'.status = ob.status ∨
        (ob'.status = .finished ∧ ((∃ a0, ob.ast = some a0) ∨ (⟨n, o, .telStarted⟩ : Event) ∈ L)) ∨
        (∃ tl, p.k = .allocIngest o tl)) := by
    intro o ob' hob'
    rw [obs?_congr hobsEq] at hob'
    by_cases hk : p.k = .telescope
    · rcases blockEvents_telescope (s := s) orc hk with ⟨_, hb, _⟩ | ⟨s0, e0, _, g2, _, _, _, _, _, hrun, _⟩
      · rw [hb] at hob'
        exact ⟨ob', hob', rfl, Or.inl rfl, Or.inl rfl⟩
      · rw [hL, hn] at hrun
        obtain ⟨ob, hob, d, a1, s1⟩ := telRun_tobs hrun o ob' hob'
        rw [obs?_congr g2] at hob
        refine ⟨ob, hob, d, ?_, ?_⟩
        · rcases a1 with e | e
          · exact Or.inl e
          · exact Or.inr (Or.inl e)
        · rcases s1 with e | ⟨e, f⟩
          · exact Or.inl e
          · right; left
            refine ⟨e, ?_⟩
            rcases f with ⟨a0, ha0, _⟩ | ⟨m, _⟩
            · exact Or.inl ⟨a0, ha0⟩
            · exact Or.inr m
    · by_cases hk2 : ∃ oid tl, p.k = .allocIngest oid tl
      · obtain ⟨oid, tl, hk2⟩ := hk2
        rw [block_allocIngest orc hk2] at hob'
        obtain ⟨ob, hob, d, a1, s1⟩ := allocIngestBlock_recs s p.wake p.pc oid tl o ob' hob'
        refine ⟨ob, hob, d, ?_, ?_⟩
        · rcases a1 with e | ⟨e0, e1, e2⟩
          · exact Or.inl e
          · subst e0; exact Or.inr (Or.inr ⟨tl, hk2, e1, by rw [← hn]; exact e2⟩)
        · rcases s1 with e | ⟨e0, _, _⟩
          · exact Or.inl e
          · subst e0; exact Or.inr (Or.inr ⟨tl, hk2⟩)
      · have h1 : p.k.tag ≠ "telescope" := by
          intro e; apply hk; cases hpk : p.k <;> rw [hpk] at e <;> simp [PK.tag] at e <;> rfl
        have h2 : p.k.tag ≠ "allocIngest" := by
          intro e; apply hk2; cases hpk : p.k <;> rw [hpk] at e <;> simp [PK.tag] at e
          exact ⟨_, _, rfl⟩
        rw [obs?_congr (block_obs s p orc h1 h2)] at hob'
        exact ⟨ob', hob', rfl, Or.inl rfl, Or.inl rfl⟩
  -- the supervisor that runs is due at its observation's start
  have hpAI : ∀ o tl, p.k = .allocIngest o tl →
      hasEv evs o .telStarted (fun t => p.pc = 0 → n = t) := by
    intro o tl hk
    refine (h.ai p hpm o tl hk).imp ?_
    intro t ht hpc
    rw [← hn, ht hpc]; exact natNow_natCast t
  -- new supervisors and new streams
  have Nai : ∀ q ∈ new, ∀ o tl, q.k = .allocIngest o tl →
      (⟨n, o, .telStarted⟩ : Event) ∈ L ∧ (∃ ob, (s.resume pid orc).1.obs? o = some ob) ∧
        q.pc = 0 ∧ q.wake = ((n : Nat) : Time) := by
    intro q hq o tl hqk
    obtain ⟨_, hpc, hwk, hkind⟩ := hnewp q hq
    have hk : p.k = .telescope := by
      rw [hqk] at hkind
      cases hpk : p.k <;> rw [hpk] at hkind <;> simp [NewKind] at hkind
    rw [if_pos hk, hn] at hwk
    rcases blockEvents_telescope (s := s) orc hk with ⟨_, hb, _⟩ | ⟨s0, e0, _, _, g3, _, _, _, _, hrun, _⟩
    · rw [hb] at hnew
      have h2 : s.procs = s.procs ++ new := hnew
      have : new = [] := (List.append_cancel_left ((List.append_nil s.procs).trans h2)).symm
      rw [this] at hq; simp at hq
    · rw [hL, hn] at hrun
      obtain ⟨new', e', f'⟩ := telRun_newAI hrun
      rw [g3] at e'
      have : new' = new := List.append_cancel_left (e'.symm.trans hnew)
      subst this
      obtain ⟨g1, g2⟩ := f' q hq o tl hqk
      exact ⟨g1, by rw [obs?_congr hobsEq]; exact g2, hpc, hwk⟩
  have Nstr : ∀ q ∈ new, ∀ o tl, q.k = .ingestStream o tl →
      (∃ tl0, p.k = .allocIngest o tl0) ∧ ¬ Begun s.obs o ∧ q.pc = 0 ∧ q.wake = p.wake := by
    intro q hq o tl hqk
    obtain ⟨_, hpc, hwk, hkind⟩ := hnewp q hq
    rw [hqk] at hkind
    have hk : ∃ tl0, p.k = .allocIngest o tl0 := by
      cases hpk : p.k <;> rw [hpk] at hkind <;> simp [NewKind] at hkind
      exact ⟨_, by rw [hkind.1]⟩
    obtain ⟨tl0, hk⟩ := hk
    rw [if_neg (by rw [hk]; simp)] at hwk
    rcases new_streams s p orc hnew with hnone | ⟨oid, hnb, _, hone⟩
    · exact absurd hqk (hnone q hq o tl)
    · obtain ⟨e, _⟩ := hone q hq o tl hqk
      subst e
      exact ⟨⟨tl0, hk⟩, hnb, hpc, hwk⟩
  -- the events of the step
  have hkinds := blockEvents_kinds s p orc
  rw [hL] at hkinds
  have Lba : ∀ eB ∈ L, eB.kind = .bufAdded → (∃ tl, p.k = .ingestStream eB.obs tl) ∧ p.pc = 0 ∧ eB.time = n := by
    intro eB he hk
    have h1 : 1 ≤ evCount eB.obs .bufAdded (blockEvents s p orc) := by
      rw [hL]; exact (evCount_pos_iff _ _ _).mpr ⟨eB, he, rfl, hk⟩
    obtain ⟨g1, g2, _, g4⟩ := (block_bufAdded s p orc eB.obs).2 h1
    rw [hL] at g4
    exact ⟨g1, g2, by rw [g4 eB he, hn]⟩
  have Ltf : ∀ eB ∈ L, eB.kind = .telFinished → eB.time = n ∧ ∃ ob, s.obs? eB.obs = some ob ∧
      ((∃ a0, ob.ast = some a0 ∧ a0 + ob.duration ≤ n) ∨
       ((⟨n, eB.obs, .telStarted⟩ : Event) ∈ L ∧ n + ob.duration ≤ n)) := by
    intro eB he hk
    have hpk : p.k = .telescope := by
      rcases hkinds eB he with ⟨g, _⟩ | ⟨_, g⟩ | ⟨_, g⟩ | ⟨_, g⟩ | ⟨_, g⟩
      · exact g
      all_goals simp [isTransfer, hk] at g
    rcases blockEvents_telescope (s := s) orc hpk with ⟨hb, _⟩ | ⟨s0, e0, _, g2, _, _, _, _, _, hrun, _⟩
    · rw [hL] at hb; rw [hb] at he; simp at he
    · rw [hL, hn] at hrun
      obtain ⟨g1, ob, hob, hor⟩ := telRun_finishedEv hrun eB he hk
      rw [obs?_congr g2] at hob
      exact ⟨g1, ob, hob, hor⟩
  -- the class of the entry that ran
  have hclsAI := allocIngest_class s hi.pw p orc
  have hclsS := (block_class s hi.pw p orc).1
  constructor
  · -- aiObs
    intro q hq o tl hqk
    rcases (hm q).mp hq with rfl | ⟨hq0, _⟩ | hqn
    · simp only [fin_k] at hqk
      obtain ⟨tl0, hk0⟩ := (hclsAI o).mp ⟨tl, hqk⟩
      obtain ⟨ob, hob⟩ := h.aiObs p hpm o tl0 hk0
      obtain ⟨ob', hob', _⟩ := hkeep o ob hob
      exact ⟨ob', hob'⟩
    · obtain ⟨ob, hob⟩ := h.aiObs q hq0 o tl hqk
      obtain ⟨ob', hob', _⟩ := hkeep o ob hob
      exact ⟨ob', hob'⟩
    · exact (Nai q hqn o tl hqk).2.1
  · -- aiRun
    intro q hq o tl hqk hqc
    rcases (hm q).mp hq with rfl | ⟨hq0, _⟩ | hqn
    · simp only [fin_k] at hqk
      obtain ⟨tl0, hk0⟩ := (hclsAI o).mp ⟨tl, hqk⟩
      obtain ⟨ob, hob⟩ := h.aiObs p hpm o tl0 hk0
      obtain ⟨ob', hob', _⟩ := hkeep o ob hob
      refine ⟨ob', hob', ?_⟩
      have := (allocIngestBlock_E s p.wake p.pc o tl0).2.2 ob'
      rw [← block_allocIngest orc hk0, ← obs?_congr hobsEq] at this
      exact this hob'
    · exact hobsM o (h.aiRun q hq0 o tl hqk hqc)
    · have := (Nai q hqn o tl hqk).2.2.1; omega
  · -- ai
    intro q hq o tl hqk
    rcases (hm q).mp hq with rfl | ⟨hq0, _⟩ | hqn
    · simp only [fin_k] at hqk
      obtain ⟨tl0, hk0⟩ := (hclsAI o).mp ⟨tl, hqk⟩
      refine ((h.ai p hpm o tl0 hk0).imp ?_).left L
      intro t _ hpc; simp at hpc
    · exact (h.ai q hq0 o tl hqk).left L
    · obtain ⟨g1, _, _, g4⟩ := Nai q hqn o tl hqk
      exact (hasEv.of_mem g1 (fun _ => g4)).right evs
  · -- str
    intro q hq o tl hqk
    rcases (hm q).mp hq with rfl | ⟨hq0, _⟩ | hqn
    · simp only [fin_k] at hqk
      obtain ⟨tl0, hk0⟩ := (hclsS o).mp ⟨tl, hqk⟩
      refine ((h.str p hpm o tl0 hk0).imp ?_).left L
      intro t _ hpc; simp at hpc
    · exact (h.str q hq0 o tl hqk).left L
    · obtain ⟨⟨tl0, hk0⟩, hnb, _, hwk⟩ := Nstr q hqn o tl hqk
      have hpc : p.pc = 0 := by
        cases hc : p.pc with
        | zero => rfl
        | succ m => exact absurd (h.aiRun p hpm o tl0 hk0 (by omega)) hnb
      refine ((h.ai p hpm o tl0 hk0).imp ?_).left L
      intro t ht _
      rw [hwk]; exact ht hpc
  · -- ast
    intro o ob' a hob' hast
    obtain ⟨ob, hob, _, a1, _⟩ := G o ob' hob'
    rcases a1 with e | ⟨e, m⟩ | ⟨tl, hk, hpc, e⟩
    · exact (h.ast o ob a hob (by rw [← e]; exact hast)).left L
    · rw [e] at hast; injection hast with hast
      exact (hasEv.of_mem m hast).right evs
    · rw [e] at hast; injection hast with hast
      refine ((hpAI o tl hk).imp ?_).left L
      intro t ht; rw [← hast]; exact (ht hpc).symm
  · -- beg
    rintro o ⟨ob', hob', hst⟩
    have hob'' : (s.resume pid orc).1.obs? o = some ob' := hob'
    obtain ⟨ob, hob, _, _, s1⟩ := G o ob' hob''
    rcases s1 with e | ⟨_, f⟩ | ⟨tl, hk⟩
    · exact (h.beg o ⟨ob, hob, by rw [← e]; exact hst⟩).left L
    · rcases f with ⟨a0, ha0⟩ | m
      · exact ((h.ast o ob a0 hob ha0).imp (fun _ _ => trivial)).left L
      · exact (hasEv.of_mem m trivial).right evs
    · exact ((h.ai p hpm o tl hk).imp (fun _ _ => trivial)).left L
  · -- ba
    intro eB he hk
    rcases List.mem_append.mp he with he | he
    · exact (h.ba eB he hk).left L
    · obtain ⟨⟨tl, hpk⟩, hpc, ht⟩ := Lba eB he hk
      refine ((h.str p hpm eB.obs tl hpk).imp ?_).left L
      intro t hw
      rw [ht, ← hn, hw hpc]; exact (natNow_natCast t).symm
  · -- tf
    intro eB he hk
    rcases List.mem_append.mp he with he | he
    · obtain ⟨ob, hob, hev⟩ := h.tf eB he hk
      obtain ⟨ob', hob', hd⟩ := hkeep eB.obs ob hob
      exact ⟨ob', hob', by rw [hd]; exact hev.left L⟩
    · obtain ⟨ht, ob, hob, hor⟩ := Ltf eB he hk
      obtain ⟨ob', hob', hd⟩ := hkeep eB.obs ob hob
      refine ⟨ob', hob', ?_⟩
      rw [hd, ht]
      rcases hor with ⟨a0, ha0, hle⟩ | ⟨m, hle⟩
      · exact ((h.ast eB.obs ob a0 hob ha0).imp (fun t e => by rw [e]; exact hle)).left L
      · exact (hasEv.of_mem (P := fun t => t + ob.duration ≤ n) m hle).right evs

theorem start_obs (s0 : Sys) : s0.start.obs = s0.obs := by simp [start, spawn]

theorem reachEv_tw {s0 s : Sys} {evs : List Event} (hw : WFConfig s0) (h : ReachEv s0 s evs) : LcTW s evs := by
  induction h with
  | start =>
    have hp := start_procs s0 hw
    refine ⟨?_, ?_, ?_, ?_, ?_, ?_, by simp, by simp⟩
    · intro q hq o tl hk
      rw [hp] at hq; simp only [List.mem_cons, List.not_mem_nil, or_false] at hq
      rcases hq with rfl | rfl | rfl | rfl | rfl <;> simp at hk
    · intro q hq o tl hk
      rw [hp] at hq; simp only [List.mem_cons, List.not_mem_nil, or_false] at hq
      rcases hq with rfl | rfl | rfl | rfl | rfl <;> simp at hk
    · intro q hq o tl hk
      rw [hp] at hq; simp only [List.mem_cons, List.not_mem_nil, or_false] at hq
      rcases hq with rfl | rfl | rfl | rfl | rfl <;> simp at hk
    · intro q hq o tl hk
      rw [hp] at hq; simp only [List.mem_cons, List.not_mem_nil, or_false] at hq
      rcases hq with rfl | rfl | rfl | rfl | rfl <;> simp at hk
    · intro o ob a hob hast
      rw [obs?_congr (start_obs s0)] at hob
      have := (hw.obsWaiting ob (obs_mem_of_obs? hob).1).2.1
      rw [this] at hast; simp at hast
    · rintro o ⟨ob, hob, hst⟩
      rw [start_obs s0] at hob
      have hob' : s0.obs? o = some ob := hob
      exact absurd (hw.obsWaiting ob (obs_mem_of_obs? hob').1).1 hst
  | step s evs pid orc hr hen ih => exact tw_step (reach_einv s0 s hw hr.toReach) ih hen orc

end Sys
end Topsim
