/-
  Live8c — the EXACT ingest ledger: along a run in which no block raises, the scheduler's counter
  `provIngest` is the sum of the pipeline demands of the observations whose ingest supervisor is
  alive (`live_ledger`).  Admission adds the demand and creates the supervisor in one block; the
  supervisor's epilogue subtracts it in the block in which it ends.
-/
import TopsimProofs.Live8b
import TopsimProofs.C05Lemmas

namespace Topsim

open KState Sys

namespace Sys

/-- what a process contributes to the ledger -/
def l8W (dem : Oid → Nat) (q : Proc) : Nat :=
  match ilAiLive q with
  | some o => dem o
  | none => 0

/-- the sum of the demands of the observations whose supervisor is alive -/
def l8F (dem : Oid → Nat) (ps : List Proc) : Nat := ((ilLiveAI ps).map dem).sum

theorem l8_sum_append (a b : List Nat) : (a ++ b).sum = a.sum + b.sum := by
  induction a with
  | nil => simp
  | cons x r ih => simp only [List.cons_append, List.sum_cons, ih]; omega

theorem l8F_append (dem : Oid → Nat) (a b : List Proc) : l8F dem (a ++ b) = l8F dem a + l8F dem b := by
  unfold l8F; rw [ilLiveAI_append, List.map_append, l8_sum_append]

theorem l8F_cons (dem : Oid → Nat) (q : Proc) (ps : List Proc) :
    l8F dem (q :: ps) = l8W dem q + l8F dem ps := by
  unfold l8F l8W
  cases h : ilAiLive q with
  | none => rw [ilLiveAI_cons_none h]; simp
  | some o => rw [ilLiveAI_cons_some h]; simp

theorem l8F_neutral (dem : Oid → Nat) {new : List Proc} (hn : ∀ q ∈ new, q.k.aiObs = none) :
    l8F dem new = 0 := by
  unfold l8F; rw [ilLiveAI_neutral hn]; rfl

theorem l8W_neutral (dem : Oid → Nat) {q : Proc} (h : q.k.aiObs = none) : l8W dem q = 0 := by
  unfold l8W; rw [ilAiLive_none_of_aiObs h]

theorem l8W_dead (dem : Oid → Nat) {q : Proc} (h : q.alive = false) : l8W dem q = 0 := by
  unfold l8W; rw [ilAiLive_none_of_dead h]

theorem l8W_live (dem : Oid → Nat) {q : Proc} {o : Oid} (ha : q.alive = true) (h : q.k.aiObs = some o) :
    l8W dem q = dem o := by
  unfold l8W; rw [ilAiLive_some.mpr ⟨ha, h⟩]

/-- counter minus the demands of the live supervisors -/
def l8G (s : Sys) : Int := s.provIngest - ((l8F s.ilDemand s.procs : Nat) : Int)

/-- the exact ledger -/
def l8Led (s : Sys) : Prop := s.provIngest = ((l8F s.ilDemand s.procs : Nat) : Int)

theorem l8_ilDemand_keep {s X : Sys} (h : ObsKeep s X) : X.ilDemand = s.ilDemand := by
  funext o
  unfold ilDemand
  cases hs : s.obs? o with
  | none =>
    cases hX : X.obs? o with
    | none => rfl
    | some ob' =>
      obtain ⟨ob, h1, _⟩ := h.bwd hX
      rw [hs] at h1; cases h1
  | some ob =>
    obtain ⟨ob', h1, h2⟩ := h.fwd hs
    rw [h1]
    exact (ot_stat_fields h2).2.2.2.2.2

/-! ### the telescope's block -/

theorem l8_visit_G (n : Nat) (acc : Sys × Option Err) (oid : Oid) :
    l8G (telescopeVisit n acc oid).1 = l8G acc.1 := by
  obtain ⟨s, err⟩ := acc
  cases err with
  | some e => unfold telescopeVisit; rfl
  | none =>
    cases hob : s.obs? oid with
    | none => unfold telescopeVisit; simp only [hob]
    | some o =>
      rcases telescopeVisit_cases n s oid o hob with hc | ⟨_, s1, hc, hv⟩ | ⟨_, s1, hc, hv⟩ | ⟨_, _, hv⟩
      · rw [hc]
      · rw [hv]
        rcases checkIngestCapacity_ok s o s1 false hc with e | ⟨e, _⟩
        · rw [e]
        · cases e
      · rw [hv]
        obtain ⟨_, _, _, _, _, _, rfl⟩ := checkIngestCapacity_true s o s1 hc
        have hdem : (admitState { s with provIngest := s.provIngest + o.ingestDemand } n oid o).ilDemand
            = s.ilDemand := by
          funext x
          exact (ilDemand_congr (a := s.updObs oid (fun r => { r with ast := some n })) rfl x).trans
            (ilDemand_updObs s oid (fun r => { r with ast := some n }) (fun _ => rfl) (fun _ => rfl) x)
        have hprocs : (admitState { s with provIngest := s.provIngest + o.ingestDemand } n oid o).procs
            = s.procs ++ [{ pid := s.nextPid, k := .allocIngest oid 0, wake := (n : Time) }] := rfl
        have hd : s.ilDemand oid = o.ingestDemand := by unfold ilDemand; rw [hob]
        unfold l8G
        rw [hdem, hprocs, l8F_append, l8F_cons, l8W_live s.ilDemand (o := oid) rfl rfl, hd]
        show s.provIngest + (o.ingestDemand : Int) - _ = _
        simp only [l8F, ilLiveAI, List.filterMap_nil, List.map_nil, List.sum_nil]
        omega
      · rw [hv]
        have hdem : (({ (s.updObs oid (fun r => { r with status := .finished })) with
              telUse := s.telUse - o.demand,
              telStatus := if s.telUse - o.demand = 0 then false else s.telStatus }).addTel
            ⟨n, oid, .telFinished⟩).ilDemand = s.ilDemand := by
          funext x
          exact (ilDemand_congr (a := s.updObs oid (fun r => { r with status := .finished })) rfl x).trans
            (ilDemand_updObs s oid (fun r => { r with status := .finished }) (fun _ => rfl) (fun _ => rfl) x)
        unfold l8G
        rw [hdem]
        rfl

theorem l8_fold_G (n : Nat) (l : List Oid) (acc : Sys × Option Err) :
    l8G (l.foldl (telescopeVisit n) acc).1 = l8G acc.1 := by
  induction l generalizing acc with
  | nil => rfl
  | cons x r ih => rw [List.foldl_cons, ih, l8_visit_G]

theorem l8_telescopeBlock_G (s : Sys) (now : Time) : l8G (s.telescopeBlock now).1 = l8G s := by
  unfold telescopeBlock
  split
  · rfl
  · simp only
    have := l8_fold_G (natNow now) (s.obs.map (·.id))
      ({ s with telEvents := [], telDelayed := if s.schedDelayed = true ∧ (!s.telDelayed) = true then true else s.telDelayed }, none)
    generalize (List.foldl (telescopeVisit (natNow now))
      ({ s with telEvents := [], telDelayed := if s.schedDelayed = true ∧ (!s.telDelayed) = true then true else s.telDelayed }, none)
      (s.obs.map (·.id))) = r at this ⊢
    obtain ⟨s1, e1⟩ := r
    cases e1 <;> exact this

/-! ### the supervisor's block -/

theorem l8_allocIngestIter_prov (s : Sys) (now : Time) (oid : Oid) (tl : Int) :
    (∀ d, (s.allocIngestIter now oid tl).2.2 = .timeout d →
      (s.allocIngestIter now oid tl).1.provIngest = s.provIngest) ∧
    ((s.allocIngestIter now oid tl).2.2 = .done →
      (s.allocIngestIter now oid tl).1.provIngest = s.provIngest - (s.ilDemand oid : Nat)) := by
  cases hob : s.obs? oid with
  | none =>
    have e : s.allocIngestIter now oid tl = (s, .allocIngest oid tl, .raised .other) := by
      simp [allocIngestIter, hob]
    rw [e]
    exact ⟨fun d h => (by cases h), fun h => (by cases h)⟩
  | some o =>
    have hd : s.ilDemand oid = o.ingestDemand := by unfold ilDemand; rw [hob]
    rw [hd]
    by_cases h2 : o.status = .waiting
    · have e1 : (s.allocIngestIter now oid tl).2.2 = .timeout 1 := by
        simp [allocIngestIter, hob, h2]
      have e2 : (s.allocIngestIter now oid tl).1.provIngest = s.provIngest := by
        simp [allocIngestIter, hob, h2, spawn, updObs]
      rw [e1, e2]
      exact ⟨fun d _ => rfl, fun h => (by cases h)⟩
    · by_cases h1 : o.status = .finished
      · obtain ⟨e1, e2⟩ := reservation_returned s now oid o tl hob (Or.inl h1)
        rw [e1, e2]
        exact ⟨fun d h => (by cases h), fun _ => rfl⟩
      · have hr : o.status = .running := by
          cases hst : o.status <;> simp_all
        by_cases h3 : 0 < tl
        · rw [ingest_counts_down s now oid o tl hob hr h3]
          exact ⟨fun d _ => rfl, fun h => (by cases h)⟩
        · obtain ⟨e1, e2⟩ := reservation_returned s now oid o tl hob (Or.inr ⟨hr, by omega⟩)
          rw [e1, e2]
          exact ⟨fun d h => (by cases h), fun _ => rfl⟩

theorem l8_allocIngestBlock_prov (s : Sys) (now : Time) (pc : Nat) (oid : Oid) (tl : Int) :
    (∀ d, (s.allocIngestBlock now pc oid tl).2.2 = .timeout d →
      (s.allocIngestBlock now pc oid tl).1.provIngest = s.provIngest) ∧
    ((s.allocIngestBlock now pc oid tl).2.2 = .done →
      (s.allocIngestBlock now pc oid tl).1.provIngest = s.provIngest - (s.ilDemand oid : Nat)) := by
  unfold allocIngestBlock
  split
  · simp only
    have h := l8_allocIngestIter_prov (s.updObs oid (fun r => { r with ast := some (natNow now) })) now oid
      ((match s.obs? oid with | some o => (o.duration : Int) | none => 0) - 1)
    have hd : (s.updObs oid (fun r => { r with ast := some (natNow now) })).ilDemand oid = s.ilDemand oid :=
      ilDemand_updObs s oid (fun r => { r with ast := some (natNow now) }) (fun _ => rfl) (fun _ => rfl) oid
    rw [hd] at h
    exact h
  · exact l8_allocIngestIter_prov s now oid tl

/-! ### the other blocks leave the counter alone -/

theorem l8_block_prov (s : Sys) (hpw : PW s) (p : Proc) (orc : Oracle) (hpre : s.alg = .oracle → orc.preOk)
    (h1 : p.k.tag ≠ "telescope") (h2 : p.k.tag ≠ "allocIngest") :
    (s.block p orc).1.provIngest = s.provIngest := by
  cases hk : p.k with
  | monitor => rw [block_monitor orc hk]; exact (monitorBlock_ilq s p.wake).prov
  | telescope => exact absurd (by rw [hk]; rfl) h1
  | clusterLoop => rw [block_clusterLoop orc hk]
  | schedLoop => rw [block_schedLoop orc hk]; exact (schedLoopBlock_ilq s p.wake orc).prov
  | bufferLoop => rw [block_bufferLoop orc hk]; exact (bufferLoopBlock_ilq s p.wake).prov
  | allocIngest o tl => exact absurd (by rw [hk]; rfl) h2
  | provIngest o d =>
    rw [block_provIngest orc hk]
    unfold provIngestBlock
    split
    · simp only
      split
      · rfl
      · rename_i cl1 pairs _
        exact (foldSpawn_il (fun x : Mid × Tid => PK.allocTask x.2 x.1 [] (some o) true 0) p.wake pairs _).1
    · rfl
  | ingestStream o tl =>
    rw [block_ingestStream orc hk]; exact (ingestStreamBlock_ilq s p.wake p.pc o tl).prov
  | allocTask t m preds obs ing ret =>
    rw [block_allocTask orc hk]
    rcases allocTaskBlock_cases' s hpw p.wake t m preds obs ing ret with
      ⟨_, e, _, heq⟩ | ⟨_, _, heq⟩ | ⟨_, _, heq⟩ | ⟨_, _, e, _, heq⟩ | ⟨_, _, _, heq⟩ <;> rw [heq] <;> rfl
  | doWork t m preds ph tot =>
    rw [block_doWork orc hk]; exact (doWorkBlock_ilq s p.wake orc t m preds ph tot).prov
  | allocTasks o sc pa po fn =>
    rw [block_allocTasks orc hk]; exact (allocTasksBlock_ilq s p.wake orc hpre p.pc o sc pa po fn).prov
  | hot2cold cur => rw [block_hot2cold orc hk]; exact (hot2coldBlock_ilq s p.wake cur).prov
  | cold2hot cur => rw [block_cold2hot orc hk]; exact (cold2hotBlock_ilq s p.wake cur).prov

theorem l8_newKind_neutral {k k' : PK} (h : NewKind k k') (hk : k ≠ .telescope) : k'.aiObs = none := by
  cases k <;> simp only [NewKind] at h
  · exact absurd rfl hk
  · obtain ⟨o, rfl⟩ := h; rfl
  · rcases h with rfl | rfl <;> rfl
  · rcases h with ⟨d, rfl⟩ | rfl <;> rfl
  · obtain ⟨t, m, rfl⟩ := h; rfl
  · subst h; rfl
  · obtain ⟨t, m, c, rfl⟩ := h; rfl

/-! ### one step -/

theorem l8_G_step {s : Sys} (hs : SInv s) {pid : Nat} (hen : s.enabled pid) (orc : Oracle)
    (hpre : s.alg = .oracle → orc.preOk)
    (hnr : ∀ p, s.proc? pid = some p → ∀ err, (s.block p orc).2.2 ≠ .raised err) :
    l8G (s.resume pid orc).1 = l8G s := by
  obtain ⟨p, hp, ha, hmin⟩ := hen
  obtain ⟨hpm, hpid⟩ := proc?_some hp
  subst hpid
  have hnr' := hnr p hp
  have hpw := hs.pw
  have hcore := resume_core s p.pid orc p hp ha
  have hq := il_resume s p.pid orc p hp ha
  obtain ⟨hprefix, hpwX⟩ := block_pre_str hpw hs.eg hpm ha hmin orc
  obtain ⟨new, hnew, hnewp⟩ := block_newp s p orc
  have hpX : p ∈ (s.block p orc).1.procs := hprefix.subset hpm
  obtain ⟨l1, l2, hX12, _, hupd⟩ := il_split hpwX hpX
  have htag := block_tag s hpw p orc
  have hdemR : (s.resume p.pid orc).1.ilDemand = s.ilDemand :=
    l8_ilDemand_keep (ot_resume_keep s p.pid orc p hp ha)
  have hprovR : (s.resume p.pid orc).1.provIngest = (s.block p orc).1.provIngest := hq.prov
  have hprocsR : (s.resume p.pid orc).1.procs
      = l1 ++ fin (s.block p orc).2.1 (s.block p orc).2.2 p.wake p :: l2 := by
    rw [hcore.procs]; exact hupd _
  -- reduce to a statement about the block
  suffices hkey : ((s.block p orc).1.provIngest : Int)
      + ((l8W s.ilDemand p : Nat) : Int) + ((l8F s.ilDemand s.procs : Nat) : Int)
      = s.provIngest + ((l8W s.ilDemand (fin (s.block p orc).2.1 (s.block p orc).2.2 p.wake p) : Nat) : Int)
        + ((l8F s.ilDemand (s.block p orc).1.procs : Nat) : Int) by
    unfold l8G
    rw [hdemR, hprovR, hprocsR, l8F_append, l8F_cons]
    rw [hX12, l8F_append, l8F_cons] at hkey
    push_cast at hkey ⊢
    omega
  by_cases hk : p.k = .telescope
  · -- the telescope's block
    have hG := l8_telescopeBlock_G s p.wake
    have hb := block_telescope (s := s) orc hk
    have hdemX : (s.block p orc).1.ilDemand = s.ilDemand := by
      have h1 : ObsKeep s (s.block p orc).1 := by
        rcases blockEvents_telescope (s := s) orc hk with ⟨_, hb', _⟩ | ⟨s0, e0, _, g2, _, _, _, _, _, hrun, _⟩
        · rw [hb']; exact ObsKeep.of_eq rfl
        · exact (ObsKeep.of_eq g2 : ObsKeep s s0).trans (telRun_keep hrun)
      exact l8_ilDemand_keep h1
    have hw1 : l8W s.ilDemand p = 0 := l8W_neutral _ (by rw [hk]; rfl)
    have hw2 : l8W s.ilDemand (fin (s.block p orc).2.1 (s.block p orc).2.2 p.wake p) = 0 :=
      l8W_neutral _ (by rw [fin_k, hb]; rfl)
    rw [hw1, hw2]
    have hG' : l8G (s.block p orc).1 = l8G s := by rw [hb]; exact hG
    unfold l8G at hG'
    rw [hdemX] at hG'
    push_cast
    omega
  · have hneutral : ∀ q ∈ new, q.k.aiObs = none := fun q hq => l8_newKind_neutral (hnewp q hq).2.2.2 hk
    rw [hnew, l8F_append, l8F_neutral _ hneutral]
    by_cases hk2 : ∃ oid tl, p.k = .allocIngest oid tl
    · -- the supervisor's block
      obtain ⟨oid, tl, hk2⟩ := hk2
      have hb := block_allocIngest (s := s) orc hk2
      obtain ⟨_, ⟨tl', hk'⟩, _⟩ := allocIngestBlock_E s p.wake p.pc oid tl
      obtain ⟨ht, hd⟩ := l8_allocIngestBlock_prov s p.wake p.pc oid tl
      rw [← hb] at hk' ht hd
      have hw1 : l8W s.ilDemand p = s.ilDemand oid := l8W_live _ ha (by rw [hk2]; rfl)
      rw [hw1]
      cases hy : (s.block p orc).2.2 with
      | timeout d =>
        have hw2 : l8W s.ilDemand (fin (s.block p orc).2.1 (.timeout d) p.wake p) = s.ilDemand oid :=
          l8W_live _ ha (by rw [fin_k, hk']; rfl)
        rw [hw2, ht d hy]
        push_cast
        omega
      | done =>
        have hw2 : l8W s.ilDemand (fin (s.block p orc).2.1 .done p.wake p) = 0 := l8W_dead _ rfl
        rw [hw2, hd hy]
        push_cast
        omega
      | raised err => exact absurd hy (hnr' err)
    · have h1 : p.k.tag ≠ "telescope" := by
        intro e; apply hk; cases hpk : p.k <;> rw [hpk] at e <;> simp [PK.tag] at e <;> rfl
      have h2 : p.k.tag ≠ "allocIngest" := by
        intro e; apply hk2; cases hpk : p.k <;> rw [hpk] at e <;> simp [PK.tag] at e
        exact ⟨_, _, rfl⟩
      have hw1 : l8W s.ilDemand p = 0 :=
        l8W_neutral _ (by cases hpk : p.k <;> first | rfl | (rw [hpk] at h2; exact absurd rfl h2))
      have hw2 : l8W s.ilDemand (fin (s.block p orc).2.1 (s.block p orc).2.2 p.wake p) = 0 := by
        apply l8W_neutral
        rw [fin_k]
        cases hpk : (s.block p orc).2.1 <;> first | rfl | (rw [hpk] at htag; exact absurd htag.symm h2)
      rw [hw1, hw2, l8_block_prov s hpw p orc hpre h1 h2]
      push_cast
      omega

theorem l8_G_start (s0 : Sys) (hw : WFConfig s0) : l8G s0.start = 0 := by
  obtain ⟨_, _, _, _, _, _, _, _, _, _, hprov, _⟩ := hw.fresh
  have hp := start_procs s0 hw
  have h1 : s0.start.provIngest = s0.provIngest := by simp [start, spawn]
  unfold l8G
  rw [h1, hprov, hp]
  have : l8F s0.start.ilDemand
      [{ pid := 0, k := .monitor, wake := 0 }, { pid := 1, k := .telescope, wake := 0 },
       { pid := 2, k := .clusterLoop, wake := 0 }, { pid := 3, k := .schedLoop, wake := 0 },
       { pid := 4, k := .bufferLoop, wake := 0 }] = 0 := by
    apply l8F_neutral
    intro q hq
    simp only [List.mem_cons, List.not_mem_nil, or_false] at hq
    rcases hq with rfl | rfl | rfl | rfl | rfl <;> rfl
  rw [this]; rfl

end Sys

section
variable {env : SimEnv} {s0 : Sys}

/-- **The exact ingest ledger.**  Along the run the counter `provIngest` is the sum of the pipeline
demands of the observations whose ingest supervisor is alive. -/
theorem live_ledger (C : LiveCfg env s0) (K : LiveKernel env s0) (n : Nat) :
    (simAt env s0 n).st.provIngest =
      ((Sys.l8F (simAt env s0 n).st.ilDemand (simAt env s0 n).st.procs : Nat) : Int) := by
  have h : Sys.l8G (simAt env s0 n).st = 0 := by
    induction n with
    | zero => exact Sys.l8_G_start s0 C.hw
    | succ n ih =>
      obtain ⟨e, p, _, hpp, _, _, hen, hnr, hst⟩ := l8_step C K n
      rw [hst, Sys.l8_G_step (l8_sinv C K n) hen _ (l8_oracle_preOk C K n _) ?_]
      · exact ih
      · intro p' hp' err
        rw [hpp] at hp'; cases hp'
        exact hnr err
  unfold Sys.l8G at h
  omega

/-- no live ingest supervisor: the counter is zero -/
theorem live_provIngest_zero (C : LiveCfg env s0) (K : LiveKernel env s0) (n : Nat)
    (hq : ∀ q ∈ (simAt env s0 n).st.procs, q.alive = true → q.k.tag ≠ "allocIngest") :
    (simAt env s0 n).st.provIngest = 0 := by
  rw [live_ledger C K n]
  have : ilLiveAI (simAt env s0 n).st.procs = [] := by
    apply List.eq_nil_iff_forall_not_mem.mpr
    intro o ho
    obtain ⟨q, hq', hqa, hqk⟩ := mem_ilLiveAI.mp ho
    apply hq q hq' hqa
    cases hk : q.k <;> rw [hk] at hqk <;> simp [PK.aiObs] at hqk
    rfl
  unfold Sys.l8F
  rw [this]; rfl

end

end Topsim
