/-
  LifeCycle19 — on the trace: `telFinished` is exactly one observation duration after `telStarted`.
-/
import TopsimProofs.LifeCycle18

namespace Topsim
namespace Sys

/-- every `telFinished` of the trace comes with a `telStarted` of the same observation exactly
one duration earlier -/
def FinExact (s : Sys) (evs : List Event) : Prop :=
  ∀ eB ∈ evs, eB.kind = .telFinished → ∃ ob, s.obs? eB.obs = some ob ∧
    hasEv evs eB.obs .telStarted (fun t => t + ob.duration = eB.time)

theorem reachEv_finExact {s0 s : Sys} {evs : List Event} (hw : WFConfig s0) (h : ReachEv s0 s evs) :
    FinExact s evs := by
  induction h with
  | start => intro eB he; simp at he
  | step s evs pid orc hr hen ih =>
    have htw := reachEv_tw hw hr
    intro eB he hk
    have hkeep : ∀ ob, s.obs? eB.obs = some ob → ∃ ob', (s.resume pid orc).1.obs? eB.obs = some ob' ∧
        ob'.duration = ob.duration := by
      intro ob hob
      obtain ⟨ob', h1, _, h2, _⟩ := status_monotone s pid orc eB.obs ob hob
      exact ⟨ob', h1, h2⟩
    rcases List.mem_append.mp he with he | he
    · obtain ⟨ob, hob, hev⟩ := ih eB he hk
      obtain ⟨ob', hob', hd⟩ := hkeep ob hob
      exact ⟨ob', hob', by rw [hd]; exact hev.left _⟩
    · obtain ⟨ob, a, hob, hast, ht⟩ := step_telFinished_exact hw hr.toReach hen orc eB he hk
      obtain ⟨ob', hob', hd⟩ := hkeep ob hob
      refine ⟨ob', hob', ?_⟩
      rw [hd]
      exact ((htw.ast eB.obs ob a hob hast).imp (fun t e => by rw [e, ht])).left _

end Sys
end Topsim
