/-
  LiveB20 — BatchProcessing: the declarations of Live20 that depend on the configuration hypotheses,
  for `LiveCfgB` / `NcCfgB` (`s0.alg = .batch …`).  Generated from Live20.lean by renaming (suffix `_B`);
  the algorithm-dependent ones are rewritten (see the comments).
-/
import TopsimProofs.Fit2
import TopsimProofs.Live20
import TopsimProofs.LiveB5
import TopsimProofs.LiveB6
import TopsimProofs.LiveB6b
import TopsimProofs.LiveB6c
import TopsimProofs.LiveB6d
import TopsimProofs.LiveB7
import TopsimProofs.LiveB7c
import TopsimProofs.LiveB7d
import TopsimProofs.LiveB7e
import TopsimProofs.LiveB7g
import TopsimProofs.LiveB7h
import TopsimProofs.LiveB7i
import TopsimProofs.LiveB8
import TopsimProofs.LiveB8b
import TopsimProofs.LiveB8c
import TopsimProofs.LiveB8d
import TopsimProofs.LiveB8e
import TopsimProofs.LiveB8f
import TopsimProofs.LiveB8g
import TopsimProofs.LiveB8h
import TopsimProofs.LiveB9
import TopsimProofs.LiveB10
import TopsimProofs.LiveB11
import TopsimProofs.LiveB12
import TopsimProofs.LiveB13
import TopsimProofs.LiveB14
import TopsimProofs.LiveB15b2
import TopsimProofs.LiveB17
import TopsimProofs.LiveB17b
import TopsimProofs.LiveB17d
import TopsimProofs.LiveB17e
import TopsimProofs.LiveB17f
import TopsimProofs.LiveB17g
import TopsimProofs.LiveB18
import TopsimProofs.LiveB19
import TopsimProofs.LiveB23

namespace Topsim
open KState Sys
section
variable {env : SimEnv} {s0 : Sys}

theorem ncOrder_B (N : NcCfgB env s0) : NcOrderB env s0 where
  -- F14: from the accounting invariant `sim_fit` (Fit2), no `OneAdmission` hypothesis
  prov := fun n _ _ _ _ hpp ha _ _ hk hpc =>
    sim_provIngest_fits env s0 N.hw N.hb0.1 _ (simAt_reach env s0 n) (proc?_some hpp).1 ha hk hpc
  alloc := fun n hc _ _ hpk hpp ha _ _ _ _ _ hk hpc => nc_allocTask_idle_B N n hc hpk hpp ha hk hpc

/-- **No block raises** (BatchProcessing; H1: no tiering; H2: one admission per telescope block). -/
theorem live_noRaise_B (N : NcCfgB env s0) : NoRaise env s0 := nc_noRaise_B N (ncOrder_B N)

/-- **Termination**: after some number of kernel steps the run is at `is_finished()` and no block
has raised. -/
theorem live_terminates_cfg_B (N : NcCfgB env s0) :
    ∃ n, (ilSimSteps env n (SimState.start s0)).st.isFinished = true ∧
      (ilSimSteps env n (SimState.start s0)).st.crashed = none ∧
      SimRun env s0 (ilSimSteps env n (SimState.start s0)) := by
  obtain ⟨n, h1, h2, h3⟩ := live_terminates_noRaise_B (N.toLive (live_noRaise_B N)) N.hh0
  refine ⟨n, ?_⟩
  rw [← simAt_eq_ilSimSteps]
  exact ⟨h1, h2, h3⟩
end
end Topsim
