/-
  Preced15 — `PX` under the blocks of every process other than a task body.
-/
import TopsimProofs.Preced14

namespace Topsim
namespace Sys

open Cluster

theorem nat_lt_succ_le {a b : Nat} (h : (a : Time) < (b : Time)) : (a : Time) + 1 ≤ (b : Time) := by
  have h1 : a < b := by exact_mod_cast h
  have h2 : a + 1 ≤ b := h1
  have : ((a + 1 : Nat) : Time) ≤ (b : Time) := by exact_mod_cast h2
  simpa using this

theorem not_isDoWork_of_tag {k : PK} (h : k.tag ≠ "doWork") : k.isDoWork = false := by
  cases k <;> simp [PK.tag, PK.isDoWork] at h ⊢

/-- new processes no clause of `PX` constrains -/
def HarmlessX (X : Sys) (k : PK) : Prop :=
  k.tag ≠ "doWork" ∧ (∀ t m cross obs ret, k ≠ .allocTask t m cross obs false ret) ∧
  (∀ o sc pa po fn, k = .allocTasks o sc pa po fn → sc = [] ∧ ∀ c n, ¬ FinT X (Tid.wf o c n))

/-- a block of a process that is not a task body -/
theorem px_step_quiet {s : Sys} (h : PX s) (hs : SInv s) {p : Proc} (hp : p ∈ s.procs) (ha : p.alive = true)
    (hmin : ∀ q ∈ s.procs, q.alive = true → p.wake ≤ q.wake) (orc : Oracle)
    (hT : TaskStep s (s.block p orc).1) (hndw : p.k.tag ≠ "doWork")
    (hFn : ∀ o c n, FinT (s.block p orc).1 (Tid.wf o c n) → FinT s (Tid.wf o c n) ∨
      ∀ rq f, (s.block p orc).1.task? (Tid.wf o c n) = some rq → rq.aft = some f →
        ∀ q ∈ s.procs, q.alive = true → ∀ sc pa po fn, q.k = .allocTasks o sc pa po fn → f ≤ q.wake)
    (hFreshObs : ∀ t r', s.task? t = none → (s.block p orc).1.task? t = some r' → ∀ o c n, t = Tid.wf o c n →
      ∀ q ∈ r'.preds, ∃ u, q = Tid.wf o c u)
    (hown1 : ∀ o sc pa po fn, (s.block p orc).2.1 = .allocTasks o sc pa po fn →
      (∀ t ∈ dictKeys sc, ∃ c n, t = Tid.wf o c n) ∧ ∃ sc0 pa0 po0 fn0, p.k = .allocTasks o sc0 pa0 po0 fn0)
    (hown2 : ∀ t m cross obs ret, (s.block p orc).2.1 = .allocTask t m cross obs false ret →
      ∃ o c n, obs = some o ∧ t = Tid.wf o c n)
    (hnew : ∀ q ∈ (s.block p orc).1.procs, q ∉ s.procs → HarmlessX (s.block p orc).1 q.k ∨
      (∃ t m cross obs ret, q.k = .allocTask t m cross obs false ret ∧ (∃ o c n, obs = some o ∧ t = Tid.wf o c n) ∧
        ∀ r, (s.block p orc).1.task? t = some r → ∀ x ∈ r.preds,
          ∀ rq f, (s.block p orc).1.task? x = some rq → rq.aft = some f → f ≤ p.wake) ∨
      (∃ t m cross, q.k = .doWork t m cross 0 0 ∧ (IsWf t →
        ∀ r, (s.block p orc).1.task? t = some r → ∀ x ∈ r.preds,
          ∀ rq f, (s.block p orc).1.task? x = some rq → rq.aft = some f → f ≤ p.wake))) :
    PX ((s.block p orc).1.updProc p.pid (fin (s.block p orc).2.1 (s.block p orc).2.2 p.wake)) := by
  obtain ⟨np, hnp⟩ := h.natWake p hp hndw
  have htel : p.k = .telescope → ((natNow p.wake : Nat) : Time) = p.wake := by
    intro _; rw [hnp, natNow_natCast]
  have hpc := resume_procs hs hp ha hmin orc htel
  have htag := block_tag s hs.pw p orc
  have hk'dw : ∀ t m cross ph tot, (s.block p orc).2.1 ≠ .doWork t m cross ph tot := by
    intro t m cross ph tot e
    rw [e] at htag; exact hndw htag.symm
  have hp'wake : (fin (s.block p orc).2.1 (s.block p orc).2.2 p.wake p).alive = true →
      p.wake ≤ (fin (s.block p orc).2.1 (s.block p orc).2.2 p.wake p).wake :=
    fin_wake_ge _ _ p (fun d hd => block_delay_nonneg s p orc d hd)
  refine h.quiet hs (hT.of_tasks_eq rfl) ?_ hFreshObs ?_ ?_ ?_ ?_ ?_ ?_
  · -- finished tasks
    intro o c n hq
    rcases hFn o c n hq with h1 | h1
    · exact Or.inl h1
    · right
      intro rq f h2 h3 q hq' hqa sc pa po fn hqk
      rcases hpc q hq' with rfl | ⟨h4, h5⟩ | ⟨h4, h5, _⟩
      · simp only [fin_k] at hqk
        obtain ⟨_, sc0, pa0, po0, fn0, hpk⟩ := hown1 o sc pa po fn hqk
        have g1 := h1 rq f h2 h3 p hp ha sc0 pa0 po0 fn0 hpk
        have g2 := hp'wake hqa
        grind
      · exact h1 rq f h2 h3 q h4 hqa sc pa po fn hqk
      · rcases hnew q h4 h5 with hh | ⟨t', m', cross', obs', ret', e, _⟩ | ⟨t', m', cross', e, _⟩
        · exact absurd hq ((hh.2.2 o sc pa po fn hqk).2 c n)
        · rw [e] at hqk; exact absurd hqk (by simp)
        · rw [e] at hqk; exact absurd hqk (by simp)
  · -- whole instants
    intro q hq hqt
    rcases hpc q hq with rfl | ⟨h1, _⟩ | ⟨_, _, h3, _⟩
    · have hu := block_unit s p orc (not_isDoWork_of_tag hndw)
      generalize (s.block p orc).2.2 = y at hu ⊢
      cases y with
      | timeout d =>
        simp only [Yield.unit] at hu
        subst hu
        exact ⟨np + 1, by show p.wake + 1 = _; rw [hnp]; simp⟩
      | done => exact ⟨np, hnp⟩
      | raised e => exact ⟨np, hnp⟩
    · exact h.natWake q h1 hqt
    · exact ⟨np, by rw [h3]; exact hnp⟩
  · -- local schedules: observation
    intro q hq o sc pa po fn hqk
    rcases hpc q hq with rfl | ⟨h1, _⟩ | ⟨h1, h2, _⟩
    · simp only [fin_k] at hqk; exact (hown1 o sc pa po fn hqk).1
    · exact h.schedObs q h1 o sc pa po fn hqk
    · rcases hnew q h1 h2 with hh | ⟨t', m', cross', obs', ret', e, _⟩ | ⟨t', m', cross', e, _⟩
      · rw [(hh.2.2 o sc pa po fn hqk).1]; intro t ht; simp [dictKeys] at ht
      · rw [e] at hqk; exact absurd hqk (by simp)
      · rw [e] at hqk; exact absurd hqk (by simp)
  · -- allocation processes: observation
    intro q hq t m cross obs ret hqk
    rcases hpc q hq with rfl | ⟨h1, _⟩ | ⟨h1, h2, _⟩
    · simp only [fin_k] at hqk; exact hown2 t m cross obs ret hqk
    · exact h.atObs q h1 t m cross obs ret hqk
    · rcases hnew q h1 h2 with hh | ⟨t', m', cross', obs', ret', e, ho, _⟩ | ⟨t', m', cross', e, _⟩
      · exact absurd hqk (hh.2.1 t m cross obs ret)
      · rw [e] at hqk
        simp only [PK.allocTask.injEq] at hqk
        obtain ⟨e1, _, _, e4, _⟩ := hqk
        subst e1 e4
        exact ho
      · rw [e] at hqk; exact absurd hqk (by simp)
  · -- live `allocate_tasks`
    intro q hq hqa o sc pa po fn hqk
    rcases hpc q hq with rfl | ⟨h1, _⟩ | ⟨h1, h2, _⟩
    · simp only [fin_k] at hqk
      obtain ⟨_, hpk⟩ := hown1 o sc pa po fn hqk
      exact Or.inl ⟨p, hp, ha, hpk, hp'wake hqa⟩
    · exact Or.inl ⟨q, h1, hqa, ⟨sc, pa, po, fn, hqk⟩, Rat.le_refl⟩
    · rcases hnew q h1 h2 with hh | ⟨t', m', cross', obs', ret', e, _⟩ | ⟨t', m', cross', e, _⟩
      · exact Or.inr (hh.2.2 o sc pa po fn hqk).2
      · rw [e] at hqk; exact absurd hqk (by simp)
      · rw [e] at hqk; exact absurd hqk (by simp)
  · -- allocation processes before their first block
    intro q hq hqa hqpc t m cross obs ret hqk
    rcases hpc q hq with rfl | ⟨h1, _⟩ | ⟨h1, h2, h3, _⟩
    · simp only [fin_pc] at hqpc; omega
    · exact Or.inl h1
    · rcases hnew q h1 h2 with hh | ⟨t', m', cross', obs', ret', e, _, hb⟩ | ⟨t', m', cross', e, _⟩
      · exact absurd hqk (hh.2.1 t m cross obs ret)
      · rw [e] at hqk
        simp only [PK.allocTask.injEq] at hqk
        obtain ⟨e1, _⟩ := hqk
        subst e1
        right; rw [h3]; exact hb
      · rw [e] at hqk; exact absurd hqk (by simp)
  · -- bodies before their start
    intro d hd hda t m cross ph tot hdk hph hw
    rcases hpc d hd with rfl | ⟨h1, _⟩ | ⟨h1, h2, h3, _⟩
    · simp only [fin_k] at hdk; exact absurd hdk (hk'dw t m cross ph tot)
    · exact Or.inl h1
    · rcases hnew d h1 h2 with hh | ⟨t', m', cross', obs', ret', e, _⟩ | ⟨t', m', cross', e, hb⟩
      · exact absurd (by rw [hdk]; rfl) hh.1
      · rw [e] at hdk; exact absurd hdk (by simp)
      · rw [e] at hdk
        simp only [PK.doWork.injEq] at hdk
        obtain ⟨e1, _⟩ := hdk
        subst e1
        right; rw [h3]; exact hb hw

end Sys
end Topsim
