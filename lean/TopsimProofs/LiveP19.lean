/-
  LiveP19 — the declarations of Live19.lean that depend on the configuration structures, restated for
  the plan-following configurations (`LivePCfg`, `NcPCfg`, `L7PLib`); the proofs are those of Live19.lean.
-/
import TopsimProofs.LiveP18

namespace Topsim

open KState Sys

/-- **No silent hang.**  Queue algorithm, batch planning, feasible and well-formed configuration,
initially empty full-free buffer, H1 (`NoTierCfg`), topologically ordered workflows, ANY delay
table / delay script: after some number of kernel steps the run has raised an exception, or it is
at `is_finished()` with no exception raised. -/
theorem live_no_silent_hang_P (env : SimEnv) (s0 : Sys) (hw : Sys.WFConfig s0) (hfe : Sys.Feasible s0)
    (hb0 : s0.buf.hot.stored = [] ∧ s0.buf.hot.scheduled = [] ∧ s0.buf.hot.finished = [] ∧
      s0.buf.cold.stored = [])
    (hfull : s0.buf.size = [] ∧ s0.buf.hot.cur = s0.buf.hot.total ∧ s0.buf.cold.cur = s0.buf.cold.total)
    (hct : s0.buf.cold.transfer = none) (hh0 : s0.halted = false)
    (hH1 : Sys.NoTierCfg s0) (halg : PlanAlg s0.alg) (hstat : s0.staticPlan = true)
    (htopo : ∀ o ∈ s0.obs, IsTopo o.wf) (hplan : PlanOk env s0) :
    ∃ n, (ilSimSteps env n (SimState.start s0)).st.crashed ≠ none ∨
      ((ilSimSteps env n (SimState.start s0)).st.isFinished = true ∧
        (ilSimSteps env n (SimState.start s0)).st.crashed = none ∧
        SimRun env s0 (ilSimSteps env n (SimState.start s0))) := by
  by_cases hnr : NoRaise env s0
  · have C : LivePCfg env s0 := ⟨hw, hfe, hb0, hfull, hct, hH1, halg, hstat, htopo, hplan, hnr⟩
    obtain ⟨n, h1, h2, h3⟩ := live_terminates_noRaise_P C hh0
    refine ⟨n, Or.inr ?_⟩
    rw [← simAt_eq_ilSimSteps]
    exact ⟨h1, h2, h3⟩
  · have : ∃ n, (simAt env s0 n).st.crashed ≠ none := by
      apply Classical.byContradiction
      intro hno
      apply hnr
      intro n
      cases h : (simAt env s0 n).st.crashed with
      | none => rfl
      | some e => exact absurd ⟨n, by rw [h]; simp⟩ hno
    obtain ⟨n, hn⟩ := this
    refine ⟨n, Or.inl ?_⟩
    rw [← simAt_eq_ilSimSteps]
    exact hn

end Topsim

