/-
  LiveP8g — the declarations of Live8g.lean that depend on the configuration structures, restated for
  the plan-following configurations (`LivePCfg`, `NcPCfg`, `L7PLib`); the proofs are those of Live8g.lean.
-/
import TopsimProofs.LiveP8f

namespace Topsim

open KState Sys

namespace Sys

end Sys

section

variable {env : SimEnv} {s0 : Sys}

theorem l8_hsz0_P (C : LivePCfg env s0) : s0.buf.size = [] ∧ s0.buf.hot.cur ≤ s0.buf.hot.total ∧
    s0.buf.cold.cur ≤ s0.buf.cold.total :=
  ⟨C.hfull.1, Int.le_of_eq C.hfull.2.1, Int.le_of_eq C.hfull.2.2⟩

theorem l8_si_P (C : LivePCfg env s0) (K : LiveKernel env s0) (n : Nat) : SI (simAt env s0 n).st :=
  (reachOk_sh2 s0 _ C.hw (l8_bufList_P C) (l8_hsz0_P C) (l8_rate_P C) (l8_reachOk_P C K n) (C.nr n)).1

theorem l8_sp_P (C : LivePCfg env s0) (K : LiveKernel env s0) (n : Nat) : SP (simAt env s0 n).st :=
  reachOk_sp s0 _ C.hw (l8_bufList_P C) (l8_hsz0_P C) (l8_rate_P C) (l8_reachOk_P C K n) (C.nr n)

theorem live_ds_P (C : LivePCfg env s0) (K : LiveKernel env s0) (n : Nat) : Sys.l8DS (simAt env s0 n).st := by
  induction n with
  | zero => exact Sys.l8_ds_start s0 C.hw
  | succ n ih =>
    obtain ⟨e, p, _, hpp, _, _, hen, hnr, hst⟩ := l8_step_P C K n
    rw [hst]
    refine Sys.l8_ds_step (l8_sinv_P C K n) (l8_bufi_P C K n) (l8_si_P C K n) (l8_sp_P C K n) (live_noTier_P C K n).1
      ih hen _ ?_
    intro p' hp' err
    rw [hpp] at hp'; cases hp'
    exact hnr err

/-- **J3.**  A FINISHED observation whose ingest stream is no longer alive is stored, or has been
handed to the scheduler. -/
theorem live_finished_stored_P (C : LivePCfg env s0) (K : LiveKernel env s0) (n : Nat) {ob : Obs}
    (hob : ob ∈ (simAt env s0 n).st.obs) (hfin : ob.status = .finished)
    (hns : ∀ q ∈ (simAt env s0 n).st.procs, q.alive = true → ∀ tl, q.k ≠ .ingestStream ob.id tl) :
    ob.id ∈ (simAt env s0 n).st.buf.hot.stored ∨ Sys.PQ ob.id (simAt env s0 n).st := by
  obtain ⟨q, hq, tl, hqk, _⟩ := (l8_si_P C K n).fs ob hob hfin
  have hqd : q.alive = false := by
    cases hqa : q.alive with
    | false => rfl
    | true => exact absurd hqk (hns q hq hqa tl)
  rcases live_ds_P C K n q hq hqd ob.id tl hqk with h | h | h
  · exact Or.inl h
  · exact Or.inr (Or.inl h)
  · exact Or.inr (Or.inr h)

end

end Topsim

