/-
  Preced2 — time along a run: processes created by a block are due at the time of
  the block, a process is never resumed with a negative delay; the exact shape of a
  `do_work` block (what it writes to the task records).
-/
import TopsimProofs.FinishWf3
import TopsimProofs.MonitorFirst

namespace Topsim

/-! ### transfer waits are not negative -/

theorem foldl_wait_ge (now : Time) (bw : Nat) (l : List (Time × Nat)) (mx : Time) :
    mx ≤ l.foldl (fun mx (p : Time × Nat) =>
      let arrive := p.1 + (p.2 : Rat) / (bw : Rat) - now
      if arrive > mx then arrive else mx) mx := by
  induction l generalizing mx with
  | nil => exact Rat.le_refl
  | cons x r ih =>
    simp only [List.foldl_cons]
    split
    · rename_i h
      exact Rat.le_trans (Rat.le_of_lt h) (ih _)
    · exact ih _

theorem waitForTransfer_nonneg (now : Time) (bw : Nat) (l : List (Time × Nat)) :
    0 ≤ waitForTransfer now bw l := foldl_wait_ge now bw l 0

namespace Sys

/-! ### processes created by a block -/

/-- every entry of the new table is an old one or was created alive, due at `now` -/
def NewW (now : Time) (s s' : Sys) : Prop :=
  ∀ q ∈ s'.procs, q ∈ s.procs ∨ (q.wake = now ∧ q.alive = true ∧ q.pc = 0)

theorem NewW.refl (now : Time) (s : Sys) : NewW now s s := fun _ h => Or.inl h

theorem NewW.trans {now : Time} {a b c : Sys} (h1 : NewW now a b) (h2 : NewW now b c) : NewW now a c := by
  intro q hq
  rcases h2 q hq with h | h
  · exact h1 q h
  · exact Or.inr h

theorem NewW.of_eq {now : Time} {s s' : Sys} (h : s'.procs = s.procs) : NewW now s s' := by
  intro q hq; rw [h] at hq; exact Or.inl hq

theorem NewW.spawn (now : Time) (s : Sys) (k : PK) : NewW now s (s.spawn k now).1 := by
  intro q hq
  simp only [spawn_procs, List.mem_append, List.mem_singleton] at hq
  rcases hq with hq | rfl
  · exact Or.inl hq
  · exact Or.inr ⟨rfl, rfl, rfl⟩

theorem NewW.foldl {now : Time} {α : Type} (f : Sys → α → Sys) (hf : ∀ s a, NewW now s (f s a))
    (l : List α) (s : Sys) : NewW now s (l.foldl f s) := by
  induction l generalizing s with
  | nil => exact NewW.refl _ _
  | cons a rest ih => exact (hf s a).trans (ih _)

/-- close the leaves of a fully split block -/
macro "neww_leaf" : tactic =>
  `(tactic| (intro q hq
             try simp [spawn, updTask, updObs, updPlan, addTel, addSch, addBuf, collate] at hq
             first
               | exact Or.inl hq
               | (rcases hq with hq | hq
                  · exact Or.inl hq
                  · subst hq; exact Or.inr ⟨rfl, rfl, rfl⟩)
               | (rcases hq with hq | hq | hq
                  · exact Or.inl hq
                  · subst hq; exact Or.inr ⟨rfl, rfl, rfl⟩
                  · subst hq; exact Or.inr ⟨rfl, rfl, rfl⟩)))

macro "neww" : tactic => `(tactic| ((repeat' split) <;> neww_leaf))

theorem telescopeVisit_neww (now : Time) (n : Nat) (hn : (n : Time) = now) (acc : Sys × Option Err)
    (oid : Oid) : NewW now acc.1 (telescopeVisit n acc oid).1 := by
  unfold telescopeVisit
  split
  · exact NewW.refl _ _
  · split
    · exact NewW.refl _ _
    · simp only
      split
      · split
        · exact NewW.refl _ _
        · rename_i s1 hc
          exact NewW.of_eq (checkIngestCapacity_procs _ _ _ _ hc)
        · rename_i s1 hc
          have := checkIngestCapacity_procs _ _ _ _ hc
          intro q hq
          simp [spawn, updObs, addTel, this] at hq
          rcases hq with hq | hq
          · exact Or.inl hq
          · subst hq
            exact Or.inr ⟨hn, rfl, rfl⟩
      · split
        · neww_leaf
        · exact NewW.refl _ _

theorem telescopeFold_neww (now : Time) (n : Nat) (hn : (n : Time) = now) (l : List Oid)
    (acc : Sys × Option Err) : NewW now acc.1 (l.foldl (telescopeVisit n) acc).1 := by
  induction l generalizing acc with
  | nil => exact NewW.refl _ _
  | cons a rest ih => exact (telescopeVisit_neww now n hn acc a).trans (ih _)

theorem telescopeBlock_neww (s : Sys) (now : Time) (hn : ((natNow now : Nat) : Time) = now) :
    NewW now s (s.telescopeBlock now).1 := by
  unfold telescopeBlock
  split
  · neww_leaf
  · simp only
    split
    all_goals
      rename_i heq
      have h := congrArg Prod.fst heq
      simp only at h
      rw [← h]
      refine NewW.trans ?_ (telescopeFold_neww now _ hn _ _)
      neww_leaf

theorem schedLoopBlock_neww (s : Sys) (now : Time) (orc : Oracle) :
    NewW now s (s.schedLoopBlock now orc).1 := by
  unfold schedLoopBlock
  simp only
  neww

theorem bufferLoopBlock_neww (s : Sys) (now : Time) : NewW now s (s.bufferLoopBlock now).1 := by
  unfold bufferLoopBlock
  simp only
  neww

theorem allocIngestIter_neww (s : Sys) (now : Time) (oid : Oid) (tl : Int) :
    NewW now s (s.allocIngestIter now oid tl).1 := by
  unfold allocIngestIter
  simp only
  neww

theorem allocIngestBlock_neww (s : Sys) (now : Time) (pc : Nat) (oid : Oid) (tl : Int) :
    NewW now s (s.allocIngestBlock now pc oid tl).1 := by
  unfold allocIngestBlock
  split
  · simp only
    refine NewW.trans ?_ (allocIngestIter_neww _ _ _ _)
    neww_leaf
  · exact allocIngestIter_neww _ _ _ _

theorem provIngestBlock_neww (s : Sys) (now : Time) (pc : Nat) (oid : Oid) (d : Nat) :
    NewW now s (s.provIngestBlock now pc oid d).1 := by
  unfold provIngestBlock
  split
  · simp only
    split
    · neww_leaf
    · refine NewW.trans ?_ (NewW.foldl _ ?_ _ _)
      · neww_leaf
      · intro s a; exact NewW.spawn _ _ _
  · neww_leaf

theorem allocTaskBlock_neww (s : Sys) (now : Time) (t : Tid) (m : Mid) (preds : List Tid)
    (obs : Option Oid) (ing : Bool) (ret : Nat) :
    NewW now s (s.allocTaskBlock now t m preds obs ing ret).1 := by
  unfold allocTaskBlock
  simp only
  neww

theorem processOne_neww (now : Time) (oid : Oid) (st : PcsSt) (t : Tid) :
    NewW now st.s (processOne now oid st t).s := by
  unfold processOne
  simp only
  neww

theorem processFold_neww (now : Time) (oid : Oid) (l : List Tid) (st : PcsSt) :
    NewW now st.s (l.foldl (processOne now oid) st).s := by
  induction l generalizing st with
  | nil => exact NewW.refl _ _
  | cons a rest ih => exact (processOne_neww now oid st a).trans (ih _)

theorem allocTasksBlock_neww (s : Sys) (now : Time) (orc : Oracle) (pc : Nat) (oid : Oid)
    (schedule pairs : List (Tid × Mid)) (pool : List Tid) (fin : Bool) :
    NewW now s (s.allocTasksBlock now orc pc oid schedule pairs pool fin).1 := by
  cases fin with
  | true => rw [allocTasksBlock_fin]; exact NewW.refl _ _
  | false =>
    rw [allocTasksBlock_eq]
    have h0 : NewW now s (atStart s now pc oid) := NewW.of_eq (atStart_procs s now pc oid)
    refine h0.trans ?_
    generalize atStart s now pc oid = a
    have hu : NewW now a (a.updateCurrentPlan oid) := NewW.of_eq (updateCurrentPlan_procs a oid)
    have h3 : ∀ out, NewW now a (atS3 (a.updateCurrentPlan oid) out oid) :=
      fun out => hu.trans (NewW.of_eq (atS3_procs _ out oid))
    have hout := allocTasksIter_out a now orc oid schedule pairs pool
    generalize a.allocTasksIter now orc oid schedule pairs pool = r at hout
    cases hout with
    | noPlan _ => exact hu
    | algErr _ _ _ _ => exact hu
    | finish plan out _ _ _ _ _ _ => exact (h3 out).trans (NewW.of_eq rfl)
    | finishBad plan out _ _ _ _ _ _ => exact (h3 out).trans (NewW.of_eq rfl)
    | finishWait plan out _ _ _ _ _ => exact (h3 out).trans (NewW.of_eq rfl)
    | idle plan out _ _ _ _ => exact h3 out
    | alloc plan out y _ _ _ _ =>
      refine (h3 out).trans ?_
      unfold processCurrentSchedule
      exact processFold_neww now oid _ _

/-- the processes a block creates are alive and due at the time of the block -/
theorem block_neww (s : Sys) (p : Proc) (orc : Oracle)
    (htel : p.k = .telescope → ((natNow p.wake : Nat) : Time) = p.wake) :
    NewW p.wake s (s.block p orc).1 := by
  unfold block
  simp only
  split
  · exact NewW.of_eq rfl
  · rename_i hk; exact telescopeBlock_neww _ _ (htel hk)
  · exact NewW.of_eq rfl
  · exact schedLoopBlock_neww _ _ _
  · exact bufferLoopBlock_neww _ _
  · exact allocIngestBlock_neww _ _ _ _ _
  · exact provIngestBlock_neww _ _ _ _ _
  · exact NewW.of_eq (ingestStreamBlock_procsq _ _ _ _ _)
  · exact allocTaskBlock_neww _ _ _ _ _ _ _ _
  · exact NewW.of_eq (doWorkBlock_spec _ _ _ _ _ _ _ _).1
  · exact allocTasksBlock_neww _ _ _ _ _ _ _ _ _
  · exact NewW.of_eq (hot2coldBlock_procsq _ _ _)
  · exact NewW.of_eq (cold2hotBlock_procsq _ _ _)

/-! ### the exact shape of a `do_work` block -/

/-- what the start of the body writes to the records of its task -/
def dwStartF (now : Time) (dur : Nat) (r : TaskRec) : TaskRec :=
  { r with status := .running, ast := some now, duration := dur }

/-- what the end of the body writes to the records of its task -/
def dwEndF (now : Time) (total : Nat) (r : TaskRec) : TaskRec :=
  let r1 := if r.duration < total then
    { r with delayFlag := true, delayOffset := r.delayOffset + ((total - r.duration : Nat) : Int) }
    else r
  let aft : Time := now + 1
  { r1 with aft := some aft, delayFlag := if aft > (r1.eft : Rat) then true else r1.delayFlag }

theorem dwEndF_spec (now : Time) (total : Nat) (r : TaskRec) :
    (dwEndF now total r).id = r.id ∧ (dwEndF now total r).preds = r.preds ∧
    (dwEndF now total r).io = r.io ∧ (dwEndF now total r).ast = r.ast ∧
    (dwEndF now total r).status = r.status ∧ (dwEndF now total r).aft = some (now + 1) := by
  unfold dwEndF
  simp only
  split <;> simp

inductive DwShape (s : Sys) (now : Time) (t : Tid) (m : Mid) (preds : List Tid) (ph tot : Nat) :
    Sys × PK × Yield → Prop
  | raised (ph' : Nat) (e : Err) : DwShape s now t m preds ph tot (s, .doWork t m preds ph' tot, .raised e)
  | wait (w : Time) : ph = 0 → preds ≠ [] → s.transferWait now t m preds = .ok w →
      DwShape s now t m preds ph tot (s, .doWork t m preds 1 tot, .timeout w)
  | start (r : TaskRec) (mm : Machine) (dur tot' : Nat) : (ph = 1 ∨ (ph = 0 ∧ preds = [])) →
      s.task? t = some r → s.machine? m = some mm →
      DwShape s now t m preds ph tot
        ({ (s.updTask t (dwStartF now dur)) with starts := s.starts ++ [t], active := s.active ++ [(m, t)] },
          .doWork t m preds 2 tot', .timeout ((bodyWait tot' : Nat) : Rat))
  | finish : 2 ≤ ph →
      DwShape s now t m preds ph tot
        ({ (s.updTask t (dwEndF now tot)) with active := s.active.erase (m, t) },
          .doWork t m preds 3 tot, .done)

theorem doWorkBlock_shape (s : Sys) (now : Time) (orc : Oracle) (t : Tid) (m : Mid) (preds : List Tid)
    (ph tot : Nat) : DwShape s now t m preds ph tot (s.doWorkBlock now orc t m preds ph tot) := by
  have hstart : ∀ (hph : ph = 1 ∨ (ph = 0 ∧ preds = [])),
      DwShape s now t m preds ph tot
        (match s.task? t, s.machine? m with
          | some r, some mm =>
            match nominalDuration r.flops r.data mm.cpu mm.bw r.duration with
            | .error e => (s, .doWork t m preds 2 tot, .raised e)
            | .ok dur =>
              let tot := match orc.total with
                | some t => t
                | none =>
                  if t.isIngest then dur
                  else match dictGet orc.delayTable dur with
                  | some t => t
                  | none =>
                    if orc.delayScript.isEmpty then dur
                    else dur + orc.delayScript.getD
                      ((s.starts.filter (fun x => !x.isIngest)).length % orc.delayScript.length) 0
              let s1 := s.updTask t (fun r => { r with status := .running, ast := some now, duration := dur })
              let s2 := { s1 with starts := s1.starts ++ [t], active := s1.active ++ [(m, t)] }
              (s2, .doWork t m preds 2 tot, .timeout (bodyWait tot : Nat))
          | _, _ => (s, .doWork t m preds 2 tot, .raised .other)) := by
    intro hph
    cases hr : s.task? t with
    | none => exact DwShape.raised _ _
    | some r =>
      cases hmm : s.machine? m with
      | none => exact DwShape.raised _ _
      | some mm =>
        simp only
        cases hd : nominalDuration r.flops r.data mm.cpu mm.bw r.duration with
        | error e => exact DwShape.raised _ _
        | ok dur => exact DwShape.start r mm dur _ hph hr hmm
  unfold doWorkBlock
  by_cases h0 : ph = 0
  · subst h0
    simp only [if_true]
    by_cases hp : preds.isEmpty = true
    · simp only [hp, if_true]
      have : preds = [] := by simpa using hp
      exact hstart (Or.inr ⟨rfl, this⟩)
    · simp only [hp]
      have hne : preds ≠ [] := by
        intro e; rw [e] at hp; simp at hp
      cases hw : s.transferWait now t m preds with
      | error e => exact DwShape.raised _ _
      | ok w => exact DwShape.wait w rfl hne hw
  · simp only [h0, if_false]
    by_cases h1 : ph = 1
    · subst h1
      simp only [if_true]
      exact hstart (Or.inl rfl)
    · simp only [h1, if_false]
      exact DwShape.finish (by omega)

/-! ### delays are not negative -/

theorem transferWait_nonneg (s : Sys) (now : Time) (t : Tid) (m : Mid) (preds : List Tid) (w : Time)
    (h : s.transferWait now t m preds = .ok w) : 0 ≤ w := by
  unfold transferWait at h
  split at h
  · split at h
    · exact absurd h (by simp)
    · injection h with h
      rw [← h]
      exact waitForTransfer_nonneg _ _ _
  · exact absurd h (by simp)

theorem block_delay_nonneg (s : Sys) (p : Proc) (orc : Oracle) (d : Time)
    (h : (s.block p orc).2.2 = .timeout d) : 0 ≤ d := by
  cases hk : p.k.isDoWork with
  | false =>
    have := block_unit s p orc hk
    rw [h] at this
    simp only [Yield.unit] at this
    rw [this]; decide
  | true =>
    cases hpk : p.k with
    | doWork t m preds ph tot =>
      have hb : s.block p orc = s.doWorkBlock p.wake orc t m preds ph tot := by
        unfold block; simp only [hpk]
      rw [hb] at h
      have hs := doWorkBlock_shape s p.wake orc t m preds ph tot
      generalize s.doWorkBlock p.wake orc t m preds ph tot = X at h hs
      cases hs with
      | raised _ _ => simp at h
      | wait w _ _ hw =>
        simp only [Yield.timeout.injEq] at h
        rw [← h]; exact transferWait_nonneg _ _ _ _ _ _ hw
      | start r mm dur tot' _ _ _ =>
        simp only [Yield.timeout.injEq] at h
        rw [← h]
        exact Rat.natCast_nonneg
      | finish _ => simp at h
    | _ => rw [hpk] at hk; simp [PK.isDoWork] at hk

end Sys
end Topsim
