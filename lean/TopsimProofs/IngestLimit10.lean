/-
  IngestLimit10 — every process a block creates is pending initialisation at
  the time `now` the block is given (`env.process(...)` at `env.now`): alive,
  before its first block, with a fresh pid and wake time `now`.

  For the telescope the new ingest supervisors get the whole-number timestep
  `natNow now`; the telescope is resumed at whole instants only, so this is
  `now` again (IngestLimit11).
-/
import TopsimProofs.PauseBoundary
import TopsimProofs.IngestLimit9

namespace Topsim
namespace Sys

/-- the process table grows by processes that are due at `now`, alive, before their first block,
with pids that were not in use -/
def ILNW (now : Time) (s s' : Sys) : Prop :=
  s.nextPid ≤ s'.nextPid ∧
  ∀ q ∈ s'.procs, q ∈ s.procs ∨ (q.wake = now ∧ q.alive = true ∧ q.pc = 0 ∧ s.nextPid ≤ q.pid)

theorem ILNW.refl (now : Time) (s : Sys) : ILNW now s s := ⟨Nat.le_refl _, fun _ h => Or.inl h⟩

theorem ILNW.trans {now : Time} {a b c : Sys} (h1 : ILNW now a b) (h2 : ILNW now b c) : ILNW now a c := by
  refine ⟨Nat.le_trans h1.1 h2.1, ?_⟩
  intro q hq
  rcases h2.2 q hq with h | ⟨w1, w2, w3, w4⟩
  · exact h1.2 q h
  · exact Or.inr ⟨w1, w2, w3, Nat.le_trans h1.1 w4⟩

theorem ILNW.of_eq {now : Time} {s s' : Sys} (hp : s'.procs = s.procs) (hn : s'.nextPid = s.nextPid) :
    ILNW now s s' := ⟨by rw [hn]; exact Nat.le_refl _, fun q hq => Or.inl (by rw [← hp]; exact hq)⟩

theorem ILNW.foldl {α : Type} {now : Time} (f : Sys → α → Sys) (hf : ∀ s a, ILNW now s (f s a)) (l : List α)
    (s : Sys) : ILNW now s (l.foldl f s) := by
  induction l generalizing s with
  | nil => exact ILNW.refl _ _
  | cons a rest ih => exact (hf s a).trans (ih _)

macro "nw_leaf" : tactic =>
  `(tactic| first
    | (simp [ILNW, spawn, updTask, updObs, updPlan, addTel, addSch, addBuf, collate]; done)
    | (simp [ILNW, spawn, updTask, updObs, updPlan, addTel, addSch, addBuf, collate]; grind))

macro "nw" : tactic => `(tactic| ((repeat' split) <;> nw_leaf))

theorem telescopeVisit_ilnw (n : Nat) (acc : Sys × Option Err) (oid : Oid) :
    ILNW (n : Time) acc.1 (telescopeVisit n acc oid).1 := by
  unfold telescopeVisit
  split
  · exact ILNW.refl _ _
  · split
    · exact ILNW.refl _ _
    · simp only
      split
      · split
        · exact ILNW.refl _ _
        · rename_i s1 hc
          exact ILNW.of_eq (checkIngestCapacity_procs _ _ _ _ hc) (checkIngestCapacity_nextPid _ _ _ _ hc)
        · rename_i s1 hc
          have h1 := checkIngestCapacity_procs _ _ _ _ hc
          have h2 := checkIngestCapacity_nextPid _ _ _ _ hc
          simp [ILNW, spawn, updObs, addTel, h1, h2]
          rintro q (h | rfl)
          · exact Or.inl h
          · right; simp
      · split
        · nw_leaf
        · exact ILNW.refl _ _

theorem telescopeFold_ilnw (n : Nat) (l : List Oid) (acc : Sys × Option Err) :
    ILNW (n : Time) acc.1 (l.foldl (telescopeVisit n) acc).1 := by
  induction l generalizing acc with
  | nil => exact ILNW.refl _ _
  | cons a rest ih => exact (telescopeVisit_ilnw n acc a).trans (ih _)

theorem telescopeBlock_ilnw (s : Sys) (now : Time) :
    ILNW ((natNow now : Nat) : Time) s (s.telescopeBlock now).1 := by
  unfold telescopeBlock
  split
  · nw_leaf
  · simp only
    split
    all_goals
      rename_i heq
      have h := congrArg Prod.fst heq
      simp only at h
      rw [← h]
      refine ILNW.trans ?_ (telescopeFold_ilnw _ _ _)
      nw_leaf

theorem schedLoopBlock_ilnw (s : Sys) (now : Time) (orc : Oracle) :
    ILNW now s (s.schedLoopBlock now orc).1 := by
  unfold schedLoopBlock
  simp only
  nw

theorem bufferLoopBlock_ilnw (s : Sys) (now : Time) : ILNW now s (s.bufferLoopBlock now).1 := by
  unfold bufferLoopBlock
  simp only
  nw

theorem hot2coldIter_ilnw (s : Sys) (now : Time) (o : Oid) (left : Int) :
    ILNW now s (s.hot2coldIter now o left).1 := by
  unfold hot2coldIter
  nw

theorem hot2coldBlock_ilnw (s : Sys) (now : Time) (cur : Option (Oid × Int)) :
    ILNW now s (s.hot2coldBlock now cur).1 := by
  unfold hot2coldBlock
  split
  · exact hot2coldIter_ilnw _ _ _ _
  · split
    · nw_leaf
    · nw_leaf
    · refine ILNW.trans ?_ (hot2coldIter_ilnw _ _ _ _)
      nw_leaf

theorem cold2hotIter_ilnw (s : Sys) (now : Time) (o : Oid) (left : Int) :
    ILNW now s (s.cold2hotIter now o left).1 := by
  unfold cold2hotIter
  nw

theorem cold2hotBlock_ilnw (s : Sys) (now : Time) (cur : Option (Oid × Int)) :
    ILNW now s (s.cold2hotBlock now cur).1 := by
  unfold cold2hotBlock
  split
  · exact cold2hotIter_ilnw _ _ _ _
  · split
    · nw_leaf
    · nw_leaf
    · refine ILNW.trans ?_ (cold2hotIter_ilnw _ _ _ _)
      nw_leaf

theorem allocIngestIter_ilnw (s : Sys) (now : Time) (oid : Oid) (tl : Int) :
    ILNW now s (s.allocIngestIter now oid tl).1 := by
  unfold allocIngestIter
  simp only
  nw

theorem allocIngestBlock_ilnw (s : Sys) (now : Time) (pc : Nat) (oid : Oid) (tl : Int) :
    ILNW now s (s.allocIngestBlock now pc oid tl).1 := by
  unfold allocIngestBlock
  split
  · simp only
    refine ILNW.trans ?_ (allocIngestIter_ilnw _ _ _ _)
    nw_leaf
  · exact allocIngestIter_ilnw _ _ _ _

theorem provIngestBlock_ilnw (s : Sys) (now : Time) (pc : Nat) (oid : Oid) (d : Nat) :
    ILNW now s (s.provIngestBlock now pc oid d).1 := by
  unfold provIngestBlock
  split
  · simp only
    split
    · nw_leaf
    · refine ILNW.trans ?_ (ILNW.foldl _ ?_ _ _)
      · nw_leaf
      · intro s a; nw_leaf
  · nw_leaf

theorem ingestStreamIter_ilnw (s : Sys) (now : Time) (oid : Oid) (tl : Int) :
    ILNW now s (s.ingestStreamIter now oid tl).1 := by
  unfold ingestStreamIter
  nw

theorem ingestStreamBlock_ilnw (s : Sys) (now : Time) (pc : Nat) (oid : Oid) (tl : Int) :
    ILNW now s (s.ingestStreamBlock now pc oid tl).1 := by
  unfold ingestStreamBlock
  split
  · split
    · nw_leaf
    · split
      · nw_leaf
      · simp only
        refine ILNW.trans ?_ (ingestStreamIter_ilnw _ _ _ _)
        nw_leaf
  · exact ingestStreamIter_ilnw _ _ _ _

theorem allocTaskBlock_ilnw (s : Sys) (now : Time) (t : Tid) (m : Mid) (preds : List Tid)
    (obs : Option Oid) (ing : Bool) (ret : Nat) :
    ILNW now s (s.allocTaskBlock now t m preds obs ing ret).1 := by
  unfold allocTaskBlock
  simp only
  nw

theorem processOne_ilnw (now : Time) (oid : Oid) (st : PcsSt) (t : Tid) :
    ILNW now st.s (processOne now oid st t).s := by
  unfold processOne
  simp only
  nw

theorem processFold_ilnw (now : Time) (oid : Oid) (l : List Tid) (st : PcsSt) :
    ILNW now st.s (l.foldl (processOne now oid) st).s := by
  induction l generalizing st with
  | nil => exact ILNW.refl _ _
  | cons a rest ih => exact (processOne_ilnw now oid st a).trans (ih _)

theorem processCurrentSchedule_ilnw (s : Sys) (now : Time) (oid : Oid)
    (schedule pairs : List (Tid × Mid)) :
    ILNW now s (processCurrentSchedule s now oid schedule pairs).s := by
  unfold processCurrentSchedule
  exact processFold_ilnw now oid _ { s := s, schedule := schedule, pairs := pairs, curr := [] }

theorem allocTasksIter_ilnw (s : Sys) (now : Time) (orc : Oracle) (oid : Oid)
    (schedule pairs : List (Tid × Mid)) (pool : List Tid) :
    ILNW now s (s.allocTasksIter now orc oid schedule pairs pool).1 := by
  unfold allocTasksIter
  have hu := updateCurrentPlan_nextPid s oid
  have hp := updateCurrentPlan_procs s oid
  simp only
  repeat' split
  all_goals first
    | (simp [ILNW, updPlan, addSch, addBuf, hu, hp]; done)
    | (simp [ILNW, updPlan, addSch, addBuf, hu, hp]; grind)
    | (refine ILNW.trans ?_ (processCurrentSchedule_ilnw _ _ _ _ _)
       first
         | (simp [ILNW, updPlan, hu, hp]; done)
         | (simp [ILNW, updPlan, hu, hp]; grind))

theorem allocTasksBlock_ilnw (s : Sys) (now : Time) (orc : Oracle) (pc : Nat) (oid : Oid)
    (schedule pairs : List (Tid × Mid)) (pool : List Tid) (fin : Bool) :
    ILNW now s (s.allocTasksBlock now orc pc oid schedule pairs pool fin).1 := by
  unfold allocTasksBlock
  split
  · nw_leaf
  · split
    · simp only
      refine ILNW.trans ?_ (allocTasksIter_ilnw _ _ _ _ _ _ _)
      apply ILNW.of_eq
      · simp only [addSch]
        refine Eq.trans (foldl_procs_eq _ ?_ _ _) rfl
        intro s a; rfl
      · simp only [addSch]
        refine Eq.trans (foldl_nextPid_eq _ ?_ _ _) rfl
        intro s a; rfl
    · exact allocTasksIter_ilnw _ _ _ _ _ _ _

/-- the time at which the processes created by a block of `p` are due -/
def ilSpawnTime (p : Proc) : Time :=
  match p.k with
  | .telescope => ((natNow p.wake : Nat) : Time)
  | _ => p.wake

theorem block_ilnw (s : Sys) (p : Proc) (orc : Oracle) : ILNW (ilSpawnTime p) s (s.block p orc).1 := by
  unfold block ilSpawnTime
  cases hk : p.k with
  | monitor => exact ILNW.of_eq rfl rfl
  | telescope => exact telescopeBlock_ilnw _ _
  | clusterLoop => exact ILNW.of_eq rfl rfl
  | schedLoop => exact schedLoopBlock_ilnw _ _ _
  | bufferLoop => exact bufferLoopBlock_ilnw _ _
  | allocIngest o tl => exact allocIngestBlock_ilnw _ _ _ _ _
  | provIngest o d => exact provIngestBlock_ilnw _ _ _ _ _
  | ingestStream o tl => exact ingestStreamBlock_ilnw _ _ _ _ _
  | allocTask t m preds obs ing ret => exact allocTaskBlock_ilnw _ _ _ _ _ _ _ _
  | doWork t m preds ph tot =>
    exact ILNW.of_eq (doWorkBlock_spec _ _ _ _ _ _ _ _).1 (doWorkBlock_spec _ _ _ _ _ _ _ _).2.1
  | allocTasks o sc pa po fin => exact allocTasksBlock_ilnw _ _ _ _ _ _ _ _ _
  | hot2cold cur => exact hot2coldBlock_ilnw _ _ _
  | cold2hot cur => exact cold2hotBlock_ilnw _ _ _

end Sys
end Topsim
