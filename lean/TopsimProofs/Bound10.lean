/-
  Bound10 — the parts put together: `BoundParts` from Bound3 (whole-instant wakes), Bound4 (the weight
  is within the serial bound), Bound5 / Bound6 (timed liveness of the workers), Bound7 (idle states),
  Bound8 (persistence of enabled pollers); and the bound on the clock of the first `is_finished()`
  state.
-/
import TopsimProofs.Bound4
import TopsimProofs.Bound5
import TopsimProofs.Bound6f
import TopsimProofs.Bound7b
import TopsimProofs.Bound8
import TopsimProofs.Bound9

namespace Topsim

open KState Sys

section
variable {env : SimEnv} {s0 : Sys}

theorem bound_worker_split {q : Proc} (h : q.BoundWorker) : q.BoundIngestWorker ∨ q.BoundWfWorker := by
  rcases h with h | h | h | h | h
  · exact Or.inl (Or.inl h)
  · exact Or.inl (Or.inr (Or.inl h))
  · exact Or.inl (Or.inr (Or.inr (Or.inl h)))
  · cases hk : q.k <;> rw [hk] at h <;> simp [PK.tag] at h
    rename_i t m preds obs ing ret
    cases hi : t.isIngest
    · exact Or.inr (Or.inl ⟨t, m, preds, obs, ing, ret, hk, hi⟩)
    · exact Or.inl (Or.inr (Or.inr (Or.inr (Or.inl ⟨t, m, preds, obs, ing, ret, hk, hi⟩))))
  · cases hk : q.k <;> rw [hk] at h <;> simp [PK.tag] at h
    rename_i t m preds ph tot
    cases hi : t.isIngest
    · exact Or.inr (Or.inr ⟨t, m, preds, ph, tot, hk, hi⟩)
    · exact Or.inl (Or.inr (Or.inr (Or.inr (Or.inr ⟨t, m, preds, ph, tot, hk, hi⟩))))

/-- all the parts -/
theorem boundParts (C : LiveCfg env s0) (K : LiveKernel env s0)
    (hd1 : env.delayTable = []) (hd2 : env.delayScript = []) : BoundParts env s0 where
  wake_nat := fun n => bound_wake_nat C K n
  tl := by
    intro n hprev q hq ha hw
    rcases bound_worker_split hw with h | h
    · exact bound_tl_ingest C K n hprev q hq ha h
    · exact bound_tl_wf C K hd1 hd2 n hprev q hq ha h
  idle_enabled := fun n hq hnf => bound_idle_enabled C K n hq hnf
  enabled_fires := fun n _ _ hpk hpp hen hq hdue => bound_enabled_fires C K n hpk hpp hen hq hdue
  enabled_persists := fun n _ _ hpk hp hne hen hV => bound_enabled_persists C K n hpk hp hne hen hV
  v_mono := fun n => bound_v_mono C K (Nat.le_succ n)
  v_total := by
    intro n
    have h1 := bound_v_le_total s0 (simAt env s0 n).st
    have h2 := bound_total_le_serial s0 C.topo
    omega

/-- **The serial bound, run level**: the first index at which the run is at `is_finished()` has its
clock (the time of the last event popped) within the serial bound. -/
theorem bound_queue_clock (N : NcCfg env s0) (hd1 : env.delayTable = []) (hd2 : env.delayScript = []) :
    ∃ n, (simAt env s0 n).st.isFinished = true ∧ (simAt env s0 n).st.crashed = none ∧
      SimRun env s0 (simAt env s0 n) ∧
      boundClock env s0 n ≤ ((Sys.serialBound s0 : Nat) : Time) := by
  have C : LiveCfg env s0 := N.toLive (live_noRaise N)
  have K := liveKernel C N.hh0
  obtain ⟨n0, h0, _⟩ := live_terminates_noRaise C N.hh0
  obtain ⟨n, hfin, hclk⟩ := bound_of_parts C K (boundParts C K hd1 hd2) ⟨n0, h0⟩
  exact ⟨n, hfin, C.nr n, (K.run n).1, hclk⟩

/-- the same with the sharper number `latest + boundVTotal`: per observation its duration + 3, per
workflow node its occupancy on the slowest machine + its largest transfer wait (rounded up) + 1 — no
tier-transfer terms, latency 1 instead of 3 per task -/
theorem bound_queue_clock_sharp (N : NcCfg env s0) (hd1 : env.delayTable = []) (hd2 : env.delayScript = []) :
    ∃ n, (simAt env s0 n).st.isFinished = true ∧ (simAt env s0 n).st.crashed = none ∧
      SimRun env s0 (simAt env s0 n) ∧
      boundClock env s0 n ≤ ((boundLatest s0 + boundVTotal s0 : Nat) : Time) := by
  have C : LiveCfg env s0 := N.toLive (live_noRaise N)
  have K := liveKernel C N.hh0
  obtain ⟨n0, h0, _⟩ := live_terminates_noRaise C N.hh0
  obtain ⟨n, hfin, hclk⟩ := bound_of_parts_gen C K (boundParts C K hd1 hd2) ⟨n0, h0⟩
    (boundLatest s0 + boundVTotal s0)
    (fun n => Nat.add_le_add_left (bound_v_le_total s0 (simAt env s0 n).st) _)
  exact ⟨n, hfin, C.nr n, (K.run n).1, hclk⟩

end

end Topsim
