/-
  IngestLimit3 — the ledger on whole states, and the blocks that leave it alone
  (`ILQ`): monitor, cluster loop, scheduler loop, buffer loop, tier moves, ingest
  stream, task bodies and `allocate_tasks`.
-/
import TopsimProofs.IngestLimit2

namespace Topsim

/-- the ghost list of ingest allocation processes: created and not yet begun, or polling -/
def Cluster.ilEntries (c : Cluster) : List RunEntry := c.pending ++ c.runOn.filter (·.ing)

namespace Sys

open Cluster

/-- the pipeline demand of an observation (machines its ingest takes) -/
def ilDemand (s : Sys) (o : Oid) : Nat :=
  match s.obs? o with
  | some ob => ob.ingestDemand
  | none => 0

/-- the ledger invariant of a state -/
def ILInv (s : Sys) : Prop :=
  ILC s.procs s.ilDemand s.cl.ilEntries s.provIngest s.maxIngest s.admitted

/-- machines promised to admitted observations whose provisioning block has not run yet -/
def ingestPromised (s : Sys) : Nat := ilPromised s.procs s.ilDemand

/-- machines still in the ingest pool for an observation whose ingest supervisor
(`allocate_ingest`) has already ended and given its share of the counter back -/
def ingestStale (s : Sys) : Nat := ilStale s.procs s.cl.ilEntries

def ilLoadS (s : Sys) : Nat := s.cl.ilEntries.length + s.ingestPromised

/-! ### the ingest pool and the ghost list -/

theorem il_ingest_length {c : Cluster} {U : List Tid} (h : Cluster.Inv c U) :
    c.ingest.length = c.ilEntries.length := by
  have h1 : (c.runMachines true ++ c.pending.map (·.mach)).length = c.ingest.length := by
    apply length_eq_of_count_eq
    intro m
    rw [List.count_append]
    exact h.ingm m
  have h2 : (c.runOn.filter (·.ing)).length = (c.runMachines true).length := by
    unfold Cluster.runMachines
    rw [List.length_map]
    congr 1
    apply List.filter_congr
    intro x _
    cases x.ing <;> rfl
  unfold Cluster.ilEntries
  simp only [List.length_append, List.length_map] at h1 ⊢
  omega

/-! ### steps the ledger does not see -/

structure ILQ (s s1 : Sys) : Prop where
  prov : s1.provIngest = s.provIngest
  maxI : s1.maxIngest = s.maxIngest
  dem : ∀ o, s1.ilDemand o = s.ilDemand o
  adm : s1.admitted = s.admitted
  ent : ∀ Q : RunEntry → Bool, s1.cl.ilEntries.countP Q ≤ s.cl.ilEntries.countP Q
  newp : ∃ new, s1.procs = s.procs ++ new ∧ ∀ q ∈ new, q.k.aiObs = none ∧ q.k.piObs = none

theorem ILQ.refl (s : Sys) : ILQ s s :=
  ⟨rfl, rfl, fun _ => rfl, rfl, fun _ => Nat.le_refl _, [], by simp, by simp⟩

theorem ILQ.trans {a b c : Sys} (h1 : ILQ a b) (h2 : ILQ b c) : ILQ a c := by
  obtain ⟨n1, e1, f1⟩ := h1.newp
  obtain ⟨n2, e2, f2⟩ := h2.newp
  refine ⟨h2.prov.trans h1.prov, h2.maxI.trans h1.maxI, fun o => (h2.dem o).trans (h1.dem o),
    h2.adm.trans h1.adm, fun Q => Nat.le_trans (h2.ent Q) (h1.ent Q), n1 ++ n2,
    by rw [e2, e1, List.append_assoc], ?_⟩
  intro q hq
  rcases List.mem_append.mp hq with hq | hq
  · exact f1 q hq
  · exact f2 q hq

theorem ilDemand_congr {a b : Sys} (h : b.obs = a.obs) (o : Oid) : b.ilDemand o = a.ilDemand o := by
  unfold ilDemand obs?; rw [h]

/-- nothing the ledger reads has changed -/
theorem ILQ.same {s s1 : Sys} (h1 : s1.provIngest = s.provIngest) (h2 : s1.maxIngest = s.maxIngest)
    (h3 : s1.obs = s.obs) (h4 : s1.admitted = s.admitted) (h5 : s1.cl.pending = s.cl.pending)
    (h6 : s1.cl.runOn = s.cl.runOn) (h7 : s1.procs = s.procs) : ILQ s s1 :=
  ⟨h1, h2, ilDemand_congr h3, h4, fun Q => by unfold Cluster.ilEntries; rw [h5, h6]; exact Nat.le_refl _,
    [], by simp [h7], by simp⟩

theorem ILQ.spawn (s : Sys) (k : PK) (now : Time) (h1 : k.aiObs = none) (h2 : k.piObs = none) :
    ILQ s (s.spawn k now).1 :=
  ⟨rfl, rfl, fun _ => rfl, rfl, fun _ => Nat.le_refl _, _, spawn_procs s k now, by simp [h1, h2]⟩

syntax "ilq_core" : tactic
macro_rules
  | `(tactic| ilq_core) =>
    `(tactic| first
      | exact ILQ.same rfl rfl rfl rfl rfl rfl rfl
      | (split <;> ilq_core))

theorem ILInv.quiet {s s1 : Sys} (h : ILInv s) (hq : ILQ s s1) : ILInv s1 ∧ s1.ilLoadS ≤ s.ilLoadS := by
  obtain ⟨new, e, f⟩ := hq.newp
  have hd : s1.ilDemand = s.ilDemand := funext hq.dem
  unfold ILInv ilLoadS ingestPromised at *
  rw [e, hd, hq.prov, hq.maxI, hq.adm]
  refine ⟨(h.append_neutral new f).shrink hq.ent, ?_⟩
  rw [ilPromised_append_neutral _ _ _ f]
  have := hq.ent (fun _ => true)
  simp only [List.countP_true] at this
  omega

/-! ### the neutral blocks -/

theorem monitorBlock_ilq (s : Sys) (now : Time) : ILQ s (s.monitorBlock now).1 := by
  unfold monitorBlock; ilq_core

theorem ILQ.ofQuiet {s s1 : Sys} (hcl : ClQuiet s.cl s1.cl) (h1 : s1.provIngest = s.provIngest)
    (h2 : s1.maxIngest = s.maxIngest) (h3 : s1.obs = s.obs) (h4 : s1.admitted = s.admitted)
    (h7 : s1.procs = s.procs) : ILQ s s1 :=
  ILQ.same h1 h2 h3 h4 hcl.pending hcl.runOn h7

theorem clusterLoop_ilq (s : Sys) : ILQ s { s with cl := s.cl.loopTick } :=
  ILQ.ofQuiet (clQuiet_tick _) rfl rfl rfl rfl rfl

theorem ingestStreamIter_ilq (s : Sys) (now : Time) (oid : Oid) (tl : Int) :
    ILQ s (s.ingestStreamIter now oid tl).1 := by
  unfold ingestStreamIter; ilq_core

theorem ingestStreamBlock_ilq (s : Sys) (now : Time) (pc : Nat) (oid : Oid) (tl : Int) :
    ILQ s (s.ingestStreamBlock now pc oid tl).1 := by
  unfold ingestStreamBlock
  split
  · split
    · ilq_core
    · split
      · ilq_core
      · exact (ILQ.same rfl rfl rfl rfl rfl rfl rfl : ILQ s (s.addBuf _)).trans
          (ingestStreamIter_ilq _ _ _ _)
  · exact ingestStreamIter_ilq _ _ _ _

theorem hot2coldIter_ilq (s : Sys) (now : Time) (o : Oid) (left : Int) :
    ILQ s (s.hot2coldIter now o left).1 := by
  unfold hot2coldIter; ilq_core

theorem hot2coldBlock_ilq (s : Sys) (now : Time) (cur : Option (Oid × Int)) :
    ILQ s (s.hot2coldBlock now cur).1 := by
  unfold hot2coldBlock
  split
  · exact hot2coldIter_ilq _ _ _ _
  · split
    · ilq_core
    · ilq_core
    · rename_i b1 o left _
      exact (ILQ.same rfl rfl rfl rfl rfl rfl rfl :
        ILQ s (({ s with buf := b1 }).addBuf ⟨natNow now, o, .transferStarted⟩)).trans
          (hot2coldIter_ilq _ _ _ _)

theorem cold2hotIter_ilq (s : Sys) (now : Time) (o : Oid) (left : Int) :
    ILQ s (s.cold2hotIter now o left).1 := by
  unfold cold2hotIter; ilq_core

theorem cold2hotBlock_ilq (s : Sys) (now : Time) (cur : Option (Oid × Int)) :
    ILQ s (s.cold2hotBlock now cur).1 := by
  unfold cold2hotBlock
  split
  · exact cold2hotIter_ilq _ _ _ _
  · split
    · ilq_core
    · ilq_core
    · rename_i b1 o left _
      exact (ILQ.same rfl rfl rfl rfl rfl rfl rfl :
        ILQ s (({ s with buf := b1 }).addBuf ⟨natNow now, o, .transferStarted⟩)).trans
          (cold2hotIter_ilq _ _ _ _)

theorem bufferLoopBlock_ilq (s : Sys) (now : Time) : ILQ s (s.bufferLoopBlock now).1 := by
  unfold bufferLoopBlock
  split
  · exact ILQ.refl _
  · rename_i d _
    simp only
    have h1 : ILQ s (if d.startHot2Cold = true then (s.spawn (.hot2cold none) now).1 else s) := by
      split
      · exact ILQ.spawn _ _ _ rfl rfl
      · exact ILQ.refl _
    refine h1.trans ?_
    generalize (if d.startHot2Cold = true then (s.spawn (.hot2cold none) now).1 else s) = s1
    split
    · exact ILQ.spawn _ _ _ rfl rfl
    · exact ILQ.refl _

theorem schedLoopBlock_ilq (s : Sys) (now : Time) (orc : Oracle) :
    ILQ s (s.schedLoopBlock now orc).1 := by
  unfold schedLoopBlock
  simp only
  split
  · split
    · ilq_core
    · rename_i b1 oid _
      split
      · ilq_core
      · rename_i o _
        generalize (if s.staticPlan = true then staticPlanOf o (natNow now) orc.plan
          else batchPlan o (natNow now)) = rp
        obtain ⟨recs, plan⟩ := rp
        simp only
        have h1 : ILQ s { s with schEvents := [], buf := b1, tasks := s.tasks ++ recs, plans := (s.plans.filter (·.obs ≠ oid)) ++ [plan] } :=
          ILQ.same rfl rfl rfl rfl rfl rfl rfl
        split
        · exact h1
        · refine h1.trans ?_
          refine ILQ.trans (b := { s with schEvents := [], buf := b1, tasks := s.tasks ++ recs, plans := (s.plans.filter (·.obs ≠ oid)) ++ [plan], queue := s.queue ++ [oid] }) (ILQ.same rfl rfl rfl rfl rfl rfl rfl) ?_
          refine (ILQ.spawn _ (.allocTasks oid [] [] [] false) now rfl rfl).trans ?_
          exact ILQ.same rfl rfl rfl rfl rfl rfl rfl
  · ilq_core

theorem doWorkBlock_ilq (s : Sys) (now : Time) (orc : Oracle) (t : Tid) (m : Mid) (preds : List Tid)
    (ph tot : Nat) : ILQ s (s.doWorkBlock now orc t m preds ph tot).1 := by
  rcases doWorkBlock_out s now orc t m preds ph tot with
    ⟨_, _, _, _, heq⟩ | ⟨_, _, _, _, _, heq⟩ | ⟨_, _, _, heq⟩ <;> rw [heq]
  · exact ILQ.refl _
  · exact ILQ.same rfl rfl rfl rfl rfl rfl rfl
  · exact ILQ.same rfl rfl rfl rfl rfl rfl rfl

theorem doWorkBlock_kind_il (s : Sys) (now : Time) (orc : Oracle) (t : Tid) (m : Mid) (preds : List Tid)
    (ph tot : Nat) : (s.doWorkBlock now orc t m preds ph tot).2.1.aiObs = none ∧
      (s.doWorkBlock now orc t m preds ph tot).2.1.piObs = none := by
  rcases doWorkBlock_out s now orc t m preds ph tot with
    ⟨_, _, _, _, heq⟩ | ⟨_, _, _, _, _, heq⟩ | ⟨_, _, _, heq⟩ <;> rw [heq] <;> exact ⟨rfl, rfl⟩

/-! ### `allocate_tasks` -/

theorem foldl_ilq {α} (f : Sys → α → Sys) (hf : ∀ s x, ILQ s (f s x)) (l : List α) (s : Sys) :
    ILQ s (l.foldl f s) := by
  induction l generalizing s with
  | nil => exact ILQ.refl _
  | cons x r ih => exact (hf s x).trans (ih _)

theorem updateCurrentPlan_ilq (s : Sys) (oid : Oid) : ILQ s (s.updateCurrentPlan oid) := by
  unfold updateCurrentPlan
  split
  · exact ILQ.refl _
  · simp only
    refine ILQ.trans (foldl_ilq _ ?_ _ s) (ILQ.same rfl rfl rfl rfl rfl rfl rfl)
    intro s x
    split
    · split
      · exact ILQ.same rfl rfl rfl rfl rfl rfl rfl
      · exact ILQ.refl _
    · exact ILQ.refl _

theorem processOne_ilq (now : Time) (oid : Oid) (st : PcsSt) (t : Tid) :
    ILQ st.s (processOne now oid st t).s := by
  unfold processOne
  cases hok : st.err with
  | some e => exact ILQ.refl _
  | none =>
    simp only
    cases hm : dictGet st.schedule t with
    | none => exact ILQ.refl _
    | some m =>
      cases hr : st.s.task? t with
      | none => exact ILQ.refl _
      | some r =>
        simp only []
        cases hmm : st.s.machine? m with
        | none => exact ILQ.refl _
        | some mm =>
          simp only []
          by_cases hz : ((r.allocObj || r.planned != some m) = true ∧ (mm.cpu = 0 ∨ mm.bw = 0))
          · simp only [hz, if_true]; exact ILQ.refl _
          · simp only [hz, if_false]
            generalize hs1 : (if (r.allocObj || r.planned != some m) = true then
              st.s.updTask t (fun r => updateAllocation r mm) else st.s) = s1
            have h1 : ILQ st.s s1 := by
              subst hs1; split
              · exact ILQ.same rfl rfl rfl rfl rfl rfl rfl
              · exact ILQ.refl _
            by_cases hocc : (st.curr.contains m = true ∨ s1.cl.isOccupied m = true)
            · simp only [hocc, if_true]; exact h1
            · simp only [hocc, if_false]
              by_cases hmiss : (r.preds.any fun p => !dictHas (dictSet st.pairs t m) p) = true
              · simp only [hmiss, if_true]; exact h1
              · simp only [hmiss]
                by_cases hst : r.status ≠ TStatus.unscheduled
                · rw [if_pos hst]; exact h1
                · rw [if_neg hst]
                  refine h1.trans ((ILQ.spawn s1 (.allocTask t m
                    (crossPreds (dictSet st.pairs t m) r.preds m) (some oid) false 0) now rfl rfl).trans ?_)
                  exact ILQ.same rfl rfl rfl rfl rfl rfl rfl

theorem processCurrentSchedule_ilq (s : Sys) (now : Time) (oid : Oid)
    (schedule pairs : List (Tid × Mid)) : ILQ s (processCurrentSchedule s now oid schedule pairs).s := by
  unfold processCurrentSchedule
  simp only
  generalize ((dictKeys schedule).mergeSort _) = l
  have : ∀ (l : List Tid) (st : PcsSt), ILQ st.s (l.foldl (processOne now oid) st).s := by
    intro l
    induction l with
    | nil => intro st; exact ILQ.refl _
    | cons x r ih => intro st; exact (processOne_ilq now oid st x).trans (ih _)
  exact this l { s := s, schedule := schedule, pairs := pairs, curr := [] }

theorem allocTasksIter_ilq (s : Sys) (now : Time) (orc : Oracle) (hpre : s.alg = .oracle → orc.preOk)
    (oid : Oid) (schedule pairs : List (Tid × Mid)) (pool : List Tid) :
    ILQ s (s.allocTasksIter now orc oid schedule pairs pool).1 := by
  unfold allocTasksIter
  simp only
  have h1 : ILQ s (s.updateCurrentPlan oid) := updateCurrentPlan_ilq s oid
  have hpre1 : (s.updateCurrentPlan oid).alg = .oracle → orc.preOk := by
    rw [updateCurrentPlan_alg]; exact hpre
  generalize s.updateCurrentPlan oid = s1 at h1 hpre1
  split
  · exact h1
  · rename_i plan _
    split
    · exact h1
    · rename_i out hout
      have hq := runAlgorithm_quiet s1 orc plan schedule pool out hpre1 hout
      have h2 : ILQ s1 (({ s1 with cl := out.cl }).updPlan oid (fun p => { p with status := out.status })) :=
        ILQ.ofQuiet hq rfl rfl rfl rfl rfl
      generalize (({ s1 with cl := out.cl }).updPlan oid (fun p => { p with status := out.status })) = s2 at h2
      have h3 : ILQ s2 (if out.status = .delayed then { s2 with schedDelayed := true } else s2) := by
        split
        · exact ILQ.same rfl rfl rfl rfl rfl rfl rfl
        · exact ILQ.refl _
      generalize (if out.status = .delayed then { s2 with schedDelayed := true } else s2) = s3 at h3
      have h13 := h1.trans (h2.trans h3)
      split
      · have h4 : ILQ s3 ((s3.addSch ⟨natNow now, oid, .allocStopped⟩).addBuf ⟨natNow now, oid, .bufRemoved⟩) :=
          ILQ.same rfl rfl rfl rfl rfl rfl rfl
        generalize ((s3.addSch ⟨natNow now, oid, .allocStopped⟩).addBuf ⟨natNow now, oid, .bufRemoved⟩) = s4 at h4
        have h14 := h13.trans h4
        split
        · rename_i b1 _
          have h5 : ILQ s4 { s4 with buf := b1, cl := s4.cl.releaseBatch oid } :=
            ILQ.ofQuiet (clQuiet_releaseBatch _ _) rfl rfl rfl rfl rfl
          split
          · exact h14.trans (h5.trans (ILQ.same rfl rfl rfl rfl rfl rfl rfl))
          · exact h14.trans h5
        · exact h14.trans (ILQ.same rfl rfl rfl rfl rfl rfl rfl)
      · split
        · exact h13
        · have h4 := processCurrentSchedule_ilq s3 now oid out.schedule pairs
          split <;> exact h13.trans h4

theorem allocTasksBlock_ilq (s : Sys) (now : Time) (orc : Oracle) (hpre : s.alg = .oracle → orc.preOk)
    (pc : Nat) (oid : Oid) (schedule pairs : List (Tid × Mid)) (pool : List Tid) (fin : Bool) :
    ILQ s (s.allocTasksBlock now orc pc oid schedule pairs pool fin).1 := by
  unfold allocTasksBlock
  split
  · exact ILQ.refl _
  · split
    · simp only
      have h1 : ILQ s (s.updPlan oid (fun p => { p with ast := some (natNow now) })) :=
        ILQ.same rfl rfl rfl rfl rfl rfl rfl
      have halg1 : (s.updPlan oid (fun p => { p with ast := some (natNow now) })).alg = s.alg := rfl
      generalize (s.updPlan oid (fun p => { p with ast := some (natNow now) })) = s1 at h1 halg1
      refine ILQ.trans ?_ (allocTasksIter_ilq _ now orc ?_ oid schedule pairs pool)
      · have hadd : ∀ (a b : Sys) (e : Event), ILQ a b → ILQ a (b.addSch e) :=
          fun a b e h => h.trans (ILQ.same rfl rfl rfl rfl rfl rfl rfl)
        apply hadd
        refine h1.trans ?_
        apply foldl_ilq
        intro s t
        exact ILQ.same rfl rfl rfl rfl rfl rfl rfl
      · intro ho
        apply hpre
        rw [← halg1, ← ho]
        symm
        show (List.foldl _ s1 _).alg = s1.alg
        apply foldl_alg
        intro s t
        rfl
    · exact allocTasksIter_ilq _ now orc hpre oid schedule pairs pool

end Sys
end Topsim
