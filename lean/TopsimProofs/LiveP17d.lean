/-
  LiveP17d — the declarations of Live17d.lean that depend on the configuration structures, restated for
  the plan-following configurations (`LivePCfg`, `NcPCfg`, `L7PLib`); the proofs are those of Live17d.lean.
  The proposals name leftover entries or available machines by `nc_planRun_avail_P`.
-/
import TopsimProofs.LiveP17c

namespace Topsim

namespace Sys

open Cluster

/-- one block of an `allocate_tasks` process (QueueProcessing): the new local variables and the new
processes -/
theorem nc_allocTasksBlock_sum_P (s : Sys) (now : Time) (orc : Oracle) (pc : Nat) (oid : Oid)
    (sc pa : List (Tid × Mid)) (po : List Tid) (fn : Bool) (halg : PlanAlg s.alg) :
    ∃ sc' pa' po' fn', (s.allocTasksBlock now orc pc oid sc pa po fn).2.1 = .allocTasks oid sc' pa' po' fn' ∧
      (∀ t, dictHas pa t = true → dictHas pa' t = true) ∧
      (∀ x ∈ sc', x ∈ sc ∨ x.2 ∈ s.cl.available) ∧
      (∀ q ∈ (s.allocTasksBlock now orc pc oid sc pa po fn).1.procs, q ∈ s.procs ∨
        ∃ t m cross, q.k = .allocTask t m cross (some oid) false 0 ∧ dictHas pa' t = true) := by
  cases fn with
  | true =>
    rw [allocTasksBlock_fin]
    exact ⟨sc, pa, po, true, rfl, fun _ h => h, fun x hx => Or.inl hx, fun q hq => Or.inl hq⟩
  | false =>
    rw [allocTasksBlock_eq]
    have hp0 : (atStart s now pc oid).procs = s.procs := atStart_procs _ _ _ _
    have hp1 : ((atStart s now pc oid).updateCurrentPlan oid).procs = s.procs :=
      (updateCurrentPlan_procs _ oid).trans hp0
    have hcl1 : ((atStart s now pc oid).updateCurrentPlan oid).cl = s.cl :=
      (updateCurrentPlan_core _ oid).cl.trans (atStart_cl _ _ _ _)
    have halg1 : PlanAlg ((atStart s now pc oid).updateCurrentPlan oid).alg := by
      rw [updateCurrentPlan_alg, atStart_alg]; exact halg
    have hsched : ∀ plan out, ((atStart s now pc oid).updateCurrentPlan oid).runAlgorithm orc plan sc po = .ok out →
        ∀ x ∈ out.schedule, x ∈ sc ∨ x.2 ∈ s.cl.available := by
      intro plan out hrun
      have := nc_planRun_avail_P _ orc plan sc po out halg1 hrun
      rw [hcl1] at this
      exact this
    have hout := allocTasksIter_out (atStart s now pc oid) now orc oid sc pa po
    generalize (atStart s now pc oid).allocTasksIter now orc oid sc pa po = r at hout ⊢
    have hnil : ∀ (sch : List (Tid × Mid)), sch.isEmpty = true → ∀ x ∈ sch, x ∈ sc ∨ x.2 ∈ s.cl.available := by
      intro sch he x hx
      have : sch = [] := by simpa using he
      rw [this] at hx; simp at hx
    cases hout with
    | noPlan _ =>
      exact ⟨sc, pa, po, false, rfl, fun _ h => h, fun x hx => Or.inl hx,
        fun q hq => Or.inl (by rw [← hp1]; exact hq)⟩
    | algErr _ _ _ _ =>
      exact ⟨sc, pa, po, false, rfl, fun _ h => h, fun x hx => Or.inl hx,
        fun q hq => Or.inl (by rw [← hp1]; exact hq)⟩
    | finish plan out _ _ hemp _ _ _ =>
      refine ⟨out.schedule, pa, out.pool, true, rfl, fun _ h => h, hnil _ hemp, fun q hq => Or.inl ?_⟩
      have : q ∈ (atS3 ((atStart s now pc oid).updateCurrentPlan oid) out oid).procs := hq
      rw [atS3_procs, hp1] at this; exact this
    | finishBad plan out _ _ hemp _ _ _ =>
      refine ⟨out.schedule, pa, out.pool, false, rfl, fun _ h => h, hnil _ hemp, fun q hq => Or.inl ?_⟩
      have : q ∈ (atS3 ((atStart s now pc oid).updateCurrentPlan oid) out oid).procs := hq
      rw [atS3_procs, hp1] at this; exact this
    | finishWait plan out _ _ hemp _ _ =>
      refine ⟨out.schedule, pa, out.pool, false, rfl, fun _ h => h, hnil _ hemp, fun q hq => Or.inl ?_⟩
      have : q ∈ (atS3 ((atStart s now pc oid).updateCurrentPlan oid) out oid).procs := hq
      rw [atS3_procs, hp1] at this; exact this
    | idle plan out _ _ hemp _ =>
      refine ⟨out.schedule, pa, out.pool, false, rfl, fun _ h => h, hnil _ hemp, fun q hq => Or.inl ?_⟩
      rw [atS3_procs, hp1] at hq; exact hq
    | alloc plan out y hplan hrun _ _ =>
      obtain ⟨g1, g2, g3⟩ := nc_pcs_pairs (atS3 ((atStart s now pc oid).updateCurrentPlan oid) out oid) now oid
        out.schedule pa
      refine ⟨_, _, out.pool, false, rfl, g1, fun x hx => hsched plan out hrun x (g2 x hx), fun q hq => ?_⟩
      rcases g3 q hq with h2 | h2
      · rw [atS3_procs, hp1] at h2; exact Or.inl h2
      · exact Or.inr h2

end Sys

end Topsim

