/-
  LiveB17f — BatchProcessing: the declarations of Live17f that depend on the configuration hypotheses,
  for `LiveCfgB` / `NcCfgB` (`s0.alg = .batch …`).  Generated from Live17f.lean by renaming (suffix `_B`);
  the algorithm-dependent ones are rewritten (see the comments).
-/
import TopsimProofs.Live17f
import TopsimProofs.LiveB5
import TopsimProofs.LiveB9
import TopsimProofs.LiveB17d
import TopsimProofs.LiveB17e
import TopsimProofs.LiveB24

namespace Topsim
namespace Sys
open Cluster

theorem nc_allocTasksIter_nr_B (a : Sys) (now : Time) (orc : Oracle) (oid : Oid) (sc pa : List (Tid × Mid))
    (po : List Tid) (hplan : ((a.updateCurrentPlan oid).plan? oid).isSome = true)
    (hne : ∀ plan e, (a.updateCurrentPlan oid).plan? oid = some plan →
      (a.updateCurrentPlan oid).runAlgorithm orc plan sc po ≠ .error e)
    (hq : oid ∈ (a.updateCurrentPlan oid).queue)
    (herr : ∀ plan out, (a.updateCurrentPlan oid).plan? oid = some plan →
      (a.updateCurrentPlan oid).runAlgorithm orc plan sc po = .ok out → out.schedule.isEmpty = false →
      (processCurrentSchedule (atS3 (a.updateCurrentPlan oid) out oid) now oid out.schedule pa).err = none) :
    ∀ err, (a.allocTasksIter now orc oid sc pa po).2.2 ≠ .raised err := by
  intro err
  obtain ⟨plan, hpl⟩ := Option.isSome_iff_exists.mp hplan
  unfold allocTasksIter
  simp only
  rw [hpl]
  simp only
  cases hrun : (a.updateCurrentPlan oid).runAlgorithm orc plan sc po with
  | error e => exact absurd hrun (hne plan e hpl)
  | ok out =>
    simp only
    have hs3 : (if out.status = WStatus.delayed then
        { (({ (a.updateCurrentPlan oid) with cl := out.cl }).updPlan oid (fun p => { p with status := out.status })) with schedDelayed := true }
        else ({ (a.updateCurrentPlan oid) with cl := out.cl }).updPlan oid (fun p => { p with status := out.status }))
        = atS3 (a.updateCurrentPlan oid) out oid := rfl
    rw [hs3]
    by_cases hemp : out.schedule.isEmpty = true
    · by_cases hfin : out.status = .finished
      · simp only [hemp, hfin, and_self, if_true]
        have hs4 : ((atS3 (a.updateCurrentPlan oid) out oid).addSch ⟨natNow now, oid, .allocStopped⟩).addBuf
            ⟨natNow now, oid, .bufRemoved⟩ = atS4 (atS3 (a.updateCurrentPlan oid) out oid) (natNow now) oid := rfl
        rw [hs4]
        cases hrem : ((atS4 (atS3 (a.updateCurrentPlan oid) out oid) (natNow now) oid).buf.remove oid) with
        | mk b1 flag =>
          cases flag with
          | true =>
            simp only
            have hq' : oid ∈ (atS4 (atS3 (a.updateCurrentPlan oid) out oid) (natNow now) oid).queue := by
              show oid ∈ (atS3 (a.updateCurrentPlan oid) out oid).queue
              rw [atS3_queue]; exact hq
            simp only [hq', if_true]
            simp
          | false => simp
      · simp only [hemp, hfin, and_false, if_false, if_true]
        simp
    · have hemp' : out.schedule.isEmpty = false := by simpa using hemp
      simp only [hemp', Bool.false_eq_true, false_and, if_false]
      rw [herr plan out hpl hrun hemp']
      simp

/-- **T8, BatchProcessing**: a block of an `allocate_tasks` process does not raise.  `hparts`, `hsp`: the
batch clause of `Feasible` for the observation of the process (`_max_resource_provision` finds the
observation in the split, with a minimum the cluster supports; the number of partitions is positive). -/
theorem nc_allocTasks_nr_B {s : Sys} (hs : SInv s) (hri : RI s) (hnp : NcP s) (hpr : PR s) (hpx : PX s)
    (hst : ST s) (hfi : FI s)
    (hmach : ∀ m ∈ s.cl.machines, ∃ mm, s.machine? m = some mm ∧ 0 < mm.cpu ∧ 0 < mm.bw)
    {p : Proc} (hp : p ∈ s.procs) (ha : p.alive = true) {oid : Oid} {sc pa : List (Tid × Mid)}
    {po : List Tid} {fn : Bool} (hk : p.k = .allocTasks oid sc pa po fn) (orc : Oracle)
    {parts minPer : Nat} {split : Option (List (Oid × Nat × Nat))} (halg : s.alg = .batch parts minPer split)
    (hparts : 0 < parts)
    (hsp : ∀ sp, split = some sp → ∃ lo hi, dictGet sp oid = some (lo, hi) ∧ lo ≤ s.cl.machines.length) :
    ∀ err, (s.block p orc).2.2 ≠ .raised err := by
  rw [block_allocTasks orc hk]
  cases fn with
  | true =>
    rw [allocTasksBlock_fin]
    intro err h; cases h
  | false =>
    rw [allocTasksBlock_eq]
    obtain ⟨U, hU⟩ := hs.ci
    obtain ⟨h1, e_procs, e_np, e_q, e_cl, e_alg, e_ts⟩ := hri.pruned p.wake p.pc oid
    have hp1 : p ∈ ((atStart s p.wake p.pc oid).updateCurrentPlan oid).procs := by rw [e_procs]; exact hp
    have hinv1 : Cluster.Inv ((atStart s p.wake p.pc oid).updateCurrentPlan oid).cl U := by rw [e_cl]; exact hU.inv
    obtain ⟨hq1, hpl1⟩ := h1.atsQ p hp1 ha oid sc pa po hk
    have halg1 : ((atStart s p.wake p.pc oid).updateCurrentPlan oid).alg = .batch parts minPer split := e_alg.trans halg
    have hno1 : ((atStart s p.wake p.pc oid).updateCurrentPlan oid).alg ≠ .oracle := by rw [halg1]; simp
    -- the states: `s`, the state `s1` in which the algorithm runs, the state `a3` in which the loop starts
    have hQ01 : QuietB s ((atStart s p.wake p.pc oid).updateCurrentPlan oid) :=
      (quietB_atStart s p.wake p.pc oid).trans (quietB_updateCurrentPlan _ oid)
    have hst1 : ST ((atStart s p.wake p.pc oid).updateCurrentPlan oid) := hQ01.st hst
    have hm1 : ((atStart s p.wake p.pc oid).updateCurrentPlan oid).machines = s.machines :=
      (updateCurrentPlan_machs _ oid).trans (atStart_machs _ _ _ _)
    -- `BatchProcessing.run` does not raise
    have hne : ∀ plan e, ((atStart s p.wake p.pc oid).updateCurrentPlan oid).plan? oid = some plan →
        ((atStart s p.wake p.pc oid).updateCurrentPlan oid).runAlgorithm orc plan sc po ≠ .error e := by
      intro plan e hplan hrun
      have hpobs : plan.obs = oid := (plan?_mem hplan).2
      unfold runAlgorithm at hrun
      rw [halg1] at hrun
      obtain ⟨out, hout⟩ := lb_batchRun_ok _ hinv1 plan
        ((atStart s p.wake p.pc oid).updateCurrentPlan oid).taskView parts minPer split sc po hparts
        (by rw [hpobs, e_cl]; exact hsp)
      have hrun' : Alg.batchRun ((atStart s p.wake p.pc oid).updateCurrentPlan oid).cl plan
          ((atStart s p.wake p.pc oid).updateCurrentPlan oid).taskView parts minPer split sc po = .error e := hrun
      rw [hout] at hrun'
      cases hrun'
    refine nc_allocTasksIter_nr_B _ _ _ _ _ _ _ hpl1 hne hq1 ?_
    intro plan out hplan hrun hemp
    generalize hs1 : (atStart s p.wake p.pc oid).updateCurrentPlan oid = s1 at *
    have hqr : Alg.batchRun s1.cl plan s1.taskView parts minPer split sc po = .ok out := by
      have := hrun
      unfold runAlgorithm at this
      rw [halg1] at this
      exact this
    obtain ⟨h3, _, _, g4, g5, _⟩ := h1.afterBatch hinv1 hp1 ha hk plan hplan parts minPer split out hqr
    have hQ13 : QuietB s1 (atS3 s1 out oid) :=
      quietB_atS3 s1 out oid (runAlgorithm_finished_eq s1 orc plan sc po out hno1 hrun)
    have hQ03 : QuietB s (atS3 s1 out oid) := hQ01.trans hQ13
    have hprop := proposals_ready hst1 hno1 orc oid plan hplan sc po out hrun
    apply nc_pcs_err _ _ _ _ _ g4
    intro t ht
    -- the entry of the schedule
    have hsome : ∃ m, dictGet out.schedule t = some m := by
      cases hd : dictGet out.schedule t with
      | none => exact absurd ht ((dictGet_none_iff _ _).mp hd)
      | some m => exact ⟨m, rfl⟩
    obtain ⟨m, hm⟩ := hsome
    have hmem : (t, m) ∈ out.schedule := dictGet_some_mem hm
    -- its machine
    have hmc : m ∈ s.cl.machines := by
      by_cases hxs : (t, m) ∈ sc
      · exact hnp.scM p hp oid sc pa po false hk (t, m) hxs
      · obtain ⟨cl1, b, hprv, hall⟩ := batch_core _ _ _ _ _ _ _ _ _ hqr
        obtain ⟨_, _, hmi⟩ := hall (t, m) hmem hxs
        have hinvc := (clQuiet_provisionResources _ _ _ _ _ _ _ hprv).inv U hinv1
        have := lb_idle_machine hinvc hmi
        rw [provisionResources_machines _ _ _ _ _ _ _ hprv, e_cl] at this
        exact this
    obtain ⟨mm, hmm, hcpu, hbw⟩ := hmach m hmc
    have hmm3 : (atS3 s1 out oid).machine? m = some mm := by
      rw [machine?_congr ((atS3_machs s1 out oid).trans hm1)]; exact hmm
    -- its record
    have hrdy : Rdy (atS3 s1 out oid) t := by
      rcases hprop t ht with h2 | h2
      · exact hQ03.rdy (hpr.schedRdy p hp oid sc pa po false hk t h2)
      · exact hQ13.rdy h2.1
    obtain ⟨r3, hr3, hpreds⟩ := hrdy
    obtain ⟨hpt, hun⟩ := g5 t ht
    have hstat : r3.status = .unscheduled := by
      have h2 : tstat (atS3 s1 out oid) t = .unscheduled := by rw [atS3_tstat]; exact hun
      rw [tstat_eq, hr3] at h2
      exact h2
    obtain ⟨c, n, htwf⟩ := planTasks_wf h1.pt hpt
    -- the record in `s`
    have hrs : ∃ rs, s.task? t = some rs ∧ rs.preds = r3.preds := by
      rcases hQ03.task.bwd hr3 with ⟨rs, hrs, hkk⟩ | ⟨h0, _⟩
      · exact ⟨rs, hrs, hkk.shape.preds.symm⟩
      · exfalso
        have := hQ03.newIng t r3 h0 hr3
        rw [htwf] at this
        simp [Tid.isIngest] at this
    obtain ⟨rs, hrs, hrsp⟩ := hrs
    refine ⟨m, r3, mm, hm, hr3, hmm3, hcpu, hbw, hstat, ?_⟩
    intro q hq
    obtain ⟨hqw, hqf⟩ := hpreds q hq
    have hqf0 : FinT s q := (finT_congr hQ03.fin q).mp hqf
    -- the predecessor has run: it has a body, hence an allocation process
    have hstart := hfi.finRan q hqf0
    obtain ⟨d, hd, md, pd, phd, totd, hdk, _⟩ := hs.dg.startsDw q hstart
    obtain ⟨a, ha1, m', preds', obs, ing, ret, hak⟩ := hnp.dwAT d hd _ _ _ _ _ hdk
    cases ing with
    | true =>
      exfalso
      have := hnp.atIng a ha1 _ _ _ _ _ hak
      rw [isWf_not_ingest hqw] at this
      cases this
    | false =>
      obtain ⟨o1, c1, n1, e1, e2⟩ := hpx.atObs a ha1 _ _ _ _ _ hak
      obtain ⟨u, e3⟩ := hpx.predObs t rs hrs oid c n htwf q (by rw [hrsp]; exact hq)
      rw [e2] at e3
      injection e3 with e4 _ _
      subst e4
      subst e1
      exact hnp.atPairs a ha1 q m' preds' o1 ret hak p hp ha sc pa po hk
end Sys
end Topsim
