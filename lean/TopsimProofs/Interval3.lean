/-
  Interval3 — `IvInv` under the two blocks of an allocation process that change the cluster (the
  machine is taken; the machine is given back, at a time not before the recorded finish), one step
  of the block system, and every reachable state.
-/
import TopsimProofs.Interval2
import TopsimProofs.Reserve2

namespace Topsim
namespace Sys

open Cluster

/-- only an allocation process creates a task body -/
theorem newKind_dw_src {k k' : PK} (h : NewKind k k') {t m c ph tot} (e : k' = .doWork t m c ph tot) :
    ∃ t0 m0 preds obs ing ret, k = .allocTask t0 m0 preds obs ing ret := by
  subst e
  cases k <;> simp [NewKind] at h
  exact ⟨_, _, _, _, _, _, rfl⟩

/-- the machine is taken: first block of the allocation process of `t0` on `m0` -/
theorem ivInv_begin {s s' : Sys} (h : IvInv s) (hs : SInv s) (hs' : SInv s') {R} (hsp : SpanInv R s)
    {p p' q0 : Proc} (hp : p ∈ s.procs) {t0 : Tid} {m0 : Mid} {preds : List Tid} {obs : Option Oid} {ing : Bool}
    (hm : MemSpec s s' p p' [q0]) (hq0 : q0.k = .doWork t0 m0 preds 0 0) (hq0pid : q0.pid = s.nextPid)
    (hT : SpanStep s s') (hrunOn : s'.cl.runOn = s.cl.runOn ++ [⟨t0, m0, obs, ing⟩])
    (hrunning : s'.cl.running = s.cl.running ++ [t0])
    (hnow : ∀ f, Now s f → Now s' f)
    (htel : ∀ q ∈ s'.procs, q.k = .telescope → ∃ n : Nat, q.wake = ((n : Nat) : Time))
    (hp'k : ∀ t m c ph tot, p'.k ≠ .doWork t m c ph tot)
    (hpk : ∀ t m c ph tot, p.k ≠ .doWork t m c ph tot) : IvInv s' := by
  have hq0m : q0 ∈ s'.procs := (hm q0).mpr (Or.inr (Or.inr (List.mem_singleton.mpr rfl)))
  -- there was no body of `t0` before
  have hfresh : ∀ d ∈ s.procs, ∀ m c ph tot, d.k ≠ .doWork t0 m c ph tot := by
    intro d hd m c ph tot hdk
    have hne : d.pid ≠ p.pid := by
      intro e
      have : d = p := hs.pw.eq_of_pid hd hp e
      subst this
      exact hpk t0 m c ph tot hdk
    have hd' : d ∈ s'.procs := (hm d).mpr (Or.inr (Or.inl ⟨hd, hne⟩))
    have e := hs'.dg.dwUniq d hd' q0 hq0m t0 m c ph tot m0 preds 0 0 hdk hq0
    have := hs.pw.lt d hd
    omega
  -- a body of the new table: an old one, or the new one
  have hbody : ∀ d' ∈ s'.procs, ∀ t m c ph tot, d'.k = .doWork t m c ph tot →
      (d' ∈ s.procs ∧ t ≠ t0) ∨ (t = t0 ∧ m = m0) := by
    intro d' hd' t m c ph tot hk
    rcases (hm d').mp hd' with rfl | ⟨h1, _⟩ | h1
    · exact absurd hk (hp'k t m c ph tot)
    · refine Or.inl ⟨h1, fun e => ?_⟩
      subst e
      exact hfresh d' h1 m c ph tot hk
    · simp only [List.mem_singleton] at h1
      subst h1
      rw [hq0] at hk
      injection hk with e1 e2 _ _ _
      exact Or.inr ⟨e1.symm, e2.symm⟩
  -- the record of `t0` carries no start
  have hnoast : ∀ r' a, s'.task? t0 = some r' → r'.ast = some a → False := by
    intro r' a hr' hast
    rcases hT.bwd hr' with ⟨r, hr, hk⟩ | ⟨_, hfr⟩
    · rcases h.stamp t0 r a hr (by rw [← hk.ast]; exact hast) with ⟨d, hd, _, m, c, tot, hdk⟩ | h2
      · exact hfresh d hd m c 2 tot hdk
      · cases hf : r.aft with
        | none => rw [hf] at h2; cases h2
        | some f =>
          obtain ⟨d, hd, m, c, tot, hdk⟩ := hsp.stamped t0 r f hr hf
          exact hfresh d hd m c 3 tot hdk
    · rw [hfr.ast] at hast; cases hast
  have hrec : ∀ t r', s'.task? t = some r' → (∃ a, r'.ast = some a) →
      ∃ r, s.task? t = some r ∧ r'.ast = r.ast ∧ r'.aft = r.aft := by
    intro t r' hr' ⟨a, ha⟩
    rcases hT.bwd hr' with ⟨r, hr, hk⟩ | ⟨_, hfr⟩
    · exact ⟨r, hr, hk.ast, hk.aft⟩
    · rw [hfr.ast] at ha; cases ha
  constructor
  · exact htel
  · intro t r' f hr' hf hnr
    have hnr0 : t ∉ s.cl.running := fun hin => hnr (by rw [hrunning]; exact List.mem_append_left _ hin)
    rcases hT.bwd hr' with ⟨r, hr, hk⟩ | ⟨_, hfr⟩
    · exact hnow f (h.rel t r f hr (by rw [← hk.aft]; exact hf) hnr0)
    · rw [hfr.aft] at hf; cases hf
  · intro d' hd' t m c ph tot hk hrun
    rcases hbody d' hd' t m c ph tot hk with ⟨hd, hne⟩ | ⟨rfl, rfl⟩
    · rw [hrunning] at hrun
      rcases List.mem_append.mp hrun with h1 | h1
      · obtain ⟨e, he, g1, g2⟩ := h.hold d' hd t m c ph tot hk h1
        exact ⟨e, by rw [hrunOn]; exact List.mem_append_left _ he, g1, g2⟩
      · exact absurd (List.mem_singleton.mp h1) hne
    · exact ⟨⟨t, m, obs, ing⟩, by rw [hrunOn]; simp, rfl, rfl⟩
  · intro t r' a hr' hast
    obtain ⟨r, hr, e1, e2⟩ := hrec t r' hr' ⟨a, hast⟩
    rcases h.stamp t r a hr (by rw [← e1]; exact hast) with ⟨d, hd, hda, m, c, tot, hdk⟩ | h2
    · left
      have hne : d.pid ≠ p.pid := by
        intro e
        have : d = p := hs.pw.eq_of_pid hd hp e
        subst this
        exact hpk t m c 2 tot hdk
      exact ⟨d, (hm d).mpr (Or.inr (Or.inl ⟨hd, hne⟩)), hda, m, c, tot, hdk⟩
    · right; rw [e2]; exact h2
  · intro d1' hd1' d2' hd2' t1 t2 m c1 c2 ph1 ph2 tot1 tot2 hk1 hk2 hne r1' r2' a1 a2 hr1' hr2' ha1 ha2
    rcases hbody d1' hd1' t1 m c1 ph1 tot1 hk1 with ⟨hd1, _⟩ | ⟨rfl, _⟩
    · rcases hbody d2' hd2' t2 m c2 ph2 tot2 hk2 with ⟨hd2, _⟩ | ⟨rfl, _⟩
      · obtain ⟨r1, hr1, e1, f1⟩ := hrec t1 r1' hr1' ⟨a1, ha1⟩
        obtain ⟨r2, hr2, e2, f2⟩ := hrec t2 r2' hr2' ⟨a2, ha2⟩
        rw [f1, f2]
        exact h.pair d1' hd1 d2' hd2 t1 t2 m c1 c2 ph1 ph2 tot1 tot2 hk1 hk2 hne r1 r2 a1 a2 hr1 hr2
          (by rw [← e1]; exact ha1) (by rw [← e2]; exact ha2)
      · exact absurd ha2 (fun e => hnoast r2' a2 hr2' e)
    · exact absurd ha1 (fun e => hnoast r1' a1 hr1' e)

/-- the machine is given back, at `now` with every recorded finish of the task reached -/
theorem ivInv_end {s s' : Sys} (h : IvInv s) (hs : SInv s) {p p' : Proc} {new : List Proc}
    (hp : p ∈ s.procs) (ha : p.alive = true) (hmin : ∀ q ∈ s.procs, q.alive = true → p.wake ≤ q.wake)
    {t0 : Tid} {m0 : Mid} {obs : Option Oid} {ing : Bool}
    (hm : MemSpec s s' p p' new) (hnew : ∀ q, q ∉ new) (hT : SpanStep s s')
    (hrunOn : s'.cl.runOn = s.cl.runOn.erase ⟨t0, m0, obs, ing⟩)
    (hrunning : s'.cl.running = s.cl.running.erase t0)
    (hrel : ∀ r f, s.task? t0 = some r → r.aft = some f → f ≤ p.wake)
    (hnow : ∀ f, Now s f → Now s' f)
    (htel : ∀ q ∈ s'.procs, q.k = .telescope → ∃ n : Nat, q.wake = ((n : Nat) : Time))
    (hp'k : ∀ t m c ph tot, p'.k ≠ .doWork t m c ph tot)
    (hpk : ∀ t m c ph tot, p.k ≠ .doWork t m c ph tot) : IvInv s' := by
  obtain ⟨U, hU⟩ := hs.ci
  have hbody : ∀ d' ∈ s'.procs, ∀ t m c ph tot, d'.k = .doWork t m c ph tot → d' ∈ s.procs := by
    intro d' hd' t m c ph tot hk
    rcases (hm d').mp hd' with rfl | ⟨h1, _⟩ | h1
    · exact absurd hk (hp'k t m c ph tot)
    · exact h1
    · exact absurd h1 (hnew d')
  have hrec : ∀ t r', s'.task? t = some r' → (∃ a, r'.ast = some a) →
      ∃ r, s.task? t = some r ∧ r'.ast = r.ast ∧ r'.aft = r.aft := by
    intro t r' hr' ⟨a, ha⟩
    rcases hT.bwd hr' with ⟨r, hr, hk⟩ | ⟨_, hfr⟩
    · exact ⟨r, hr, hk.ast, hk.aft⟩
    · rw [hfr.ast] at ha; cases ha
  constructor
  · exact htel
  · intro t r' f hr' hf hnr
    rcases hT.bwd hr' with ⟨r, hr, hk⟩ | ⟨_, hfr⟩
    · have hf0 : r.aft = some f := by rw [← hk.aft]; exact hf
      by_cases e : t = t0
      · subst e
        have hle := hrel r f hr hf0
        have hn : Now s p.wake := hmin
        exact (hnow _ hn).mono hle
      · have hnr0 : t ∉ s.cl.running := by
          intro hin
          apply hnr
          rw [hrunning]
          exact (List.mem_erase_of_ne e).mpr hin
        exact hnow f (h.rel t r f hr hf0 hnr0)
    · rw [hfr.aft] at hf; cases hf
  · intro d' hd' t m c ph tot hk hrun
    have hd := hbody d' hd' t m c ph tot hk
    rw [hrunning] at hrun
    have hrun0 : t ∈ s.cl.running := List.mem_of_mem_erase hrun
    have hne : t ≠ t0 := by
      intro e
      subst e
      exact (List.Nodup.mem_erase_iff hU.inv.runNodup).mp hrun |>.1 rfl
    obtain ⟨e, he, g1, g2⟩ := h.hold d' hd t m c ph tot hk hrun0
    refine ⟨e, ?_, g1, g2⟩
    rw [hrunOn]
    apply (List.mem_erase_of_ne ?_).mpr he
    intro ee
    rw [ee] at g1
    exact hne g1.symm
  · intro t r' a hr' hast
    obtain ⟨r, hr, e1, e2⟩ := hrec t r' hr' ⟨a, hast⟩
    rcases h.stamp t r a hr (by rw [← e1]; exact hast) with ⟨d, hd, hda, m, c, tot, hdk⟩ | h2
    · left
      have hne : d.pid ≠ p.pid := by
        intro e
        have : d = p := hs.pw.eq_of_pid hd hp e
        subst this
        exact hpk t m c 2 tot hdk
      exact ⟨d, (hm d).mpr (Or.inr (Or.inl ⟨hd, hne⟩)), hda, m, c, tot, hdk⟩
    · right; rw [e2]; exact h2
  · intro d1' hd1' d2' hd2' t1 t2 m c1 c2 ph1 ph2 tot1 tot2 hk1 hk2 hne r1' r2' a1 a2 hr1' hr2' ha1 ha2
    have hd1 := hbody d1' hd1' t1 m c1 ph1 tot1 hk1
    have hd2 := hbody d2' hd2' t2 m c2 ph2 tot2 hk2
    obtain ⟨r1, hr1, e1, f1⟩ := hrec t1 r1' hr1' ⟨a1, ha1⟩
    obtain ⟨r2, hr2, e2, f2⟩ := hrec t2 r2' hr2' ⟨a2, ha2⟩
    rw [f1, f2]
    exact h.pair d1' hd1 d2' hd2 t1 t2 m c1 c2 ph1 ph2 tot1 tot2 hk1 hk2 hne r1 r2 a1 a2 hr1 hr2
      (by rw [← e1]; exact ha1) (by rw [← e2]; exact ha2)

/-! ### one step -/

theorem ivInv_step {R} {s : Sys} (hs : SInv s) (hsp : SpanInv R s) (h : IvInv s) {pid : Nat}
    (hen : s.enabled pid) (orc : Oracle) (hpre : s.alg = .oracle → orc.preOk)
    (hs' : SInv (s.resume pid orc).1) : IvInv (s.resume pid orc).1 := by
  obtain ⟨p, hp, ha, hmin⟩ := hen
  obtain ⟨hpm, hpid⟩ := proc?_some hp
  obtain ⟨new, hm, hnewe, hnewp⟩ := ot_step_table hs hp ha hmin orc
  have hcore := resume_core s pid orc p hp ha
  have htasks : (s.resume pid orc).1.tasks = (s.block p orc).1.tasks := by rw [hcore.tasks]; rfl
  have hcl : (s.resume pid orc).1.cl = (s.block p orc).1.cl := by rw [hcore.cl]; rfl
  have htel := iv_tel_step hs h hp ha hmin orc
  have hnow : ∀ f, Now s f → Now (s.resume pid orc).1 f := fun f hn => now_resume hs h hp ha hmin orc hn
  obtain ⟨U, hU⟩ := hs.ci
  obtain ⟨U', hU'⟩ := hs'.ci
  have hrunning_of : (s.resume pid orc).1.cl.runOn = s.cl.runOn →
      (s.resume pid orc).1.cl.running = s.cl.running := by
    intro e
    rw [← hU'.inv.runOnTasks, ← hU.inv.runOnTasks, e]
  have hp'tag : (fin (s.block p orc).2.1 (s.block p orc).2.2 p.wake p).k.tag = p.k.tag := by
    simp only [fin_k]; exact block_tag s hs.pw p orc
  -- a quiet step of a process that is no task body
  have hquiet : p.k.tag ≠ "doWork" → (∀ q ∈ new, ∀ t m c ph tot, q.k ≠ .doWork t m c ph tot) →
      (s.block p orc).1.cl.runOn = s.cl.runOn → IvInv (s.resume pid orc).1 := by
    intro htag hnew hro
    have hT : SpanStep s (s.resume pid orc).1 := (block_spanStep s hs.pw p orc htag).of_tasks_eq htasks
    have hro' : (s.resume pid orc).1.cl.runOn = s.cl.runOn := by rw [hcl]; exact hro
    refine ivInv_quiet h hs hpm hm hT hro' (hrunning_of hro') hnow htel hnew ?_ ?_
    · intro t m c tot e; rw [e] at htag; exact htag rfl
    · intro t m c ph tot e
      rw [e] at hp'tag
      exact absurd hp'tag.symm htag
  cases hk : p.k with
  | doWork t m c ph tot =>
    have hnone : ∀ q, q ∉ new := by
      intro q hq
      have := (hnewp q hq).2.2.2
      rw [hk] at this
      exact this
    have hb : s.block p orc = s.doWorkBlock p.wake orc t m c ph tot := block_doWork orc hk
    have hclb : (s.block p orc).1.cl = s.cl := (doWork_facts s p orc hk).2.2.1
    have hcl0 : (s.resume pid orc).1.cl = s.cl := hcl.trans hclb
    by_cases hph : ph = 2
    · subst hph
      rw [hb, doWorkBlock_ph2] at hm htasks
      exact ivInv_finish h hs hsp hpm ha hk hm hnone htasks hcl0 hnow htel (by simp only [fin_k])
    · have hsh := doWorkBlock_shape2 s p.wake orc t m c ph tot
      rw [hb] at hm htasks
      generalize s.doWorkBlock p.wake orc t m c ph tot = X at hsh hm htasks
      have hq : ∀ (ph' : Nat) (y : Yield), X = (s, .doWork t m c ph' tot, y) → IvInv (s.resume pid orc).1 := by
        intro ph' y hX
        subst hX
        refine ivInv_quiet h hs hpm hm (SpanStep.of_eq htasks) (by rw [hcl0]) (by rw [hcl0]) hnow htel
          (fun q hq => absurd hq (hnone q)) ?_ ?_
        · intro t1 m1 c1 tot1 e
          rw [hk] at e
          injection e with _ _ _ e4 _
          exact hph e4
        · intro t1 m1 c1 ph1 tot1 e
          simp only [fin_k] at e
          injection e with e1 e2 _ _ _
          subst e1 e2
          exact ⟨c, ph, tot, hk⟩
      cases hsh with
      | raised ph' e _ => exact hq ph' _ rfl
      | wait w => exact hq 1 _ rfl
      | start r mm dur _ _ _ =>
        exact ivInv_start h hs hpm ha hk dur (orc.bodyTotal t (s.starts.filter (fun x => !x.isIngest)).length dur)
          hm hnone htasks hcl0 hnow htel (by simp only [fin_k]) (by
          show (fin _ (.timeout _) p.wake p).alive = true
          rw [fin_alive_timeout]; exact ha)
      | finish h2 =>
        exfalso
        have := hsp.phase p hpm ha t m c ph tot hk
        omega
  | allocTask t0 m0 preds obs ing ret =>
    have hb : s.block p orc = s.allocTaskBlock p.wake t0 m0 preds obs ing ret := block_allocTask orc hk
    have htag : p.k.tag ≠ "doWork" := by rw [hk]; simp [PK.tag]
    have hT : SpanStep s (s.resume pid orc).1 := (block_spanStep s hs.pw p orc htag).of_tasks_eq htasks
    have hp'k : ∀ t m c ph tot, (fin (s.block p orc).2.1 (s.block p orc).2.2 p.wake p).k ≠ .doWork t m c ph tot := by
      intro t m c ph tot e
      rw [e] at hp'tag
      rw [hk] at hp'tag
      simp [PK.tag] at hp'tag
    have hpk : ∀ t m c ph tot, p.k ≠ .doWork t m c ph tot := by
      intro t m c ph tot e; rw [hk] at e; cases e
    -- the outcomes that create no process
    have hsame : (s.block p orc).1.procs = s.procs → (s.block p orc).1.cl.runOn = s.cl.runOn →
        IvInv (s.resume pid orc).1 := by
      intro hprocs hro
      have hnil : new = [] := List.append_cancel_left (hnewe.symm.trans (hprocs.trans (List.append_nil _).symm))
      exact hquiet htag (by rw [hnil]; simp) hro
    rcases allocTaskBlock_cases' s hs.pw p.wake t0 m0 preds obs ing ret with
      ⟨_, e, he, heq⟩ | ⟨hnr, hok, heq⟩ | ⟨_, _, heq⟩ | ⟨_, _, e, he, heq⟩ | ⟨hr, ⟨_, haft⟩, hok, heq⟩
    · apply hsame <;> rw [hb, heq]
      · show (s.cl.allocBegin t0 m0 obs ing).1.runOn = _
        rw [allocBegin_err_unchanged s.cl t0 m0 obs ing e he]
    · -- the machine is taken
      have hf := allocBegin_fields s.cl t0 m0 obs ing hok
      have hnew1 : new = [{ pid := s.nextPid, k := .doWork t0 m0 preds 0 0, wake := p.wake }] := by
        have : (s.block p orc).1.procs = s.procs ++
            [{ pid := s.nextPid, k := .doWork t0 m0 preds 0 0, wake := p.wake }] := by rw [hb, heq]; rfl
        exact List.append_cancel_left (hnewe.symm.trans this)
      subst hnew1
      have hclX : (s.block p orc).1.cl = (s.cl.allocBegin t0 m0 obs ing).1 := by rw [hb, heq]; rfl
      exact ivInv_begin h hs hs' hsp hpm hm rfl rfl hT (by rw [hcl, hclX]; exact hf.1)
        (by rw [hcl, hclX]; exact hf.2.2.1) hnow htel hp'k hpk
    · apply hsame <;> rw [hb, heq]
    · apply hsame <;> rw [hb, heq]
      · show (s.cl.allocEnd t0 m0 obs ing).1.runOn = _
        exact (allocEnd_err s.cl t0 m0 obs ing e he).2.1
    · -- the machine is given back
      have hf := allocEnd_fields s.cl t0 m0 obs ing hok
      have hnil : new = [] := by
        have : (s.block p orc).1.procs = s.procs := by rw [hb, heq]; rfl
        exact List.append_cancel_left (hnewe.symm.trans (this.trans (List.append_nil _).symm))
      have hclX : (s.block p orc).1.cl = (s.cl.allocEnd t0 m0 obs ing).1 := by rw [hb, heq]; rfl
      exact ivInv_end h hs hpm ha hmin hm (by rw [hnil]; simp) hT (by rw [hcl, hclX]; exact hf.1)
        (by rw [hcl, hclX]; exact hf.2.2.1) (aftReached_eq_true haft) hnow htel hp'k hpk
  | allocTasks o sc pa po fn =>
    refine hquiet (by rw [hk]; simp [PK.tag]) ?_ ?_
    · intro q hq t m c ph tot e
      obtain ⟨t0, m0, preds, obs, ing, ret, e'⟩ := newKind_dw_src (hnewp q hq).2.2.2 e
      rw [hk] at e'; cases e'
    · rw [block_allocTasks orc hk]; exact allocTasksBlock_runOn s p.wake orc hpre p.pc o sc pa po fn
  | _ =>
    refine hquiet (by rw [hk]; simp [PK.tag]) ?_ ?_
    · intro q hq t m c ph tot e
      obtain ⟨t0, m0, preds, obs, ing, ret, e'⟩ := newKind_dw_src (hnewp q hq).2.2.2 e
      rw [hk] at e'; cases e'
    · exact block_runOn_harmless s p orc (by rw [hk]; simp [PK.tag]) (by rw [hk]; simp [PK.tag])

theorem ivInv_start0 (s0 : Sys) (hw : WFConfig s0) : IvInv s0.start := by
  have hp := start_procs s0 hw
  have ht : s0.start.tasks = [] := by rw [← hw.fresh.2.2.1]; simp [start, spawn]
  have hnone : ∀ t, s0.start.task? t = none := by intro t; unfold task?; rw [ht]; rfl
  constructor
  · intro q hq _
    rw [hp] at hq
    simp only [List.mem_cons, List.not_mem_nil, or_false] at hq
    rcases hq with rfl | rfl | rfl | rfl | rfl <;> exact ⟨0, by simp⟩
  · intro t r f hr; rw [hnone] at hr; cases hr
  · intro d hd t m c ph tot hk
    rw [hp] at hd
    simp only [List.mem_cons, List.not_mem_nil, or_false] at hd
    rcases hd with rfl | rfl | rfl | rfl | rfl <;> simp at hk
  · intro t r a hr; rw [hnone] at hr; cases hr
  · intro d1 hd1 d2 _ t1 t2 m c1 c2 ph1 ph2 tot1 tot2 hk1
    rw [hp] at hd1
    simp only [List.mem_cons, List.not_mem_nil, or_false] at hd1
    rcases hd1 with rfl | rfl | rfl | rfl | rfl <;> simp at hk1

/-- `IvInv` in every reachable state, any block order, any oracle -/
theorem reachOk_ivInv (s0 s : Sys) (hw : WFConfig s0) (h : ReachOk s0 s) : IvInv s := by
  induction h with
  | start => exact ivInv_start0 s0 hw
  | step s pid orc hr hen hpre ih =>
    exact ivInv_step (reach_inv s0 s hw hr) (reachD_spanInv s0 s hw hr.toD) ih hen orc hpre
      (reach_inv s0 _ hw (ReachOk.step s pid orc hr hen hpre))

theorem IvInv.congr {s s' : Sys} (h : IvInv s) (h1 : s'.tasks = s.tasks) (h2 : s'.procs = s.procs)
    (h3 : s'.cl = s.cl) : IvInv s' := by
  have ht : ∀ x, s'.task? x = s.task? x := fun x => by unfold task?; rw [h1]
  constructor
  · rw [h2]; exact h.tel
  · intro t r f hr hf hnr
    rw [ht] at hr; rw [h3] at hnr
    have := h.rel t r f hr hf hnr
    intro q hq; rw [h2] at hq; exact this q hq
  · rw [h2, h3]; exact h.hold
  · intro t r a hr hast
    rw [ht] at hr; rw [h2]; exact h.stamp t r a hr hast
  · rw [h2]
    intro d1 hd1 d2 hd2 t1 t2 m c1 c2 ph1 ph2 tot1 tot2 hk1 hk2 hne r1 r2 a1 a2 hr1 hr2
    rw [ht] at hr1 hr2
    exact h.pair d1 hd1 d2 hd2 t1 t2 m c1 c2 ph1 ph2 tot1 tot2 hk1 hk2 hne r1 r2 a1 a2 hr1 hr2

/-- `IvInv` in every state of every run of the simulator (pauses and states after an exception
included) -/
theorem sim_ivInv (env : SimEnv) (s0 : Sys) (hw : WFConfig s0) (k : SimState) (h : SimReach env s0 k) :
    IvInv k.st := by
  refine SimReach.sys_induct hw IvInv (ivInv_start0 s0 hw) (fun s hs => hs.congr rfl rfl rfl)
    (fun s hs => hs.congr rfl rfl rfl) ?_ k h
  intro k hr ih pid p hp ha hen
  have hsinv := (hr.l3inv hw).sinv
  exact ivInv_step hsinv (sim_spanInv env s0 hw k hr) ih hen (env.oracle k.st)
    (fun _ => il_oracle_preOk env k.st) (step_inv hsinv hen _ (fun _ => il_oracle_preOk env k.st))

end Sys
end Topsim
