/-
  BoundD1 — C05, the numeric clause UNDER A DELAY MODEL (any `SimEnv`) for QueueProcessing on the
  simulator: vocabulary and the algebra of the delayed weight.

  How a delay reaches a body (`doWorkBlock`, `SimEnv.bodyTotal`): the body of a workflow task whose
  nominal duration on the machine it was given is `dur` is handed
      table[dur]                       if the delay table has an entry for `dur` (the script is NOT used),
      dur + script[k % len]            otherwise, when the script is not empty (`k` = number of workflow
                                       bodies started before),
      dur                              otherwise;
  ingest tasks carry no delay.  `SimEnv.boundDTot env dur` is the largest of these over all `k`:
      table[dur]  if there is an entry, else  dur + max script  (`max [] = 0`).
  The machine is chosen by the algorithm at run time, so the charge of a node maximises over the
  machines of the cluster (a table need not be monotone: the image of the runtime on a FAST machine
  may be the largest):
      boundDOcc env s0 comp data = max 1 (max_{mm ∈ machines} boundDTot env (max (comp / mm.cpu) (data / mm.bw))).
  `boundDWAT` / `boundDV` / `boundDVTotal` / `Sys.serialBoundD` are `boundWAT` / `boundV` / `boundVTotal` /
  `Sys.serialBound` with that occupancy in the place of the occupancy on the slowest machine.
-/
import TopsimProofs.Bound10

namespace Topsim

open KState Sys

/-- the largest total the environment can hand the body of a workflow task of nominal duration `d` -/
def SimEnv.boundDTot (env : SimEnv) (d : Nat) : Nat :=
  match dictGet env.delayTable d with
  | some t => t
  | none => d + env.delayScript.foldl max 0

/-- the largest occupancy of a task with work `(comp, data)` under the environment: the delayed
runtime, maximised over the machines of the cluster (at least one time step) -/
def boundDOcc (env : SimEnv) (s0 : Sys) (comp data : Nat) : Nat :=
  max 1 ((s0.machines.map (fun mm => env.boundDTot (max (comp / mm.cpu) (data / mm.bw)))).foldl max 0)

/-- delayed occupancy of a node -/
def boundDRt (env : SimEnv) (s0 : Sys) (o : Obs) (node : Nat) : Nat :=
  boundDOcc env s0 (boundAttrs o node).2.1 (boundAttrs o node).2.2

/-- weight of the start of a workflow task under the environment -/
def boundDWAT (env : SimEnv) (s0 : Sys) (o : Obs) (node : Nat) : Nat :=
  boundDRt env s0 o node + boundWait s0 o node + 1

open Classical in
/-- the delayed weight of one observation -/
noncomputable def boundDVObs (env : SimEnv) (s0 s : Sys) (o : Obs) : Nat :=
  (if Sys.PAst o.id s then o.duration + 1 else 0) + (if Sys.PQ o.id s then 1 else 0) +
    (if Sys.PRm o.id s then 1 else 0) +
    (o.wf.topo.map (fun node => if Sys.PAT o.id node s then boundDWAT env s0 o node else 0)).sum

/-- the delayed weight of the stages that have happened -/
noncomputable def boundDV (env : SimEnv) (s0 s : Sys) : Nat := (s0.obs.map (boundDVObs env s0 s)).sum

/-- the delayed weight of all the stages -/
def boundDVTotal (env : SimEnv) (s0 : Sys) : Nat :=
  (s0.obs.map (fun o => o.duration + 3 + (o.wf.topo.map (fun node => boundDWAT env s0 o node)).sum)).sum

/-- **The serial bound under a delay environment**: `Sys.serialBound` with the runtime of every task
on the slowest machine replaced by the largest total the environment can hand it on any machine of
the cluster.  A closed expression of the configuration and the environment. -/
def Sys.serialBoundD (env : SimEnv) (s0 : Sys) (c : Nat := 3) : Nat :=
  let slowBw := (s0.machines.map (·.bw)).foldl min (s0.machines.headD default).bw
  let rate := (min s0.buf.hot.maxRate s0.buf.cold.maxRate).toNat
  let latest := (s0.obs.map (·.est)).foldl max 0
  latest + (s0.obs.map (fun o =>
    o.duration + 2 * Sys.ceilDiv (o.rate * o.duration).toNat rate + c +
    (o.wf.nodes.map (fun n =>
      boundDOcc env s0 n.2.1 n.2.2 +
      Sys.ceilDiv ((o.wf.edges.filter (fun e => e.2.1 = n.1)).map (·.2.2) |>.foldl max 0) slowBw + c)).foldl (· + ·) 0)).foldl (· + ·) 0

/-- `latest + V` (delayed) at index `n`, as a time -/
noncomputable def boundDLV (env : SimEnv) (s0 : Sys) (n : Nat) : Time :=
  ((boundLatest s0 + boundDV env s0 (simAt env s0 n).st : Nat) : Time)

/-! ### the algebra of the delayed weight (as Bound2) -/

theorem boundDWAT_pos (env : SimEnv) (s0 : Sys) (o : Obs) (node : Nat) : 1 ≤ boundDWAT env s0 o node := by
  unfold boundDWAT; omega

open Classical in
theorem boundD_vobs_le {env : SimEnv} {s0 s s' : Sys} (h : BoundMono s0 s s') {o : Obs} (ho : o ∈ s0.obs) :
    boundDVObs env s0 s o ≤ boundDVObs env s0 s' o := by
  obtain ⟨h1, h2, h3, h4⟩ := h o ho
  unfold boundDVObs
  have a1 := bound_ite_le h1 (o.duration + 1)
  have a2 := bound_ite_le h2 1
  have a3 := bound_ite_le h3 1
  have a4 := bound_sum_le o.wf.topo
    (fun node => if Sys.PAT o.id node s then boundDWAT env s0 o node else 0)
    (fun node => if Sys.PAT o.id node s' then boundDWAT env s0 o node else 0)
    (fun node hn => bound_ite_le (h4 node hn) _)
  omega

theorem boundD_v_mono_of {env : SimEnv} {s0 s s' : Sys} (h : BoundMono s0 s s') :
    boundDV env s0 s ≤ boundDV env s0 s' :=
  bound_sum_le _ _ _ (fun _ ho => boundD_vobs_le h ho)

open Classical in
/-- an admission adds `duration + 1` -/
theorem boundD_v_add_ast {env : SimEnv} {s0 s s' : Sys} (h : BoundMono s0 s s') {o : Obs} (ho : o ∈ s0.obs)
    (hn : ¬ Sys.PAst o.id s) (hy : Sys.PAst o.id s') :
    boundDV env s0 s + (o.duration + 1) ≤ boundDV env s0 s' := by
  refine bound_sum_add_le _ _ _ (fun o ho => boundD_vobs_le h ho) ho ?_
  obtain ⟨_, h2, h3, h4⟩ := h o ho
  unfold boundDVObs
  have a1 := bound_ite_flip hn hy (o.duration + 1)
  have a2 := bound_ite_le h2 1
  have a3 := bound_ite_le h3 1
  have a4 := bound_sum_le o.wf.topo
    (fun node => if Sys.PAT o.id node s then boundDWAT env s0 o node else 0)
    (fun node => if Sys.PAT o.id node s' then boundDWAT env s0 o node else 0)
    (fun node hn => bound_ite_le (h4 node hn) _)
  omega

open Classical in
/-- a hand-over adds 1 -/
theorem boundD_v_add_q {env : SimEnv} {s0 s s' : Sys} (h : BoundMono s0 s s') {o : Obs} (ho : o ∈ s0.obs)
    (hn : ¬ Sys.PQ o.id s) (hy : Sys.PQ o.id s') : boundDV env s0 s + 1 ≤ boundDV env s0 s' := by
  refine bound_sum_add_le _ _ _ (fun o ho => boundD_vobs_le h ho) ho ?_
  obtain ⟨h1, _, h3, h4⟩ := h o ho
  unfold boundDVObs
  have a1 := bound_ite_le h1 (o.duration + 1)
  have a2 := bound_ite_flip hn hy 1
  have a3 := bound_ite_le h3 1
  have a4 := bound_sum_le o.wf.topo
    (fun node => if Sys.PAT o.id node s then boundDWAT env s0 o node else 0)
    (fun node => if Sys.PAT o.id node s' then boundDWAT env s0 o node else 0)
    (fun node hn => bound_ite_le (h4 node hn) _)
  omega

open Classical in
/-- a removal adds 1 -/
theorem boundD_v_add_rm {env : SimEnv} {s0 s s' : Sys} (h : BoundMono s0 s s') {o : Obs} (ho : o ∈ s0.obs)
    (hn : ¬ Sys.PRm o.id s) (hy : Sys.PRm o.id s') : boundDV env s0 s + 1 ≤ boundDV env s0 s' := by
  refine bound_sum_add_le _ _ _ (fun o ho => boundD_vobs_le h ho) ho ?_
  obtain ⟨h1, h2, _, h4⟩ := h o ho
  unfold boundDVObs
  have a1 := bound_ite_le h1 (o.duration + 1)
  have a2 := bound_ite_le h2 1
  have a3 := bound_ite_flip hn hy 1
  have a4 := bound_sum_le o.wf.topo
    (fun node => if Sys.PAT o.id node s then boundDWAT env s0 o node else 0)
    (fun node => if Sys.PAT o.id node s' then boundDWAT env s0 o node else 0)
    (fun node hn => bound_ite_le (h4 node hn) _)
  omega

open Classical in
/-- the start of a workflow task adds `boundDWAT` -/
theorem boundD_v_add_at {env : SimEnv} {s0 s s' : Sys} (h : BoundMono s0 s s') {o : Obs} (ho : o ∈ s0.obs)
    {node : Nat} (hnode : node ∈ o.wf.topo) (hn : ¬ Sys.PAT o.id node s) (hy : Sys.PAT o.id node s') :
    boundDV env s0 s + boundDWAT env s0 o node ≤ boundDV env s0 s' := by
  refine bound_sum_add_le _ _ _ (fun o ho => boundD_vobs_le h ho) ho ?_
  obtain ⟨h1, h2, h3, h4⟩ := h o ho
  unfold boundDVObs
  have a1 := bound_ite_le h1 (o.duration + 1)
  have a2 := bound_ite_le h2 1
  have a3 := bound_ite_le h3 1
  have a4 := bound_sum_add_le o.wf.topo
    (fun node => if Sys.PAT o.id node s then boundDWAT env s0 o node else 0)
    (fun node => if Sys.PAT o.id node s' then boundDWAT env s0 o node else 0)
    (fun node hn => bound_ite_le (h4 node hn) _) hnode
    (w := boundDWAT env s0 o node) (by rw [if_neg hn, if_pos hy]; omega)
  omega

/-- if the delayed weight did not change, no stage happened -/
theorem boundD_v_eq_noflip {env : SimEnv} {s0 s s' : Sys} (h : BoundMono s0 s s')
    (he : boundDV env s0 s' = boundDV env s0 s) : BoundMono s0 s' s := by
  intro o ho
  refine ⟨fun hy => ?_, fun hy => ?_, fun hy => ?_, fun node hnode hy => ?_⟩
  · apply Classical.byContradiction
    intro hn
    have := boundD_v_add_ast (env := env) h ho hn hy
    omega
  · apply Classical.byContradiction
    intro hn
    have := boundD_v_add_q (env := env) h ho hn hy
    omega
  · apply Classical.byContradiction
    intro hn
    have := boundD_v_add_rm (env := env) h ho hn hy
    omega
  · apply Classical.byContradiction
    intro hn
    have := boundD_v_add_at (env := env) h ho hnode hn hy
    have := boundDWAT_pos env s0 o node
    omega

/-! ### transfer between the two weights: they change at the same steps -/

/-- the delayed weight did not change: the undelayed weight did not change either -/
theorem boundD_v_eq_of_eq {env : SimEnv} {s0 s s' : Sys} (h : BoundMono s0 s s')
    (he : boundDV env s0 s' = boundDV env s0 s) : boundV s0 s' = boundV s0 s :=
  Nat.le_antisymm (bound_v_mono_of (boundD_v_eq_noflip h he)) (bound_v_mono_of h)

/-- the undelayed weight grew: so did the delayed one -/
theorem boundD_v_lt_of_lt {env : SimEnv} {s0 s s' : Sys} (h : BoundMono s0 s s')
    (hl : boundV s0 s < boundV s0 s') : boundDV env s0 s < boundDV env s0 s' := by
  have h1 := boundD_v_mono_of (env := env) h
  apply Classical.byContradiction
  intro hn
  have he : boundDV env s0 s' = boundDV env s0 s := by omega
  have := boundD_v_eq_of_eq h he
  omega

/-! ### along the run -/

section
variable {env : SimEnv} {s0 : Sys}

theorem boundD_v_mono (C : LiveCfg env s0) (K : LiveKernel env s0) {n m : Nat} (h : n ≤ m) :
    boundDV env s0 (simAt env s0 n).st ≤ boundDV env s0 (simAt env s0 m).st :=
  boundD_v_mono_of (bound_run_mono C K h)

theorem boundD_lv_mono (C : LiveCfg env s0) (K : LiveKernel env s0) {n m : Nat} (h : n ≤ m) :
    boundDLV env s0 n ≤ boundDLV env s0 m := by
  unfold boundDLV
  have := boundD_v_mono C K h
  exact_mod_cast Nat.add_le_add_left this _

theorem boundD_latest_le_lv (n : Nat) : ((boundLatest s0 : Nat) : Time) ≤ boundDLV env s0 n := by
  unfold boundDLV
  have : boundLatest s0 ≤ boundLatest s0 + boundDV env s0 (simAt env s0 n).st := Nat.le_add_right _ _
  exact_mod_cast this

end

/-- the parts of the proof of the delayed bound: `BoundParts` with the delayed weight -/
structure BoundDParts (env : SimEnv) (s0 : Sys) : Prop where
  wake_nat : ∀ n, ∀ q ∈ (simAt env s0 (n + 1)).st.procs, q.alive = true → q.k.tag ≠ "doWork" →
    ∃ m : Nat, q.wake = ((m : Nat) : Time) ∧ ((m : Nat) : Time) ≤ boundTau env s0 n + 1
  tl : ∀ n, (∀ j, j < n → boundTau env s0 j ≤ boundDLV env s0 j) →
    ∀ q ∈ (simAt env s0 n).st.procs, q.alive = true → q.BoundWorker → q.wake + 1 ≤ boundDLV env s0 n
  idle_enabled : ∀ n, (simAt env s0 n).st.NoWorker → (simAt env s0 n).st.isFinished = false →
    ∃ p ∈ (simAt env s0 n).st.procs, (simAt env s0 n).st.BoundEn p
  enabled_fires : ∀ n (e : HEntry) (p : Proc), (simAt env s0 n).peek = some e →
    (simAt env s0 n).st.proc? e.pid = some p → (simAt env s0 n).st.BoundEn p →
    (simAt env s0 n).st.NoWorker → ((boundLatest s0 : Nat) : Time) ≤ p.wake →
    boundDV env s0 (simAt env s0 n).st < boundDV env s0 (simAt env s0 (n + 1)).st
  enabled_persists : ∀ n (e : HEntry) (p : Proc), (simAt env s0 n).peek = some e →
    p ∈ (simAt env s0 n).st.procs → p.pid ≠ e.pid → (simAt env s0 n).st.BoundEn p →
    boundDV env s0 (simAt env s0 (n + 1)).st = boundDV env s0 (simAt env s0 n).st →
    p ∈ (simAt env s0 (n + 1)).st.procs ∧ (simAt env s0 (n + 1)).st.BoundEn p
  v_mono : ∀ n, boundDV env s0 (simAt env s0 n).st ≤ boundDV env s0 (simAt env s0 (n + 1)).st

end Topsim
