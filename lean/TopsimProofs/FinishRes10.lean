/-
  FinishRes10 — `RI` under `allocate_tasks` (BatchProcessing): the allocating
  outcome and the assembly.
-/
import TopsimProofs.FinishRes9

namespace Topsim
namespace Sys

open Cluster

theorem RI.atsAlloc {b : Sys} (hb : RI b) (hpwb : PW b) {p : Proc} (hp : p ∈ b.procs) (ha : p.alive = true)
    {oid : Oid} {sc pa : List (Tid × Mid)} {po : List Tid} (hk : p.k = .allocTasks oid sc pa po false)
    (now : Time) (sched0 pairs : List (Tid × Mid)) (hnd : (dictKeys sched0).Nodup)
    (hsk : ∀ t ∈ dictKeys sched0, t ∈ planTasks b oid ∧ tstat b t = .unscheduled)
    (hpwX : PW (processCurrentSchedule b now oid sched0 pairs).s) (po' : List Tid) (y : Yield) :
    RI ((processCurrentSchedule b now oid sched0 pairs).s.updProc p.pid
      (fin (.allocTasks oid (processCurrentSchedule b now oid sched0 pairs).schedule
        (processCurrentSchedule b now oid sched0 pairs).pairs po' false) y p.wake)) := by
  obtain ⟨new, hpcs⟩ := processCurrentSchedule_pcs b now oid sched0 pairs hnd
  have hXq := processCurrentSchedule_queue b now oid sched0 pairs
  have hXpl := processCurrentSchedule_plans b now oid sched0 pairs
  have hXcl := processCurrentSchedule_cl b now oid sched0 pairs
  generalize processCurrentSchedule b now oid sched0 pairs = st at hpcs hpwX hXq hXpl hXcl
  have hm := memSpec_updProc hpwb hp new hpcs.procs hpwX
    (fin (.allocTasks oid st.schedule st.pairs po' false) y p.wake)
  have hts : ∀ t, tstat (st.s.updProc p.pid (fin (.allocTasks oid st.schedule st.pairs po' false) y p.wake)) t
      = tstat st.s t := fun _ => rfl
  have hplT : ∀ o, planTasks (st.s.updProc p.pid (fin (.allocTasks oid st.schedule st.pairs po' false) y p.wake)) o
      = planTasks b o := fun o => planTasks_of_plans hXpl o
  -- a task spawned in this round belongs to the plan of `oid`
  have hspawn : ∀ t, (∃ q ∈ new, ∃ m cross, q.k = .allocTask t m cross (some oid) false 0) →
      t ∈ planTasks b oid := by
    rintro t ⟨q, hq, m, cross, hqk⟩
    obtain ⟨_, _, t0, m0, c0, e, g1, _⟩ := hpcs.newk q hq
    rw [hqk] at e
    injection e with e1
    subst e1
    exact (hsk t g1).1
  refine hb.step' hpwb hp hm (by simp) hXq hXpl ?_ ?_ ?_ ?_ ?_ ?_ ?_ ?_
  · intro q hq hne hqa o sc1 pa1 po1 hqk t ht hu
    rw [hts]
    rcases hpcs.stat t with e | ⟨_, _, hsp⟩
    · rw [e]; exact hu
    · exfalso
      have h1 := hspawn t hsp
      have h2 := ((hb.sl q hq hqa o sc1 pa1 po1 hqk).2 t ht).1
      obtain ⟨c1, n1, e1⟩ := planTasks_wf hb.pt h1
      obtain ⟨c2, n2, e2⟩ := planTasks_wf hb.pt h2
      rw [e1] at e2
      injection e2 with e3
      subst e3
      exact hne (hb.atsUniq q hq p hp hqa ha _ _ _ _ _ _ _ hqk hk)
  · intro o c n hf
    rw [hts] at hf
    rcases hpcs.stat (.wf o c n) with e | ⟨_, e, _⟩
    · left; rw [← e]; exact hf
    · rw [e] at hf; exact absurd hf (by simp)
  · intro q hq hqa o sc2 pa2 po2 hqk
    rcases hq with rfl | hq
    · simp only [fin_k, PK.allocTasks.injEq] at hqk
      obtain ⟨rfl, _⟩ := hqk
      exact ⟨rfl, ha, sc, pa, po, hk⟩
    · obtain ⟨_, _, t0, m0, c0, e, _⟩ := hpcs.newk q hq
      rw [e] at hqk; simp at hqk
  · intro hqa o sc2 pa2 po2 hqk
    simp only [fin_k, PK.allocTasks.injEq] at hqk
    obtain ⟨rfl, rfl, _⟩ := hqk
    refine ⟨hpcs.nodup, fun t ht => ?_⟩
    obtain ⟨g1, g2⟩ := hsk t (hpcs.keys t ht)
    refine ⟨by rw [hplT]; exact g1, ?_⟩
    rw [hts]
    rcases hpcs.stat t with e | ⟨_, _, q, hq, m, cross, hqk⟩
    · rw [e]; exact g2
    · exfalso
      obtain ⟨_, _, t0, m0, c0, e, _, _, _, hnk⟩ := hpcs.newk q hq
      rw [hqk] at e
      injection e with e1
      subst e1
      exact hnk ht
  · intro q hq hqa t m preds o ret hqk
    rcases hq with rfl | hq
    · simp at hqk
    · right
      obtain ⟨_, _, t0, m0, c0, e, g1, _, g3, _⟩ := hpcs.newk q hq
      rw [hqk] at e
      injection e with e1 e2 e3 e4
      subst e1
      injection e4 with e5
      subst e5
      exact ⟨by rw [hts, g3]; simp, by rw [hplT]; exact (hsk t g1).1⟩
  · exact rc_quiet hb hpwb hp hm (by show st.s.cl.runOn = _; rw [hXcl]) (by rw [hk]; simp [PK.tag])
  · intro o ho
    have : (st.s.updProc p.pid (fin (.allocTasks oid st.schedule st.pairs po' false) y p.wake)).cl = b.cl := hXcl
    rw [this] at ho; exact hb.keyQ o ho
  · have : (st.s.updProc p.pid (fin (.allocTasks oid st.schedule st.pairs po' false) y p.wake)).cl = b.cl := hXcl
    rw [this]; exact hb.keyNE

attribute [local irreducible] atS3 atStart Sys.updateCurrentPlan processCurrentSchedule in
theorem ri_allocTasks {s : Sys} (hs : SInv s) (h : RI s) {p : Proc} (hp : p ∈ s.procs) (ha : p.alive = true)
    (orc : Oracle) {oid : Oid} {sc pa : List (Tid × Mid)} {po : List Tid} {fn : Bool}
    (hk : p.k = .allocTasks oid sc pa po fn) {parts minPer : Nat} {split : Option (List (Oid × Nat × Nat))}
    (halg : s.alg = .batch parts minPer split) :
    RI ((s.block p orc).1.updProc p.pid (fin (s.block p orc).2.1 (s.block p orc).2.2 p.wake)) := by
  have hpw := hs.pw
  obtain ⟨U, hU⟩ := hs.ci
  have hb : s.block p orc = s.allocTasksBlock p.wake orc p.pc oid sc pa po fn := by
    unfold block; simp only [hk]
  have hpre : s.alg = .oracle → orc.preOk := fun e => by rw [halg] at e; exact absurd e (by simp)
  have hpwX : PW (s.block p orc).1 := by
    rw [hb]; exact (allocTasksBlock_pres _ _ _ hpre _ _ _ _ _ _).pw hpw
  rw [hb] at hpwX ⊢
  cases fn with
  | true =>
    rw [allocTasksBlock_fin] at hpwX ⊢
    simp only at hpwX ⊢
    -- a stopped process: nothing depends on it
    have hm := memSpec_updProc hpw hp [] (by simp) hpw (fin (.allocTasks oid sc pa po true) .done p.wake)
    refine h.step' hpw hp hm (by simp) rfl rfl ?_ ?_ ?_ ?_ ?_ ?_ ?_ ?_
    · intro q _ _ _ o sc1 pa1 po1 _ t _ hu; exact hu
    · intro o c n hf; exact Or.inl hf
    · intro q hq hqa o sc2 pa2 po2 hqk
      rcases hq with rfl | hq
      · simp at hqa
      · simp at hq
    · intro hqa; simp at hqa
    · intro q hq hqa t m preds o ret hqk
      rcases hq with rfl | hq
      · simp at hqa
      · simp at hq
    · exact rc_quiet h hpw hp hm rfl (by rw [hk]; simp [PK.tag])
    · exact h.keyQ
    · exact h.keyNE
  | false =>
    rw [allocTasksBlock_eq] at hpwX ⊢
    obtain ⟨h1, e_procs, e_np, e_q, e_cl, e_alg, e_ts⟩ := h.pruned p.wake p.pc oid
    have hp1 : p ∈ ((atStart s p.wake p.pc oid).updateCurrentPlan oid).procs := by rw [e_procs]; exact hp
    have hpw1 : PW ((atStart s p.wake p.pc oid).updateCurrentPlan oid) :=
      ⟨by rw [e_procs]; exact hpw.nodup, by rw [e_procs, e_np]; exact hpw.lt⟩
    have hinv1 : Cluster.Inv ((atStart s p.wake p.pc oid).updateCurrentPlan oid).cl U := by rw [e_cl]; exact hU.inv
    have hout := allocTasksIter_out (atStart s p.wake p.pc oid) p.wake orc oid sc pa po
    generalize (atStart s p.wake p.pc oid).allocTasksIter p.wake orc oid sc pa po = r at hout hpwX ⊢
    have hbatch : ∀ plan out, ((atStart s p.wake p.pc oid).updateCurrentPlan oid).runAlgorithm orc plan sc po = .ok out →
        Alg.batchRun ((atStart s p.wake p.pc oid).updateCurrentPlan oid).cl plan ((atStart s p.wake p.pc oid).updateCurrentPlan oid).taskView parts minPer split sc po = .ok out := by
      intro plan out hrun
      unfold runAlgorithm at hrun
      rw [e_alg, halg] at hrun
      exact hrun
    have hpw3 : ∀ out, PW (atS3 ((atStart s p.wake p.pc oid).updateCurrentPlan oid) out oid) := fun out =>
      ⟨by rw [atS3_procs]; exact hpw1.nodup, by rw [atS3_procs, atS3_nextPid]; exact hpw1.lt⟩
    cases hout with
    | noPlan _ =>
      refine h1.atsSimple hpw1 hp1 ha hk ?_ hpwX ?_ ?_ ?_ ?_ hinv1.keys _ _ rfl (fun hqa => by simp at hqa)
      · rfl
      · rfl
      · rfl
      · exact fun t => tstat_of_tasks rfl t
      · exact Or.inl rfl
    | algErr plan e _ _ =>
      refine h1.atsSimple hpw1 hp1 ha hk ?_ hpwX ?_ ?_ ?_ ?_ hinv1.keys _ _ rfl (fun hqa => by simp at hqa)
      · rfl
      · rfl
      · rfl
      · exact fun t => tstat_of_tasks rfl t
      · exact Or.inl rfl
    | finish plan out hplan hrun hemp hfin hrem hq =>
      obtain ⟨h3, _, g3, _, _, g6⟩ := h1.afterBatch hinv1 hp1 ha hk plan hplan parts minPer split out
        (hbatch plan out hrun)
      have hempty : planTasks (atS3 ((atStart s p.wake p.pc oid).updateCurrentPlan oid) out oid) oid = [] := by
        rw [atS3_planTasks]; unfold planTasks; rw [hplan]; exact g3 hfin
      refine h3.atsFinish (hpw3 out) (by rw [atS3_procs]; exact hp1) ha hk ?_ hpwX ?_ ?_ ?_ ?_ g6
        hempty _ _ ⟨_, _, _, rfl⟩
      · rfl
      · rfl
      · rfl
      · exact fun t => tstat_of_tasks rfl t
      · rfl
    | finishBad plan out hplan hrun hemp hfin hrem hq =>
      obtain ⟨h3, _, _, _, _, g6⟩ := h1.afterBatch hinv1 hp1 ha hk plan hplan parts minPer split out
        (hbatch plan out hrun)
      refine h3.atsSimple (hpw3 out) (by rw [atS3_procs]; exact hp1) ha hk ?_ hpwX ?_ ?_ ?_ ?_ g6 _ _ rfl
        (fun hqa => by simp at hqa)
      · rfl
      · rfl
      · rfl
      · exact fun t => tstat_of_tasks rfl t
      · exact Or.inr rfl
    | finishWait plan out hplan hrun hemp hfin hrem =>
      obtain ⟨h3, _, _, g4, g5, g6⟩ := h1.afterBatch hinv1 hp1 ha hk plan hplan parts minPer split out
        (hbatch plan out hrun)
      refine h3.atsSimple (hpw3 out) (by rw [atS3_procs]; exact hp1) ha hk ?_ hpwX ?_ ?_ ?_ ?_ g6 _ _ rfl ?_
      · rfl
      · rfl
      · rfl
      · exact fun t => tstat_of_tasks rfl t
      · exact Or.inl rfl
      intro _ o sc2 pa2 po2 e
      simp only [PK.allocTasks.injEq] at e
      obtain ⟨rfl, rfl, _⟩ := e
      exact ⟨rfl, g4, fun t ht => ⟨by rw [atS3_planTasks]; exact (g5 t ht).1, by rw [atS3_tstat]; exact (g5 t ht).2⟩⟩
    | idle plan out hplan hrun hemp hnf =>
      obtain ⟨h3, _, _, g4, g5, g6⟩ := h1.afterBatch hinv1 hp1 ha hk plan hplan parts minPer split out
        (hbatch plan out hrun)
      refine h3.atsSimple (hpw3 out) (by rw [atS3_procs]; exact hp1) ha hk ?_ hpwX ?_ ?_ ?_ ?_ g6 _ _ rfl ?_
      · rfl
      · rfl
      · rfl
      · exact fun t => tstat_of_tasks rfl t
      · exact Or.inl rfl
      intro _ o sc2 pa2 po2 e
      simp only [PK.allocTasks.injEq] at e
      obtain ⟨rfl, rfl, _⟩ := e
      exact ⟨rfl, g4, fun t ht => ⟨by rw [atS3_planTasks]; exact (g5 t ht).1, by rw [atS3_tstat]; exact (g5 t ht).2⟩⟩
    | alloc plan out y hplan hrun hemp hy =>
      obtain ⟨h3, _, _, g4, g5, _⟩ := h1.afterBatch hinv1 hp1 ha hk plan hplan parts minPer split out
        (hbatch plan out hrun)
      exact h3.atsAlloc (hpw3 out) (by rw [atS3_procs]; exact hp1) ha hk p.wake out.schedule pa g4
        (fun t ht => ⟨by rw [atS3_planTasks]; exact (g5 t ht).1, by rw [atS3_tstat]; exact (g5 t ht).2⟩)
        hpwX out.pool y

end Sys
end Topsim
