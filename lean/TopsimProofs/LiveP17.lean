/-
  LiveP17 — the declarations of Live17.lean that depend on the configuration structures, restated for
  the plan-following configurations (`LivePCfg`, `NcPCfg`, `L7PLib`); the proofs are those of Live17.lean.
-/
import TopsimProofs.LiveP15c2

namespace Topsim

open KState Sys

section

variable {env : SimEnv} {s0 : Sys}

/-- **One index of the run, while nothing has raised.** -/
theorem nc_step_P (N : NcPCfg env s0) (n : Nat) (hc : (simAt env s0 n).st.crashed = none) :
    ∃ e p, (simAt env s0 n).peek = some e ∧ (simAt env s0 n).st.proc? e.pid = some p ∧
      p.alive = true ∧ e.time = p.wake ∧ (simAt env s0 n).st.enabled e.pid ∧
      (simAt env s0 (n + 1)).st =
        ((simAt env s0 n).st.resume e.pid (env.oracle (simAt env s0 n).st)).1 := by
  obtain ⟨_, _, k1, hs⟩ := live_simRun env s0 N.hw N.hh0 n hc
  obtain ⟨e, p, hpk, hpp, ha, het, hen, hst⟩ := live_step_resume N.hw (simAt_reach env s0 n) hc hs
  exact ⟨e, p, hpk, hpp, ha, het, hen, by rw [simAt_succ_of_step hs]; exact hst⟩

theorem nc_run_P (N : NcPCfg env s0) (n : Nat) (hc : (simAt env s0 n).st.crashed = none) :
    SimRun env s0 (simAt env s0 n) ∧ (simAt env s0 n).st.halted = false :=
  ⟨(live_simRun env s0 N.hw N.hh0 n hc).1, (live_simRun env s0 N.hw N.hh0 n hc).2.1⟩

theorem nc_reachOk_P (N : NcPCfg env s0) (n : Nat) (hc : (simAt env s0 n).st.crashed = none) :
    ReachOk s0 (simAt env s0 n).st :=
  simRun_reachOk N.hw (nc_run_P N n hc).1 (nc_run_P N n hc).2

theorem nc_reach_P (N : NcPCfg env s0) (n : Nat) (hc : (simAt env s0 n).st.crashed = none) :
    Reach s0 (simAt env s0 n).st := (nc_reachOk_P N n hc).toReach

theorem nc_sinv_P (N : NcPCfg env s0) (n : Nat) : SInv (simAt env s0 n).st :=
  ((simAt_reach env s0 n).l3inv N.hw).sinv

theorem nc_bufList_P (N : NcPCfg env s0) : bufList s0.buf = [] := hb0_bufList N.hb0

theorem nc_noOracle_P (N : NcPCfg env s0) : s0.alg ≠ .oracle := N.alg.noOracle

theorem nc_rate_P (N : NcPCfg env s0) : ∀ o ∈ s0.obs, 0 < o.rate :=
  fun o ho => (N.feas.1 o ho).2.2.2.2.2.2.2

theorem nc_hsz0_P (N : NcPCfg env s0) : s0.buf.size = [] ∧ s0.buf.hot.cur ≤ s0.buf.hot.total ∧
    s0.buf.cold.cur ≤ s0.buf.cold.total :=
  ⟨N.hfull.1, Int.le_of_eq N.hfull.2.1, Int.le_of_eq N.hfull.2.2⟩

theorem nc_alg_P (N : NcPCfg env s0) (n : Nat) (hc : (simAt env s0 n).st.crashed = none) :
    PlanAlg (simAt env s0 n).st.alg := by
  rw [reach_alg (nc_reach_P N n hc)]; exact N.alg

theorem nc_over_P (N : NcPCfg env s0) (n : Nat) (hc : (simAt env s0 n).st.crashed = none) :
    (simAt env s0 n).st.buf.overThreshold = false ∧
      (simAt env s0 n).st.buf.hot.total = s0.buf.hot.total :=
  ⟨(live_not_over env s0 N.hw N.hb0 N.hfull (nc_rate_P N) N.h1 _ (nc_run_P N n hc).1 hc).1,
   (live_not_over env s0 N.hw N.hb0 N.hfull (nc_rate_P N) N.h1 _ (nc_run_P N n hc).1 hc).2.1⟩

theorem nc_bufi_P (N : NcPCfg env s0) (n : Nat) (hc : (simAt env s0 n).st.crashed = none) :
    BufI (simAt env s0 n).st :=
  reachOk_bufi s0 _ N.hw (nc_bufList_P N) (nc_reachOk_P N n hc)

theorem nc_si_P (N : NcPCfg env s0) (n : Nat) (hc : (simAt env s0 n).st.crashed = none) :
    SI (simAt env s0 n).st :=
  (reachOk_sh2 s0 _ N.hw (nc_bufList_P N) (nc_hsz0_P N) (nc_rate_P N) (nc_reachOk_P N n hc) hc).1

theorem nc_sp_P (N : NcPCfg env s0) (n : Nat) (hc : (simAt env s0 n).st.crashed = none) :
    SP (simAt env s0 n).st :=
  reachOk_sp s0 _ N.hw (nc_bufList_P N) (nc_hsz0_P N) (nc_rate_P N) (nc_reachOk_P N n hc) hc

theorem nc_fi_P (N : NcPCfg env s0) (n : Nat) (hc : (simAt env s0 n).st.crashed = none) :
    FI (simAt env s0 n).st :=
  reach_finv s0 _ N.hw (nc_reachOk_P N n hc) hc

theorem nc_wi_P (N : NcPCfg env s0) (n : Nat) (hc : (simAt env s0 n).st.crashed = none) :
    WI (simAt env s0 n).st :=
  reachOk_wi s0 _ N.hw (nc_bufList_P N) (nc_reachOk_P N n hc) hc

/-- the record of an observation at index `n` carries the static attributes of the configuration -/
theorem nc_obs_cfg_P (N : NcPCfg env s0) (n : Nat) {ob : Obs} (hob : ob ∈ (simAt env s0 n).st.obs) :
    ∃ o0 ∈ s0.obs, ob.stat = o0.stat := by
  have hkeep := (simAt_reach env s0 n).keep0 N.hw
  have hm : ob.stat ∈ s0.obs.map Obs.stat := by rw [← hkeep]; exact List.mem_map_of_mem hob
  obtain ⟨o0, ho0, hst⟩ := List.mem_map.mp hm
  exact ⟨o0, ho0, hst.symm⟩

theorem nc_block_bufferLoop_ok_P (N : NcPCfg env s0) (n : Nat) (hc : (simAt env s0 n).st.crashed = none)
    {p : Proc} (hk : p.k = .bufferLoop) (orc : Oracle) :
    ∀ err, ((simAt env s0 n).st.block p orc).2.2 ≠ .raised err := by
  rw [block_bufferLoop orc hk]
  exact Sys.nc_bufferLoop_nr _ _ (nc_over_P N n hc).1

theorem nc_noTier_P (N : NcPCfg env s0) (n : Nat) (hc : (simAt env s0 n).st.crashed = none) :
    Sys.NoTier (simAt env s0 n).st ∧ (simAt env s0 n).st.buf.cold = s0.buf.cold := by
  induction n with
  | zero =>
    have hst : (simAt env s0 0).st = s0.start := rfl
    rw [hst]
    refine ⟨?_, by rw [start_buf]⟩
    intro q hq
    rw [start_procs s0 N.hw] at hq
    simp only [List.mem_cons, List.not_mem_nil, or_false] at hq
    rcases hq with rfl | rfl | rfl | rfl | rfl <;> simp [PK.tag]
  | succ n ih =>
    have hcn := live_crashed_mono env s0 N.hw (Nat.le_succ n) hc
    obtain ⟨e, p, _, _, _, _, hen, hst⟩ := nc_step_P N n hcn
    have ih' := ih hcn
    have hover := (nc_over_P N n hcn).1
    have hcs : (simAt env s0 n).st.buf.cold.stored = [] := by rw [ih'.2]; exact N.hb0.2.2.2
    obtain ⟨h1, h2⟩ := Sys.l8_noTier_step (nc_sinv_P N n) hen (env.oracle (simAt env s0 n).st) ih'.1 hover hcs
    rw [hst]
    exact ⟨h1, h2.trans ih'.2⟩

theorem nc_block_hot2cold_ok_P (N : NcPCfg env s0) (n : Nat) (hc : (simAt env s0 n).st.crashed = none)
    {p : Proc} (hp : p ∈ (simAt env s0 n).st.procs) {cur : Option (Oid × Int)} (hk : p.k = .hot2cold cur)
    (orc : Oracle) : ∀ err, ((simAt env s0 n).st.block p orc).2.2 ≠ .raised err := by
  exfalso
  have := ((nc_noTier_P N n hc).1 p hp).1
  rw [hk] at this
  exact this rfl

theorem nc_block_cold2hot_ok_P (N : NcPCfg env s0) (n : Nat) (hc : (simAt env s0 n).st.crashed = none)
    {p : Proc} (hp : p ∈ (simAt env s0 n).st.procs) {cur : Option (Oid × Int)} (hk : p.k = .cold2hot cur)
    (orc : Oracle) : ∀ err, ((simAt env s0 n).st.block p orc).2.2 ≠ .raised err := by
  exfalso
  have := ((nc_noTier_P N n hc).1 p hp).2
  rw [hk] at this
  exact this rfl

theorem nc_fit_P (N : NcPCfg env s0) (n : Nat) (hc : (simAt env s0 n).st.crashed = none) :
    Sys.ncFit (simAt env s0 n).st.buf (simAt env s0 n).st.obs := by
  intro ob hob
  obtain ⟨o0, ho0, hst⟩ := nc_obs_cfg_P N n hob
  obtain ⟨_, _, hd, _, hr, _⟩ := Sys.ot_stat_fields hst
  obtain ⟨_, _, _, _, f5, _, f7, _⟩ := N.feas.1 o0 ho0
  rw [hd, hr, (nc_over_P N n hc).2]
  exact ⟨f7, f5⟩

theorem nc_block_telescope_ok_P (N : NcPCfg env s0) (n : Nat) (hc : (simAt env s0 n).st.crashed = none)
    {p : Proc} (hk : p.k = .telescope) (orc : Oracle) :
    ∀ err, ((simAt env s0 n).st.block p orc).2.2 ≠ .raised err := by
  rw [block_telescope orc hk]
  exact Sys.nc_telescope_nr _ _ (nc_fit_P N n hc)

theorem nc_block_allocIngest_ok_P (N : NcPCfg env s0) (n : Nat) (hc : (simAt env s0 n).st.crashed = none)
    {p : Proc} (hp : p ∈ (simAt env s0 n).st.procs) {o : Oid} {tl : Int} (hk : p.k = .allocIngest o tl)
    (orc : Oracle) : ∀ err, ((simAt env s0 n).st.block p orc).2.2 ≠ .raised err := by
  rw [block_allocIngest orc hk]
  have hadm := ((nc_fi_P N n hc).ok p hp).aiAdm o tl hk
  obtain ⟨ob, hob, _⟩ := (nc_sinv_P N n).eg.adm o hadm
  exact Sys.nc_allocIngest_nr _ _ _ _ _ hob

theorem nc_maxRate_P (N : NcPCfg env s0) (n : Nat) (hc : (simAt env s0 n).st.crashed = none) :
    (simAt env s0 n).st.buf.hot.maxRate = s0.buf.hot.maxRate :=
  (reachOk_ref s0 _ N.hw (nc_bufList_P N) (nc_reachOk_P N n hc) hc).maxRate.1

theorem nc_block_ingestStream_ok_P (N : NcPCfg env s0) (n : Nat) (hc : (simAt env s0 n).st.crashed = none)
    {p : Proc} (hp : p ∈ (simAt env s0 n).st.procs) (ha : p.alive = true) {o : Oid} {tl : Int}
    (hk : p.k = .ingestStream o tl) (orc : Oracle) :
    ∀ err, ((simAt env s0 n).st.block p orc).2.2 ≠ .raised err := by
  rw [block_ingestStream orc hk]
  obtain ⟨ob, hob, hrun⟩ := Sys.l8_stream_running (nc_sinv_P N n) (nc_bufi_P N n hc) (nc_si_P N n hc) (nc_sp_P N n hc)
    hp ha hk
  obtain ⟨o0, ho0, hst⟩ := nc_obs_cfg_P N n (obs_mem_of_obs? hob).1
  obtain ⟨_, _, _, _, hr, _⟩ := Sys.ot_stat_fields hst
  refine Sys.nc_ingestStream_nr _ _ _ _ _ hob hrun ?_
  rw [hr, nc_maxRate_P N n hc]
  exact (N.feas.1 o0 ho0).2.2.2.1

theorem nc_block_schedLoop_ok_P (N : NcPCfg env s0) (n : Nat) (hc : (simAt env s0 n).st.crashed = none)
    {p : Proc} (hk : p.k = .schedLoop) (orc : Oracle) :
    ∀ err, ((simAt env s0 n).st.block p orc).2.2 ≠ .raised err := by
  rw [block_schedLoop orc hk]
  apply Sys.nc_schedLoop_nr
  intro o hl
  obtain ⟨ys, hys⟩ := List.getLast?_eq_some_iff.mp hl
  have hmem : o ∈ (simAt env s0 n).st.buf.hot.stored := by rw [hys]; simp
  have hpos : 0 < locCount (simAt env s0 n).st o := by
    unfold locCount bufList
    simp only [List.count_append]
    have := List.count_pos_iff.mpr hmem
    omega
  obtain ⟨ob, hob, _⟩ := (nc_bufi_P N n hc).locObs o hpos
  exact ⟨ob, hob⟩

end

end Topsim

