/-
  Fit4 — F14: at the telescope's block, in SimPy's order, in a run that has raised no exception,
  the reservation counter is EXACTLY the ingest pool: `provIngest = |ingest pool|`, and nothing is
  promised — the `promised` of the repaired admission test, `max 0 (provIngest − |ingest pool|)`, is
  exactly the number of machines promised and not yet provisioned (`sim_promised_exact`).

  Ingredients: the exact ledger `provIngest = Σ (demand of the live supervisors)` (`l8_G_step`, Live8c),
  the exact count of the machines an observation's allocation processes hold between `ast` and
  `ast + duration` (`sim_ingest_exact`, `sim_ingest_at_end`, OnTime10), and a new small invariant: a
  live ingest supervisor past its first block has a non-negative counter (`SupTl`), so it is due at
  `ast + duration` at the latest.
-/
import TopsimProofs.Fit3
import TopsimProofs.Live8c
import TopsimProofs.OnTime10

namespace Topsim

open KState Sys

/-! ### counting entries per observation -/

theorem fit_indicator_sum_le_one (l : List Oid) (hnd : l.Nodup) (x : Option Oid) :
    (l.map (fun o => if x == some o then 1 else 0)).sum ≤ 1 := by
  induction l with
  | nil => simp
  | cons a l ih =>
    rw [List.nodup_cons] at hnd
    simp only [List.map_cons, List.sum_cons]
    by_cases hx : (x == some a) = true
    · have hxe : x = some a := by simpa using hx
      have h0 : (l.map (fun o => if x == some o then 1 else 0)).sum = 0 := by
        apply fit_sum_zero
        intro b hb
        have hab : a ≠ b := fun e => hnd.1 (e ▸ hb)
        have hne : ¬ ((x == some b) = true) := by rw [hxe]; simpa using hab
        exact if_neg hne
      rw [h0, if_pos hx]
      exact Nat.le_refl _
    · have := ih hnd.2
      rw [if_neg hx]
      omega

theorem fit_entCount_sum_le (E : List RunEntry) (l : List Oid) (hnd : l.Nodup) :
    (l.map (ilEntCount E)).sum ≤ E.length := by
  induction E with
  | nil =>
    have : (l.map (ilEntCount [])).sum = 0 := fit_sum_zero _ _ (fun _ _ => rfl)
    rw [this]; exact Nat.zero_le _
  | cons e E ih =>
    have h1 : (l.map (ilEntCount (e :: E))).sum
        = (l.map (ilEntCount E)).sum + (l.map (fun o => if e.obs == some o then 1 else 0)).sum := by
      rw [← il_sum_add]
      congr 1
      apply List.map_congr_left
      intro o _
      exact ilEntCount_cons e E o
    rw [h1, List.length_cons]
    have := fit_indicator_sum_le_one l hnd e.obs
    omega

namespace Sys

/-! ### the supervisor's counter is never negative -/

/-- a live ingest supervisor past its first block counts a non-negative number of steps left -/
def SupTl (s : Sys) : Prop :=
  ∀ p ∈ s.procs, p.alive = true → 1 ≤ p.pc → ∀ o tl, p.k = .allocIngest o tl → 0 ≤ tl

theorem supTl_iter (s : Sys) (now : Time) (oid : Oid) (tl : Int) (htl : 0 ≤ tl) :
    ∀ d, (s.allocIngestIter now oid tl).2.2 = .timeout d →
      ∃ tl', (s.allocIngestIter now oid tl).2.1 = .allocIngest oid tl' ∧ 0 ≤ tl' := by
  intro d
  unfold allocIngestIter
  simp only
  split
  · intro h; cases h
  · rename_i o _
    by_cases h1 : o.status = .finished
    · simp only [h1, if_true]; intro h; cases h
    · simp only [h1, if_false]
      by_cases h2 : o.status = .waiting
      · simp only [h2, if_true]; intro _; exact ⟨tl, rfl, htl⟩
      · simp only [h2, if_false]
        by_cases h3 : tl > 0
        · simp only [h3, if_true]; intro _; exact ⟨tl - 1, rfl, by omega⟩
        · simp only [h3, if_false]; intro h; cases h

theorem supTl_block (s : Sys) (now : Time) (pc : Nat) (oid : Oid) (tl : Int)
    (hdur : ∀ ob, s.obs? oid = some ob → 1 ≤ ob.duration) (htl : 1 ≤ pc → 0 ≤ tl) :
    ∀ d, (s.allocIngestBlock now pc oid tl).2.2 = .timeout d →
      ∃ tl', (s.allocIngestBlock now pc oid tl).2.1 = .allocIngest oid tl' ∧ 0 ≤ tl' := by
  unfold allocIngestBlock
  split
  · cases hob : s.obs? oid with
    | none =>
      -- no record: the block raises
      intro d hd
      exfalso
      simp only at hd
      unfold allocIngestIter at hd
      have : (s.updObs oid (fun r => { r with ast := some (natNow now) })).obs? oid = none := by
        rw [obs?_updObs s oid oid (fun r => { r with ast := some (natNow now) }) (fun _ => rfl), hob]; rfl
      simp only [this] at hd
      cases hd
    | some ob =>
      simp only
      exact supTl_iter _ now oid _ (by have := hdur ob hob; omega)
  · rename_i hpc
    exact supTl_iter s now oid tl (htl (by omega))

end Sys

variable {env : SimEnv} {s0 : Sys}

theorem sim_supTl (env : SimEnv) (s0 : Sys) (hw : WFConfig s0) (k : SimState) (h : SimReach env s0 k) :
    SupTl k.st := by
  refine SimReach.sys_induct hw SupTl ?_ (fun _ hs => hs) (fun _ hs => hs) ?_ k h
  · intro p hp _ hpc
    rw [start_procs s0 hw] at hp
    simp only [List.mem_cons, List.not_mem_nil, or_false] at hp
    rcases hp with rfl | rfl | rfl | rfl | rfl <;> simp at hpc
  · intro k hr ih pid p hpp ha _
    have hinv := hr.l3inv hw
    have hpw := hinv.sinv.pw
    obtain ⟨hpm, hpid⟩ := proc?_some hpp
    generalize env.oracle k.st = orc
    have hm := nco_resume_procs hpw hpp ha orc
    intro q' hq' hqa hqc o tl hqk
    rcases hm q' hq' with rfl | ⟨h, _⟩ | ⟨_, w2, _⟩
    · -- the process that ran
      rw [fin_k] at hqk
      obtain ⟨_, d, hy⟩ := fin_alive _ _ _ _ hqa
      have htag := block_tag k.st hpw p orc
      cases hk : p.k with
      | allocIngest o' tl' =>
        rw [block_allocIngest orc hk] at hqk hy
        obtain ⟨tl'', hk'', h0⟩ := supTl_block k.st p.wake p.pc o' tl'
          (fun ob hob => hinv.ti.durPos ob (obs_mem_of_obs? hob).1)
          (fun hpc => ih p hpm ha hpc o' tl' hk) d hy
        rw [hk''] at hqk
        injection hqk with _ e2
        omega
      | _ =>
        rw [hqk, hk] at htag
        simp [PK.tag] at htag
    · exact ih q' h hqa hqc o tl hqk
    · omega

/-- **The exact ledger**, on every run in which no block has raised: the counter is the sum of the
demands of the observations whose ingest supervisor is alive -/
theorem sim_ledger (env : SimEnv) (s0 : Sys) (hw : WFConfig s0) (k : SimState) (h : SimReach env s0 k)
    (hc : k.st.crashed = none) : Sys.l8G k.st = 0 := by
  induction h with
  | start => exact Sys.l8_G_start s0 hw
  | step k k1 hr hs ih =>
    have hck := live_step_crashed hw hr hs hc
    obtain ⟨e, _, hcase⟩ := ot_step_cases hw hr hs
    rcases hcase with ⟨h1, _⟩ | ⟨p, hpp, ha, _, hen, h1⟩
    · rw [h1]; exact ih hck
    · rw [h1] at hc ⊢
      rw [Sys.l8_G_step (hr.l3inv hw).sinv hen _ (fun _ => il_oracle_preOk env k.st) ?_]
      · exact ih hck
      · intro p' hp' err
        rw [hpp] at hp'; cases hp'
        exact (resume_nocrash _ _ _ p hpp ha hc).2 err
  | collate k _ ih => exact ih hc

/-- **At the telescope's block the counter is exactly the ingest pool, and nothing is promised.** -/
theorem sim_promised_exact (env : SimEnv) (s0 : Sys) (hw : WFConfig s0) (hb0 : s0.buf.hot.stored = [])
    (k : SimState) (hr : SimReach env s0 k) (hc : k.st.crashed = none) (e : HEntry)
    (hpk : k.peek = some e) (p : Proc) (hpp : k.st.proc? e.pid = some p) (ha : p.alive = true)
    (hk : p.k = .telescope) :
    k.st.provIngest = (k.st.cl.ingest.length : Int) ∧ k.st.ingestPromised = 0 := by
  obtain ⟨h0, hge⟩ := sim_tel_nothing_promised env s0 hw hb0 k hr e hpk p hpp ha hk
  refine ⟨?_, h0⟩
  have hinv := hr.l3inv hw
  have hpw := hinv.sinv.pw
  have hil : ILC k.st.procs k.st.ilDemand k.st.cl.ilEntries k.st.provIngest k.st.maxIngest k.st.admitted :=
    hinv.il
  obtain ⟨hpm, hpid⟩ := proc?_some hpp
  obtain ⟨U, hU⟩ := hinv.sinv.ci
  have hlen := il_ingest_length hU.inv
  have hled := sim_ledger env s0 hw k hr hc
  unfold Sys.l8G Sys.l8F at hled
  have hno := sim_tel_noPend hw hb0 hr hpk hpp ha hk
  obtain ⟨hen, het⟩ := hinv.heap.enabled hpw hpk hpp ha
  obtain ⟨p', hp', _, hmin⟩ := hen
  rw [hpp] at hp'; cases hp'
  obtain ⟨m, hwm⟩ := hinv.heap.telInt p hpm hk
  have hA := sim_otAst env s0 hw k hr
  have hT := sim_supTl env s0 hw k hr
  -- every live supervisor's observation holds exactly its demand
  have hexact : ∀ o ∈ ilLiveAI k.st.procs, ilEntCount k.st.cl.ilEntries o = k.st.ilDemand o := by
    intro o ho
    obtain ⟨q, hq, hqa, hqk⟩ := mem_ilLiveAI.mp ho
    have hqpc : 1 ≤ q.pc := by
      cases hq0 : q.pc with
      | zero => exact absurd ⟨q, hq, hqa, hq0, by rw [ncoIng_of_unprov (Or.inl hqk)]; simp⟩ hno
      | succ j => omega
    obtain ⟨tl, hqk'⟩ : ∃ tl, q.k = .allocIngest o tl := by
      cases hkk : q.k <;> rw [hkk] at hqk <;> simp [PK.aiObs] at hqk
      subst hqk; exact ⟨_, rfl⟩
    obtain ⟨ob, a, j, hob, hast, hj, hqw, htl⟩ := hinv.ti.aiRun q hq hqa hqpc o tl hqk'
    have htl0 := hT q hq hqa hqpc o tl hqk'
    have hjD : j ≤ ob.duration := by omega
    have hmq : ((m : Nat) : Time) ≤ ((a + j : Nat) : Time) := by
      rw [← hwm, ← hqw]; exact hmin q hq hqa
    have hmq' : m ≤ a + j := by exact_mod_cast hmq
    have ham : a < m := by
      rcases hA.tel o ob a hob hast p hpm hk with h1 | ⟨_, h1⟩
      · rw [hwm] at h1; exact_mod_cast h1
      · rw [ha] at h1; cases h1
    have hdem : k.st.ilDemand o = ob.ingestDemand := by unfold ilDemand; rw [hob]
    rw [hdem]
    by_cases hlt : m < a + ob.duration
    · have hlo : ((a : Nat) : Time) < e.time := by rw [het, hwm]; exact_mod_cast ham
      have hhi : e.time < (((a + ob.duration : Nat) : Nat) : Time) := by
        rw [het, hwm]; exact_mod_cast hlt
      exact (sim_ingest_exact env s0 hw k hr hc hpk hpp ha hob hast hlo hhi).2.2
    · have hmeq : m = a + ob.duration := by omega
      have hdue : TelDue k (a + ob.duration) := ⟨e, p, hpk, hpp, ha, hk, by rw [hwm, hmeq]⟩
      exact (sim_ingest_at_end env s0 hw k hr hc hob hast hdue).2.2
  have hnd := ilLiveAI_nodup _ hpw.nodup hil.aiUniq
  have hsum : ((ilLiveAI k.st.procs).map k.st.ilDemand).sum ≤ k.st.cl.ilEntries.length := by
    have h1 : ((ilLiveAI k.st.procs).map k.st.ilDemand).sum
        = ((ilLiveAI k.st.procs).map (ilEntCount k.st.cl.ilEntries)).sum := by
      apply congrArg
      apply List.map_congr_left
      intro o ho
      exact (hexact o ho).symm
    rw [h1]
    exact fit_entCount_sum_le _ _ hnd
  omega

end Topsim
